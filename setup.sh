#!/bin/sh
# Build the framework from files on disk only (offline).
set -e
cd "$(dirname "$0")"
export CARGO_NET_OFFLINE=true
(cd lean/RTA && lake build RTA rtadriver)
(cd harness && cargo build --offline --profile checked && cargo build --offline --profile release && cargo build --offline --profile relchk)
echo setup-ok
