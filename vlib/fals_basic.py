"""Falsifiers for C08 (fixed-point search) and C09 (supply): real code vs naive oracle."""
import random
from . import common, gen, oracles
from .gen import wchoice


def parse_list(s):
    s = s.strip()
    if not (s.startswith("[") and s.endswith("]")):
        return None
    body = s[1:-1].strip()
    return [int(x) for x in body.split(",")] if body else []


def real(ops, profile="checked"):
    return common.run_parallel(common.harness_bin(profile), ops)


# ---------------------------------------------------------------------------
# C08

def falsify_C08(ctx):
    rng = random.Random(ctx["seed"] * 7919 + 8)
    n = 1500 if ctx["tier"] == "quick" else 60000
    cases = []
    for i in range(n):
        s = gen.gen_supply(rng, maxP=wchoice(rng, [(6, 10), (3, 30)]))
        tab = gen.gen_tab(rng)
        lim = wchoice(rng, [(1, rng.randint(0, 2)), (3, rng.randint(1, 30)), (4, rng.randint(30, 600))])
        base = tab[0][1] if tab and tab[0][0] == 0 else 0
        off = rng.randint(0, base + 1) if rng.random() < 0.6 else 0
        cases.append((s, off, lim, tab))
    # real provided_service tables
    sbf_ops = [f"sbfs {gen.supply_str(s)} 0 {off + lim + 2}" for (s, off, lim, tab) in cases]
    sw_ops = [f"swo {gen.supply_str(s)} {off} {lim} {gen.tab_str(tab)}" for (s, off, lim, tab) in cases]
    sbfs = real(sbf_ops)
    res = real(sw_ops)
    cex = []
    nontrivial = set()
    samples = []
    dist = {"ok0": 0, "ok": 0, "div": 0, "at_limit": 0, "skipped_outside_busy_window": 0}
    for (s, off, lim, tab), sb, r, op in zip(cases, sbfs, res, sw_ops):
        tbl = parse_list(sb)
        if tbl is None:
            cex.append({"kind": "sbf_failed", "op": op, "impl": sb})
            continue
        w = lambda x: oracles.tab_eval(tab, x)
        # restrict to offsets inside the busy window (the distance_to guard):
        if off >= 1 and tbl[off - 1] >= w(1):
            dist["skipped_outside_busy_window"] += 1
            continue
        exp = oracles.least_scan(lambda r_: w(max(r_, 1)) <= tbl[off + r_], lim)
        expected = f"ok {exp}" if exp is not None else f"div {off} {lim}"
        if exp == 0:
            dist["ok0"] += 1
        elif exp is None:
            dist["div"] += 1
        else:
            dist["ok"] += 1
            if exp == lim:
                dist["at_limit"] += 1
        if exp not in (None, 0):
            nontrivial.add(op)
        if r != expected:
            cex.append({"kind": "search_not_least", "op": op, "impl": r, "expected": expected,
                        "limit": lim, "offset": off})
        elif len(samples) < 3 and exp not in (None, 0):
            samples.append({"op": op, "impl": r, "linear_scan": expected})
    # an Ok result never changes when the limit is raised
    raise_ops, raise_exp = [], []
    for (s, off, lim, tab), r in zip(cases, res):
        if r.startswith("ok "):
            raise_ops.append(f"swo {gen.supply_str(s)} {off} {lim + rng.randint(1, 500)} {gen.tab_str(tab)}")
            raise_exp.append(r)
    for op, a, e in zip(raise_ops, real(raise_ops), raise_exp):
        if a != e:
            cex.append({"kind": "ok_changed_by_larger_limit", "op": op, "impl": a, "expected": e})
    # max_response_time
    mops, mexp = [], []
    for i in range(n // 3):
        k = rng.randint(0, 6)
        items, vals = [], []
        for _ in range(k):
            if rng.random() < 0.8:
                v = rng.randint(0, 30)
                items.append(f"ok {v}")
                vals.append(("ok", v))
            else:
                o, l = rng.randint(0, 9), rng.randint(0, 99)
                items.append(f"div {o} {l}")
                vals.append(("div", o, l))
        errs = [v for v in vals if v[0] == "div"]
        if errs:
            e = f"div {errs[0][1]} {errs[0][2]}"
        elif vals:
            e = f"ok {max(v[1] for v in vals)}"
        else:
            e = "ok 0"
        mops.append(f"maxrt {k} " + " ".join(items))
        mexp.append(e)
    for op, a, e in zip(mops, real(mops), mexp):
        if k >= 2:
            nontrivial.add(op)
        if a != e:
            cex.append({"kind": "max_response_time", "op": op, "impl": a, "expected": e})
    return {"cases": len(cases) + len(raise_ops) + len(mops), "nontrivial": len(nontrivial),
            "rule": "random supplies (all four kinds incl. default service_time) x step-shaped monotone workloads x offsets inside the busy window x limits; oracle = linear scan over the REAL provided_service; non-trivial = distinct op whose least solution is > 0 (or max_response_time over >= 2 items)",
            "counterexamples": cex, "samples": samples, "distribution": dist}


# ---------------------------------------------------------------------------
# C09

def sup_variants(Q, D, P):
    v = [("csup", Q, D, P)]
    if D == P:
        v.append(("psup", Q, P))
    return v


def falsify_C09(ctx):
    rng = random.Random(ctx["seed"] * 7919 + 9)
    quick = ctx["tier"] == "quick"
    cex = []
    nontrivial = set()
    samples = []
    cases = 0
    exhaustive_parts = []

    # (a) exhaustive placements for tiny parameters, real provided_service must equal the minimum
    maxP = 4 if quick else 6
    for P in range(1, maxP + 1):
        nper = 4 if P <= 4 else 3
        for D in range(1, P + 1):
            for Q in range(1, D + 1):
                maxd = (nper - 1) * P
                tables = {}
                for sv in sup_variants(Q, D, P):
                    tables[sv] = parse_list(real([f"sbfs {gen.supply_str(sv)} 0 {maxd}"])[0])
                for delta in range(0, maxd + 1):
                    m = oracles.placements_min_service(Q, D, P, nper, delta)
                    for sv, tbl in tables.items():
                        cases += 1
                        if 0 < Q < P:
                            nontrivial.add((sv, delta))
                        if tbl is None or tbl[delta] != m:
                            cex.append({"kind": "sbf_not_min_over_placements", "op": f"sbf {gen.supply_str(sv)} {delta}",
                                        "impl": None if tbl is None else tbl[delta], "expected": m, "periods": nper})
                if len(samples) < 2 and Q < D < P:
                    samples.append({"supply": f"csup {Q} {D} {P}", "min_over_all_placements_0..": [oracles.placements_min_service(Q, D, P, nper, d) for d in range(0, P + 2)],
                                    "impl": tables[("csup", Q, D, P)][:P + 2]})
    exhaustive_parts.append(f"all (Q,D,P) with P <= {maxP}, all placements over 3-4 periods, all windows")

    # (b) laws on the real functions for larger parameters
    n = 300 if quick else 6000
    for i in range(n):
        s = gen.gen_supply(rng, maxP=wchoice(rng, [(5, 15), (3, 80), (1, 1000)]))
        inner = s[1] if s[0] == "dflt" else s
        P = inner[-1] if inner[0] != "ded" else 1
        Q = inner[1] if inner[0] != "ded" else 1
        upto = min(6 * P + 5, 4000)
        ss = gen.supply_str(s)
        tbl = parse_list(real([f"sbfs {ss} 0 {upto}"])[0])
        cases += 1
        if tbl is None:
            cex.append({"kind": "sbf_failed", "op": f"sbfs {ss} 0 {upto}"})
            continue
        if tbl[0] != 0:
            cex.append({"kind": "sbf_zero", "op": f"sbf {ss} 0", "impl": tbl[0], "expected": 0})
        for t in range(upto):
            if not (tbl[t] <= tbl[t + 1] <= tbl[t] + 1):
                cex.append({"kind": "sbf_not_monotone_1lipschitz", "op": f"sbfs {ss} {t} {t+1}", "impl": tbl[t:t + 2]})
                break
        # adversarial process oracle
        for t in range(0, upto + 1, max(1, upto // 50)):
            e = oracles.sbf_spec(s, t)
            if tbl[t] != e:
                cex.append({"kind": "sbf_vs_adversarial_process", "op": f"sbf {ss} {t}", "impl": tbl[t], "expected": e})
                break
        # exact inverse
        maxd = tbl[upto]
        sts = parse_list(real([f"sts {ss} 0 {maxd}"])[0])
        if sts is None:
            cex.append({"kind": "st_failed", "op": f"sts {ss} 0 {maxd}"})
            continue
        for d in range(0, maxd + 1):
            e = next(t for t in range(upto + 1) if tbl[t] >= d)
            if sts[d] != e:
                cex.append({"kind": "service_time_not_least", "op": f"st {ss} {d}", "impl": sts[d], "expected": e})
                break
        nontrivial.add(ss)
        if len(samples) < 4 and inner[0] == "csup" and Q < P:
            samples.append({"supply": ss, "sbf[0..]": tbl[:2 * P + 2], "st[0..]": sts[:Q + 2]})
    # (c) reductions
    m = 100 if quick else 2000
    for i in range(m):
        P = gen.small(rng, 1, 60)
        Q = rng.randint(1, P)
        upto = 5 * P + 3
        a = real([f"sbfs csup {Q} {P} {P} 0 {upto}", f"sbfs psup {Q} {P} 0 {upto}",
                  f"sts csup {Q} {P} {P} 0 {3*Q+1}", f"sts psup {Q} {P} 0 {3*Q+1}",
                  f"sbfs psup {P} {P} 0 {upto}", f"sbfs ded 0 {upto}",
                  f"sts psup {P} {P} 0 {upto}", f"sts ded 0 {upto}"])
        cases += 4
        for (i1, i2, what) in [(0, 1, "constrained(D=P) vs periodic: sbf"), (2, 3, "constrained(D=P) vs periodic: st"),
                               (4, 5, "periodic(Q=P) vs dedicated: sbf"), (6, 7, "periodic(Q=P) vs dedicated: st")]:
            if a[i1] != a[i2]:
                cex.append({"kind": "reduction", "what": what, "Q": Q, "P": P, "impl": [a[i1][:200], a[i2][:200]]})
    return {"cases": cases, "nontrivial": len(nontrivial),
            "rule": "(a) exhaustive: every (Q,D,P) with small P, every placement of the budget over 3-4 periods, every window, compared with the real provided_service; (b) random larger reservations: sbf(0)=0, monotone, 1-Lipschitz, equals the adversarial process, service_time = least t by scan (specialised and default implementation); (c) reductions. non-trivial = distinct (supply, window) with 0<Q<P resp. distinct supply",
            "counterexamples": cex, "samples": samples, "exhaustive_parts": exhaustive_parts}
