"""Known-findings protocol: /verif/known_findings.json is committed and never written at
run time.  An entry with status 'known' suppresses exactly the counterexamples its
matcher accepts; 'fixed' entries suppress nothing."""
import json, os
from . import common


def load():
    p = os.path.join(common.VERIF, "known_findings.json")
    if not os.path.exists(p):
        return []
    return json.load(open(p))["findings"]


# matcher name -> predicate over a counterexample dict
MATCHERS = {}


def matcher(name):
    def deco(f):
        MATCHERS[name] = f
        return f
    return deco


@matcher("k4_limit_zero_zero_demand")
def _k4(cex):
    return cex.get("kind") == "search_not_least" and cex.get("limit") == 0 and cex.get("expected") == "ok 0"


def classify(pid, cexs):
    """returns (known, new): known = list of (finding, first matching cex) (one per
    finding), new = list of counterexamples no known finding accepts."""
    fs = [f for f in load() if f["property"] == pid and f["status"] == "known"]
    known = {}
    new = []
    for c in cexs:
        hit = None
        for f in fs:
            m = MATCHERS.get(f["matcher"])
            if m and m(c):
                hit = f
                break
        if hit is None:
            new.append(c)
        elif hit["id"] not in known:
            known[hit["id"]] = (hit, c)
    return list(known.values()), new
