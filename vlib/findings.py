"""Known-findings protocol: /verif/known_findings.json is committed and never written at
run time.  An entry with status 'known' suppresses exactly the counterexamples its
matcher accepts; 'fixed' entries suppress nothing."""
import json, os
from . import common


def load():
    p = os.path.join(common.VERIF, "known_findings.json")
    if not os.path.exists(p):
        return []
    return json.load(open(p))["findings"]


# matcher name -> predicate over a counterexample dict
MATCHERS = {}


def matcher(name):
    def deco(f):
        MATCHERS[name] = f
        return f
    return deco


@matcher("k4_limit_zero_zero_demand")
def _k4(cex):
    return cex.get("kind") == "search_not_least" and cex.get("limit") == 0 and cex.get("expected") == "ok 0"


def _reason(label):
    def m(cex):
        return cex.get("kind") in ("steps_not_exact", "rb_steps_not_exact", "delta_min_not_dual",
                                   "derived_smaller_than_source", "derived_differs_on_prefix") and label in cex.get("reasons", [])
    return m


MATCHERS["f2_propagated_over_nothing"] = _reason("F2")
MATCHERS["f3_plateau_ended_curve"] = _reason("F3")
MATCHERS["k1_prefix_yields_zero"] = _reason("K1")


@matcher("f6_extrapolate_loosens_beyond_horizon")
def _f6(cex):
    return cex.get("kind") == "extrapolation_loosens" and cex.get("beyond_extrapolated_horizon") is True


@matcher("f7_cost_extrapolate_raises_beyond_range")
def _f7(cex):
    return cex.get("kind") == "cost_extrapolation_raises" and cex.get("beyond_extrapolated_range") is True


@matcher("f8_derived_from_non_subadditive_source")
def _f8(cex):
    return cex.get("kind") in ("derived_smaller_than_source", "derived_differs_on_prefix") and cex.get("source_subadditive") is False


@matcher("k4_analysis_limit_zero")
def _k4a(cex):
    return cex.get("kind") == "analysis_not_naive" and cex.get("limit") == 0


@matcher("k5_tua_never_releases")
def _k5(cex):
    return cex.get("kind") == "analysis_not_naive" and cex.get("tua_never_releases") is True and cex.get("limit", 1) >= 1


def _areason(label):
    def m(cex):
        return cex.get("kind") == "analysis_not_naive" and label in cex.get("reasons", []) and cex.get("limit", 1) >= 1 \
            and not cex.get("tua_never_releases")
    return m


MATCHERS["k1_analysis"] = _areason("K1")
MATCHERS["f3_analysis"] = _areason("F3")
MATCHERS["f2_analysis"] = _areason("F2")


@matcher("f10_multiframe_not_am")
def _f10(cex):
    return cex.get("kind") in ("fifo_bound_exceeded", "fp_bound_exceeded", "edf_bound_exceeded") and \
        cex.get("multiframe_not_accumulatively_monotonic") is True


@matcher("k3_event_source_examines_offset_L")
def _k3(cex):
    return cex.get("kind") == "event_source_ne_fifo" and cex.get("both_equal_their_naive_spec") is True


@matcher("k5_npedf_never_releasing_task")
def _k5b(cex):
    return cex.get("kind") == "max_npedf_ne_fifo" and cex.get("some_task_never_releases") is True


C20_KINDS = ("profile_dependent_or_panic", "ros_profile_dependent_or_panic", "query_profile_dependent")


@matcher("k1_c20")
def _k1c20(cex):
    return cex.get("kind") in C20_KINDS and "K1" in cex.get("reasons", [])


@matcher("f9_edf_never_releasing_tua")
def _f9(cex):
    return cex.get("kind") == "profile_dependent_or_panic" and cex.get("tua_never_releases") is True and \
        cex.get("analysis") in ("edf_np", "edf_lp")


@matcher("f3_c20_bw_debug_assert")
def _f3c20(cex):
    return cex.get("kind") == "ros_profile_dependent_or_panic" and "F3" in cex.get("reasons", []) and \
        cex.get("op", "").startswith("bw ") and cex.get("checked") == "panic"


@matcher("f11_bw_debug_hang")
def _f11(cex):
    return cex.get("kind") == "ros_profile_dependent_or_panic" and cex.get("bw_debug_hang") is True and \
        "NEVER" in cex.get("reasons", [])


@matcher("f12_all_zero_delta_min")
def _f12(cex):
    return cex.get("kind") == "derived_curve_all_zero_panics" and cex.get("dmin_all_zero") is True


@matcher("f12_c20")
def _f12c20(cex):
    return cex.get("kind") == "derived_curve_all_zero_panics_c20" and cex.get("dmin_all_zero") is True


@matcher("f2_c20_spurious_step_underflow")
def _f2c20(cex):
    return cex.get("kind") == "profile_dependent_or_panic" and cex.get("tua_never_releases") is True and \
        "F2" in cex.get("reasons", []) and cex.get("analysis") in ("fp_np", "fp_lp", "edf_np", "edf_lp") and \
        cex.get("checked") == "panic"


@matcher("f5_wcet_extrapolate_zero")
def _f5(cex):
    return cex.get("kind") == "wcet_extrapolate_zero"


@matcher("k2_ecrts19_pruning_lossy")
def _k2(cex):
    return cex.get("kind") == "ros_not_naive" and cex.get("pruned_below_all_offsets") is True and cex.get("limit", 1) >= 1


@matcher("k4_ros_limit_zero")
def _k4r(cex):
    return cex.get("kind") == "ros_not_naive" and cex.get("limit") == 0


def _rreason(label):
    def m(cex):
        return cex.get("kind") == "ros_not_naive" and label in cex.get("reasons", []) and cex.get("limit", 1) >= 1
    return m


MATCHERS["k1_ros"] = _rreason("K1")
MATCHERS["f3_ros"] = _rreason("F3")
MATCHERS["never_ros"] = _rreason("NEVER")


@matcher("f4_poisson_large_mean")
def _f4(cex):
    return cex.get("kind") in ("poisson_quantile_wrong", "poisson_no_result", "poisson_not_monotone") and \
        cex.get("mean_at_least_100") is True


def classify(pid, cexs):
    """returns (known, new): known = list of (finding, first matching cex) (one per
    finding), new = list of counterexamples no known finding accepts."""
    fs = [f for f in load() if f["property"] == pid and f["status"] == "known"]
    known = {}
    new = []
    for c in cexs:
        hit = None
        for f in fs:
            m = MATCHERS.get(f["matcher"])
            if m and m(c):
                hit = f
                break
        if hit is None:
            new.append(c)
        elif hit["id"] not in known:
            known[hit["id"]] = (hit, c)
    return list(known.values()), new
