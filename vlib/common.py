"""Shared plumbing for /verif/check: building, running the two drivers, diffing."""
import json, os, subprocess, sys, time, hashlib, re

VERIF = os.path.dirname(os.path.dirname(os.path.abspath(__file__)))
LEAN = os.path.join(VERIF, "lean", "RTA")
HARNESS = os.path.join(VERIF, "harness")
REPO = "/repo"
WORK = os.path.join(VERIF, "work")
REPLAYS = os.path.join(VERIF, "replays")
NCPU = os.cpu_count() or 4

ALLOWED_AXIOMS = {"propext", "Classical.choice", "Quot.sound"}

TRUSTED_BASE = [
    "Lean 4.33.0 kernel; axioms allowed: propext, Classical.choice, Quot.sound (audited with #print axioms per theorem; no sorry/admit/native_decide/own axioms)",
    "hand-written Lean model of the Rust code (lean/RTA/RTA/Model), tied to /repo only by differential execution of the model driver and the real crate on generated operations (agreement on the generated inputs, not on all inputs)",
    "Rust harness (harness/), Lean driver parser/printer (lean/RTA/Driver), Python generator/differ/oracles (check, vlib/)",
    "Spec-level definitions (lean/RTA/RTA/Spec, vlib/oracles.py): what 'admissible sequence', 'legal schedule', 'least solution' mean",
    "not modelled: u64/usize overflow of + and *, allocation failure, f64 rounding, RefCell borrow flags as a run-time mechanism",
]


def env_offline():
    e = dict(os.environ)
    e["CARGO_NET_OFFLINE"] = "true"
    return e


def sh(cmd, cwd=None, timeout=None, input=None, env=None):
    p = subprocess.run(cmd, cwd=cwd, shell=isinstance(cmd, str), capture_output=True,
                       text=True, timeout=timeout, input=input, env=env or env_offline())
    return p.returncode, p.stdout, p.stderr


# ---------------------------------------------------------------------------
# Lean side

def lean_build(targets):
    """lake build the given targets; returns (ok, log)."""
    rc, out, err = sh(["lake", "build"] + list(targets), cwd=LEAN, timeout=3600)
    return rc == 0, out + err


THEOREM_RE = re.compile(r"^\s*(?:@\[[^\]]*\]\s*)?(?:private\s+|protected\s+)?theorem\s+([A-Za-z_][A-Za-z0-9_.']*)", re.M)
NAMESPACE_RE = re.compile(r"^namespace\s+([A-Za-z0-9_.]+)", re.M)


def props_theorems(pid):
    """Names of all theorems declared in RTA/Props/<pid>.lean (fully qualified)."""
    path = os.path.join(LEAN, "RTA", "Props", pid + ".lean")
    if not os.path.exists(path):
        return []
    src = open(path).read()
    # strip block comments
    src_nc = re.sub(r"/-.*?-/", "", src, flags=re.S)
    ns = NAMESPACE_RE.findall(src_nc)
    prefix = (ns[0] + ".") if ns else ""
    return [prefix + n for n in THEOREM_RE.findall(src_nc)]


FORBIDDEN = re.compile(r"\b(sorry|admit|native_decide|bv_decide|implemented_by|unsafe)\b|^axiom\s|maxHeartbeats 0", re.M)


def scan_forbidden(paths):
    hits = []
    for p in paths:
        src = open(p).read()
        src_nc = re.sub(r"/-.*?-/", "", src, flags=re.S)
        src_nc = re.sub(r"--.*", "", src_nc)
        for m in FORBIDDEN.finditer(src_nc):
            hits.append((p, m.group(0).strip()))
    return hits


def lean_sources_of(pid):
    """the .lean files the property module transitively imports (within the RTA library)"""
    seen, todo = set(), [f"RTA.Props.{pid}"]
    while todo:
        m = todo.pop()
        if m in seen:
            continue
        path = os.path.join(LEAN, *m.split(".")) + ".lean"
        if not os.path.exists(path):
            continue
        seen.add(m)
        for line in open(path):
            line = line.strip()
            if line.startswith("import RTA.") or line.startswith("import Driver."):
                todo.append(line.split()[1])
            elif line and not line.startswith("import") and not line.startswith("--") and not line.startswith("/-"):
                break
    return [os.path.join(LEAN, *m.split(".")) + ".lean" for m in sorted(seen)]


def axiom_audit(pid, theorems):
    """Returns dict thm -> (ok, axioms or error string)."""
    os.makedirs(WORK, exist_ok=True)
    f = os.path.join(WORK, f"audit_{pid}.lean")
    with open(f, "w") as fh:
        fh.write(f"import RTA.Props.{pid}\n")
        for t in theorems:
            fh.write(f"#print axioms {t}\n")
    rc, out, err = sh(["lake", "env", "lean", f], cwd=LEAN, timeout=3600)
    text = out + err
    res = {}
    for t in theorems:
        m = re.search(r"'" + re.escape(t) + r"' depends on axioms: \[([^\]]*)\]", text, flags=re.S)
        if m:
            axs = [a.strip() for a in m.group(1).replace("\n", " ").split(",") if a.strip()]
            ok = all(a in ALLOWED_AXIOMS for a in axs)
            res[t] = (ok, axs)
        elif re.search(r"'" + re.escape(t) + r"' does not depend on any axioms", text):
            res[t] = (True, [])
        else:
            res[t] = (False, "not found / did not elaborate")
    return res, text


# ---------------------------------------------------------------------------
# Rust side

def harness_build(profile="checked"):
    rc, out, err = sh(["cargo", "build", "--offline", "--profile", profile], cwd=HARNESS, timeout=3600)
    return rc == 0, out + err


def harness_bin(profile="checked"):
    return os.path.join(HARNESS, "target", profile, "drive")


def lean_bin():
    return os.path.join(LEAN, ".lake", "build", "bin", "rtadriver")


def _run_chunk(binpath, lines, env=None):
    p = subprocess.run([binpath], input="\n".join(lines) + "\n", capture_output=True, text=True,
                       env=env or env_offline())
    out = p.stdout.split("\n")
    if out and out[-1] == "":
        out.pop()
    return p.returncode, out, p.stderr


def run_parallel(binpath, lines, nshards=None, env=None):
    """Run `lines` through `binpath`, sharded over the cores; returns list of outputs
    (same length as lines; missing outputs are 'crash')."""
    from concurrent.futures import ThreadPoolExecutor
    if not lines:
        return []
    n = nshards or min(NCPU, max(1, len(lines) // 200))
    size = (len(lines) + n - 1) // n
    chunks = [lines[i:i + size] for i in range(0, len(lines), size)]

    def work(ch):
        rc, out, err = _run_chunk(binpath, ch, env)
        if len(out) < len(ch):
            out = out + ["crash"] * (len(ch) - len(out))
        return out[:len(ch)]

    with ThreadPoolExecutor(max_workers=n) as ex:
        outs = list(ex.map(work, chunks))
    res = []
    for o in outs:
        res.extend(o)
    return res


def write_replay(pid, name, payload):
    os.makedirs(REPLAYS, exist_ok=True)
    path = os.path.join(REPLAYS, f"{pid}_{name}.json")
    with open(path, "w") as fh:
        json.dump(payload, fh, indent=1)
    return path


def source_fingerprint():
    """what the harness was built from: /repo's HEAD, whether the working tree differs from it,
    and a hash over the crate's source files (the checks rebuild from the working tree)"""
    import hashlib
    head = sh(["git", "-C", "/repo", "log", "--format=%h %s", "-1"])[1].strip()
    dirty = sh(["git", "-C", "/repo", "status", "--porcelain", "--", "src", "Cargo.toml"])[1].strip()
    h = hashlib.sha256()
    n = 0
    for root, _, files in sorted(os.walk("/repo/src")):
        for f in sorted(files):
            if f.endswith(".rs"):
                h.update(open(os.path.join(root, f), "rb").read())
                n += 1
    return {"repo_head": head, "working_tree_differs_from_head": bool(dirty), "src_files": n, "src_sha256": h.hexdigest()[:16]}
