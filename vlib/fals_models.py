"""Falsifiers for C10–C16: the REAL arrival / cost / demand code against naive oracles
(admissible event histories, brute-force increase points, raw trace sums, recomputation
from components).  Search aids only; see DESIGN.md section 2.4."""
import random
from . import common, gen
from .gen import wchoice
from .fals_basic import real, parse_list


# ---------------------------------------------------------------------------
# helpers on arrival trees

def strip(a):
    """remove pure wrappers"""
    while a[0] == "box":
        a = a[1]
    return a


def greedy_respecting(d, n, rng, slack=0.0):
    """densest sequence of n events respecting the delta-min vector d (any k+2 consecutive
    events span at least d[k]); optional random slack"""
    ev = []
    t = rng.randint(0, 5)
    for i in range(n):
        lo = t if not ev else ev[-1]
        for k in range(min(i, len(d))):
            lo = max(lo, ev[i - k - 1] + d[k])
        if ev and slack and rng.random() < slack:
            lo += rng.randint(0, 6)
        ev.append(lo)
    return ev


def prefix_dmin(h, steps):
    """delta-min vector implied by an arrival-curve prefix: n events need a span of at least
    (least delta whose count is >= n) - 1; maxN + 1 events need a span >= h"""
    maxn = steps[-1][1]
    d = []
    for n in range(2, maxn + 1):
        delta = next(dl for dl, cnt in steps if cnt >= n)
        d.append(delta - 1)
    d.append(h)
    return d


def gen_history(a, n, rng):
    """an event sequence (release times) that the model documents as admissible; dense /
    adversarial with some randomness"""
    a = strip(a)
    k = a[0]
    if k == "never":
        return []
    if k == "per":
        o = rng.randint(0, 7)
        return [o + i * a[1] for i in range(n)]
    if k == "spo":
        T, J = a[1], a[2]
        o = rng.randint(0, 7)
        arr = []
        t = o
        for i in range(n):
            arr.append(t)
            t += T + (rng.randint(0, 3) if rng.random() < 0.15 else 0)
        mode = rng.random()
        if mode < 0.5:
            # critical instant: release as late as allowed but not before arr[0] + J
            return [max(x, arr[0] + J) if x - arr[0] <= J else x for x in arr]
        return [x + rng.randint(0, J) for x in arr]
    if k in ("cur", "xcur"):
        return greedy_respecting(a[1], n, rng, slack=0.1 if rng.random() < 0.5 else 0.0)
    if k == "pre":
        return greedy_respecting(prefix_dmin(a[1], a[2]), n, rng)
    if k in ("prop", "wj"):
        J = a[1]
        base = gen_history(a[2], n, rng)
        if not base:
            return []
        mode = rng.random()
        if mode < 0.5:
            b0 = min(base)
            return [max(x, b0 + J) if x - b0 <= J else x for x in base]
        return [x + rng.randint(0, J) for x in base]
    if k in ("agg", "sli"):
        out = []
        for x in a[1]:
            out += gen_history(x, n, rng)
        return out
    if k == "sum":
        return gen_history(a[1], n, rng) + gen_history(a[2], n, rng)
    raise ValueError(a)


def count_windows(rels, maxd):
    """for every window start t at an event and every length Δ <= maxd: max count"""
    rels = sorted(rels)
    best = [0] * (maxd + 1)
    for i, t in enumerate(rels):
        j = i
        for delta in range(1, maxd + 1):
            while j < len(rels) and rels[j] < t + delta:
                j += 1
            c = j - i
            if c > best[delta]:
                best[delta] = c
    return best


# ---------------------------------------------------------------------------
# C10

def falsify_C10(ctx):
    rng = random.Random(ctx["seed"] * 7919 + 10)
    n = 500 if ctx["tier"] == "quick" else 20000
    cex, samples, nontrivial = [], [], set()
    dist = {}
    cases = 0
    trees = [gen.gen_arr(rng, depth=wchoice(rng, [(3, 0), (4, 1), (3, 2)]), derived=False) for _ in range(n)]
    maxd = 120
    tables = real([f"nas {gen.arr_str(a)} 0 {maxd}" for a in trees])
    for a, tb in zip(trees, tables):
        s = gen.arr_str(a)
        gen.arr_constructors(a, dist)
        tbl = parse_list(tb)
        cases += 1
        if tbl is None:
            cex.append({"kind": "number_arrivals_failed", "op": f"nas {s} 0 {maxd}", "impl": tb})
            continue
        if tbl[0] != 0:
            cex.append({"kind": "N0_nonzero", "op": f"na {s} 0", "impl": tbl[0]})
        for d in range(maxd):
            if tbl[d] > tbl[d + 1]:
                cex.append({"kind": "not_monotone", "op": f"nas {s} {d} {d+1}", "impl": tbl[d:d + 2]})
                break
        for rep in range(2):
            rels = gen_history(a, rng.randint(3, 14), rng)
            if not rels:
                continue
            best = count_windows(rels, maxd)
            nontrivial.add((s, tuple(rels)))
            for d in range(maxd + 1):
                if best[d] > tbl[d]:
                    cex.append({"kind": "undercount", "op": f"na {s} {d}", "impl": tbl[d],
                                "events_in_some_window": best[d], "history": rels})
                    break
            else:
                if len(samples) < 3 and len(rels) > 4 and a[0] not in ("per", "spo"):
                    samples.append({"model": s, "admissible_history": rels,
                                    "max_events_per_window_len_1..12": best[1:13], "number_arrivals_1..12": tbl[1:13]})
    # sporadic: attained and sub-additive; jitter composition
    m = 200 if ctx["tier"] == "quick" else 5000
    for i in range(m):
        T = gen.small(rng, 1, 40)
        J = rng.randint(0, 3 * T)
        tbl = parse_list(real([f"nas spo {T} {J} 0 {maxd}"])[0])
        cases += 1
        crit = [max(k * T, J) for k in range(maxd + J + 2)]
        for d in range(1, maxd + 1):
            c = sum(1 for r in crit if J <= r < J + d)
            if c != tbl[d]:
                cex.append({"kind": "sporadic_not_attained", "op": f"na spo {T} {J} {d}", "impl": tbl[d], "critical_instant_count": c})
                break
        a_, b_ = rng.randint(0, 60), rng.randint(0, 60)
        if tbl[a_ + b_] > tbl[a_] + tbl[b_]:
            cex.append({"kind": "sporadic_not_subadditive", "op": f"nas spo {T} {J} 0 {maxd}", "a": a_, "b": b_})
        a = gen.gen_arr(rng, depth=2, derived=False)
        x, y, d = rng.randint(0, 25), rng.randint(0, 25), rng.randint(0, 200)
        s = gen.arr_str(a)
        r = real([f"na wj {y} wj {x} {s} {d}", f"na wj {x + y} {s} {d}"])
        if r[0] != r[1]:
            cex.append({"kind": "jitter_not_additive", "op": f"na wj {y} wj {x} {s} {d}", "impl": r})
    # models RECORDED from a periodic / sporadic source (ArrivalCurvePrefix / Curve ::from_arrival_bound*,
    # the From conversions): the sequences admissible for the source are the ones they document, so they
    # must not undercount them either (sub-additive sources only: finding F8 concerns the others)
    m2 = 150 if ctx["tier"] == "quick" else 4000
    for i in range(m2):
        T = gen.small(rng, 2, 30)
        J = wchoice(rng, [(3, 0), (2, rng.randint(0, T - 1)), (1, rng.randint(T, 2 * T - 1))])
        src = ("spo", T, J) if (J or rng.random() < 0.5) else ("per", T)
        ssrc = gen.arr_str(src)
        kind = wchoice(rng, [(3, "p_abu"), (3, "c_abu"), (2, "c_ab")])
        if kind == "c_ab":
            par = rng.randint(4, 9)
        else:
            # horizons at, just before and just after the points where the source steps
            k = rng.randint(1, 4)
            par = max(2 * T + 2, k * T + 1 - (J % T) + wchoice(rng, [(3, 0), (1, -1), (1, 1), (1, rng.randint(2, T))]))
        s = f"{kind} {par} {ssrc}"
        tbl = parse_list(real([f"nas {s} 0 {maxd}"])[0])
        cases += 1
        dist["recorded_from_source"] = dist.get("recorded_from_source", 0) + 1
        if tbl is None:
            continue
        for rep in range(2):
            rels = gen_history(src, rng.randint(4, 14), rng)
            best = count_windows(rels, maxd)
            nontrivial.add((s, tuple(rels)))
            bad = [d for d in range(maxd + 1) if best[d] > tbl[d]]
            if bad:
                cex.append({"kind": "undercount", "op": f"na {s} {bad[0]}", "impl": tbl[bad[0]],
                            "events_in_some_window": best[bad[0]], "history": rels,
                            "note": "history admissible for the source the model was recorded from"})
                break
    return {"cases": cases, "nontrivial": len(nontrivial),
            "rule": "random nested arrival models (depth <= 2) x dense/adversarial admissible histories (greedy densest sequences for curves and prefixes, critical-instant and random jitter for sporadic/propagated, unions for aggregates) x all windows starting at an event x all lengths <= 120, compared with the real number_arrivals; N(0)=0 and monotonicity on the real tables; sporadic attainment and sub-additivity; jitter composition; prefixes and curves recorded from periodic / sporadic sources (horizons at and around the source's steps) against histories of the source. non-trivial = distinct (model, history)",
            "counterexamples": cex, "samples": samples, "distribution": dist}


# ---------------------------------------------------------------------------
# C11

def curve_exact(d):
    last = d[-1]
    return last == 1 or (last - 1) in d or d.count(last) == 1


def normalize(a):
    """eliminate `wj` (clone_with_jitter) and `box` nodes: mirror of `Arr.withJitter`"""
    a = strip(a)
    k = a[0]
    if k == "wj":
        j, x = a[1], normalize(a[2])
        kx = x[0]
        if kx == "never":
            return x
        if kx == "per":
            return ("spo", x[1], j)
        if kx == "spo":
            return ("spo", x[1], x[2] + j)
        if kx == "prop":
            return ("prop", x[1] + j, x[2])
        if kx in ("agg", "sli"):
            return ("agg", [normalize(("wj", j, y)) for y in x[1]])
        if kx == "sum":
            return ("sum", normalize(("wj", j, x[1])), normalize(("wj", j, x[2])))
        return ("prop", j, x)
    if k == "prop":
        return ("prop", a[1], normalize(a[2]))
    if k in ("agg", "sli"):
        return ("agg", [normalize(y) for y in a[1]])
    if k == "sum":
        return ("sum", normalize(a[1]), normalize(a[2]))
    return a


def exactness_reasons(a, navalue):
    """mirror of `Arr.Exact` (RTA/Lemmas/ArrAll.lean): which known-finding shapes occur.
    `navalue(tree, delta)` asks the REAL code for number_arrivals."""
    reasons = set()

    def walk(a, under_prop):
        k = a[0]
        if k == "cur":
            if not curve_exact(a[1]):
                reasons.add("F3")
        elif k.startswith("c_"):
            # derived curve: ask the real code for its delta-min vector
            d = parse_list(real([f"dmin {gen.arr_str(a)}"])[0])
            if d and not curve_exact(d):
                reasons.add("F3")
        elif k == "pre":
            if not under_prop:
                reasons.add("K1")
        elif k == "prop":
            if navalue(a[2], a[1] + 1) == 0:
                reasons.add("F2")
            walk(a[2], True)
        elif k == "agg":
            for x in a[1]:
                walk(x, under_prop)
        elif k == "sum":
            walk(a[1], under_prop)
            walk(a[2], under_prop)
    walk(normalize(a), False)
    return reasons


def falsify_C11(ctx):
    rng = random.Random(ctx["seed"] * 7919 + 11)
    n = 1500 if ctx["tier"] == "quick" else 50000
    H = 150
    cex, samples, nontrivial = [], [], set()
    dist = {}
    trees = [gen.gen_arr(rng, depth=wchoice(rng, [(3, 0), (4, 1), (3, 2)]), derived=False) for _ in range(n)]
    strs = [gen.arr_str(a) for a in trees]
    steps = real([f"steps {s} {H}" for s in strs])
    tabs = real([f"nas {s} 0 {H}" for s in strs])

    def navalue(tree, delta):
        return int(real([f"na {gen.arr_str(tree)} {delta}"])[0])

    for a, s, st, tb in zip(trees, strs, steps, tabs):
        gen.arr_constructors(a, dist)
        sl, tbl = parse_list(st), parse_list(tb)
        if sl is None or tbl is None:
            cex.append({"kind": "steps_failed", "op": f"steps {s} {H}", "impl": st, "reasons": sorted(exactness_reasons(a, navalue))})
            continue
        expected = [d for d in range(1, H + 1) if tbl[d - 1] < tbl[d]]
        if len(expected) > 2:
            nontrivial.add(s)
        if sl != expected:
            missing = [d for d in expected if d not in sl]
            extra = [d for d in sl if d not in expected]
            cex.append({"kind": "steps_not_exact", "op": f"steps {s} {H}", "missing": missing[:5], "extra": extra[:5],
                        "reasons": sorted(exactness_reasons(a, navalue))})
        elif len(samples) < 3 and len(expected) > 4 and a[0] not in ("per", "spo"):
            samples.append({"model": s, "steps_iter<=40": [x for x in sl if x <= 40], "increase_points<=40": [x for x in expected if x <= 40]})
    # request bounds with positive costs
    m = n // 3
    rbs = [gen.gen_rb(rng, depth=wchoice(rng, [(2, 0), (3, 1)]), positive=True, allow_prefix=False) for _ in range(m)]
    rstrs = [gen.rb_str(r) for r in rbs]
    rsteps = real([f"rsteps {s} {H}" for s in rstrs])
    rtabs = real([f"needs {s} 0 {H}" for s in rstrs])
    for r, s, st, tb in zip(rbs, rstrs, rsteps, rtabs):
        sl, tbl = parse_list(st), parse_list(tb)
        if sl is None or tbl is None:
            continue  # guard-related (e.g. cost curves from traces); covered by C20
        expected = [d for d in range(1, H + 1) if tbl[d - 1] < tbl[d]]
        if sl != expected:
            # exactness presupposes positive job costs and exact arrival models
            reasons = set()
            def arrs(r):
                if r[0] == "rbf":
                    yield r[1], r[2]
                elif r[0] == "rbox":
                    yield from arrs(r[1])
                else:
                    for x in r[1]:
                        yield from arrs(x)
            zero_cost = False
            for a, c in arrs(r):
                reasons |= exactness_reasons(a, navalue)
                cs = gen.cost_str(c)
                items = parse_list(real([f"items {cs} 12"])[0])
                if items is None or any(x == 0 for x in items):
                    zero_cost = True
            if zero_cost:
                continue
            cex.append({"kind": "rb_steps_not_exact", "op": f"rsteps {s} {H}", "reasons": sorted(reasons)})
        else:
            nontrivial.add(s)
    return {"cases": len(trees) + len(rbs), "nontrivial": len(nontrivial),
            "rule": "random nested arrival models and request bounds (positive job costs); real steps_iter cut at 150 compared with the increase points of the real number_arrivals / service_needed (consecutive-value comparison; the crate's own brute_force_steps_iter is not used); non-trivial = distinct model with more than two increase points",
            "counterexamples": cex, "samples": samples, "distribution": dist}


# ---------------------------------------------------------------------------
# C12

def subadditive_on(tbl, upto):
    for a in range(1, upto):
        for b in range(a, upto - a + 1):
            if a + b < len(tbl) and tbl[a + b] > tbl[a] + tbl[b]:
                return False
    return True


def falsify_C12(ctx):
    rng = random.Random(ctx["seed"] * 7919 + 12)
    quick = ctx["tier"] == "quick"
    cex, samples, nontrivial = [], [], set()
    cases = 0
    # (a) traces
    n = 400 if quick else 15000
    for i in range(n):
        tr = gen.gen_trace(rng, maxlen=wchoice(rng, [(3, 8), (2, 20), (1, 40 if quick else 400)]))
        p = rng.randint(1, 6)
        term = f"c_tr {p} {gen.lst(tr)}"
        r = real([f"dmin {term}", f"nas {term} 0 {tr[-1] - tr[0] + 3}"])
        cases += 1
        d, tbl = parse_list(r[0]), parse_list(r[1])
        if d is None:
            cex.append({"kind": "from_trace_failed", "op": f"dmin {term}", "impl": r[0]})
            continue
        if d[-1] == 0:
            # all recorded spans are zero: number_arrivals divides by the last entry (finding F12)
            pr = real([f"na {term} {rng.randint(1, 9)}"])[0]
            if not pr.isdigit():
                cex.append({"kind": "derived_curve_all_zero_panics", "op": f"na {term} 1", "impl": pr, "dmin": d,
                            "dmin_all_zero": all(x == 0 for x in d), "source": "trace"})
            continue
        if tbl is None:
            cex.append({"kind": "from_trace_na_failed", "op": f"nas {term} 0 {tr[-1]-tr[0]+3}", "impl": r[1]})
            continue
        best = count_windows(tr, len(tbl) - 1)
        nontrivial.add(term)
        for dl in range(len(tbl)):
            if best[dl] > tbl[dl]:
                cex.append({"kind": "trace_window_exceeds_curve", "op": f"na {term} {dl}", "impl": tbl[dl], "trace_events_in_window": best[dl]})
                break
        else:
            if len(samples) < 2 and len(tr) > 6:
                samples.append({"trace": tr, "prefix_jobs": p, "dmin": d, "checked_window_lengths": len(tbl) - 1})
    # (b) curves / prefixes derived from arrival bounds
    m = 300 if quick else 10000
    for i in range(m):
        src = gen.gen_arr(rng, depth=wchoice(rng, [(3, 0), (3, 1), (1, 2)]), derived=False, allow_prefix=False)
        ss = gen.arr_str(src)
        kind = wchoice(rng, [(3, "c_ab"), (3, "c_abu"), (3, "p_abu"), (1, "conv")])
        if kind == "c_ab":
            term = f"c_ab {rng.randint(0, 9)} {ss}"
        elif kind == "c_abu":
            term = f"c_abu {rng.randint(0, 50)} {ss}"
        elif kind == "p_abu":
            hh = rng.randint(1, 50)
            term = f"p_abu {hh} {ss}"
        else:
            src = wchoice(rng, [(1, ("per", gen.small(rng, 1, 30))), (1, ("spo", gen.small(rng, 2, 12), rng.randint(0, 20))), (1, gen.gen_prefix(rng))])
            ss = gen.arr_str(src)
            term = {"per": f"c_per {src[1]}", "spo": f"c_spo {src[1]} {src[2] if len(src) > 2 else 0}", "pre": f"c_pre {ss}"}[src[0]]
        far = 600
        r = real([f"nas {ss} 0 {far}", f"nas {term} 0 {far}", (f"dmin {term}" if not term.startswith("p_abu") else f"pfx {term}")])
        cases += 1
        st, dt = parse_list(r[0]), parse_list(r[1])
        if st is None or dt is None:
            continue  # construction panics (e.g. nothing arrives): outside the property
        if term.startswith("p_abu"):
            cover = int(term.split()[1])
            eq_upto = cover
        else:
            dv = parse_list(r[2])
            if dv and dv[-1] == 0:
                pr = real([f"na {term} {rng.randint(1, 9)}"])[0]
                if not pr.isdigit():
                    cex.append({"kind": "derived_curve_all_zero_panics", "op": f"na {term} 1", "impl": pr, "dmin": dv,
                                "dmin_all_zero": all(x == 0 for x in dv), "source": ss})
                continue
            if not dv:
                continue
            eq_upto = dv[-1] - 1
        nontrivial.add(term)
        sub = subadditive_on(st, min(far, 160))
        reasons = sorted(exactness_reasons(src, lambda t, d: int(real([f'na {gen.arr_str(t)} {d}'])[0])))
        bad_dom = next((x for x in range(far + 1) if dt[x] < st[x]), None)
        bad_eq = next((x for x in range(min(eq_upto, far) + 1) if dt[x] != st[x]), None)
        if bad_dom is None and kind == "conv" and src[0] in ("per", "spo"):
            # the conversions unroll n = max(500, 10 * ceil(J / T)) jobs: probe the interval lengths around
            # the end of the unrolled prefix and of its first repetitions (far beyond `far`)
            T_, J_ = src[1], (src[2] if len(src) > 2 else 0)
            n_ = max(500, 10 * (-(-J_ // T_)))
            probes = sorted({x for k_ in (1, 2, 3) for x in range(max(k_ * n_ * T_ - k_ * J_ - 3, 1), k_ * n_ * T_ + T_ + 3)})
            if len(probes) <= 400:
                rs_ = real([f"na {ss} {x}" for x in probes] + [f"na {term} {x}" for x in probes])
                for x, u, v in zip(probes, rs_[:len(probes)], rs_[len(probes):]):
                    if u.isdigit() and v.isdigit() and int(v) < int(u):
                        far_bad = (x, int(v), int(u))
                        cex.append({"kind": "derived_smaller_than_source", "op": f"na {term} {x}", "impl": int(v), "source": int(u),
                                    "source_subadditive": True, "reasons": reasons, "beyond_unrolled_prefix_of_jobs": n_})
                        break
        if bad_dom is not None:
            cex.append({"kind": "derived_smaller_than_source", "op": f"na {term} {bad_dom}", "impl": dt[bad_dom], "source": st[bad_dom],
                        "source_subadditive": sub, "reasons": reasons})
        if bad_eq is not None:
            cex.append({"kind": "derived_differs_on_prefix", "op": f"na {term} {bad_eq}", "impl": dt[bad_eq], "source": st[bad_eq],
                        "source_subadditive": sub, "source_is_prefix": src[0] == "pre", "reasons": reasons})
        if bad_dom is None and bad_eq is None and len(samples) < 4 and not sub:
            samples.append({"source": ss, "derived": term, "note": "source not sub-additive on [0,160], derived curve still dominates on [0,600]"})
    # (c) delta_min_iter duality
    k2 = 200 if quick else 6000
    for i in range(k2):
        a = gen.gen_arr(rng, depth=1, derived=False, allow_prefix=False)
        s = gen.arr_str(a)
        k = rng.randint(3, 10)
        r = real([f"dmi {k} {s}", f"nas {s} 0 400"])
        cases += 1
        tbl = parse_list(r[1])
        if tbl is None or not r[0].startswith("["):
            continue
        body = r[0][1:-1]
        pairs = [tuple(int(v) for v in p.split(":")) for p in body.split(",")] if body else []
        for (nj, x) in pairs:
            if nj < 2:
                continue
            if x + 1 >= len(tbl):
                continue
            if not (tbl[x] < nj <= tbl[x + 1]):
                cex.append({"kind": "delta_min_not_dual", "op": f"dmi {k} {s}", "pair": [nj, x], "N(x)": tbl[x], "N(x+1)": tbl[x + 1],
                            "reasons": sorted(exactness_reasons(a, lambda t, d: int(real([f'na {gen.arr_str(t)} {d}'])[0])))})
                break
    return {"cases": cases, "nontrivial": len(nontrivial),
            "rule": "(a) random sorted traces incl. simultaneous events x prefix lengths: every window of the raw trace vs the real curve inferred from it, for all lengths up to the trace span; (b) Curve / ArrivalCurvePrefix derived from random arrival bounds: derived >= source on [0,600], equal on the covered prefix; (c) delta_min_iter pairs vs the real number_arrivals. non-trivial = distinct derived term",
            "counterexamples": cex, "samples": samples}


# ---------------------------------------------------------------------------
# C13

def falsify_C13(ctx):
    rng = random.Random(ctx["seed"] * 7919 + 13)
    quick = ctx["tier"] == "quick"
    n = 400 if quick else 15000
    cex, samples, nontrivial = [], [], set()
    cases = 0
    for i in range(n):
        d = gen.gen_dmin(rng, maxlen=6)
        if len(d) < 2:
            d = d + [d[-1] + rng.randint(0, 9)]
        ds = gen.lst(d)
        h = rng.randint(0, 150)
        k = wchoice(rng, [(3, f"c_ext {h}"), (2, f"c_exs {rng.randint(0, 14)}")])
        far = 3 * max(h, d[-1]) + 20
        r = real([f"dmin {k} cur {ds}", f"nas cur {ds} 0 {far}", f"nas {k} cur {ds} 0 {far}", f"nas xcur {ds} 0 {far}"])
        cases += 1
        dv, t0, t1, tx = parse_list(r[0]), parse_list(r[1]), parse_list(r[2]), parse_list(r[3])
        if None in (dv, t0, t1, tx):
            cex.append({"kind": "extrapolate_failed", "op": f"dmin {k} cur {ds}", "impl": r})
            continue
        nontrivial.add((k, ds))
        if dv[:len(d)] != d:
            cex.append({"kind": "prefix_changed", "op": f"dmin {k} cur {ds}", "impl": dv})
        # still bounds every sequence respecting the original prefix
        rels = greedy_respecting(d, rng.randint(4, 16), rng, slack=0.1)
        best = count_windows(rels, far)
        for x in range(far + 1):
            if best[x] > t1[x]:
                cex.append({"kind": "extrapolated_curve_undercounts", "op": f"na {k} cur {ds} {x}", "impl": t1[x], "events_in_window": best[x], "history": rels})
                break
            if best[x] > tx[x]:
                cex.append({"kind": "extrapolating_curve_undercounts", "op": f"na xcur {ds} {x}", "impl": tx[x], "events_in_window": best[x], "history": rels})
                break
        # only tightens
        for x in range(far + 1):
            if t1[x] > t0[x]:
                cex.append({"kind": "extrapolation_loosens", "op": f"na {k} cur {ds} {x}", "impl": t1[x], "unextrapolated": t0[x],
                            "beyond_extrapolated_horizon": x >= dv[-1]})
                break
        for x in range(far + 1):
            if tx[x] > t0[x]:
                cex.append({"kind": "extrapolating_curve_loosens", "op": f"na xcur {ds} {x}", "impl": tx[x], "unextrapolated": t0[x]})
                break
    # cache transparency on the real type: histories on shared clones vs fresh objects
    m = 300 if quick else 10000
    for i in range(m):
        d = gen.gen_dmin(rng, maxlen=5)
        ds = gen.lst(d)
        nops = rng.randint(3, 30)
        ops, iters, expected_src = [], 0, []
        for j in range(nops):
            c = rng.random()
            if c < 0.4:
                x = rng.randint(0, 200)
                ops.append(f"na {x}")
                expected_src.append(("na", x))
            elif c < 0.55 or iters == 0:
                ops.append("it")
                iters += 1
                expected_src.append(("it",))
            else:
                it = rng.randrange(iters)
                ops.append(f"nx {it}")
                expected_src.append(("nx", it))
        r = real([f"xops {ds} {nops} " + " ".join(ops)])[0]
        cases += 1
        if not r.startswith("["):
            cex.append({"kind": "xcurve_history_failed", "op": f"xops {ds} {nops} " + " ".join(ops), "impl": r})
            continue
        outs = r[1:-1].split(",")
        nontrivial.add((ds, tuple(ops)))
        fresh_steps = None
        counters = {}
        for (src, o) in zip(expected_src, outs):
            if src[0] == "na":
                e = real([f"na xcur {ds} {src[1]}"])[0]
                if o != e:
                    cex.append({"kind": "cache_visible_number_arrivals", "op": f"xops {ds} {nops} " + " ".join(ops), "query": src, "impl": o, "fresh": e})
                    break
            elif src[0] == "nx":
                if fresh_steps is None:
                    fresh_steps = parse_list(real([f"steps xcur {ds} 5000"])[0])
                kth = counters.get(src[1], 0)
                counters[src[1]] = kth + 1
                if kth < len(fresh_steps) and o != str(fresh_steps[kth]):
                    cex.append({"kind": "cache_visible_iterator", "op": f"xops {ds} {nops} " + " ".join(ops), "query": src, "impl": o, "fresh": fresh_steps[kth]})
                    break
        if len(samples) < 2 and nops > 8:
            samples.append({"dmin": d, "history": ops, "outputs": outs})
    return {"cases": cases, "nontrivial": len(nontrivial),
            "rule": "random delta-min prefixes (bursts, plateaus) x extrapolate / extrapolate_steps: prefix unchanged, dense sequences respecting the ORIGINAL prefix vs the extrapolated and the auto-extrapolating curve for all windows, extrapolated <= unextrapolated for all lengths up to 3x the horizon; random query histories on clones sharing one cache vs fresh objects. non-trivial = distinct (prefix, operation / history)",
            "counterexamples": cex, "samples": samples}


# ---------------------------------------------------------------------------
# C14

def falsify_C14(ctx):
    rng = random.Random(ctx["seed"] * 7919 + 14)
    quick = ctx["tier"] == "quick"
    cex, samples, nontrivial = [], [], set()
    cases = 0
    n = 500 if quick else 20000
    for i in range(n):
        c = gen.gen_cost(rng)
        while c[0] in ("cc_tr",) or (c[0] == "cbox" and c[1][0] == "cc_tr"):
            c = gen.gen_cost(rng)
        s = gen.cost_str(c)
        N = 30
        r = real([f"cojs {s} 0 {N}", f"items {s} {N}"] + [f"least {s} {k}" for k in range(0, 12)])
        cases += 1
        tbl, items = parse_list(r[0]), parse_list(r[1])
        if tbl is None or items is None:
            cex.append({"kind": "cost_model_failed", "op": f"cojs {s} 0 {N}", "impl": r[:2]})
            continue
        nontrivial.add(s)
        if tbl[0] != 0:
            cex.append({"kind": "cost_of_zero_jobs", "op": f"coj {s} 0", "impl": tbl[0]})
        if any(tbl[k] > tbl[k + 1] for k in range(N)):
            cex.append({"kind": "cost_not_monotone", "op": f"cojs {s} 0 {N}", "impl": tbl})
        for k in range(0, min(N, len(items)) + 1):
            if sum(items[:k]) != tbl[k] and k <= len(items):
                cex.append({"kind": "items_do_not_sum", "op": f"items {s} {k}", "impl": items[:k], "cost_of_jobs": tbl[k]})
                break
        for k in range(0, 12):
            lw = int(r[2 + k]) if r[2 + k].isdigit() else None
            if lw is None:
                cex.append({"kind": "least_wcet_failed", "op": f"least {s} {k}", "impl": r[2 + k]})
                break
            if any(lw > x for x in items[:k]):
                cex.append({"kind": "least_wcet_too_large", "op": f"least {s} {k}", "impl": lw, "items": items[:k]})
                break
    # traces
    m = 400 if quick else 15000
    for i in range(m):
        tr = [rng.randint(0, 9) for _ in range(wchoice(rng, [(3, rng.randint(1, 8)), (2, rng.randint(8, 40)), (1, rng.randint(1, 40 if quick else 400))]))]
        maxn = rng.randint(1, 6)
        term = f"cc_tr {maxn} {gen.lst(tr)}"
        N = len(tr) + 3
        r = real([f"cojs {term} 0 {N}", f"ccvec {term}"])
        cases += 1
        tbl, vec = parse_list(r[0]), parse_list(r[1])
        if tbl is None:
            cex.append({"kind": "cost_from_trace_failed", "op": f"cojs {term} 0 {N}", "impl": r[0]})
            continue
        nontrivial.add(term)
        pre = [0]
        for x in tr:
            pre.append(pre[-1] + x)
        bad = None
        for k in range(1, len(tr) + 1):
            mx = max(pre[j + k] - pre[j] for j in range(0, len(tr) - k + 1))
            if mx > tbl[k]:
                bad = (k, mx)
                break
        if bad:
            k, mx = bad
            start = next(j for j in range(0, len(tr) - k + 1) if pre[j + k] - pre[j] == mx)
            cex.append({"kind": "trace_run_exceeds_curve", "op": f"coj {term} {k}", "impl": tbl[k], "run_cost": mx,
                        "run_start": start, "trace_len": len(tr), "max_n": maxn, "curve": vec})
        elif len(samples) < 2 and len(tr) > 6:
            samples.append({"trace": tr, "max_n": maxn, "curve": vec})
        # extrapolation never raises a bound / keeps dominating the trace
        if vec and len(vec) >= 3 and not bad:
            upto = rng.randint(len(vec), len(vec) + 8)
            r2 = real([f"cojs cc_ext {upto} {term} 0 {N}", f"ccvec cc_ext {upto} {term}", f"cojs xcc {term} 0 {N}"])
            t2, v2, t3 = parse_list(r2[0]), parse_list(r2[1]), parse_list(r2[2])
            if t2 is not None and v2 is not None:
                for k in range(N + 1):
                    if t2[k] > tbl[k]:
                        cex.append({"kind": "cost_extrapolation_raises", "op": f"coj cc_ext {upto} {term} {k}", "impl": t2[k], "unextrapolated": tbl[k],
                                    "beyond_extrapolated_range": k > len(v2)})
                        break
                for k in range(1, len(tr) + 1):
                    mx = max(pre[j + k] - pre[j] for j in range(0, len(tr) - k + 1))
                    if mx > t2[k]:
                        cex.append({"kind": "extrapolated_cost_below_trace", "op": f"coj cc_ext {upto} {term} {k}", "impl": t2[k], "run_cost": mx})
                        break
    # cache transparency on the real type
    q = 300 if quick else 10000
    for i in range(q):
        w = gen.gen_cost_vec(rng)
        ws = gen.lst(w)
        nops = rng.randint(2, 25)
        ops = []
        for j in range(nops):
            ops.append((("coj", rng.randint(0, 25)) if rng.random() < 0.6 else ("lw", rng.randint(0, 25))))
        r = parse_list(real([f"xcops {ws} {nops} " + " ".join(f"{a} {b}" for a, b in ops)])[0])
        cases += 1
        if r is None:
            cex.append({"kind": "xcost_history_failed", "op": f"xcops {ws} {nops} " + " ".join(f"{a} {b}" for a, b in ops)})
            continue
        fresh = real([(f"coj xcc cc {ws} {b}" if a == "coj" else f"least xcc cc {ws} {b}") for a, b in ops])
        for (a, b), o, f in zip(ops, r, fresh):
            if str(o) != f:
                cex.append({"kind": "cost_cache_visible", "op": f"xcops {ws} {nops} " + " ".join(f"{a} {b}" for a, b in ops), "query": [a, b], "impl": o, "fresh": f})
                break
        nontrivial.add((ws, tuple(ops)))
    return {"cases": cases, "nontrivial": len(nontrivial),
            "rule": "random cost models (scalar, multiframe, well-formed cumulative curves, extrapolating): cost(0)=0, monotone, items sum to cost, least_wcet <= items; random cost traces x max_n: every run of n consecutive jobs (every start position, every n) vs the real curve inferred from the trace, also after extrapolation; query histories on a shared ExtrapolatingCurve vs fresh objects. non-trivial = distinct model / trace / history",
            "counterexamples": cex, "samples": samples}


# ---------------------------------------------------------------------------
# C16

def falsify_C16(ctx):
    rng = random.Random(ctx["seed"] * 7919 + 16)
    quick = ctx["tier"] == "quick"
    n = 600 if quick else 25000
    cex, samples, nontrivial = [], [], set()
    cases = 0
    for i in range(n):
        comps = [("rbf", gen.gen_arr(rng, depth=1, derived=False), gen.gen_cost(rng)) for _ in range(rng.randint(0, 3))]
        # avoid cost curves inferred from traces (may violate the monotone-prefix guard): C14/C20 territory
        comps = [c for c in comps if "cc_tr" not in gen.cost_str(c[2])]
        kind = wchoice(rng, [(3, "ragg"), (2, "rsli")])
        nested = rng.random() < 0.3 and comps
        agg = (kind, comps if not nested else [("ragg", comps[:1])] + comps[1:])
        s = gen.rb_str(agg)
        d = wchoice(rng, [(4, rng.randint(0, 60)), (2, rng.randint(60, 300))])
        k = rng.randint(0, 8)
        ops = [f"need {s} {d}", f"jc {s} {d}", f"lw {s} {d}", f"nbn {s} {d} {k}", f"nbn {s} {d} {k+1}", f"nbnc {s} {d} {k}"]
        for c in comps:
            cs = gen.rb_str(c)
            ops += [f"need {cs} {d}", f"jc {cs} {d}", f"nbn {cs} {d} {k}", f"na {gen.arr_str(c[1])} {d}", f"coj {gen.cost_str(c[2])} @N"]
        # resolve @N
        r0 = real([o for o in ops if "@N" not in o])
        it = iter(r0)
        res = {}
        vals = []
        for o in ops:
            if "@N" in o:
                vals.append(None)
            else:
                vals.append(next(it))
        cases += 1
        if any(v == "panic" for v in vals if v is not None):
            continue
        need, jc, lw, nbn, nbn1, nbnc = vals[0], parse_list(vals[1]), vals[2], vals[3], vals[4], vals[5]
        if jc is None or not need.isdigit():
            cex.append({"kind": "demand_failed", "op": ops[0], "impl": vals[:6]})
            continue
        need, lw, nbn, nbn1, nbnc = int(need), int(lw), int(nbn), int(nbn1), int(nbnc)
        nontrivial.add((s, d, k))
        comp_need, comp_nbn, comp_jc = 0, 0, []
        idx = 6
        for c in comps:
            cn, cj, cb, na = int(vals[idx]), parse_list(vals[idx + 1]), int(vals[idx + 2]), int(vals[idx + 3])
            coj = int(real([f"coj {gen.cost_str(c[2])} {na}"])[0])
            if cn != coj:
                cex.append({"kind": "rbf_need_not_cost_of_arrivals", "op": f"need {gen.rb_str(c)} {d}", "impl": cn, "cost_of_jobs(number_arrivals)": coj})
            ctop = sum(sorted(cj, reverse=True)[:k])
            if cb != ctop:
                cex.append({"kind": "by_n_jobs_not_n_largest", "op": f"nbn {gen.rb_str(c)} {d} {k}", "impl": cb, "sum_of_n_largest": ctop})
            comp_need += cn
            comp_nbn += ctop
            comp_jc += cj
            idx += 5
        if need != comp_need:
            cex.append({"kind": "aggregate_need_not_sum", "op": f"need {s} {d}", "impl": need, "sum_of_components": comp_need})
        if sum(jc) != need:
            cex.append({"kind": "job_costs_do_not_sum", "op": f"jc {s} {d}", "impl": sum(jc), "need": need})
        if sorted(jc) != sorted(comp_jc):
            cex.append({"kind": "aggregate_job_costs_not_union", "op": f"jc {s} {d}"})
        if jc and lw > min(jc):
            cex.append({"kind": "least_wcet_exceeds_a_job_cost", "op": f"lw {s} {d}", "impl": lw, "min_job_cost": min(jc)})
        top = sum(sorted(jc, reverse=True)[:k])
        if nbn != top:
            cex.append({"kind": "by_n_jobs_not_n_largest", "op": f"nbn {s} {d} {k}", "impl": nbn, "sum_of_n_largest": top})
        if nbn > nbn1 or nbn > need or (k >= len(jc) and nbn != need):
            cex.append({"kind": "by_n_jobs_law", "op": f"nbn {s} {d} {k}", "impl": [nbn, nbn1, need]})
        if nbnc != comp_nbn and not nested:
            cex.append({"kind": "per_component_not_sum", "op": f"nbnc {s} {d} {k}", "impl": nbnc, "sum": comp_nbn})
        if len(samples) < 3 and len(jc) > 3:
            samples.append({"rb": s, "delta": d, "need": need, "job_costs": jc, "by_n": [k, nbn]})
    return {"cases": cases, "nontrivial": len(nontrivial),
            "rule": "random aggregates / slices (nested, boxed) of RBFs over random arrival and cost models: every quantity recomputed from the components through separate calls on the real types; non-trivial = distinct (request bound, delta, n)",
            "counterexamples": cex, "samples": samples}
