"""Type-directed generators of protocol terms.  Every random choice comes from the one
`random.Random` handed in (seeded from VERIF_SEED)."""
import random


def wchoice(rng, pairs):
    tot = sum(w for w, _ in pairs)
    x = rng.uniform(0, tot)
    acc = 0
    for w, v in pairs:
        acc += w
        if x <= acc:
            return v
    return pairs[-1][1]


def small(rng, lo, hi):
    """biased towards the low end"""
    if rng.random() < 0.7:
        return rng.randint(lo, min(hi, lo + 12))
    return rng.randint(lo, hi)


# ---------------------------------------------------------------------------
# supplies: python structure ("ded",) ("psup",Q,P) ("csup",Q,D,P) ("dflt",inner)

def gen_supply(rng, allow_default=True, maxP=40):
    k = wchoice(rng, [(3, "ded"), (4, "psup"), (4, "csup"), (2 if allow_default else 0, "dflt")])
    if k == "ded":
        return ("ded",)
    if k == "psup":
        P = small(rng, 1, maxP)
        Q = rng.randint(1, P) if rng.random() < 0.8 else P
        return ("psup", Q, P)
    if k == "csup":
        P = small(rng, 1, maxP)
        r = rng.random()
        if r < 0.1:
            Q = D = P
        elif r < 0.2:
            D = P
            Q = rng.randint(1, P)
        else:
            D = rng.randint(1, P)
            Q = rng.randint(1, D)
        return ("csup", Q, D, P)
    return ("dflt", gen_supply(rng, allow_default=False, maxP=maxP))


def supply_str(s):
    if s[0] == "ded":
        return "ded"
    if s[0] == "psup":
        return f"psup {s[1]} {s[2]}"
    if s[0] == "csup":
        return f"csup {s[1]} {s[2]} {s[3]}"
    return "dflt " + supply_str(s[1])


def gen_tab(rng, zero_ok=True):
    n = wchoice(rng, [(1, 0), (3, 1), (4, 2), (4, 3), (2, 5), (1, 8)])
    tab = []
    # base demand present from x = 0 (so that w(1) > 0) most of the time
    if n > 0 and (not zero_ok or rng.random() < 0.9):
        tab.append((0, rng.randint(1, 6)))
        n -= 1
    for _ in range(n):
        tab.append((rng.randint(1, 60), rng.randint(0, 5)))
    return tab


def tab_str(tab):
    return "tab " + str(len(tab)) + "".join(f" {x} {v}" for x, v in tab)
