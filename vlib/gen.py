"""Type-directed generators of protocol terms.  Every random choice comes from the one
`random.Random` handed in (seeded from VERIF_SEED)."""
import random


def wchoice(rng, pairs):
    tot = sum(w for w, _ in pairs)
    x = rng.uniform(0, tot)
    acc = 0
    for w, v in pairs:
        acc += w
        if x <= acc:
            return v
    return pairs[-1][1]


def small(rng, lo, hi):
    """biased towards the low end"""
    if rng.random() < 0.7:
        return rng.randint(lo, min(hi, lo + 12))
    return rng.randint(lo, hi)


# ---------------------------------------------------------------------------
# supplies: python structure ("ded",) ("psup",Q,P) ("csup",Q,D,P) ("dflt",inner)

def gen_supply(rng, allow_default=True, maxP=40):
    k = wchoice(rng, [(3, "ded"), (4, "psup"), (4, "csup"), (2 if allow_default else 0, "dflt")])
    if k == "ded":
        return ("ded",)
    if k == "psup":
        P = small(rng, 1, maxP)
        Q = rng.randint(1, P) if rng.random() < 0.8 else P
        return ("psup", Q, P)
    if k == "csup":
        P = small(rng, 1, maxP)
        r = rng.random()
        if r < 0.1:
            Q = D = P
        elif r < 0.2:
            D = P
            Q = rng.randint(1, P)
        else:
            D = rng.randint(1, P)
            Q = rng.randint(1, D)
        return ("csup", Q, D, P)
    return ("dflt", gen_supply(rng, allow_default=False, maxP=maxP))


def supply_str(s):
    if s[0] == "ded":
        return "ded"
    if s[0] == "psup":
        return f"psup {s[1]} {s[2]}"
    if s[0] == "csup":
        return f"csup {s[1]} {s[2]} {s[3]}"
    return "dflt " + supply_str(s[1])


def gen_tab(rng, zero_ok=True):
    n = wchoice(rng, [(1, 0), (3, 1), (4, 2), (4, 3), (2, 5), (1, 8)])
    tab = []
    # base demand present from x = 0 (so that w(1) > 0) most of the time
    if n > 0 and (not zero_ok or rng.random() < 0.9):
        tab.append((0, rng.randint(1, 6)))
        n -= 1
    for _ in range(n):
        tab.append((rng.randint(1, 60), rng.randint(0, 5)))
    return tab


def tab_str(tab):
    return "tab " + str(len(tab)) + "".join(f" {x} {v}" for x, v in tab)


# ---------------------------------------------------------------------------
# arrival models (trees of tuples) — see arr_str for the protocol rendering

def gen_dmin(rng, maxlen=8, allow_zero=True):
    """non-decreasing delta-min vector with last >= 1: bursts (leading zeros), plateaus
    inside and at the END, large jumps after quiet periods (non-concave curves)"""
    n = wchoice(rng, [(2, 1), (3, 2), (4, 3), (3, 4), (2, 6), (1, maxlen)])
    d = []
    cur = 0
    if allow_zero and rng.random() < 0.25:
        cur = 0
    else:
        cur = rng.randint(1, 12)
    for i in range(n):
        d.append(cur)
        r = rng.random()
        if r < 0.2:
            inc = 0                      # plateau
        elif r < 0.75:
            inc = rng.randint(1, 8)
        else:
            inc = rng.randint(8, 40)     # quiet period
        cur += inc
    if d[-1] == 0:
        d[-1] = rng.randint(1, 10)
    if rng.random() < 0.12 and len(d) >= 2:
        d[-2] = d[-1]                    # plateau at the end (finding F3)
    return d


def gen_prefix(rng):
    h = rng.randint(1, 40)
    k = rng.randint(1, min(5, h))
    deltas = sorted(rng.sample(range(2, h + 1), k - 1)) if h >= k and k > 1 and h - 1 >= k - 1 else []
    deltas = [1] + deltas
    steps = []
    n = 0
    for dl in deltas:
        n += rng.randint(1, 3)
        steps.append((dl, n))
    return ("pre", h, steps)


def gen_arr(rng, depth=2, derived=True, allow_prefix=True, allow_x=True):
    leaf = depth <= 0 or rng.random() < 0.45
    if leaf:
        k = wchoice(rng, [(1, "never"), (4, "per"), (6, "spo"), (5, "cur"), (3 if allow_x else 0, "xcur"),
                          (2 if allow_prefix else 0, "pre"), (2 if derived else 0, "derived")])
        if k == "never":
            return ("never",)
        if k == "per":
            return ("per", small(rng, 1, 60))
        if k == "spo":
            T = small(rng, 1, 60)
            J = wchoice(rng, [(3, 0), (3, rng.randint(0, T)), (2, rng.randint(T, 3 * T + 5)), (1, rng.randint(0, 200))])
            return ("spo", T, J)
        if k == "cur":
            return ("cur", gen_dmin(rng))
        if k == "xcur":
            return ("xcur", gen_dmin(rng))
        if k == "pre":
            return gen_prefix(rng)
        return gen_derived_curve(rng, depth)
    k = wchoice(rng, [(3, "prop"), (3, "agg"), (1, "sli"), (2, "sum"), (2, "wj"), (1, "box")])
    if k == "prop":
        return ("prop", wchoice(rng, [(1, 0), (3, rng.randint(0, 10)), (1, rng.randint(10, 80))]),
                gen_arr(rng, depth - 1, derived, allow_prefix, allow_x))
    if k in ("agg", "sli"):
        n = wchoice(rng, [(1, 0), (2, 1), (4, 2), (2, 3)])
        return (k, [gen_arr(rng, depth - 1, derived, allow_prefix, allow_x) for _ in range(n)])
    if k == "sum":
        return ("sum", gen_arr(rng, depth - 1, derived, allow_prefix, allow_x), gen_arr(rng, depth - 1, derived, allow_prefix, allow_x))
    if k == "wj":
        return ("wj", rng.randint(0, 30), gen_arr(rng, depth - 1, derived, allow_prefix, allow_x))
    return ("box", gen_arr(rng, depth - 1, derived, allow_prefix, allow_x))


def gen_trace(rng, maxlen=14):
    n = rng.randint(2, maxlen)
    t = rng.randint(0, 5)
    tr = []
    for _ in range(n):
        tr.append(t)
        t += wchoice(rng, [(2, 0), (5, rng.randint(1, 8)), (1, rng.randint(8, 50))])
    return tr


def gen_derived_curve(rng, depth=1):
    k = wchoice(rng, [(3, "c_ab"), (3, "c_abu"), (1, "c_per"), (0.3, "c_spo"), (2, "c_pre"), (3, "c_tr"),
                      (2, "c_ext"), (2, "c_exs"), (1, "c_it"), (1, "c_exb")])
    if k == "c_ab":
        return ("c_ab", rng.randint(0, 12), gen_arr(rng, depth - 1, derived=False))
    if k == "c_abu":
        return ("c_abu", rng.randint(0, 60), gen_arr(rng, depth - 1, derived=False))
    if k == "c_per":
        return ("c_per", small(rng, 1, 40))
    if k == "c_spo":
        T = small(rng, 1, 30)
        return ("c_spo", T, rng.randint(0, 3 * T))
    if k == "c_pre":
        return ("c_pre", gen_prefix(rng), rng.random() < 0.5)
    if k == "c_tr":
        return ("c_tr", rng.randint(1, 6), gen_trace(rng))
    if k == "c_ext":
        return ("c_ext", rng.randint(0, 120), ("cur", gen_dmin(rng)))
    if k == "c_exs":
        return ("c_exs", rng.randint(0, 14), ("cur", gen_dmin(rng)))
    if k == "c_exb":
        d = gen_dmin(rng)
        delta = rng.randint(1, 80)
        if len(d) < 2:
            # a curve that cannot extrapolate takes the given bound as it is: a bound below the
            # known distances is a caller error (yields a non-monotone vector), not generated
            delta = max(delta, d[-1] + 1)
        return ("c_exb", delta, len(d) + 2 if rng.random() < 0.7 else rng.randint(0, 8), ("cur", d))
    return ("c_it", [rng.randint(0, 30) for _ in range(rng.randint(1, 6))])


def lst(v):
    return str(len(v)) + "".join(" " + str(x) for x in v)


def arr_str(a):
    k = a[0]
    if k == "never":
        return "never"
    if k == "per":
        return f"per {a[1]}"
    if k == "spo":
        return f"spo {a[1]} {a[2]}"
    if k in ("cur", "xcur", "c_it"):
        return f"{k} {lst(a[1])}"
    if k == "pre":
        return f"pre {a[1]} {len(a[2])}" + "".join(f" {d} {n}" for d, n in a[2])
    if k == "prop":
        return f"prop {a[1]} {arr_str(a[2])}"
    if k in ("agg", "sli"):
        return f"{k} {len(a[1])}" + "".join(" " + arr_str(x) for x in a[1])
    if k == "sum":
        return f"sum {arr_str(a[1])} {arr_str(a[2])}"
    if k == "wj":
        return f"wj {a[1]} {arr_str(a[2])}"
    if k == "box":
        return f"box {arr_str(a[1])}"
    if k in ("c_ab", "c_abu"):
        return f"{k} {a[1]} {arr_str(a[2])}"
    if k == "c_per":
        return f"c_per {a[1]}"
    if k == "c_spo":
        return f"c_spo {a[1]} {a[2]}"
    if k == "c_pre":
        return f"c_pre {arr_str(a[1])}" + (" byval" if a[2] else "")
    if k == "c_tr":
        return f"c_tr {a[1]} {lst(a[2])}"
    if k in ("c_ext", "c_exs"):
        return f"{k} {a[1]} {arr_str(a[2])}"
    if k == "c_exb":
        return f"c_exb {a[1]} {a[2]} {arr_str(a[3])}"
    if k == "p_abu":
        return f"p_abu {a[1]} {arr_str(a[2])}"
    if k == "xc":
        return f"xc {arr_str(a[1])}"
    raise ValueError(a)


def arr_constructors(a, acc=None):
    acc = acc if acc is not None else {}
    acc[a[0]] = acc.get(a[0], 0) + 1
    for x in a[1:]:
        if isinstance(x, tuple) and x and isinstance(x[0], str):
            arr_constructors(x, acc)
        elif isinstance(x, list):
            for y in x:
                if isinstance(y, tuple) and y and isinstance(y[0], str):
                    arr_constructors(y, acc)
    return acc


# ---------------------------------------------------------------------------
# cost models

def gen_cost_vec(rng, wf=True):
    """cumulative cost vector; wf: non-decreasing and sub-additive (built from a
    per-job cost sequence by taking maxima over runs)"""
    n = rng.randint(1, 6)
    jobs = [rng.randint(0 if rng.random() < 0.2 else 1, 9) for _ in range(n + 3)]
    w = []
    for k in range(1, n + 1):
        w.append(max(sum(jobs[i:i + k]) for i in range(0, len(jobs) - k + 1)))
    if not wf:
        w = [rng.randint(0, 20) for _ in range(n)]
    return w


def gen_cost(rng, scalar_only=False, positive=False):
    k = "sc" if scalar_only else wchoice(rng, [(5, "sc"), (3, "mf"), (3, "cc"), (2, "xcc"), (1, "cc_tr"), (1, "cbox")])
    lo = 1 if positive else 0
    if k == "sc":
        return ("sc", rng.randint(lo if rng.random() < 0.9 else 1, 12))
    if k == "mf":
        return ("mf", [rng.randint(lo, 9) for _ in range(rng.randint(1 if positive else 0, 5))])
    if k == "cc":
        return ("cc", gen_cost_vec(rng))
    if k == "xcc":
        return ("xcc", ("cc", gen_cost_vec(rng)))
    if k == "cc_tr":
        return ("cc_tr", rng.randint(1, 5), [rng.randint(lo, 9) for _ in range(rng.randint(1, 12))])
    return ("cbox", gen_cost(rng, scalar_only, positive))


def cost_str(c):
    k = c[0]
    if k == "sc":
        return f"sc {c[1]}"
    if k in ("mf", "cc", "cc_it"):
        return f"{k} {lst(c[1])}"
    if k == "xcc":
        return f"xcc {cost_str(c[1])}"
    if k == "cc_tr":
        return f"cc_tr {c[1]} {lst(c[2])}"
    if k == "cc_ext":
        return f"cc_ext {c[1]} {cost_str(c[2])}"
    if k == "cbox":
        return f"cbox {cost_str(c[1])}"
    raise ValueError(c)


# ---------------------------------------------------------------------------
# request bounds

def gen_rb(rng, depth=1, scalar_only=False, positive=False, arr_depth=1, allow_prefix=True):
    if depth <= 0 or rng.random() < 0.5:
        return ("rbf", gen_arr(rng, arr_depth, derived=(rng.random() < 0.2), allow_prefix=allow_prefix),
                gen_cost(rng, scalar_only, positive))
    k = wchoice(rng, [(4, "ragg"), (2, "rsli"), (1, "rbox")])
    if k == "rbox":
        return ("rbox", gen_rb(rng, depth - 1, scalar_only, positive, arr_depth, allow_prefix))
    n = wchoice(rng, [(1, 0), (2, 1), (4, 2), (2, 3)])
    return (k, [gen_rb(rng, depth - 1, scalar_only, positive, arr_depth, allow_prefix) for _ in range(n)])


def rb_str(r):
    k = r[0]
    if k == "rbf":
        return f"rbf {arr_str(r[1])} {cost_str(r[2])}"
    if k in ("ragg", "rsli"):
        return f"{k} {len(r[1])}" + "".join(" " + rb_str(x) for x in r[1])
    if k == "rbox":
        return f"rbox {rb_str(r[1])}"
    raise ValueError(r)


# ---------------------------------------------------------------------------
# task systems for the analyses

def gen_task_arr(rng, allow_prefix=True):
    k = wchoice(rng, [(10, "spo"), (3, "per"), (4, "cur"), (1.5, "xcur"), (2.5, "nest"), (0.6 if allow_prefix else 0, "pre"), (0.4, "never")])
    if k == "spo":
        T = rng.randint(2, 40)
        # jitter: none, below the period, above it, or exactly at / next to a multiple of the period
        # (several jobs released together, thresholds of every ceil((delta + J) / T))
        J = wchoice(rng, [(4, 0), (3, rng.randint(0, T)), (1, rng.randint(T, 2 * T + 5)),
                          (1.2, max(0, rng.choice([1, 2, 3]) * T + rng.choice([-1, 0, 0, 1])))])
        return ("spo", T, J)
    if k == "per":
        return ("per", rng.randint(2, 40))
    if k == "cur":
        return ("cur", gen_dmin(rng, maxlen=5))
    if k == "xcur":
        return ("xcur", gen_dmin(rng, maxlen=4))
    if k == "pre":
        return gen_prefix(rng)
    if k == "never":
        return ("never",)
    return gen_arr(rng, depth=1, derived=False, allow_prefix=False)


def gen_task_rb(rng, scalar=True, allow_prefix=True):
    a = gen_task_arr(rng, allow_prefix)
    if scalar or rng.random() < 0.8:
        c = ("sc", wchoice(rng, [(6, rng.randint(1, 4)), (3, rng.randint(1, 10)), (0.3, 0)]))
    else:
        c = gen_cost(rng, positive=True)
    return ("rbf", a, c)


def gen_dense_taskset(rng, nhp=None):
    """sporadic task set with total utilisation in [0.85, 1): hp tasks [(arr, C)] and the task under
    analysis (arr, C) — the busy window spans several jobs of the analysed task while its first
    job may already be complete before the second arrives (the late offsets matter)"""
    from fractions import Fraction
    nhp = nhp if nhp is not None else rng.randint(1, 3)
    hp = []
    u = Fraction(0)
    for _ in range(nhp):
        T = rng.randint(5, 14)
        C = rng.randint(1, max(1, min(4, T // 3)))
        if u + Fraction(C, T) > Fraction(3, 4):
            continue
        u += Fraction(C, T)
        J = wchoice(rng, [(5, 0), (1, rng.randint(1, T // 2))])
        hp.append((("spo", T, J) if (J or rng.random() < 0.7) else ("per", T), C))
    C = rng.randint(2, 6)
    target = Fraction(rng.randint(85, 99), 100)
    rest = max(target - u, Fraction(1, 20))
    T = max(C, -(-C * rest.denominator // rest.numerator))     # ceil(C / rest)
    J = wchoice(rng, [(5, 0), (1, rng.randint(1, max(1, T // 2)))])
    return hp, (("spo", T, J), C)


def gen_small_taskset(rng, nhp=None):
    """small-scope sporadic task set: every parameter tiny (periods 3..12, WCETs 1..4, jitter 0..T), total
    utilisation below 1 but otherwise unconstrained — with such periods the utilisation is usually high
    and the busy window spans many jobs of several tasks, so every offset-pruning rule is exercised.
    Returns (hp tasks [(arr, C)], analysed task (arr, C))"""
    from fractions import Fraction
    for _ in range(50):
        n = nhp if nhp is not None else rng.randint(1, 3)
        ts = []
        for i in range(n + 1):
            T = rng.randint(3, 12) if i < n else rng.randint(4, 14)
            C = rng.randint(1, min(4, T - 1)) if i < n else rng.randint(1, min(5, T - 1))
            J = wchoice(rng, [(6, 0), (2, rng.randint(1, T)), (1, rng.choice([T - 1, T, T + 1]))])
            ts.append((("spo", T, J), C))
        if sum(Fraction(c, a[1]) for a, c in ts) < 1:
            return ts[:-1], ts[-1]
    return [], (("spo", 10, 0), 2)


def gen_limit(rng):
    return wchoice(rng, [(1, rng.randint(0, 3)), (3, rng.randint(3, 40)), (5, rng.randint(40, 400)), (2, rng.randint(400, 3000))])


def gen_rb_maybe_agg(rng, scalar=True, allow_prefix=True):
    if rng.random() < 0.75:
        return gen_task_rb(rng, scalar, allow_prefix)
    k = wchoice(rng, [(3, "ragg"), (1, "rsli")])
    return (k, [gen_task_rb(rng, scalar, allow_prefix) for _ in range(rng.randint(0, 3))])


# ---------------------------------------------------------------------------
# keeping the list-based model tractable

ANALYSIS_OPS = ("fifo", "fp_p", "fp_np", "fp_lp", "fp_fl", "edf_p", "edf_np", "edf_lp", "edf_fl",
                "ros_es", "ros_tm", "ros_pp", "ros_ch", "rr", "bw")


def xcur_density(op):
    """largest (entries per time unit) of an extrapolating delta-min vector in an op line"""
    t = op.split()
    best = 0.0
    for i, tok in enumerate(t):
        if tok == "xcur" and i + 1 < len(t) and t[i + 1].isdigit():
            n = int(t[i + 1])
            v = t[i + 2:i + 2 + n]
            if n and len(v) == n and all(x.isdigit() for x in v):
                best = max(best, n / max(int(v[-1]), 1))
    return best


def cap_dense(op):
    """the divergence limit (last token) of an analysis op is capped when the workload contains
    a dense auto-extrapolating curve: the analysis queries the curve at interval lengths up to
    the limit, every query of the (cache-free, list-based) model re-extrapolates the vector to
    about limit * density entries at cubic cost.  The real code is unaffected; this bounds what
    the correspondence explores, not what is claimed."""
    t = op.split()
    if not t or t[0] not in ANALYSIS_OPS or not t[-1].isdigit():
        return op
    dens = xcur_density(op)
    if dens <= 0:
        return op
    cap = max(int(300 / dens), 20)
    if int(t[-1]) > cap:
        t[-1] = str(cap)
        return " ".join(t)
    return op
