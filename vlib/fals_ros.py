"""Falsifiers for C04 and C05: the real ROS 2 analyses against the executable executor
model on reservation supplies (vlib/ros_sim.py)."""
import random
from . import common, gen, ros_sim, fals_analyses
from .gen import wchoice
from .fals_basic import real
from .fals_models import gen_history


def gen_cb_arr(rng):
    T = rng.randint(6, 40)
    J = wchoice(rng, [(3, 0), (2, rng.randint(0, T // 2)), (1, rng.randint(T // 2, T + 5)), (0.7, rng.randint(T, 2 * T + 2))])
    return ("spo", T, J) if rng.random() < 0.8 else ("per", T)


def releases_for(a, horizon, rng, sync):
    n = (horizon // max(a[1], 1) + 3) if isinstance(a[1], int) and a[0] in ("spo", "per") else 60
    rel = sorted(gen_history(a, n, rng))
    if sync and rel:
        m = rel[0]
        rel = [r - m for r in rel]
    return [r for r in rel if r < horizon]


def model(ops):
    """the same operation lines evaluated by the Lean model (native driver)"""
    return common.run_parallel(common.lean_bin(), [o if gen.cap_dense(o) == o else "skip" for o in ops])


def shifted_releases(cbs, horizon, rng, target, A, phases=False):
    """all callbacks start together at 0 with dense releases; the target's releases are delayed by A;
    with `phases` every other callback gets its own random phase as well"""
    out = []
    for j, c in enumerate(cbs):
        if c["arr"] is None:
            out.append([])
            continue
        rl = releases_for(c["arr"], horizon, rng, sync=True)
        if j == target:
            rl = [r + A for r in rl if r + A < horizon]
        elif phases:
            ph = rng.randint(0, 14)
            rl = [r + ph for r in rl if r + ph < horizon]
        out.append(rl)
    return out


def gen_res_supply(rng):
    s = gen.gen_supply(rng, allow_default=False, maxP=10)
    return s


def falsify_C04(ctx):
    rng = random.Random(ctx["seed"] * 7919 + 4)
    n = 300 if ctx["tier"] == "quick" else 10000
    cex, samples, nontrivial = [], [], set()
    dist = {"es": 0, "tm": 0, "pp": 0, "ch": 0, "diverged": 0}
    spec_viol = []
    horizon = 600
    for it in range(n):
        kind = wchoice(rng, [(3, "es"), (3, "tm"), (3, "pp"), (2, "ch")])
        sup = gen_res_supply(rng)
        ss = gen.supply_str(sup)
        dist[kind] += 1
        if kind == "es":
            k = rng.randint(1, 3)
            tasks = [(gen_cb_arr(rng), rng.randint(1, 4)) for _ in range(k)]
            op = f"ros_es {ss} ragg {k}" + "".join(f" rbf {gen.arr_str(a)} sc {c}" for a, c in tasks) + " 400"
            r = real([op])[0]
            if not r.startswith("ok "):
                dist["diverged"] += 1
                continue
            R = int(r.split()[1])
            for rep in range(4):
                sigma = ros_sim.make_supply(sup, horizon, rng, mode=["random", "late", "worst", "random"][rep])
                jobs = []
                for a, c in tasks:
                    for rel in releases_for(a, horizon - 200, rng, sync=(rep % 2 == 0)):
                        jobs.append((rel, c))
                resp = ros_sim.simulate_fifo_supply(jobs, sigma)
                nontrivial.add((op, rep))
                bad = [(j, rt) for j, rt in zip(jobs, resp) if rt is not None and rt > R and j[0] < horizon - 300]
                if bad:
                    cex.append({"kind": "event_source_bound_exceeded", "op": op, "impl": r, "observed_response": bad[0][1],
                                "job": bad[0][0], "supply": [i for i, b in enumerate(sigma[:60]) if b]})
                    break
            continue
        # executor workload: timers and polled callbacks
        nt = rng.randint(0 if kind != "tm" else 1, 3)
        npo = rng.randint(0 if kind == "tm" else 1, 3)
        cbs = []
        for i in range(nt):
            cbs.append({"kind": "T", "prio": i, "cost": rng.randint(1, 4), "arr": gen_cb_arr(rng)})
        for i in range(npo):
            cbs.append({"kind": "P", "prio": i, "cost": rng.randint(1, 4), "arr": gen_cb_arr(rng)})
        chains = {}
        if kind == "ch":
            # one chain of polled callbacks under analysis: source -> c0 -> c1 (-> c2); only the first has external releases
            ln = rng.randint(2, 3)
            ch = [{"kind": "P", "prio": rng.randint(0, 5), "cost": rng.randint(1, 3), "arr": None} for _ in range(ln)]
            src = gen_cb_arr(rng)
            ch[0]["arr"] = src
            base = len(cbs)
            cbs += ch
            for x in range(ln - 1):
                chains[base + x] = base + x + 1
            others = [c for c in cbs[:base]]
            total = sum(c["cost"] for c in ch)
            pre = total - ch[-1]["cost"]
            sa = gen.arr_str(src)
            oth = f"ragg {len(others)}" + "".join(f" rbf {gen.arr_str(c['arr'])} sc {c['cost']}" for c in others)
            op = f"ros_ch {ss} rbf {sa} sc {ch[-1]['cost']} rbf {sa} sc {pre} rbf {sa} sc {total} {oth} 400"
            target = ("chain", base, base + ln - 1)
        elif kind == "tm":
            i = rng.randrange(nt)
            if rng.random() < 0.35:
                # bursts of the analysed timer (jitter >= period: several instances released together) under
                # higher-priority timers with larger WCETs
                T0 = rng.randint(10, 30)
                cbs[i]["arr"] = ("spo", T0, rng.randint(T0, 2 * T0 + 2))
                cbs[i]["cost"] = rng.randint(1, 3)
                for c in cbs:
                    if c["kind"] == "T" and c["prio"] < cbs[i]["prio"]:
                        c["cost"] = rng.randint(3, 6)
                        c["arr"] = ("per", rng.randint(6, 14)) if rng.random() < 0.6 else c["arr"]
                dist["timer_bursts"] = dist.get("timer_bursts", 0) + 1
            hp = [c for c in cbs if c["kind"] == "T" and c["prio"] < cbs[i]["prio"]]
            lower = [c for j, c in enumerate(cbs) if j != i and not (c["kind"] == "T" and c["prio"] < cbs[i]["prio"])]
            B = max([c["cost"] - 1 for c in lower], default=0)
            own_cost_s = f"sc {cbs[i]['cost']}"
            pattern = None
            if cbs[i]["cost"] >= 2 and rng.random() < 0.3:
                # cost CURVE for the analysed timer: a job costs at most c1, two consecutive jobs at most c1 + c2
                # with c2 < c1 (alternating expensive / cheap instances comply with it)
                c1 = cbs[i]["cost"]
                c2 = rng.randint(1, c1 - 1)
                own_cost_s = f"cc 2 {c1} {c1 + c2}"
                pattern = (i, [c1, c2])
                T1 = rng.randint(5, 12)
                cbs[i]["arr"] = ("per", T1) if rng.random() < 0.6 else ("spo", T1, rng.randint(0, T1))
                dist["timer_cost_curves"] = dist.get("timer_cost_curves", 0) + 1
            op = f"ros_tm {ss} rbf {gen.arr_str(cbs[i]['arr'])} {own_cost_s} ragg {len(hp)}" + \
                "".join(f" rbf {gen.arr_str(c['arr'])} sc {c['cost']}" for c in hp) + f" {B} 400"
            target = ("cb", i, pattern)
        else:
            pol = [j for j, c in enumerate(cbs) if c["kind"] == "P"]
            i = rng.choice(pol)
            oth = [c for j, c in enumerate(cbs) if j != i]
            op = f"ros_pp {ss} rbf {gen.arr_str(cbs[i]['arr'])} sc {cbs[i]['cost']} ragg {len(oth)}" + \
                "".join(f" rbf {gen.arr_str(c['arr'])} sc {c['cost']}" for c in oth) + " 400"
            target = ("cb", i)
        r = real([op])[0]
        if not r.startswith("ok "):
            dist["diverged"] += 1
            continue
        R = int(r.split()[1])
        nreps = 6
        mres = model([op])[0]
        if mres.startswith("ok ") and int(mres.split()[1]) > R:
            # the model claims a larger bound than the real code: intensify the search
            dist["model_guided_searches"] = dist.get("model_guided_searches", 0) + 1
            nreps = 1200
        for rep in range(nreps):
            sigma = ros_sim.make_supply(sup, horizon, rng, mode=["random", "late", "worst", "random"][rep % 4])
            if rep >= 4:
                tgt = target[1]
                rels = shifted_releases(cbs, horizon - 200, rng, tgt, rng.randint(0, 25), phases=(rep % 2 == 1))
                # reservation alignment: drop a random number of leading slots
                cut = rng.randint(0, 12)
                sigma = sigma[cut:] + [False] * cut
            else:
                rels = [releases_for(c["arr"], horizon - 200, rng, sync=(rep % 2 == 0)) if c["arr"] is not None else [] for c in cbs]
            tr = [] if rep < 2 else None
            # execution times: the WCET, or (every third scenario) anything between 1 and the WCET
            exf = ros_sim.ex_formula(cbs, rng.randint(0, 9), rng.randint(0, 9), rng.randint(0, 9)) if rep % 3 == 1 else None
            if target[0] == "cb" and len(target) > 2 and target[2] is not None:
                # instances of the analysed timer alternate between the costs the curve allows; a random phase
                pi_, pat_ = target[2]
                cnt_ = [rng.randint(0, 1)]
                def exf(i_, t_, cnt_=cnt_, pi_=pi_, pat_=pat_):
                    if i_ != pi_:
                        return cbs[i_]["cost"]
                    cnt_[0] += 1
                    return pat_[cnt_[0] % len(pat_)]
            st = [] if tr is not None else None
            done = ros_sim.simulate_executor(cbs, rels, sigma, chains, trace=tr, ex=exf, started=st)
            if exf is not None:
                dist["runs_with_shorter_execution_times"] = dist.get("runs_with_shorter_execution_times", 0) + 1
            if tr is not None:
                # Spec validation: the executor model's runs satisfy the schedule-level Spec over
                # which `timer_safe` / `polling_point_safe` / `chain_safe` are proved (for a chain:
                # every callback instance is attributed the arrival time of its chain instance)
                if kind == "ch":
                    first, last = target[1], target[2]
                    rels_src = [list(rels[first]) if first <= x <= last else rels[x] for x in range(len(cbs))]
                    viol = ros_sim.check_timer_legal(cbs, rels_src, sigma, tr, last, all_others=True, started=st)
                else:
                    viol = ros_sim.check_timer_legal(cbs, rels, sigma, tr, target[1], all_others=(kind == "pp"), started=st)
                dist["timer_spec_checked_runs"] = dist.get("timer_spec_checked_runs", 0) + 1
                if viol:
                    spec_viol.append({"op": op, "clauses": viol})
            nontrivial.add((op, rep))
            worst = 0
            if target[0] == "cb":
                for rel, comp in done[target[1]]:
                    if rel < horizon - 300:
                        worst = max(worst, comp - rel)
            else:
                first, last = target[1], target[2]
                # match chain instances in order: k-th source release -> k-th completion of the last callback
                srcs = [rl for rl, _ in done[first]]
                for k2, (rl, comp) in enumerate(done[last]):
                    if k2 < len(srcs) and srcs[k2] < horizon - 300:
                        worst = max(worst, comp - srcs[k2])
            if worst > R:
                cex.append({"kind": "executor_bound_exceeded", "analysis": kind, "op": op, "impl": r, "observed_response": worst,
                            "callbacks": [(c["kind"], c["prio"], c["cost"], c["arr"]) for c in cbs], "chains": chains,
                            "supply_slots_first_60": [i2 for i2, b in enumerate(sigma[:60]) if b]})
                break
        if len(samples) < 4 and R > 0:
            samples.append({"op": op, "bound": R})
    for v in spec_viol[:5]:
        cex.append({"kind": "executor_oracle_vs_schedule_spec", "op": v["op"], "violated_clauses": v["clauses"]})
    return {"cases": sum(dist[k] for k in ("es", "tm", "pp", "ch")), "nontrivial": len(nontrivial),
            "rule": "random executor workloads (timers, polled callbacks, a chain of polled callbacks) and event-source job sets on random periodic / deadline-constrained reservations: dense admissible releases (synchronous and phased), budget placed at random / as late as possible / adversarially, executed by the executor model (timers first, ready set refreshed only when empty, one instance per callback per polling window, non-preemptive, service only in supplied slots; execution times at the WCET and, every third scenario, anywhere between 1 and the WCET) resp. FIFO; observed response times vs the real bound; blocking bound of a timer = longest other non-higher-priority callback - 1; a polled callback is analysed with ALL other callbacks as interference; non-trivial = distinct (analysis input, scenario)",
            "counterexamples": cex, "samples": samples, "distribution": dist}


def parse_ros_workload_op(op):
    """(analysis, supply, callbacks) of an `rr` / `bw` operation line, in the form used by the
    C05 falsifier (scalar costs; timers and polled callbacks with pairwise distinct known
    priorities; unknown priorities get the remaining ranks); raises Unsupported otherwise"""
    t = op.split()
    which = t[0]

    def p_sup(i):
        if t[i] == "ded":
            return ("ded",), i + 1
        if t[i] == "psup":
            return ("psup", int(t[i + 1]), int(t[i + 2])), i + 3
        if t[i] == "csup":
            return ("csup", int(t[i + 1]), int(t[i + 2]), int(t[i + 3])), i + 4
        if t[i] == "dflt":
            return p_sup(i + 1)
        raise fals_analyses.Unsupported(t[i])
    sup, i = p_sup(1)
    m = int(t[i])
    i += 1
    cbs = []
    for _ in range(m):
        i += 1                                   # the assumed bound in the op is irrelevant here
        a, i = fals_analyses.parse_arr(t, i)
        if a[0] not in ("spo", "per", "cur"):
            raise fals_analyses.Unsupported(a[0])
        c, i = fals_analyses.parse_cost(t, i)
        if c[1] < 1:
            raise fals_analyses.Unsupported("zero cost")
        tag = t[i]
        i += 1
        if tag == "P":
            tag = f"P {t[i]}"
            i += 1
        elif tag not in ("T", "U"):
            raise fals_analyses.Unsupported(tag)
        cbs.append({"kind": "T" if tag == "T" else "P", "prio": None, "cost": c[1], "arr": a, "tag": tag})
    known = [int(c["tag"].split()[1]) for c in cbs if c["tag"].startswith("P")]
    if len(set(known)) != len(known) or not cbs:
        raise fals_analyses.Unsupported("duplicate priorities")
    nxt = max(known, default=-1) + 1
    for k, c in enumerate(cbs):
        if c["tag"].startswith("P"):
            c["prio"] = int(c["tag"].split()[1])
        elif c["kind"] == "P":
            c["prio"] = nxt
            nxt += 1
    for k, c in enumerate([c for c in cbs if c["kind"] == "T"]):
        c["prio"] = k
    return which, sup, cbs


def falsify_C05(ctx):
    rng = random.Random(ctx["seed"] * 7919 + 5)
    n = 200 if ctx["tier"] == "quick" else 8000
    cex, samples, nontrivial = [], [], set()
    dist = {"rr": 0, "bw": 0, "no_fixed_point": 0, "callbacks_checked": 0}
    horizon = 700
    def examine(which, sup, cbs, force_reps=None):
        ss = gen.supply_str(sup)
        m = len(cbs)
        # iterate the singleton analyses upwards from the WCETs to a self-consistent bound vector
        rtb = [c["cost"] for c in cbs]
        ok = False
        for rounds in range(40):
            wl = f"{m}" + "".join(f" {rtb[i]} {gen.arr_str(c['arr'])} sc {c['cost']} {c['tag']}" for i, c in enumerate(cbs))
            ops = [f"{which} {ss} {wl} 1 {i} 500" for i in range(m)]
            res = real(ops)
            if any(not x.startswith("ok ") for x in res):
                break
            new = [max(int(x.split()[1]), rtb[i]) for i, x in enumerate(res)]
            if new == rtb:
                ok = True
                break
            rtb = new
            if max(rtb) > 450:
                break
        dist[which] += 1
        if not ok:
            dist["no_fixed_point"] += 1
            return
        nreps = force_reps or 6
        mres = model(ops)
        if any(a.startswith("ok ") and b.startswith("ok ") and int(b.split()[1]) > int(a.split()[1]) for a, b in zip(res, mres)):
            # the model's analysis returns a larger value on this (self-consistent) input: intensify
            dist["model_guided_searches"] = dist.get("model_guided_searches", 0) + 1
            nreps = 300
        for rep in range(nreps):
            sigma = ros_sim.make_supply(sup, horizon, rng, mode=["random", "late", "worst", "random"][rep % 4])
            if rep >= 4:
                rels = shifted_releases(cbs, horizon - 250, rng, rng.randrange(m), rng.randint(0, 12))
            else:
                rels = [releases_for(c["arr"], horizon - 250, rng, sync=(rep % 2 == 0)) for c in cbs]
            tr, pl = ([], []) if rep < 2 else (None, None)
            # execution times: the WCET, or (every third scenario) anything between 1 and the WCET
            exf = ros_sim.ex_formula(cbs, rng.randint(0, 9), rng.randint(0, 9), rng.randint(0, 9)) if rep % 3 == 1 else None
            st = [] if tr is not None else None
            done = ros_sim.simulate_executor(cbs, rels, sigma, trace=tr, polls=pl, ex=exf, started=st)
            if exf is not None:
                dist["runs_with_shorter_execution_times"] = dist.get("runs_with_shorter_execution_times", 0) + 1
            if tr is not None:
                # Spec validation: runs of the executor model satisfy the schedule-level Spec over
                # which `rr_singleton_sound` is stated
                viol = ros_sim.check_polling_legal(cbs, rels, sigma, tr, pl, started=st)
                dist["polling_spec_checked_runs"] = dist.get("polling_spec_checked_runs", 0) + 1
                if viol and len(cex) < 50:
                    cex.append({"kind": "executor_oracle_vs_schedule_spec", "op": f"{which} {ss} {wl} 1 0 500", "violated_clauses": viol})
            nontrivial.add((wl, rep))
            for i in range(m):
                worst = max([comp - rel for rel, comp in done[i] if rel < horizon - 350], default=0)
                dist["callbacks_checked"] += 1
                if worst > rtb[i]:
                    cex.append({"kind": "rtss21_bound_exceeded", "analysis": which, "op": f"{which} {ss} {wl} 1 {i} 500",
                                "impl": f"ok {rtb[i]}", "observed_response": worst, "callback": i,
                                "assumed_bounds": rtb, "supply_slots_first_60": [i2 for i2, b in enumerate(sigma[:60]) if b]})
        if len(samples) < 4:
            samples.append({"analysis": which, "supply": ss, "callbacks": [(c["tag"], c["cost"], gen.arr_str(c["arr"])) for c in cbs],
                            "self_consistent_bounds": rtb})

    # when the correspondence of the rr / bw streams is broken, search harder: more workloads, most of
    # them from the two families in which the caps on polled interference are binding, known priorities
    broken = [d for d in ((ctx.get("corr") or {}).get("disagreements") or []) if d.get("op", "").split()[:1] in (["rr"], ["bw"])]
    n_extra = 0
    if broken:
        n_extra = 900 if ctx["tier"] == "quick" else 4000
        bw_broken = sum(1 for d in broken if d["op"].startswith("bw"))
        dist["intensified_because_correspondence_broken"] = n_extra
    for it in range(n + n_extra):
        which = "rr" if rng.random() < 0.5 else "bw"
        extra = it >= n
        if extra:
            which = "bw" if rng.random() < (0.2 + 0.6 * bw_broken / len(broken)) else "rr"
        sup = gen_res_supply(rng)
        cbs = []
        fam = rng.random() * (0.6 if extra else 1.0)
        pknown = 0.85 if extra else 0.5
        if fam < 0.2:
            # backlog: one polled callback releases k+1 instances at once (jitter = k periods, k = 2..4) and
            # needs k+1 polling points; another polled callback has a fresh instance for every window
            if rng.random() < 0.7:
                sup = ("ded",)
            Tb = rng.randint(8, 16)
            Cb = rng.randint(3, max(3, Tb // 2))
            Ta = rng.randint(300, 1000)
            k = rng.randint(2, 4)
            # a window (one instance of each) is about as long as the short period, so that the short
            # callback has a fresh instance at (almost) every polling point while the backlog drains
            Ca = max(1, Tb - Cb + rng.randint(-2, 3))
            cbs.append({"kind": "P", "prio": 0, "cost": Cb, "arr": ("per", Tb), "tag": ("P 0" if rng.random() < pknown else "U")})
            cbs.append({"kind": "P", "prio": 1, "cost": Ca, "arr": ("spo", Ta, k * Ta), "tag": ("P 1" if rng.random() < pknown else "U")})
            if rng.random() < 0.3:
                cbs.append({"kind": "T", "prio": 0, "cost": 1, "arr": ("per", rng.randint(40, 90)), "tag": "T"})
            if rng.random() < 0.5:
                cbs.reverse()
                for x in cbs:
                    if x["kind"] == "P":
                        x["prio"] = 1 - x["prio"]
                        if x["tag"].startswith("P"):
                            x["tag"] = f"P {x['prio']}"
            dist["backlog"] = dist.get("backlog", 0) + 1
        elif fam < 0.28:
            # own bursts: a callback whose delta-min curve lets a few instances arrive closer together
            # than its WCET (own backlog, self-interference windows that end exactly on a step)
            if rng.random() < 0.6:
                sup = ("ded",)
            c = rng.randint(3, 7)
            g = rng.randint(max(1, c - 3), c + 1)
            k = rng.randint(2, 4)
            dm = [g * (x + 1) for x in range(k)] + [rng.randint(60, 150) + g * k]
            kindb = rng.choice(["T", "P"])
            cbs.append({"kind": kindb, "prio": 0, "cost": c, "arr": ("cur", dm),
                        "tag": ("T" if kindb == "T" else ("P 0" if rng.random() < pknown else "U"))})
            if rng.random() < 0.5:
                T = rng.randint(20, 60)
                cbs.append({"kind": "P", "prio": 1, "cost": rng.randint(1, 3), "arr": ("spo", T, 0),
                            "tag": ("P 1" if rng.random() < pknown else "U")})
            dist["own_bursts"] = dist.get("own_bursts", 0) + 1
        elif fam < 0.5:
            # few callbacks, long callbacks, bursts of two or three instances (jitter close to / above
            # the period), often a dedicated processor: the caps on polled interference are binding
            if rng.random() < 0.5:
                sup = ("ded",)
            nt, npo = rng.randint(0, 1), rng.randint(2, 3)
            for i in range(nt):
                T = rng.randint(30, 120)
                cbs.append({"kind": "T", "prio": i, "cost": rng.randint(1, 6), "arr": ("spo", T, rng.randint(0, T)), "tag": "T"})
            for i in range(npo):
                T = rng.randint(40, 200)
                J = wchoice(rng, [(2, 0), (3, T - rng.randint(1, 4)), (2, rng.randint(T, 2 * T))])
                cbs.append({"kind": "P", "prio": i, "cost": rng.randint(2, 10), "arr": ("spo", T, J),
                            "tag": (f"P {i}" if rng.random() < 0.6 else "U")})
            dist["bursty_small"] = dist.get("bursty_small", 0) + 1
        else:
            nt, npo = rng.randint(0, 2), rng.randint(1, 3)
            for i in range(nt):
                cbs.append({"kind": "T", "prio": i, "cost": rng.randint(1, 3), "arr": gen_cb_arr(rng), "tag": "T"})
            for i in range(npo):
                cbs.append({"kind": "P", "prio": i, "cost": rng.randint(1, 3), "arr": gen_cb_arr(rng),
                            "tag": (f"P {i}" if rng.random() < 0.7 else "U")})
        examine(which, sup, cbs)
    # correspondence-guided: workloads of the rr / bw operations on which model and code disagree, the real
    # code claiming LESS than the model (proved safe): iterate the real singleton analyses on that
    # workload to a self-consistent vector and look for an executor run that exceeds it
    ng = 0
    seen_wl = set()
    for d in ((ctx.get("corr") or {}).get("disagreements") or []):
        op, ri, rm = d.get("op", ""), d.get("impl", ""), d.get("model", "")
        if op.split()[:1] not in (["rr"], ["bw"]) or not ri.startswith("ok "):
            continue
        if rm.startswith("ok ") and int(rm.split()[1]) <= int(ri.split()[1]):
            continue
        try:
            which, sup, cbs = parse_ros_workload_op(op)
        except (fals_analyses.Unsupported, ValueError, IndexError):
            continue
        key = (which, str(sup), str([(c["tag"], c["cost"], c["arr"]) for c in cbs]))
        if key in seen_wl:
            continue
        seen_wl.add(key)
        ng += 1
        if ng > 25:
            break
        before = len(cex)
        examine(which, sup, cbs, force_reps=120)
        for c in cex[before:]:
            c["found_by"] = "search guided by a correspondence disagreement (%s: impl %s, model %s)" % (op, ri, rm)
    dist["correspondence_guided_searches"] = ng
    return {"cases": dist["rr"] + dist["bw"], "nontrivial": len(nontrivial),
            "rule": "random executor workloads (timers, polled callbacks with known and unknown priority) on random reservations: the real rr / bw singleton analyses are iterated upwards from the WCETs until the assumed-bound vector reproduces itself; (when the correspondence of the rr / bw streams is broken: 900 further workloads, mostly from the families with binding caps and known priorities, plus the workloads of the disagreeing operations); then dense admissible releases and random / late / adversarial budget placements are executed by the executor model (execution times at the WCET and, every third scenario, anywhere between 1 and the WCET) and every callback's observed response times are compared with its bound; non-trivial = distinct (workload with fixed point, scenario)",
            "counterexamples": cex, "samples": samples, "distribution": dist}


def validate_executor_oracle(rng, n):
    """cross-check of the falsifier's executor model (vlib/ros_sim.py) against the formal Spec
    (lean/RTA/RTA/Spec/Ros2Exec.lean, driver op `exec`) on random scenarios; returns the list
    of disagreements"""
    ops, expected = [], []
    for it in range(n):
        m = rng.randint(1, 5)
        cbs = [{"kind": rng.choice("TP"), "prio": rng.randint(0, 3), "cost": rng.randint(1, 4)} for _ in range(m)]
        H = rng.randint(10, 80)
        sup = gen_res_supply(rng)
        sigma = ros_sim.make_supply(sup, H, rng, mode=rng.choice(["random", "late", "worst"]))
        chains = {}
        if m >= 2 and rng.random() < 0.4:
            a, b = rng.sample(range(m), 2)
            chains[a] = b
        rels = [sorted(rng.sample(range(H), rng.randint(0, min(6, H)))) for _ in range(m)]
        rl = [(t, i) for i in range(m) for t in rels[i]]
        if not chains and rng.random() < 0.6:
            # arbitrary execution times (Spec: RTA/Spec/Ros2ExecX.lean, driver op `execx`)
            a, b, c0 = rng.randint(0, 9), rng.randint(0, 9), rng.randint(0, 9)
            done = ros_sim.simulate_executor(cbs, rels, sigma, ex=ros_sim.ex_formula(cbs, a, b, c0))
            comps = sorted([(c, i, r) for i in range(m) for (r, c) in done[i]])
            expected.append("[" + ",".join(f"{i}:{r}:{c}" for c, i, r in comps) + "]")
            ops.append(f"execx {a} {b} {c0} {m} " + " ".join(f"{1 if c['kind']=='T' else 0} {c['prio']} {c['cost']}" for c in cbs) +
                       " " + "".join("1" if b2 else "0" for b2 in sigma) + f" {len(rl)} " + " ".join(f"{t} {i}" for t, i in rl))
            continue
        done = ros_sim.simulate_executor(cbs, rels, sigma, chains)
        comps = sorted([(c, i, r) for i in range(m) for (r, c) in done[i]])
        expected.append("[" + ",".join(f"{i}:{r}:{c}" for c, i, r in comps) + "]")
        ops.append(f"exec {m} " + " ".join(f"{1 if c['kind']=='T' else 0} {c['prio']} {c['cost']}" for c in cbs) +
                   f" {len(chains)} " + " ".join(f"{a} {b}" for a, b in chains.items()) + (" " if chains else "") +
                   "".join("1" if b else "0" for b in sigma) + f" {len(rl)} " + " ".join(f"{t} {i}" for t, i in rl))
    got = common.run_parallel(common.lean_bin(), ops)
    return [{"op": o, "oracle": e, "spec": g} for o, e, g in zip(ops, expected, got) if e != g]
