"""Executable Spec-level scheduler (discrete time, dedicated unit-speed processor) with an
explicit choice (from the run's PRNG) for every non-deterministic decision: tie-breaks,
execution times, placement of non-preemptive regions.  Mirrors RTA/Spec/Sched.lean
(`Valid`, `FifoLegal`, `JlfpLegal`).  Used by the falsifiers of C01–C03 and C18."""
import random
from . import gen
from .fals_models import gen_history, strip


def task_jobs(arr_tree, cost_model, n, rng, exec_mode="wcet"):
    """release times of an admissible (dense) history + execution times allowed by the cost
    model.  cost_model: ('sc', C) or any cost tuple; only scalar/multiframe used here."""
    rels = sorted(gen_history(arr_tree, n, rng))
    costs = []
    for i, _ in enumerate(rels):
        if cost_model[0] == "sc":
            c = cost_model[1]
        elif cost_model[0] == "mf":
            c = cost_model[1][i % len(cost_model[1])] if cost_model[1] else 0
        else:
            c = 1
        if exec_mode == "random" and c > 1:
            c = rng.randint(1, c)
        costs.append(c)
    return [(r, c) for r, c in zip(rels, costs) if c > 0]


def make_np(cost, mode, seg, rng, last=None):
    """set of service levels x (0 < x < cost) at which the job cannot be preempted"""
    if mode == "p" or cost <= 1:
        return set()
    if mode == "np":
        return set(range(1, cost))
    if mode == "lp":
        # fixed segments; the final one has length `last` (job shorter: one segment)
        bounds = {0, cost}
        pos = cost
        if last is not None:
            pos = max(cost - last, 0)
            bounds.add(pos)
        segmax = max(seg, 1)
        while pos > 0:
            pos = max(pos - rng.randint(1, segmax), 0)
            bounds.add(pos)
        return set(range(1, cost)) - bounds
    if mode == "fl":
        # floating regions: runs of consecutive non-preemptable levels shorter than seg
        out = set()
        x = 1
        while x < cost:
            if seg >= 2 and rng.random() < 0.5:
                run = rng.randint(1, seg - 1)
                for y in range(x, min(x + run, cost)):
                    out.add(y)
                x += run + 1
            else:
                x += 1
        return out
    raise ValueError(mode)


def simulate(jobs, hep_key, rng, horizon=None):
    """jobs: list of dicts {rel, cost, np:set, key...}.  hep_key(job) -> sortable priority
    (smaller = higher); ties broken at random among equal keys.  Returns list of response
    times (None if not finished within the horizon)."""
    n = len(jobs)
    rem = [j["cost"] for j in jobs]
    done_at = [None] * n
    t = 0
    cur = None
    horizon = horizon or (sum(rem) + max([j["rel"] for j in jobs], default=0) + 5)
    while t < horizon and any(r > 0 for r in rem):
        pending = [i for i in range(n) if jobs[i]["rel"] <= t and rem[i] > 0]
        if not pending:
            t = min(jobs[i]["rel"] for i in range(n) if rem[i] > 0)
            cur = None
            continue
        svc = (jobs[cur]["cost"] - rem[cur]) if cur is not None else 0
        if cur is not None and rem[cur] > 0 and svc in jobs[cur]["np"]:
            pick = cur
        else:
            best = min(hep_key(jobs[i]) for i in pending)
            cands = [i for i in pending if hep_key(jobs[i]) == best]
            pick = cur if (cur in cands and rng.random() < 0.5) else rng.choice(cands)
        rem[pick] -= 1
        t += 1
        cur = pick
        if rem[pick] == 0:
            done_at[pick] = t
            cur = None
    return [None if d is None else d - jobs[i]["rel"] for i, d in enumerate(done_at)]
