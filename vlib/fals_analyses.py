"""Falsifiers for the analysis-level properties (C06, C07, C17, C19, C20): the REAL
analyses against naive all-offset evaluation computed in Python from the real
`service_needed` tables, against each other, and across build profiles."""
import random
from . import common, gen
from .gen import wchoice
from .fals_basic import real, parse_list
from .fals_models import exactness_reasons


# ---------------------------------------------------------------------------
# structured task systems

def gen_system(rng, kind=None, small_limit=True):
    kind = kind or wchoice(rng, [(2, "fifo"), (1, "fp_p"), (1, "fp_np"), (1, "fp_lp"), (1, "fp_fl"),
                                 (1, "edf_p"), (1, "edf_np"), (1, "edf_lp"), (1, "edf_fl")])
    n = wchoice(rng, [(1, 0), (3, 1), (3, 2), (2, 3)])
    lim = wchoice(rng, [(1, rng.randint(0, 2)), (4, rng.randint(3, 40)), (4, rng.randint(40, 90))]) if small_limit else gen.gen_limit(rng)
    sysd = {"kind": kind, "limit": lim}
    D = wchoice(rng, [(4, rng.randint(1, 40)), (1, rng.randint(40, 120)), (0.5, 0)])
    same = rng.random() < 0.15

    def dl():
        return D if same else wchoice(rng, [(4, rng.randint(1, 40)), (1, rng.randint(40, 120)), (0.3, 0)])

    def task(scalar=True):
        return gen.gen_task_rb(rng, scalar=scalar or rng.random() < 0.85)

    if kind == "fifo":
        k = wchoice(rng, [(1, 1), (3, 2), (3, 3)])
        sysd["tasks"] = ("ragg", [task() for _ in range(k)])
        return sysd
    sysd["B"] = wchoice(rng, [(3, 0), (4, rng.randint(0, 6))])
    sysd["D"] = D
    if kind in ("fp_p", "fp_fl", "edf_p", "edf_fl"):
        sysd["tua"] = gen.gen_rb_maybe_agg(rng, scalar=(rng.random() < 0.8))
    else:
        sysd["arr"] = gen.gen_task_arr(rng)
        sysd["C"] = rng.randint(1, 8)
        sysd["last"] = wchoice(rng, [(2, 1), (2, sysd["C"]), (4, rng.randint(1, sysd["C"]))])
        sysd["tua"] = ("rbf", sysd["arr"], ("sc", sysd["C"]))
    others = []
    for _ in range(n):
        if kind == "edf_np":
            a = gen.gen_task_arr(rng)
            c = rng.randint(1, 8)
            others.append({"rb": ("rbf", a, ("sc", c)), "arr": a, "C": c, "D": dl(), "seg": c})
        else:
            others.append({"rb": task(False), "D": dl(), "seg": wchoice(rng, [(5, rng.randint(1, 6)), (1, 0)])})
    sysd["others"] = others
    return sysd


def system_op(sd):
    k, lim = sd["kind"], sd["limit"]
    if k == "fifo":
        return f"fifo {gen.rb_str(sd['tasks'])} {lim}"
    os_ = sd["others"]
    rbl = f"{len(os_)}" + "".join(" " + gen.rb_str(o["rb"]) for o in os_)
    if k == "fp_p":
        return f"fp_p {gen.rb_str(sd['tua'])} {rbl} {lim}"
    if k == "fp_fl":
        return f"fp_fl {gen.rb_str(sd['tua'])} {sd['B']} {rbl} {lim}"
    if k == "fp_np":
        return f"fp_np {gen.arr_str(sd['arr'])} {sd['C']} {sd['B']} {rbl} {lim}"
    if k == "fp_lp":
        return f"fp_lp {gen.arr_str(sd['arr'])} {sd['C']} {sd['last']} {sd['B']} {rbl} {lim}"
    if k == "edf_p":
        return f"edf_p {gen.rb_str(sd['tua'])} {sd['D']} {len(os_)}" + "".join(f" {gen.rb_str(o['rb'])} {o['D']}" for o in os_) + f" {lim}"
    if k == "edf_np":
        return f"edf_np {gen.arr_str(sd['arr'])} {sd['C']} {sd['D']} {len(os_)}" + "".join(f" {gen.arr_str(o['arr'])} {o['C']} {o['D']}" for o in os_) + f" {lim}"
    tail = f" {len(os_)}" + "".join(f" {gen.rb_str(o['rb'])} {o['D']} {o['seg']}" for o in os_) + f" {lim}"
    if k == "edf_lp":
        return f"edf_lp {gen.arr_str(sd['arr'])} {sd['C']} {sd['D']} {sd['last']}" + tail
    return f"edf_fl {gen.rb_str(sd['tua'])} {sd['D']}" + tail


def rem_of(sd):
    k = sd["kind"]
    if k in ("fp_np", "edf_np"):
        return sd["C"] - 1
    if k in ("fp_lp", "edf_lp"):
        return sd["last"] - 1
    return 0


# ---------------------------------------------------------------------------
# naive evaluation (Python rendering of RTA/Spec/Naive.lean) on REAL demand tables

def naive_solve(w, limit):
    for r in range(0, limit + 1):
        if w(max(r, 1)) <= r:
            return r
    return None


def naive_eval(sd, tabs):
    """tabs: {'tua': [...], 'others': [[...], ...]} real service_needed tables"""
    k, lim = sd["kind"], sd["limit"]
    tua = tabs["tua"]
    oth = tabs["others"]

    def T(tb, x):
        return tb[min(x, len(tb) - 1)]

    if k == "fifo":
        L = naive_solve(lambda x: T(tua, x), lim)
        if L is None:
            return f"div 0 {lim}"
        return f"ok {max([max(T(tua, A + 1) - A, 0) for A in range(L)], default=0)}"
    rem = rem_of(sd)
    if k.startswith("fp"):
        B = 0 if k == "fp_p" else sd["B"]
        L = naive_solve(lambda x: B + sum(T(o, x) for o in oth) + T(tua, x), lim)
        if L is None:
            return f"div 0 {lim}"
        best = 0
        for A in range(L):
            own = max(T(tua, A + 1) - rem, 0)
            AF = naive_solve(lambda x: B + own + sum(T(o, x) for o in oth), lim)
            if AF is None:
                return f"div 0 {lim}"
            best = max(best, max(AF - A, 0) + rem)
        return f"ok {best}"
    D = sd["D"]
    os_ = sd["others"]
    L = naive_solve(lambda x: sum(T(o, x) for o in oth) + T(tua, x), lim)
    if L is None:
        return f"div 0 {lim}"
    best = 0
    for A in range(L):
        if k == "edf_p":
            B = 0
        else:
            cands = [max(o["seg"] - 1, 0) for o, tb in zip(os_, oth) if o["D"] > D + A and T(tb, 1) > 0]
            B = max(cands, default=0)
        own = max(T(tua, A + 1) - rem, 0)
        AF = naive_solve(lambda x: B + own + sum(T(tb, min(x, max(A + 1 + D - o["D"], 0))) for o, tb in zip(os_, oth)), lim)
        if AF is None:
            return f"div 0 {lim}"
        best = max(best, max(AF - A, 0) + rem)
    return f"ok {best}"


def rb_arrs(r):
    if r[0] == "rbf":
        yield r[1]
    elif r[0] == "rbox":
        yield from rb_arrs(r[1])
    else:
        for x in r[1]:
            yield from rb_arrs(x)


def system_reasons(sd):
    nav = lambda t, d: int(real([f"na {gen.arr_str(t)} {d}"])[0])
    reasons = set()
    rbs = [sd["tasks"]] if sd["kind"] == "fifo" else [sd["tua"]] + [o["rb"] for o in sd["others"]]
    for r in rbs:
        for a in rb_arrs(r):
            reasons |= exactness_reasons(a, nav)
    return sorted(reasons)


def fetch_tables(sds, upto_extra=130):
    ops = []
    idx = []
    for sd in sds:
        X = sd["limit"] + upto_extra + 2
        if sd["kind"] == "fifo":
            ops.append(f"needs {gen.rb_str(sd['tasks'])} 0 {X}")
            idx.append(1)
        else:
            ops.append(f"needs {gen.rb_str(sd['tua'])} 0 {X}")
            for o in sd["others"]:
                ops.append(f"needs {gen.rb_str(o['rb'])} 0 {X}")
            idx.append(1 + len(sd["others"]))
    res = real(ops)
    out = []
    p = 0
    for n in idx:
        chunk = [parse_list(x) for x in res[p:p + n]]
        p += n
        out.append(None if any(c is None for c in chunk) else {"tua": chunk[0], "others": chunk[1:]})
    return out


def falsify_C06(ctx):
    rng = random.Random(ctx["seed"] * 7919 + 6)
    n = 1500 if ctx["tier"] == "quick" else 60000
    sds = [gen_system(rng) for _ in range(n)]
    ops = [system_op(sd) for sd in sds]
    res = real(ops)
    tabs = fetch_tables(sds)
    cex, samples, nontrivial = [], [], set()
    dist = {}
    for sd, op, r, tb in zip(sds, ops, res, tabs):
        dist[sd["kind"]] = dist.get(sd["kind"], 0) + 1
        if tb is None:
            continue
        exp = naive_eval(sd, tb)
        if exp.startswith("ok ") and exp != "ok 0":
            nontrivial.add(op)
        if r != exp:
            tua_silent = all(v == 0 for v in tb["tua"])
            cex.append({"kind": "analysis_not_naive", "op": op, "impl": r, "naive_all_offsets": exp,
                        "limit": sd["limit"], "tua_never_releases": tua_silent, "reasons": system_reasons(sd)})
        elif len(samples) < 4 and exp.startswith("ok ") and exp != "ok 0" and sd["kind"] != "fifo" and sd["others"]:
            samples.append({"op": op, "impl": r, "naive_all_offsets": exp})
    return {"cases": len(sds), "nontrivial": len(nontrivial),
            "rule": "random task systems for the nine dedicated-processor analyses (jitter, bursts, nested aggregates, deadlines on both sides, limits 0..90): real result vs naive evaluation (linear-scan least solutions, every offset A in [0,L), maximum) computed in Python from the REAL service_needed tables; non-trivial = distinct system with a positive bound",
            "counterexamples": cex, "samples": samples, "distribution": dist}


# ---------------------------------------------------------------------------
# schedule-level falsifiers (C03, C01, C02, C18): real bound vs simulated schedules

from . import sim


def sample_arr(rng):
    """arrival models whose admissible histories the simulator can generate"""
    return gen.gen_task_arr(rng, allow_prefix=False)


def sync(jobsets):
    """shift every task's releases so that all tasks start together (critical instant)"""
    out = []
    for js in jobsets:
        if js:
            m = min(r for r, _ in js)
            out.append([(r - m, c) for r, c in js])
        else:
            out.append(js)
    return out


def mf_not_am(cs):
    """a multiframe vector whose cost_of_jobs (prefix sums of the cycle starting at frame 0)
    does NOT bound every run of consecutive jobs (not accumulatively monotonic)"""
    n = len(cs)
    if n == 0:
        return False
    for m in range(1, 2 * n + 1):
        pre = sum(cs[i % n] for i in range(m))
        for ph in range(1, n):
            if sum(cs[(ph + i) % n] for i in range(m)) > pre:
                return True
    return False


def any_bad_mf(costs):
    return any(c[0] == "mf" and mf_not_am(c[1]) for c in costs)


def falsify_C03(ctx):
    rng = random.Random(ctx["seed"] * 7919 + 3)
    n = 300 if ctx["tier"] == "quick" else 20000
    cex, samples, nontrivial = [], [], set()
    cases = 0
    attained = 0
    for i in range(n):
        k = wchoice(rng, [(1, 1), (3, 2), (3, 3), (1, 4)])
        tasks = []
        for _ in range(k):
            a = sample_arr(rng)
            c = ("sc", rng.randint(1, 6)) if rng.random() < 0.85 else ("mf", [rng.randint(1, 5) for _ in range(rng.randint(1, 3))])
            tasks.append((a, c))
        rb = ("ragg", [("rbf", a, c) for a, c in tasks])
        op = f"fifo {gen.rb_str(rb)} 2000"
        r = real([op])[0]
        cases += 1
        if not r.startswith("ok "):
            continue
        R = int(r.split()[1])
        worst = 0
        for rep in range(4):
            mode = "wcet" if rep < 3 else "random"
            jobsets = [sim.task_jobs(a, c, rng.randint(2, 10), rng, mode) for a, c in tasks]
            if rep % 2 == 0:
                jobsets = sync(jobsets)
            jobs = [{"rel": rl, "cost": c, "np": set(), "task": ti} for ti, js in enumerate(jobsets) for rl, c in js]
            if not jobs:
                continue
            rts = sim.simulate(jobs, lambda j: j["rel"], rng)
            nontrivial.add((op, rep, len(jobs)))
            for j, rt in zip(jobs, rts):
                if rt is None or rt > R:
                    cex.append({"kind": "fifo_bound_exceeded", "op": op, "impl": r, "observed_response": rt,
                                "job": j["rel"], "jobs": [(x["rel"], x["cost"], x["task"]) for x in jobs],
                                "multiframe_not_accumulatively_monotonic": any_bad_mf([c for _, c in tasks])})
                    break
                worst = max(worst, rt)
        if worst == R and R > 0:
            attained += 1
        if len(samples) < 3 and worst > 0 and k >= 2:
            samples.append({"op": op, "bound": R, "worst_simulated_response": worst})
    return {"cases": cases, "nontrivial": len(nontrivial),
            "rule": "random task sets (sporadic with jitter, periodic, bursty curves, nested/propagated models; scalar and multiframe costs) x dense admissible release sequences (synchronous and phased) x WCET and random execution times x random tie-breaks, simulated under FIFO (executable rendering of RTA/Spec/Sched.lean) and compared with the real bound; non-trivial = distinct (system, scenario)",
            "counterexamples": cex, "samples": samples, "distribution": {"systems_with_bound": cases, "bound_attained_by_some_schedule": attained}}


def gen_sched_system(rng, policy):
    """tasks for the schedule-level falsifiers: list of dicts(arr, C, seg, D)"""
    k = wchoice(rng, [(1, 1), (3, 2), (3, 3), (2, 4)])
    tasks = []
    for _ in range(k):
        C = rng.randint(1, 6)
        tasks.append({"arr": sample_arr(rng), "C": C, "seg": rng.randint(1, C), "D": rng.randint(1, 60)})
    return tasks


def falsify_C01(ctx):
    rng = random.Random(ctx["seed"] * 7919 + 1)
    n = 300 if ctx["tier"] == "quick" else 20000
    cex, samples, nontrivial = [], [], set()
    cases = 0
    dist = {}
    for it in range(n):
        tasks = gen_sched_system(rng, "fp")      # index = priority (0 highest)
        i = rng.randrange(len(tasks))
        kind = wchoice(rng, [(1, "fp_p"), (1, "fp_np"), (1, "fp_lp"), (1, "fp_fl")])
        tua = tasks[i]
        hp, lp = tasks[:i], tasks[i + 1:]
        others = f"{len(hp)}" + "".join(f" rbf {gen.arr_str(t['arr'])} sc {t['C']}" for t in hp)
        if kind == "fp_p":
            B = 0
            op = f"fp_p rbf {gen.arr_str(tua['arr'])} sc {tua['C']} {others} 3000"
        elif kind == "fp_np":
            B = max([t["C"] - 1 for t in lp], default=0)
            op = f"fp_np {gen.arr_str(tua['arr'])} {tua['C']} {B} {others} 3000"
        elif kind == "fp_lp":
            B = max([t["seg"] - 1 for t in lp], default=0)
            last = tua["seg"]
            op = f"fp_lp {gen.arr_str(tua['arr'])} {tua['C']} {last} {B} {others} 3000"
        else:
            B = max([t["seg"] - 1 for t in lp], default=0)
            op = f"fp_fl rbf {gen.arr_str(tua['arr'])} sc {tua['C']} {B} {others} 3000"
        r = real([op])[0]
        cases += 1
        dist[kind] = dist.get(kind, 0) + 1
        if not r.startswith("ok "):
            continue
        R = int(r.split()[1])
        worst = 0
        for rep in range(4):
            mode = "wcet" if rep < 3 else "random"
            jobsets = [sim.task_jobs(t["arr"], ("sc", t["C"]), rng.randint(2, 9), rng, mode) for t in tasks]
            if rep % 2 == 0:
                jobsets = sync(jobsets)
                if lp and rep == 0:
                    # a lower-priority job starts one tick before everyone else
                    jobsets = [[(rl + (0 if ti > i else 1), c) for rl, c in js] for ti, js in enumerate(jobsets)]
            jobs = []
            for ti, js in enumerate(jobsets):
                for rl, c in js:
                    t = tasks[ti]
                    if kind == "fp_p":
                        npset = set()
                    elif kind == "fp_np":
                        npset = sim.make_np(c, "np", 0, rng)
                    elif kind == "fp_lp":
                        npset = sim.make_np(c, "lp", t["seg"], rng, last=(t["seg"] if ti == i else None))
                    else:
                        npset = sim.make_np(c, "fl", t["seg"], rng)
                    jobs.append({"rel": rl, "cost": c, "np": npset, "task": ti})
            if not any(j["task"] == i for j in jobs):
                continue
            jobs.sort(key=lambda j: (j["task"], j["rel"]))
            for idx, j in enumerate(jobs):
                j["idx"] = idx
            rts = sim.simulate(jobs, lambda j: (j["task"], j["idx"]), rng)
            nontrivial.add((op, rep, len(jobs)))
            for j, rt in zip(jobs, rts):
                if j["task"] != i:
                    continue
                if rt is None or rt > R:
                    cex.append({"kind": "fp_bound_exceeded", "op": op, "impl": r, "observed_response": rt, "variant": kind,
                                "jobs": [(x["rel"], x["cost"], x["task"], sorted(x["np"])) for x in jobs],
                                "multiframe_not_accumulatively_monotonic": False})
                    break
                worst = max(worst, rt)
        if len(samples) < 4 and worst > 0 and len(tasks) >= 2:
            samples.append({"op": op, "bound": R, "worst_simulated_response": worst})
    return {"cases": cases, "nontrivial": len(nontrivial),
            "rule": "random task sets with distinct priorities x analysed priority level x the four preemption models; blocking bound = longest lower-priority segment - 1; dense admissible releases (synchronous, phased, a lower-priority job started one tick earlier), WCET and random execution times, random legal placement of non-preemptive regions and random tie-breaks; simulated response times of the analysed task vs the real bound; non-trivial = distinct (system, scenario)",
            "counterexamples": cex, "samples": samples, "distribution": dist}


def falsify_C02(ctx):
    rng = random.Random(ctx["seed"] * 7919 + 2)
    n = 300 if ctx["tier"] == "quick" else 20000
    cex, samples, nontrivial = [], [], set()
    cases = 0
    dist = {}
    for it in range(n):
        tasks = gen_sched_system(rng, "edf")
        if rng.random() < 0.15:
            for t in tasks:
                t["D"] = tasks[0]["D"]          # equal deadlines: ties everywhere
        i = rng.randrange(len(tasks))
        kind = wchoice(rng, [(1, "edf_p"), (1, "edf_np"), (1, "edf_lp"), (1, "edf_fl")])
        tua = tasks[i]
        oth = [t for ti, t in enumerate(tasks) if ti != i]
        if kind == "edf_p":
            op = f"edf_p rbf {gen.arr_str(tua['arr'])} sc {tua['C']} {tua['D']} {len(oth)}" + \
                "".join(f" rbf {gen.arr_str(t['arr'])} sc {t['C']} {t['D']}" for t in oth) + " 3000"
        elif kind == "edf_np":
            op = f"edf_np {gen.arr_str(tua['arr'])} {tua['C']} {tua['D']} {len(oth)}" + \
                "".join(f" {gen.arr_str(t['arr'])} {t['C']} {t['D']}" for t in oth) + " 3000"
        elif kind == "edf_lp":
            op = f"edf_lp {gen.arr_str(tua['arr'])} {tua['C']} {tua['D']} {tua['seg']} {len(oth)}" + \
                "".join(f" rbf {gen.arr_str(t['arr'])} sc {t['C']} {t['D']} {t['seg']}" for t in oth) + " 3000"
        else:
            op = f"edf_fl rbf {gen.arr_str(tua['arr'])} sc {tua['C']} {tua['D']} {len(oth)}" + \
                "".join(f" rbf {gen.arr_str(t['arr'])} sc {t['C']} {t['D']} {t['seg']}" for t in oth) + " 3000"
        r = real([op])[0]
        cases += 1
        dist[kind] = dist.get(kind, 0) + 1
        if not r.startswith("ok "):
            continue
        R = int(r.split()[1])
        worst = 0
        for rep in range(4):
            mode = "wcet" if rep < 3 else "random"
            jobsets = [sim.task_jobs(t["arr"], ("sc", t["C"]), rng.randint(2, 9), rng, mode) for t in tasks]
            if rep % 2 == 0:
                jobsets = sync(jobsets)
                if rep == 0 and len(tasks) > 1:
                    # the task with the latest deadline starts one tick before everyone else
                    late = max(range(len(tasks)), key=lambda ti: tasks[ti]["D"])
                    jobsets = [[(rl + (0 if ti == late else 1), c) for rl, c in js] for ti, js in enumerate(jobsets)]
            jobs = []
            for ti, js in enumerate(jobsets):
                for rl, c in js:
                    t = tasks[ti]
                    if kind == "edf_p":
                        npset = set()
                    elif kind == "edf_np":
                        npset = sim.make_np(c, "np", 0, rng)
                    elif kind == "edf_lp":
                        npset = sim.make_np(c, "lp", t["seg"], rng, last=(t["seg"] if ti == i else None))
                    else:
                        npset = sim.make_np(c, "fl", t["seg"], rng)
                    jobs.append({"rel": rl, "cost": c, "np": npset, "task": ti, "dl": rl + t["D"]})
            if not any(j["task"] == i for j in jobs):
                continue
            rts = sim.simulate(jobs, lambda j: j["dl"], rng)
            nontrivial.add((op, rep, len(jobs)))
            for j, rt in zip(jobs, rts):
                if j["task"] != i:
                    continue
                if rt is None or rt > R:
                    cex.append({"kind": "edf_bound_exceeded", "op": op, "impl": r, "observed_response": rt, "variant": kind,
                                "jobs": [(x["rel"], x["cost"], x["task"], sorted(x["np"])) for x in jobs],
                                "multiframe_not_accumulatively_monotonic": False})
                    break
                worst = max(worst, rt)
        if len(samples) < 4 and worst > 0 and len(tasks) >= 2:
            samples.append({"op": op, "bound": R, "worst_simulated_response": worst})
    return {"cases": cases, "nontrivial": len(nontrivial),
            "rule": "random task sets x analysed task x the four EDF preemption models x arbitrary relative deadlines (also equal ones: ties everywhere); dense admissible releases (synchronous, phased, the latest-deadline task started one tick earlier), WCET and random execution times, random legal placement of non-preemptive regions, random tie-breaks among equal absolute deadlines; simulated response times vs the real bound; non-trivial = distinct (system, scenario)",
            "counterexamples": cex, "samples": samples, "distribution": dist}
