"""Falsifiers for the analysis-level properties (C06, C07, C17, C19, C20): the REAL
analyses against naive all-offset evaluation computed in Python from the real
`service_needed` tables, against each other, and across build profiles."""
import random
from . import common, gen
from .gen import wchoice
from .fals_basic import real, parse_list
from .fals_models import exactness_reasons


# ---------------------------------------------------------------------------
# structured task systems

def gen_system(rng, kind=None, small_limit=True):
    kind = kind or wchoice(rng, [(2, "fifo"), (1, "fp_p"), (1, "fp_np"), (1, "fp_lp"), (1, "fp_fl"),
                                 (1, "edf_p"), (1, "edf_np"), (1, "edf_lp"), (1, "edf_fl")])
    n = wchoice(rng, [(1, 0), (3, 1), (3, 2), (2, 3)])
    lim = wchoice(rng, [(1, rng.randint(0, 2)), (4, rng.randint(3, 40)), (4, rng.randint(40, 90))]) if small_limit else gen.gen_limit(rng)
    sysd = {"kind": kind, "limit": lim}
    D = wchoice(rng, [(4, rng.randint(1, 40)), (1, rng.randint(40, 120)), (0.5, 0)])
    same = rng.random() < 0.15

    def dl():
        return D if same else wchoice(rng, [(4, rng.randint(1, 40)), (1, rng.randint(40, 120)), (0.3, 0)])

    def task(scalar=True):
        return gen.gen_task_rb(rng, scalar=scalar or rng.random() < 0.85)

    if kind == "fifo":
        k = wchoice(rng, [(1, 1), (3, 2), (3, 3)])
        sysd["tasks"] = ("ragg", [task() for _ in range(k)])
        return sysd
    sysd["B"] = wchoice(rng, [(3, 0), (4, rng.randint(0, 6))])
    sysd["D"] = D
    if rng.random() < 0.4:
        # near-full utilisation / small-scope sporadic task sets: the busy window spans several jobs of the
        # analysed task, late offsets matter; generous limit
        hp, (a, C) = gen.gen_dense_taskset(rng) if rng.random() < 0.4 else gen.gen_small_taskset(rng)
        sysd["limit"] = rng.randint(150, 400)
        sysd["B"] = wchoice(rng, [(2, 0), (5, rng.randint(1, 4))])
        sysd["arr"], sysd["C"] = a, C
        sysd["last"] = wchoice(rng, [(1, 1), (2, C), (4, rng.randint(1, C))])
        sysd["tua"] = ("rbf", a, ("sc", C))
        sysd["others"] = [{"rb": ("rbf", x, ("sc", c)), "arr": x, "C": c, "D": dl(), "seg": (c if kind == "edf_np" else rng.randint(1, c))}
                          for x, c in hp]
        return sysd
    if kind in ("fp_p", "fp_fl", "edf_p", "edf_fl"):
        sysd["tua"] = gen.gen_rb_maybe_agg(rng, scalar=(rng.random() < 0.8))
    else:
        sysd["arr"] = gen.gen_task_arr(rng)
        sysd["C"] = rng.randint(1, 8)
        sysd["last"] = wchoice(rng, [(2, 1), (2, sysd["C"]), (4, rng.randint(1, sysd["C"]))])
        sysd["tua"] = ("rbf", sysd["arr"], ("sc", sysd["C"]))
    others = []
    for _ in range(n):
        if kind == "edf_np":
            a = gen.gen_task_arr(rng)
            c = rng.randint(1, 8)
            others.append({"rb": ("rbf", a, ("sc", c)), "arr": a, "C": c, "D": dl(), "seg": c})
        else:
            others.append({"rb": task(False), "D": dl(), "seg": wchoice(rng, [(5, rng.randint(1, 6)), (1, 0)])})
    sysd["others"] = others
    return sysd


def system_op(sd):
    k, lim = sd["kind"], sd["limit"]
    if k == "fifo":
        return f"fifo {gen.rb_str(sd['tasks'])} {lim}"
    os_ = sd["others"]
    rbl = f"{len(os_)}" + "".join(" " + gen.rb_str(o["rb"]) for o in os_)
    if k == "fp_p":
        return f"fp_p {gen.rb_str(sd['tua'])} {rbl} {lim}"
    if k == "fp_fl":
        return f"fp_fl {gen.rb_str(sd['tua'])} {sd['B']} {rbl} {lim}"
    if k == "fp_np":
        return f"fp_np {gen.arr_str(sd['arr'])} {sd['C']} {sd['B']} {rbl} {lim}"
    if k == "fp_lp":
        return f"fp_lp {gen.arr_str(sd['arr'])} {sd['C']} {sd['last']} {sd['B']} {rbl} {lim}"
    if k == "edf_p":
        return f"edf_p {gen.rb_str(sd['tua'])} {sd['D']} {len(os_)}" + "".join(f" {gen.rb_str(o['rb'])} {o['D']}" for o in os_) + f" {lim}"
    if k == "edf_np":
        return f"edf_np {gen.arr_str(sd['arr'])} {sd['C']} {sd['D']} {len(os_)}" + "".join(f" {gen.arr_str(o['arr'])} {o['C']} {o['D']}" for o in os_) + f" {lim}"
    tail = f" {len(os_)}" + "".join(f" {gen.rb_str(o['rb'])} {o['D']} {o['seg']}" for o in os_) + f" {lim}"
    if k == "edf_lp":
        return f"edf_lp {gen.arr_str(sd['arr'])} {sd['C']} {sd['D']} {sd['last']}" + tail
    return f"edf_fl {gen.rb_str(sd['tua'])} {sd['D']}" + tail


def rem_of(sd):
    k = sd["kind"]
    if k in ("fp_np", "edf_np"):
        return sd["C"] - 1
    if k in ("fp_lp", "edf_lp"):
        return sd["last"] - 1
    return 0


# ---------------------------------------------------------------------------
# naive evaluation (Python rendering of RTA/Spec/Naive.lean) on REAL demand tables

def naive_solve(w, limit):
    for r in range(0, limit + 1):
        if w(max(r, 1)) <= r:
            return r
    return None


def naive_eval(sd, tabs):
    """tabs: {'tua': [...], 'others': [[...], ...]} real service_needed tables"""
    k, lim = sd["kind"], sd["limit"]
    tua = tabs["tua"]
    oth = tabs["others"]

    def T(tb, x):
        return tb[min(x, len(tb) - 1)]

    if k == "fifo":
        L = naive_solve(lambda x: T(tua, x), lim)
        if L is None:
            return f"div 0 {lim}"
        return f"ok {max([max(T(tua, A + 1) - A, 0) for A in range(L)], default=0)}"
    rem = rem_of(sd)
    if k.startswith("fp"):
        B = 0 if k == "fp_p" else sd["B"]
        L = naive_solve(lambda x: B + sum(T(o, x) for o in oth) + T(tua, x), lim)
        if L is None:
            return f"div 0 {lim}"
        best = 0
        for A in range(L):
            own = max(T(tua, A + 1) - rem, 0)
            AF = naive_solve(lambda x: B + own + sum(T(o, x) for o in oth), lim)
            if AF is None:
                return f"div 0 {lim}"
            best = max(best, max(AF - A, 0) + rem)
        return f"ok {best}"
    D = sd["D"]
    os_ = sd["others"]
    L = naive_solve(lambda x: sum(T(o, x) for o in oth) + T(tua, x), lim)
    if L is None:
        return f"div 0 {lim}"
    best = 0
    for A in range(L):
        if k == "edf_p":
            B = 0
        else:
            cands = [max(o["seg"] - 1, 0) for o, tb in zip(os_, oth) if o["D"] > D + A and T(tb, 1) > 0]
            B = max(cands, default=0)
        own = max(T(tua, A + 1) - rem, 0)
        AF = naive_solve(lambda x: B + own + sum(T(tb, min(x, max(A + 1 + D - o["D"], 0))) for o, tb in zip(os_, oth)), lim)
        if AF is None:
            return f"div 0 {lim}"
        best = max(best, max(AF - A, 0) + rem)
    return f"ok {best}"


def rb_arrs(r):
    if r[0] == "rbf":
        yield r[1]
    elif r[0] == "rbox":
        yield from rb_arrs(r[1])
    else:
        for x in r[1]:
            yield from rb_arrs(x)


def system_reasons(sd):
    nav = lambda t, d: int(real([f"na {gen.arr_str(t)} {d}"])[0])
    reasons = set()
    rbs = [sd["tasks"]] if sd["kind"] == "fifo" else [sd["tua"]] + [o["rb"] for o in sd["others"]]
    for r in rbs:
        for a in rb_arrs(r):
            reasons |= exactness_reasons(a, nav)
    return sorted(reasons)


def fetch_tables(sds, upto_extra=130):
    ops = []
    idx = []
    for sd in sds:
        X = sd["limit"] + upto_extra + 2
        if sd["kind"] == "fifo":
            ops.append(f"needs {gen.rb_str(sd['tasks'])} 0 {X}")
            idx.append(1)
        else:
            ops.append(f"needs {gen.rb_str(sd['tua'])} 0 {X}")
            for o in sd["others"]:
                ops.append(f"needs {gen.rb_str(o['rb'])} 0 {X}")
            idx.append(1 + len(sd["others"]))
    res = real(ops)
    out = []
    p = 0
    for n in idx:
        chunk = [parse_list(x) for x in res[p:p + n]]
        p += n
        out.append(None if any(c is None for c in chunk) else {"tua": chunk[0], "others": chunk[1:]})
    return out


def falsify_C06(ctx):
    rng = random.Random(ctx["seed"] * 7919 + 6)
    n = 1500 if ctx["tier"] == "quick" else 60000
    sds = [gen_system(rng) for _ in range(n)]
    ops = [system_op(sd) for sd in sds]
    res = real(ops)
    # phase 2: converged systems again with divergence limits at / around the returned bound
    # (every least solution exists below the limit, or just does not)
    sds2 = []
    for sd, r in zip(sds, res):
        if r.startswith("ok ") and r != "ok 0":
            R = int(r.split()[1])
            for lim in {max(R - 1, 0), R, R + rng.randint(1, 3), R + rng.randint(3, max(R, 4))}:
                if lim != sd["limit"] and rng.random() < 0.6:
                    sds2.append(dict(sd, limit=lim))
    ops2 = [system_op(sd) for sd in sds2]
    res = res + real(ops2)
    sds, ops = sds + sds2, ops + ops2
    # correspondence-guided: the analysis operations on which model and code disagree are evaluated
    # against the naive Spec as well (those the parser understands)
    sds3 = []
    for d in ((ctx.get("corr") or {}).get("disagreements") or []):
        if d.get("op", "").split()[:1] and d["op"].split()[0] in ("fifo", "fp_p", "fp_np", "fp_lp", "fp_fl", "edf_p", "edf_np", "edf_lp", "edf_fl"):
            try:
                sd = system_from_op(d["op"])
            except (Unsupported, ValueError, IndexError):
                continue
            if sd["limit"] <= 600 and system_op(sd).split()[0] == sd["kind"]:
                sds3.append(sd)
            if len(sds3) >= 60:
                break
    ops3 = [system_op(sd) for sd in sds3]
    res = res + real(ops3)
    sds, ops = sds + sds3, ops + ops3
    tabs = fetch_tables(sds)
    cex, samples, nontrivial = [], [], set()
    dist = {"phase2_limits_around_bound": len(sds2), "correspondence_guided_systems": len(sds3)}
    for sd, op, r, tb in zip(sds, ops, res, tabs):
        dist[sd["kind"]] = dist.get(sd["kind"], 0) + 1
        if tb is None:
            continue
        exp = naive_eval(sd, tb)
        if exp.startswith("ok ") and exp != "ok 0":
            nontrivial.add(op)
        if r != exp:
            tua_silent = all(v == 0 for v in tb["tua"])
            cex.append({"kind": "analysis_not_naive", "op": op, "impl": r, "naive_all_offsets": exp,
                        "limit": sd["limit"], "tua_never_releases": tua_silent, "reasons": system_reasons(sd)})
        elif len(samples) < 4 and exp.startswith("ok ") and exp != "ok 0" and sd["kind"] != "fifo" and sd["others"]:
            samples.append({"op": op, "impl": r, "naive_all_offsets": exp})
    return {"cases": len(sds), "nontrivial": len(nontrivial),
            "rule": "random task systems for the nine dedicated-processor analyses (jitter, bursts, nested aggregates, deadlines on both sides, limits 0..90): real result vs naive evaluation (linear-scan least solutions, every offset A in [0,L), maximum) computed in Python from the REAL service_needed tables; a fifth of the systems are near-full-utilisation sporadic task sets (long busy windows, many offsets); the analysis operations on which the correspondence disagrees are evaluated against the naive Spec as well; non-trivial = distinct system with a positive bound",
            "counterexamples": cex, "samples": samples, "distribution": dist}


# ---------------------------------------------------------------------------
# schedule-level falsifiers (C03, C01, C02, C18): real bound vs simulated schedules

from . import sim


def sample_arr(rng):
    """arrival models whose admissible histories the simulator can generate"""
    return gen.gen_task_arr(rng, allow_prefix=False)


def sync(jobsets):
    """shift every task's releases so that all tasks start together (critical instant)"""
    out = []
    for js in jobsets:
        if js:
            m = min(r for r, _ in js)
            out.append([(r - m, c) for r, c in js])
        else:
            out.append(js)
    return out


def mf_not_am(cs):
    """a multiframe vector whose cost_of_jobs (prefix sums of the cycle starting at frame 0)
    does NOT bound every run of consecutive jobs (not accumulatively monotonic)"""
    n = len(cs)
    if n == 0:
        return False
    for m in range(1, 2 * n + 1):
        pre = sum(cs[i % n] for i in range(m))
        for ph in range(1, n):
            if sum(cs[(ph + i) % n] for i in range(m)) > pre:
                return True
    return False


def any_bad_mf(costs):
    return any(c[0] == "mf" and mf_not_am(c[1]) for c in costs)


def model(ops):
    """the same operation lines evaluated by the Lean model (native driver)"""
    return common.run_parallel(common.lean_bin(), [o if gen.cap_dense(o) == o else "skip" for o in ops])


def shift_task(jobsets, i, A):
    """all tasks start together at 0, task i's releases are delayed by A"""
    js = sync(jobsets)
    return [[(rl + (A if ti == i else 0), c) for rl, c in j] for ti, j in enumerate(js)]



def parse_cost_any(t, i):
    if t[i] == "sc":
        return ("sc", int(t[i + 1])), i + 2
    if t[i] == "mf":
        v, i2 = _p_list(t, i + 1)
        return ("mf", v), i2
    if t[i] == "cbox":
        return parse_cost_any(t, i + 1)
    raise Unsupported(t[i])


def parse_fifo_op(op):
    """tasks [(arrival model, cost model)] of a `fifo` operation line (scalar / multiframe costs)"""
    t = op.split()
    if t[0] != "fifo":
        raise Unsupported(t[0])

    def rb(i):
        k = t[i]
        if k == "rbf":
            a, i2 = parse_arr(t, i + 1)
            c, i3 = parse_cost_any(t, i2)
            return [(a, c)], i3
        if k in ("ragg", "rsli"):
            n = int(t[i + 1])
            out, i2 = [], i + 2
            for _ in range(n):
                x, i2 = rb(i2)
                out += x
            return out, i2
        if k == "rbox":
            return rb(i + 1)
        raise Unsupported(k)
    tasks, _ = rb(1)
    return tasks


def fifo_search(tasks, op, r, rng, reps, cex, nontrivial):
    """simulate dense admissible release sequences of the task set under FIFO and compare every
    response time with the real bound; returns the worst observed response"""
    R = int(r.split()[1])
    worst = 0
    for rep in range(reps):
        mode = "wcet" if rep % 4 < 3 else "random"
        jobsets = [sim.task_jobs(a, c, rng.randint(2, 10), rng, mode) for a, c in tasks]
        if rep % 2 == 0:
            jobsets = sync(jobsets)
        jobs = [{"rel": rl, "cost": c, "np": set(), "task": ti} for ti, js in enumerate(jobsets) for rl, c in js]
        if not jobs:
            continue
        rts = sim.simulate(jobs, lambda j: j["rel"], rng)
        nontrivial.add((op, rep, len(jobs)))
        for j, rt in zip(jobs, rts):
            if rt is None or rt > R:
                cex.append({"kind": "fifo_bound_exceeded", "op": op, "impl": r, "observed_response": rt,
                            "job": j["rel"], "jobs": [(x["rel"], x["cost"], x["task"]) for x in jobs],
                            "multiframe_not_accumulatively_monotonic": any_bad_mf([c for _, c in tasks])})
                return max(worst, rt or 0)
            worst = max(worst, rt)
    return worst


def falsify_C03(ctx):
    rng = random.Random(ctx["seed"] * 7919 + 3)
    n = 300 if ctx["tier"] == "quick" else 20000
    cex, samples, nontrivial = [], [], set()
    cases = 0
    attained = 0
    guided = 0
    for i in range(n):
        k = wchoice(rng, [(1, 1), (3, 2), (3, 3), (1, 4)])
        tasks = []
        for _ in range(k):
            a = sample_arr(rng)
            u = rng.random()
            if u < 0.8:
                c = ("sc", rng.randint(1, 6))
            elif u < 0.9:
                c = ("mf", [rng.randint(1, 5) for _ in range(rng.randint(1, 3))])
            else:
                # accumulatively monotonic multiframe vector with empty (zero-cost) frames
                c = ("mf", [rng.randint(3, 15)] + [rng.choice([0, 0, 1]) for _ in range(rng.randint(1, 2))])
            tasks.append((a, c))
        rb = ("ragg", [("rbf", a, c) for a, c in tasks])
        op = f"fifo {gen.rb_str(rb)} 2000"
        r = real([op])[0]
        cases += 1
        if not r.startswith("ok "):
            continue
        R = int(r.split()[1])
        reps = 4
        mres = model([op])[0]
        if mres.startswith("ok ") and int(mres.split()[1]) > R:
            # the model (proved safe) claims a larger bound than the real code: intensify
            guided += 1
            reps = 200
        worst = fifo_search(tasks, op, r, rng, reps, cex, nontrivial)
        if worst == R and R > 0:
            attained += 1
        if len(samples) < 3 and worst > 0 and k >= 2:
            samples.append({"op": op, "bound": R, "worst_simulated_response": worst})
    # correspondence-guided: disagreeing fifo operations on which the real code claims less than the model
    ng = 0
    for d in ((ctx.get("corr") or {}).get("disagreements") or []):
        op, ri, rm = d.get("op", ""), d.get("impl", ""), d.get("model", "")
        if not op.startswith("fifo ") or not ri.startswith("ok "):
            continue
        if rm.startswith("ok ") and int(rm.split()[1]) <= int(ri.split()[1]):
            continue
        try:
            tasks = parse_fifo_op(op)
        except (Unsupported, ValueError, IndexError):
            continue
        ng += 1
        if ng > 40:
            break
        before = len(cex)
        fifo_search(tasks, op, ri, rng, 200, cex, nontrivial)
        if len(cex) > before:
            cex[-1]["found_by"] = "search guided by a correspondence disagreement (model: %s)" % rm
    return {"cases": cases, "nontrivial": len(nontrivial),
            "rule": "random task sets (sporadic with jitter, periodic, bursty curves, nested/propagated models; scalar and multiframe costs incl. empty frames) x dense admissible release sequences (synchronous and phased) x WCET and random execution times x random tie-breaks, simulated under FIFO (executable rendering of RTA/Spec/Sched.lean) and compared with the real bound; intensified (200 scenarios) where the real bound is below the model's, and on the fifo operations on which the correspondence disagrees; non-trivial = distinct (system, scenario)",
            "counterexamples": cex, "samples": samples,
            "distribution": {"systems_with_bound": cases, "bound_attained_by_some_schedule": attained,
                             "model_guided_searches": guided, "correspondence_guided_searches": ng}}


def gen_sched_system(rng, policy):
    """tasks for the schedule-level falsifiers: list of dicts(arr, C, seg, D)"""
    if rng.random() < 0.3:
        # small-scope / near-full-utilisation sporadic task sets (index = priority for FP)
        hp, own = gen.gen_small_taskset(rng) if rng.random() < 0.6 else gen.gen_dense_taskset(rng)
        ts = hp + [own]
        if policy != "fp":
            rng.shuffle(ts)
        return [{"arr": a, "C": c, "seg": rng.randint(1, c), "D": rng.randint(1, 40)} for a, c in ts]
    k = wchoice(rng, [(1, 1), (3, 2), (3, 3), (2, 4)])
    tasks = []
    for _ in range(k):
        C = rng.randint(1, 6)
        tasks.append({"arr": sample_arr(rng), "C": C, "seg": rng.randint(1, C), "D": rng.randint(1, 60)})
    return tasks


class Unsupported(Exception):
    pass


def _p_list(t, i):
    n = int(t[i])
    return [int(x) for x in t[i + 1:i + 1 + n]], i + 1 + n


def parse_arr(t, i):
    """inverse of gen.arr_str for the models whose histories the simulator can generate"""
    k = t[i]
    if k == "never":
        return ("never",), i + 1
    if k == "per":
        return ("per", int(t[i + 1])), i + 2
    if k == "spo":
        return ("spo", int(t[i + 1]), int(t[i + 2])), i + 3
    if k in ("cur", "xcur"):
        v, i2 = _p_list(t, i + 1)
        return (k, v), i2
    if k in ("prop", "wj"):
        a, i2 = parse_arr(t, i + 2)
        return (k, int(t[i + 1]), a), i2
    if k in ("agg", "sli"):
        n = int(t[i + 1])
        xs = []
        i2 = i + 2
        for _ in range(n):
            a, i2 = parse_arr(t, i2)
            xs.append(a)
        return (k, xs), i2
    if k == "sum":
        a, i2 = parse_arr(t, i + 1)
        b, i3 = parse_arr(t, i2)
        return ("sum", a, b), i3
    if k == "box":
        a, i2 = parse_arr(t, i + 1)
        return ("box", a), i2
    raise Unsupported(k)


def parse_cost(t, i):
    if t[i] == "sc":
        return ("sc", int(t[i + 1])), i + 2
    raise Unsupported(t[i])


def parse_rb_flat(t, i):
    """a request bound as a flat list of (arrival model, scalar cost)"""
    k = t[i]
    if k == "rbf":
        a, i2 = parse_arr(t, i + 1)
        c, i3 = parse_cost(t, i2)
        return [(a, c[1])], i3
    if k in ("ragg", "rsli"):
        n = int(t[i + 1])
        out = []
        i2 = i + 2
        for _ in range(n):
            x, i2 = parse_rb_flat(t, i2)
            out += x
        return out, i2
    if k == "rbox":
        return parse_rb_flat(t, i + 1)
    raise Unsupported(k)


def parse_sched_op(op):
    """(kind, tasks, index of the analysed task) of an FP / EDF analysis operation line, in the
    form used by `schedule_search`; raises Unsupported for systems the simulator cannot render
    (non-scalar costs, aggregated task under analysis, derived arrival models)"""
    t = op.split()
    kind = t[0]
    i = 1
    tasks = []
    if kind in ("fp_p", "fp_fl"):
        tua, i = parse_rb_flat(t, i)
        if len(tua) != 1:
            raise Unsupported("aggregate tua")
        own = {"arr": tua[0][0], "C": tua[0][1], "seg": 1}
        B = 0
        if kind == "fp_fl":
            B = int(t[i]); i += 1
        n = int(t[i]); i += 1
        hp = []
        for _ in range(n):
            x, i = parse_rb_flat(t, i)
            hp += [{"arr": a, "C": c, "seg": 1} for a, c in x]
        tasks = hp + [own]
        idx = len(hp)
    elif kind in ("fp_np", "fp_lp"):
        a, i = parse_arr(t, i)
        C = int(t[i]); i += 1
        last = C
        if kind == "fp_lp":
            last = int(t[i]); i += 1
        B = int(t[i]); i += 1
        n = int(t[i]); i += 1
        hp = []
        for _ in range(n):
            x, i = parse_rb_flat(t, i)
            hp += [{"arr": a2, "C": c, "seg": 1} for a2, c in x]
        tasks = hp + [{"arr": a, "C": C, "seg": last}]
        idx = len(hp)
    elif kind in ("edf_p", "edf_fl"):
        tua, i = parse_rb_flat(t, i)
        if len(tua) != 1:
            raise Unsupported("aggregate tua")
        D = int(t[i]); i += 1
        n = int(t[i]); i += 1
        tasks = [{"arr": tua[0][0], "C": tua[0][1], "seg": 1, "D": D}]
        for _ in range(n):
            x, i = parse_rb_flat(t, i)
            Do = int(t[i]); i += 1
            sg = 1
            if kind == "edf_fl":
                sg = int(t[i]); i += 1
            tasks += [{"arr": a, "C": c, "seg": max(sg, 1), "D": Do} for a, c in x]
        idx, B = 0, 0
    elif kind == "edf_np":
        a, i = parse_arr(t, i)
        C = int(t[i]); D = int(t[i + 1]); n = int(t[i + 2]); i += 3
        tasks = [{"arr": a, "C": C, "seg": C, "D": D}]
        for _ in range(n):
            a2, i = parse_arr(t, i)
            tasks.append({"arr": a2, "C": int(t[i]), "seg": int(t[i]), "D": int(t[i + 1])}); i += 2
        idx, B = 0, 0
    elif kind == "edf_lp":
        a, i = parse_arr(t, i)
        C = int(t[i]); D = int(t[i + 1]); last = int(t[i + 2]); n = int(t[i + 3]); i += 4
        tasks = [{"arr": a, "C": C, "seg": last, "D": D}]
        for _ in range(n):
            x, i = parse_rb_flat(t, i)
            Do = int(t[i]); sg = int(t[i + 1]); i += 2
            tasks += [{"arr": a2, "C": c, "seg": max(sg, 1), "D": Do} for a2, c in x]
        idx, B = 0, 0
    else:
        raise Unsupported(kind)
    if any(tk["C"] < 1 for tk in tasks):
        raise Unsupported("zero cost")
    if kind.startswith("fp") and B > 0:
        # a lower-priority task whose longest non-preemptive segment is B + 1 (blocking bound B)
        tasks.append({"arr": ("per", 10 ** 6), "C": B + 1, "seg": B + 1})
    return kind, tasks, idx


def parse_rb_general(t, i):
    """a request bound as a flat list of rb tuples ("rbf", arrival, cost) with scalar, multiframe or
    cost-curve costs (aggregates are flattened)"""
    k = t[i]
    if k == "rbf":
        a, i2 = parse_arr(t, i + 1)
        if t[i2] == "cc":
            v, i3 = _p_list(t, i2 + 1)
            return [("rbf", a, ("cc", v))], i3
        c, i3 = parse_cost_any(t, i2)
        return [("rbf", a, c)], i3
    if k in ("ragg", "rsli"):
        n = int(t[i + 1])
        out, i2 = [], i + 2
        for _ in range(n):
            x, i2 = parse_rb_general(t, i2)
            out += x
        return out, i2
    if k == "rbox":
        return parse_rb_general(t, i + 1)
    raise Unsupported(k)


def system_from_op(op):
    """inverse of `system_op` for analysis operation lines with scalar costs and arrival models that
    `parse_arr` understands (aggregated interfering demands are flattened: their demands add up);
    raises Unsupported otherwise"""
    t = op.split()
    kind, lim = t[0], int(t[-1])
    sd = {"kind": kind, "limit": lim, "B": 0, "D": 0}
    rb = lambda a, c: ("rbf", a, ("sc", c))
    i = 1
    if kind == "fifo":
        x, i = parse_rb_flat(t, 1)
        sd["tasks"] = ("ragg", [rb(a, c) for a, c in x])
        return sd
    if kind in ("fp_p", "fp_fl", "edf_p", "edf_fl"):
        x, i = parse_rb_general(t, i)
        if len(x) != 1:
            raise Unsupported("aggregate tua")
        sd["tua"] = x[0]
    else:
        a, i = parse_arr(t, i)
        sd["arr"], sd["C"] = a, int(t[i]); i += 1
        sd["last"] = sd["C"]
        sd["tua"] = rb(a, sd["C"])
    if kind.startswith("edf"):
        sd["D"] = int(t[i]); i += 1
    if kind in ("fp_lp", "edf_lp"):
        sd["last"] = int(t[i]); i += 1
    if kind in ("fp_fl", "fp_np", "fp_lp"):
        sd["B"] = int(t[i]); i += 1
    n = int(t[i]); i += 1
    others = []
    for _ in range(n):
        if kind == "edf_np":
            a, i = parse_arr(t, i)
            c, d = int(t[i]), int(t[i + 1]); i += 2
            others.append({"rb": rb(a, c), "arr": a, "C": c, "D": d, "seg": c})
            continue
        x, i = parse_rb_general(t, i)
        d, sg = 0, 1
        if kind.startswith("edf"):
            d = int(t[i]); i += 1
            if kind != "edf_p":
                sg = int(t[i]); i += 1
        others += [{"rb": r_, "arr": r_[1], "C": (r_[2][1] if r_[2][0] == "sc" else 1), "D": d, "seg": sg} for r_ in x]
    sd["others"] = others
    if i != len(t) - 1:
        raise Unsupported("trailing tokens")
    return sd


def schedule_search(kind, tasks, i, R, rng, reps, op, r, cex, nontrivial):
    """simulate legal schedules of the task set (FP: list order = priority; EDF: key 'D') under
    the preemption model `kind`; append a counterexample when a job of task `i` exceeds R.
    Returns the worst response time seen."""
    edf = kind.startswith("edf")
    worst = 0
    nlp = len(tasks) - 1 - i
    for rep in reps:
        shiftA = None
        early = 0
        lo, hi = 2, 9
        adversarial = rng.random() < 0.3
        if isinstance(rep, tuple):
            shiftA, early, rep = rep[1], rep[2], 5
            lo, hi = 6, 18
            adversarial = rng.random() < 0.7
        elif rep >= 4:
            shiftA, early = rng.randint(0, 30), rng.randint(0, 1)
        mode = "wcet" if rep != 3 else "random"
        jobsets = [sim.task_jobs(t["arr"], ("sc", t["C"]), rng.randint(lo, hi), rng, mode) for t in tasks]

        def start_early(js_all):
            if edf:
                if len(tasks) > 1:
                    late = max(range(len(tasks)), key=lambda ti: tasks[ti]["D"])
                    return [[(rl + (0 if ti == late else 1), c) for rl, c in js] for ti, js in enumerate(js_all)]
                return js_all
            if nlp > 0:
                return [[(rl + (0 if ti > i else 1), c) for rl, c in js] for ti, js in enumerate(js_all)]
            return js_all
        if shiftA is not None:
            jobsets = shift_task(jobsets, i, shiftA)
            if early:
                jobsets = start_early(jobsets)
        elif rep % 2 == 0:
            jobsets = sync(jobsets)
            if rep == 0:
                jobsets = start_early(jobsets)
        jobs = []
        for ti, js in enumerate(jobsets):
            for rl, c in js:
                t = tasks[ti]
                if kind.endswith("_p"):
                    npset = set()
                elif kind.endswith("_np"):
                    npset = sim.make_np(c, "np", 0, rng)
                elif kind.endswith("_lp"):
                    npset = sim.make_np(c, "lp", t["seg"], rng, last=(t["seg"] if ti == i else None))
                else:
                    npset = sim.make_np(c, "fl", t["seg"], rng)
                jobs.append({"rel": rl, "cost": c, "np": npset, "task": ti, "dl": rl + t.get("D", 0)})
        if not any(j["task"] == i for j in jobs):
            continue
        if edf:
            if adversarial:
                # ties among equal absolute deadlines consistently broken against the analysed task
                rts = sim.simulate(jobs, lambda j: (j["dl"], 1 if j["task"] == i else 0), rng)
            else:
                rts = sim.simulate(jobs, lambda j: j["dl"], rng)
        else:
            jobs.sort(key=lambda j: (j["task"], j["rel"]))
            for idx, j in enumerate(jobs):
                j["idx"] = idx
            rts = sim.simulate(jobs, lambda j: (j["task"], j["idx"]), rng)
        nontrivial.add((op, rep, shiftA, len(jobs)))
        bad = False
        for j, rt in zip(jobs, rts):
            if j["task"] != i:
                continue
            if rt is None or rt > R:
                cex.append({"kind": ("edf" if edf else "fp") + "_bound_exceeded", "op": op, "impl": r, "observed_response": rt,
                            "variant": kind, "analysed_task": i,
                            "jobs": [(x["rel"], x["cost"], x["task"], sorted(x["np"])) for x in jobs],
                            "multiframe_not_accumulatively_monotonic": False})
                bad = True
                break
            worst = max(worst, rt)
        if bad:
            break
    return worst


ALL_OFFSETS = [("A", a, b) for a in range(0, 41) for b in (0, 1) for _rep in range(3)]


def guided_from_correspondence(ctx, kinds, rng, cex, nontrivial):
    """when the correspondence broke on an analysis operation and the real code claims a
    SMALLER bound than the model (proved safe), look for a schedule that exceeds the real bound"""
    n = 0
    for d in ((ctx.get("corr") or {}).get("disagreements") or []):
        op, ri, rm = d.get("op", ""), d.get("impl", ""), d.get("model", "")
        if op.split()[:1] == [] or op.split()[0] not in kinds or not ri.startswith("ok "):
            continue
        if rm.startswith("ok ") and int(rm.split()[1]) <= int(ri.split()[1]):
            continue
        try:
            kind, tasks, idx = parse_sched_op(op)
        except (Unsupported, ValueError, IndexError):
            continue
        n += 1
        if n > 40:
            break
        before = len(cex)
        schedule_search(kind, tasks, idx, int(ri.split()[1]), rng, list(range(6)) + ALL_OFFSETS, op, ri, cex, nontrivial)
        if len(cex) > before:
            cex[-1]["found_by"] = "search guided by a correspondence disagreement (model: %s)" % rm
    return n


def falsify_C01(ctx):
    rng = random.Random(ctx["seed"] * 7919 + 1)
    n = 300 if ctx["tier"] == "quick" else 20000
    cex, samples, nontrivial = [], [], set()
    cases = 0
    guided = 0
    dist = {}
    for it in range(n):
        tasks = gen_sched_system(rng, "fp")      # index = priority (0 highest)
        i = rng.randrange(len(tasks))
        kind = wchoice(rng, [(1, "fp_p"), (1, "fp_np"), (1, "fp_lp"), (1, "fp_fl")])
        tua = tasks[i]
        hp, lp = tasks[:i], tasks[i + 1:]
        others = f"{len(hp)}" + "".join(f" rbf {gen.arr_str(t['arr'])} sc {t['C']}" for t in hp)
        if kind == "fp_p":
            B = 0
            op = f"fp_p rbf {gen.arr_str(tua['arr'])} sc {tua['C']} {others} 3000"
        elif kind == "fp_np":
            B = max([t["C"] - 1 for t in lp], default=0)
            op = f"fp_np {gen.arr_str(tua['arr'])} {tua['C']} {B} {others} 3000"
        elif kind == "fp_lp":
            B = max([t["seg"] - 1 for t in lp], default=0)
            last = tua["seg"]
            op = f"fp_lp {gen.arr_str(tua['arr'])} {tua['C']} {last} {B} {others} 3000"
        else:
            B = max([t["seg"] - 1 for t in lp], default=0)
            op = f"fp_fl rbf {gen.arr_str(tua['arr'])} sc {tua['C']} {B} {others} 3000"
        r = real([op])[0]
        cases += 1
        dist[kind] = dist.get(kind, 0) + 1
        if not r.startswith("ok "):
            continue
        R = int(r.split()[1])
        reps = list(range(6))
        mres = model([op])[0]
        if mres.startswith("ok ") and int(mres.split()[1]) > R:
            # the model (proved safe and equal to the all-offset evaluation) claims a larger bound:
            # search the schedules around every offset for a concrete violation
            guided += 1
            reps += ALL_OFFSETS
        # fully non-preemptive lower-priority jobs for the NP analysis
        sim_tasks = [dict(t, seg=(t["C"] if kind == "fp_np" else t["seg"])) for t in tasks]
        worst = schedule_search(kind, sim_tasks, i, R, rng, reps, op, r, cex, nontrivial)
        if len(samples) < 4 and worst > 0 and len(tasks) >= 2:
            samples.append({"op": op, "bound": R, "worst_simulated_response": worst})
    guided += guided_from_correspondence(ctx, ("fp_p", "fp_np", "fp_lp", "fp_fl"), rng, cex, nontrivial)
    return {"cases": cases, "nontrivial": len(nontrivial),
            "rule": "random task sets with distinct priorities x analysed priority level x the four preemption models; blocking bound = longest lower-priority segment - 1; dense admissible releases (synchronous, phased, a lower-priority job started one tick earlier, the analysed task delayed by an offset), WCET and random execution times, random legal placement of non-preemptive regions and random tie-breaks; simulated response times of the analysed task vs the real bound; when the model or a correspondence disagreement indicates a smaller real bound, every offset 0..40 is searched; non-trivial = distinct (system, scenario)",
            "counterexamples": cex, "samples": samples, "distribution": dict(dist, model_guided_searches=guided)}


def falsify_C02(ctx):
    rng = random.Random(ctx["seed"] * 7919 + 2)
    n = 300 if ctx["tier"] == "quick" else 20000
    cex, samples, nontrivial = [], [], set()
    cases = 0
    guided = 0
    dist = {}
    for it in range(n):
        tasks = gen_sched_system(rng, "edf")
        if rng.random() < 0.15:
            for t in tasks:
                t["D"] = tasks[0]["D"]          # equal deadlines: ties everywhere
        i = rng.randrange(len(tasks))
        kind = wchoice(rng, [(1, "edf_p"), (1, "edf_np"), (1, "edf_lp"), (1, "edf_fl")])
        tua = tasks[i]
        oth = [t for ti, t in enumerate(tasks) if ti != i]
        if kind == "edf_p":
            op = f"edf_p rbf {gen.arr_str(tua['arr'])} sc {tua['C']} {tua['D']} {len(oth)}" + \
                "".join(f" rbf {gen.arr_str(t['arr'])} sc {t['C']} {t['D']}" for t in oth) + " 3000"
        elif kind == "edf_np":
            op = f"edf_np {gen.arr_str(tua['arr'])} {tua['C']} {tua['D']} {len(oth)}" + \
                "".join(f" {gen.arr_str(t['arr'])} {t['C']} {t['D']}" for t in oth) + " 3000"
        elif kind == "edf_lp":
            op = f"edf_lp {gen.arr_str(tua['arr'])} {tua['C']} {tua['D']} {tua['seg']} {len(oth)}" + \
                "".join(f" rbf {gen.arr_str(t['arr'])} sc {t['C']} {t['D']} {t['seg']}" for t in oth) + " 3000"
        else:
            op = f"edf_fl rbf {gen.arr_str(tua['arr'])} sc {tua['C']} {tua['D']} {len(oth)}" + \
                "".join(f" rbf {gen.arr_str(t['arr'])} sc {t['C']} {t['D']} {t['seg']}" for t in oth) + " 3000"
        r = real([op])[0]
        cases += 1
        dist[kind] = dist.get(kind, 0) + 1
        if not r.startswith("ok "):
            continue
        R = int(r.split()[1])
        reps = list(range(6))
        mres = model([op])[0]
        if mres.startswith("ok ") and int(mres.split()[1]) > R:
            guided += 1
            reps += ALL_OFFSETS
        worst = schedule_search(kind, tasks, i, R, rng, reps, op, r, cex, nontrivial)
        if len(samples) < 4 and worst > 0 and len(tasks) >= 2:
            samples.append({"op": op, "bound": R, "worst_simulated_response": worst})
    guided += guided_from_correspondence(ctx, ("edf_p", "edf_np", "edf_lp", "edf_fl"), rng, cex, nontrivial)
    return {"cases": cases, "nontrivial": len(nontrivial),
            "rule": "random task sets x analysed task x the four EDF preemption models x arbitrary relative deadlines (also equal ones: ties everywhere); dense admissible releases (synchronous, phased, the latest-deadline task started one tick earlier, the analysed task delayed by an offset), WCET and random execution times, random legal placement of non-preemptive regions, random tie-breaks among equal absolute deadlines; simulated response times vs the real bound; when the model or a correspondence disagreement indicates a smaller real bound, every offset 0..40 is searched; non-trivial = distinct (system, scenario)",
            "counterexamples": cex, "samples": samples, "distribution": dict(dist, model_guided_searches=guided)}


# ---------------------------------------------------------------------------
# C17: base / hardened pairs on the real code

import copy


def res_le(a, b):
    """order: ok x <= ok y iff x <= y; anything <= div; never div <= ok"""
    if a.startswith("ok") and b.startswith("ok"):
        return int(a.split()[1]) <= int(b.split()[1])
    if b.startswith("div"):
        return a.startswith("ok") or a.startswith("div")
    return False


def harden_arr(a, rng):
    """a harder arrival model (more arrivals in every window), or None"""
    k = a[0]
    if k == "spo":
        u = rng.random()
        if u < 0.2:
            # across a threshold: jitter up to the next multiple of the period (simultaneous releases)
            T, J = a[1], a[2]
            return ("spo", T, (J // T + 1) * T - rng.randint(0, 1) * (1 if (J // T + 1) * T - 1 > J else 0)), "jitter"
        if u < 0.3 and 1 <= a[2] < a[1]:
            # period shortened down to the jitter
            return ("spo", a[2], a[2]), "period"
        if rng.random() < 0.5:
            return ("spo", a[1], a[2] + rng.randint(1, 6)), "jitter"
        if a[1] > 1:
            return ("spo", a[1] - rng.randint(1, min(3, a[1] - 1)), a[2]), "period"
        return ("spo", a[1], a[2] + 1), "jitter"
    if k == "per":
        if a[1] > 1 and rng.random() < 0.6:
            return ("per", a[1] - rng.randint(1, min(3, a[1] - 1))), "period"
        return ("wj", rng.randint(1, 6), a), "jitter"
    if k in ("cur", "xcur", "prop", "agg", "sli", "sum", "wj", "box"):
        return ("wj", rng.randint(1, 6), a), "jitter"
    return None, None


def harden_system(sd, rng):
    """one single-parameter hardening of a structured system (see gen_system)"""
    h = copy.deepcopy(sd)
    kind = sd["kind"]
    choices = ["limit"]
    if kind != "fifo":
        choices += ["add", "tua_arr"]
        if sd["others"]:
            choices += ["other_cost", "other_arr"]
        if kind not in ("fp_p", "edf_p", "edf_np", "edf_lp", "edf_fl"):
            choices.append("B")
        if kind in ("fp_np", "fp_lp", "edf_np", "edf_lp"):
            choices.append("C")
        if kind in ("edf_lp", "edf_fl") and sd["others"]:
            choices.append("seg")
    else:
        choices += ["fifo_add", "fifo_arr"]
    what = rng.choice(choices)
    if what == "limit":
        h["limit"] = sd["limit"] + rng.randint(1, 200)
    elif what == "B":
        h["B"] = sd["B"] + rng.randint(1, 4)
    elif what == "C":
        h["C"] = sd["C"] + rng.randint(1, 3)
        h["tua"] = ("rbf", h["arr"], ("sc", h["C"]))
        if kind in ("fp_lp", "edf_lp"):
            pass  # own last segment unchanged
    elif what == "add":
        a = gen.gen_task_arr(rng, allow_prefix=False)
        c = rng.randint(1, 5)
        h["others"].append({"rb": ("rbf", a, ("sc", c)), "arr": a, "C": c, "D": sd["D"] + rng.randint(0, 20), "seg": rng.randint(1, c)})
    elif what == "other_cost":
        o = rng.choice(h["others"])
        if o["rb"][0] == "rbf" and o["rb"][2][0] == "sc":
            newc = o["rb"][2][1] + rng.randint(1, 3)
            o["rb"] = ("rbf", o["rb"][1], ("sc", newc))
            if "C" in o:
                o["C"] = newc
                o["seg"] = newc
        else:
            return None, None
    elif what == "other_arr":
        o = rng.choice(h["others"])
        if o["rb"][0] != "rbf":
            return None, None
        na, w = harden_arr(o["rb"][1], rng)
        if na is None:
            return None, None
        o["rb"] = ("rbf", na, o["rb"][2])
        if "arr" in o:
            o["arr"] = na
        what = "other_" + w
    elif what == "tua_arr":
        if "arr" in sd:
            na, w = harden_arr(sd["arr"], rng)
            if na is None:
                return None, None
            h["arr"] = na
            h["tua"] = ("rbf", na, ("sc", sd["C"]))
        else:
            t = sd["tua"]
            if t[0] != "rbf":
                return None, None
            na, w = harden_arr(t[1], rng)
            if na is None:
                return None, None
            h["tua"] = ("rbf", na, t[2])
        what = "tua_" + w
    elif what == "seg":
        o = rng.choice(h["others"])
        o["seg"] = o["seg"] + rng.randint(1, 4)
    elif what == "fifo_add":
        a = gen.gen_task_arr(rng, allow_prefix=False)
        h["tasks"] = (sd["tasks"][0], sd["tasks"][1] + [("rbf", a, ("sc", rng.randint(1, 5)))])
    elif what == "fifo_arr":
        ts = list(sd["tasks"][1])
        i = rng.randrange(len(ts))
        if ts[i][0] != "rbf":
            return None, None
        na, w = harden_arr(ts[i][1], rng)
        if na is None:
            return None, None
        ts[i] = ("rbf", na, ts[i][2])
        h["tasks"] = (sd["tasks"][0], ts)
        what = "fifo_" + w
    return h, what


def weaken_supply(s, rng):
    """a supply that provides no more service in any window"""
    inner = s[1] if s[0] == "dflt" else s
    if inner[0] == "ded":
        P = rng.randint(2, 9)
        new = ("psup", rng.randint(1, P), P)
    elif inner[0] == "psup":
        Q, P = inner[1], inner[2]
        if Q > 1:
            new = ("psup", Q - 1, P)
        else:
            return None
    else:
        Q, D, P = inner[1], inner[2], inner[3]
        if D < P and rng.random() < 0.5:
            new = ("csup", Q, D + 1, P)
        elif Q > 1:
            new = ("csup", Q - 1, D, P)
        else:
            return None
    return ("dflt", new) if s[0] == "dflt" else new


def falsify_C17(ctx):
    rng = random.Random(ctx["seed"] * 7919 + 17)
    n = 1500 if ctx["tier"] == "quick" else 100000
    cex, samples, nontrivial = [], [], set()
    dist = {}
    pairs = []
    for i in range(n):
        sd = gen_system(rng, small_limit=False)
        h, what = harden_system(sd, rng)
        if h is None:
            continue
        pairs.append((system_op(sd), system_op(h), what, sd["kind"]))
    # a task analysed ALONE (no interfering task at all) whose busy window holds several of its own jobs,
    # then one interfering task is added: the degenerate "nothing interferes" path of every analysis
    # against its general path
    nalone = 80 if ctx["tier"] == "quick" else 3000
    for i in range(nalone):
        kind = rng.choice(["fp_p", "fp_np", "fp_lp", "fp_fl", "edf_p", "edf_np", "edf_lp", "edf_fl"])
        T = rng.randint(4, 20)
        C = rng.randint(2, min(8, T))
        J = rng.randint(max(T - C + 1, 0), 2 * T + 3)
        a = ("spo", T, J)
        sd = {"kind": kind, "limit": rng.randint(300, 900), "B": (0 if rng.random() < 0.6 else rng.randint(1, 4)), "D": rng.randint(1, 40),
              "arr": a, "C": C, "last": wchoice(rng, [(1, 1), (2, C), (2, rng.randint(1, C))]), "tua": ("rbf", a, ("sc", C)), "others": []}
        h = copy.deepcopy(sd)
        oa = ("spo", rng.randint(50, 1000), 0) if rng.random() < 0.6 else ("per", rng.randint(5, 30))
        oc = rng.randint(1, 3)
        h["others"].append({"rb": ("rbf", oa, ("sc", oc)), "arr": oa, "C": oc, "D": sd["D"] + rng.randint(0, 20), "seg": rng.randint(1, oc)})
        pairs.append((system_op(sd), system_op(h), "add_to_none", kind))
    # ROS 2 analyses with scalar costs
    from . import streams as st_mod
    m = n // 2
    for i in range(m):
        s = st_mod.gen_ros_supply(rng)
        k = wchoice(rng, [(2, "es"), (3, "tm"), (3, "pp"), (2, "rr"), (2, "bw")])
        lim = gen.gen_limit(rng)
        if k in ("es", "tm", "pp"):
            own_a = gen.gen_task_arr(rng, allow_prefix=False)
            own_c = rng.randint(1, 5)
            interf = [(gen.gen_task_arr(rng, allow_prefix=False), rng.randint(1, 4)) for _ in range(rng.randint(0, 3))]
            B = rng.randint(0, 4)

            def render(s_, own_a_, own_c_, interf_, B_, lim_):
                own = f"rbf {gen.arr_str(own_a_)} sc {own_c_}"
                it = f"ragg {len(interf_)}" + "".join(f" rbf {gen.arr_str(a)} sc {c}" for a, c in interf_)
                ss = gen.supply_str(s_)
                if k == "es":
                    return f"ros_es {ss} {own} {lim_}"
                if k == "tm":
                    return f"ros_tm {ss} {own} {it} {B_} {lim_}"
                return f"ros_pp {ss} {own} {it} {lim_}"
            base = render(s, own_a, own_c, interf, B, lim)
            what = rng.choice(["supply", "own_cost", "own_arr", "limit"] + (["add", "B"] if k != "es" else []))
            if what == "supply":
                s2 = weaken_supply(s, rng)
                if s2 is None:
                    continue
                hard = render(s2, own_a, own_c, interf, B, lim)
            elif what == "own_cost":
                hard = render(s, own_a, own_c + rng.randint(1, 3), interf, B, lim)
            elif what == "own_arr":
                na, w = harden_arr(own_a, rng)
                if na is None:
                    continue
                hard = render(s, na, own_c, interf, B, lim)
                what = "own_" + w
            elif what == "limit":
                hard = render(s, own_a, own_c, interf, B, lim + rng.randint(1, 200))
            elif what == "add":
                hard = render(s, own_a, own_c, interf + [(gen.gen_task_arr(rng, allow_prefix=False), rng.randint(1, 4))], B, lim)
            else:
                hard = render(s, own_a, own_c, interf, B + rng.randint(1, 3), lim)
            pairs.append((base, hard, "ros_" + what, "ros_" + k))
        else:
            cbs, sub = st_mod.gen_workload(rng)
            cbs = [(rtb, a, ("sc", rng.randint(1, 5)), kd) for rtb, a, c, kd in cbs]
            base = f"{k} {gen.supply_str(s)} {st_mod.workload_str(cbs, sub)} {lim}"
            what = rng.choice(["supply", "cost", "add", "limit", "arr"])
            cb2 = list(cbs)
            s2, lim2 = s, lim
            if what == "supply":
                s2 = weaken_supply(s, rng)
                if s2 is None:
                    continue
            elif what == "cost":
                j = rng.randrange(len(cb2))
                cb2[j] = (cb2[j][0], cb2[j][1], ("sc", cb2[j][2][1] + rng.randint(1, 3)), cb2[j][3])
            elif what == "arr":
                j = rng.randrange(len(cb2))
                na, w = harden_arr(cb2[j][1], rng)
                if na is None:
                    continue
                cb2[j] = (cb2[j][0], na, cb2[j][2], cb2[j][3])
                what = w
            elif what == "add":
                cb2.append((rng.randint(0, 20), gen.gen_task_arr(rng, allow_prefix=False), ("sc", rng.randint(1, 4)),
                            wchoice(rng, [(2, "T"), (1, "E"), (2, "U"), (3, f"P {rng.randint(0, 5)}")])))
            else:
                lim2 = lim + rng.randint(1, 200)
            hard = f"{k} {gen.supply_str(s2)} {st_mod.workload_str(cb2, sub)} {lim2}"
            pairs.append((base, hard, f"{k}_" + what, k))
    # parameter sweeps: chains of consecutive hardenings of the analysed task's own jitter / period
    # (cross every threshold: jitter = k * period, simultaneous releases)
    nsweeps = 60 if ctx["tier"] == "quick" else 3000
    for i in range(nsweeps):
        kind = rng.choice(["fp_p", "fp_np", "fp_lp", "fp_fl", "edf_p", "edf_np", "edf_lp", "edf_fl", "fifo"])
        sd = gen_system(rng, kind=kind, small_limit=False)
        sd["limit"] = max(sd["limit"], 400)
        T = rng.randint(2, 12)
        if rng.random() < 0.6:
            chain = [("spo", T, J) for J in range(0, 2 * T + 3)]
            w = "sweep_jitter"
        else:
            J = rng.randint(0, 2 * T)
            chain = [("spo", T2, J) for T2 in range(T + 4, 0, -1)]
            w = "sweep_period"
        chain_ops = []
        for a in chain:
            h = copy.deepcopy(sd)
            if kind == "fifo":
                c0 = h["tasks"][1][0]
                if c0[0] != "rbf":
                    break
                h["tasks"] = ("ragg", [("rbf", a, c0[2])] + list(h["tasks"][1][1:]))
            elif "arr" in sd:
                h["arr"] = a
                h["tua"] = ("rbf", a, ("sc", sd["C"]))
            else:
                if sd["tua"][0] != "rbf":
                    break
                h["tua"] = ("rbf", a, sd["tua"][2])
            chain_ops.append(system_op(h))
        for b, h in zip(chain_ops, chain_ops[1:]):
            pairs.append((b, h, w, kind))
    # the same sweeps for the ROS 2 timer / polling-point / event-source analyses (own jitter and period
    # of the analysed callback crossing every multiple of the period; interference with larger WCETs)
    nros = 45 if ctx["tier"] == "quick" else 2000
    for i in range(nros):
        k = wchoice(rng, [(1, "es"), (3, "tm"), (2, "pp")])
        ssup = gen.supply_str(st_mod.gen_ros_supply(rng) if rng.random() < 0.5 else ("ded",))
        T = rng.randint(3, 24)
        c = rng.randint(1, 3)
        interf = [(("per", rng.randint(4, 20)) if rng.random() < 0.5 else ("spo", rng.randint(4, 20), rng.randint(0, 8)), rng.randint(1, 6))
                  for _ in range(rng.randint(1, 2))]
        it = f"ragg {len(interf)}" + "".join(f" rbf {gen.arr_str(a)} sc {cc}" for a, cc in interf)
        B = rng.randint(0, 3)
        lim = rng.randint(300, 900)
        if rng.random() < 0.65:
            chain = [("spo", T, J) for J in range(0, 2 * T + 3)]
            w = "ros_sweep_jitter"
        else:
            J = rng.randint(0, 2 * T)
            chain = [("spo", T2, J) for T2 in range(T + 4, 0, -1)]
            w = "ros_sweep_period"
        def rend(a):
            own = f"rbf {gen.arr_str(a)} sc {c}"
            if k == "es":
                return f"ros_es {ssup} {own} {lim}"
            if k == "tm":
                return f"ros_tm {ssup} {own} {it} {B} {lim}"
            return f"ros_pp {ssup} {own} {it} {lim}"
        chain_ops = [rend(a) for a in chain]
        for b, h in zip(chain_ops, chain_ops[1:]):
            pairs.append((b, h, w, "ros_" + k))
    ops = [p[0] for p in pairs] + [p[1] for p in pairs]
    res = real(ops)
    half = len(pairs)
    for (b, h, what, kind), rb, rh in zip(pairs, res[:half], res[half:]):
        dist[what] = dist.get(what, 0) + 1
        if rb == "panic" or rh == "panic" or rb == "hang" or rh == "hang":
            continue
        if rb.startswith("ok") and rb != "ok 0":
            nontrivial.add(b + "|" + h)
        if what.endswith("limit"):
            ok = (rh == rb) if rb.startswith("ok") else True
        else:
            ok = res_le(rb, rh)
        if not ok:
            cex.append({"kind": "not_monotone", "hardening": what, "analysis": kind, "op": b, "impl": rb, "hardened_op": h, "hardened_impl": rh})
        elif len(samples) < 5 and rb.startswith("ok") and rh.startswith("ok") and rb != rh:
            samples.append({"hardening": what, "base": b, "base_result": rb, "hardened": h, "hardened_result": rh})
    return {"cases": len(pairs), "nontrivial": len(nontrivial),
            "rule": "random base systems for the nine dedicated-processor analyses and the ROS 2 analyses (scalar costs) x one single-parameter hardening (WCET, jitter, period, blocking, other task's segment, added task/callback, weaker supply, larger limit); real results compared in the order ok a <= ok b <= divergence (limit: Ok unchanged); chains of consecutive jitter / period hardenings of the analysed task resp. callback crossing every multiple of the period (FP, EDF, FIFO and the ROS 2 timer / polling-point / event-source analyses); the analysed task's OWN last non-preemptive segment is not a hardening and is not varied; non-trivial = distinct pair with a positive base bound",
            "counterexamples": cex, "samples": samples, "distribution": dist}


# ---------------------------------------------------------------------------
# C19: pairs of real analyses on corresponding inputs

def falsify_C19(ctx):
    rng = random.Random(ctx["seed"] * 7919 + 19)
    n = 2000 if ctx["tier"] == "quick" else 200000
    pairs = []   # (what, opA, opB, extra)
    from . import streams as st_mod
    for i in range(n):
        what = wchoice(rng, [(2, "fp_lp1_p"), (2, "fp_lpC_np"), (2, "fp_fl_lp1"), (2, "edf_lp1_p"), (2, "edf_lpC_np"),
                             (2, "edf_fl_lp1"), (3, "npedf_fifo"), (3, "ros_supplies"), (2, "es_fifo")])
        lim = gen.gen_limit(rng)
        nO = wchoice(rng, [(1, 0), (3, 1), (3, 2), (2, 3)])
        if what.startswith("fp"):
            a = gen.gen_task_arr(rng)
            C = rng.randint(1, 8)
            B = rng.randint(0, 5)
            others = [gen.gen_task_rb(rng) for _ in range(nO)]
            ol = f"{len(others)}" + "".join(" " + gen.rb_str(o) for o in others)
            sa = gen.arr_str(a)
            if what == "fp_lp1_p":
                pairs.append((what, f"fp_lp {sa} {C} 1 0 {ol} {lim}", f"fp_p rbf {sa} sc {C} {ol} {lim}", None))
            elif what == "fp_lpC_np":
                pairs.append((what, f"fp_lp {sa} {C} {C} {B} {ol} {lim}", f"fp_np {sa} {C} {B} {ol} {lim}", None))
            else:
                pairs.append((what, f"fp_fl rbf {sa} sc {C} {B} {ol} {lim}", f"fp_lp {sa} {C} 1 {B} {ol} {lim}", None))
        elif what.startswith("edf"):
            a = gen.gen_task_arr(rng)
            sa = gen.arr_str(a)
            C = rng.randint(1, 8)
            D = rng.randint(0, 60)
            os_ = [(gen.gen_task_arr(rng), rng.randint(1, 8), rng.randint(0, 60)) for _ in range(nO)]
            if rng.random() < 0.08:
                # an interfering task that never releases anything, with a long cost / segment and a later deadline
                os_.append((("never",), rng.randint(4, 8), D + rng.randint(1, 40)))
            if what == "edf_lp1_p":
                A_ = f"edf_lp {sa} {C} {D} 1 {len(os_)}" + "".join(f" rbf {gen.arr_str(x)} sc {c} {d} 1" for x, c, d in os_) + f" {lim}"
                B_ = f"edf_p rbf {sa} sc {C} {D} {len(os_)}" + "".join(f" rbf {gen.arr_str(x)} sc {c} {d}" for x, c, d in os_) + f" {lim}"
            elif what == "edf_lpC_np":
                A_ = f"edf_lp {sa} {C} {D} {C} {len(os_)}" + "".join(f" rbf {gen.arr_str(x)} sc {c} {d} {c}" for x, c, d in os_) + f" {lim}"
                B_ = f"edf_np {sa} {C} {D} {len(os_)}" + "".join(f" {gen.arr_str(x)} {c} {d}" for x, c, d in os_) + f" {lim}"
            else:
                segs = [rng.randint(0, 6) for _ in os_]
                A_ = f"edf_fl rbf {sa} sc {C} {D} {len(os_)}" + "".join(f" rbf {gen.arr_str(x)} sc {c} {d} {sg}" for (x, c, d), sg in zip(os_, segs)) + f" {lim}"
                B_ = f"edf_lp {sa} {C} {D} 1 {len(os_)}" + "".join(f" rbf {gen.arr_str(x)} sc {c} {d} {sg}" for (x, c, d), sg in zip(os_, segs)) + f" {lim}"
            pairs.append((what, A_, B_, None))
        elif what == "npedf_fifo":
            k = wchoice(rng, [(1, 1), (3, 2), (3, 3)])
            ts = [(gen.gen_task_arr(rng, allow_prefix=False), rng.randint(1, 6)) for _ in range(k)]
            D = rng.randint(0, 50)
            fifo = f"fifo ragg {k}" + "".join(f" rbf {gen.arr_str(a)} sc {c}" for a, c in ts) + f" {lim}"
            eds = []
            for i2, (a, c) in enumerate(ts):
                oth = [t for j, t in enumerate(ts) if j != i2]
                eds.append(f"edf_np {gen.arr_str(a)} {c} {D} {len(oth)}" + "".join(f" {gen.arr_str(x)} {cc} {D}" for x, cc in oth) + f" {lim}")
            pairs.append((what, fifo, eds, [gen.arr_str(a) for a, _ in ts]))
        elif what == "ros_supplies":
            P = rng.randint(1, 12)
            op = rng.choice(st_mod.stream_ros_e19(rng, 1) + st_mod.stream_ros_rr(rng, 1) + st_mod.stream_ros_bw(rng, 1))
            toks = op.split()
            # replace the supply term (second token onwards) by the three equivalent supplies
            rest = st_mod_strip_supply(toks)
            if rest is None:
                continue
            head, tail = rest
            pairs.append((what, f"{head} ded {tail}", [f"{head} psup {P} {P} {tail}", f"{head} csup {P} {P} {P} {tail}",
                                                       f"{head} dflt psup {P} {P} {tail}"], None))
        else:
            r = gen.gen_rb_maybe_agg(rng, allow_prefix=False)
            pairs.append((what, f"ros_es ded {gen.rb_str(r)} {lim}", f"fifo {gen.rb_str(r)} {lim}", gen.rb_str(r)))
    ops = []
    for p in pairs:
        ops.append(p[1])
        if isinstance(p[2], list):
            ops += p[2]
        else:
            ops.append(p[2])
    res = real(ops)
    it = iter(res)
    cex, samples, nontrivial = [], [], set()
    dist = {}
    for what, a, b, extra in pairs:
        ra = next(it)
        rbs = [next(it) for _ in b] if isinstance(b, list) else [next(it)]
        dist[what] = dist.get(what, 0) + 1
        if ra.startswith("ok") and ra != "ok 0":
            nontrivial.add(a)
        if what == "npedf_fifo":
            if "panic" in [ra] + rbs:
                continue
            if ra.startswith("ok"):
                vals = [int(x.split()[1]) if x.startswith("ok") else None for x in rbs]
                # a task that never releases anything is analysed to Ok(0) (finding K5): skip those tasks
                if None in vals or max(vals) != int(ra.split()[1]):
                    silent = [real([f"na {s} 100000"])[0] == "0" for s in extra]
                    cex.append({"kind": "max_npedf_ne_fifo", "op": a, "impl": ra, "edf_ops": b, "edf_impl": rbs,
                                "some_task_never_releases": any(silent)})
                elif len(samples) < 2 and ra != "ok 0":
                    samples.append({"what": what, "fifo": a, "fifo_result": ra, "np_edf_results": rbs})
        elif what == "ros_supplies":
            for x, rx in zip(b, rbs):
                if rx != ra:
                    cex.append({"kind": "equivalent_supplies_differ", "op": a, "impl": ra, "other_op": x, "other_impl": rx})
        elif what == "es_fifo":
            rb_ = rbs[0]
            if ra != rb_ and "panic" not in (ra, rb_):
                # finding K3: the event-source analysis also examines offset A = L.  The difference
                # counts as K3 only if BOTH real results equal their own naive Spec (then it is the two
                # definitions that differ, not the code)
                nv_es, nv_ff = common.run_parallel(common.lean_bin(), ["nv_" + a, "nv_" + (b[0] if isinstance(b, list) else b)])
                cex.append({"kind": "event_source_ne_fifo", "op": a, "impl": ra, "fifo_op": b, "fifo_impl": rb_,
                            "both_equal_their_naive_spec": (ra == nv_es and rb_ == nv_ff),
                            "naive_event_source": nv_es, "naive_fifo": nv_ff})
            elif len(samples) < 4 and ra.startswith("ok") and ra != "ok 0":
                samples.append({"what": what, "op": a, "impl": ra, "fifo": rb_})
        else:
            if ra != rbs[0]:
                cex.append({"kind": "special_case_disagreement", "what": what, "op": a, "impl": ra, "other_op": b, "other_impl": rbs[0]})
            elif len(samples) < 4 and ra.startswith("ok") and ra != "ok 0":
                samples.append({"what": what, "op": a, "impl": ra, "other": b})
    # event source vs FIFO with TIGHT divergence limits: the smallest limit for which the FIFO analysis
    # converges is the busy-window length L (bisection on the real code); both analyses are then
    # compared for every limit in L .. L + 15 (both must converge there, with the same bound)
    m3 = 40 if ctx["tier"] == "quick" else 1500
    done3 = 0
    for what, a, b, extra in pairs:
        if what != "es_fifo" or done3 >= m3:
            continue
        base_f = b.rsplit(" ", 1)[0]
        base_e = a.rsplit(" ", 1)[0]
        r0 = real([f"{base_f} 3000"])[0]
        if not r0.startswith("ok ") or r0 == "ok 0":
            continue
        lo, hi = int(r0.split()[1]), 3000          # fifo(lo - 1) diverges or lo is the bound itself
        lo = max(lo, 1)
        if real([f"{base_f} {lo}"])[0].startswith("ok "):
            hi = lo
        while lo < hi:
            mid = (lo + hi) // 2
            if real([f"{base_f} {mid}"])[0].startswith("ok "):
                hi = mid
            else:
                lo = mid + 1
        L = lo
        if L > 2500:
            continue
        done3 += 1
        lims = list(range(L, L + 16))
        rf = real([f"{base_f} {x}" for x in lims])
        re_ = real([f"{base_e} {x}" for x in lims])
        dist["es_fifo_tight_limit_sweeps"] = dist.get("es_fifo_tight_limit_sweeps", 0) + 1
        for x, u, v in zip(lims, re_, rf):
            if u != v and "panic" not in (u, v):
                nv_es, nv_ff = common.run_parallel(common.lean_bin(), [f"nv_{base_e} {x}", f"nv_{base_f} {x}"])
                cex.append({"kind": "event_source_ne_fifo", "op": f"{base_e} {x}", "impl": u, "fifo_op": f"{base_f} {x}", "fifo_impl": v,
                            "both_equal_their_naive_spec": (u == nv_es and v == nv_ff),
                            "naive_event_source": nv_es, "naive_fifo": nv_ff, "busy_window_length": L})
                break
    return {"cases": len(pairs), "nontrivial": len(nontrivial),
            "rule": "pairs (or tuples) of REAL analyses on corresponding inputs: LP-FP(last=1,B=0) vs preemptive FP, LP-FP(last=C) vs NP-FP, floating vs LP(last=1), the three EDF analogues, max NP-EDF vs FIFO for equal deadlines, every ROS 2 analysis under dedicated / periodic(Q=P) / constrained(Q=D=P) / default-service-time wrappers, event source vs FIFO on a dedicated processor (also for every divergence limit from the busy-window length to 15 beyond it); non-trivial = distinct first op with a positive bound",
            "counterexamples": cex, "samples": samples, "distribution": dist}


def st_mod_strip_supply(toks):
    """split an op 'name <supply> rest…' into ('name', 'rest…')"""
    i = 1
    while toks[i] == "dflt":
        i += 1
    k = toks[i]
    n = {"ded": 1, "psup": 3, "csup": 4}.get(k)
    if n is None:
        return None
    return toks[0], " ".join(toks[i + n:])


# ---------------------------------------------------------------------------
# C20: totality and build-profile independence

def op_reasons(op):
    """known-finding shapes occurring anywhere in an op string (token scan)"""
    from .fals_models import curve_exact
    toks = op.split()
    rs = set()
    for i, t in enumerate(toks):
        if t == "cur" and i + 1 < len(toks) and toks[i + 1].isdigit():
            n = int(toks[i + 1])
            d = [int(x) for x in toks[i + 2:i + 2 + n]]
            if d and not curve_exact(d):
                rs.add("F3")
        if t in ("pre", "p_abu", "c_pre"):
            rs.add("K1")
        if t == "never" or (t in ("agg", "sli") and i + 1 < len(toks) and toks[i + 1] == "0"):
            rs.add("NEVER")
    return sorted(rs)


def real3(ops):
    return [common.run_parallel(common.harness_bin(p), ops) for p in ("checked", "release", "relchk")]


def wf_system(sd):
    """well-formed per C20: WCETs >= 1 everywhere"""
    def costs(r):
        if r[0] == "rbf":
            yield r[2]
        elif r[0] == "rbox":
            yield from costs(r[1])
        else:
            for x in r[1]:
                yield from costs(x)
    rbs = [sd["tasks"]] if sd["kind"] == "fifo" else [sd["tua"]] + [o["rb"] for o in sd["others"]]
    for r in rbs:
        for c in costs(r):
            if c[0] == "sc" and c[1] < 1:
                return False
            if c[0] != "sc":
                return False
    return True


def falsify_C20(ctx):
    rng = random.Random(ctx["seed"] * 7919 + 20)
    quick = ctx["tier"] == "quick"
    n = 1500 if quick else 100000
    cex, samples, nontrivial = [], [], set()
    dist = {"analyses": 0, "ros": 0, "model_queries": 0}
    # (1) the nine dedicated-processor analyses on well-formed systems
    sds = []
    while len(sds) < n:
        sd = gen_system(rng, small_limit=False)
        if wf_system(sd):
            sds.append(sd)
    ops = [system_op(sd) for sd in sds]
    rc, rr, rk = real3(ops)
    dist["analyses"] = len(ops)
    for sd, op, a, b, c in zip(sds, ops, rc, rr, rk):
        if a == b == c and a not in ("panic", "hang"):
            if a.startswith("ok") and a != "ok 0":
                nontrivial.add(op)
            continue
        tabs = fetch_tables([sd])[0]
        silent = tabs is not None and all(v == 0 for v in tabs["tua"])
        cex.append({"kind": "profile_dependent_or_panic", "op": op, "checked": a, "release": b, "release_overflow_checks": c,
                    "reasons": system_reasons(sd), "tua_never_releases": silent, "analysis": sd["kind"]})
    if ops:
        samples.append({"op": ops[0], "checked": rc[0], "release": rr[0], "release_overflow_checks": rk[0]})
    # (2) ROS 2 analyses on well-formed workloads
    from . import streams as st_mod
    m = n // 2
    rops = []
    for i in range(m):
        k = rng.random()
        if k < 0.4:
            rops += [o for o in st_mod.stream_ros_e19(rng, 1) if " pre " not in o and "sc 0" not in o]
        elif k < 0.7:
            rops += st_mod.stream_ros_rr(rng, 1)
        else:
            rops += st_mod.stream_ros_bw(rng, 1)
    # workloads whose analysed (end-of-chain) callback never releases anything while another polled
    # callback has steps: "the instance under analysis is always counted" does not hold
    for i in range(max(m // 10, 40)):
        cbs, sub = st_mod.gen_workload(rng)
        if len(cbs) < 2:
            continue
        e = sub[-1]
        cbs = [(rtb, (("never",) if j == e else (a if "never" not in gen.arr_str(a) else ("spo", rng.randint(3, 30), 0))), c,
                (k if j == e or k[0] in "UP" or rng.random() < 0.3 else "U")) for j, (rtb, a, c, k) in enumerate(cbs)]
        if not any(k[0] in "UP" for j, (_, _, _, k) in enumerate(cbs) if j != e):
            continue
        rops.append(f"{rng.choice(['rr', 'bw'])} {gen.supply_str(st_mod.gen_ros_supply(rng))} {st_mod.workload_str(cbs, sub)} {gen.gen_limit(rng)}")
        dist["silent_end_of_chain"] = dist.get("silent_end_of_chain", 0) + 1
    rc, rr, rk = real3(rops)
    dist["ros"] = len(rops)
    for op, a, b, c in zip(rops, rc, rr, rk):
        if a == b == c and a not in ("panic", "hang"):
            if a.startswith("ok") and a != "ok 0":
                nontrivial.add(op)
            continue
        cex.append({"kind": "ros_profile_dependent_or_panic", "op": op, "checked": a, "release": b, "release_overflow_checks": c,
                    "bw_debug_hang": op.startswith("bw ") and a == "hang" and b not in ("hang", "panic"),
                    "reasons": op_reasons(op)})
    # (3) model queries (arrival, steps, demand, cost, derive) — well-formed streams
    qops = []
    for name in ("arrival", "steps", "demand", "derive"):
        g = st_mod.STREAMS[name][0]
        qops += [o for o in g(rng, n // 4) if not o.startswith("bsteps")]
    rc, rr, rk = real3(qops)
    dist["model_queries"] = len(qops)
    for op, a, b, c in zip(qops, rc, rr, rk):
        if a == b == c:
            if a not in ("panic", "hang"):
                nontrivial.add(op)
            continue
        cex.append({"kind": "query_profile_dependent", "op": op, "checked": a[:200], "release": b[:200], "release_overflow_checks": c[:200],
                    "reasons": op_reasons(op)})
    # (4) fixed probes of the findings that cannot be part of a release-mode stream
    f12 = "na c_abu 8 spo 37 152 5"
    pa = [common.run_parallel(common.harness_bin(pf), [f12, "dmin c_abu 8 spo 37 152"]) for pf in ("checked", "release", "relchk")]
    if any(not x[0].isdigit() for x in pa):
        dm = parse_list(pa[0][1])
        cex.append({"kind": "derived_curve_all_zero_panics_c20", "op": f12, "checked": pa[0][0], "release": pa[1][0],
                    "release_overflow_checks": pa[2][0], "dmin_all_zero": bool(dm) and all(x == 0 for x in dm)})
    probe = real(["ccvec cc_ext 0 cc 3 1 2 3"])[0]
    if probe == "panic":
        cex.append({"kind": "wcet_extrapolate_zero", "op": "ccvec cc_ext 0 cc 3 1 2 3", "checked": probe})
    # (5) guided by a broken correspondence: every operation on which model and code disagree is executed
    # by the three builds, and the arrival model of a disagreeing model query is transplanted into
    # analyses (whose debug-only cross-checks query the models in a different order than release builds)
    gops = []
    seen_terms = set()
    for d in ((ctx.get("corr") or {}).get("disagreements") or [])[:400]:
        op = d.get("op", "")
        t = op.split()
        if not t:
            continue
        if len(gops) < 300:
            gops.append(op)
        if t[0] in ("na", "nas", "steps", "dsteps") and len(seen_terms) < 25:
            try:
                a, j = parse_arr(t, 1)
            except (Unsupported, ValueError, IndexError):
                continue
            term = " ".join(t[1:j])
            if term in seen_terms or a[0] in ("never",):
                continue
            seen_terms.add(term)
            for rep in range(6):
                c1, c2 = rng.randint(1, 4), rng.randint(1, 3)
                P, co = rng.randint(8, 40), rng.randint(2, 7)
                lim = rng.randint(200, 600)
                gops += [f"ros_ch ded rbf {term} sc {c1} rbf {term} sc {c2} rbf {term} sc {c1 + c2} ragg 1 rbf per {P} sc {co} {lim}",
                         f"ros_tm ded rbf {term} sc {c1} ragg 1 rbf per {P} sc {co} {rng.randint(0, 3)} {lim}",
                         f"ros_pp ded rbf {term} sc {c1} ragg 1 rbf per {P} sc {co} {lim}",
                         f"ros_es ded ragg 2 rbf {term} sc {c1} rbf per {P} sc {co} {lim}",
                         f"fifo ragg 2 rbf {term} sc {c1} rbf per {P} sc {co} {lim}",
                         f"fp_p rbf {term} sc {c1} 1 rbf per {P} sc {co} {lim}",
                         f"edf_p rbf {term} sc {c1} {rng.randint(5, 40)} 1 rbf per {P} sc {co} {rng.randint(5, 40)} {lim}"]
    if gops:
        gops = [gen.cap_dense(o) for o in gops]
        rc, rr, rk = real3(gops)
        dist["correspondence_guided_ops"] = len(gops)
        for op, a, b, c in zip(gops, rc, rr, rk):
            if a == b == c:
                continue
            kind_ = "ros_profile_dependent_or_panic" if op.split()[0].startswith(("ros_", "rr", "bw")) else \
                ("profile_dependent_or_panic" if op.split()[0] in gen.ANALYSIS_OPS else "query_profile_dependent")
            cex.append({"kind": kind_, "op": op, "checked": a[:200], "release": b[:200], "release_overflow_checks": c[:200],
                        "reasons": op_reasons(op), "tua_never_releases": False,
                        "found_by": "search guided by a correspondence disagreement"})
    return {"cases": len(ops) + len(rops) + len(qops) + 1 + len(gops), "nontrivial": len(nontrivial),
            "rule": "the same operations (well-formed task systems for the nine analyses, well-formed ROS 2 workloads, model queries; when the correspondence is broken also the disagreeing operations and analyses built around the arrival models of disagreeing queries) executed by three builds of the harness: debug assertions + overflow checks, optimised release, release + overflow checks; outcome = value / panic / hang; any difference or any panic/hang is a counterexample; non-trivial = distinct op with a proper value in all three builds",
            "counterexamples": cex, "samples": samples, "distribution": dist}


# ---------------------------------------------------------------------------
# C07: real ROS 2 analyses vs the executable naive Spec (RTA/Spec/NaiveRos.lean)

def own_demand_steps_with_arrivals(op):
    """the analysed demand of a ros_tm / ros_pp / ros_ch op is a single RBF with a scalar WCET >= 1
    (then the demand steps exactly where the arrival curve steps, which is what steps_iter of the
    request bound enumerates); for zero-cost or multi-frame demands the two notions differ"""
    t = op.split()
    i = 1
    while t[i] == "dflt":
        i += 1
    i += {"ded": 1, "psup": 3, "csup": 4}.get(t[i], 99)
    def one_rbf_positive(i):
        # a single RBF whose every job has a positive cost: scalar >= 1, multiframe without empty frames,
        # strictly increasing cumulative cost curve
        if t[i] != "rbf":
            raise Unsupported(t[i])
        _, j = parse_arr(t, i + 1)
        if t[j] == "cc":
            v, j2 = _p_list(t, j + 1)
            ok = bool(v) and v[0] >= 1 and all(b > a for a, b in zip(v, v[1:]))
            return ok, j2
        c, j2 = parse_cost_any(t, j)
        ok = (c[0] == "sc" and c[1] >= 1) or (c[0] == "mf" and bool(c[1]) and min(c[1]) >= 1)
        return ok, j2
    try:
        if t[0] == "ros_ch":
            # last, prefix, full chain: the search space comes from the full chain's demand, which steps
            # exactly where its arrival curves step if every job of every component has a positive cost
            def pos(c):
                return (c[0] == "sc" and c[1] >= 1) or (c[0] == "mf" and bool(c[1]) and min(c[1]) >= 1) or \
                    (c[0] == "cc" and bool(c[1]) and c[1][0] >= 1 and all(b > a for a, b in zip(c[1], c[1][1:]))) or \
                    (c[0] == "cbox" and pos(c[1]))
            _, i = parse_rb_general(t, i)
            _, i = parse_rb_general(t, i)
            full, _ = parse_rb_general(t, i)
            return len(full) >= 1 and all(pos(r_[2]) for r_ in full)
        ok, _ = one_rbf_positive(i)
        return ok
    except (Unsupported, ValueError, IndexError):
        return False


def falsify_C07(ctx):
    rng = random.Random(ctx["seed"] * 7919 + 7)
    n = 1500 if ctx["tier"] == "quick" else 60000
    from . import streams as st_mod
    ops = []
    for i in range(n):
        k = rng.random()
        o = (st_mod.stream_ros_e19(rng, 1) if k < 0.45 else st_mod.stream_ros_rr(rng, 1) if k < 0.7 else st_mod.stream_ros_bw(rng, 1))[0]
        t = o.split()
        t[-1] = str(min(int(t[-1]), 70))      # keep the naive evaluation cheap
        ops.append(" ".join(t))
    # every correspondence disagreement on a ROS 2 analysis op is re-examined against the oracle
    for d in ((ctx.get("corr") or {}).get("disagreements") or [])[:200]:
        o = d.get("op", "")
        if o.split()[:1] and o.split()[0] in ("ros_es", "ros_tm", "ros_pp", "ros_ch", "rr", "bw") and o.split()[-1].isdigit() \
                and int(o.split()[-1]) <= 2500 and len(ops) < n + 80:
            ops.append(o)
    r = real(ops)
    nv = common.run_parallel(common.lean_bin(), ["nv_" + o for o in ops])
    # timer / polling point / chain: the implementation examines the step offsets of the analysed
    # demand only (K2); the Spec restricted to those offsets is what it must equal exactly
    nvs = common.run_parallel(common.lean_bin(), [("nvs_" + o) if o.split()[0] in ("ros_tm", "ros_pp", "ros_ch") else "skip" for o in ops])
    cex, samples, nontrivial = [], [], set()
    dist = {}
    for op, a, b, b_steps in zip(ops, r, nv, nvs):
        kind = op.split()[0]
        if kind in ("ros_tm", "ros_pp", "ros_ch") and b_steps not in ("bad-op", "panic") and a != b_steps and a not in ("panic",) \
                and own_demand_steps_with_arrivals(op) and int(op.split()[-1]) >= 1:
            # (limit 0 is finding K4 and keeps its own classification below)
            dist["checked_on_steps"] = dist.get("checked_on_steps", 0) + 1
            cex.append({"kind": "ros_not_naive_on_steps", "op": op, "impl": a, "naive_on_step_offsets": b_steps,
                        "naive_all_offsets": b, "analysis": kind, "limit": int(op.split()[-1]), "reasons": op_reasons(op)})
            continue
        dist[kind] = dist.get(kind, 0) + 1
        if b.startswith("ok") and b != "ok 0":
            nontrivial.add(op)
        if a == b:
            if len(samples) < 4 and a.startswith("ok") and a != "ok 0" and kind in ("bw", "ros_es", "rr"):
                samples.append({"op": op, "impl": a, "naive_all_offsets": b})
            continue
        lossy = kind in ("ros_tm", "ros_pp", "ros_ch") and a.startswith("ok") and \
            ((b.startswith("ok") and int(a.split()[1]) <= int(b.split()[1])) or b.startswith("div"))
        cex.append({"kind": "ros_not_naive", "op": op, "impl": a, "naive_all_offsets": b, "analysis": kind,
                    "limit": int(op.split()[-1]), "pruned_below_all_offsets": lossy, "reasons": op_reasons(op)})
    return {"cases": len(ops), "nontrivial": len(nontrivial),
            "rule": "random ROS 2 workloads (all callback kinds, priorities, singleton and multi-callback subchains, all supplies incl. the default service_time) with limits <= 70: real result vs the executable naive Spec (every offset, linear-scan fixed points, service_time by linear scan); non-trivial = distinct op with a positive naive bound",
            "counterexamples": cex, "samples": samples, "distribution": dist}


# ---------------------------------------------------------------------------
# C18: tightness — the critical-instant schedule attains the bound

def critical_jobs(T, J, C, horizon, t0):
    """critical-instant releases of a sporadic task aligned at t0 (>= J): arrivals k*T from
    t0 - J, every job released as late as allowed but not before t0"""
    jobs = []
    k = 0
    while True:
        rel = max(k * T, J) + (t0 - J)
        if rel > t0 + horizon:
            break
        jobs.append((rel, C))
        k += 1
    return jobs


def superadditive_prefix(rng):
    """a random delta-min prefix (entry i = minimum span of i+2 events) that is super-additive:
    d[n] >= d[k] + d[n-k-1]; bursts (small entries) followed by gaps"""
    m = rng.randint(1, 5)
    d = []
    cur = 0
    for i in range(m):
        cur += wchoice(rng, [(3, rng.randint(0, 2)), (3, rng.randint(3, 12)), (1, rng.randint(12, 30))])
        d.append(cur)
    if d[-1] == 0:
        d[-1] = rng.randint(1, 9)
    for n in range(1, m):
        for k in range(0, n):
            if n - k - 1 >= 0:
                d[n] = max(d[n], d[k] + d[n - k - 1])
    return d


def densest_curve_jobs(d, C, horizon, t0):
    """the densest event sequence of the auto-extrapolating curve with prefix d (event 0 at t0,
    event i+1 at t0 + d[i], the vector continued by its super-additive closure)"""
    d = list(d)
    jobs = [(t0, C)]
    i = 0
    while True:
        if i >= len(d):
            n = len(d)
            d.append(max(d[k] + d[n - k - 1] for k in range(0, n)))
        if d[i] > horizon:
            break
        jobs.append((t0 + d[i], C))
        i += 1
    return jobs


def falsify_C18(ctx):
    rng = random.Random(ctx["seed"] * 7919 + 18)
    n = 300 if ctx["tier"] == "quick" else 20000
    cex, samples, nontrivial = [], [], set()
    dist = {"fifo": 0, "fp_p": 0, "fp_np": 0, "attained": 0}
    for it in range(n):
        k = wchoice(rng, [(2, 1), (3, 2), (3, 3), (1, 4)])
        tasks = []
        for _ in range(k):
            T = rng.randint(3, 30)
            tk = {"T": T, "J": wchoice(rng, [(2, 0), (2, rng.randint(0, T)), (1, rng.randint(T, 2 * T))]), "C": rng.randint(1, 5)}
            if rng.random() < 0.35:
                # auto-extrapolating super-additive delta-min curve
                tk["d"] = superadditive_prefix(rng)
                tk["J"] = 0
                dist["tasks_with_extrapolating_curve"] = dist.get("tasks_with_extrapolating_curve", 0) + 1
            tasks.append(tk)
        kind = wchoice(rng, [(2, "fifo"), (2, "fp_p"), (2, "fp_np")])
        dist[kind] += 1
        i = rng.randrange(k)
        t0 = max(t["J"] for t in tasks) + 1
        def A_(t):
            return ("xcur " + gen.lst(t["d"])) if "d" in t else f"spo {t['T']} {t['J']}"
        if kind == "fifo":
            op = f"fifo ragg {k}" + "".join(f" rbf {A_(t)} sc {t['C']}" for t in tasks) + " 5000"
        elif kind == "fp_p":
            hp = tasks[:i]
            op = f"fp_p rbf {A_(tasks[i])} sc {tasks[i]['C']} {len(hp)}" + \
                "".join(f" rbf {A_(t)} sc {t['C']}" for t in hp) + " 5000"
        else:
            hp, lp = tasks[:i], tasks[i + 1:]
            B = max([t["C"] - 1 for t in lp], default=0)
            op = f"fp_np {A_(tasks[i])} {tasks[i]['C']} {B} {len(hp)}" + \
                "".join(f" rbf {A_(t)} sc {t['C']}" for t in hp) + " 5000"
        r = real([op])[0]
        if not r.startswith("ok "):
            continue
        R = int(r.split()[1])
        if R == 0:
            continue
        best = 0
        exceeded = None
        horizon = 4 * R + 60
        # the busy window of bursty curves can be long: extend the horizon before concluding
        # that the bound is not attained
        for attempt in range(4):
            jobs = []
            for ti, t in enumerate(tasks):
                if kind != "fifo" and ti > i:
                    # lower-priority tasks: for NP the longest one starts one tick before t0
                    if kind == "fp_np" and t["C"] - 1 == max([x["C"] - 1 for x in tasks[i + 1:]], default=0) and t["C"] > 1 \
                            and not any(j["task"] > i for j in jobs):
                        jobs.append({"rel": t0 - 1, "cost": t["C"], "np": set(range(1, t["C"])), "task": ti})
                    continue
                for rel, c in (densest_curve_jobs(t["d"], t["C"], horizon, t0) if "d" in t else critical_jobs(t["T"], t["J"], t["C"], horizon, t0)):
                    npset = set(range(1, c)) if kind == "fp_np" else set()
                    jobs.append({"rel": rel, "cost": c, "np": npset, "task": ti})
            jobs.sort(key=lambda j: (j["task"], j["rel"]))
            for idx, j in enumerate(jobs):
                j["idx"] = idx
            key = (lambda j: j["rel"]) if kind == "fifo" else (lambda j: (j["task"], j["idx"]))
            for rep in range(3 if kind == "fifo" else 1):
                rts = sim.simulate(jobs, key, rng, horizon=t0 + 3 * horizon)
                for j, rt in zip(jobs, rts):
                    if rt is None or j["rel"] > t0 + horizon - R - 5:
                        continue
                    if kind == "fifo" or j["task"] == i:
                        if rt > R:
                            exceeded = rt
                        best = max(best, rt)
            if best >= R:
                break
            horizon *= 4
        if exceeded is not None:
            cex.append({"kind": "bound_exceeded_in_tightness_witness", "op": op, "impl": r, "observed_response": exceeded})
        nontrivial.add(op)
        if best == R:
            dist["attained"] += 1
            if len(samples) < 4 and k >= 2:
                samples.append({"op": op, "bound": R, "witness": "critical-instant schedule", "witnessed_response": best})
        else:
            cex.append({"kind": "bound_not_attained", "op": op, "impl": r, "best_witnessed_response": best, "analysis": kind})
    return {"cases": sum(dist[k2] for k2 in ("fifo", "fp_p", "fp_np")), "nontrivial": len(nontrivial),
            "rule": "random task sets of sporadic tasks with release jitter and auto-extrapolating super-additive delta-min curves (bursts and gaps): the critical-instant job set (all tasks aligned, every job at its WCET; for NP-FP a longest lower-priority job started one tick earlier) is scheduled by the executable scheduler model and the largest response time of the analysed task (FIFO: of any task) is compared with the real bound: equality expected; non-trivial = distinct system with a positive bound",
            "counterexamples": cex, "samples": samples, "distribution": dist}
