"""Per-property registry: level, correspondence streams, falsifier."""
import json, os, random
from . import common, gen, oracles
from .gen import wchoice
from . import fals_basic

PROPS = {}


def register(pid, **kw):
    PROPS[pid] = kw


register(
    "C08",
    level="proof",
    streams=["fixed_point", "supply"],
    falsifier=fals_basic.falsify_C08,
    partial=["search_ok_iff / search_div_iff are stated for 1 <= limit: at limit = 0 the loop never runs (known finding K4)"],
    explanation="Least-solution characterisation of the search loop proved for every supply with an exact inverse, every monotone workload, every offset satisfying the distance_to guard and every limit >= 1; default service_time proved equal to the exact inverse; max_response_time characterised. Model tied to the code by the fixed_point and supply correspondence streams; the falsifier compares the real search with a linear scan over the real provided_service.",
)

register(
    "C09",
    level="proof",
    streams=["supply"],
    falsifier=fals_basic.falsify_C09,
    explanation="sbf(0)=0, monotone, 1-Lipschitz, Galois connection between provided_service and service_time (closed forms and default loop), reductions constrained(D=P)=periodic and periodic(Q=P)=dedicated proved for all parameters; exactness against budget placements: attainment proved by an explicit adversarial process, soundness for all compliant processes.",
)


def replay(pid, path):
    """Re-run a recorded counterexample / disagreement and print the three views."""
    data = json.load(open(path))
    print(json.dumps(data, indent=1)[:4000])
    ops = []
    def collect(x):
        if isinstance(x, dict):
            for k, v in x.items():
                if k == "op" and isinstance(v, str):
                    ops.append(v)
                else:
                    collect(v)
        elif isinstance(x, list):
            for v in x:
                collect(v)
    collect(data)
    if ops:
        common.harness_build("checked")
        common.lean_build(["rtadriver"])
        r = common.run_parallel(common.harness_bin("checked"), ops, nshards=1)
        l = common.run_parallel(common.lean_bin(), ops, nshards=1)
        for o, a, b in zip(ops, r, l):
            print(f"op: {o}\n  impl : {a}\n  model: {b}")
    return 0
