"""Per-property registry: level, correspondence streams, falsifier."""
import json, os, random
from . import common, gen, oracles
from .gen import wchoice
from . import fals_basic, fals_models, fals_analyses, fals_poisson, fals_ros

PROPS = {}


def register(pid, **kw):
    PROPS[pid] = kw


register(
    "C08",
    level="proof",
    streams=["fixed_point", "supply"],
    falsifier=fals_basic.falsify_C08,
    partial=["search_ok_iff / search_div_iff are stated for 1 <= limit: at limit = 0 the loop never runs (known finding K4)"],
    explanation="Least-solution characterisation of the search loop proved for every supply with an exact inverse, every monotone workload, every offset satisfying the distance_to guard and every limit >= 1; default service_time proved equal to the exact inverse; max_response_time characterised. Model tied to the code by the fixed_point and supply correspondence streams; the falsifier compares the real search with a linear scan over the real provided_service.",
)

register(
    "C09",
    level="proof",
    streams=["supply"],
    falsifier=fals_basic.falsify_C09,
    explanation="sbf(0)=0, monotone, 1-Lipschitz, Galois connection between provided_service and service_time (closed forms and default loop), reductions constrained(D=P)=periodic and periodic(Q=P)=dedicated proved for all parameters; exactness against budget placements: attainment proved by an explicit adversarial process, soundness for all compliant processes.",
)


register(
    "C10",
    level="proof",
    streams=["arrival"],
    falsifier=fals_models.falsify_C10,
    explanation="N(0)=0, monotonicity, never-undercounts against every admissible event sequence (structural induction over all arrival models and compositions), attainment and sub-additivity of periodic/sporadic, jitter composition: all proved in Lean for the model; model tied to number_arrivals / clone_with_jitter by the arrival stream; falsifier runs dense admissible histories against the real number_arrivals.",
)

register(
    "C11",
    level="proof",
    streams=["steps", "arrival"],
    falsifier=fals_models.falsify_C11,
    partial=["steps_exact_partial carries the hypothesis Arr.Exact / RB.Exact, which now excludes exactly the shape of the known finding K1 (a bare ArrivalCurvePrefix yields 0); F2 (Propagated over nothing) and F3 (delta-min vector ending in a plateau) were repaired by fix: commits and are covered (propagated_exact, curve_exact); the full statement StepsExactForAll is proved FALSE by K1 (counterexample_K1)"],
    explanation="steps_iter (cut at every horizon) = exactly the increase points, strictly increasing, >= 1: proved for every arrival model and request bound outside three defect shapes whose negation is proved with concrete witnesses and replayed on the real code (known findings).",
)

register(
    "C12",
    level="proof",
    streams=["derive", "arrival", "steps"],
    falsifier=fals_models.falsify_C12,
    partial=["from_arrival_bound_dominates_partial / prefix_from_arrival_bound_partial need a sub-additive source (the claim is FALSE otherwise: counterexample_F8, known finding F8) and an arrival model outside the C11 findings; the doubling search for a covering horizon in the model must succeed (hypothesis hreach, decidable; it follows from the plain size condition that the source admits up_to + 1 arrivals within 2^65 - 1 time units: from_arrival_bound_dominates_of_size)",
             "from_trace_bounds_all_windows needs a usable curve (some recorded span positive); an all-zero prefix makes number_arrivals divide by zero"],
    explanation="trace-inferred curve = minimum spans (loop invariant over the trace), hence respects the trace and bounds every window of every length; delta_min_iter is the exact dual of number_arrivals; curves and prefixes derived from sub-additive bounds dominate the source everywhere and coincide on the covered prefix.",
)

register(
    "C13",
    level="proof",
    streams=["xcurve", "arrival", "derive"],
    falsifier=fals_models.falsify_C13,
    partial=["only_tightens_partial: tightening is proved for window lengths below the extrapolated horizon; beyond it the claim is FALSE for partially extrapolated Curves (counterexample_F6, known finding F6); it is proved for every length for ExtrapolatingCurve",
             "the run-time RefCell borrow flag is exercised by the xcurve stream, not proved"],
    explanation="append-only, conservative (respects_iterExt + curve_bounds), tightening within the horizon, termination, pure semantics of ExtrapolatingCurve (monotone, <= plain curve, still a bound), cache state machine transparent for all query histories.",
)

register(
    "C14",
    level="proof",
    streams=["wcet", "xcost"],
    falsifier=fals_models.falsify_C14,
    partial=["extrapolation_never_raises_partial: proved inside the extrapolated range; beyond it FALSE for partially extrapolated wcet::Curves (counterexample_F7, known finding F7); proved for every n for ExtrapolatingCurve"],
    explanation="cost(0)=0, monotone, items sum to cost, least_wcet <= items for scalar/multiframe/curve/extrapolating models (curves: non-decreasing sub-additive prefix); trace-inferred curve bounds every run; extrapolation appends, stays well-formed, never raises inside its range; cache transparent for all histories.",
)

register(
    "C16",
    level="proof",
    streams=["demand"],
    falsifier=fals_models.falsify_C16,
    explanation="all clauses proved by structural induction over nested request bounds (RBF, Aggregate/Slice); sum of n largest via a verified insertion sort and a sublist-maximality lemma.",
)


register(
    "C06",
    level="proof",
    streams=["fp", "edf", "fifo", "steps", "demand", "fixed_point"],
    falsifier=fals_analyses.falsify_C06,
    partial=["hypotheses: arrival models outside the C11 finding K1, limit >= 1 (K4), the task under analysis releases something (degenerate finding K5: for a never-arriving task the analyses return Ok(0), naive all-offset evaluation returns the interfering busy window; never_arriving_counterexample)"],
    explanation="for each of the nine analyses: model result = naive evaluation (linear-scan least solutions, every offset in [0,L), maximum, error iff some least solution is missing) proved via C08 (search = least solution), C11 (steps = increase points) and a domination argument (between consecutive search points the right-hand side does not grow).",
)

register(
    "C03",
    level="proof",
    streams=["fifo", "steps", "demand", "arrival", "wcet"],
    falsifier=fals_analyses.falsify_C03,
    explanation="busy-window proof over all discrete-time FIFO schedules (valid, work conserving, earliest release first, arbitrary ties) of all job sets whose per-task release sequences are admissible and whose execution times respect the cost models: every job completes within R; composed from the schedule-level theorem (Finset counting argument), C06 (what Ok(R) means), C10 (window counts) and C14 (run costs).",
)


register(
    "C01",
    level="proof",
    streams=["fp", "steps", "demand", "fixed_point"],
    falsifier=fals_analyses.falsify_C01,
    partial=["arrival models outside the C11 findings; NP/LP variants use a scalar WCET as in the crate's API; tasks sharing a priority level are covered (theorems *_equal_priorities: ties among equal-priority jobs broken by release time, simultaneous releases arbitrarily; the distinct-priority theorems are a special case)"],
    explanation="abstract busy-window theorem for job-level fixed-priority scheduling with non-preemptable states (reach_rt, run_to_completion, blocked_bound) instantiated for the four FP analyses: offset < L, blocking by at most one lower-priority segment, higher-priority and own earlier workload bounded by the RBFs, run-to-completion threshold; composed with C06 (meaning of Ok(R)).",
)


register(
    "C02",
    level="proof",
    streams=["edf", "steps", "demand", "fixed_point"],
    falsifier=fals_analyses.falsify_C02,
    partial=["arrival models outside the C11 findings; NP/LP variants use a scalar WCET as in the crate's API; task-set level theorems (*_safe_task_set) derive the workload bounds from curve-compliant releases and compliant execution times"],
    explanation="the abstract JLFP busy-window theorem instantiated for EDF with arbitrary tie-breaking: offset < L via the global busy window, blocking only by later-deadline tasks (D_o > D + A), interference only by jobs with deadlines up to the analysed job's (rbf_o(min(AF, A+1+D-D_o))), run-to-completion threshold; composed with C06.",
)


register(
    "C17",
    level="proof",
    streams=["fp", "edf", "fifo", "ros_e19", "ros_rr", "ros_bw", "arrival"],
    falsifier=fals_analyses.falsify_C17,
    partial=["proved for FIFO, the four FP and the four EDF analyses (through C06: the analyses equal naive evaluation, which is monotone) and for the ROS 2 event-source, rr and bw analyses incl. weaker supplies (through C07; rr/bw for an end-of-chain callback with a non-shrinking marginal cost, i.e. any scalar WCET); for the ROS 2 timer analysis EVERY single-parameter hardening is proved (ros_timer_monotone: own arrival curve and WCET, interference, blocking, supply — although its search space is pruned to the own steps), for the polling-point analysis likewise (ros_polling_point_monotone_own + _partial), for the processing-chain analysis likewise (ros_chain_monotone: arrival curve, WCETs of the last callback and of the prefix, other chains, supply)",
             "the analysed task's OWN last non-preemptive segment is not a hardening (own_last_segment_not_monotone) and is excluded"],
    explanation="order-preservation of least solutions and maxima: pointwise larger right-hand sides give larger least fixed points and larger busy windows; the single-parameter hardenings (WCET, jitter, period, blocking, segment, added task) are proved to produce the pointwise orders; limit stability proved.",
)

register(
    "C19",
    level="proof",
    streams=["fp", "edf", "fifo", "ros_e19", "ros_rr", "ros_bw", "supply"],
    falsifier=fals_analyses.falsify_C19,
    partial=["event source = FIFO is proved under a side condition and proved FALSE without it (counterexample_K3, known finding K3)"],
    explanation="model equalities for all inputs: the three FP and three EDF reductions, max NP-EDF = FIFO for equal deadlines, all ROS 2 analyses invariant under the three encodings of a full supply (congruence in sbf / service_time + C09), event source vs FIFO.",
)


register(
    "C20",
    level="proof",
    streams=["fp", "edf", "fifo", "ros_e19", "ros_rr", "ros_bw", "fixed_point", "demand", "steps", "xcurve", "xcost"],
    profiles=["checked", "release", "relchk"],
    falsifier=fals_analyses.falsify_C20,
    partial=["integer overflow of + and * on u64/usize is outside the model (tripwire: the overflow-checking release build in the falsifier)",
             "the guards of the ROS 2 analyses are theorems too (ros_*_total, ros_bw_profile_independent; bw for limit >= 1, timer/polling point/chain for a scalar WCET of the analysed callback); findings K1, F11 (debug hang in bw), F12 are genuine violations and recorded; F9 (EDF underflow for a silent task), F5 (wcet extrapolate(0)), F2 and F3 (with their consequences, incl. the debug assertion in bw) were repaired by fix: commits"],
    explanation="WF input => no guard of the model fails and no fuel runs out (subtraction / index / assertion safety of search, the nine analyses, demand queries, step_offsets; termination of the default service_time, of extrapolation, of the extrapolating iterator; brute-force cross-check of fixed_point::search equals the search). The correspondence streams run against the build with debug assertions and overflow checks; the falsifier runs the same operations through three builds and compares the outcomes.",
)


register(
    "C07",
    level="proof",
    streams=["ros_e19", "ros_rr", "ros_bw", "supply", "fixed_point", "steps"],
    falsifier=fals_analyses.falsify_C07,
    partial=["timer / polling-point: proved equal to naive evaluation over the STEP offsets of the own demand (scalar WCET); the all-offset claim is proved FALSE (counterexample_K2, known finding K2); the processing-chain analysis likewise (chain_partial, through chain_is_polling_point: scalar WCETs of the last callback and of the prefix)",
             "hypotheses as in C06: exact arrival models, limit >= 1, the end of a bw subchain releases something"],
    explanation="event source, rr and bw (incl. the debug cross-check) are proved equal to naive all-offset linear-scan evaluation for all supplies; service_time = linear-scan inverse; search = linear-scan least solution.",
)


register(
    "C15",
    level="proof",
    streams=["poisson"],
    falsifier=fals_poisson.falsify_C15,
    partial=["the theorems are about the real-valued algorithm; the f64 implementation is tied to an IEEE-double model by bit-exact correspondence (translation validation) and compared with a 120-digit oracle; f64 rounding is outside the proof; finding F4: for means >= ~100 the f64 code returns wrong, non-monotone values and does not terminate when exp(-mean) underflows"],
    explanation="real-valued accumulate-until-threshold loop: terminates for every mean >= 0 and epsilon > 0, returns the least n with P[N <= n] >= 1 - epsilon, zero at zero, monotone in the interval length (cdf antitone in the mean); pmf is the Poisson pmf (non-negative, sums to 1).",
)


register(
    "C18",
    level="proof",
    streams=["fifo", "fp", "arrival"],
    falsifier=fals_analyses.falsify_C18,
    partial=["FIFO, fully preemptive FP and fully non-preemptive FP: proved (in EVERY legal schedule of a job set that realises the curves from a common instant, jobs at their WCET — NP-FP with a positive blocking bound: a lower-priority job of cost B+1 started one slot earlier — some job (FP: of the analysed task) has response time exactly the bound; legal schedules exist by greedy constructions). Realisability proved for sporadic/periodic tasks (critical instant) and for auto-extrapolating super-additive delta-min curves (densest event sequence). The existential form of the statement is proved end to end for EVERY task set mixing the three arrival models the property names — periodic, sporadic with release jitter, auto-extrapolating super-additive delta-min curves — for FIFO, fully preemptive FP and fully non-preemptive FP (fifo_/fp_preemptive_/fp_nonpreemptive_bound_is_attained_mixed; the sporadic-only versions *_by_some_schedule are kept): a job set complying with the task models (NP: plus one lower-priority job of cost B+1 released one slot earlier) and a legal schedule with a job whose response time equals the bound are constructed. Remaining restrictions: scalar WCETs; R > 0 (a task set with demand); NP-FP: the common instant t0 >= 1 so that the blocking job can be released one slot earlier"],
    explanation="tightness of the FIFO and of the fully preemptive FP bound as theorems over all legal schedules (lower bound by counting the work that must precede the completion of the last job released at the maximising offset; upper bound = C03/C01 soundness) plus existence of schedules (greedy scheduler constructions); the falsifier additionally schedules the critical-instant job sets (sporadic and extrapolating curves) and compares the worst response with the real bound.",
)


def _with_oracle_validation(f):
    """run the executor-oracle cross-check (Python model vs Lean Spec) before the falsifier"""
    def g(ctx):
        bad = fals_ros.validate_executor_oracle(random.Random(ctx["seed"] * 31 + 4), 400 if ctx["tier"] == "quick" else 20000)
        r = f(ctx)
        r["rule"] += "; the executor model was cross-checked against the Lean transition system (driver op exec) on random scenarios first"
        for b in bad[:5]:
            r["counterexamples"].append({"kind": "executor_oracle_vs_spec", "op": b["op"], "impl": b["oracle"], "spec": b["spec"]})
        return r
    return g


register(
    "C04",
    level="proof",
    streams=["ros_e19", "supply", "fixed_point", "steps"],
    falsifier=_with_oracle_validation(fals_ros.falsify_C04),
    partial=["PROVED for every supply process delivering at least the supply-bound function (every compliant budget placement of a periodic / deadline-constrained reservation), every release pattern within the curves, every execution time up to the WCET: the event-source analysis (all FIFO schedules), the timer analysis, the polling-point-callback analysis and the processing-chain analysis (scalar WCETs of the analysed callback / chain) over the schedule-level executor Spec SupplyTimerLegal (non-preemptive, no idling while a relevant instance is pending, no other callback started meanwhile, own instances in release order; chains: every callback instance carries the arrival time of its chain instance). Timer, polling-point and chain analyses ALSO for every run of the executor transition system itself (executor_runs_are_timer_legal, executor_runs_are_chain_legal; timer_safe_lts, polling_point_safe_lts, chain_safe_lts). Timer and polling-point analyses additionally END TO END (timer_safe_end_to_end, polling_point_safe_end_to_end; timer_safe_run, polling_point_safe_run): all hypotheses on the inputs of the run (callback table, supply process, release pattern within the curves), conclusion on the completions reported by the executable Exec.run; the processing-chain analysis likewise (chain_safe_end_to_end: the m-th completion of the last callback is within R of the m-th release of the chain's source; chain_safe_end_to_end_nonvacuous: a concrete run attaining the bound 6). ALL EXECUTION TIMES also at the level of the transition system: RTA/Spec/Ros2ExecX.lean lets every instance run for any time between 1 and its WCET; timer_safe_all_execution_times, polling_point_safe_all_execution_times, chain_safe_all_execution_times (refinements re-proved: Lemmas/ExecRefineX.lean, ExecRefineChainX.lean). Remaining restrictions: scalar WCET bounds of the analysed callback / chain; one linear chain per run in the chain refinement"],
    explanation="busy-window proofs on an arbitrary supply process whose service in every window is bounded below by the supply-bound function (C09 soundness): FIFO for the event source; non-preemptive fixed priority with bounded blocking, interference counted up to the start of the instance, for timers; polling-point callbacks as the special case where every other callback interferes and nothing blocks; composed with the meaning of Ok(R) (C07: analyses = naive evaluation on the step offsets). Executor model specified in Lean, executed by the falsifier, its runs checked against the schedule-level Spec.",
)

register(
    "C05",
    level="proof",
    streams=["ros_rr", "ros_bw", "supply", "steps"],
    falsifier=_with_oracle_validation(fals_ros.falsify_C05),
    partial=["rr and bw, singleton subchains: PROVED (rr_safe, bw_safe: a self-reproducing vector of assumed bounds bounds every response time of every callback; every supply process >= sbf, every release pattern within the curves, every execution time <= scalar WCET, timers and polled callbacks with known / unknown priorities) over the schedule-level executor Spec PollingExecLegal, and for EVERY run of the executor transition system (executor_runs_are_legal, rr_safe_lts, bw_safe_lts). END TO END (rr_safe_end_to_end, bw_safe_end_to_end; rr_safe_run, bw_safe_run): all hypotheses on the inputs of the run (workload description of the callback table, supply process, release pattern within the curves, self-reproducing bound vector), conclusion on the completions reported by the executable Exec.run (rr_safe_end_to_end_nonvacuous: a concrete run satisfying every hypothesis); the same for ALL EXECUTION TIMES between 1 and the WCET at the level of the transition system (RTA/Spec/Ros2ExecX.lean; rr_safe_all_execution_times, bw_safe_all_execution_times). Outside the property (it speaks of singleton subchains of timers and polled callbacks) and not proved: multi-callback subchains and workloads with event-source callbacks — the model of rr/bw covers them and the correspondence streams exercise them (model = code), no soundness theorem"],
    explanation="strong induction on arrival + assumed bound: instances whose bound has expired are complete; while the analysed instance waits, timers are bounded by their arrivals in the window (rr: extended by their bound; bw: from the start of the executor busy window), polled callbacks by one instance per polling window, and the number of windows by the own instances that can be pending (the polling-point bound); counting service against the supply-bound function gives the start and then the completion bound. Composed with C07 (rr, bw = naive evaluation) and with the refinement proof that runs of the executor LTS satisfy the schedule-level Spec (1868-line invariant proof).",
)


def replay(pid, path):
    """Re-run a recorded counterexample / disagreement and print the three views."""
    data = json.load(open(path))
    print(json.dumps(data, indent=1)[:4000])
    ops = []
    def collect(x):
        if isinstance(x, dict):
            for k, v in x.items():
                if k == "op" and isinstance(v, str):
                    ops.append(v)
                else:
                    collect(v)
        elif isinstance(x, list):
            for v in x:
                collect(v)
    collect(data)
    if ops:
        common.harness_build("checked")
        common.lean_build(["rtadriver"])
        r = common.run_parallel(common.harness_bin("checked"), ops, nshards=1)
        l = common.run_parallel(common.lean_bin(), ops, nshards=1)
        for o, a, b in zip(ops, r, l):
            print(f"op: {o}\n  impl : {a}\n  model: {b}")
    return 0
