"""Naive, independent Python renderings of the Spec-level definitions.
Used by the falsifiers (search for a concrete failing input on the REAL code) and to
validate the Spec against the code.  They are search aids, never a proof."""
import itertools

# ---------------------------------------------------------------------------
# supply

def worst_case_intervals(kind, upto):
    """Budget intervals [a,b) of the adversarial supply process used as witness in
    `sbf_attained`: budget of period 0 as early as possible, all later budgets as late
    as the deadline allows."""
    if kind[0] == "ded":
        return [(0, upto + 1)]
    if kind[0] == "psup":
        Q, P = kind[1], kind[2]
        D = P
    else:
        Q, D, P = kind[1], kind[2], kind[3]
    iv = [(0, Q)]
    k = 1
    while k * P + D - Q <= upto + Q + P:
        iv.append((k * P + D - Q, k * P + D))
        k += 1
    return iv


def sbf_spec(kind, delta):
    """service of the adversarial process in the window [Q, Q+delta)"""
    while kind[0] == "dflt":
        kind = kind[1]
    if kind[0] == "ded":
        return delta
    Q = kind[1]
    lo, hi = Q, Q + delta
    tot = 0
    for (a, b) in worst_case_intervals(kind, hi):
        x, y = max(a, lo), min(b, hi)
        if y > x:
            tot += y - x
    return tot


def placements_min_service(Q, D, P, nper, delta):
    """exhaustive: min over all placements of Q units inside [kP, kP+D) for each of
    nper periods (each period's placement is a subset of size Q of its D slots) and over
    all window starts such that the window lies inside the nper periods."""
    # For the minimum it suffices to consider, per period, every subset of slots.
    slots_choices = list(itertools.combinations(range(D), Q))
    best = None
    H = nper * P
    if delta > H:
        return None
    # dynamic: enumerate all combinations (small parameters only)
    for combo in itertools.product(slots_choices, repeat=nper):
        sigma = [0] * H
        for k, ch in enumerate(combo):
            for s in ch:
                sigma[k * P + s] = 1
        pre = [0]
        for v in sigma:
            pre.append(pre[-1] + v)
        for s in range(0, H - delta + 1):
            v = pre[s + delta] - pre[s]
            if best is None or v < best:
                best = v
    return best


def least_scan(pred, limit, start=0):
    r = start
    while r <= limit:
        if pred(r):
            return r
        r += 1
    return None


def tab_eval(tab, x):
    return sum(v for (t, v) in tab if t <= x)
