"""Falsifier for C15: the real ApproximatedPoisson against a high-precision oracle."""
import random
from decimal import Decimal, getcontext
from fractions import Fraction
from . import common, streams
from .fals_basic import real

getcontext().prec = 120


def quantile_exact(rn, rd, en, ed, delta, cap=20000):
    """least n with P[N <= n] >= 1 - eps for mean rate*delta (120 significant digits)"""
    if delta == 0:
        return 0, None
    m = Decimal(rn) * Decimal(delta) / Decimal(rd)
    thr = Decimal(1) - Decimal(en) / Decimal(ed)
    term = (-m).exp()
    cum = term
    n = 0
    prev = Decimal(0)
    while cum < thr and n < cap:
        n += 1
        term = term * m / n
        prev = cum
        cum += term
    return n, (prev, cum, thr)


def falsify_C15(ctx):
    rng = random.Random(ctx["seed"] * 7919 + 15)
    n = 400 if ctx["tier"] == "quick" else 20000
    cases = []
    for i in range(n):
        big = rng.random() < 0.12
        c = streams.gen_poisson(rng, big=big) if rng.random() < 0.85 else streams.gen_poisson(rng, rare=True)
        if c[0] * c[4] > 700 * c[1]:      # would never return (exp underflow); two fixed probes cover it
            c = (c[0], c[1], c[2], c[3], max(1, (650 * c[1]) // c[0]))
        cases.append(c)
    # fixed probes with means in the hundreds and thousands (finding F4)
    cases += [(1, 1, 1, 1000, 140), (1, 1, 1, 1000, 160), (1, 1, 1, 1000, 400), (1, 1, 1, 1000, 800), (2, 1, 1, 100, 1500)]
    ops = [f"pois_na {a} {b} {c} {d} {e}" for a, b, c, d, e in cases]
    res = real(ops)
    cex, samples, nontrivial = [], [], set()
    dist = {"mean<0.3": 0, "mean<10": 0, "10<=mean<100": 0, "mean>=100": 0, "ties_ignored": 0}
    prevq = {}
    for (rn, rd, en, ed, delta), op, r in zip(cases, ops, res):
        mean = Fraction(rn * delta, rd)
        dist["mean<0.3" if mean < Fraction(3, 10) else "mean<10" if mean < 10 else "10<=mean<100" if mean < 100 else "mean>=100"] += 1
        exact, info = quantile_exact(rn, rd, en, ed, delta)
        if exact > 0:
            nontrivial.add(op)
        if r == str(exact):
            if len(samples) < 3 and exact > 3:
                samples.append({"op": op, "impl": r, "exact_quantile": exact, "mean": float(mean)})
            continue
        if r.isdigit() and info is not None:
            # rounding tie: the cumulative probability at the smaller candidate is within 1e-9 of the threshold
            k = min(int(r), exact)
            q2, inf2 = quantile_exact(rn, rd, en, ed, delta)
            prev, cum, thr = info
            # (means below 1: a handful of terms, f64 error ~1e-16 — the tolerance shrinks with epsilon)
            tol = Decimal("1e-9") if mean >= 1 else min(Decimal("1e-9"), Decimal(en) / Decimal(ed) / 1000)
            near = abs(cum - thr) <= tol or abs(prev - thr) <= tol
            if abs(int(r) - exact) == 1 and near:
                dist["ties_ignored"] += 1
                continue
        cex.append({"kind": "poisson_quantile_wrong" if r.isdigit() else "poisson_no_result", "op": op, "impl": r,
                    "exact_quantile": exact, "mean": float(mean), "mean_at_least_100": mean >= 100})
    # monotone in delta and pmf vs exact on a grid
    m2 = 60 if ctx["tier"] == "quick" else 2000
    for i in range(m2):
        rn, rd, en, ed, _ = streams.gen_poisson(rng)
        ds = sorted(rng.sample(range(0, 40), 6))
        rs = real([f"pois_na {rn} {rd} {en} {ed} {d}" for d in ds])
        vals = [int(x) if x.isdigit() else None for x in rs]
        if None in vals:
            continue
        if vals[0] != 0 and ds[0] == 0:
            cex.append({"kind": "poisson_nonzero_at_zero", "op": f"pois_na {rn} {rd} {en} {ed} 0", "impl": vals[0]})
        for a, b, da, db in zip(vals, vals[1:], ds, ds[1:]):
            if a > b:
                cex.append({"kind": "poisson_not_monotone", "op": f"pois_na {rn} {rd} {en} {ed} {da}", "impl": a,
                            "later_op": f"pois_na {rn} {rd} {en} {ed} {db}", "later_impl": b,
                            "mean": float(Fraction(rn * db, rd)), "mean_at_least_100": Fraction(rn * db, rd) >= 100})
                break
    return {"cases": len(cases) + m2, "nontrivial": len(nontrivial),
            "rule": "random rates (rationals), epsilons 1e-1..1e-10 and interval lengths, a family of rare-event processes (means 1e-5..0.3) with epsilons down to 1e-12, plus fixed probes with means in the hundreds and thousands: real number_arrivals vs the exact quantile computed with 120-digit decimal arithmetic (differences of 1 with the cumulative probability within 1e-9 of the threshold are counted as rounding ties); zero at zero and monotonicity in delta on the real code; non-trivial = distinct op with a positive quantile",
            "counterexamples": cex, "samples": samples, "distribution": dist}
