"""Correspondence streams: generators of operation lines per component.

A stream is a function (rng, n) -> list[str].  Optionally a stream has a second phase
`<name>_phase2(rng, ops, results)` that derives follow-up operations from the first
phase's REAL results (e.g. limits at, one below and one above the fixed point)."""
from . import gen
from .gen import wchoice, small

# ---------------------------------------------------------------------------
# supply

def stream_supply(rng, n):
    ops = []
    for _ in range(n):
        s = gen.gen_supply(rng, maxP=wchoice(rng, [(6, 12), (3, 60), (1, 2000)]))
        ss = gen.supply_str(s)
        P = 1
        inner = s[1] if s[0] == "dflt" else s
        if inner[0] != "ded":
            P = inner[-1]
        kind = wchoice(rng, [(5, "sbf"), (5, "st")])
        argmode = wchoice(rng, [(5, "small"), (3, "periodmult"), (2, "large")])
        if argmode == "small":
            x = rng.randint(0, 4 * P + 3)
        elif argmode == "periodmult":
            x = max(0, P * rng.randint(0, 50) + rng.randint(-2, 2))
        else:
            x = rng.randint(0, 10 ** 6)
        if kind == "st" and s[0] == "dflt" and x > 20000:
            x = x % 20000  # keep the default loop's run time reasonable
        ops.append(f"{kind} {ss} {x}")
    return ops


def supply_exhaustive(maxP, maxarg_periods=4):
    """all (Q,D,P) with P <= maxP, all args up to maxarg_periods*P + 2, both functions,
    incl. the periodic type and the default service_time"""
    ops = []
    for P in range(1, maxP + 1):
        for D in range(1, P + 1):
            for Q in range(1, D + 1):
                sups = [f"csup {Q} {D} {P}"]
                if D == P:
                    sups.append(f"psup {Q} {P}")
                for ss in sups:
                    for x in range(0, maxarg_periods * P + 3):
                        ops.append(f"sbf {ss} {x}")
                    for d in range(0, maxarg_periods * Q + 3):
                        ops.append(f"st {ss} {d}")
                        ops.append(f"st dflt {ss} {d}")
    return ops


# ---------------------------------------------------------------------------
# fixed point

def stream_fixed_point(rng, n):
    ops = []
    for _ in range(n):
        r = rng.random()
        if r < 0.12:
            k = rng.randint(0, 6)
            items = []
            for _ in range(k):
                if rng.random() < 0.75:
                    items.append(f"ok {rng.randint(0, 30)}")
                else:
                    items.append(f"div {rng.randint(0, 9)} {rng.randint(0, 99)}")
            ops.append(f"maxrt {k} " + " ".join(items))
            continue
        s = gen.gen_supply(rng, maxP=wchoice(rng, [(6, 12), (3, 40)]))
        tab = gen.gen_tab(rng)
        lim = wchoice(rng, [(1, rng.randint(0, 3)), (3, rng.randint(1, 40)), (4, rng.randint(40, 3000))])
        if r < 0.45:
            ops.append(f"search {gen.supply_str(s)} {lim} {gen.tab_str(tab)}")
        else:
            base = tab[0][1] if tab and tab[0][0] == 0 else 0
            if rng.random() < 0.04:
                off = rng.randint(0, 3 * base + 20)   # may violate the distance_to guard
            else:
                off = rng.randint(0, base)
            ops.append(f"swo {gen.supply_str(s)} {off} {lim} {gen.tab_str(tab)}")
    return ops


def fixed_point_phase2(rng, ops, results):
    """limits equal to / one below / one above the fixed point that was found"""
    out = []
    for op, res in zip(ops, results):
        if not res.startswith("ok "):
            continue
        toks = op.split()
        if toks[0] not in ("swo", "search"):
            continue
        r = int(res.split()[1])
        # locate the limit token: it precedes "tab"
        i = toks.index("tab") - 1
        for lim in {max(r - 1, 0), r, r + 1}:
            t2 = list(toks)
            t2[i] = str(lim)
            out.append(" ".join(t2))
    return out


STREAMS = {
    "supply": (stream_supply, None),
    "fixed_point": (stream_fixed_point, fixed_point_phase2),
}


BUDGET = {
    # stream: (quick, thorough)
    "supply": (4000, 200000),
    "fixed_point": (4000, 200000),
}


def budget(name, tier):
    q, t = BUDGET.get(name, (3000, 100000))
    return q if tier == "quick" else t
