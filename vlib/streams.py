"""Correspondence streams: generators of operation lines per component.

A stream is a function (rng, n) -> list[str].  Optionally a stream has a second phase
`<name>_phase2(rng, ops, results)` that derives follow-up operations from the first
phase's REAL results (e.g. limits at, one below and one above the fixed point)."""
from . import gen
from .gen import wchoice, small

# ---------------------------------------------------------------------------
# supply

def stream_supply(rng, n):
    ops = []
    for _ in range(n):
        s = gen.gen_supply(rng, maxP=wchoice(rng, [(6, 12), (3, 60), (1, 2000)]))
        ss = gen.supply_str(s)
        P = 1
        inner = s[1] if s[0] == "dflt" else s
        if inner[0] != "ded":
            P = inner[-1]
        kind = wchoice(rng, [(5, "sbf"), (5, "st")])
        argmode = wchoice(rng, [(5, "small"), (3, "periodmult"), (2, "large")])
        if argmode == "small":
            x = rng.randint(0, 4 * P + 3)
        elif argmode == "periodmult":
            x = max(0, P * rng.randint(0, 50) + rng.randint(-2, 2))
        else:
            x = rng.randint(0, 10 ** 6)
        if kind == "st" and s[0] == "dflt" and x > 20000:
            x = x % 20000  # keep the default loop's run time reasonable
        ops.append(f"{kind} {ss} {x}")
    return ops


def supply_exhaustive(maxP, maxarg_periods=4):
    """all (Q,D,P) with P <= maxP, all args up to maxarg_periods*P + 2, both functions,
    incl. the periodic type and the default service_time"""
    ops = []
    for P in range(1, maxP + 1):
        for D in range(1, P + 1):
            for Q in range(1, D + 1):
                sups = [f"csup {Q} {D} {P}"]
                if D == P:
                    sups.append(f"psup {Q} {P}")
                for ss in sups:
                    for x in range(0, maxarg_periods * P + 3):
                        ops.append(f"sbf {ss} {x}")
                    for d in range(0, maxarg_periods * Q + 3):
                        ops.append(f"st {ss} {d}")
                        ops.append(f"st dflt {ss} {d}")
    return ops


# ---------------------------------------------------------------------------
# fixed point

def stream_fixed_point(rng, n):
    ops = []
    for _ in range(n):
        r = rng.random()
        if r < 0.12:
            k = rng.randint(0, 6)
            items = []
            for _ in range(k):
                if rng.random() < 0.75:
                    items.append(f"ok {rng.randint(0, 30)}")
                else:
                    items.append(f"div {rng.randint(0, 9)} {rng.randint(0, 99)}")
            ops.append(f"maxrt {k} " + " ".join(items))
            continue
        s = gen.gen_supply(rng, maxP=wchoice(rng, [(6, 12), (3, 40)]))
        tab = gen.gen_tab(rng)
        lim = wchoice(rng, [(1, rng.randint(0, 3)), (3, rng.randint(1, 40)), (4, rng.randint(40, 3000))])
        if r < 0.45:
            ops.append(f"search {gen.supply_str(s)} {lim} {gen.tab_str(tab)}")
        else:
            base = tab[0][1] if tab and tab[0][0] == 0 else 0
            if rng.random() < 0.04:
                off = rng.randint(0, 3 * base + 20)   # may violate the distance_to guard
            else:
                off = rng.randint(0, base)
            ops.append(f"swo {gen.supply_str(s)} {off} {lim} {gen.tab_str(tab)}")
    return ops


def fixed_point_phase2(rng, ops, results):
    """limits equal to / one below / one above the fixed point that was found"""
    out = []
    for op, res in zip(ops, results):
        if not res.startswith("ok "):
            continue
        toks = op.split()
        if toks[0] not in ("swo", "search"):
            continue
        r = int(res.split()[1])
        # locate the limit token: it precedes "tab"
        i = toks.index("tab") - 1
        for lim in {max(r - 1, 0), r, r + 1}:
            t2 = list(toks)
            t2[i] = str(lim)
            out.append(" ".join(t2))
    return out



# ---------------------------------------------------------------------------
# arrival / steps / derive / wcet / demand

def densest_vector(a):
    """largest (entries per time unit) of a delta-min-like vector anywhere inside the term: an
    extrapolating curve queried at delta grows its vector to about delta * density entries, and
    the list-based model needs cubic time for that"""
    best = 0.0
    if isinstance(a, (tuple, list)):
        ints = [x for x in a if isinstance(x, list) and x and all(isinstance(y, int) for y in x)]
        for v in ints:
            best = max(best, len(v) / max(v[-1], 1))
        for x in a:
            if isinstance(x, (tuple, list)):
                best = max(best, densest_vector(x))
    return best


def pick_delta(rng, a):
    """argument for number_arrivals: small, around multiples of characteristic values, large"""
    r = rng.random()
    if r < 0.5:
        d = rng.randint(0, 60)
    elif r < 0.85:
        d = rng.randint(0, 400)
    else:
        d = rng.randint(0, 5000)
    dens = densest_vector(a)
    if dens > 0:
        d = min(d, int(700 / dens))
    return d


def stream_arrival(rng, n):
    ops = []
    for _ in range(n):
        a = gen.gen_arr(rng, depth=wchoice(rng, [(3, 0), (4, 1), (3, 2), (1, 3)]))
        s = gen.arr_str(a)
        r = rng.random()
        if r < 0.5:
            ops.append(f"na {s} {pick_delta(rng, a)}")
        elif r < 0.8:
            lo = rng.randint(0, 100)
            ops.append(f"nas {s} {lo} {lo + rng.randint(0, 80)}")
        else:
            # jitter composition: a.wj(x).wj(y) and a.wj(x+y) at the same point
            x, y = rng.randint(0, 20), rng.randint(0, 20)
            d = pick_delta(rng, a)
            ops.append(f"na wj {y} wj {x} {s} {d}")
            ops.append(f"na wj {x + y} {s} {d}")
    return ops


def stream_steps(rng, n):
    ops = []
    for _ in range(n):
        r = rng.random()
        H = wchoice(rng, [(1, rng.randint(0, 3)), (5, rng.randint(1, 120)), (2, rng.randint(120, 600))])
        if r < 0.6:
            a = gen.gen_arr(rng, depth=wchoice(rng, [(3, 0), (4, 1), (3, 2), (1, 3)]))
            ops.append(f"steps {gen.arr_str(a)} {H}")
        elif r < 0.7:
            a = gen.gen_arr(rng, depth=1)
            sa = gen.arr_str(a)
            # brute_force_steps_iter never terminates on a bound that stops stepping
            if "never" in sa or "agg 0" in sa or "sli 0" in sa:
                sa = "spo 7 9"
            ops.append(f"{'bsteps' if rng.random() < 0.6 else 'dsteps'} {sa} {min(H, 200)}")
        elif r < 0.9:
            rb = gen.gen_rb(rng, depth=wchoice(rng, [(2, 0), (3, 1), (1, 2)]))
            ops.append(f"rsteps {gen.rb_str(rb)} {H}")
        else:
            rb = gen.gen_rb(rng, depth=1)
            ops.append(f"soff {gen.rb_str(rb)} {min(H, 200)}")
    return ops


def stream_derive(rng, n):
    ops = []
    for _ in range(n):
        r = rng.random()
        if r < 0.45:
            c = gen.gen_derived_curve(rng, depth=2)
            ops.append(f"dmin {gen.arr_str(c)}")
        elif r < 0.55:
            c = gen.gen_derived_curve(rng, depth=1)
            ops.append(f"mind {rng.randint(0, 12)} {gen.arr_str(c)}")
        elif r < 0.7:
            a = gen.gen_arr(rng, depth=1, derived=False)
            ops.append(f"pfx p_abu {rng.randint(0, 80)} {gen.arr_str(a)}")
        elif r < 0.85:
            a = gen.gen_arr(rng, depth=1, derived=False)
            ops.append(f"dmi {rng.randint(0, 14)} {gen.arr_str(a)}")
        else:
            # derived curve used as an arrival bound
            c = gen.gen_derived_curve(rng, depth=1)
            ops.append(f"na {gen.arr_str(c)} {pick_delta(rng, c)}")
    return ops


def stream_wcet(rng, n):
    ops = []
    for _ in range(n):
        c = gen.gen_cost(rng)
        s = gen.cost_str(c)
        r = rng.random()
        if r < 0.3:
            ops.append(f"coj {s} {wchoice(rng, [(4, rng.randint(0, 12)), (1, rng.randint(12, 200))])}")
        elif r < 0.5:
            lo = rng.randint(0, 10)
            ops.append(f"cojs {s} {lo} {lo + rng.randint(0, 30)}")
        elif r < 0.7:
            ops.append(f"items {s} {rng.randint(0, 25)}")
        elif r < 0.8:
            ops.append(f"least {s} {rng.randint(0, 12)}")
        elif r < 0.87:
            # the trait's default least_wcet / cost_of_jobs
            ops.append(f"dleast {s} {rng.randint(0, 14)}")
        else:
            k = rng.random()
            if k < 0.5:
                ops.append(f"ccvec cc_tr {rng.randint(1, 6)} {gen.lst([rng.randint(0, 9) for _ in range(rng.randint(0, 14))])}")
            elif k < 0.8:
                ops.append(f"ccvec cc_ext {rng.randint(0, 16)} cc {gen.lst(gen.gen_cost_vec(rng))}")
            else:
                ops.append(f"ccvec cc_it {gen.lst([rng.randint(0, 20) for _ in range(rng.randint(0, 6))])}")
    return ops


def stream_demand(rng, n):
    ops = []
    for _ in range(n):
        rb = gen.gen_rb(rng, depth=wchoice(rng, [(2, 0), (4, 1), (2, 2)]))
        s = gen.rb_str(rb)
        d = wchoice(rng, [(4, rng.randint(0, 60)), (2, rng.randint(60, 400))])
        r = rng.random()
        if r < 0.2:
            ops.append(f"need {s} {d}")
        elif r < 0.27:
            # the trait's default service_needed
            ops.append(f"dneed {s} {min(d, 150)}")
        elif r < 0.4:
            ops.append(f"needs {s} {d} {d + rng.randint(0, 40)}")
        elif r < 0.55:
            ops.append(f"lw {s} {d}")
        elif r < 0.7:
            ops.append(f"jc {s} {min(d, 150)}")
        elif r < 0.88:
            ops.append(f"nbn {s} {min(d, 150)} {rng.randint(0, 8)}")
        else:
            ops.append(f"nbnc {s} {min(d, 150)} {rng.randint(0, 5)}")
    return ops


# ---------------------------------------------------------------------------
# analyses

def rb_list_str(rs):
    return str(len(rs)) + "".join(" " + gen.rb_str(r) for r in rs)


def gen_fp_op(rng, kind=None):
    kind = kind or wchoice(rng, [(1, "fp_p"), (1, "fp_np"), (1, "fp_lp"), (1, "fp_fl")])
    if rng.random() < 0.55:
        # near-full utilisation / small-scope task sets: busy windows spanning several jobs of the analysed task
        hp, (a, C) = gen.gen_dense_taskset(rng) if rng.random() < 0.65 else gen.gen_small_taskset(rng)
        others = [("rbf", x, ("sc", c)) for x, c in hp]
        lim = rng.randint(300, 3000)
        B = wchoice(rng, [(2, 0), (5, rng.randint(1, 4))])
        if kind == "fp_p":
            return f"fp_p rbf {gen.arr_str(a)} sc {C} {rb_list_str(others)} {lim}"
        if kind == "fp_fl":
            return f"fp_fl rbf {gen.arr_str(a)} sc {C} {B} {rb_list_str(others)} {lim}"
        if kind == "fp_np":
            return f"fp_np {gen.arr_str(a)} {C} {B} {rb_list_str(others)} {lim}"
        last = wchoice(rng, [(1, 1), (2, C), (4, rng.randint(1, C))])
        return f"fp_lp {gen.arr_str(a)} {C} {last} {B} {rb_list_str(others)} {lim}"
    n = wchoice(rng, [(1, 0), (3, 1), (3, 2), (2, 3)])
    others = [gen.gen_task_rb(rng, scalar=(rng.random() < 0.85)) for _ in range(n)]
    lim = gen.gen_limit(rng)
    B = wchoice(rng, [(3, 0), (4, rng.randint(0, 6))])
    if kind in ("fp_p", "fp_fl"):
        tua = gen.gen_rb_maybe_agg(rng, scalar=(rng.random() < 0.8))
        if kind == "fp_p":
            return f"fp_p {gen.rb_str(tua)} {rb_list_str(others)} {lim}"
        return f"fp_fl {gen.rb_str(tua)} {B} {rb_list_str(others)} {lim}"
    a = gen.gen_task_arr(rng)
    C = wchoice(rng, [(8, rng.randint(1, 8)), (0.2, 0)])
    if kind == "fp_np":
        return f"fp_np {gen.arr_str(a)} {C} {B} {rb_list_str(others)} {lim}"
    last = wchoice(rng, [(2, 1), (2, C), (4, rng.randint(1, max(C, 1))), (0.2, 0), (0.2, C + 2)])
    return f"fp_lp {gen.arr_str(a)} {C} {last} {B} {rb_list_str(others)} {lim}"


def stream_fp(rng, n):
    return [gen_fp_op(rng) for _ in range(n)]


def gen_edf_op(rng, kind=None):
    kind = kind or wchoice(rng, [(1, "edf_p"), (1, "edf_np"), (1, "edf_lp"), (1, "edf_fl")])
    if rng.random() < 0.55:
        # near-full utilisation / small-scope task sets: long busy windows, many offsets
        hp, (a, C) = gen.gen_dense_taskset(rng) if rng.random() < 0.65 else gen.gen_small_taskset(rng)
        lim = rng.randint(300, 3000)
        D = rng.randint(1, 60)
        def dl():
            return wchoice(rng, [(3, rng.randint(1, 60)), (1, D)])
        if kind == "edf_p":
            return f"edf_p rbf {gen.arr_str(a)} sc {C} {D} {len(hp)}" + "".join(f" rbf {gen.arr_str(x)} sc {c} {dl()}" for x, c in hp) + f" {lim}"
        if kind == "edf_np":
            return f"edf_np {gen.arr_str(a)} {C} {D} {len(hp)}" + "".join(f" {gen.arr_str(x)} {c} {dl()}" for x, c in hp) + f" {lim}"
        tail = f" {len(hp)}" + "".join(f" rbf {gen.arr_str(x)} sc {c} {dl()} {rng.randint(1, c)}" for x, c in hp) + f" {lim}"
        if kind == "edf_lp":
            last = wchoice(rng, [(1, 1), (2, C), (4, rng.randint(1, C))])
            return f"edf_lp {gen.arr_str(a)} {C} {D} {last}" + tail
        return f"edf_fl rbf {gen.arr_str(a)} sc {C} {D}" + tail
    n = wchoice(rng, [(1, 0), (3, 1), (3, 2), (2, 3)])
    lim = gen.gen_limit(rng)
    D = wchoice(rng, [(4, rng.randint(1, 40)), (1, rng.randint(40, 200)), (0.5, 0)])
    same_deadlines = rng.random() < 0.15
    def dl():
        return D if same_deadlines else wchoice(rng, [(4, rng.randint(1, 40)), (1, rng.randint(40, 200)), (0.3, 0)])
    if kind == "edf_p":
        tua = gen.gen_rb_maybe_agg(rng, scalar=(rng.random() < 0.8))
        os = [(gen.gen_task_rb(rng, scalar=(rng.random() < 0.85)), dl()) for _ in range(n)]
        return f"edf_p {gen.rb_str(tua)} {D} {n}" + "".join(f" {gen.rb_str(r)} {d}" for r, d in os) + f" {lim}"
    if kind == "edf_np":
        a = gen.gen_task_arr(rng)
        C = wchoice(rng, [(8, rng.randint(1, 8)), (0.2, 0)])
        os = [(gen.gen_task_arr(rng), wchoice(rng, [(8, rng.randint(1, 8)), (0.3, 0)]), dl()) for _ in range(n)]
        return f"edf_np {gen.arr_str(a)} {C} {D} {n}" + "".join(f" {gen.arr_str(x)} {c} {d}" for x, c, d in os) + f" {lim}"
    os = [(gen.gen_task_rb(rng, scalar=(rng.random() < 0.85)), dl(), wchoice(rng, [(5, rng.randint(1, 6)), (1, 0)])) for _ in range(n)]
    if rng.random() < 0.12:
        # a later-deadline interferer with a long non-preemptive segment that releases a BURST whose later jobs
        # cost nothing (cost curve with a plateau / multiframe with an empty frame), or an aggregate one of
        # whose components is silent: "releases work" and "least job cost > 0" differ
        c_ = rng.randint(3, 6)
        T_ = rng.randint(20, 60)
        burst = ("spo", T_, rng.randint(T_, 2 * T_)) if rng.random() < 0.6 else ("cur", [0, T_, T_ + rng.randint(1, 5)])
        cost = wchoice(rng, [(2, ("cc", [c_, c_])), (2, ("mf", [c_, 0])), (1, ("cc", [c_, c_, 2 * c_]))])
        rb_ = ("rbf", burst, cost)
        if rng.random() < 0.3:
            rb_ = ("ragg", [("rbf", ("per", T_), ("sc", c_)), ("rbf", ("per", T_), ("mf", [0, c_]))])
        os.append((rb_, D + rng.randint(20, 80), rng.randint(2, c_)))
        n += 1
    tail = f" {n}" + "".join(f" {gen.rb_str(r)} {d} {sg}" for r, d, sg in os) + f" {lim}"
    if kind == "edf_lp":
        a = gen.gen_task_arr(rng)
        C = wchoice(rng, [(8, rng.randint(1, 8)), (0.2, 0)])
        last = wchoice(rng, [(2, 1), (2, C), (4, rng.randint(1, max(C, 1))), (0.2, 0), (0.2, C + 2)])
        return f"edf_lp {gen.arr_str(a)} {C} {D} {last}" + tail
    tua = gen.gen_rb_maybe_agg(rng, scalar=(rng.random() < 0.8))
    return f"edf_fl {gen.rb_str(tua)} {D}" + tail


def stream_edf(rng, n):
    return [gen_edf_op(rng) for _ in range(n)]


def stream_fifo(rng, n):
    ops = []
    for _ in range(n):
        if rng.random() < 0.15:
            # near-full utilisation: long busy windows, many offsets
            hp, own = gen.gen_dense_taskset(rng, nhp=rng.randint(1, 3))
            rs = [("rbf", a, ("sc", c)) for a, c in hp + [own]]
            ops.append(f"fifo {gen.rb_str(('ragg', rs))} {rng.randint(300, 3000)}")
            continue
        k = wchoice(rng, [(1, 1), (3, 2), (3, 3), (1, 4)])
        rs = [gen.gen_task_rb(rng, scalar=(rng.random() < 0.85)) for _ in range(k)]
        r = wchoice(rng, [(6, ("ragg", rs)), (2, ("rsli", rs)), (1, rs[0])])
        ops.append(f"fifo {gen.rb_str(r)} {gen.gen_limit(rng)}")
    return ops


def analysis_phase2(rng, ops, results):
    """limits around the returned bound, and (for a few operations) around the SMALLEST divergence
    limit for which the real analysis still converges — the largest fixed point any of its
    searches needs, e.g. the busy-window length; found by bisection on the real code"""
    from .fals_basic import real
    out = []
    nbis = 0
    for op, res in zip(ops, results):
        if not res.startswith("ok ") or rng.random() < 0.5:
            continue
        r = int(res.split()[1])
        toks = op.split()
        for lim in {max(r - 1, 0), r, r + 1, 2 * r + 1}:
            toks[-1] = str(lim)
            out.append(" ".join(toks))
        lim0 = int(op.split()[-1])
        if nbis < 25 and r >= 1 and lim0 > r + 1 and rng.random() < 0.3:
            nbis += 1
            lo, hi = max(r, 1), lim0
            base = op.rsplit(" ", 1)[0]
            while lo < hi:
                mid = (lo + hi) // 2
                if real([f"{base} {mid}"])[0].startswith("ok "):
                    hi = mid
                else:
                    lo = mid + 1
            for lim in (lo - 1, lo, lo + 1, lo + 2):
                if lim >= 0:
                    out.append(f"{base} {lim}")
    return out


def gen_ros_supply(rng):
    return gen.gen_supply(rng, maxP=wchoice(rng, [(6, 10), (2, 30)]))


def stream_ros_e19(rng, n):
    ops = []
    for _ in range(n):
        s = gen.supply_str(gen_ros_supply(rng))
        lim = gen.gen_limit(rng)
        k = wchoice(rng, [(2, "es"), (3, "tm"), (3, "pp"), (2, "ch")])
        structured_own = None
        own = gen.gen_rb_maybe_agg(rng, scalar=(rng.random() < 0.8), allow_prefix=(rng.random() < 0.1))
        interf = wchoice(rng, [(5, ("ragg", [gen.gen_task_rb(rng) for _ in range(rng.randint(0, 3))])), (2, gen.gen_task_rb(rng))])
        if rng.random() < 0.3:
            # near-full utilisation / small-scope callback sets on a dedicated processor or a generous
            # reservation: busy windows spanning several instances of the analysed callback
            hp, (oa, oc) = gen.gen_dense_taskset(rng, nhp=rng.randint(1, 2)) if rng.random() < 0.4 else gen.gen_small_taskset(rng, nhp=rng.randint(1, 2))
            # own cost: scalar, or a cost curve / multiframe vector whose later jobs are cheaper (the least
            # WCET in an interval then depends on how many own jobs the interval holds)
            u_ = rng.random()
            if u_ < 0.55:
                ocost = ("sc", oc)
            elif u_ < 0.8:
                inc = [max(1, oc - rng.randint(0, oc)) for _ in range(rng.randint(1, 3))]
                vec = [oc]
                for x in sorted(inc, reverse=True):
                    vec.append(vec[-1] + min(x, oc))
                ocost = ("cc", vec)
            else:
                ocost = ("mf", [oc] + [rng.randint(1, oc) for _ in range(rng.randint(1, 2))])
            if ocost[0] != "sc" and rng.random() < 0.6:
                # several own instances inside the busy window: jitter around the period or a bursty curve
                T_ = oa[1]
                oa = ("spo", T_, rng.randint(max(T_ - 2, 0), 2 * T_)) if rng.random() < 0.7 else ("cur", [rng.randint(0, 2), T_, T_ + rng.randint(1, 3)])
            own = ("rbf", oa, ocost)
            structured_own = own
            interf = ("ragg", [("rbf", a, ("sc", c)) for a, c in hp])
            lim = rng.randint(300, 2000)
            if rng.random() < 0.6:
                s = "ded"
        if k == "es":
            ops.append(f"ros_es {s} {gen.rb_str(own)} {lim}")
        elif k == "tm":
            ops.append(f"ros_tm {s} {gen.rb_str(own)} {gen.rb_str(interf)} {rng.randint(0, 5)} {lim}")
        elif k == "pp":
            ops.append(f"ros_pp {s} {gen.rb_str(own)} {gen.rb_str(interf)} {lim}")
        else:
            last = structured_own if structured_own is not None else gen.gen_task_rb(rng, scalar=(rng.random() < 0.7), allow_prefix=False)
            pre = [gen.gen_task_rb(rng, allow_prefix=False) for _ in range(rng.randint(0, 2))]
            if structured_own is not None and rng.random() < 0.7:
                # a proper chain: the callbacks before the last one share its arrival curve
                pre = [("rbf", structured_own[1], ("sc", rng.randint(1, 2)))]
            prefix = ("ragg", pre)
            full = ("ragg", pre + [last])
            ops.append(f"ros_ch {s} {gen.rb_str(last)} {gen.rb_str(prefix)} {gen.rb_str(full)} {gen.rb_str(interf)} {lim}")
    return ops


def gen_workload(rng):
    if rng.random() < 0.25:
        # small-scope workload: tiny periods and costs, scalar WCETs, assumed bounds in the range of the periods
        hp, own = gen.gen_small_taskset(rng, nhp=rng.randint(1, 3))
        ts = hp + [own]
        rng.shuffle(ts)
        cbs = [(wchoice(rng, [(1, 0), (5, rng.randint(1, 20))]), a, ("sc", c),
                wchoice(rng, [(2, "T"), (2, "U"), (5, f"P {rng.randint(0, 5)}")])) for a, c in ts]
        m = wchoice(rng, [(5, 1), (3, 2)])
        sub = list(dict.fromkeys(rng.randrange(len(cbs)) for _ in range(m)))
        return cbs, sub
    n = wchoice(rng, [(2, 1), (4, 2), (4, 3), (2, 4)])
    cbs = []
    for i in range(n):
        a = gen.gen_task_arr(rng, allow_prefix=False)
        sa = gen.arr_str(a)
        if ("never" in sa or "agg 0" in sa or "sli 0" in sa) and rng.random() < 0.97:
            a = ("spo", rng.randint(3, 30), 0)
        c = wchoice(rng, [(7, ("sc", rng.randint(1, 5))), (2, ("mf", [rng.randint(1, 5) for _ in range(rng.randint(1, 3))])), (1, ("cc", gen.gen_cost_vec(rng)))])
        kind = wchoice(rng, [(2, "T"), (1, "E"), (2, "U"), (4, f"P {rng.randint(0, 5)}")])
        rtb = wchoice(rng, [(2, 0), (5, rng.randint(1, 30)), (1, rng.randint(30, 120))])
        cbs.append((rtb, a, c, kind))
    m = wchoice(rng, [(5, 1), (3, 2), (1, 3)])
    sub = [rng.randrange(n) for _ in range(m)]
    if rng.random() < 0.8:
        sub = list(dict.fromkeys(sub))
    return cbs, sub


def workload_str(cbs, sub):
    return str(len(cbs)) + "".join(f" {rtb} {gen.arr_str(a)} {gen.cost_str(c)} {k}" for rtb, a, c, k in cbs) + f" {len(sub)}" + "".join(f" {i}" for i in sub)


def stream_ros_rr(rng, n):
    ops = []
    for _ in range(n):
        cbs, sub = gen_workload(rng)
        ops.append(f"rr {gen.supply_str(gen_ros_supply(rng))} {workload_str(cbs, sub)} {gen.gen_limit(rng)}")
    return ops


def stream_ros_bw(rng, n):
    ops = []
    for _ in range(n):
        cbs, sub = gen_workload(rng)
        ops.append(f"bw {gen.supply_str(gen_ros_supply(rng))} {workload_str(cbs, sub)} {gen.gen_limit(rng)}")
    return ops

def stream_xcurve(rng, n):
    ops = []
    for _ in range(n):
        d = gen.gen_dmin(rng, maxlen=5)
        nops = rng.randint(1, 30)
        toks, iters = [], 0
        for j in range(nops):
            c = rng.random()
            if c < 0.4:
                toks.append(f"na {wchoice(rng, [(3, rng.randint(0, 60)), (1, rng.randint(60, 600))])}")
            elif c < 0.55 or iters == 0:
                toks.append("it")
                iters += 1
            else:
                toks.append(f"nx {rng.randrange(iters + (1 if rng.random() < 0.03 else 0))}")
        ops.append(f"xops {gen.lst(d)} {nops} " + " ".join(toks))
    return ops


def stream_xcost(rng, n):
    ops = []
    for _ in range(n):
        w = gen.gen_cost_vec(rng, wf=(rng.random() < 0.9))
        nops = rng.randint(1, 25)
        toks = [(f"coj {rng.randint(0, 30)}" if rng.random() < 0.6 else f"lw {rng.randint(0, 30)}") for _ in range(nops)]
        ops.append(f"xcops {gen.lst(w)} {nops} " + " ".join(toks))
    return ops


def gen_poisson(rng, big=False, rare=False):
    if rare:
        # rare events and a tight epsilon: means of 1e-5 .. 0.3, epsilon down to 1e-12 (the quantile then
        # lies several standard deviations above the mean of a strongly skewed distribution)
        rd = rng.choice([10 ** 3, 10 ** 4, 10 ** 5, 10 ** 7])
        rn = rng.randint(1, 5)
        delta = rng.randint(1, max(1, min(1000, (3 * rd) // (10 * rn))))
        ed = rng.choice([10 ** 6, 10 ** 8, 10 ** 9, 10 ** 10, 10 ** 12])
        en = rng.randint(1, 9)
        return rn, rd, en, ed, delta
    rd = rng.choice([1, 2, 3, 7, 10, 100, 1000])
    rn = rng.randint(1, 5 * rd if not big else 40 * rd)
    ed = rng.choice([10, 100, 1000, 10 ** 6, 10 ** 9])
    en = rng.randint(1, max(1, ed // 10))
    delta = rng.randint(0, 30 if not big else 400)
    return rn, rd, en, ed, delta


def stream_poisson(rng, n):
    ops = []
    for _ in range(n):
        rn, rd, en, ed, delta = gen_poisson(rng, big=(rng.random() < 0.15)) if rng.random() < 0.88 else gen_poisson(rng, rare=True)
        # the real loop never terminates once exp(-mean) underflows (mean >~ 745): keep such
        # cases rare, each costs one watchdog period
        if rn * delta > 700 * rd and rng.random() < 0.97:
            delta = max(1, (600 * rd) // rn)
        # keep the mean moderate for most cases (the loop is O(mean) iterations of O(n) work)
        if rng.random() < 0.6:
            ops.append(f"pois_na {rn} {rd} {en} {ed} {delta}")
        else:
            ops.append(f"pois_p {rn} {rd} {delta} {rng.randint(0, 60)}")
    return ops


STREAMS = {
    "poisson": (stream_poisson, None),
    "xcurve": (stream_xcurve, None),
    "xcost": (stream_xcost, None),
    "fp": (stream_fp, analysis_phase2),
    "edf": (stream_edf, analysis_phase2),
    "fifo": (stream_fifo, analysis_phase2),
    "ros_e19": (stream_ros_e19, analysis_phase2),
    "ros_rr": (stream_ros_rr, analysis_phase2),
    "ros_bw": (stream_ros_bw, analysis_phase2),
    "arrival": (stream_arrival, None),
    "steps": (stream_steps, None),
    "derive": (stream_derive, None),
    "wcet": (stream_wcet, None),
    "demand": (stream_demand, None),
    "supply": (stream_supply, None),
    "fixed_point": (stream_fixed_point, fixed_point_phase2),
}


BUDGET = {
    # stream: (quick, thorough); the cheap streams (microseconds per op on both sides) get more
    "supply": (12000, 200000),
    "fixed_point": (6000, 200000),
    "arrival": (9000, 100000),
    "steps": (9000, 100000),
    "wcet": (9000, 100000),
    "demand": (9000, 100000),
    "derive": (6000, 100000),
    # analyses: a seeded early exit of an offset loop differs on well under 1 % of even the structured
    # task sets (measured: 0.65 % of the near-full-utilisation LP-FP systems), hence the volume
    "fp": (8000, 100000),
    "edf": (8000, 100000),
    "fifo": (5000, 100000),
}


def budget(name, tier):
    q, t = BUDGET.get(name, (3000, 100000))
    return q if tier == "quick" else t
