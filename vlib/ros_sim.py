"""Executable model of the ROS 2 single-threaded executor on a reservation (C04, C05).

Executor semantics (Casini et al. ECRTS'19, Blass et al. RTSS'21): callbacks are
non-preemptive; whenever the executor is idle (and the reservation delivers service) it
serves the highest-priority timer with a pending instance; otherwise the highest-priority
callback of the ready set; the ready set is refreshed only when it is empty (polling point)
and then contains at most one instance of every polled callback that has a pending
instance.  Processor time is delivered by a supply process sigma (list of booleans).
Every non-deterministic choice (release times within the arrival model, budget placement)
is made by the caller from the run's PRNG."""


def make_supply(kind, horizon, rng, mode="random"):
    """budget placement of a reservation over `horizon` slots: kind = ('ded',) | ('psup',Q,P) |
    ('csup',Q,D,P); mode: 'random' placement inside each period's first D slots, 'late'
    (as late as possible), 'worst' (first period early, all later ones late)"""
    while kind[0] == "dflt":
        kind = kind[1]
    if kind[0] == "ded":
        return [True] * horizon
    if kind[0] == "psup":
        Q, P = kind[1], kind[2]
        D = P
    else:
        Q, D, P = kind[1], kind[2], kind[3]
    sigma = [False] * (horizon + P)
    k = 0
    while k * P < horizon:
        if mode == "late" or (mode == "worst" and k > 0):
            slots = range(D - Q, D)
        elif mode == "worst":
            slots = range(0, Q)
        else:
            slots = sorted(rng.sample(range(D), Q))
        for s in slots:
            sigma[k * P + s] = True
        k += 1
    return sigma[:horizon]


def ex_formula(callbacks, a, b, c):
    """pseudo-random execution times between 1 and the WCET, as a function of (callback, start
    slot) — the same formula is evaluated by the Lean driver op `execx`"""
    return lambda i, t: 1 + ((a * i + b * t + c) % callbacks[i]["cost"])


def simulate_executor(callbacks, releases, sigma, chains=None, trace=None, polls=None, ex=None, started=None):
    """callbacks: list of dicts {kind: 'T'|'P', prio: int (smaller = higher), cost: int};
    ex: optional function (callback, start slot) -> execution time of the instance started then
    (default: the WCET `cost`; Spec: lean/RTA/RTA/Spec/Ros2ExecX.lean); started: optional list that
    receives (callback, execution time) for every started instance, in start order;
    releases: list (per callback) of sorted external release times; chains: dict cb -> next cb
    (a completed instance of cb releases an instance of next at its completion time).
    Returns per callback a list of (release, completion) pairs of the instances completed
    within the horizon; for chain members the release recorded is the instance's own release."""
    n = len(callbacks)
    horizon = len(sigma)
    pend = [list(r) for r in releases]      # pending instance release times (FIFO per callback)
    ptr = [0] * n                            # next external release to become visible
    queue = [[] for _ in range(n)]
    done = [[] for _ in range(n)]
    ready = []                               # ready set: callback indices
    running = None
    t = 0
    chains = chains or {}
    while t < horizon:
        for i in range(n):
            while ptr[i] < len(pend[i]) and pend[i][ptr[i]] <= t:
                queue[i].append(pend[i][ptr[i]])
                ptr[i] += 1
        if not sigma[t]:
            t += 1
            continue
        if running is None:
            timers = [i for i in range(n) if callbacks[i]["kind"] == "T" and queue[i]]
            if timers:
                i = min(timers, key=lambda x: callbacks[x]["prio"])
            else:
                if not ready:
                    ready = [i for i in range(n) if callbacks[i]["kind"] == "P" and queue[i]]
                    if polls is not None:
                        polls.append(t)
                if ready:
                    i = min(ready, key=lambda x: callbacks[x]["prio"])
                    ready.remove(i)
                else:
                    i = None
            if i is not None:
                rel = queue[i].pop(0)
                c_act = ex(i, t) if ex is not None else callbacks[i]["cost"]
                if started is not None:
                    started.append((i, c_act))
                running = [i, c_act, rel]
        if running is not None:
            if trace is not None:
                trace.append((t, running[0], running[2]))
            running[1] -= 1
            if running[1] == 0:
                i, _, rel = running
                done[i].append((rel, t + 1))
                if i in chains:
                    queue[chains[i]].append(t + 1)
                running = None
        t += 1
    return done


def simulate_fifo_supply(jobs, sigma):
    """FIFO processing of (release, cost) jobs on the supply process; returns response times"""
    order = sorted(range(len(jobs)), key=lambda k: (jobs[k][0], k))
    rem = [c for _, c in jobs]
    resp = [None] * len(jobs)
    t = 0
    horizon = len(sigma)
    qi = 0
    while t < horizon:
        if sigma[t]:
            while qi < len(order) and rem[order[qi]] == 0:
                qi += 1
            if qi < len(order) and jobs[order[qi]][0] <= t:
                k = order[qi]
                rem[k] -= 1
                if rem[k] == 0:
                    resp[k] = t + 1 - jobs[k][0]
        t += 1
    return resp


def _instance_costs(callbacks, inst, order, started):
    """execution time per instance: the m-th started instance of a callback has the recorded
    time, instances never started keep the WCET"""
    cost = [callbacks[k]["cost"] for k, _ in inst]
    if started:
        seen = {}
        for k, c in started:
            m = seen.get(k, 0)
            seen[k] = m + 1
            if m < len(order[k]):
                cost[order[k][m]] = c
    return cost


def check_timer_legal(callbacks, releases, sigma, trace, i, all_others=False, started=None):
    """executable rendering of `SupplyTimerLegal` (lean/RTA/RTA/Lemmas/TimerSound.lean) for the
    analysed timer `i`: checks a trace [(slot, callback, release of the served instance)] of the
    executor model against the five clauses; returns the list of violated clauses (empty = legal).
    Instances are identified by (callback, release, k-th instance with that release)."""
    if all_others:
        # polling-point callbacks and chains: every other callback interferes
        hp = {k for k in range(len(callbacks)) if k != i}
    else:
        hp = {k for k, c in enumerate(callbacks) if c["kind"] == "T" and c["prio"] < callbacks[i]["prio"] and k != i}
    horizon = len(sigma)
    # instances in release order per callback; the executor serves them FIFO per callback
    inst = []          # (cb, rel)
    for k, rl in enumerate(releases):
        for r in sorted(rl):
            if r < horizon:
                inst.append((k, r))
    # map trace entries to instance indices: per callback, served in FIFO order
    order = {k: [x for x, (kk, _) in enumerate(inst) if kk == k] for k in range(len(callbacks))}
    ptr = {k: 0 for k in range(len(callbacks))}
    svc = [0] * len(inst)
    cost = _instance_costs(callbacks, inst, order, started)
    cur = {}           # callback -> instance currently started
    served = {}
    for (t, k, rel) in trace:
        if k not in cur or svc[cur[k]] >= cost[cur[k]]:
            if ptr[k] >= len(order[k]):
                return ["trace serves an instance that was never released"]
            cur[k] = order[k][ptr[k]]
            ptr[k] += 1
        served[t] = cur[k]
        svc[cur[k]] += 1
    bad = set()
    svc = [0] * len(inst)
    rel_inst = [x for x, (k, _) in enumerate(inst) if k == i or k in hp]
    for t in range(horizon):
        pending = [x for x in range(len(inst)) if inst[x][1] <= t and svc[x] < cost[x]]
        j = served.get(t)
        if j is not None:
            if not (inst[j][1] <= t and svc[j] < cost[j] and sigma[t]):
                bad.add("valid")
            if any(x != j and 0 < svc[x] < cost[x] for x in range(len(inst))):
                bad.add("nonpre")
            if svc[j] == 0:
                kj = inst[j][0]
                if kj != i and kj not in hp and any(x in pending for x in rel_inst):
                    bad.add("prioOther")
                if kj == i:
                    if not all_others and any(inst[x][0] in hp for x in pending):
                        bad.add("extra:timer_priority")   # not part of the Lean Spec (never needed by the proof)
                    if any(inst[x][0] == i and inst[x][1] < inst[j][1] for x in pending):
                        bad.add("prioOwn.fifo")
            svc[j] += 1
        elif sigma[t] and any(x in pending for x in rel_inst):
            bad.add("wc")
    return sorted(bad)


def check_polling_legal(callbacks, releases, sigma, trace, polls, started=None):
    """executable rendering of `PollingExecLegal` (lean/RTA/RTA/Lemmas/RrSound.lean): checks a
    trace of the executor model together with its polling points against every clause;
    returns the list of violated clauses (empty = legal)"""
    horizon = len(sigma)
    ncb = len(callbacks)
    inst = []
    for k, rl in enumerate(releases):
        for r in sorted(rl):
            if r < horizon:
                inst.append((k, r))
    order = {k: [x for x, (kk, _) in enumerate(inst) if kk == k] for k in range(ncb)}
    ptr = {k: 0 for k in range(ncb)}
    cost = _instance_costs(callbacks, inst, order, started)
    acc = [0] * len(inst)
    cur = {}
    served = {}
    for (t, k, rel) in trace:
        if k not in cur or acc[cur[k]] >= cost[cur[k]]:
            if ptr[k] >= len(order[k]):
                return ["trace serves an instance that was never released"]
            cur[k] = order[k][ptr[k]]
            ptr[k] += 1
        served[t] = cur[k]
        acc[cur[k]] += 1
    is_timer = [c["kind"] == "T" for c in callbacks]
    pp = set(polls)
    bad = set()
    svc = [0] * len(inst)
    svc_at = []              # svc vectors per slot (needed for clauses that look back)
    start_at = {}            # instance -> start slot
    for t in range(horizon):
        svc_at.append(list(svc))
        j = served.get(t)
        pending = [x for x in range(len(inst)) if inst[x][1] <= t and svc[x] < cost[x]]
        if t in pp and any(0 < svc[x] < cost[x] for x in range(len(inst))):
            bad.add("ppIdle")
        if j is not None:
            if not (inst[j][1] <= t and svc[j] < cost[j] and sigma[t]):
                bad.add("valid")
            if any(x != j and 0 < svc[x] < cost[x] for x in range(len(inst))):
                bad.add("nonpre")
            if svc[j] == 0:
                start_at[j] = t
                kj = inst[j][0]
                if any(inst[x][0] == kj and svc[x] == 0 and inst[x][1] < inst[j][1] for x in pending):
                    bad.add("fifo")
                if not is_timer[kj]:
                    if any(is_timer[inst[x][0]] for x in pending):
                        bad.add("timersFirst")
                    ps = [q for q in pp if q <= t]
                    if not ps or inst[j][1] > max(ps):
                        bad.add("inWindow")
            svc[j] += 1
        elif sigma[t] and pending:
            bad.add("wc")
    svc_at.append(list(svc))
    pps = sorted(pp)

    def last_pp(t):
        ps = [q for q in pps if q <= t]
        return max(ps) if ps else None
    # once: one instance per polled callback and window
    seen = {}
    for j, t in start_at.items():
        k = inst[j][0]
        if not is_timer[k]:
            key = (k, last_pp(t))
            if key in seen:
                bad.add("once")
            seen[key] = j
    # served: unstarted at a later polling point => another instance of the callback started in between
    for a_i, p in enumerate(pps):
        for p2 in pps[a_i + 1:a_i + 3]:
            for j, (k, r) in enumerate(inst):
                if not is_timer[k] and r <= p and svc_at[p2][j] == 0:
                    if not any(inst[x][0] == k and x != j and p <= u < p2 for x, u in start_at.items()):
                        bad.add("served")
    # prioWin
    for j, t in start_at.items():
        kj = inst[j][0]
        if is_timer[kj]:
            continue
        p = last_pp(t)
        if p is None:
            continue
        for x, (k, r) in enumerate(inst):
            if not is_timer[k] and callbacks[k]["prio"] < callbacks[kj]["prio"] and r <= p and svc_at[p][x] == 0:
                if not any(inst[y][0] == k and p <= u < t for y, u in start_at.items()):
                    bad.add("prioWin")
    return sorted(bad)
