#!/bin/sh
# runs every thorough check (3 at a time), one log line per check in work/thorough.log
cd "$(dirname "$0")/.."
mkdir -p work; rm -f work/thorough.log
printf '%s\n' C08 C09 C10 C11 C12 C13 C14 C16 C06 C03 C01 C02 C17 C19 C07 C18 C04 C05 C15 C20 | \
xargs -P 3 -I{} sh -c 'st=$(date +%s); out=$(timeout 7200 ./check {} --tier thorough 2>&1); rc=$?; en=$(date +%s); echo "{} rc=$rc $((en-st))s $(echo "$out" | grep -E "^(VIOLATION|OK)" | head -1 | cut -c1-140)" >> work/thorough.log; if [ $rc -ne 0 ]; then cp replays/{}_*.json work/ 2>/dev/null; echo "$out" | tail -5 > work/{}_thorough_out.txt; fi'
echo THOROUGH-DONE >> work/thorough.log
