#!/bin/sh
# usage: tools/verify_seed.sh Cxx   (scratch worktree /tmp/mut_Cxx with patch.diff and tests/demo_Cxx.rs)
# Confirms: (1) with the change the crate's own tests pass, (2) the demo fails with the change,
# (3) the demo passes without it.  Leaves the worktree with the change reverted.
set -u
ID="$1"; W=/tmp/mut_$ID
cd "$W" || exit 2
export CARGO_NET_OFFLINE=true
git checkout -q -- src
git apply patch.diff || { echo "patch does not apply"; exit 2; }
mv tests/demo_$ID.rs /tmp/demo_$ID.rs.hold
cargo test --offline 2>&1 | grep -E '^test result|FAILED|failed' | head -5
mv /tmp/demo_$ID.rs.hold tests/demo_$ID.rs
echo "--- demo WITH change:"
cargo test --offline --test demo_$ID 2>&1 | grep -E '^test result' 
git checkout -q -- src
echo "--- demo WITHOUT change:"
cargo test --offline --test demo_$ID 2>&1 | grep -E '^test result'
