#!/bin/sh
# usage: tools/try_patch.sh <patch.diff> [Cxx ...]
# Applies a seeded change to /repo, runs the quick checks (all claimed, or the given ones),
# prints one line per check, and ALWAYS restores /repo afterwards.
set -u
cd "$(dirname "$0")/.."
PATCH="$1"; shift
git -C /repo apply "$PATCH" || { echo "patch does not apply"; exit 2; }
# the evidence files describe runs against /repo itself: keep them out of runs against a patched tree
EVBAK=$(mktemp -d /tmp/evbak.XXXXXX); cp -a evidence/. "$EVBAK"/
trap 'git -C /repo checkout -- . ; rm -rf evidence; mkdir evidence; cp -a "$EVBAK"/. evidence/; rm -rf "$EVBAK"; echo "[/repo restored]"' EXIT
if [ $# -eq 0 ]; then set -- C01 C02 C03 C04 C05 C06 C07 C08 C09 C10 C11 C12 C13 C14 C15 C16 C17 C18 C19 C20; fi
for p in "$@"; do
  out=$(./check "$p" --tier quick 2>&1)
  rc=$?
  v=$(echo "$out" | grep -c '^VIOLATION')
  line=$(echo "$out" | grep -E '^(VIOLATION|OK)' | head -1)
  echo "$p rc=$rc ${line}"
done
