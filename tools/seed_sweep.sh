#!/bin/sh
# usage: tools/seed_sweep.sh "<seeds>"  — runs every quick check with other seeds on the current tree
# (4 properties at a time), logging one line per run to work/sweep.log; restores the seed-1 evidence afterwards
cd "$(dirname "$0")/.."
mkdir -p work
for sd in $1; do
  printf '%s\n' C01 C02 C03 C04 C05 C06 C07 C08 C09 C10 C11 C12 C13 C14 C15 C16 C17 C18 C19 C20 | \
  xargs -P 4 -I{} sh -c 'st=$(date +%s); out=$(./check {} --tier quick --seed '"$sd"' 2>&1); rc=$?; en=$(date +%s); echo "{} seed='"$sd"' rc=$rc $((en-st))s $(echo "$out" | grep -E "^(VIOLATION|OK)" | head -1 | cut -c1-120)" >> work/sweep.log; if [ $rc -ne 0 ]; then cp replays/{}_*.json work/ 2>/dev/null; fi'
done
echo SWEEP-DONE >> work/sweep.log
