#!/bin/sh
# usage: tools/process_seed.sh Cxx "<checks to run>"
# verifies the seeded change in /tmp/mut_Cxx, runs the given quick checks against it (on /repo, restored
# afterwards), stores patch + demo + raw results under /verif/seeded/Cxx/
set -u
ID="$1"; CHECKS="$2"
cd /verif
mkdir -p seeded/$ID
[ -s seeded/$ID/confirm.txt ] || tools/verify_seed.sh $ID > seeded/$ID/confirm.txt 2>&1
cp /tmp/mut_$ID/patch.diff seeded/$ID/patch.diff
cp /tmp/mut_$ID/tests/demo_$ID.rs seeded/$ID/demo_$ID.rs
tools/try_patch.sh /verif/seeded/$ID/patch.diff $CHECKS > seeded/$ID/checks.txt 2>&1
# keep the replay files the checks wrote for this change
for P in $CHECKS; do for f in replays/${P}_cex.json replays/${P}_broken.json; do [ -f "$f" ] && [ "$f" -nt seeded/$ID/patch.diff ] && cp "$f" seeded/$ID/replay_$(basename $f); done; done
cat seeded/$ID/confirm.txt seeded/$ID/checks.txt
