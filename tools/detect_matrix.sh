#!/bin/sh
# usage: tools/detect_matrix.sh "<seed ids>" "<check seeds>"  — for every stored seeded change and every
# VERIF_SEED: apply, run the target check with that seed, restore; prints id, seed, cex|broken|MISSED
cd "$(dirname "$0")/.."
for id in $1; do
  P=$(echo $id | cut -c1-3)
  git -C /repo apply --check /verif/seeded/$id/patch.diff 2>/dev/null || { echo "$id skipped"; continue; }
  EVBAK=$(mktemp -d /tmp/evbak.XXXXXX); cp -a evidence/. "$EVBAK"/
  git -C /repo apply /verif/seeded/$id/patch.diff
  line="$id"
  for sd in $2; do
    out=$(./check $P --tier quick --seed $sd 2>&1 | grep -E '^(VIOLATION|OK)' | head -1)
    case "$out" in
      *no-failing-input-found*) r=broken ;;
      VIOLATION*) r=cex ;;
      *) r=MISSED ;;
    esac
    line="$line $sd:$r"
  done
  git -C /repo checkout -- .
  rm -rf evidence; mkdir evidence; cp -a "$EVBAK"/. evidence/; rm -rf "$EVBAK"
  echo "$line"
done
