#!/usr/bin/env python3
"""usage: tools/seed_meta.py Cxx "<change>" "<needs>" "<caught_by ; separated>" ["<strengthening>"]
writes seeded/Cxx/meta.json from confirm.txt / checks.txt produced by tools/process_seed.sh"""
import json, sys, subprocess, os
sid, change, needs, caught = sys.argv[1:5]
strength = sys.argv[5] if len(sys.argv) > 5 else "none"
d = f"/verif/seeded/{sid}"
conf = [l.rstrip() for l in open(f"{d}/confirm.txt") if l.strip()]
head = subprocess.run(["git", "-C", "/repo", "log", "--oneline", "-1"], capture_output=True, text=True).stdout.split()[0]
meta = {
 "property": sid[:3], "seed": sid, "change": change, "needs_to_manifest": needs,
 "repo_head_when_seeded": f"{head} (after the fix: commits for F1, F5, F2, F3, F9)",
 "confirmed_in_scratch_worktree": {
  "worktree": f"/tmp/mut_{sid} (git worktree of /repo, removed afterwards)",
  "ran": f"tools/verify_seed.sh: cargo test --offline with the change (demo moved aside): 80 unit + 3 doc tests pass; cargo test --test demo_{sid} with the change: fails; without: passes",
  "output": conf},
 "checks_run": "tools/try_patch.sh (git -C /repo apply; ./check <ids> --tier quick; git -C /repo checkout -- .)",
 "checks_output": [l.rstrip() for l in open(f"{d}/checks.txt") if l.strip()] if os.path.exists(f"{d}/checks.txt") else [],
 "caught_by": [c.strip() for c in caught.split(";") if c.strip()],
 "strengthening": strength}
json.dump(meta, open(f"{d}/meta.json", "w"), indent=1)
print("wrote", f"{d}/meta.json")
