#!/bin/sh
# usage: tools/regress_seeds.sh [ids…]   — re-runs the TARGET check of every stored seeded change whose patch still
# applies to /repo (one at a time; /repo restored after each) and prints one line per seed:
#   <id> cex | broken | MISSED | skipped (patch no longer applies)
cd "$(dirname "$0")/.."
IDS="$@"; [ -z "$IDS" ] && IDS=$(ls seeded)
for id in $IDS; do
  P=$(echo $id | cut -c1-3)
  if ! git -C /repo apply --check /verif/seeded/$id/patch.diff 2>/dev/null; then echo "$id skipped"; continue; fi
  out=$(tools/try_patch.sh /verif/seeded/$id/patch.diff $P 2>&1 | grep "^$P rc=")
  case "$out" in
    *no-failing-input-found*) echo "$id broken" ;;
    *VIOLATION*) echo "$id cex" ;;
    *) echo "$id MISSED: $out" ;;
  esac
done
