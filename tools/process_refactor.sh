#!/bin/sh
# usage: tools/process_refactor.sh Rn  — a behaviour-preserving refactoring prepared in the scratch worktree
# /tmp/ref_Rn (patch.diff + tests/equiv_Rn.rs): stores it under /verif/refactors/Rn, runs EVERY quick check
# against it (on /repo, restored afterwards) and records one line per check; none may alarm.
set -u
ID="$1"
cd /verif
mkdir -p refactors/$ID
cp /tmp/ref_$ID/patch.diff refactors/$ID/patch.diff
cp /tmp/ref_$ID/tests/equiv_$ID.rs refactors/$ID/ 2>/dev/null
tools/try_patch.sh /verif/refactors/$ID/patch.diff > refactors/$ID/checks.txt 2>&1
echo "$ID: $(grep -c 'rc=0' refactors/$ID/checks.txt) checks exit 0; alarms: $(grep -v 'rc=0' refactors/$ID/checks.txt | grep -v restored | tr '\n' ';')"
