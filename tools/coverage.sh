#!/bin/sh
# One-off measurement (not a registered check): which lines of /repo/src do the quick-tier
# correspondence streams (+ corpus) execute?  Builds the harness with source-based coverage
# (nightly toolchain, build output under /tmp/cov, removed afterwards) and prints llvm-cov's report.
set -e
cd "$(dirname "$0")/.."
B=$(ls -d /root/.rustup/toolchains/nightly-x86_64-unknown-linux-gnu/lib/rustlib/*/bin | head -1)
mkdir -p /tmp/cov
(cd harness && LLVM_PROFILE_FILE=/tmp/cov/build-%p.profraw CARGO_NET_OFFLINE=true RUSTFLAGS="-C instrument-coverage" CARGO_TARGET_DIR=/tmp/cov/target cargo +nightly build --offline --profile checked >/dev/null 2>&1)
python3 - <<'PY'
import sys,random,os
sys.path.insert(0,'/verif')
from vlib import streams as st, gen
import importlib.machinery, importlib.util
loader = importlib.machinery.SourceFileLoader("chk", "/verif/check")
spec = importlib.util.spec_from_loader("chk", loader); chk = importlib.util.module_from_spec(spec); loader.exec_module(chk)
ops=[]
for sname,(genf,ph2) in st.STREAMS.items():
    rng = random.Random((1 * 1000003) ^ chk.hash_str(sname))
    ops+=[gen.cap_dense(x) for x in genf(rng, st.budget(sname,"quick"))]
for f in os.listdir('/verif/corpus'):
    ops+=[l.strip() for l in open('/verif/corpus/'+f) if l.strip() and not l.startswith('#')]
open('/tmp/cov/ops.txt','w').write("\n".join(ops)+"\n")
PY
cd /tmp/cov && rm -f *.profraw
LLVM_PROFILE_FILE=/tmp/cov/run-%p.profraw VERIF_WATCHDOG_MS=3000 ./target/checked/drive < ops.txt > out.txt 2>/dev/null
$B/llvm-profdata merge -sparse *.profraw -o cov.profdata
$B/llvm-cov report ./target/checked/drive -instr-profile=cov.profdata --ignore-filename-regex='(harness|registry|rustc)'
cd / && rm -rf /tmp/cov
