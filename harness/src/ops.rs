//! Operations of the line protocol, executed against the real crate.

use response_time_analysis::fixed_point::{self, SearchFailure, SearchResult};
use response_time_analysis::time::{Duration, Offset, Service};

use crate::terms::*;

pub fn res_str(r: &SearchResult) -> String {
    match r {
        Ok(d) => format!("ok {}", u64::from(*d)),
        Err(SearchFailure::DivergenceLimitExceeded { offset, limit }) => {
            format!("div {} {}", u64::from(*offset), u64::from(*limit))
        }
        Err(SearchFailure::AssumptionViolated) => "assumption-violated".to_string(),
    }
}

pub fn list_str(v: &[u64]) -> String {
    let s: Vec<String> = v.iter().map(|x| x.to_string()).collect();
    format!("[{}]", s.join(","))
}

fn parse_res(t: &mut Toks) -> Option<SearchResult> {
    match t.next()? {
        "ok" => Some(Ok(Duration::from(t.u64()?))),
        "div" => {
            let o = t.u64()?;
            let l = t.u64()?;
            Some(Err(SearchFailure::DivergenceLimitExceeded {
                offset: Offset::from(o),
                limit: Duration::from(l),
            }))
        }
        _ => None,
    }
}

pub fn eval(toks: &[&str]) -> Option<String> {
    let mut t = Toks::new(toks);
    let op = t.next()?;
    match op {
        "sbf" => {
            let s = parse_supply(&mut t)?;
            let d = t.u64()?;
            Some(u64::from(s.provided_service(Duration::from(d))).to_string())
        }
        "st" => {
            let s = parse_supply(&mut t)?;
            let d = t.u64()?;
            Some(u64::from(s.service_time(Service::from(d))).to_string())
        }
        "sbfs" => {
            let s = parse_supply(&mut t)?;
            let a = t.u64()?;
            let b = t.u64()?;
            let v: Vec<u64> = (a..=b)
                .map(|d| u64::from(s.provided_service(Duration::from(d))))
                .collect();
            Some(list_str(&v))
        }
        "sts" => {
            let s = parse_supply(&mut t)?;
            let a = t.u64()?;
            let b = t.u64()?;
            let v: Vec<u64> = (a..=b)
                .map(|d| u64::from(s.service_time(Service::from(d))))
                .collect();
            Some(list_str(&v))
        }
        "swo" => {
            let s = parse_supply(&mut t)?;
            let off = t.u64()?;
            let lim = t.u64()?;
            let tab = parse_tab(&mut t)?;
            let w = |x: Duration| tab_eval(&tab, x);
            let r = fixed_point::search_with_offset(&s, Offset::from(off), Duration::from(lim), &w);
            Some(res_str(&r))
        }
        "search" => {
            let s = parse_supply(&mut t)?;
            let lim = t.u64()?;
            let tab = parse_tab(&mut t)?;
            let r = fixed_point::search(&s, Duration::from(lim), |x| tab_eval(&tab, x));
            Some(res_str(&r))
        }
        "maxrt" => {
            let n = t.usize()?;
            let mut v = vec![];
            for _ in 0..n {
                v.push(parse_res(&mut t)?);
            }
            Some(res_str(&fixed_point::max_response_time(v.into_iter())))
        }
        _ => None,
    }
}
