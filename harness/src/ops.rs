//! Operations of the line protocol, executed against the real crate.

use response_time_analysis::arrival::{self, ArrivalBound};
use response_time_analysis::demand::{self, AggregateRequestBound, RequestBound};
use response_time_analysis::fixed_point::{self, SearchFailure, SearchResult};
use response_time_analysis::supply::SupplyBound;
use response_time_analysis::wcet::JobCostModel;
use response_time_analysis::time::{Duration, Offset, Service};

use crate::terms::*;

pub fn res_str(r: &SearchResult) -> String {
    match r {
        Ok(d) => format!("ok {}", u64::from(*d)),
        Err(SearchFailure::DivergenceLimitExceeded { offset, limit }) => {
            format!("div {} {}", u64::from(*offset), u64::from(*limit))
        }
        Err(SearchFailure::AssumptionViolated) => "assumption-violated".to_string(),
    }
}

pub fn list_str(v: &[u64]) -> String {
    let s: Vec<String> = v.iter().map(|x| x.to_string()).collect();
    format!("[{}]", s.join(","))
}

fn parse_res(t: &mut Toks) -> Option<SearchResult> {
    match t.next()? {
        "ok" => Some(Ok(Duration::from(t.u64()?))),
        "div" => {
            let o = t.u64()?;
            let l = t.u64()?;
            Some(Err(SearchFailure::DivergenceLimitExceeded {
                offset: Offset::from(o),
                limit: Duration::from(l),
            }))
        }
        _ => None,
    }
}

pub fn eval(toks: &[&str]) -> Option<String> {
    let mut t = Toks::new(toks);
    let op = t.next()?;
    match op {
        "sbf" => {
            let s = parse_supply(&mut t)?;
            let d = t.u64()?;
            Some(u64::from(s.provided_service(Duration::from(d))).to_string())
        }
        "st" => {
            let s = parse_supply(&mut t)?;
            let d = t.u64()?;
            Some(u64::from(s.service_time(Service::from(d))).to_string())
        }
        "sbfs" => {
            let s = parse_supply(&mut t)?;
            let a = t.u64()?;
            let b = t.u64()?;
            let v: Vec<u64> = (a..=b)
                .map(|d| u64::from(s.provided_service(Duration::from(d))))
                .collect();
            Some(list_str(&v))
        }
        "sts" => {
            let s = parse_supply(&mut t)?;
            let a = t.u64()?;
            let b = t.u64()?;
            let v: Vec<u64> = (a..=b)
                .map(|d| u64::from(s.service_time(Service::from(d))))
                .collect();
            Some(list_str(&v))
        }
        "swo" => {
            let s = parse_supply(&mut t)?;
            let off = t.u64()?;
            let lim = t.u64()?;
            let tab = parse_tab(&mut t)?;
            let w = |x: Duration| tab_eval(&tab, x);
            let r = fixed_point::search_with_offset(&s, Offset::from(off), Duration::from(lim), &w);
            Some(res_str(&r))
        }
        "search" => {
            let s = parse_supply(&mut t)?;
            let lim = t.u64()?;
            let tab = parse_tab(&mut t)?;
            let r = fixed_point::search(&s, Duration::from(lim), |x| tab_eval(&tab, x));
            Some(res_str(&r))
        }
        "na" => {
            let a = parse_arr(&mut t)?;
            let d = t.u64()?;
            Some(a.number_arrivals(Duration::from(d)).to_string())
        }
        "nas" => {
            let a = parse_arr(&mut t)?;
            let lo = t.u64()?;
            let hi = t.u64()?;
            let v: Vec<u64> = (lo..=hi)
                .map(|d| a.number_arrivals(Duration::from(d)) as u64)
                .collect();
            Some(list_str(&v))
        }
        "steps" => {
            let a = parse_arr(&mut t)?;
            let h = t.u64()?;
            let v: Vec<u64> = a
                .steps_iter()
                .take_while(|x| *x <= Duration::from(h))
                .map(u64::from)
                .collect();
            Some(list_str(&v))
        }
        // the trait DEFAULT methods, reached through wrappers that do not override them
        "dsteps" => {
            let a = ArrViaDefault(parse_arr(&mut t)?);
            let h = t.u64()?;
            let v: Vec<u64> = a
                .steps_iter()
                .take_while(|x| *x <= Duration::from(h))
                .map(u64::from)
                .collect();
            Some(list_str(&v))
        }
        "dleast" => {
            let c = CostViaDefault(parse_cost(&mut t)?);
            let n = t.usize()?;
            Some(format!(
                "{} {}",
                u64::from(c.least_wcet(n)),
                u64::from(c.cost_of_jobs(n))
            ))
        }
        "dneed" => {
            let r = RbViaDefault(parse_rb(&mut t)?);
            let d = t.u64()?;
            Some(u64::from(r.service_needed(Duration::from(d))).to_string())
        }
        "bsteps" => {
            let a = parse_arr(&mut t)?;
            let h = t.u64()?;
            let v: Vec<u64> = a
                .brute_force_steps_iter()
                .take_while(|x| *x <= Duration::from(h))
                .map(u64::from)
                .collect();
            Some(list_str(&v))
        }
        "dmin" => {
            let c = parse_curve(&mut t)?;
            Some(list_str(&curve_dmin(&c)))
        }
        "mind" => {
            let n = t.usize()?;
            let c = parse_curve(&mut t)?;
            Some(u64::from(c.min_distance(n)).to_string())
        }
        "pfx" => {
            let p = parse_prefix(&mut t)?;
            Some(prefix_repr(&p))
        }
        "dmi" => {
            let k = t.usize()?;
            let a = parse_arr(&mut t)?;
            let v: Vec<String> = arrival::delta_min_iter(&a)
                .take(k)
                .map(|(n, d)| format!("{}:{}", n, u64::from(d)))
                .collect();
            Some(format!("[{}]", v.join(",")))
        }
        "coj" => {
            let c = parse_cost(&mut t)?;
            let n = t.usize()?;
            Some(u64::from(c.cost_of_jobs(n)).to_string())
        }
        "cojs" => {
            let c = parse_cost(&mut t)?;
            let lo = t.usize()?;
            let hi = t.usize()?;
            let v: Vec<u64> = (lo..=hi).map(|n| u64::from(c.cost_of_jobs(n))).collect();
            Some(list_str(&v))
        }
        "items" => {
            let c = parse_cost(&mut t)?;
            let n = t.usize()?;
            let v: Vec<u64> = c.job_cost_iter().take(n).map(u64::from).collect();
            Some(list_str(&v))
        }
        "least" => {
            let c = parse_cost(&mut t)?;
            let n = t.usize()?;
            Some(u64::from(c.least_wcet(n)).to_string())
        }
        "ccvec" => {
            let c = parse_cost_curve(&mut t)?;
            Some(list_str(&cost_curve_vec(&c)))
        }
        "need" => {
            let r = parse_rb(&mut t)?;
            let d = t.u64()?;
            Some(u64::from(r.service_needed(Duration::from(d))).to_string())
        }
        "needs" => {
            let r = parse_rb(&mut t)?;
            let lo = t.u64()?;
            let hi = t.u64()?;
            let v: Vec<u64> = (lo..=hi)
                .map(|d| u64::from(r.service_needed(Duration::from(d))))
                .collect();
            Some(list_str(&v))
        }
        "lw" => {
            let r = parse_rb(&mut t)?;
            let d = t.u64()?;
            Some(u64::from(r.least_wcet_in_interval(Duration::from(d))).to_string())
        }
        "rsteps" => {
            let r = parse_rb(&mut t)?;
            let h = t.u64()?;
            let v: Vec<u64> = r
                .steps_iter()
                .take_while(|x| *x <= Duration::from(h))
                .map(u64::from)
                .collect();
            Some(list_str(&v))
        }
        "jc" => {
            let r = parse_rb(&mut t)?;
            let d = t.u64()?;
            let mut v: Vec<u64> = r.job_cost_iter(Duration::from(d)).map(u64::from).collect();
            v.sort_by(|a, b| b.cmp(a));
            Some(list_str(&v))
        }
        "nbn" => {
            let r = parse_rb(&mut t)?;
            let d = t.u64()?;
            let n = t.usize()?;
            Some(u64::from(r.service_needed_by_n_jobs(Duration::from(d), n)).to_string())
        }
        "nbnc" => {
            let r = parse_rb_any(&mut t)?;
            let d = t.u64()?;
            let n = t.usize()?;
            match r {
                Rb::Agg(a) => Some(
                    u64::from(a.service_needed_by_n_jobs_per_component(Duration::from(d), n))
                        .to_string(),
                ),
                Rb::Plain(p) => {
                    Some(u64::from(p.service_needed_by_n_jobs(Duration::from(d), n)).to_string())
                }
            }
        }
        "soff" => {
            let r = parse_rb(&mut t)?;
            let l = t.u64()?;
            let v: Vec<u64> = demand::step_offsets(&r)
                .take_while(|a| *a < Offset::from(l))
                .map(u64::from)
                .collect();
            Some(list_str(&v))
        }
        "xops" => {
            // history of queries on clones of ONE ExtrapolatingCurve sharing the cache
            let d = t.list_u64()?;
            let m = t.usize()?;
            let base = arrival::ExtrapolatingCurve::new(arrival::Curve::new(durs(&d)));
            let clones: Vec<arrival::ExtrapolatingCurve> = (0..3).map(|_| base.clone()).collect();
            let mut iters: Vec<Box<dyn Iterator<Item = Duration> + '_>> = vec![];
            let mut outs: Vec<String> = vec![];
            for k in 0..m {
                let c = &clones[k % 3];
                match t.next()? {
                    "na" => {
                        let delta = t.u64()?;
                        outs.push(c.number_arrivals(Duration::from(delta)).to_string());
                    }
                    "it" => {
                        iters.push(c.steps_iter());
                        outs.push("-".to_string());
                    }
                    "nx" => {
                        let i = t.usize()?;
                        if i < iters.len() {
                            outs.push(u64::from(iters[i].next()?).to_string());
                        } else {
                            outs.push("-".to_string());
                        }
                    }
                    _ => return None,
                }
            }
            Some(format!("[{}]", outs.join(",")))
        }
        "xcops" => {
            // history of queries on clones of ONE wcet::ExtrapolatingCurve sharing the cache
            let w = t.list_u64()?;
            let m = t.usize()?;
            let base = response_time_analysis::wcet::ExtrapolatingCurve::new(
                response_time_analysis::wcet::Curve::new(svcs(&w)),
            );
            let clones: Vec<response_time_analysis::wcet::ExtrapolatingCurve> =
                (0..3).map(|_| base.clone()).collect();
            let mut outs: Vec<u64> = vec![];
            for k in 0..m {
                let c = &clones[k % 3];
                match t.next()? {
                    "coj" => {
                        let n = t.usize()?;
                        outs.push(u64::from(c.cost_of_jobs(n)));
                    }
                    "lw" => {
                        let n = t.usize()?;
                        outs.push(u64::from(c.least_wcet(n)));
                    }
                    _ => return None,
                }
            }
            Some(list_str(&outs))
        }
        "pois_na" => {
            let rn = t.u64()?;
            let rd = t.u64()?;
            let en = t.u64()?;
            let ed = t.u64()?;
            let delta = t.u64()?;
            let p = arrival::ApproximatedPoisson::new(rn as f64 / rd as f64, en as f64 / ed as f64);
            Some(p.number_arrivals(Duration::from(delta)).to_string())
        }
        "pois_p" => {
            let rn = t.u64()?;
            let rd = t.u64()?;
            let delta = t.u64()?;
            let n = t.usize()?;
            let p = arrival::Poisson {
                rate: rn as f64 / rd as f64,
            };
            Some(p.arrival_probability(Duration::from(delta), n).to_bits().to_string())
        }
        "maxrt" => {
            let n = t.usize()?;
            let mut v = vec![];
            for _ in 0..n {
                v.push(parse_res(&mut t)?);
            }
            Some(res_str(&fixed_point::max_response_time(v.into_iter())))
        }
        other => crate::analyses::eval(other, &mut t),
    }
}
