//! Parsers that turn protocol terms into REAL objects of the crate under test.

use std::rc::Rc;

use response_time_analysis::arrival::{
    self, ArrivalBound, ArrivalCurvePrefix, Propagated, Sporadic,
};
use response_time_analysis::demand::{self, AggregateRequestBound, RequestBound};
use response_time_analysis::supply::{self, SupplyBound};
use response_time_analysis::time::{Duration, Offset, Service};
use response_time_analysis::wcet::{self, JobCostModel};

pub struct Toks<'a> {
    t: &'a [&'a str],
    i: usize,
}

impl<'a> Toks<'a> {
    pub fn new(t: &'a [&'a str]) -> Self {
        Toks { t, i: 0 }
    }
    pub fn next(&mut self) -> Option<&'a str> {
        let r = self.t.get(self.i).copied();
        self.i += 1;
        r
    }
    pub fn peek(&self) -> Option<&'a str> {
        self.t.get(self.i).copied()
    }
    pub fn u64(&mut self) -> Option<u64> {
        self.next()?.parse().ok()
    }
    pub fn usize(&mut self) -> Option<usize> {
        self.next()?.parse().ok()
    }
    pub fn f64(&mut self) -> Option<f64> {
        self.next()?.parse().ok()
    }
    pub fn expect(&mut self, s: &str) -> Option<()> {
        if self.next()? == s {
            Some(())
        } else {
            None
        }
    }
    pub fn list_u64(&mut self) -> Option<Vec<u64>> {
        let n = self.usize()?;
        let mut v = Vec::with_capacity(n);
        for _ in 0..n {
            v.push(self.u64()?);
        }
        Some(v)
    }
    pub fn done(&self) -> bool {
        self.i >= self.t.len()
    }
}

// ---------------------------------------------------------------------------
// supplies

/// A supply that forwards `provided_service` only, so that the trait's DEFAULT
/// `service_time` implementation runs.
pub struct ViaDefault(pub Rc<dyn SupplyBound>);

impl SupplyBound for ViaDefault {
    fn provided_service(&self, delta: Duration) -> Service {
        self.0.provided_service(delta)
    }
}

/// An arrival bound that forwards `number_arrivals` only, so that the trait's DEFAULT
/// `steps_iter` (brute force) runs.
pub struct ArrViaDefault(pub Rc<dyn ArrivalBound>);

impl ArrivalBound for ArrViaDefault {
    fn number_arrivals(&self, delta: Duration) -> usize {
        self.0.number_arrivals(delta)
    }
    fn clone_with_jitter(&self, jitter: Duration) -> Box<dyn ArrivalBound> {
        self.0.clone_with_jitter(jitter)
    }
}

/// A cost model that forwards `job_cost_iter` only: DEFAULT `cost_of_jobs` and `least_wcet`.
pub struct CostViaDefault(pub Rc<dyn JobCostModel>);

impl JobCostModel for CostViaDefault {
    fn job_cost_iter<'a>(&'a self) -> Box<dyn Iterator<Item = Service> + 'a> {
        self.0.job_cost_iter()
    }
}

/// A request bound that does not override `service_needed`: DEFAULT = sum of `job_cost_iter`.
pub struct RbViaDefault(pub Rc<dyn RequestBound>);

impl RequestBound for RbViaDefault {
    fn least_wcet_in_interval(&self, delta: Duration) -> Service {
        self.0.least_wcet_in_interval(delta)
    }
    fn steps_iter<'a>(&'a self) -> Box<dyn Iterator<Item = Duration> + 'a> {
        self.0.steps_iter()
    }
    fn job_cost_iter<'a>(&'a self, delta: Duration) -> Box<dyn Iterator<Item = Service> + 'a> {
        self.0.job_cost_iter(delta)
    }
}

pub fn parse_supply(t: &mut Toks) -> Option<Rc<dyn SupplyBound>> {
    match t.next()? {
        "ded" => Some(Rc::new(supply::Dedicated::new())),
        "psup" => {
            let q = t.u64()?;
            let p = t.u64()?;
            Some(Rc::new(supply::Periodic::new(
                Service::from(q),
                Duration::from(p),
            )))
        }
        "csup" => {
            let q = t.u64()?;
            let d = t.u64()?;
            let p = t.u64()?;
            Some(Rc::new(supply::Constrained::new(
                Service::from(q),
                Duration::from(d),
                Duration::from(p),
            )))
        }
        "dflt" => {
            let inner = parse_supply(t)?;
            Some(Rc::new(ViaDefault(inner)))
        }
        _ => None,
    }
}

/// step-shaped monotone workload: `tab n x1 v1 … xn vn`, w(x) = sum of v_i with x_i <= x
pub fn parse_tab(t: &mut Toks) -> Option<Vec<(u64, u64)>> {
    t.expect("tab")?;
    let n = t.usize()?;
    let mut v = Vec::with_capacity(n);
    for _ in 0..n {
        let x = t.u64()?;
        let val = t.u64()?;
        v.push((x, val));
    }
    Some(v)
}

pub fn tab_eval(tab: &[(u64, u64)], x: Duration) -> Service {
    let x: u64 = x.into();
    Service::from(
        tab.iter()
            .map(|(t, v)| if *t <= x { *v } else { 0 })
            .sum::<u64>(),
    )
}

// ---------------------------------------------------------------------------
// arrival models

pub type DynArr = Rc<dyn ArrivalBound>;

/// `[T]` is unsized, so the slice implementation is reached through this wrapper.
pub struct SliceOf(pub Vec<DynArr>);

impl ArrivalBound for SliceOf {
    fn number_arrivals(&self, delta: Duration) -> usize {
        self.0[..].number_arrivals(delta)
    }
    fn steps_iter<'a>(&'a self) -> Box<dyn Iterator<Item = Duration> + 'a> {
        self.0[..].steps_iter()
    }
    fn clone_with_jitter(&self, jitter: Duration) -> Box<dyn ArrivalBound> {
        self.0[..].clone_with_jitter(jitter)
    }
}

pub fn durs(v: &[u64]) -> Vec<Duration> {
    v.iter().map(|x| Duration::from(*x)).collect()
}

/// Extract the private delta-min vector through the public `Debug` impl.
pub fn curve_dmin(c: &arrival::Curve) -> Vec<u64> {
    let s = format!("{:?}", c);
    nums_after_val(&s)
}

pub fn nums_after_val(s: &str) -> Vec<u64> {
    // Debug output looks like `Curve { min_distance: [Duration { val: 5 }, …] }`
    let mut out = vec![];
    let mut rest = s;
    while let Some(pos) = rest.find("val: ") {
        rest = &rest[pos + 5..];
        let end = rest
            .find(|c: char| !c.is_ascii_digit())
            .unwrap_or(rest.len());
        out.push(rest[..end].parse().unwrap());
        rest = &rest[end..];
    }
    out
}

/// terms that denote a concrete `arrival::Curve`
pub fn parse_curve(t: &mut Toks) -> Option<arrival::Curve> {
    match t.next()? {
        "cur" => {
            let d = t.list_u64()?;
            Some(arrival::Curve::new(durs(&d)))
        }
        "c_it" => {
            let d = t.list_u64()?;
            Some(d.into_iter().map(Duration::from).collect())
        }
        "c_ab" => {
            let n = t.usize()?;
            let a = parse_arr(t)?;
            Some(arrival::Curve::from_arrival_bound(&a, n))
        }
        "c_abu" => {
            let h = t.u64()?;
            let a = parse_arr(t)?;
            Some(arrival::Curve::from_arrival_bound_until(
                &a,
                Duration::from(h),
            ))
        }
        "c_per" => {
            let p = t.u64()?;
            Some(arrival::Curve::from(arrival::Periodic::new(Duration::from(
                p,
            ))))
        }
        "c_spo" => {
            let p = t.u64()?;
            let j = t.u64()?;
            Some(arrival::Curve::from(Sporadic::new(
                Duration::from(p),
                Duration::from(j),
            )))
        }
        "c_pre" => {
            let p = parse_prefix(t)?;
            if t.peek() == Some("byval") {
                t.next();
                Some(arrival::Curve::from(p))
            } else {
                Some(arrival::Curve::from(&p))
            }
        }
        "c_tr" => {
            let p = t.usize()?;
            let tr = t.list_u64()?;
            Some(arrival::Curve::from_trace(
                tr.into_iter().map(Offset::from),
                p,
            ))
        }
        "c_ext" => {
            let h = t.u64()?;
            let mut c = parse_curve(t)?;
            c.extrapolate(Duration::from(h));
            Some(c)
        }
        "c_exs" => {
            let n = t.usize()?;
            let mut c = parse_curve(t)?;
            c.extrapolate_steps(n);
            Some(c)
        }
        "c_exb" => {
            let delta = t.u64()?;
            let njobs = t.usize()?;
            let mut c = parse_curve(t)?;
            c.extrapolate_with_bound((Duration::from(delta), njobs));
            Some(c)
        }
        _ => None,
    }
}

pub fn parse_prefix_args(t: &mut Toks) -> Option<ArrivalCurvePrefix> {
    let h = t.u64()?;
    let n = t.usize()?;
    let mut steps = Vec::with_capacity(n);
    for _ in 0..n {
        let d = t.u64()?;
        let k = t.usize()?;
        steps.push((Duration::from(d), k));
    }
    Some(ArrivalCurvePrefix::new(Duration::from(h), steps))
}

/// terms that denote a concrete `ArrivalCurvePrefix`
pub fn parse_prefix(t: &mut Toks) -> Option<ArrivalCurvePrefix> {
    match t.next()? {
        "pre" => parse_prefix_args(t),
        "p_abu" => {
            let h = t.u64()?;
            let a = parse_arr(t)?;
            Some(ArrivalCurvePrefix::from_arrival_bound_until(
                &a,
                Duration::from(h),
            ))
        }
        _ => None,
    }
}

pub fn prefix_repr(p: &ArrivalCurvePrefix) -> String {
    // Debug: ArrivalCurvePrefix { horizon: Duration { val: 10 }, steps: [(Duration { val: 1 }, 1), …] }
    let s = format!("{:?}", p);
    // horizon
    let hv = nums_after_val(&s);
    let horizon = hv[0];
    // steps: pairs (val, n)
    let mut steps = vec![];
    if let Some(pos) = s.find("steps: [") {
        let mut rest = &s[pos..];
        while let Some(p0) = rest.find("val: ") {
            rest = &rest[p0 + 5..];
            let end = rest.find(|c: char| !c.is_ascii_digit()).unwrap();
            let d: u64 = rest[..end].parse().unwrap();
            rest = &rest[end..];
            let p1 = rest.find("}, ").unwrap();
            rest = &rest[p1 + 3..];
            let end = rest.find(|c: char| !c.is_ascii_digit()).unwrap();
            let n: u64 = rest[..end].parse().unwrap();
            rest = &rest[end..];
            steps.push(format!("{}:{}", d, n));
        }
    }
    format!("h={} [{}]", horizon, steps.join(","))
}

pub fn parse_arr(t: &mut Toks) -> Option<DynArr> {
    match t.peek()? {
        "never" => {
            t.next();
            Some(Rc::new(arrival::Never {}))
        }
        "per" => {
            t.next();
            let p = t.u64()?;
            Some(Rc::new(arrival::Periodic::new(Duration::from(p))))
        }
        "spo" => {
            t.next();
            let p = t.u64()?;
            let j = t.u64()?;
            Some(Rc::new(Sporadic::new(Duration::from(p), Duration::from(j))))
        }
        "xcur" => {
            t.next();
            let d = t.list_u64()?;
            Some(Rc::new(arrival::ExtrapolatingCurve::new(
                arrival::Curve::new(durs(&d)),
            )))
        }
        "xc" => {
            // extrapolating wrapper around any curve term
            t.next();
            let c = parse_curve(t)?;
            Some(Rc::new(arrival::ExtrapolatingCurve::new(c)))
        }
        "pre" | "p_abu" => Some(Rc::new(parse_prefix(t)?)),
        "prop" => {
            t.next();
            let j = t.u64()?;
            let a = parse_arr(t)?;
            Some(Rc::new(Propagated::with_jitter(&a, Duration::from(j))))
        }
        "agg" => {
            t.next();
            let n = t.usize()?;
            let mut v: Vec<DynArr> = Vec::with_capacity(n);
            for _ in 0..n {
                v.push(parse_arr(t)?);
            }
            Some(Rc::new(v))
        }
        "sli" => {
            t.next();
            let n = t.usize()?;
            let mut v: Vec<DynArr> = Vec::with_capacity(n);
            for _ in 0..n {
                v.push(parse_arr(t)?);
            }
            Some(Rc::new(SliceOf(v)))
        }
        "sum" => {
            t.next();
            let a = parse_arr(t)?;
            let b = parse_arr(t)?;
            Some(Rc::new(arrival::sum_of(a, b)))
        }
        "wj" => {
            t.next();
            let j = t.u64()?;
            let a = parse_arr(t)?;
            let b: Box<dyn ArrivalBound> = a.clone_with_jitter(Duration::from(j));
            Some(Rc::from(b))
        }
        "box" => {
            t.next();
            let a = parse_arr(t)?;
            let b: Box<DynArr> = Box::new(a);
            Some(Rc::new(b))
        }
        _ => {
            // any curve term
            let c = parse_curve(t)?;
            Some(Rc::new(c))
        }
    }
}

// ---------------------------------------------------------------------------
// cost models

pub type DynCost = Rc<dyn JobCostModel>;

pub fn svcs(v: &[u64]) -> Vec<Service> {
    v.iter().map(|x| Service::from(*x)).collect()
}

pub fn parse_cost_curve(t: &mut Toks) -> Option<wcet::Curve> {
    match t.next()? {
        "cc" => {
            let w = t.list_u64()?;
            Some(wcet::Curve::new(svcs(&w)))
        }
        "cc_it" => {
            let w = t.list_u64()?;
            Some(w.into_iter().map(Service::from).collect())
        }
        "cc_tr" => {
            let maxn = t.usize()?;
            let w = t.list_u64()?;
            Some(wcet::Curve::from_trace(
                w.into_iter().map(Service::from),
                maxn,
            ))
        }
        "cc_ext" => {
            let n = t.usize()?;
            let mut c = parse_cost_curve(t)?;
            c.extrapolate(n);
            Some(c)
        }
        _ => None,
    }
}

pub fn cost_curve_vec(c: &wcet::Curve) -> Vec<u64> {
    nums_after_val(&format!("{:?}", c))
}

pub fn parse_cost(t: &mut Toks) -> Option<DynCost> {
    match t.peek()? {
        "sc" => {
            t.next();
            let c = t.u64()?;
            Some(Rc::new(wcet::Scalar::new(Service::from(c))))
        }
        "mf" => {
            t.next();
            let c = t.list_u64()?;
            Some(Rc::new(wcet::Multiframe::new(svcs(&c))))
        }
        "xcc" => {
            t.next();
            let c = parse_cost_curve(t)?;
            Some(Rc::new(wcet::ExtrapolatingCurve::new(c)))
        }
        "cbox" => {
            t.next();
            let c = parse_cost(t)?;
            let b: Box<DynCost> = Box::new(c);
            Some(Rc::new(b))
        }
        _ => {
            let c = parse_cost_curve(t)?;
            Some(Rc::new(c))
        }
    }
}

// ---------------------------------------------------------------------------
// request bounds

pub trait AggRB: AggregateRequestBound {}
impl<T: AggregateRequestBound> AggRB for T {}

pub type DynRB = Rc<dyn RequestBound>;

/// `demand::Slice` borrows; this wrapper owns the vector and delegates to `Slice::of`.
pub struct RbSlice(pub Vec<DynRB>);

impl RequestBound for RbSlice {
    fn service_needed(&self, delta: Duration) -> Service {
        demand::Slice::of(&self.0[..]).service_needed(delta)
    }
    fn service_needed_by_n_jobs(&self, delta: Duration, max_jobs: usize) -> Service {
        demand::Slice::of(&self.0[..]).service_needed_by_n_jobs(delta, max_jobs)
    }
    fn least_wcet_in_interval(&self, delta: Duration) -> Service {
        demand::Slice::of(&self.0[..]).least_wcet_in_interval(delta)
    }
    fn steps_iter<'a>(&'a self) -> Box<dyn Iterator<Item = Duration> + 'a> {
        // Slice::steps_iter borrows the temporary Slice; collect lazily is impossible,
        // so re-implement the borrow by leaking a Slice with the same lifetime as self.
        let s: Box<demand::Slice<'a, DynRB>> = Box::new(demand::Slice::of(&self.0[..]));
        let s: &'a demand::Slice<'a, DynRB> = Box::leak(s);
        s.steps_iter()
    }
    fn job_cost_iter<'a>(&'a self, delta: Duration) -> Box<dyn Iterator<Item = Service> + 'a> {
        let s: Box<demand::Slice<'a, DynRB>> = Box::new(demand::Slice::of(&self.0[..]));
        let s: &'a demand::Slice<'a, DynRB> = Box::leak(s);
        s.job_cost_iter(delta)
    }
}

impl AggregateRequestBound for RbSlice {
    fn service_needed_by_n_jobs_per_component(&self, delta: Duration, max_jobs: usize) -> Service {
        demand::Slice::of(&self.0[..]).service_needed_by_n_jobs_per_component(delta, max_jobs)
    }
}

pub enum Rb {
    Plain(DynRB),
    Agg(Rc<dyn AggregateRequestBound>),
}

impl Rb {
    pub fn as_rb(&self) -> DynRB {
        match self {
            Rb::Plain(r) => r.clone(),
            Rb::Agg(a) => Rc::new(a.clone()),
        }
    }
}

pub fn parse_rb_any(t: &mut Toks) -> Option<Rb> {
    match t.next()? {
        "rbf" => {
            let a = parse_arr(t)?;
            let c = parse_cost(t)?;
            Some(Rb::Plain(Rc::new(demand::RBF::new(a, c))))
        }
        "ragg" => {
            let n = t.usize()?;
            let mut v: Vec<DynRB> = Vec::with_capacity(n);
            for _ in 0..n {
                v.push(parse_rb(t)?);
            }
            Some(Rb::Agg(Rc::new(demand::Aggregate::new(v))))
        }
        "rsli" => {
            let n = t.usize()?;
            let mut v: Vec<DynRB> = Vec::with_capacity(n);
            for _ in 0..n {
                v.push(parse_rb(t)?);
            }
            Some(Rb::Agg(Rc::new(RbSlice(v))))
        }
        "rbox" => match parse_rb_any(t)? {
            Rb::Plain(r) => {
                let b: Box<DynRB> = Box::new(r);
                Some(Rb::Plain(Rc::new(b)))
            }
            Rb::Agg(a) => {
                let b: Box<Rc<dyn AggregateRequestBound>> = Box::new(a);
                Some(Rb::Agg(Rc::new(b)))
            }
        },
        _ => None,
    }
}

pub fn parse_rb(t: &mut Toks) -> Option<DynRB> {
    Some(parse_rb_any(t)?.as_rb())
}
