//! Analysis operations of the line protocol.

use std::rc::Rc;

use response_time_analysis::arrival::ArrivalBound;
use response_time_analysis::demand::RequestBound;
use response_time_analysis::time::{Duration, Service};
use response_time_analysis::wcet::{self, JobCostModel};
use response_time_analysis::{edf, fifo, fixed_priority as fp, ros2};

use crate::ops::res_str;
use crate::terms::*;

fn rb_list(t: &mut Toks) -> Option<Vec<DynRB>> {
    let n = t.usize()?;
    let mut v = Vec::with_capacity(n);
    for _ in 0..n {
        v.push(parse_rb(t)?);
    }
    Some(v)
}

fn parse_kind(t: &mut Toks) -> Option<ros2::rr::CallbackType> {
    use ros2::rr::CallbackType::*;
    match t.next()? {
        "T" => Some(Timer),
        "E" => Some(EventSource),
        "U" => Some(PolledUnknownPrio),
        "P" => Some(Polled(t.u64()? as i32)),
        _ => None,
    }
}

struct CbSpec {
    rtb: u64,
    arr: DynArr,
    cost: DynCost,
    kind: ros2::rr::CallbackType,
}

fn parse_workload(t: &mut Toks) -> Option<(Vec<CbSpec>, Vec<usize>)> {
    let n = t.usize()?;
    let mut wl = Vec::with_capacity(n);
    for _ in 0..n {
        let rtb = t.u64()?;
        let arr = parse_arr(t)?;
        let cost = parse_cost(t)?;
        let kind = parse_kind(t)?;
        wl.push(CbSpec {
            rtb,
            arr,
            cost,
            kind,
        });
    }
    let m = t.usize()?;
    let mut sub = Vec::with_capacity(m);
    for _ in 0..m {
        sub.push(t.usize()?);
    }
    Some((wl, sub))
}

pub fn eval(op: &str, t: &mut Toks) -> Option<String> {
    match op {
        "fifo" => {
            let r = parse_rb(t)?;
            let lim = t.u64()?;
            Some(res_str(&fifo::dedicated_uniproc_rta(
                &r,
                Duration::from(lim),
            )))
        }
        "fp_p" => {
            let tua = parse_rb(t)?;
            let others = rb_list(t)?;
            let lim = t.u64()?;
            Some(res_str(&fp::fully_preemptive::dedicated_uniproc_rta(
                &*tua,
                &others,
                Duration::from(lim),
            )))
        }
        "fp_np" => {
            let a = parse_arr(t)?;
            let c = t.u64()?;
            let b = t.u64()?;
            let others = rb_list(t)?;
            let lim = t.u64()?;
            let tua = fp::fully_nonpreemptive::TaskUnderAnalysis {
                wcet: wcet::Scalar::new(Service::from(c)),
                arrivals: &*a,
                blocking_bound: Service::from(b),
            };
            Some(res_str(&fp::fully_nonpreemptive::dedicated_uniproc_rta(
                &tua,
                &others,
                Duration::from(lim),
            )))
        }
        "fp_lp" => {
            let a = parse_arr(t)?;
            let c = t.u64()?;
            let last = t.u64()?;
            let b = t.u64()?;
            let others = rb_list(t)?;
            let lim = t.u64()?;
            let tua = fp::limited_preemptive::TaskUnderAnalysis {
                wcet: wcet::Scalar::new(Service::from(c)),
                arrivals: &*a,
                last_np_segment: Service::from(last),
                blocking_bound: Service::from(b),
            };
            Some(res_str(&fp::limited_preemptive::dedicated_uniproc_rta(
                &tua,
                &others,
                Duration::from(lim),
            )))
        }
        "fp_fl" => {
            let r = parse_rb(t)?;
            let b = t.u64()?;
            let others = rb_list(t)?;
            let lim = t.u64()?;
            let tua = fp::floating_nonpreemptive::TaskUnderAnalysis {
                rbf: &*r,
                blocking_bound: Service::from(b),
            };
            Some(res_str(&fp::floating_nonpreemptive::dedicated_uniproc_rta(
                &tua,
                &others,
                Duration::from(lim),
            )))
        }
        "edf_p" => {
            let r = parse_rb(t)?;
            let d = t.u64()?;
            let n = t.usize()?;
            let mut rbs = vec![];
            let mut ds = vec![];
            for _ in 0..n {
                rbs.push(parse_rb(t)?);
                ds.push(t.u64()?);
            }
            let lim = t.u64()?;
            let tua = edf::fully_preemptive::Task {
                rbf: &*r,
                deadline: Duration::from(d),
            };
            let others: Vec<edf::fully_preemptive::Task<dyn RequestBound>> = rbs
                .iter()
                .zip(ds.iter())
                .map(|(rb, d)| edf::fully_preemptive::Task {
                    rbf: &**rb,
                    deadline: Duration::from(*d),
                })
                .collect();
            Some(res_str(&edf::fully_preemptive::dedicated_uniproc_rta(
                &tua,
                &others,
                Duration::from(lim),
            )))
        }
        "edf_np" => {
            let a = parse_arr(t)?;
            let c = t.u64()?;
            let d = t.u64()?;
            let n = t.usize()?;
            let mut arrs = vec![];
            let mut ps = vec![];
            for _ in 0..n {
                arrs.push(parse_arr(t)?);
                let co = t.u64()?;
                let dd = t.u64()?;
                ps.push((co, dd));
            }
            let lim = t.u64()?;
            let tua = edf::fully_nonpreemptive::Task {
                wcet: wcet::Scalar::new(Service::from(c)),
                arrivals: &*a,
                deadline: Duration::from(d),
            };
            let others: Vec<edf::fully_nonpreemptive::Task<dyn ArrivalBound>> = arrs
                .iter()
                .zip(ps.iter())
                .map(|(ab, (co, dd))| edf::fully_nonpreemptive::Task {
                    wcet: wcet::Scalar::new(Service::from(*co)),
                    arrivals: &**ab,
                    deadline: Duration::from(*dd),
                })
                .collect();
            Some(res_str(&edf::fully_nonpreemptive::dedicated_uniproc_rta(
                &tua,
                &others,
                Duration::from(lim),
            )))
        }
        "edf_lp" | "edf_fl" => {
            // edf_lp <arr> C D last n (<rb> Do seg)* lim ; edf_fl <rb> D n (<rb> Do seg)* lim
            let lp = op == "edf_lp";
            let mut arr_opt = None;
            let mut rb_opt = None;
            let (mut c, mut last) = (0, 0);
            let d;
            if lp {
                arr_opt = Some(parse_arr(t)?);
                c = t.u64()?;
                d = t.u64()?;
                last = t.u64()?;
            } else {
                rb_opt = Some(parse_rb(t)?);
                d = t.u64()?;
            }
            let n = t.usize()?;
            let mut rbs = vec![];
            let mut ps = vec![];
            for _ in 0..n {
                rbs.push(parse_rb(t)?);
                let dd = t.u64()?;
                let seg = t.u64()?;
                ps.push((dd, seg));
            }
            let lim = t.u64()?;
            if lp {
                let a = arr_opt.unwrap();
                let tua = edf::limited_preemptive::TaskUnderAnalysis {
                    wcet: wcet::Scalar::new(Service::from(c)),
                    arrivals: &*a,
                    deadline: Duration::from(d),
                    last_np_segment: Service::from(last),
                };
                let others: Vec<edf::limited_preemptive::InterferingTask<dyn RequestBound>> = rbs
                    .iter()
                    .zip(ps.iter())
                    .map(|(rb, (dd, seg))| edf::limited_preemptive::InterferingTask {
                        rbf: &**rb,
                        deadline: Duration::from(*dd),
                        max_np_segment: Service::from(*seg),
                    })
                    .collect();
                Some(res_str(&edf::limited_preemptive::dedicated_uniproc_rta(
                    &tua,
                    &others,
                    Duration::from(lim),
                )))
            } else {
                let r = rb_opt.unwrap();
                let tua = edf::floating_nonpreemptive::TaskUnderAnalysis {
                    rbf: &*r,
                    deadline: Duration::from(d),
                };
                let others: Vec<edf::floating_nonpreemptive::InterferingTask<dyn RequestBound>> =
                    rbs.iter()
                        .zip(ps.iter())
                        .map(
                            |(rb, (dd, seg))| edf::floating_nonpreemptive::InterferingTask {
                                rbf: &**rb,
                                deadline: Duration::from(*dd),
                                max_np_segment: Service::from(*seg),
                            },
                        )
                        .collect();
                Some(res_str(&edf::floating_nonpreemptive::dedicated_uniproc_rta(
                    &tua,
                    &others,
                    Duration::from(lim),
                )))
            }
        }
        "ros_es" => {
            let s = parse_supply(t)?;
            let r = parse_rb(t)?;
            let lim = t.u64()?;
            Some(res_str(&ros2::rta_event_source(
                &s,
                &r,
                Duration::from(lim),
            )))
        }
        "ros_tm" => {
            let s = parse_supply(t)?;
            let own = parse_rb(t)?;
            let interf = parse_rb(t)?;
            let b = t.u64()?;
            let lim = t.u64()?;
            Some(res_str(&ros2::rta_timer(
                &s,
                &own,
                &interf,
                Service::from(b),
                Duration::from(lim),
            )))
        }
        "ros_pp" => {
            let s = parse_supply(t)?;
            let own = parse_rb(t)?;
            let interf = parse_rb(t)?;
            let lim = t.u64()?;
            Some(res_str(&ros2::rta_polling_point_callback(
                &s,
                &own,
                &interf,
                Duration::from(lim),
            )))
        }
        "ros_ch" => {
            let s = parse_supply(t)?;
            let last = parse_rb(t)?;
            let prefix = parse_rb(t)?;
            let full = parse_rb(t)?;
            let others = parse_rb(t)?;
            let lim = t.u64()?;
            Some(res_str(&ros2::rta_processing_chain(
                &s,
                &last,
                &prefix,
                &full,
                &others,
                Duration::from(lim),
            )))
        }
        "rr" => {
            let s = parse_supply(t)?;
            let (wl, sub) = parse_workload(t)?;
            let lim = t.u64()?;
            let cbs: Vec<ros2::rr::Callback<dyn ArrivalBound, dyn JobCostModel>> = wl
                .iter()
                .map(|c| ros2::rr::Callback::new(Duration::from(c.rtb), &*c.arr, &*c.cost, c.kind))
                .collect();
            let subchain: Vec<&ros2::rr::Callback<dyn ArrivalBound, dyn JobCostModel>> =
                sub.iter().map(|i| &cbs[*i]).collect();
            Some(res_str(&ros2::rr::rta_subchain(
                &s,
                &cbs,
                &subchain,
                Duration::from(lim),
            )))
        }
        "bw" => {
            let s = parse_supply(t)?;
            let (wl, sub) = parse_workload(t)?;
            let lim = t.u64()?;
            let cbs: Vec<ros2::bw::Callback<dyn ArrivalBound, dyn JobCostModel>> = wl
                .iter()
                .map(|c| ros2::bw::Callback::new(Duration::from(c.rtb), &*c.arr, &*c.cost, c.kind))
                .collect();
            let subchain: Vec<&ros2::bw::Callback<dyn ArrivalBound, dyn JobCostModel>> =
                sub.iter().map(|i| &cbs[*i]).collect();
            Some(res_str(&ros2::bw::rta_subchain(
                &s,
                &cbs,
                &subchain,
                Duration::from(lim),
            )))
        }
        _ => None,
    }
}
