#![allow(dead_code, unused_imports)]
//! Line-protocol harness: reads one operation per line on stdin, executes it against the
//! REAL `response-time-analysis` crate (path dependency on /repo), prints one canonical
//! result per line.  The same lines are fed to the Lean model driver and the outputs are
//! diffed by `/verif/check`.
//!
//! Every op runs under `catch_unwind` on a worker thread; an op that does not finish
//! within the watchdog budget is reported as `hang` and the worker is abandoned.

use std::io::{self, BufRead, Write};
use std::panic::{self, AssertUnwindSafe};
use std::sync::mpsc;
use std::time::Duration as StdDuration;

mod analyses;
mod ops;
mod terms;

fn run_line(line: &str) -> String {
    let toks: Vec<&str> = line.split_whitespace().collect();
    if toks.is_empty() {
        return "bad-op".to_string();
    }
    let r = panic::catch_unwind(AssertUnwindSafe(|| ops::eval(&toks)));
    match r {
        Ok(Some(s)) => s,
        Ok(None) => "bad-op".to_string(),
        Err(_) => "panic".to_string(),
    }
}

fn spawn_worker() -> (mpsc::Sender<String>, mpsc::Receiver<String>) {
    let (tx_line, rx_line) = mpsc::channel::<String>();
    let (tx_res, rx_res) = mpsc::channel::<String>();
    std::thread::Builder::new()
        .stack_size(256 << 20)
        .spawn(move || {
            while let Ok(line) = rx_line.recv() {
                let res = run_line(&line);
                if tx_res.send(res).is_err() {
                    break;
                }
            }
        })
        .expect("spawn worker");
    (tx_line, rx_res)
}

fn main() {
    panic::set_hook(Box::new(|_| {}));
    let watchdog_ms: u64 = std::env::var("VERIF_WATCHDOG_MS")
        .ok()
        .and_then(|s| s.parse().ok())
        .unwrap_or(4_000);
    let stdin = io::stdin();
    let stdout = io::stdout();
    let mut out = io::BufWriter::new(stdout.lock());
    let (mut tx, mut rx) = spawn_worker();
    for line in stdin.lock().lines() {
        let line = match line {
            Ok(l) => l,
            Err(_) => break,
        };
        tx.send(line).expect("worker alive");
        let res = match rx.recv_timeout(StdDuration::from_millis(watchdog_ms)) {
            Ok(r) => r,
            Err(_) => {
                // abandon the stuck worker, start a fresh one
                let (t, r) = spawn_worker();
                tx = t;
                rx = r;
                "hang".to_string()
            }
        };
        writeln!(out, "{}", res).unwrap();
    }
    out.flush().unwrap();
    // do not wait for abandoned workers
    std::process::exit(0);
}
