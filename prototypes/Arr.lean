namespace Proto

inductive Arr where
  | never
  | periodic (T : Nat)
  | sporadic (T J : Nat)
  | curve (d : List Nat)
  | prop (J : Nat) (a : Arr)
  | agg (as : List Arr)
  | sum (a b : Arr)
deriving Repr

def ceilDiv (a b : Nat) : Nat := a / b + (if a % b > 0 then 1 else 0)

mutual
def Arr.N : Arr → Nat → Nat
  | .never, _ => 0
  | .periodic T, d => ceilDiv d T
  | .sporadic T J, d => if d = 0 then 0 else ceilDiv (d + J) T
  | .curve _, _ => 0
  | .prop J a, d => if d = 0 then 0 else a.N (d + J)
  | .agg as, d => Arr.Nlist as d
  | .sum a b, d => a.N d + b.N d
def Arr.Nlist : List Arr → Nat → Nat
  | [], _ => 0
  | a :: as, d => a.N d + Arr.Nlist as d
end

def Arr.withJitter : Arr → Nat → Arr
  | .never, _ => .never
  | .periodic T, j => .sporadic T j
  | .sporadic T J, j => .sporadic T (J + j)
  | .curve d, j => .prop j (.curve d)
  | .prop J a, j => .prop (J + j) a
  | .agg as, j => .agg (as.attach.map fun ⟨a, _⟩ => a.withJitter j)
  | .sum a b, j => .sum (a.withJitter j) (b.withJitter j)

theorem Nlist_eq (as : List Arr) (d : Nat) : Arr.Nlist as d = (as.map (·.N d)).sum := by
  induction as with
  | nil => simp [Arr.Nlist]
  | cons a as ih => simp [Arr.Nlist, ih]

mutual
theorem Arr.N_zero : (a : Arr) → a.N 0 = 0
  | .never => by simp [Arr.N]
  | .periodic T => by simp [Arr.N, ceilDiv]
  | .sporadic T J => by simp [Arr.N]
  | .curve _ => by simp [Arr.N]
  | .prop J a => by simp [Arr.N]
  | .agg as => by simp only [Arr.N]; exact Arr.Nlist_zero as
  | .sum a b => by simp [Arr.N, Arr.N_zero a, Arr.N_zero b]
theorem Arr.Nlist_zero : (as : List Arr) → Arr.Nlist as 0 = 0
  | [] => by simp [Arr.Nlist]
  | a :: as => by simp [Arr.Nlist, Arr.N_zero a, Arr.Nlist_zero as]
end

#eval (Arr.agg [.periodic 5, .sporadic 7 3]).N 11
#print axioms Arr.N_zero
end Proto
