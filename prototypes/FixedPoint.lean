/-! Prototype: model of fixed_point::search_with_offset and its leastness theorem. -/

namespace Proto

/-- mirrors the `while` loop of `search_with_offset`; `none` = DivergenceLimitExceeded. -/
def searchLoop (st : Nat → Nat) (w : Nat → Nat) (offset limit : Nat) (assumed : Nat) : Option Nat :=
  if assumed ≤ limit then
    let bound := st (w assumed) - offset
    if bound ≤ assumed then some bound
    else searchLoop st w offset limit bound
  else none
termination_by limit + 1 - assumed
decreasing_by omega

def searchWithOffset (st : Nat → Nat) (w : Nat → Nat) (offset limit : Nat) : Option Nat :=
  searchLoop st w offset limit 1

/-- `st` is the exact pseudo-inverse of the supply-bound function `sbf`. -/
def IsInverse (sbf st : Nat → Nat) : Prop := ∀ d t, st d ≤ t ↔ d ≤ sbf t

def Mono (f : Nat → Nat) : Prop := ∀ a b, a ≤ b → f a ≤ f b

/-- the predicate whose least solution the search computes -/
def Sol (sbf w : Nat → Nat) (offset r : Nat) : Prop := w (max r 1) ≤ sbf (offset + r)

theorem searchLoop_spec (sbf st w : Nat → Nat) (offset limit : Nat)
    (hinv : IsInverse sbf st) (hw : Mono w)
    (hoff : ∀ x, 1 ≤ x → offset ≤ st (w x)) :
    ∀ (n : Nat) (assumed : Nat), limit + 1 - assumed ≤ n → 1 ≤ assumed →
      -- invariant: every solution is at least `assumed` unless assumed = 1
      (∀ r, Sol sbf w offset r → assumed ≤ max r 1) →
      match searchLoop st w offset limit assumed with
      | some r => Sol sbf w offset r ∧ (∀ r', Sol sbf w offset r' → r ≤ r') ∧ r ≤ limit
      | none => ∀ r, Sol sbf w offset r → limit < max r 1 := by
  intro n
  induction n with
  | zero =>
    intro assumed hn h1 hinvt
    unfold searchLoop
    have : ¬ assumed ≤ limit := by omega
    simp [this]
    intro r hr
    have := hinvt r hr
    omega
  | succ n ih =>
    intro assumed hn h1 hinvt
    unfold searchLoop
    by_cases hle : assumed ≤ limit
    · simp only [hle, if_true]
      by_cases hconv : st (w assumed) - offset ≤ assumed
      · simp only [hconv, if_true]
        have hoffa := hoff assumed h1
        refine ⟨?_, ?_, by omega⟩
        · -- it is a solution
          unfold Sol
          have h1 : w assumed ≤ sbf (st (w assumed)) := (hinv _ _).1 (Nat.le_refl _)
          have h2 : offset + (st (w assumed) - offset) = st (w assumed) := by omega
          rw [h2]
          exact Nat.le_trans (hw _ _ (by omega)) h1
        · intro r' hr'
          have hge := hinvt r' hr'
          -- w assumed ≤ w (max r' 1) ≤ sbf (offset + r')
          have : w assumed ≤ sbf (offset + r') := Nat.le_trans (hw _ _ hge) hr'
          have := (hinv _ _).2 this
          omega
      · simp only [hconv, if_false]
        have hgt : assumed < st (w assumed) - offset := by omega
        apply ih
        · omega
        · omega
        · intro r hr
          have hge := hinvt r hr
          have : w assumed ≤ sbf (offset + r) := Nat.le_trans (hw _ _ hge) hr
          have := (hinv _ _).2 this
          omega
    · simp only [hle, if_false]
      intro r hr
      have := hinvt r hr
      omega

end Proto
