namespace Proto

/-- mirrors supply::Periodic::provided_service (P = period, Q = budget) -/
def pSbf (P Q : Nat) (delta : Nat) : Nat :=
  let slack := P - Q
  if slack > delta then 0 else
  let full := (delta - slack) / P
  let x := slack + slack + P * full
  let frac := if x < delta then delta - x else 0
  Q * full + frac

/-- mirrors supply::Periodic::service_time -/
def pSt (P Q : Nat) (demand : Nat) : Nat :=
  if demand = 0 then 0 else
  let slack := P - Q
  let full := demand / Q
  let fullBudget := Q * full
  let frac := if fullBudget < demand then slack + demand - fullBudget else 0
  slack + P * full + frac

theorem pSbf_mono_step (P Q : Nat) (hQ : 1 ≤ Q) (hQP : Q ≤ P) (t : Nat) :
    pSbf P Q t ≤ pSbf P Q (t+1) ∧ pSbf P Q (t+1) ≤ pSbf P Q t + 1 := by
  unfold pSbf
  simp only []
  by_cases h1 : P - Q > t + 1
  · have : P - Q > t := by omega
    simp [h1, this]
  · by_cases h0 : P - Q > t
    · have ht : t + 1 - (P - Q) = 0 := by omega
      simp [h1, h0, ht]
      split <;> omega
    · simp only [h1, h0, if_false]
      -- t - slack = P*q + r
      have hP : 0 < P := by omega
      generalize hs : P - Q = s at *
      have hd := Nat.div_add_mod (t - s) P
      have hm := Nat.mod_lt (t - s) hP
      generalize hq : (t - s) / P = q at *
      generalize hr : (t - s) % P = r at *
      by_cases hwrap : r + 1 = P
      · have : (t + 1 - s) / P = q + 1 := by
          have : t + 1 - s = P * (q+1) := by rw [Nat.mul_add]; omega
          rw [this, Nat.mul_div_cancel_left _ hP]
        rw [this]
        have e1 : P * (q+1) = P*q + P := by rw [Nat.mul_add]; omega
        have e2 : Q * (q+1) = Q*q + Q := by rw [Nat.mul_add]; omega
        rw [e1, e2]
        generalize P*q = pq at *
        generalize Q*q = qq at *
        split <;> split <;> omega
      · have : (t + 1 - s) / P = q := by
          have h2 : t + 1 - s = P * q + (r+1) := by omega
          rw [h2, Nat.mul_add_div hP, Nat.div_eq_of_lt (by omega)]
          omega
        rw [this]
        generalize P*q = pq at *
        generalize Q*q = qq at *
        split <;> split <;> omega

end Proto
