import Driver.Parse
/-! Line-protocol driver: one operation per input line, one result per output line. -/

namespace RTA.Driver

def optStr : Option Nat → String
  | some n => toString n
  | none => "hang"

def evalOp : List String → Option String
  | "sbf" :: ts => do
    let (s, ts) ← pSupply ts
    let (d, _) ← pNat ts
    pure (if s.WF then toString (s.sbf d) else "panic")
  | "st" :: ts => do
    let (s, ts) ← pSupply ts
    let (d, _) ← pNat ts
    pure (if s.WF then optStr (s.st? d) else "panic")
  | "sbfs" :: ts => do
    let (s, ts) ← pSupply ts
    let (a, ts) ← pNat ts
    let (b, _) ← pNat ts
    pure (if s.WF then listToStr ((List.range (b + 1 - a)).map fun i => s.sbf (a + i)) else "panic")
  | "sts" :: ts => do
    let (s, ts) ← pSupply ts
    let (a, ts) ← pNat ts
    let (b, _) ← pNat ts
    if ¬ s.WF then pure "panic" else
    let vs := (List.range (b + 1 - a)).map fun i => s.st? (a + i)
    pure (if vs.all Option.isSome then listToStr (vs.map (·.getD 0)) else "hang")
  | "swo" :: ts => do
    let (s, ts) ← pSupply ts
    let (off, ts) ← pNat ts
    let (lim, ts) ← pNat ts
    let (tab, _) ← pTab ts
    pure (if s.WF then (searchWithOffset s off lim (tabEval tab)).toStr else "panic")
  | "search" :: ts => do
    let (s, ts) ← pSupply ts
    let (lim, ts) ← pNat ts
    let (tab, _) ← pTab ts
    pure (if s.WF then (search s lim (tabEval tab)).toStr else "panic")
  | "maxrt" :: ts => do
    let (rs, _) ← pList pRes ts
    pure (maxResponseTime rs).toStr
  | _ => none

def evalLine (line : String) : String :=
  let toks := (line.trimAscii.toString.splitOn " ").filter (· ≠ "")
  match evalOp toks with
  | some r => r
  | none => "bad-op"

partial def loop (h : IO.FS.Stream) (out : IO.FS.Stream) : IO Unit := do
  let line ← h.getLine
  if line.isEmpty then return ()
  out.putStrLn (evalLine line)
  loop h out

end RTA.Driver

def main : IO Unit := do
  let stdin ← IO.getStdin
  let stdout ← IO.getStdout
  RTA.Driver.loop stdin stdout
