import Driver.Parse
import RTA.Model.XCurve
import RTA.Model.Ros
import RTA.Model.XCost
import RTA.Spec.Naive
import RTA.Model.Poisson
import RTA.Spec.Ros2Exec
import RTA.Spec.Ros2ExecX
import RTA.Spec.NaiveRos
/-! Line-protocol driver: one operation per input line, one result per output line. -/

namespace RTA.Driver

def optStr : Option Nat → String
  | some n => toString n
  | none => "hang"

def pairsToStr (l : List (Nat × Nat)) : String :=
  "[" ++ ",".intercalate (l.map fun (a, b) => s!"{a}:{b}") ++ "]"

def withArr (a : Option Arr) (f : Arr → String) : String :=
  match a with
  | some a => if a.WF then f a else "panic"
  | none => "panic"

/-- well-formedness except that a delta-min vector may end in 0 (all recorded distances
zero): `number_arrivals(0)` returns 0 before the division by the last entry is reached -/
partial def arrWF0 : Arr → Bool
  | .never => true
  | .periodic T => decide (1 ≤ T)
  | .sporadic T _ => decide (1 ≤ T)
  | .curve d => !d.isEmpty
  | .xcurve d => !d.isEmpty
  | .pfx h st => decide (prefixWF h st)
  | .prop _ a => arrWF0 a
  | .agg as => as.all arrWF0
  | .sum a b => arrWF0 a && arrWF0 b

/-- `number_arrivals(d)` with the early return for `d = 0` -/
def naStr (a : Arr) (d : Nat) : String :=
  if a.WF then toString (a.N d) else if d = 0 ∧ arrWF0 a then "0" else "panic"

def withCost (c : Option Cost) (g : Cost → Bool) (f : Cost → String) : String :=
  match c with
  | some c => if g c then f c else "panic"
  | none => "panic"

def withRB (r : Option RB) (g : RB → Bool) (f : RB → String) : String :=
  match r with
  | some r => if r.arrWF && g r then f r else "panic"
  | none => "panic"

/-- all arrival models of a request bound satisfy `arrWF0` -/
partial def rbArrWF0 : RB → Bool
  | .rbf a _ => arrWF0 a
  | .agg rs => rs.all rbArrWF0

/-- as `withRB` for a query at interval length `d`: at `d = 0` every `number_arrivals` returns 0
before a recorded distance is looked at, so a delta-min vector ending in 0 is harmless there -/
def withRBd (r : Option RB) (d : Nat) (g : RB → Bool) (f : RB → String) : String :=
  match r with
  | some r => if (r.arrWF || (d == 0 && rbArrWF0 r)) && g r then f r else "panic"
  | none => "panic"

def pXCostOp : Parser XCostOp
  | "coj" :: ts => do let (n, ts) ← pNat ts; pure (.coj n, ts)
  | "lw" :: ts => do let (n, ts) ← pNat ts; pure (.least n, ts)
  | _ => none

def pXOp : Parser XOp
  | "na" :: ts => do let (d, ts) ← pNat ts; pure (.na d, ts)
  | "it" :: ts => some (.newIter, ts)
  | "nx" :: ts => do let (i, ts) ← pNat ts; pure (.next i, ts)
  | _ => none

def evalOp : List String → Option String
  | "sbf" :: ts => do
    let (s, ts) ← pSupply ts
    let (d, _) ← pNat ts
    pure (if s.WF then toString (s.sbf d) else "panic")
  | "st" :: ts => do
    let (s, ts) ← pSupply ts
    let (d, _) ← pNat ts
    pure (if s.WF then optStr (s.st? d) else "panic")
  | "sbfs" :: ts => do
    let (s, ts) ← pSupply ts
    let (a, ts) ← pNat ts
    let (b, _) ← pNat ts
    pure (if s.WF then listToStr ((List.range (b + 1 - a)).map fun i => s.sbf (a + i)) else "panic")
  | "sts" :: ts => do
    let (s, ts) ← pSupply ts
    let (a, ts) ← pNat ts
    let (b, _) ← pNat ts
    if ¬ s.WF then pure "panic" else
    let vs := (List.range (b + 1 - a)).map fun i => s.st? (a + i)
    pure (if vs.all Option.isSome then listToStr (vs.map (·.getD 0)) else "hang")
  | "swo" :: ts => do
    let (s, ts) ← pSupply ts
    let (off, ts) ← pNat ts
    let (lim, ts) ← pNat ts
    let (tab, _) ← pTab ts
    pure (if s.WF then (searchWithOffset s off lim (tabEval tab)).toStr else "panic")
  | "search" :: ts => do
    let (s, ts) ← pSupply ts
    let (lim, ts) ← pNat ts
    let (tab, _) ← pTab ts
    pure (if s.WF then (search s lim (tabEval tab)).toStr else "panic")
  | "na" :: ts => do
    let (a, ts) ← pArr ts
    let (d, _) ← pNat ts
    pure (match a with | some a => naStr a d | none => "panic")
  | "nas" :: ts => do
    let (a, ts) ← pArr ts
    let (lo, ts) ← pNat ts
    let (hi, _) ← pNat ts
    pure (withArr a fun a => listToStr ((List.range (hi + 1 - lo)).map fun i => a.N (lo + i)))
  | "steps" :: ts => do
    let (a, ts) ← pArr ts
    let (h, _) ← pNat ts
    pure (withArr a fun a => listToStr (a.stepsUpTo h))
  -- trait DEFAULT methods (reached through wrappers that do not override them)
  | "dsteps" :: ts => do
    -- `ArrivalBound::steps_iter` default = brute-force enumeration of the increase points
    let (a, ts) ← pArr ts
    let (h, _) ← pNat ts
    pure (withArr a fun a => listToStr (a.bruteSteps h))
  | "dleast" :: ts => do
    -- `JobCostModel::least_wcet` / `cost_of_jobs` defaults: minimum / sum of the first n job costs
    let (c, ts) ← pCost ts
    let (n, _) ← pNat ts
    pure (withCost c (·.itemsGuard n) fun c =>
      s!"{(minList? (c.items n)).getD 0} {sumList (c.items n)}")
  | "dneed" :: ts => do
    -- `RequestBound::service_needed` default = sum of the job costs
    let (r, ts) ← pRB ts
    let (d, _) ← pNat ts
    pure (withRB r (·.itemsGuard d) fun r => toString (sumList (r.jobCosts d)))
  | "bsteps" :: ts => do
    let (a, ts) ← pArr ts
    let (h, _) ← pNat ts
    pure (withArr a fun a => listToStr (a.bruteSteps h))
  | "dmin" :: ts => do
    let (c, _) ← pCurve ts
    pure (match c with | some d => listToStr d | none => "panic")
  | "mind" :: ts => do
    let (n, ts) ← pNat ts
    let (c, _) ← pCurve ts
    pure (match c with | some d => toString (minDistance d n) | none => "panic")
  | "pfx" :: ts => do
    let (pv, _) ← pPrefix ts
    pure (match pv with
      | some (h, st) => s!"h={h} [" ++ ",".intercalate (st.map fun (d, n) => s!"{d}:{n}") ++ "]"
      | none => "panic")
  | "dmi" :: ts => do
    let (k, ts) ← pNat ts
    let (a, _) ← pArr ts
    pure (withArr a fun a => pairsToStr (a.dminIterTakeIter k))
  | "coj" :: ts => do
    let (c, ts) ← pCost ts
    let (n, _) ← pNat ts
    pure (withCost c (fun _ => true) fun c => toString (c.ofJobs n))
  | "cojs" :: ts => do
    let (c, ts) ← pCost ts
    let (lo, ts) ← pNat ts
    let (hi, _) ← pNat ts
    pure (withCost c (fun _ => true) fun c => listToStr ((List.range (hi + 1 - lo)).map fun i => c.ofJobs (lo + i)))
  | "items" :: ts => do
    let (c, ts) ← pCost ts
    let (n, _) ← pNat ts
    pure (withCost c (·.itemsGuard n) fun c => listToStr (c.items n))
  | "least" :: ts => do
    let (c, ts) ← pCost ts
    let (n, _) ← pNat ts
    pure (withCost c (·.leastGuard n) fun c => toString (c.least n))
  | "ccvec" :: ts => do
    let (c, _) ← pCostCurve ts
    pure (match c with | some w => listToStr w | none => "panic")
  | "need" :: ts => do
    let (r, ts) ← pRB ts
    let (d, _) ← pNat ts
    pure (withRBd r d (fun _ => true) fun r => toString (r.need d))
  | "needs" :: ts => do
    let (r, ts) ← pRB ts
    let (lo, ts) ← pNat ts
    let (hi, _) ← pNat ts
    pure (withRB r (fun _ => true) fun r => listToStr ((List.range (hi + 1 - lo)).map fun i => r.need (lo + i)))
  | "lw" :: ts => do
    let (r, ts) ← pRB ts
    let (d, _) ← pNat ts
    pure (withRBd r d (·.leastGuard d) fun r => toString (r.leastWcet d))
  | "rsteps" :: ts => do
    let (r, ts) ← pRB ts
    let (h, _) ← pNat ts
    pure (withRB r (fun _ => true) fun r => listToStr (r.stepsUpTo h))
  | "jc" :: ts => do
    let (r, ts) ← pRB ts
    let (d, _) ← pNat ts
    pure (withRBd r d (·.itemsGuard d) fun r => listToStr (sortDesc (r.jobCosts d)))
  | "nbn" :: ts => do
    let (r, ts) ← pRB ts
    let (d, ts) ← pNat ts
    let (n, _) ← pNat ts
    pure (withRBd r d (·.itemsGuard d) fun r => toString (r.needByN d n))
  | "nbnc" :: ts => do
    let (r, ts) ← pRB ts
    let (d, ts) ← pNat ts
    let (n, _) ← pNat ts
    pure (withRBd r d (·.itemsGuard d) fun r => toString (r.needByNPerComponent d n))
  | "soff" :: ts => do
    let (r, ts) ← pRB ts
    let (l, _) ← pNat ts
    pure (withRB r (fun _ => true) fun r => match stepOffsetsBelow (r.stepsUpTo l) l with
      | some v => listToStr v
      | none => "panic")
  | "xops" :: ts => do
    let (d, ts) ← pList pNat ts
    let (m, ts) ← pNat ts
    let (ops, _) ← pRep pXOp m ts
    if ¬ curveWF d then pure "panic" else
    let outs := (XState.init d).run ops
    pure ("[" ++ ",".intercalate (outs.map fun o => match o with | some v => toString v | none => "-") ++ "]")
  | "xcops" :: ts => do
    let (w, ts) ← pList pNat ts
    let (m, ts) ← pNat ts
    let (ops, _) ← pRep pXCostOp m ts
    -- guards: least_wcet on an empty vector / non-monotone neighbours
    let rec go (w : List Nat) : List XCostOp → Option (List Nat)
      | [] => some []
      | op :: rest =>
        let okGuard := match op with
          | .least n => costLeastGuard w n
          | .coj _ => true
        if okGuard then
          let (w', out) := xcostStep w op
          (go w' rest).map (out :: ·)
        else none
    pure (match go w ops with | some outs => listToStr outs | none => "panic")
  | "pois_na" :: ts => do
    let (rn, ts) ← pNat ts
    let (rd, ts) ← pNat ts
    let (en, ts) ← pNat ts
    let (ed, ts) ← pNat ts
    let (delta, _) ← pNat ts
    pure (match poissonNaF (rn.toFloat / rd.toFloat) (en.toFloat / ed.toFloat) delta with
      | some n => toString n
      | none => "hang")
  | "pois_p" :: ts => do
    let (rn, ts) ← pNat ts
    let (rd, ts) ← pNat ts
    let (delta, ts) ← pNat ts
    let (n, _) ← pNat ts
    pure (toString (poissonPmfF (rn.toFloat / rd.toFloat) delta n).toBits)
  | "exec" :: ts => do
    -- exec n (isTimer prio cost)*n  m (i j)*m  sigmaBits  r (t i)*r
    let (n, ts) ← pNat ts
    let (cbs, ts) ← pRep (fun ts => do
      let (tm, ts) ← pNat ts
      let (pr, ts) ← pNat ts
      let (c, ts) ← pNat ts
      pure (({ isTimer := tm == 1, prio := pr, cost := c } : Exec.Cb), ts)) n ts
    let (ch, ts) ← pList (pPair pNat pNat) ts
    match ts with
    | bits :: ts =>
      let (rl, _) ← pList (pPair pNat pNat) ts
      let sigma := bits.toList.map (· == '1')
      let chain := fun i => (ch.find? (·.1 == i)).map (·.2)
      let rels := fun t => (rl.filter (·.1 == t)).map (·.2)
      let outs := Exec.run cbs chain sigma rels
      pure ("[" ++ ",".intercalate (outs.map fun (i, r, c) => s!"{i}:{r}:{c}") ++ "]")
    | [] => none
  | "execx" :: ts => do
    -- execx a b c  n (isTimer prio cost)*n  sigmaBits  r (t i)*r : executor with execution times
    -- ex i t = 1 + (a*i + b*t + c) % cost_i  (RTA/Spec/Ros2ExecX.lean), no chains
    let (a, ts) ← pNat ts
    let (b, ts) ← pNat ts
    let (c, ts) ← pNat ts
    let (n, ts) ← pNat ts
    let (cbs, ts) ← pRep (fun ts => do
      let (tm, ts) ← pNat ts
      let (pr, ts) ← pNat ts
      let (c, ts) ← pNat ts
      pure (({ isTimer := tm == 1, prio := pr, cost := c } : Exec.Cb), ts)) n ts
    match ts with
    | bits :: ts =>
      let (rl, _) ← pList (pPair pNat pNat) ts
      let sigma := bits.toList.map (· == '1')
      let rels := fun t => (rl.filter (·.1 == t)).map (·.2)
      let ex := fun i t => 1 + (a * i + b * t + c) % (cbs.getD i default).cost
      let outs := ExecX.run cbs ex (fun _ => none) sigma rels
      pure ("[" ++ ",".intercalate (outs.map fun (i, r, c) => s!"{i}:{r}:{c}") ++ "]")
    | [] => none
  | "maxrt" :: ts => do
    let (rs, _) ← pList pRes ts
    pure (maxResponseTime rs).toStr
  | _ => none


def pRBList : Parser (Option (List RB)) := fun ts => do
  let (n, ts) ← pNat ts
  let (rs, ts) ← pRep pRB n ts
  pure (rs.mapM id, ts)

def rbOk (r : RB) : Bool := r.arrWF
def rbsOk (rs : List RB) : Bool := rs.all rbOk

/-- evaluate only when every request bound is well-formed enough for `service_needed`
and `steps_iter` not to fail; analyses add their own guards -/
def guardRBs (rs : List RB) (f : Unit → Res) : String :=
  if rbsOk rs then (f ()).toStr else "panic"

def pKind : Parser CbKind
  | "T" :: ts => some (.timer, ts)
  | "E" :: ts => some (.eventSource, ts)
  | "U" :: ts => some (.polledUnknown, ts)
  | "P" :: ts => do let (p, ts) ← pNat ts; pure (.polled p, ts)
  | _ => none

def pCallback : Parser (Option Callback) := fun ts => do
  let (rtb, ts) ← pNat ts
  let (a, ts) ← pArr ts
  let (c, ts) ← pCost ts
  let (k, ts) ← pKind ts
  pure (do let a ← a; let c ← c; pure { rtb := rtb, arr := a, cost := c, kind := k }, ts)

def pWorkload : Parser (Option (List Callback) × List Nat) := fun ts => do
  let (n, ts) ← pNat ts
  let (cbs, ts) ← pRep pCallback n ts
  let (sub, ts) ← pList pNat ts
  pure ((cbs.mapM id, sub), ts)

def wlOk (wl : List Callback) : Bool := wl.all fun cb => decide cb.arr.WF

/-- `nv_<op>`: the same input evaluated by the naive Spec (`RTA/Spec/Naive.lean`) -/
def evalNaive : List String → Option String
  | "nv_fifo" :: ts => do
    let (r, ts) ← pRB ts
    let (lim, _) ← pNat ts
    pure (match r with | some r => guardRBs [r] fun _ => Spec.naiveFifo r lim | none => "panic")
  | "nv_fp_p" :: ts => do
    let (tua, ts) ← pRB ts
    let (others, ts) ← pRBList ts
    let (lim, _) ← pNat ts
    pure (match tua, others with
      | some tua, some others => guardRBs (tua :: others) fun _ => Spec.naiveFp tua others 0 0 lim
      | _, _ => "panic")
  | "nv_fp_np" :: ts => do
    let (a, ts) ← pArr ts
    let (c, ts) ← pNat ts
    let (b, ts) ← pNat ts
    let (others, ts) ← pRBList ts
    let (lim, _) ← pNat ts
    pure (match a, others with
      | some a, some others => guardRBs (.rbf a (.scalar c) :: others) fun _ => Spec.naiveFp (.rbf a (.scalar c)) others b (c - 1) lim
      | _, _ => "panic")
  | "nv_fp_lp" :: ts => do
    let (a, ts) ← pArr ts
    let (c, ts) ← pNat ts
    let (last, ts) ← pNat ts
    let (b, ts) ← pNat ts
    let (others, ts) ← pRBList ts
    let (lim, _) ← pNat ts
    pure (match a, others with
      | some a, some others => guardRBs (.rbf a (.scalar c) :: others) fun _ => Spec.naiveFp (.rbf a (.scalar c)) others b (last - 1) lim
      | _, _ => "panic")
  | "nv_fp_fl" :: ts => do
    let (tua, ts) ← pRB ts
    let (b, ts) ← pNat ts
    let (others, ts) ← pRBList ts
    let (lim, _) ← pNat ts
    pure (match tua, others with
      | some tua, some others => guardRBs (tua :: others) fun _ => Spec.naiveFp tua others b 0 lim
      | _, _ => "panic")
  -- naive evaluation restricted to the offsets at which the analysed demand steps (found by
  -- brute force from `need`, not from `steps_iter`): what the pruned implementation must equal
  | "nvs_ros_tm" :: ts => do
    let (s, ts) ← pSupply ts
    let (own, ts) ← pRB ts
    let (interf, ts) ← pRB ts
    let (b, ts) ← pNat ts
    let (lim, _) ← pNat ts
    pure (match own, interf with
      | some own, some interf => if s.WF then guardRBs [own, interf] fun _ =>
          Spec.naiveRosBoundOn s (fun d => own.need d + b + interf.need d)
            (fun A r => own.need (A + 1) + interf.need (interferenceInterval own A r) + b) lim
            (fun maxBw => (List.range (maxBw + 1)).filter fun A => own.need A < own.need (A + 1)) else "panic"
      | _, _ => "panic")
  | "nvs_ros_pp" :: ts => do
    let (s, ts) ← pSupply ts
    let (own, ts) ← pRB ts
    let (interf, ts) ← pRB ts
    let (lim, _) ← pNat ts
    pure (match own, interf with
      | some own, some interf => if s.WF then guardRBs [own, interf] fun _ =>
          Spec.naiveRosBoundOn s (fun d => own.need d + interf.need d)
            (fun A r => own.need (A + 1) + interf.need (interferenceInterval own A r)) lim
            (fun maxBw => (List.range (maxBw + 1)).filter fun A => own.need A < own.need (A + 1)) else "panic"
      | _, _ => "panic")
  | "nvs_ros_ch" :: ts => do
    let (s, ts) ← pSupply ts
    let (last, ts) ← pRB ts
    let (pfx, ts) ← pRB ts
    let (full, ts) ← pRB ts
    let (others, ts) ← pRB ts
    let (lim, _) ← pNat ts
    pure (match last, pfx, full, others with
      | some last, some pfx, some full, some others =>
        if s.WF then guardRBs [last, pfx, full, others] fun _ =>
          Spec.naiveRosBoundOn s (fun d => full.need d + others.need d)
            (fun A r =>
              let iv := interferenceInterval last A r
              last.need (A + 1) + pfx.need iv + others.need iv) lim
            (fun maxBw => (List.range (maxBw + 1)).filter fun A => full.need A < full.need (A + 1)) else "panic"
      | _, _, _, _ => "panic")
  | "nv_ros_es" :: ts => do
    let (s, ts) ← pSupply ts
    let (r, ts) ← pRB ts
    let (lim, _) ← pNat ts
    pure (match r with
      | some r => if s.WF then guardRBs [r] fun _ => Spec.naiveEventSource s r lim else "panic"
      | none => "panic")
  | "nv_ros_tm" :: ts => do
    let (s, ts) ← pSupply ts
    let (own, ts) ← pRB ts
    let (interf, ts) ← pRB ts
    let (b, ts) ← pNat ts
    let (lim, _) ← pNat ts
    pure (match own, interf with
      | some own, some interf => if s.WF then guardRBs [own, interf] fun _ => Spec.naiveTimer s own interf b lim else "panic"
      | _, _ => "panic")
  | "nv_ros_pp" :: ts => do
    let (s, ts) ← pSupply ts
    let (own, ts) ← pRB ts
    let (interf, ts) ← pRB ts
    let (lim, _) ← pNat ts
    pure (match own, interf with
      | some own, some interf => if s.WF then guardRBs [own, interf] fun _ => Spec.naivePollingPoint s own interf lim else "panic"
      | _, _ => "panic")
  | "nv_ros_ch" :: ts => do
    let (s, ts) ← pSupply ts
    let (last, ts) ← pRB ts
    let (pfx, ts) ← pRB ts
    let (full, ts) ← pRB ts
    let (others, ts) ← pRB ts
    let (lim, _) ← pNat ts
    pure (match last, pfx, full, others with
      | some last, some pfx, some full, some others =>
        if s.WF then guardRBs [last, pfx, full, others] fun _ => Spec.naiveChain s last pfx full others lim else "panic"
      | _, _, _, _ => "panic")
  | "nv_rr" :: ts => do
    let (s, ts) ← pSupply ts
    let ((wl, sub), ts) ← pWorkload ts
    let (lim, _) ← pNat ts
    pure (match wl with
      | some wl => if s.WF && wlOk wl then (Spec.naiveRr s wl sub lim).toStr else "panic"
      | none => "panic")
  | "nv_bw" :: ts => do
    let (s, ts) ← pSupply ts
    let ((wl, sub), ts) ← pWorkload ts
    let (lim, _) ← pNat ts
    pure (match wl with
      | some wl => if s.WF && wlOk wl then (Spec.naiveBw s wl sub lim).toStr else "panic"
      | none => "panic")
  | "nv_edf_p" :: ts => do
    let (tua, ts) ← pRB ts
    let (d, ts) ← pNat ts
    let (os, ts) ← pList (pPair pRB pNat) ts
    let (lim, _) ← pNat ts
    pure (match tua, (os.mapM fun (r, dd) => r.map fun r => ({ rb := r, D := dd, seg := 0 } : EdfTask)) with
      | some tua, some others => guardRBs (tua :: others.map (·.rb)) fun _ => Spec.naiveEdf tua d others 0 false lim
      | _, _ => "panic")
  | "nv_edf_np" :: ts => do
    let (a, ts) ← pArr ts
    let (c, ts) ← pNat ts
    let (d, ts) ← pNat ts
    let (os, ts) ← pList (pPair pArr (pPair pNat pNat)) ts
    let (lim, _) ← pNat ts
    pure (match a, (os.mapM fun (ao, (co, dd)) => ao.map fun ao => ({ rb := .rbf ao (.scalar co), D := dd, seg := co } : EdfTask)) with
      | some a, some others => guardRBs (.rbf a (.scalar c) :: others.map (·.rb)) fun _ => Spec.naiveEdf (.rbf a (.scalar c)) d others (c - 1) true lim
      | _, _ => "panic")
  | "nv_edf_lp" :: ts => do
    let (a, ts) ← pArr ts
    let (c, ts) ← pNat ts
    let (d, ts) ← pNat ts
    let (last, ts) ← pNat ts
    let (os, ts) ← pList (pPair pRB (pPair pNat pNat)) ts
    let (lim, _) ← pNat ts
    pure (match a, (os.mapM fun (r, (dd, seg)) => r.map fun r => ({ rb := r, D := dd, seg := seg } : EdfTask)) with
      | some a, some others => guardRBs (.rbf a (.scalar c) :: others.map (·.rb)) fun _ => Spec.naiveEdf (.rbf a (.scalar c)) d others (last - 1) true lim
      | _, _ => "panic")
  | "nv_edf_fl" :: ts => do
    let (tua, ts) ← pRB ts
    let (d, ts) ← pNat ts
    let (os, ts) ← pList (pPair pRB (pPair pNat pNat)) ts
    let (lim, _) ← pNat ts
    pure (match tua, (os.mapM fun (r, (dd, seg)) => r.map fun r => ({ rb := r, D := dd, seg := seg } : EdfTask)) with
      | some tua, some others => guardRBs (tua :: others.map (·.rb)) fun _ => Spec.naiveEdf tua d others 0 true lim
      | _, _ => "panic")
  | _ => none

def evalAnalysis : List String → Option String
  | "fifo" :: ts => do
    let (r, ts) ← pRB ts
    let (lim, _) ← pNat ts
    pure (match r with | some r => guardRBs [r] fun _ => fifoRta r lim | none => "panic")
  | "fp_p" :: ts => do
    let (tua, ts) ← pRB ts
    let (others, ts) ← pRBList ts
    let (lim, _) ← pNat ts
    pure (match tua, others with
      | some tua, some others => guardRBs (tua :: others) fun _ => fpPreemptive tua others lim
      | _, _ => "panic")
  | "fp_np" :: ts => do
    let (a, ts) ← pArr ts
    let (c, ts) ← pNat ts
    let (b, ts) ← pNat ts
    let (others, ts) ← pRBList ts
    let (lim, _) ← pNat ts
    pure (match a, others with
      | some a, some others => guardRBs (.rbf a (.scalar c) :: others) fun _ => fpNonpreemptive a c b others lim
      | _, _ => "panic")
  | "fp_lp" :: ts => do
    let (a, ts) ← pArr ts
    let (c, ts) ← pNat ts
    let (last, ts) ← pNat ts
    let (b, ts) ← pNat ts
    let (others, ts) ← pRBList ts
    let (lim, _) ← pNat ts
    pure (match a, others with
      | some a, some others => guardRBs (.rbf a (.scalar c) :: others) fun _ => fpLimited a c last b others lim
      | _, _ => "panic")
  | "fp_fl" :: ts => do
    let (tua, ts) ← pRB ts
    let (b, ts) ← pNat ts
    let (others, ts) ← pRBList ts
    let (lim, _) ← pNat ts
    pure (match tua, others with
      | some tua, some others => guardRBs (tua :: others) fun _ => fpFloating tua b others lim
      | _, _ => "panic")
  | "edf_p" :: ts => do
    let (tua, ts) ← pRB ts
    let (d, ts) ← pNat ts
    let (os, ts) ← pList (pPair pRB pNat) ts
    let (lim, _) ← pNat ts
    pure (match tua, (os.mapM fun (r, dd) => r.map fun r => ({ rb := r, D := dd, seg := 0 } : EdfTask)) with
      | some tua, some others => guardRBs (tua :: others.map (·.rb)) fun _ => edfPreemptive tua d others lim
      | _, _ => "panic")
  | "edf_np" :: ts => do
    let (a, ts) ← pArr ts
    let (c, ts) ← pNat ts
    let (d, ts) ← pNat ts
    let (os, ts) ← pList (pPair pArr (pPair pNat pNat)) ts
    let (lim, _) ← pNat ts
    pure (match a, (os.mapM fun (ao, (co, dd)) => ao.map fun ao => ({ rb := .rbf ao (.scalar co), D := dd, seg := co } : EdfTask)) with
      | some a, some others => guardRBs (.rbf a (.scalar c) :: others.map (·.rb)) fun _ => edfNonpreemptive a c d others lim
      | _, _ => "panic")
  | "edf_lp" :: ts => do
    let (a, ts) ← pArr ts
    let (c, ts) ← pNat ts
    let (d, ts) ← pNat ts
    let (last, ts) ← pNat ts
    let (os, ts) ← pList (pPair pRB (pPair pNat pNat)) ts
    let (lim, _) ← pNat ts
    pure (match a, (os.mapM fun (r, (dd, seg)) => r.map fun r => ({ rb := r, D := dd, seg := seg } : EdfTask)) with
      | some a, some others => guardRBs (.rbf a (.scalar c) :: others.map (·.rb)) fun _ => edfLimited a c d last others lim
      | _, _ => "panic")
  | "edf_fl" :: ts => do
    let (tua, ts) ← pRB ts
    let (d, ts) ← pNat ts
    let (os, ts) ← pList (pPair pRB (pPair pNat pNat)) ts
    let (lim, _) ← pNat ts
    pure (match tua, (os.mapM fun (r, (dd, seg)) => r.map fun r => ({ rb := r, D := dd, seg := seg } : EdfTask)) with
      | some tua, some others => guardRBs (tua :: others.map (·.rb)) fun _ => edfFloating tua d others lim
      | _, _ => "panic")
  | "ros_es" :: ts => do
    let (s, ts) ← pSupply ts
    let (r, ts) ← pRB ts
    let (lim, _) ← pNat ts
    pure (match r with
      | some r => if s.WF then guardRBs [r] fun _ => rosEventSource s r lim else "panic"
      | none => "panic")
  | "ros_tm" :: ts => do
    let (s, ts) ← pSupply ts
    let (own, ts) ← pRB ts
    let (interf, ts) ← pRB ts
    let (b, ts) ← pNat ts
    let (lim, _) ← pNat ts
    pure (match own, interf with
      | some own, some interf => if s.WF then guardRBs [own, interf] fun _ => rosTimer s own interf b lim else "panic"
      | _, _ => "panic")
  | "ros_pp" :: ts => do
    let (s, ts) ← pSupply ts
    let (own, ts) ← pRB ts
    let (interf, ts) ← pRB ts
    let (lim, _) ← pNat ts
    pure (match own, interf with
      | some own, some interf => if s.WF then guardRBs [own, interf] fun _ => rosPollingPoint s own interf lim else "panic"
      | _, _ => "panic")
  | "ros_ch" :: ts => do
    let (s, ts) ← pSupply ts
    let (last, ts) ← pRB ts
    let (pfx, ts) ← pRB ts
    let (full, ts) ← pRB ts
    let (others, ts) ← pRB ts
    let (lim, _) ← pNat ts
    pure (match last, pfx, full, others with
      | some last, some pfx, some full, some others =>
        if s.WF then guardRBs [last, pfx, full, others] fun _ => rosChain s last pfx full others lim else "panic"
      | _, _, _, _ => "panic")
  | "rr" :: ts => do
    let (s, ts) ← pSupply ts
    let ((wl, sub), ts) ← pWorkload ts
    let (lim, _) ← pNat ts
    pure (match wl with
      | some wl => if s.WF && wlOk wl then (rrSubchain s wl sub lim).toStr else "panic"
      | none => "panic")
  | "bw" :: ts => do
    let (s, ts) ← pSupply ts
    let ((wl, sub), ts) ← pWorkload ts
    let (lim, _) ← pNat ts
    pure (match wl with
      | some wl =>
        if s.WF && wlOk wl then
          (if bwDebugHangs s wl sub lim then "hang" else (bwSubchain s wl sub lim).toStr)
        else "panic"
      | none => "panic")
  | _ => none

def evalLine (line : String) : String :=
  let toks := (line.trimAscii.toString.splitOn " ").filter (· ≠ "")
  match evalOp toks with
  | some r => r
  | none => match evalAnalysis toks with
    | some r => r
    | none => match evalNaive toks with
      | some r => r
      | none => "bad-op"

partial def loop (h : IO.FS.Stream) (out : IO.FS.Stream) : IO Unit := do
  let line ← h.getLine
  if line.isEmpty then return ()
  out.putStrLn (evalLine line)
  loop h out

end RTA.Driver

def main : IO Unit := do
  let stdin ← IO.getStdin
  let stdout ← IO.getStdout
  RTA.Driver.loop stdin stdout
