import RTA.Model.FixedPoint
/-! Token parsers for the line protocol (not part of the trusted model: the driver's
parser/printer is validated only through the correspondence runs). -/

namespace RTA.Driver

abbrev Parser (α : Type) := List String → Option (α × List String)

def pNat : Parser Nat
  | t :: ts => t.toNat?.map (·, ts)
  | [] => none

def pTok (s : String) : Parser Unit
  | t :: ts => if t = s then some ((), ts) else none
  | [] => none

def pRep (p : Parser α) : Nat → Parser (List α)
  | 0, ts => some ([], ts)
  | n + 1, ts => do
    let (x, ts) ← p ts
    let (xs, ts) ← pRep p n ts
    pure (x :: xs, ts)

/-- count-prefixed list: `n x1 … xn` -/
def pList (p : Parser α) : Parser (List α) := fun ts => do
  let (n, ts) ← pNat ts
  pRep p n ts

def pPair (p : Parser α) (q : Parser β) : Parser (α × β) := fun ts => do
  let (a, ts) ← p ts
  let (b, ts) ← q ts
  pure ((a, b), ts)

partial def pSupply : Parser Supply
  | "ded" :: ts => some (.dedicated, ts)
  | "psup" :: ts => do
    let (q, ts) ← pNat ts
    let (p, ts) ← pNat ts
    pure (.periodic q p, ts)
  | "csup" :: ts => do
    let (q, ts) ← pNat ts
    let (d, ts) ← pNat ts
    let (p, ts) ← pNat ts
    pure (.constrained q d p, ts)
  | "dflt" :: ts => do
    let (s, ts) ← pSupply ts
    pure (.viaDefault s, ts)
  | _ => none

/-- step-shaped monotone workload: `tab n x1 v1 … xn vn`, `w x = Σ {vᵢ | xᵢ ≤ x}` -/
def tabEval (tab : List (Nat × Nat)) (x : Nat) : Nat :=
  sumList (tab.map fun (t, v) => if t ≤ x then v else 0)

def pTab : Parser (List (Nat × Nat)) := fun ts => do
  let ((), ts) ← pTok "tab" ts
  pList (pPair pNat pNat) ts

def pRes : Parser Res
  | "ok" :: ts => do let (r, ts) ← pNat ts; pure (.ok r, ts)
  | "div" :: ts => do
    let (o, ts) ← pNat ts
    let (l, ts) ← pNat ts
    pure (.div o l, ts)
  | "panic" :: ts => some (.panic, ts)
  | _ => none

end RTA.Driver
