import RTA.Model.FixedPoint
import RTA.Model.Derive
import RTA.Model.Demand
/-! Token parsers for the line protocol (not part of the trusted model: the driver's
parser/printer is validated only through the correspondence runs). -/

namespace RTA.Driver

abbrev Parser (α : Type) := List String → Option (α × List String)

def pNat : Parser Nat
  | t :: ts => t.toNat?.map (·, ts)
  | [] => none

def pTok (s : String) : Parser Unit
  | t :: ts => if t = s then some ((), ts) else none
  | [] => none

def pRep (p : Parser α) : Nat → Parser (List α)
  | 0, ts => some ([], ts)
  | n + 1, ts => do
    let (x, ts) ← p ts
    let (xs, ts) ← pRep p n ts
    pure (x :: xs, ts)

/-- count-prefixed list: `n x1 … xn` -/
def pList (p : Parser α) : Parser (List α) := fun ts => do
  let (n, ts) ← pNat ts
  pRep p n ts

def pPair (p : Parser α) (q : Parser β) : Parser (α × β) := fun ts => do
  let (a, ts) ← p ts
  let (b, ts) ← q ts
  pure ((a, b), ts)

partial def pSupply : Parser Supply
  | "ded" :: ts => some (.dedicated, ts)
  | "psup" :: ts => do
    let (q, ts) ← pNat ts
    let (p, ts) ← pNat ts
    pure (.periodic q p, ts)
  | "csup" :: ts => do
    let (q, ts) ← pNat ts
    let (d, ts) ← pNat ts
    let (p, ts) ← pNat ts
    pure (.constrained q d p, ts)
  | "dflt" :: ts => do
    let (s, ts) ← pSupply ts
    pure (.viaDefault s, ts)
  | _ => none

/-- step-shaped monotone workload: `tab n x1 v1 … xn vn`, `w x = Σ {vᵢ | xᵢ ≤ x}` -/
def tabEval (tab : List (Nat × Nat)) (x : Nat) : Nat :=
  sumList (tab.map fun (t, v) => if t ≤ x then v else 0)

def pTab : Parser (List (Nat × Nat)) := fun ts => do
  let ((), ts) ← pTok "tab" ts
  pList (pPair pNat pNat) ts

def pRes : Parser Res
  | "ok" :: ts => do let (r, ts) ← pNat ts; pure (.ok r, ts)
  | "div" :: ts => do
    let (o, ts) ← pNat ts
    let (l, ts) ← pNat ts
    pure (.div o l, ts)
  | "panic" :: ts => some (.panic, ts)
  | _ => none

end RTA.Driver

namespace RTA.Driver
open RTA

/-- result of parsing a curve term: the delta-min vector, or `none` when a constructor
assertion / guard of the real code fails on the way (rendered as `panic`) -/
abbrev CurveVal := Option (List Nat)

def curveOk (d : List Nat) : CurveVal := if d = [] then none else some d

mutual
/-- terms denoting a concrete `arrival::Curve` -/
partial def pCurve : Parser CurveVal
  | "cur" :: ts => do
    let (d, ts) ← pList pNat ts
    pure (curveOk d, ts)
  | "c_it" :: ts => do
    let (d, ts) ← pList pNat ts
    pure (curveOk (curveFromIter d), ts)
  | "c_ab" :: ts => do
    let (n, ts) ← pNat ts
    let (a, ts) ← pArr ts
    pure (a.bind fun a => if a.WF then curveOk (a.curveOfBoundIter n) else none, ts)
  | "c_abu" :: ts => do
    let (h, ts) ← pNat ts
    let (a, ts) ← pArr ts
    pure (a.bind fun a => if a.WF then curveOk (a.curveOfBoundUntilIter h) else none, ts)
  | "c_per" :: ts => do
    let (p, ts) ← pNat ts
    pure (some (curveOfPeriodic p), ts)
  | "c_spo" :: ts => do
    let (p, ts) ← pNat ts
    let (j, ts) ← pNat ts
    pure (if p ≥ 1 then curveOk (curveOfSporadicIter p j) else none, ts)
  | "c_pre" :: ts => do
    let (pv, ts) ← pPrefix ts
    let ts := match ts with
      | "byval" :: r => r
      | r => r
    pure (pv.bind fun (h, st) => if prefixWF h st then curveOk (curveOfPrefixIter h st) else none, ts)
  | "c_tr" :: ts => do
    let (p, ts) ← pNat ts
    let (tr, ts) ← pList pNat ts
    let sorted := tr.Pairwise (· ≤ ·)
    pure (if sorted then curveOk (curveFromTrace tr p) else none, ts)
  | "c_ext" :: ts => do
    let (h, ts) ← pNat ts
    let (c, ts) ← pCurve ts
    pure (c.bind fun d => if curveWF d then some (extrapolate d h (extrapolateFuel d h)) else none, ts)
  | "c_exs" :: ts => do
    let (n, ts) ← pNat ts
    let (c, ts) ← pCurve ts
    pure (c.bind fun d => if curveWF d then some (extrapolateSteps d n n) else none, ts)
  | "c_exb" :: ts => do
    let (delta, ts) ← pNat ts
    let (nj, ts) ← pNat ts
    let (c, ts) ← pCurve ts
    pure (c.bind fun d => if delta ≥ 1 then some (extrapolateWithBound d delta nj) else none, ts)
  | _ => none

/-- terms denoting a concrete `ArrivalCurvePrefix` -/
partial def pPrefix : Parser (Option (Nat × List (Nat × Nat)))
  | "pre" :: ts => do
    let (h, ts) ← pNat ts
    let (st, ts) ← pList (pPair pNat pNat) ts
    -- the constructor's own assertions
    let rec ok : List (Nat × Nat) → Nat → Bool
      | [], _ => true
      | (δ, n) :: rest, last => decide (δ ≤ h) && decide (last < n) && ok rest n
    pure (if ok st 0 then some (h, st) else none, ts)
  | "p_abu" :: ts => do
    let (h, ts) ← pNat ts
    let (a, ts) ← pArr ts
    pure (a.bind fun a => if a.WF then (a.prefixOfBoundUntil h).map fun st => (h, st) else none, ts)
  | _ => none

/-- arrival-model terms; `none` inside = construction panics in the real code -/
partial def pArr : Parser (Option Arr)
  | "never" :: ts => some (some .never, ts)
  | "per" :: ts => do
    let (p, ts) ← pNat ts
    pure (some (.periodic p), ts)
  | "spo" :: ts => do
    let (p, ts) ← pNat ts
    let (j, ts) ← pNat ts
    pure (some (.sporadic p j), ts)
  | "xcur" :: ts => do
    let (d, ts) ← pList pNat ts
    pure ((curveOk d).map .xcurve, ts)
  | "xc" :: ts => do
    let (c, ts) ← pCurve ts
    pure (c.map .xcurve, ts)
  | "pre" :: ts => do
    let (pv, ts) ← pPrefix ("pre" :: ts)
    pure (pv.map fun (h, st) => .pfx h st, ts)
  | "p_abu" :: ts => do
    let (pv, ts) ← pPrefix ("p_abu" :: ts)
    pure (pv.map fun (h, st) => .pfx h st, ts)
  | "prop" :: ts => do
    let (j, ts) ← pNat ts
    let (a, ts) ← pArr ts
    pure (a.map (.prop j), ts)
  | "agg" :: ts => do
    let (n, ts) ← pNat ts
    let (as, ts) ← pRep pArr n ts
    pure ((as.mapM id).map .agg, ts)
  | "sli" :: ts => do
    let (n, ts) ← pNat ts
    let (as, ts) ← pRep pArr n ts
    pure ((as.mapM id).map .agg, ts)
  | "sum" :: ts => do
    let (a, ts) ← pArr ts
    let (b, ts) ← pArr ts
    pure (do let a ← a; let b ← b; pure (.sum a b), ts)
  | "wj" :: ts => do
    let (j, ts) ← pNat ts
    let (a, ts) ← pArr ts
    pure (a.map (·.withJitter j), ts)
  | "box" :: ts => pArr ts
  | ts => do
    let (c, ts) ← pCurve ts
    pure (c.map .curve, ts)
end

/-- cost-curve terms (`wcet::Curve`) -/
partial def pCostCurve : Parser (Option (List Nat))
  | "cc" :: ts => do
    let (w, ts) ← pList pNat ts
    pure (some w, ts)
  | "cc_it" :: ts => do
    let (w, ts) ← pList pNat ts
    pure (some (curveFromIter w), ts)
  | "cc_tr" :: ts => do
    let (m, ts) ← pNat ts
    let (w, ts) ← pList pNat ts
    pure (some (costFromTrace w m), ts)
  | "cc_ext" :: ts => do
    let (n, ts) ← pNat ts
    let (c, ts) ← pCostCurve ts
    pure (c.bind fun w => some (costExtrapolate w n n), ts)
  | _ => none

partial def pCost : Parser (Option Cost)
  | "sc" :: ts => do
    let (c, ts) ← pNat ts
    pure (some (.scalar c), ts)
  | "mf" :: ts => do
    let (cs, ts) ← pList pNat ts
    pure (some (.multiframe cs), ts)
  | "xcc" :: ts => do
    let (c, ts) ← pCostCurve ts
    pure (c.map .xcurve, ts)
  | "cbox" :: ts => pCost ts
  | ts => do
    let (c, ts) ← pCostCurve ts
    pure (c.map .curve, ts)

partial def pRB : Parser (Option RB)
  | "rbf" :: ts => do
    let (a, ts) ← pArr ts
    let (c, ts) ← pCost ts
    pure (do let a ← a; let c ← c; pure (.rbf a c), ts)
  | "ragg" :: ts => do
    let (n, ts) ← pNat ts
    let (rs, ts) ← pRep pRB n ts
    pure ((rs.mapM id).map .agg, ts)
  | "rsli" :: ts => do
    let (n, ts) ← pNat ts
    let (rs, ts) ← pRep pRB n ts
    pure ((rs.mapM id).map .agg, ts)
  | "rbox" :: ts => pRB ts
  | _ => none

end RTA.Driver
