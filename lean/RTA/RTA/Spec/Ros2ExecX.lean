import RTA.Spec.Ros2Exec
/-! Spec: the ROS 2 executor transition system of `RTA/Spec/Ros2Exec.lean` with ARBITRARY
execution times: `ex i t` is the execution time of the instance of callback `i` that starts in
slot `t` (an instance starts in exactly one slot and no two instances start in the same slot, so
every assignment of execution times to instances is of this form).  Everything else — timers
first, ready set refreshed only when empty, one instance per callback and polling window,
non-preemptive, service only in supplied slots — is unchanged and shared with `RTA.Exec`.
`Exec.run` is the special case `ex i _ = WCET of i` (`ExecX.run_wcet`, `Lemmas/ExecEndToEndX.lean`). -/

namespace RTA.ExecX
open RTA.Exec

/-- the decision taken when the executor is idle in the supplied slot `t` -/
def pick (cbs : List Cb) (ex : Nat → Nat → Nat) (t : Nat) (s : State) : State :=
  match bestOf cbs (pendingTimers cbs s.queue) with
  | some i =>
    let (rel, q) := popInstance s.queue i
    { s with queue := q, running := some (i, ex i t, rel) }
  | none =>
    let ready := if s.ready.isEmpty then pendingPolled cbs s.queue else s.ready
    match bestOf cbs ready with
    | some i =>
      let (rel, q) := popInstance s.queue i
      { queue := q, ready := ready.erase i, running := some (i, ex i t, rel) }
    | none => { s with ready := ready }

/-- one slot (as `Exec.step`, execution times from `ex`) -/
def step (cbs : List Cb) (ex : Nat → Nat → Nat) (chain : Nat → Option Nat) (t : Nat) (sup : Bool)
    (rel : List Nat) (s : State) : State × Option (Nat × Nat × Nat) :=
  let s1 := { s with queue := addReleases s.queue rel t }
  if !sup then (s1, none) else
  let s2 := match s1.running with
    | some _ => s1
    | none => pick cbs ex t s1
  match s2.running with
  | none => (s2, none)
  | some (i, rem, r) =>
    if rem ≤ 1 then
      let q := match chain i with
        | some j => addReleases s2.queue [j] (t + 1)
        | none => s2.queue
      ({ s2 with queue := q, running := none }, some (i, r, t + 1))
    else ({ s2 with running := some (i, rem - 1, r) }, none)

/-- run over a finite horizon; collects the completed instances `(callback, release, completion)` -/
def run (cbs : List Cb) (ex : Nat → Nat → Nat) (chain : Nat → Option Nat) (sigma : List Bool)
    (rels : Nat → List Nat) : List (Nat × Nat × Nat) :=
  let rec go : List Bool → Nat → State → List (Nat × Nat × Nat)
    | [], _, _ => []
    | b :: bs, t, s =>
      let (s', out) := step cbs ex chain t b (rels t) s
      match out with
      | some o => o :: go bs (t + 1) s'
      | none => go bs (t + 1) s'
  go sigma 0 (State.init cbs.length)

end RTA.ExecX
