import RTA.Model.Ros
import RTA.Spec.Naive
/-! Spec: naive evaluation of the ROS 2 analyses (C07): every offset up to the maximum
busy-window / offset bound, linear-scan fixed points, `service_time` by linear scan over
the supply-bound function computed from the reservation parameters. -/

namespace RTA.Spec
open RTA

/-- least `r ≤ limit` such that the supply guarantees `w (max r 1)` within `off + r`, by
linear scan; the divergence error otherwise -/
def naiveSolveSup (sbf : Nat → Nat) (off : Nat) (w : Nat → Nat) (limit : Nat) : Res :=
  match scanLeast (fun r => decide (w (max r 1) ≤ sbf (off + r))) limit with
  | some r => .ok r
  | none => .div off limit

/-- a horizon by which a well-formed supply has delivered `demand` -/
def supplyHorizon : Supply → Nat → Nat
  | .dedicated, d => d
  | .periodic _ P, d => (d + 2) * P
  | .constrained _ _ P, d => (d + 2) * P
  | .viaDefault s, d => supplyHorizon s d

/-- `service_time` by linear scan: least `t` with `sbf t ≥ demand` -/
def naiveSt (s : Supply) (demand : Nat) : Nat :=
  (scanLeast (fun t => decide (demand ≤ s.sbf t)) (supplyHorizon s demand)).getD 0

/-- the ECRTS'19 scheme: busy-window bound, then EVERY offset `A ≤ max_bw` -/
def naiveRosBound (s : Supply) (bwRhs : Nat → Nat) (offRhs : Nat → Nat → Nat) (limit : Nat) : Res :=
  match naiveSolveSup s.sbf 0 bwRhs limit with
  | .ok maxBw => naiveMax ((List.range (maxBw + 1)).map fun A => naiveSolveSup s.sbf A (offRhs A) limit)
  | e => e

def naiveEventSource (s : Supply) (demand : RB) (limit : Nat) : Res :=
  naiveRosBound s (fun d => demand.need d) (fun A _ => demand.need (A + 1)) limit

def naiveTimer (s : Supply) (own interf : RB) (B limit : Nat) : Res :=
  naiveRosBound s (fun d => own.need d + B + interf.need d)
    (fun A r => own.need (A + 1) + interf.need (interferenceInterval own A r) + B) limit

def naivePollingPoint (s : Supply) (own interf : RB) (limit : Nat) : Res :=
  naiveRosBound s (fun d => own.need d + interf.need d)
    (fun A r => own.need (A + 1) + interf.need (interferenceInterval own A r)) limit

def naiveChain (s : Supply) (last pfx full others : RB) (limit : Nat) : Res :=
  naiveRosBound s (fun d => full.need d + others.need d)
    (fun A r =>
      let iv := interferenceInterval last A r
      last.need (A + 1) + pfx.need iv + others.need iv) limit

/-- the same scheme restricted to a given list of offsets (what the implementation does
with the step offsets of the callback's own demand) -/
def naiveRosBoundOn (s : Supply) (bwRhs : Nat → Nat) (offRhs : Nat → Nat → Nat) (limit : Nat)
    (offsets : Nat → List Nat) : Res :=
  match naiveSolveSup s.sbf 0 bwRhs limit with
  | .ok maxBw => naiveMax ((offsets maxBw).map fun A => naiveSolveSup s.sbf A (offRhs A) limit)
  | e => e

/-- rr: the right-hand side of the `S*` equation -/
def rrRhs (wl : List Callback) (e : Nat) (npp : Nat) (sStar : Nat) : Nat :=
  let eoc := wl.getD e default
  1 + sumList ((List.range wl.length).map fun i =>
        if i = e then 0 else (wl.getD i default).directRbf eoc.kind sStar npp)
    + eoc.cost.ofJobs (eoc.rrSelfInstances sStar)

/-- rr by linear scan -/
def naiveRr (s : Supply) (wl : List Callback) (sub : List Nat) (limit : Nat) : Res :=
  match sub.getLast? with
  | none => .panic
  | some e =>
    let eoc := wl.getD e default
    let npp := sumPPBound wl sub
    match naiveSolveSup s.sbf 0 (rrRhs wl e npp) limit with
    | .ok sStar =>
      let n := eoc.rrSelfInstances sStar
      .ok (naiveSt s ((s.sbf sStar - 1) + (eoc.cost.ofJobs (n + 1) - eoc.cost.ofJobs n)))
    | e => e

/-- bw: the per-activation-offset result by linear scan -/
def naiveBwPer (s : Supply) (wl : List Callback) (e npp : Nat) (singleton : Bool) (limit act : Nat) : Res :=
  let eoc := wl.getD e default
  let n := eoc.bwSelfInstances act
  match naiveSolveSup s.sbf 0
      (fun sStar => 1 + bwInterference wl e eoc.kind npp sStar act + eoc.cost.ofJobs n) limit with
  | .ok sStar =>
    let f := naiveSt s ((s.sbf sStar - 1) + (eoc.cost.ofJobs (n + 1) - eoc.cost.ofJobs n))
    .ok (if singleton then f - act else f)
  | e => e

/-- bw by linear scan over EVERY activation offset below the maximum offset -/
def naiveBw (s : Supply) (wl : List Callback) (sub : List Nat) (limit : Nat) : Res :=
  match sub.getLast? with
  | none => .panic
  | some e =>
    let eoc := wl.getD e default
    let npp := sumPPBound wl sub
    match naiveSolveSup s.sbf 0
        (fun ta => 1 + bwInterference wl e eoc.kind npp ta ta + eoc.cost.ofJobs (eoc.arr.N ta)) limit with
    | .ok maxOff =>
      naiveMax ((List.range maxOff).map (naiveBwPer s wl e npp (decide (sub.length = 1)) limit))
    | e => e

end RTA.Spec
