import RTA.Model.Arrival
/-! Spec: event sequences and what each arrival model documents as admissible (C10).

An event sequence is the list of its *release* times (any order).  `cnt rels t Δ` is the
number of releases in the window `[t, t + Δ)`. -/

namespace RTA.Spec
open RTA

/-- number of events released in `[t, t + Δ)` -/
def cnt (rels : List Nat) (t Δ : Nat) : Nat :=
  (rels.filter fun r => decide (t ≤ r) && decide (r < t + Δ)).length

/-- consecutive elements at least `T` apart (implies sorted) -/
def GapsGe (T : Nat) : List Nat → Prop
  | [] => True
  | [_] => True
  | x :: y :: rest => x + T ≤ y ∧ GapsGe T (y :: rest)

/-- consecutive elements exactly `T` apart -/
def GapsEq (T : Nat) : List Nat → Prop
  | [] => True
  | [_] => True
  | x :: y :: rest => x + T = y ∧ GapsEq T (y :: rest)

/-- `rels` arises from `base` by delaying each event by at most `J` (same length,
position-wise) -/
def DelayedBy (J : Nat) : List Nat → List Nat → Prop
  | [], [] => True
  | b :: bs, r :: rs => b ≤ r ∧ r ≤ b + J ∧ DelayedBy J bs rs
  | _, _ => False

/-- a sorted sequence respects the delta-min vector `d`: any `k + 2` consecutive events
span at least `d[k]` -/
def Respects (d : List Nat) (rels : List Nat) : Prop :=
  rels.Pairwise (· ≤ ·) ∧
  ∀ i k, k < d.length → i + k + 1 < rels.length → rels.getD i 0 + d.getD k 0 ≤ rels.getD (i + k + 1) 0

mutual
/-- the event sequences an arrival model documents as admissible -/
def Admissible : Arr → List Nat → Prop
  | .never, rels => rels = []
  | .periodic T, rels => GapsEq T rels
  | .sporadic T J, rels => ∃ arrivals, GapsGe T arrivals ∧ DelayedBy J arrivals rels
  | .curve d, rels => Respects d rels
  | .xcurve d, rels => Respects d rels
  | .pfx h steps, rels => ∀ t Δ, Δ ≤ h → cnt rels t Δ ≤ prefixN h steps Δ
  | .prop J a, rels => ∃ base, Admissible a base ∧ DelayedBy J base rels
  | .agg as, rels => ∃ parts, AdmissibleList as parts ∧ rels.Perm parts.flatten
  | .sum a b, rels => ∃ ra rb, Admissible a ra ∧ Admissible b rb ∧ rels.Perm (ra ++ rb)
/-- one admissible sequence per component -/
def AdmissibleList : List Arr → List (List Nat) → Prop
  | [], [] => True
  | a :: as, p :: ps => Admissible a p ∧ AdmissibleList as ps
  | _, _ => False
end

/-- the critical-instant history of a sporadic task with jitter: arrivals at `k*T`,
every event released as late as allowed but not before time `J` -/
def criticalInstant (T J n : Nat) : List Nat := (List.range n).map fun k => max (k * T) J

end RTA.Spec
