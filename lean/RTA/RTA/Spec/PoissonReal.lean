import Mathlib.Analysis.SpecialFunctions.Exponential
import Mathlib.Analysis.SpecialFunctions.Exp
/-! Spec for C15: the Poisson probability mass function, its cumulative distribution, and
the accumulate-until-threshold algorithm of `ApproximatedPoisson::number_arrivals` over
the real numbers (the `f64` code is tied to this by translation validation, not by proof). -/

open Finset

namespace RTA.PoissonReal

/-- `P[N = k]` for a Poisson distribution with mean `m`: `e^{-m} m^k / k!` -/
noncomputable def pmf (m : ℝ) (k : ℕ) : ℝ := Real.exp (-m) * m ^ k / (k.factorial : ℝ)

/-- `P[N ≤ n]` -/
noncomputable def cdf (m : ℝ) (n : ℕ) : ℝ := ∑ k ∈ range (n + 1), pmf m k

/-- the loop of `number_arrivals` over the reals: add `pmf m njobs` to the running sum;
stop when `sum + ε ≥ 1`; `none` = did not stop within `fuel` iterations -/
noncomputable def loop (m ε : ℝ) : ℕ → ℝ → ℕ → Option ℕ
  | 0, _, _ => none
  | fuel + 1, cum, njobs =>
    if cum + pmf m njobs + ε ≥ 1 then some njobs else loop m ε fuel (cum + pmf m njobs) (njobs + 1)

/-- `number_arrivals(delta)` for rate `r`, with the given fuel -/
noncomputable def numberArrivals (r ε : ℝ) (delta : ℕ) (fuel : ℕ) : Option ℕ :=
  if delta = 0 then some 0 else loop ((delta : ℝ) * r) ε fuel 0 0

end RTA.PoissonReal
