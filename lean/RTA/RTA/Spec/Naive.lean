import RTA.Model.Analyses
/-! Spec: naive evaluation of the published definitions of the nine dedicated-processor
analyses (C06).  Everything is by linear scan; every offset `A ∈ [0, L)` is examined, not
only curve steps; no fixed-point iteration.  These functions are executable and double as
the independent evaluator of the falsifier. -/

namespace RTA.Spec
open RTA

/-- least `r ∈ [0, limit]` with `P r`, by linear scan -/
def scanLeast (P : Nat → Bool) (limit : Nat) : Option Nat := (List.range (limit + 1)).find? P

/-- least `r ≤ limit` such that a dedicated processor serves `w (max r 1)` within `r`;
the divergence error (offset 0: all dedicated-processor searches start at offset 0) if
there is none -/
def naiveSolve (w : Nat → Nat) (limit : Nat) : Res :=
  match scanLeast (fun r => decide (w (max r 1) ≤ r)) limit with
  | some r => .ok r
  | none => .div 0 limit

/-- maximum of per-offset results: an error if any offset has no solution, otherwise the
maximum (0 for no offsets) -/
def naiveMax (rs : List Res) : Res :=
  if rs.any (fun r => match r with | .ok _ => false | _ => true) then
    (rs.find? (fun r => match r with | .ok _ => false | _ => true)).getD .panic
  else .ok (maxList (rs.map fun r => match r with | .ok v => v | _ => 0))

/-- FIFO: `L` = least solution of `rbf(L) ≤ L`; bound = `max_{A < L} rbf(A + 1) ∸ A` -/
def naiveFifo (tasks : RB) (limit : Nat) : Res :=
  match naiveSolve (fun L => tasks.need L) limit with
  | .ok L => .ok (maxList ((List.range L).map fun A => tasks.need (A + 1) - A))
  | e => e

/-- fixed priority (all four variants): `L` least solution of
`B + Σ_hp rbf(L) + rbf_tua(L) ≤ L`; for every `A < L`: `AF` least solution of
`B + (rbf_tua(A+1) ∸ rem) + Σ_hp rbf(AF) ≤ AF`, `F = AF ∸ A`, bound `F + rem`; maximum -/
def naiveFp (tua : RB) (others : List RB) (B rem limit : Nat) : Res :=
  match naiveSolve (fun L => B + sumNeed others L + tua.need L) limit with
  | .ok L =>
    naiveMax ((List.range L).map fun A =>
      match naiveSolve (fun AF => B + (tua.need (A + 1) - rem) + sumNeed others AF) limit with
      | .ok AF => .ok (AF - A + rem)
      | e => e)
  | e => e

/-- EDF (all four variants) -/
def naiveEdf (tua : RB) (D : Nat) (others : List EdfTask) (rem : Nat) (withBlocking : Bool)
    (limit : Nat) : Res :=
  match naiveSolve (fun L => sumNeed (others.map (·.rb)) L + tua.need L) limit with
  | .ok L =>
    naiveMax ((List.range L).map fun A =>
      let B := if withBlocking then edfBlocking others D A else 0
      match naiveSolve (fun AF => B + (tua.need (A + 1) - rem) + edfHepWorkload others D A AF) limit with
      | .ok AF => .ok (AF - A + rem)
      | e => e)
  | e => e

end RTA.Spec
