/-! Spec: supply processes of a periodic / deadline-constrained reservation.

A supply process says for every time slot whether the reservation delivers service in
that slot.  It is *compliant* with `(Q, D, P)` when every period `[kP, (k+1)P)` contains
at least `Q` service slots inside its first `D` slots ("the budget is placed inside each
period, within the deadline").  Kept short on purpose: this is what C09 means by
"all ways of placing the budget". -/

namespace RTA.Spec

/-- number of service slots of `σ` in the window `[s, s + len)` -/
def service (σ : Nat → Bool) (s : Nat) : Nat → Nat
  | 0 => 0
  | len + 1 => service σ s len + (if σ (s + len) then 1 else 0)

/-- at least `Q` service slots within `[kP, kP + D)` for every period `k` -/
def Compliant (Q D P : Nat) (σ : Nat → Bool) : Prop :=
  ∀ k, Q ≤ service σ (k * P) D

/-- the adversarial process: the budget of period 0 as early as possible, the budget of
every later period as late as the deadline allows -/
def worst (Q D P : Nat) (t : Nat) : Bool :=
  if t < P then decide (t < Q) else decide (D - Q ≤ t % P ∧ t % P < D)

end RTA.Spec
