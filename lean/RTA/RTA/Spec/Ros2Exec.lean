/-! Spec: the ROS 2 single-threaded executor on a reservation (C04, C05) as a labelled
transition system in discrete time.

Callbacks are non-preemptive.  Whenever the executor is idle and the reservation delivers
service, it starts the highest-priority *timer* with a pending instance; otherwise the
highest-priority callback of the *ready set*; the ready set is refreshed only when it is
empty (a polling point) and then contains every polled callback with a pending instance,
once.  In a slot without service nothing happens (arrivals are still recorded).
`vlib/ros_sim.py` is the executable twin used by the falsifiers; the driver op `exec`
cross-checks the two. -/

namespace RTA.Exec

structure Cb where
  isTimer : Bool
  prio : Nat        -- smaller = higher priority
  cost : Nat
deriving Repr, Inhabited

structure State where
  /-- per callback: release times of the pending (not yet started) instances, oldest first -/
  queue : List (List Nat)
  /-- the ready set: indices of polled callbacks sampled at the last polling point -/
  ready : List Nat
  /-- the running instance: callback, remaining cost, its release time -/
  running : Option (Nat × Nat × Nat)
deriving Repr, Inhabited

def State.init (n : Nat) : State := { queue := List.replicate n [], ready := [], running := none }

/-- index with the smallest priority value among `cands` (first one on ties) -/
def bestOf (cbs : List Cb) : List Nat → Option Nat
  | [] => none
  | i :: rest =>
    match bestOf cbs rest with
    | none => some i
    | some j => if (cbs.getD i default).prio ≤ (cbs.getD j default).prio then some i else some j

def pendingTimers (cbs : List Cb) (q : List (List Nat)) : List Nat :=
  (List.range cbs.length).filter fun i => (cbs.getD i default).isTimer && !(q.getD i []).isEmpty

def pendingPolled (cbs : List Cb) (q : List (List Nat)) : List Nat :=
  (List.range cbs.length).filter fun i => !(cbs.getD i default).isTimer && !(q.getD i []).isEmpty

/-- record the releases of slot `t` (`rel` = callbacks released at `t`) -/
def addReleases (q : List (List Nat)) (rel : List Nat) (t : Nat) : List (List Nat) :=
  rel.foldl (fun q i => q.set i (q.getD i [] ++ [t])) q

/-- pop the oldest pending instance of callback `i` -/
def popInstance (q : List (List Nat)) (i : Nat) : Nat × List (List Nat) :=
  ((q.getD i []).headD 0, q.set i ((q.getD i []).drop 1))

/-- the decision taken when the executor is idle in a supplied slot -/
def pick (cbs : List Cb) (s : State) : State :=
  match bestOf cbs (pendingTimers cbs s.queue) with
  | some i =>
    let (rel, q) := popInstance s.queue i
    { s with queue := q, running := some (i, (cbs.getD i default).cost, rel) }
  | none =>
    let ready := if s.ready.isEmpty then pendingPolled cbs s.queue else s.ready
    match bestOf cbs ready with
    | some i =>
      let (rel, q) := popInstance s.queue i
      { queue := q, ready := ready.erase i, running := some (i, (cbs.getD i default).cost, rel) }
    | none => { s with ready := ready }

/-- one slot: `sup` = the reservation delivers service in this slot, `rel` = callbacks
released at time `t`, `chain i` = the callback triggered by a completion of `i` (if any).
Returns the new state and the completed instance `(callback, release, completion)` if one
completes at the end of the slot. -/
def step (cbs : List Cb) (chain : Nat → Option Nat) (t : Nat) (sup : Bool) (rel : List Nat) (s : State) :
    State × Option (Nat × Nat × Nat) :=
  let s1 := { s with queue := addReleases s.queue rel t }
  if !sup then (s1, none) else
  let s2 := match s1.running with
    | some _ => s1
    | none => pick cbs s1
  match s2.running with
  | none => (s2, none)
  | some (i, rem, r) =>
    if rem ≤ 1 then
      let q := match chain i with
        | some j => addReleases s2.queue [j] (t + 1)
        | none => s2.queue
      ({ s2 with queue := q, running := none }, some (i, r, t + 1))
    else ({ s2 with running := some (i, rem - 1, r) }, none)

/-- run the executor over a finite horizon: `sigma` = supply per slot, `rels t` = callbacks
released at `t`; collects the completed instances -/
def run (cbs : List Cb) (chain : Nat → Option Nat) (sigma : List Bool) (rels : Nat → List Nat) :
    List (Nat × Nat × Nat) :=
  let rec go : List Bool → Nat → State → List (Nat × Nat × Nat)
    | [], _, _ => []
    | b :: bs, t, s =>
      let (s', out) := step cbs chain t b (rels t) s
      match out with
      | some o => o :: go bs (t + 1) s'
      | none => go bs (t + 1) s'
  go sigma 0 (State.init cbs.length)

end RTA.Exec
