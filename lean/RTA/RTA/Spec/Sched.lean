import Mathlib.Algebra.BigOperators.Group.Finset.Basic
import RTA.Spec.Events
import RTA.Model.Demand
/-! Spec: discrete-time schedules on a dedicated unit-speed processor (C01–C03, C18).

Jobs are numbered `0 … n-1`; job `k` belongs to task `task k`, is released at `arr k`
(release time, i.e. after jitter) and needs `cost k` units of service.  `sched t` is the job
served in slot `[t, t+1)`, if any.  `np k x` says that job `k`, having received `x` units of
service, cannot be preempted (inside a non-preemptive segment). -/

open Finset

namespace RTA.Sched

structure Sys where
  n : ℕ
  task : ℕ → ℕ
  arr : ℕ → ℕ
  cost : ℕ → ℕ
  np : ℕ → ℕ → Prop
  sched : ℕ → Option ℕ

variable (s : Sys)

/-- service received by job `j` in `[0, t)` -/
def svc (j : ℕ) : ℕ → ℕ
  | 0 => 0
  | t + 1 => svc j t + if s.sched t = some j then 1 else 0

/-- released and not complete at time `t` -/
def Pending (k t : ℕ) : Prop := s.arr k ≤ t ∧ svc s k t < s.cost k

/-- job `j` is complete at time `t` -/
def Completed (j t : ℕ) : Prop := svc s j t = s.cost j

/-- response-time bound `R` for job `j` -/
def MeetsBound (j R : ℕ) : Prop := Completed s j (s.arr j + R)

/-- a schedule serves only released, incomplete jobs of the job set and never idles while
some job is pending (work conservation) -/
structure Valid : Prop where
  valid : ∀ t j, s.sched t = some j → j < s.n ∧ Pending s j t
  wc : ∀ t, (∃ k < s.n, Pending s k t) → ∃ j, s.sched t = some j

/-- FIFO: the served job is one with the earliest release among the pending jobs (ties
among simultaneous releases broken arbitrarily) -/
structure FifoLegal : Prop extends Valid s where
  fifo : ∀ t j, s.sched t = some j → ∀ k < s.n, Pending s k t → s.arr j ≤ s.arr k

/-- job-level fixed-priority scheduling with non-preemptive segments: a job in a
non-preemptable state continues; otherwise the processor serves a pending job that has
higher-or-equal priority (`hep`) than every pending job -/
structure JlfpLegal (hep : ℕ → ℕ → Prop) : Prop extends Valid s where
  cont : ∀ t k, s.sched t = some k → svc s k (t + 1) < s.cost k → s.np k (svc s k (t + 1)) →
      s.sched (t + 1) = some k
  prio : ∀ t j, s.sched t = some j →
      (∃ t', t = t' + 1 ∧ s.sched t' = some j ∧ s.np j (svc s j t)) ∨
      (∀ k < s.n, Pending s k t → hep j k)

/-- total cost of the jobs satisfying `p` -/
noncomputable def workP (p : ℕ → Prop) [DecidablePred p] : ℕ :=
  ∑ k ∈ range s.n, if p k then s.cost k else 0

/-- total cost of the jobs released in `[a, b)` -/
def work (a b : ℕ) : ℕ := ∑ k ∈ range s.n, if a ≤ s.arr k ∧ s.arr k < b then s.cost k else 0

/-- total cost of the jobs of the tasks in `ts` released in `[a, b)` -/
def workOf (ts : ℕ → Prop) [DecidablePred ts] (a b : ℕ) : ℕ :=
  ∑ k ∈ range s.n, if ts (s.task k) ∧ a ≤ s.arr k ∧ s.arr k < b then s.cost k else 0

/-- release times of the jobs of task `i`, in job order -/
def relsOf (i : ℕ) : List ℕ := ((List.range s.n).filter (fun k => s.task k = i)).map s.arr

/-- costs of the jobs of task `i`, in job order -/
def costsOf (i : ℕ) : List ℕ := ((List.range s.n).filter (fun k => s.task k = i)).map s.cost

/-- total cost of the run of `m` consecutive entries starting at position `st` -/
def runSum (l : List ℕ) (st m : ℕ) : ℕ := ((l.drop st).take m).sum

/-- the jobs of task `i` comply with the task's arrival model `a` and cost model `c`:
jobs are numbered in release order, the release sequence is admissible for `a`, and every
run of `m` consecutive jobs costs at most `c.ofJobs m` (for a scalar WCET: every job costs
at most the WCET) -/
structure TaskCompliant (i : ℕ) (a : Arr) (c : Cost) : Prop where
  sorted : (relsOf s i).Pairwise (· ≤ ·)
  adm : RTA.Spec.Admissible a (relsOf s i)
  costs : ∀ st m, runSum (costsOf s i) st m ≤ c.ofJobs m

end RTA.Sched
