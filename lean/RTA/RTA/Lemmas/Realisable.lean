import RTA.Lemmas.Extrapolate
import RTA.Lemmas.Tight
/-! C18: auto-extrapolating super-additive delta-min curves are realisable.

For a well-formed prefix `d` (entry `k` = minimum span of `k + 2` events) that is
super-additive, the "densest" event sequence — first event at `t₀`, event `m + 1` at
`t₀ + D[m]`, where `D` is the prefix continued by `extrapolate_next` — respects the curve
(is admissible for `ExtrapolatingCurve`) and has exactly `number_arrivals(Δ)` events in
`[t₀, t₀ + Δ)` for every `Δ` it covers. -/

namespace RTA
open RTA.Spec RTA.Sched

/-- `d[n] ≥ d[k] + d[n-k-1]` for every split of `n + 2` events into two groups sharing one event -/
def SuperAdditive (d : List Nat) : Prop :=
  ∀ n k, n < d.length → k < n → d.getD k 0 + d.getD (n - k - 1) 0 ≤ d.getD n 0

/-- the densest event sequence from `t₀`, using the prefix and `n` extrapolated entries -/
def densest (d : List Nat) (n t₀ : Nat) : List Nat := t₀ :: (iterExt d n).map (· + t₀)

namespace Realisable

/-- appending `extrapolate_next` preserves super-additivity -/
theorem superAdditive_snoc (D : List Nat) (h : SuperAdditive D) :
    SuperAdditive (D ++ [extrapolateNext D]) := by
  intro n k hn hk
  rw [List.length_append, List.length_singleton] at hn
  by_cases hnl : n < D.length
  · rw [ext_getD_append_left _ _ _ (by omega), ext_getD_append_left _ _ _ (by omega),
      ext_getD_append_left _ _ _ hnl]
    exact h n k hnl hk
  · have e : n = D.length := by omega
    subst e
    rw [ext_getD_append_left _ _ _ (by omega), ext_getD_append_left _ _ _ (by omega),
      ext_getD_append_length]
    have := le_extrapolateNext D k hk
    have e2 : D.length - 1 - k = D.length - k - 1 := by omega
    rw [e2] at this
    exact this

theorem superAdditive_iterExt (d : List Nat) (h : SuperAdditive d) (n : Nat) :
    SuperAdditive (iterExt d n) := by
  induction n with
  | zero => exact h
  | succ n ih => exact superAdditive_snoc _ ih

theorem getD_map_add (D : List Nat) (c j : Nat) (hj : j < D.length) :
    (D.map (· + c)).getD j 0 = D.getD j 0 + c := by
  rw [List.getD_eq_getElem?_getD, List.getD_eq_getElem?_getD, List.getElem?_map,
    List.getElem?_eq_getElem hj]
  rfl

theorem countLt_map_add (D : List Nat) (c x : Nat) :
    countLt (D.map (· + c)) (c + x) = countLt D x := by
  induction D with
  | nil => rfl
  | cons v vs ih =>
    rw [List.map_cons, countLt_cons, countLt_cons, ih]
    congr 1
    by_cases hv : v < x
    · rw [if_pos hv, if_pos (by omega)]
    · rw [if_neg hv, if_neg (by omega)]

end Realisable
open Realisable

/-- the densest sequence is admissible for the auto-extrapolating curve -/
theorem densest_admissible (d : List Nat) (hwf : curveWF d) (h2 : 2 ≤ d.length) (hsa : SuperAdditive d)
    (n t₀ : Nat) : Admissible (.xcurve d) (densest d n t₀) := by
  rw [Admissible]
  have _ := h2
  have hwfD := iterExt_wf d hwf n
  have hsaD := superAdditive_iterExt d hsa n
  have hlen := iterExt_length d n
  unfold densest
  constructor
  · rw [List.pairwise_cons]
    constructor
    · intro x hx
      rw [List.mem_map] at hx
      obtain ⟨v, _, rfl⟩ := hx
      omega
    · rw [List.pairwise_map]
      exact hwfD.2.1.imp (fun h => by omega)
  · intro i k hk hik
    rw [List.length_cons, List.length_map, hlen] at hik
    cases i with
    | zero =>
      rw [show 0 + k + 1 = k + 1 by omega, List.getD_cons_succ, List.getD_cons_zero,
        getD_map_add _ _ _ (by omega), iterExt_getD_orig d n k hk]
      omega
    | succ m =>
      rw [show m + 1 + k + 1 = (m + k + 1) + 1 by omega, List.getD_cons_succ, List.getD_cons_succ,
        getD_map_add _ _ _ (by omega), getD_map_add _ _ _ (by omega)]
      have := hsaD (m + k + 1) m (by omega) (by omega)
      rw [show m + k + 1 - m - 1 = k by omega, iterExt_getD_orig d n k hk] at this
      omega

/-- and it realises the curve from `t₀`: exactly `number_arrivals(Δ)` events in `[t₀, t₀ + Δ)`
for every `Δ` up to `H`, provided the extrapolated entries reach beyond `H` -/
theorem densest_realises (d : List Nat) (hwf : curveWF d) (h2 : 2 ≤ d.length) (hsa : SuperAdditive d)
    (n t₀ H : Nat) (hn : H ≤ (iterExt d n).getLastD 0) :
    RealisesFrom (.xcurve d) (densest d n t₀) t₀ H := by
  have _ := hsa
  have hall : ∀ r ∈ densest d n t₀, t₀ ≤ r := by
    intro r hr
    unfold densest at hr
    rcases List.mem_cons.1 hr with rfl | hr
    · exact Nat.le_refl _
    · rw [List.mem_map] at hr
      obtain ⟨v, _, rfl⟩ := hr
      omega
  refine ⟨hall, ?_⟩
  intro Δ hΔ
  rw [Arr.N]
  by_cases h0 : Δ = 0
  · subst h0; rw [cnt_zero, xcurveN_zero]
  · rw [cnt_eq_countLt _ t₀ Δ hall]
    unfold densest
    rw [countLt_cons, if_pos (by omega), countLt_map_add]
    obtain ⟨n', hn'⟩ := exists_iterExt_last_gt d hwf h2 Δ
    have hmono := iterExt_last_mono d hwf n' n
    rw [xcurveN_eq d hwf h2 Δ (n' + n) (by omega) (by omega), Nat.add_comm n' n,
      countLt_iterExt_stable d hwf n n' Δ (by omega)]

/-- enough extrapolated entries exist for every horizon -/
theorem densest_covers (d : List Nat) (hwf : curveWF d) (h2 : 2 ≤ d.length) (H : Nat) :
    ∃ n, H ≤ (iterExt d n).getLastD 0 := by
  obtain ⟨n, hn⟩ := exists_iterExt_last_gt d hwf h2 H
  exact ⟨n, Nat.le_of_lt hn⟩

/-- non-vacuity: a bursty super-additive prefix (pairs of events 1 apart, one pair every 10) -/
example : curveWF [1, 10, 11] ∧ SuperAdditive [1, 10, 11] ∧ iterExt [1, 10, 11] 2 = [1, 10, 11, 20, 21] := by
  refine ⟨by decide, ?_, by decide⟩
  intro n k hn hk
  have hn' : n < 3 := hn
  have : (n = 1 ∧ k = 0) ∨ (n = 2 ∧ k = 0) ∨ (n = 2 ∧ k = 1) := by omega
  rcases this with ⟨rfl, rfl⟩ | ⟨rfl, rfl⟩ | ⟨rfl, rfl⟩ <;> decide

end RTA
