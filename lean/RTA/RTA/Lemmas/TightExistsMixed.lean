import RTA.Lemmas.TightExists
import RTA.Lemmas.TightExistsFP
import RTA.Lemmas.TightExistsNP
import RTA.Lemmas.Realisable
/-! C18, the existential form for task sets that MIX the realisable arrival models of the
property: periodic tasks, sporadic tasks with release jitter, and auto-extrapolating
super-additive delta-min curves.  For every such task set there IS a job set complying with the
task models and a legal schedule of it in which some job has a response time exactly equal to
the bound (FIFO; fully preemptive FP; fully non-preemptive FP with a blocking job).

The construction is generic in a *realisability witness* (`RealisableAt`): an admissible,
sorted release sequence that attains the arrival curve in every window starting at a common
instant `t₀`, up to any horizon. -/

open Finset

namespace RTA.Sched
open RTA RTA.Spec

/-- `a` is realisable from the instant `t₀`: up to every horizon there is a sorted admissible
release sequence, nothing released before `t₀`, with exactly `number_arrivals(Δ)` releases in
every window `[t₀, t₀ + Δ)`, `Δ ≤ H` -/
def RealisableAt (a : Arr) (t₀ : ℕ) : Prop :=
  ∀ H, ∃ rels : List ℕ, rels.Pairwise (· ≤ ·) ∧ Admissible a rels ∧ RealisesFrom a rels t₀ H

/-- the arrival models named by C18 -/
def RealisableKind (a : Arr) (t₀ : ℕ) : Prop :=
  (∃ T J, a = .sporadic T J ∧ 1 ≤ T ∧ J ≤ t₀) ∨
  (∃ T, a = .periodic T ∧ 1 ≤ T) ∨
  (∃ d, a = .xcurve d ∧ curveWF d ∧ 2 ≤ d.length ∧ SuperAdditive d)

namespace TightExistsMixedLemmas
open TightExistsLemmas TightLemmas FifoSoundLemmas

theorem gapsEq_range' (T c : ℕ) : ∀ n s,
    GapsEq T ((List.range' s n).map fun k => k * T + c) := by
  intro n
  induction n with
  | zero => intro s; simp [GapsEq]
  | succ n ih =>
    intro s
    cases n with
    | zero => simp [GapsEq]
    | succ m =>
      have h := ih (s + 1)
      rw [List.range'_succ, List.map_cons] at h ⊢
      rw [List.range'_succ, List.map_cons]
      refine ⟨?_, h⟩
      rw [Nat.add_mul]
      omega

theorem criticalInstantAt_zero_eq (T n t₀ : ℕ) :
    criticalInstantAt T 0 n t₀ = (List.range' 0 n).map fun k => k * T + t₀ := by
  unfold criticalInstantAt criticalInstant
  rw [List.map_map, List.range_eq_range']
  apply List.map_congr_left
  intro k _
  simp

theorem periodic_realisableAt (T t₀ : ℕ) (hT : 1 ≤ T) : RealisableAt (.periodic T) t₀ := by
  intro H
  refine ⟨criticalInstantAt T 0 ((Arr.sporadic T 0).N H) t₀, criticalInstantAt_sorted _ _ _ _, ?_, ?_⟩
  · rw [Admissible, criticalInstantAt_zero_eq]
    exact gapsEq_range' T t₀ _ 0
  · obtain ⟨h1, h2⟩ := criticalInstantAt_realisesFrom T 0 ((Arr.sporadic T 0).N H) H t₀ hT
      (Nat.zero_le _) (le_refl _)
    refine ⟨h1, ?_⟩
    intro Δ hΔ
    rw [h2 Δ hΔ, sporadic_N_eq, periodic_N_eq]
    split
    next h0 => subst h0; rw [ceilDiv_zero]
    next h0 => rfl

end TightExistsMixedLemmas
open TightExistsMixedLemmas TightExistsLemmas TightLemmas FifoSoundLemmas

/-- the named kinds are well-formed, exact and realisable -/
theorem realisableKind_spec (a : Arr) (t₀ : ℕ) (h : RealisableKind a t₀) :
    a.WF ∧ a.Exact ∧ RealisableAt a t₀ := by
  rcases h with ⟨T, J, rfl, hT, hJ⟩ | ⟨T, rfl, hT⟩ | ⟨d, rfl, hwf, h2, hsa⟩
  · refine ⟨hT, trivial, ?_⟩
    intro H
    exact ⟨criticalInstantAt T J ((Arr.sporadic T J).N H) t₀, criticalInstantAt_sorted _ _ _ _,
      criticalInstantAt_admissible _ _ _ _ hT,
      criticalInstantAt_realisesFrom _ _ _ _ _ hT hJ (le_refl _)⟩
  · exact ⟨hT, trivial, periodic_realisableAt T t₀ hT⟩
  · refine ⟨hwf, trivial, ?_⟩
    intro H
    obtain ⟨n, hn⟩ := densest_covers d hwf h2 H
    have hadm := densest_admissible d hwf h2 hsa n t₀
    have hs : (densest d n t₀).Pairwise (· ≤ ·) := by
      rw [Admissible] at hadm
      exact hadm.1
    exact ⟨densest d n t₀, hs, hadm, densest_realises d hwf h2 hsa n t₀ H hn⟩

namespace TightExistsMixedLemmas
open TightExistsFPLemmas TightExistsNPLemmas TightFPLemmas FpSoundLemmas
  RTA.PruneCoreLemmas RTA.PruneFPLemmas

/-- what the construction needs of the release list chosen for a task -/
def RelSpec (a : Arr) (rels : List ℕ) (t₀ L : ℕ) : Prop :=
  rels.Pairwise (· ≤ ·) ∧ Admissible a rels ∧ RealisesFrom a rels t₀ L

/-- a release list per arrival model, for the horizon `L` -/
theorem exists_rf (ts : List (Arr × ℕ)) (t₀ L : ℕ) (hreal : ∀ p ∈ ts, RealisableAt p.1 t₀) :
    ∃ rf : Arr → List ℕ, ∀ p ∈ ts, RelSpec p.1 (rf p.1) t₀ L := by
  classical
  refine ⟨fun a => if h : RealisableAt a t₀ then Classical.choose (h L) else [], ?_⟩
  intro p hp
  have h := hreal p hp
  simp only [dif_pos h]
  exact Classical.choose_spec (h L)

/-- the blocks of the job set: task `p` releases at `rf p.1`, every job of cost `p.2` -/
def blk (ts : List (Arr × ℕ)) (rf : Arr → List ℕ) : List (List ℕ × ℕ) :=
  ts.map fun p => (rf p.1, p.2)

theorem blk_length (ts : List (Arr × ℕ)) (rf : Arr → List ℕ) : (blk ts rf).length = ts.length := by
  simp [blk]

theorem blk_get (ts : List (Arr × ℕ)) (rf : Arr → List ℕ) (k : ℕ) (hk : k < ts.length) :
    ∃ h : k < (blk ts rf).length, (blk ts rf)[k] = (rf (ts[k]).1, (ts[k]).2) := by
  refine ⟨by rw [blk_length]; exact hk, ?_⟩
  simp only [blk, List.getElem_map]

theorem relsB' (bs : List (List ℕ × ℕ)) (sched : ℕ → Option ℕ) (i : ℕ) (hi : i < bs.length) :
    relsOf ((jobSetB bs).withSched sched) i = (bs[i]).1 := by
  show relsOf ((mkJobSet (jobsFrom 0 bs)).withSched sched) i = _
  have := filter_jobsFrom bs 0 i hi
  rw [Nat.zero_add] at this
  rw [relsOf_mk, this, List.map_map]
  simp [Function.comp_def]

theorem job_infoG (ts : List (Arr × ℕ)) (rf : Arr → List ℕ) (k : ℕ)
    (hk : k < (jobSetB (blk ts rf)).n) :
    ∃ h : (jobSetB (blk ts rf)).task k < ts.length,
      (jobSetB (blk ts rf)).arr k ∈ rf (ts[(jobSetB (blk ts rf)).task k]).1 ∧
      (jobSetB (blk ts rf)).cost k = (ts[(jobSetB (blk ts rf)).task k]).2 := by
  obtain ⟨h1, h2, h3⟩ := job_infoB (blk ts rf) k hk
  generalize (jobSetB (blk ts rf)).task k = tk at h1 h2 h3
  have h1' : tk < ts.length := by rw [← blk_length ts rf]; exact h1
  obtain ⟨_, e⟩ := blk_get ts rf tk h1'
  rw [e] at h2 h3
  exact ⟨h1', h2, h3⟩

theorem rels_infoG (ts : List (Arr × ℕ)) (rf : Arr → List ℕ) (sched : ℕ → Option ℕ) (i : ℕ)
    (hi : i < ts.length) :
    relsOf ((jobSetB (blk ts rf)).withSched sched) i = rf (ts[i]).1 := by
  obtain ⟨h, e⟩ := blk_get ts rf i hi
  rw [relsB' _ sched i h, e]

theorem taskCompliantG (s : Sys) (a : Arr) (C k : ℕ) (rels : List ℕ) (hri : relsOf s k = rels)
    (hs : rels.Pairwise (· ≤ ·)) (ha : Admissible a rels)
    (hci : ∀ j, j < s.n → s.task j = k → s.cost j = C) : TaskCompliant s k a (.scalar C) := by
  constructor
  · rw [hri]; exact hs
  · rw [hri]; exact ha
  · intro st m
    apply runSum_le
    intro x hx
    unfold costsOf at hx
    obtain ⟨j, hj, rfl⟩ := List.mem_map.1 hx
    rw [List.mem_filter, List.mem_range] at hj
    rw [hci j hj.1 (by simpa using hj.2)]

end TightExistsMixedLemmas

/-- FIFO, generic: realisable task sets attain the bound -/
theorem fifo_tight_realisable (ts : List (Arr × ℕ))
    (hwf : ∀ p ∈ ts, p.1.WF ∧ p.1.Exact ∧ 1 ≤ p.2) (t₀ : ℕ)
    (hreal : ∀ p ∈ ts, RealisableAt p.1 t₀) (limit R : ℕ)
    (hR : fifoRta (taskSetRB (ts.map fun p => (p.1, Cost.scalar p.2))) limit = .ok R) (hRpos : 0 < R) :
    ∃ s : Sys, FifoLegal s ∧ Compliant s (ts.map fun p => (p.1, Cost.scalar p.2)) ∧
      ∃ j, j < s.n ∧ MeetsBound s j R ∧ ∀ R', R' < R → ¬ MeetsBound s j R' := by
  have h1 : (taskSetRB (ts.map fun p => (p.1, Cost.scalar p.2))).ArrWF := by
    unfold taskSetRB; unfold RB.ArrWF
    apply arrWFList_map
    intro p hp
    obtain ⟨q, hq, rfl⟩ := List.mem_map.1 hp
    exact (hwf q hq).1
  have h2 : (taskSetRB (ts.map fun p => (p.1, Cost.scalar p.2))).Exact := by
    unfold taskSetRB; unfold RB.Exact
    apply exactList_map
    intro p hp
    obtain ⟨q, hq, rfl⟩ := List.mem_map.1 hp
    exact ⟨(hwf q hq).2.1, Cost.scalar_strictPos _ (hwf q hq).2.2⟩
  have hlim : 1 ≤ limit := by
    rcases Nat.eq_zero_or_pos limit with h0 | h
    · subst h0
      unfold fifoRta at hR
      rw [PruneFPLemmas.search_limit_zero] at hR
      simp at hR
    · exact h
  obtain ⟨L, hL⟩ : ∃ L, naiveSolve (fun x =>
      (taskSetRB (ts.map fun p => (p.1, Cost.scalar p.2))).need x) limit = .ok L := by
    rcases naiveSolve_cases (fun x =>
      (taskSetRB (ts.map fun p => (p.1, Cost.scalar p.2))).need x) limit with h | h
    · exact h
    · rw [fifo_eq_naive _ h1 h2 limit hlim] at hR
      unfold naiveFifo at hR
      rw [h] at hR
      simp at hR
  -- the job set
  obtain ⟨rf, hrf⟩ := TightExistsMixedLemmas.exists_rf ts t₀ L hreal
  have hpos : ∀ k, k < (TightExistsNPLemmas.jobSetB (TightExistsMixedLemmas.blk ts rf)).n →
      1 ≤ (TightExistsNPLemmas.jobSetB (TightExistsMixedLemmas.blk ts rf)).cost k := by
    intro k hk
    obtain ⟨h1, _, h3⟩ := TightExistsMixedLemmas.job_infoG ts rf k hk
    rw [h3]
    exact (hwf _ (List.getElem_mem h1)).2.2
  obtain ⟨sched, hl⟩ := exists_fifo_schedule _ hpos
  have hji : ∀ k, k < ((TightExistsNPLemmas.jobSetB (TightExistsMixedLemmas.blk ts rf)).withSched sched).n →
      ∃ h : ((TightExistsNPLemmas.jobSetB (TightExistsMixedLemmas.blk ts rf)).withSched sched).task k < ts.length,
      ((TightExistsNPLemmas.jobSetB (TightExistsMixedLemmas.blk ts rf)).withSched sched).cost k
        = (ts[((TightExistsNPLemmas.jobSetB (TightExistsMixedLemmas.blk ts rf)).withSched sched).task k]).2 :=
    fun k hk => ⟨(TightExistsMixedLemmas.job_infoG ts rf k hk).1,
      (TightExistsMixedLemmas.job_infoG ts rf k hk).2.2⟩
  have hri := TightExistsMixedLemmas.rels_infoG ts rf sched
  clear hpos
  generalize (TightExistsNPLemmas.jobSetB (TightExistsMixedLemmas.blk ts rf)).withSched sched = s
    at hl hji hri
  have hci : ∀ k (hk : k < ts.length) j, j < s.n → s.task j = k → s.cost j = (ts[k]).2 := by
    intro k hk j hj hjk
    obtain ⟨h1, h2⟩ := hji j hj
    rw [h2]; simp only [hjk]
  have hlen : (ts.map fun p => (p.1, Cost.scalar p.2)).length = ts.length := by simp
  have hc : Compliant s (ts.map fun p => (p.1, Cost.scalar p.2)) := by
    constructor
    · intro k hk
      rw [hlen]
      exact (hji k hk).1
    · intro i hi
      have hi' : i < ts.length := by rw [hlen] at hi; exact hi
      simp only [List.getElem_map]
      obtain ⟨hs, ha, _⟩ := hrf _ (List.getElem_mem hi')
      exact TightExistsMixedLemmas.taskCompliantG s _ _ i _ (hri i hi') hs ha (hci i hi')
  refine ⟨s, hl, hc, ?_⟩
  apply fifo_bound_attained_from _ hl ts hwf hc _ limit R L t₀ hR hL _ hRpos
  · intro k hk
    obtain ⟨h1, h2⟩ := hji k hk
    rw [h2, getD_eq_getElem' ts _ default h1]
  · intro i hi
    rw [getD_eq_getElem' _ _ _ hi, hri i hi]
    exact (hrf _ (List.getElem_mem hi)).2.2

namespace TightExistsMixedLemmas
open TightExistsFPLemmas TightExistsNPLemmas TightFPLemmas FpSoundLemmas
  RTA.PruneCoreLemmas RTA.PruneFPLemmas

/-- the statement for a task list whose LAST task is the analysed one -/
theorem coreG (ts : List (Arr × ℕ)) (i : ℕ) (hlen : ts.length = i + 1)
    (hwf : ∀ p ∈ ts, p.1.WF ∧ p.1.Exact ∧ 1 ≤ p.2) (t₀ : ℕ)
    (hreal : ∀ p ∈ ts, RealisableAt p.1 t₀) (limit R : ℕ)
    (hR : fpPreemptive (.rbf (ts.getD i default).1 (.scalar (ts.getD i default).2))
      ((ts.take i).map fun p => RB.rbf p.1 (.scalar p.2)) limit = .ok R)
    (hRpos : 0 < R) :
    ∃ s : Sys, JlfpLegal s (hepFP s id) ∧ (∀ l x, ¬ s.np l x) ∧
      Compliant s (ts.map fun p => (p.1, Cost.scalar p.2)) ∧
      ∃ j, j < s.n ∧ s.task j = i ∧ MeetsBound s j R ∧ ∀ R', R' < R → ¬ MeetsBound s j R' := by
  have hi : i < ts.length := by omega
  rw [getD_eq_getElem' ts i default hi] at hR
  have hhplen : (ts.take i).length = i := by rw [List.length_take]; omega
  have hhpget : ∀ k (hk : k < i), (ts.take i).getD k default = ts[k]'(Nat.lt_trans hk hi) := by
    intro k hk
    rw [getD_eq_getElem' _ _ _ (by rw [hhplen]; exact hk), List.getElem_take]
  have hwfo : ∀ p ∈ ts.take i, p.1.WF ∧ p.1.Exact ∧ 1 ≤ p.2 :=
    fun p hp' => hwf p (List.mem_of_mem_take hp')
  generalize ts.take i = hp at hR hhplen hhpget hwfo
  have hTi := (hwf _ (List.getElem_mem hi)).1
  have hEi := (hwf _ (List.getElem_mem hi)).2.1
  have hCi := (hwf _ (List.getElem_mem hi)).2.2
  have hwf' : (RB.rbf (ts[i]).1 (.scalar (ts[i]).2)).ArrWF := by
    simp only [RB.ArrWF]; exact hTi
  have hex' : (RB.rbf (ts[i]).1 (.scalar (ts[i]).2)).Exact := by
    simp only [RB.Exact]; exact ⟨hEi, Cost.scalar_strictPos _ hCi⟩
  have ho : OthersOK (hp.map fun p => RB.rbf p.1 (.scalar p.2)) := by
    intro o hoo
    obtain ⟨q, hq, rfl⟩ := List.mem_map.1 hoo
    obtain ⟨h1, h2, h3⟩ := hwfo q hq
    constructor
    · simp only [RB.ArrWF]; exact h1
    · simp only [RB.Exact]; exact ⟨h2, Cost.scalar_strictPos _ h3⟩
  have hlim : 1 ≤ limit := by
    rcases Nat.eq_zero_or_pos limit with h0 | h
    · subst h0
      unfold fpPreemptive at hR
      rw [fpCore_eq, search_limit_zero] at hR
      cases hR
    · exact h
  obtain ⟨L, hL⟩ : ∃ L, naiveSolve (fun x => 0 + sumNeed (hp.map fun p => RB.rbf p.1 (.scalar p.2)) x +
      (RB.rbf (ts[i]).1 (.scalar (ts[i]).2)).need x) limit = .ok L := by
    rcases naiveSolve_cases (fun x => 0 + sumNeed (hp.map fun p => RB.rbf p.1 (.scalar p.2)) x +
      (RB.rbf (ts[i]).1 (.scalar (ts[i]).2)).need x) limit with h | h
    · exact h
    · unfold fpPreemptive at hR
      rw [fpCore_eq, search_dedicated_eq_naive _
        (outer_mono _ _ 0 hwf' hex' ho) limit hlim, h] at hR
      cases hR
  -- the job set
  obtain ⟨rf, hrf⟩ := exists_rf ts t₀ L hreal
  have hpos : ∀ k, k < (jobSetB (blk ts rf)).n → 1 ≤ (jobSetB (blk ts rf)).cost k := by
    intro k hk
    obtain ⟨h1, _, h3⟩ := job_infoG ts rf k hk
    rw [h3]
    exact (hwf _ (List.getElem_mem h1)).2.2
  obtain ⟨sched, hl⟩ := exists_fp_preemptive_schedule (jobSetB (blk ts rf)) hpos
  have hji : ∀ k, k < ((jobSetB (blk ts rf)).withSched sched).n →
      ∃ h : ((jobSetB (blk ts rf)).withSched sched).task k < ts.length,
      ((jobSetB (blk ts rf)).withSched sched).cost k
        = (ts[((jobSetB (blk ts rf)).withSched sched).task k]).2 :=
    fun k hk => ⟨(job_infoG ts rf k hk).1, (job_infoG ts rf k hk).2.2⟩
  have hri := rels_infoG ts rf sched
  have hpos' : ∀ k, k < ((jobSetB (blk ts rf)).withSched sched).n →
      1 ≤ ((jobSetB (blk ts rf)).withSched sched).cost k := hpos
  have hnp : ∀ l x, ¬ ((jobSetB (blk ts rf)).withSched sched).np l x := fun _ _ h => h
  clear hpos
  generalize (jobSetB (blk ts rf)).withSched sched = s at hl hji hri hpos' hnp
  have hci : ∀ k (hk : k < ts.length) j, j < s.n → s.task j = k → s.cost j = (ts[k]).2 := by
    intro k hk j hj hjk
    obtain ⟨h1, h2⟩ := hji j hj
    rw [h2]; simp only [hjk]
  have hTC : ∀ k (hk : k < ts.length), TaskCompliant s k (ts[k]).1 (.scalar (ts[k]).2) := by
    intro k hk
    obtain ⟨hs, ha, _⟩ := hrf _ (List.getElem_mem hk)
    exact taskCompliantG s _ _ k _ (hri k hk) hs ha (hci k hk)
  have hlen' : (ts.map fun p => (p.1, Cost.scalar p.2)).length = ts.length := by simp
  have hc : Compliant s (ts.map fun p => (p.1, Cost.scalar p.2)) := by
    constructor
    · intro k hk
      rw [hlen']
      exact (hji k hk).1
    · intro k hk
      have hk' : k < ts.length := by rw [hlen'] at hk; exact hk
      simp only [List.getElem_map]
      exact hTC k hk'
  have hreal' : ∀ k (hk : k < ts.length), RealisesFrom (ts[k]).1 (relsOf s k) t₀ L := by
    intro k hk
    rw [hri k hk]
    exact (hrf _ (List.getElem_mem hk)).2.2
  have hsorted : ∀ k, (relsOf s k).Pairwise (· ≤ ·) := by
    intro k
    rcases Nat.lt_or_ge k ts.length with hk | hk
    · exact (hTC k hk).sorted
    · have : relsOf s k = [] := by
        unfold relsOf
        rw [List.map_eq_nil_iff, List.filter_eq_nil_iff]
        intro j hj h
        have := (hji j (List.mem_range.1 hj)).1
        simp only [decide_eq_true_eq] at h
        omega
      rw [this]; exact List.Pairwise.nil
  have hwtask : ∀ k (hk : k < ts.length) t d, workOf s (fun x => x = k) t (t + d)
      ≤ (ts[k]).2 * (ts[k]).1.N d := by
    intro k hk t d
    have := task_work_le s k (ts[k]).1 (Cost.scalar (ts[k]).2) (hwf _ (List.getElem_mem hk)).1
      trivial (hTC k hk) t d
    simpa only [Cost.ofJobs] using this
  have hwexact : ∀ k (hk : k < ts.length) Δ, Δ ≤ L → workOf s (fun x => x = k) t₀ (t₀ + Δ)
      = (ts[k]).2 * (ts[k]).1.N Δ := by
    intro k hk Δ hΔ
    rw [workOf_const s k (ts[k]).2 t₀ Δ (fun j hj hjk => hci k hk j hj hjk),
      (hreal' k hk).2 Δ hΔ]
  have hS : FpSetting s id i (.rbf (ts[i]).1 (.scalar (ts[i]).2))
      (hp.map fun p => RB.rbf p.1 (.scalar p.2)) 0 := by
    refine ⟨hl, fun a b h => h, ordered_of_sorted s hsorted, ?_, ?_, ?_, hpos'⟩
    · intro t d
      have := hwtask i hi t d
      simpa only [RB.need, Cost.ofJobs] using this
    · intro t d
      show workOf s (fun x => x < i) t (t + d) ≤ _
      rw [workOf_lt_eq_sum, sumNeed_scalar, hhplen]
      apply Finset.sum_le_sum
      intro k hk
      have hk' := mem_range.1 hk
      rw [hhpget k hk']
      exact hwtask k (by omega) t d
    · intro l _ _ x len h
      rcases Nat.eq_zero_or_pos len with h0 | h0
      · omega
      · exact (hnp _ _ (h 0 h0)).elim
  refine ⟨s, hl, hnp, hc, ?_⟩
  apply fp_preemptive_bound_attained s i (ts[i]).1 (ts[i]).2 hp hS hnp
    hTi hEi hCi hwfo limit R L t₀ hR hL ?_ ?_ ?_ hRpos
  · intro Δ hΔ
    rw [cntOf_eq_cnt]
    exact (hreal' i hi).2 Δ hΔ
  · intro k hk hki
    exact hci i hi k hk hki
  · intro Δ hΔ
    rw [workOf_lt_eq_sum, sumNeed_scalar, hhplen]
    apply Finset.sum_congr rfl
    intro k hk
    have hk' := mem_range.1 hk
    rw [hhpget k hk']
    exact hwexact k (by omega) Δ hΔ

end TightExistsMixedLemmas

/-- fully preemptive FP (priorities = task indices), generic -/
theorem fp_preemptive_tight_realisable (ts : List (Arr × ℕ)) (i : ℕ) (hi : i < ts.length)
    (hwf : ∀ p ∈ ts, p.1.WF ∧ p.1.Exact ∧ 1 ≤ p.2) (t₀ : ℕ)
    (hreal : ∀ p ∈ ts, RealisableAt p.1 t₀) (limit R : ℕ)
    (hR : fpPreemptive (.rbf (ts.getD i default).1 (.scalar (ts.getD i default).2))
      ((ts.take i).map fun p => RB.rbf p.1 (.scalar p.2)) limit = .ok R)
    (hRpos : 0 < R) :
    ∃ s : Sys, JlfpLegal s (hepFP s id) ∧ (∀ l x, ¬ s.np l x) ∧
      Compliant s ((ts.take (i + 1)).map fun p => (p.1, Cost.scalar p.2)) ∧
      ∃ j, j < s.n ∧ s.task j = i ∧ MeetsBound s j R ∧ ∀ R', R' < R → ¬ MeetsBound s j R' := by
  have hlen : (ts.take (i + 1)).length = i + 1 := by rw [List.length_take]; omega
  apply TightExistsMixedLemmas.coreG (ts.take (i + 1)) i hlen
    (fun p hp => hwf p (List.mem_of_mem_take hp)) t₀
    (fun p hp => hreal p (List.mem_of_mem_take hp)) limit R _ hRpos
  have e1 : (ts.take (i + 1)).getD i default = ts.getD i default := by
    rw [getD_eq_getElem' _ _ _ (by omega), getD_eq_getElem' _ _ _ hi, List.getElem_take]
  have e2 : (ts.take (i + 1)).take i = ts.take i := by
    rw [List.take_take]; congr 1; omega
  rw [e1, e2]
  exact hR

namespace TightExistsMixedLemmas
open TightExistsFPLemmas TightExistsNPLemmas TightFPLemmas FpSoundLemmas
  RTA.PruneCoreLemmas RTA.PruneFPLemmas

/-- the blocks of the job set plus, if `B > 0`, one lower-priority job of cost `B + 1`
released at `t₀ - 1` -/
def bsG (ts : List (Arr × ℕ)) (rf : Arr → List ℕ) (t₀ B : ℕ) : List (List ℕ × ℕ) :=
  blk ts rf ++ (if B = 0 then [] else [([t₀ - 1], B + 1)])

theorem bsG_lt (ts : List (Arr × ℕ)) (rf : Arr → List ℕ) (t₀ B k : ℕ) (hk : k < ts.length) :
    ∃ h : k < (bsG ts rf t₀ B).length, (bsG ts rf t₀ B)[k] = (rf (ts[k]).1, (ts[k]).2) := by
  have hblen := blk_length ts rf
  refine ⟨by unfold bsG; rw [List.length_append, hblen]; omega, ?_⟩
  unfold bsG
  rw [List.getElem_append_left (by rw [hblen]; exact hk)]
  simp only [blk, List.getElem_map]

theorem bsG_ge (ts : List (Arr × ℕ)) (rf : Arr → List ℕ) (t₀ B k : ℕ)
    (h : k < (bsG ts rf t₀ B).length) (hk : ts.length ≤ k) :
    B ≠ 0 ∧ k = ts.length ∧ (bsG ts rf t₀ B)[k] = ([t₀ - 1], B + 1) := by
  have hblen := blk_length ts rf
  by_cases hB : B = 0
  · exfalso
    unfold bsG at h
    rw [if_pos hB, List.append_nil, hblen] at h
    omega
  · have hlen : (bsG ts rf t₀ B).length = ts.length + 1 := by
      unfold bsG
      rw [if_neg hB, List.length_append, hblen]; rfl
    have hk' : k = ts.length := by omega
    refine ⟨hB, hk', ?_⟩
    subst hk'
    have e : bsG ts rf t₀ B = blk ts rf ++ [([t₀ - 1], B + 1)] := by
      unfold bsG; rw [if_neg hB]
    have e2 : ∀ (l : List (List ℕ × ℕ)) (h' : ts.length < l.length),
        l = blk ts rf ++ [([t₀ - 1], B + 1)] → l[ts.length] = ([t₀ - 1], B + 1) := by
      intro l h' hl
      subst hl
      rw [List.getElem_append_right (Nat.le_of_eq hblen)]
      simp [hblen]
    exact e2 _ h e

theorem bsG_len (ts : List (Arr × ℕ)) (rf : Arr → List ℕ) (t₀ B : ℕ) (hB : B ≠ 0) :
    ∃ h : ts.length < (bsG ts rf t₀ B).length,
      (bsG ts rf t₀ B)[ts.length] = ([t₀ - 1], B + 1) := by
  have hblen := blk_length ts rf
  have hlen : ts.length < (bsG ts rf t₀ B).length := by
    unfold bsG
    rw [if_neg hB, List.length_append, hblen]; simp
  exact ⟨hlen, (bsG_ge ts rf t₀ B ts.length hlen (le_refl _)).2.2⟩

/-- the statement for a task list whose LAST task is the analysed one -/
theorem coreNPG (ts : List (Arr × ℕ)) (i : ℕ) (hlen : ts.length = i + 1) (B : ℕ)
    (hwf : ∀ p ∈ ts, p.1.WF ∧ p.1.Exact ∧ 1 ≤ p.2) (t₀ : ℕ) (ht₀1 : 1 ≤ t₀)
    (hreal : ∀ p ∈ ts, RealisableAt p.1 t₀) (limit R : ℕ)
    (hR : fpNonpreemptive (ts.getD i default).1 (ts.getD i default).2 B
      ((ts.take i).map fun p => RB.rbf p.1 (.scalar p.2)) limit = .ok R)
    (hRpos : 0 < R) :
    ∃ s : Sys, JlfpLegal s (hepFP s id) ∧
      (∀ l, l < s.n → ∀ x, 1 ≤ x → x < s.cost l → s.np l x) ∧
      (∀ k, k ≤ i → TaskCompliant s k (ts.getD k default).1 (.scalar (ts.getD k default).2)) ∧
      (∀ l, l < s.n → i < s.task l → s.cost l ≤ B + 1) ∧
      ∃ j, j < s.n ∧ s.task j = i ∧ MeetsBound s j R ∧ ∀ R', R' < R → ¬ MeetsBound s j R' := by
  have hi : i < ts.length := by omega
  rw [getD_eq_getElem' ts i default hi] at hR
  have hhplen : (ts.take i).length = i := by rw [List.length_take]; omega
  have hhpget : ∀ k (hk : k < i), (ts.take i).getD k default = ts[k]'(Nat.lt_trans hk hi) := by
    intro k hk
    rw [getD_eq_getElem' _ _ _ (by rw [hhplen]; exact hk), List.getElem_take]
  have hwfo : ∀ p ∈ ts.take i, p.1.WF ∧ p.1.Exact ∧ 1 ≤ p.2 :=
    fun p hp' => hwf p (List.mem_of_mem_take hp')
  generalize ts.take i = hp at hR hhplen hhpget hwfo
  have hTi := (hwf _ (List.getElem_mem hi)).1
  have hEi := (hwf _ (List.getElem_mem hi)).2.1
  have hCi := (hwf _ (List.getElem_mem hi)).2.2
  have hwf' : (RB.rbf (ts[i]).1 (.scalar (ts[i]).2)).ArrWF := by
    simp only [RB.ArrWF]; exact hTi
  have hex' : (RB.rbf (ts[i]).1 (.scalar (ts[i]).2)).Exact := by
    simp only [RB.Exact]; exact ⟨hEi, Cost.scalar_strictPos _ hCi⟩
  have ho : OthersOK (hp.map fun p => RB.rbf p.1 (.scalar p.2)) := by
    intro o hoo
    obtain ⟨q, hq, rfl⟩ := List.mem_map.1 hoo
    obtain ⟨h1, h2, h3⟩ := hwfo q hq
    constructor
    · simp only [RB.ArrWF]; exact h1
    · simp only [RB.Exact]; exact ⟨h2, Cost.scalar_strictPos _ h3⟩
  have hCn : ¬ (ts[i]).2 < 1 := by omega
  have hlim : 1 ≤ limit := by
    rcases Nat.eq_zero_or_pos limit with h0 | h
    · subst h0
      unfold fpNonpreemptive at hR
      rw [decide_eq_false hCn, fpCore_eq, search_limit_zero] at hR
      cases hR
    · exact h
  obtain ⟨L, hL⟩ : ∃ L, naiveSolve (fun x => B + sumNeed (hp.map fun p => RB.rbf p.1 (.scalar p.2)) x +
      (RB.rbf (ts[i]).1 (.scalar (ts[i]).2)).need x) limit = .ok L := by
    rcases naiveSolve_cases (fun x => B + sumNeed (hp.map fun p => RB.rbf p.1 (.scalar p.2)) x +
      (RB.rbf (ts[i]).1 (.scalar (ts[i]).2)).need x) limit with h | h
    · exact h
    · unfold fpNonpreemptive at hR
      rw [decide_eq_false hCn, fpCore_eq, search_dedicated_eq_naive _
        (outer_mono _ _ B hwf' hex' ho) limit hlim, h] at hR
      cases hR
  -- the job set
  obtain ⟨rf, hrf⟩ := exists_rf ts t₀ L hreal
  have hinfo : ∀ k, k < (jobSetB (bsG ts rf t₀ B)).n →
      (∃ h : (jobSetB (bsG ts rf t₀ B)).task k < ts.length,
        t₀ ≤ (jobSetB (bsG ts rf t₀ B)).arr k ∧
        (jobSetB (bsG ts rf t₀ B)).cost k = (ts[(jobSetB (bsG ts rf t₀ B)).task k]).2) ∨
      ((jobSetB (bsG ts rf t₀ B)).task k = ts.length ∧
        (jobSetB (bsG ts rf t₀ B)).arr k = t₀ - 1 ∧
        (jobSetB (bsG ts rf t₀ B)).cost k = B + 1 ∧ B ≠ 0) := by
    intro k hk
    obtain ⟨h1, h2, h3⟩ := job_infoB (bsG ts rf t₀ B) k hk
    generalize (jobSetB (bsG ts rf t₀ B)).task k = tk at h1 h2 h3
    generalize (jobSetB (bsG ts rf t₀ B)).arr k = ak at h2
    generalize (jobSetB (bsG ts rf t₀ B)).cost k = ck at h3
    rcases Nat.lt_or_ge tk ts.length with hlt | hge
    · left
      obtain ⟨_, e⟩ := bsG_lt ts rf t₀ B tk hlt
      rw [e] at h2 h3
      refine ⟨hlt, ?_, h3⟩
      exact (hrf _ (List.getElem_mem hlt)).2.2.1 ak h2
    · right
      obtain ⟨hB, e1, e2⟩ := bsG_ge ts rf t₀ B tk h1 hge
      rw [e2] at h2 h3
      exact ⟨e1, by simpa using h2, h3, hB⟩
  have hpos : ∀ k, k < (jobSetB (bsG ts rf t₀ B)).n → 1 ≤ (jobSetB (bsG ts rf t₀ B)).cost k := by
    intro k hk
    rcases hinfo k hk with ⟨h1, _, h2⟩ | ⟨_, _, h2, _⟩
    · rw [h2]; exact (hwf _ (List.getElem_mem h1)).2.2
    · rw [h2]; omega
  obtain ⟨sched, hl⟩ := exists_fp_nonpreemptive_schedule (jobSetB (bsG ts rf t₀ B)) hpos
  have hri : ∀ k (hk : k < ts.length), relsOf ((jobSetB (bsG ts rf t₀ B)).withSchedNP sched) k
      = rf (ts[k]).1 := by
    intro k hk
    obtain ⟨h, e⟩ := bsG_lt ts rf t₀ B k hk
    rw [relsB _ sched k h, e]
  have hexb : B ≠ 0 → ∃ b, b < ((jobSetB (bsG ts rf t₀ B)).withSchedNP sched).n ∧
      ((jobSetB (bsG ts rf t₀ B)).withSchedNP sched).task b = ts.length := by
    intro hB
    obtain ⟨h, e⟩ := bsG_len ts rf t₀ B hB
    exact job_existsB (bsG ts rf t₀ B) ts.length h (t₀ - 1) (by rw [e]; simp)
  have hinfo' : ∀ k, k < ((jobSetB (bsG ts rf t₀ B)).withSchedNP sched).n →
      (∃ h : ((jobSetB (bsG ts rf t₀ B)).withSchedNP sched).task k < ts.length,
        t₀ ≤ ((jobSetB (bsG ts rf t₀ B)).withSchedNP sched).arr k ∧
        ((jobSetB (bsG ts rf t₀ B)).withSchedNP sched).cost k
          = (ts[((jobSetB (bsG ts rf t₀ B)).withSchedNP sched).task k]).2) ∨
      (((jobSetB (bsG ts rf t₀ B)).withSchedNP sched).task k = ts.length ∧
        ((jobSetB (bsG ts rf t₀ B)).withSchedNP sched).arr k = t₀ - 1 ∧
        ((jobSetB (bsG ts rf t₀ B)).withSchedNP sched).cost k = B + 1 ∧ B ≠ 0) := hinfo
  have hpos' : ∀ k, k < ((jobSetB (bsG ts rf t₀ B)).withSchedNP sched).n →
      1 ≤ ((jobSetB (bsG ts rf t₀ B)).withSchedNP sched).cost k := hpos
  have hnpall : ∀ l, l < ((jobSetB (bsG ts rf t₀ B)).withSchedNP sched).n → ∀ x, 1 ≤ x →
      x < ((jobSetB (bsG ts rf t₀ B)).withSchedNP sched).cost l →
      ((jobSetB (bsG ts rf t₀ B)).withSchedNP sched).np l x := fun _ _ _ h1 h2 => ⟨h1, h2⟩
  have hnpdef : ∀ l x, ((jobSetB (bsG ts rf t₀ B)).withSchedNP sched).np l x →
      1 ≤ x ∧ x < ((jobSetB (bsG ts rf t₀ B)).withSchedNP sched).cost l := fun _ _ h => h
  clear hinfo hpos
  generalize (jobSetB (bsG ts rf t₀ B)).withSchedNP sched = s
    at hl hri hexb hinfo' hpos' hnpall hnpdef
  -- consequences
  have hci : ∀ k (hk : k < ts.length) j, j < s.n → s.task j = k → s.cost j = (ts[k]).2 := by
    intro k hk j hj hjk
    rcases hinfo' j hj with ⟨h1, _, h2⟩ | ⟨h1, _⟩
    · rw [h2]; simp only [hjk]
    · omega
  have hlow : ∀ j, j < s.n → i < s.task j →
      s.task j = i + 1 ∧ s.arr j = t₀ - 1 ∧ s.cost j = B + 1 ∧ B ≠ 0 := by
    intro j hj hjt
    rcases hinfo' j hj with ⟨h1, _⟩ | ⟨h1, h2, h3, h4⟩
    · omega
    · exact ⟨by omega, h2, h3, h4⟩
  have hrel : ∀ j, j < s.n → s.task j ≤ i → t₀ ≤ s.arr j := by
    intro j hj hjt
    rcases hinfo' j hj with ⟨_, h2, _⟩ | ⟨h1, _⟩
    · exact h2
    · omega
  have hreal' : ∀ k (hk : k < ts.length), RealisesFrom (ts[k]).1 (relsOf s k) t₀ L := by
    intro k hk
    rw [hri k hk]
    exact (hrf _ (List.getElem_mem hk)).2.2
  have hTC : ∀ k (hk : k < ts.length), TaskCompliant s k (ts[k]).1 (.scalar (ts[k]).2) := by
    intro k hk
    obtain ⟨hs, ha, _⟩ := hrf _ (List.getElem_mem hk)
    exact taskCompliantG s _ _ k _ (hri k hk) hs ha (hci k hk)
  have hordered : ∀ a b, a < s.n → b < s.n → s.task a = s.task b → a ≤ b → s.arr a ≤ s.arr b := by
    intro a b ha hb hab hle
    rcases Nat.lt_or_ge i (s.task b) with hgt | hle'
    · have h1 := hlow a ha (by omega)
      have h2 := hlow b hb hgt
      omega
    · exact ordered_of_sorted_task s (s.task b) (hTC (s.task b) (by omega)).sorted a b ha hb hab rfl hle
  have hwtask : ∀ k (hk : k < ts.length) t d, workOf s (fun x => x = k) t (t + d)
      ≤ (ts[k]).2 * (ts[k]).1.N d := by
    intro k hk t d
    have := task_work_le s k (ts[k]).1 (Cost.scalar (ts[k]).2)
      (hwf _ (List.getElem_mem hk)).1 trivial (hTC k hk) t d
    simpa only [Cost.ofJobs] using this
  have hwexact : ∀ k (hk : k < ts.length) Δ, Δ ≤ L → workOf s (fun x => x = k) t₀ (t₀ + Δ)
      = (ts[k]).2 * (ts[k]).1.N Δ := by
    intro k hk Δ hΔ
    rw [workOf_const s k (ts[k]).2 t₀ Δ (fun j hj hjk => hci k hk j hj hjk),
      (hreal' k hk).2 Δ hΔ]
  have hS : FpSetting s id i (.rbf (ts[i]).1 (.scalar (ts[i]).2))
      (hp.map fun p => RB.rbf p.1 (.scalar p.2)) B := by
    refine ⟨hl, fun a b h => h, hordered, ?_, ?_, ?_, hpos'⟩
    · intro t d
      have := hwtask i hi t d
      simpa only [RB.need, Cost.ofJobs] using this
    · intro t d
      show workOf s (fun x => x < i) t (t + d) ≤ _
      rw [workOf_lt_eq_sum, sumNeed_scalar, hhplen]
      apply Finset.sum_le_sum
      intro k hk
      have hk' := mem_range.1 hk
      rw [hhpget k hk']
      exact hwtask k (by omega) t d
    · intro l hl' hlt x len h
      have hlt' : i < s.task l := hlt
      obtain ⟨_, _, hc, _⟩ := hlow l hl' hlt'
      rcases Nat.eq_zero_or_pos len with h0 | h0
      · omega
      · have h1 := hnpdef _ _ (h 0 h0)
        have h2 := hnpdef _ _ (h (len - 1) (by omega))
        omega
  have hcompl : ∀ k, k ≤ i → TaskCompliant s k (ts.getD k default).1
      (.scalar (ts.getD k default).2) := by
    intro k hk
    have hk' : k < ts.length := by omega
    rw [getD_eq_getElem' ts k default hk']
    exact hTC k hk'
  refine ⟨s, hl, hnpall, hcompl, fun l hl' hlt => le_of_eq (hlow l hl' hlt).2.2.1, ?_⟩
  apply fp_nonpreemptive_bound_attained s i (ts[i]).1 (ts[i]).2 B hp hS
    hnpall hTi hEi hCi hwfo limit R L t₀ hR hL ?_ ?_ ?_ ?_ ?_ hRpos
  · intro t d
    rw [cntOf_eq_cnt]
    exact Arr.bounds (ts[i]).1 hTi _ (hTC i hi).adm t d
  · intro Δ hΔ
    rw [cntOf_eq_cnt]
    exact (hreal' i hi).2 Δ hΔ
  · intro k hk hki
    exact hci i hi k hk hki
  · intro Δ hΔ
    rw [workOf_lt_eq_sum, sumNeed_scalar, hhplen]
    apply Finset.sum_congr rfl
    intro k hk
    have hk' := mem_range.1 hk
    rw [hhpget k hk']
    exact hwexact k (by omega) Δ hΔ
  · by_cases hB : B = 0
    · exact Or.inl hB
    · right
      obtain ⟨b₀, hb₀, hb₀t⟩ := hexb hB
      obtain ⟨_, hb₀a, hb₀c, _⟩ := hlow b₀ hb₀ (by omega)
      have hb₀s : svc s b₀ (t₀ - 1) = 0 := J.svc_zero_before hl b₀ (t₀ - 1) (by omega)
      obtain ⟨b, hb⟩ := hl.wc (t₀ - 1) ⟨b₀, hb₀, by unfold Pending; omega⟩
      obtain ⟨hbn, hbp⟩ := hl.valid _ _ hb
      have hbp1 : s.arr b ≤ t₀ - 1 := hbp.1
      have hbt : i < s.task b := by
        rcases Nat.lt_or_ge i (s.task b) with h | h
        · exact h
        · have := hrel b hbn h
          omega
      obtain ⟨_, hba, hbc, _⟩ := hlow b hbn hbt
      exact ⟨b, hbn, hbt, hbc, ht₀1, hb, J.svc_zero_before hl b (t₀ - 1) (by omega)⟩

end TightExistsMixedLemmas

/-- fully non-preemptive FP, generic (blocking bound `B`: one lower-priority job of cost `B + 1`
released one slot before the critical instant when `B > 0`) -/
theorem fp_nonpreemptive_tight_realisable (ts : List (Arr × ℕ)) (i : ℕ) (hi : i < ts.length) (B : ℕ)
    (hwf : ∀ p ∈ ts, p.1.WF ∧ p.1.Exact ∧ 1 ≤ p.2) (t₀ : ℕ) (ht₀ : 1 ≤ t₀)
    (hreal : ∀ p ∈ ts, RealisableAt p.1 t₀) (limit R : ℕ)
    (hR : fpNonpreemptive (ts.getD i default).1 (ts.getD i default).2 B
      ((ts.take i).map fun p => RB.rbf p.1 (.scalar p.2)) limit = .ok R)
    (hRpos : 0 < R) :
    ∃ s : Sys, JlfpLegal s (hepFP s id) ∧
      (∀ l, l < s.n → ∀ x, 1 ≤ x → x < s.cost l → s.np l x) ∧
      (∀ k, k ≤ i → TaskCompliant s k (ts.getD k default).1 (.scalar (ts.getD k default).2)) ∧
      (∀ l, l < s.n → i < s.task l → s.cost l ≤ B + 1) ∧
      ∃ j, j < s.n ∧ s.task j = i ∧ MeetsBound s j R ∧ ∀ R', R' < R → ¬ MeetsBound s j R' := by
  have hlen : (ts.take (i + 1)).length = i + 1 := by rw [List.length_take]; omega
  have e1 : ∀ k, k ≤ i → (ts.take (i + 1)).getD k default = ts.getD k default := by
    intro k hk
    rw [getD_eq_getElem' _ _ _ (by omega), getD_eq_getElem' _ _ _ (by omega), List.getElem_take]
  have e2 : (ts.take (i + 1)).take i = ts.take i := by
    rw [List.take_take]; congr 1; omega
  obtain ⟨s, h1, h2, h3, h4, h5⟩ := TightExistsMixedLemmas.coreNPG (ts.take (i + 1)) i hlen B
    (fun p hp => hwf p (List.mem_of_mem_take hp)) t₀ ht₀
    (fun p hp => hreal p (List.mem_of_mem_take hp)) limit R
    (by rw [e1 i (le_refl _), e2]; exact hR) hRpos
  refine ⟨s, h1, h2, ?_, h4, h5⟩
  intro k hk
  have := h3 k hk
  rw [e1 k hk] at this
  exact this

/-- C18 for mixed task sets, FIFO -/
theorem fifo_tight_mixed (ts : List (Arr × ℕ)) (t₀ : ℕ)
    (hk : ∀ p ∈ ts, RealisableKind p.1 t₀ ∧ 1 ≤ p.2) (limit R : ℕ)
    (hR : fifoRta (taskSetRB (ts.map fun p => (p.1, Cost.scalar p.2))) limit = .ok R) (hRpos : 0 < R) :
    ∃ s : Sys, FifoLegal s ∧ Compliant s (ts.map fun p => (p.1, Cost.scalar p.2)) ∧
      ∃ j, j < s.n ∧ MeetsBound s j R ∧ ∀ R', R' < R → ¬ MeetsBound s j R' :=
  fifo_tight_realisable ts
    (fun p hp => ⟨(realisableKind_spec p.1 t₀ (hk p hp).1).1, (realisableKind_spec p.1 t₀ (hk p hp).1).2.1, (hk p hp).2⟩)
    t₀ (fun p hp => (realisableKind_spec p.1 t₀ (hk p hp).1).2.2) limit R hR hRpos

/-- C18 for mixed task sets, fully preemptive FP -/
theorem fp_preemptive_tight_mixed (ts : List (Arr × ℕ)) (i : ℕ) (hi : i < ts.length) (t₀ : ℕ)
    (hk : ∀ p ∈ ts, RealisableKind p.1 t₀ ∧ 1 ≤ p.2) (limit R : ℕ)
    (hR : fpPreemptive (.rbf (ts.getD i default).1 (.scalar (ts.getD i default).2))
      ((ts.take i).map fun p => RB.rbf p.1 (.scalar p.2)) limit = .ok R)
    (hRpos : 0 < R) :
    ∃ s : Sys, JlfpLegal s (hepFP s id) ∧ (∀ l x, ¬ s.np l x) ∧
      Compliant s ((ts.take (i + 1)).map fun p => (p.1, Cost.scalar p.2)) ∧
      ∃ j, j < s.n ∧ s.task j = i ∧ MeetsBound s j R ∧ ∀ R', R' < R → ¬ MeetsBound s j R' :=
  fp_preemptive_tight_realisable ts i hi
    (fun p hp => ⟨(realisableKind_spec p.1 t₀ (hk p hp).1).1, (realisableKind_spec p.1 t₀ (hk p hp).1).2.1, (hk p hp).2⟩)
    t₀ (fun p hp => (realisableKind_spec p.1 t₀ (hk p hp).1).2.2) limit R hR hRpos

/-- C18 for mixed task sets, fully non-preemptive FP -/
theorem fp_nonpreemptive_tight_mixed (ts : List (Arr × ℕ)) (i : ℕ) (hi : i < ts.length) (B t₀ : ℕ) (ht₀ : 1 ≤ t₀)
    (hk : ∀ p ∈ ts, RealisableKind p.1 t₀ ∧ 1 ≤ p.2) (limit R : ℕ)
    (hR : fpNonpreemptive (ts.getD i default).1 (ts.getD i default).2 B
      ((ts.take i).map fun p => RB.rbf p.1 (.scalar p.2)) limit = .ok R)
    (hRpos : 0 < R) :
    ∃ s : Sys, JlfpLegal s (hepFP s id) ∧
      (∀ l, l < s.n → ∀ x, 1 ≤ x → x < s.cost l → s.np l x) ∧
      (∀ k, k ≤ i → TaskCompliant s k (ts.getD k default).1 (.scalar (ts.getD k default).2)) ∧
      (∀ l, l < s.n → i < s.task l → s.cost l ≤ B + 1) ∧
      ∃ j, j < s.n ∧ s.task j = i ∧ MeetsBound s j R ∧ ∀ R', R' < R → ¬ MeetsBound s j R' :=
  fp_nonpreemptive_tight_realisable ts i hi B
    (fun p hp => ⟨(realisableKind_spec p.1 t₀ (hk p hp).1).1, (realisableKind_spec p.1 t₀ (hk p hp).1).2.1, (hk p hp).2⟩)
    t₀ ht₀ (fun p hp => (realisableKind_spec p.1 t₀ (hk p hp).1).2.2) limit R hR hRpos

/-- non-vacuity of the kinds: a sporadic task with jitter, a periodic task and a bursty
extrapolating curve, aligned at `t₀ = 3` -/
example : RealisableKind (.sporadic 10 3) 3 ∧ RealisableKind (.periodic 7) 3 ∧
    RealisableKind (.xcurve [1, 10, 11]) 3 := by
  refine ⟨Or.inl ⟨10, 3, rfl, by omega, by omega⟩, Or.inr (Or.inl ⟨7, rfl, by omega⟩),
    Or.inr (Or.inr ⟨[1, 10, 11], rfl, by decide, by decide, ?_⟩)⟩
  intro n k hn hk
  have hn' : n < 3 := hn
  have : (n = 1 ∧ k = 0) ∨ (n = 2 ∧ k = 0) ∨ (n = 2 ∧ k = 1) := by omega
  rcases this with ⟨rfl, rfl⟩ | ⟨rfl, rfl⟩ | ⟨rfl, rfl⟩ <;> decide

end RTA.Sched
