import RTA.Lemmas.TightFP
/-! C18, fully non-preemptive fixed priority: the bound is attained.

Setting as in `TightFP.lean` (priorities = task indices), every job fully non-preemptive
once started.  From `t₀` on the analysed task `i` and the higher-priority tasks realise their
curves, jobs of `i` run for the WCET `C`, and — if the blocking bound `B` is positive — a
lower-priority job of cost `B + 1` starts exactly one slot before `t₀`.  Then in EVERY legal
schedule some job of task `i` has a response time equal to the bound. -/

open Finset

namespace RTA.Sched
open RTA RTA.Spec

namespace TightNPLemmas

/-- the service of a job does not change over slots that serve other jobs -/
theorem svc_const (s : Sys) (j a : ℕ) : ∀ len,
    (∀ u, a ≤ u → u < a + len → s.sched u ≠ some j) → svc s j (a + len) = svc s j a := by
  intro len
  induction len with
  | zero => intro _; rfl
  | succ len ih =>
    intro h
    have h1 := ih (fun u h1 h2 => h u h1 (by omega))
    have h2 := h (a + len) (by omega) (by omega)
    show svc s j (a + len) + (if s.sched (a + len) = some j then 1 else 0) = svc s j a
    rw [if_neg h2, h1, Nat.add_zero]

/-- at most one unit of service per slot -/
theorem svc_le_len (s : Sys) (j a : ℕ) : ∀ len, svc s j (a + len) ≤ svc s j a + len := by
  intro len
  induction len with
  | zero => exact le_refl _
  | succ len ih =>
    show svc s j (a + len) + (if s.sched (a + len) = some j then 1 else 0) ≤ svc s j a + (len + 1)
    split <;> omega

/-- a fully non-preemptive job that starts in slot `u` is served in the slots
`u, …, u + cost - 1` -/
theorem np_run {s : Sys} {hep : ℕ → ℕ → Prop} (hl : JlfpLegal s hep) (b u : ℕ)
    (hs : s.sched u = some b) (h0 : svc s b u = 0)
    (hnp : ∀ x, 1 ≤ x → x < s.cost b → s.np b x) :
    ∀ d, d < s.cost b → s.sched (u + d) = some b ∧ svc s b (u + d + 1) = d + 1 := by
  intro d
  induction d with
  | zero =>
    intro _
    refine ⟨hs, ?_⟩
    show svc s b u + (if s.sched u = some b then 1 else 0) = 0 + 1
    rw [if_pos hs, h0]
  | succ d ih =>
    intro hd
    obtain ⟨h1, h2⟩ := ih (by omega)
    have hc := hl.cont (u + d) b h1 (by omega) (by rw [h2]; exact hnp _ (by omega) (by omega))
    have e : u + (d + 1) = u + d + 1 := by omega
    rw [e]
    refine ⟨hc, ?_⟩
    show svc s b (u + d + 1) + (if s.sched (u + d + 1) = some b then 1 else 0) = d + 1 + 1
    rw [if_pos hc, h2]

end TightNPLemmas
open TightNPLemmas TightFPLemmas TightLemmas FpSoundLemmas RTA.PruneCoreLemmas RTA.PruneFPLemmas

theorem fp_nonpreemptive_bound_attained (s : Sys) (i : ℕ) (a : Arr) (C B : ℕ) (hp : List (Arr × ℕ))
    (hS : FpSetting s id i (.rbf a (.scalar C)) (hp.map fun p => RB.rbf p.1 (.scalar p.2)) B)
    (hnpall : ∀ l, l < s.n → ∀ x, 1 ≤ x → x < s.cost l → s.np l x)
    (hwf : a.WF) (hex : a.Exact) (hC : 1 ≤ C)
    (hwfo : ∀ p ∈ hp, p.1.WF ∧ p.1.Exact ∧ 1 ≤ p.2)
    (limit R L t₀ : ℕ)
    (hR : fpNonpreemptive a C B (hp.map fun p => RB.rbf p.1 (.scalar p.2)) limit = .ok R)
    (hL : naiveSolve (fun x => B + sumNeed (hp.map fun p => RB.rbf p.1 (.scalar p.2)) x +
        (RB.rbf a (.scalar C)).need x) limit = .ok L)
    (hcnt : ∀ t d, cntOf s (fun x => x = i) t (t + d) ≤ a.N d)
    (hown : ∀ Δ, Δ ≤ L → cntOf s (fun x => x = i) t₀ (t₀ + Δ) = a.N Δ)
    (hcost : ∀ k, k < s.n → s.task k = i → s.cost k = C)
    (hhp : ∀ Δ, Δ ≤ L → workOf s (fun x => x < i) t₀ (t₀ + Δ) =
        sumNeed (hp.map fun p => RB.rbf p.1 (.scalar p.2)) Δ)
    (hblock : B = 0 ∨ ∃ b, b < s.n ∧ i < s.task b ∧ s.cost b = B + 1 ∧ 1 ≤ t₀ ∧
        s.sched (t₀ - 1) = some b ∧ svc s b (t₀ - 1) = 0)
    (hRpos : 0 < R) :
    ∃ j, j < s.n ∧ s.task j = i ∧ MeetsBound s j R ∧ ∀ R', R' < R → ¬ MeetsBound s j R' := by
  classical
  have hwf' : (RB.rbf a (.scalar C)).ArrWF := by simp only [RB.ArrWF]; exact hwf
  have hex' : (RB.rbf a (.scalar C)).Exact := by
    simp only [RB.Exact]; exact ⟨hex, Cost.scalar_strictPos C hC⟩
  have ho : OthersOK (hp.map fun p => RB.rbf p.1 (.scalar p.2)) := by
    intro o hoo
    obtain ⟨q, hq, rfl⟩ := List.mem_map.1 hoo
    obtain ⟨h1, h2, h3⟩ := hwfo q hq
    constructor
    · simp only [RB.ArrWF]; exact h1
    · simp only [RB.Exact]; exact ⟨h2, Cost.scalar_strictPos _ h3⟩
  generalize (hp.map fun p => RB.rbf p.1 (.scalar p.2)) = others at hS hR hL hhp ho
  have hneed : ∀ d, (RB.rbf a (.scalar C)).need d = C * a.N d := fun d => by
    simp only [RB.need, Cost.ofJobs]
  have hmono := RB.need_mono _ hwf' hex'
  have hl := hS.legal
  have hmeets := fp_nonpreemptive_sound s id i a C others B hS hwf hex ho hcnt
    (fun j hj hji => ⟨le_of_eq (hcost j hj hji), fun x h1 h2 => hnpall j hj x h1 h2⟩) limit R hR
  have hlim : 1 ≤ limit := by
    rcases Nat.eq_zero_or_pos limit with h0 | h
    · subst h0
      unfold fpNonpreemptive at hR
      rw [decide_eq_false (by omega : ¬ C < 1), fpCore_eq, search_limit_zero] at hR
      cases hR
    · exact h
  -- task `i` has a job (otherwise the bound is 0)
  have hjob : ∃ j, j < s.n ∧ s.task j = i := by
    by_contra hno
    push Not at hno
    have hN : ∀ Δ, Δ ≤ L → a.N Δ = 0 := by
      intro Δ hΔ
      rw [← hown Δ hΔ]
      unfold cntOf
      apply sum_eq_zero
      intro k hk
      rw [if_neg]
      intro h
      exact hno k (mem_range.1 hk) h.1
    obtain ⟨S, _, hm, he⟩ := fpCore_form (RB.rbf a (.scalar C)) others B (C - 1) limit hwf' hex' ho
      hlim (scalar_hstep a C (C - 1) (by omega)) L hL
    have hS0 : S = [] := by
      apply List.eq_nil_iff_forall_not_mem.2
      intro A hA
      obtain ⟨hAL, hlt⟩ := (hm A).1 hA
      rw [hneed, hneed, hN A (by omega), hN (A + 1) (by omega)] at hlt
      omega
    unfold fpNonpreemptive at hR
    rw [decide_eq_false (by omega : ¬ C < 1), he, hS0] at hR
    simp only [List.map_nil, maxResponseTime] at hR
    injection hR with hR
    omega
  have hpos : 0 < (RB.rbf a (.scalar C)).need 1 := by
    obtain ⟨j, hj, hji⟩ := hjob
    have h1 := hS.w_tua (s.arr j) 1
    rw [workOf_eq] at h1
    have h2 := workP_split s (fun k => s.task k = i ∧ s.arr j ≤ s.arr k ∧ s.arr k < s.arr j + 1)
      j hj ⟨hji, le_refl _, by omega⟩
    have := hS.cost_pos j hj
    omega
  have hposN : 0 < a.N 1 := by
    apply Nat.pos_of_ne_zero
    intro h0
    rw [hneed, h0, Nat.mul_zero] at hpos
    omega
  -- the maximum is attained at some offset `A < L`
  rw [fpNonpreemptive_eq_naive a C B others limit hwf hex hC ho hlim hposN, naiveFp_eq, hL] at hR
  simp only at hR
  have hmem := naiveMax_attained _ R hR hRpos
  obtain ⟨A, hA, hfA⟩ := List.mem_map.1 hmem
  have hAL : A < L := List.mem_range.1 hA
  unfold fpF at hfA
  rcases naiveSolve_cases
    (fun AF => B + ((RB.rbf a (.scalar C)).need (A + 1) - (C - 1)) + sumNeed others AF) limit with
    ⟨AF, h⟩ | h
  swap
  · rw [h] at hfA; cases hfA
  rw [h] at hfA
  injection hfA with hfA
  obtain ⟨_, _, hleast⟩ := (naiveSolve_ok_iff _ _ _).1 h
  have hLs := ((naiveSolve_ok_iff _ _ _).1 hL).2.1
  have eL : max L 1 = L := by omega
  rw [eL] at hLs
  -- the last job of task `i` released in `[t₀, t₀ + A]`
  have hN1 : 0 < a.N (A + 1) := by
    apply Nat.pos_of_ne_zero
    intro h0
    have := hmono 1 (A + 1) (by omega)
    rw [hneed (A + 1), h0] at this
    omega
  have hne : ((range s.n).filter
      (fun k => s.task k = i ∧ t₀ ≤ s.arr k ∧ s.arr k < t₀ + (A + 1))).Nonempty := by
    by_contra hemp
    rw [Finset.not_nonempty_iff_eq_empty] at hemp
    have h0 : cntOf s (fun x => x = i) t₀ (t₀ + (A + 1)) = 0 := by
      unfold cntOf
      apply sum_eq_zero
      intro k hk
      rw [if_neg]
      intro hh
      have hkS : k ∈ (range s.n).filter
          (fun k => s.task k = i ∧ t₀ ≤ s.arr k ∧ s.arr k < t₀ + (A + 1)) := by
        rw [mem_filter]; exact ⟨hk, hh⟩
      rw [hemp] at hkS
      simp at hkS
    rw [hown _ (by omega)] at h0
    omega
  obtain ⟨Jb, hJS, hmax⟩ := Finset.exists_max_image _ id hne
  obtain ⟨hJr, hJi, hJa0, hJa1⟩ := mem_filter.1 hJS
  have hJ : Jb < s.n := mem_range.1 hJr
  have hcJ : s.cost Jb = C := hcost Jb hJ hJi
  refine ⟨Jb, hJ, hJi, hmeets Jb hJ hJi, ?_⟩
  intro R' hR' hm
  have hm : svc s Jb (s.arr Jb + R') = s.cost Jb := hm
  -- the slot in which `Jb` starts
  have hex1 : ∃ t, s.sched t = some Jb := by
    by_contra hno
    push Not at hno
    have := svc_const s Jb 0 (s.arr Jb + R') (fun u _ _ => hno u)
    rw [Nat.zero_add, hm] at this
    have h0 : svc s Jb 0 = 0 := rfl
    omega
  obtain ⟨st, hst, hfirst⟩ : ∃ st, s.sched st = some Jb ∧ ∀ u, u < st → s.sched u ≠ some Jb :=
    ⟨Nat.find hex1, Nat.find_spec hex1, fun u hu => Nat.find_min hex1 hu⟩
  have hsvc0 : svc s Jb st = 0 := by
    have := svc_const s Jb 0 st (fun u _ h2 => hfirst u (by omega))
    rw [Nat.zero_add] at this
    rw [this]; rfl
  have hpJ1 : s.arr Jb ≤ st := (hl.valid st Jb hst).2.1
  have hprio : ∀ k < s.n, Pending s k st → hepFP s id Jb k := by
    rcases hl.prio st Jb hst with ⟨t', ht', hs', _⟩ | hprio
    · exact absurd hs' (hfirst t' (by omega))
    · exact hprio
  have hnotpend : ∀ k, k < s.n → s.arr k ≤ st → ¬ hepFP s id Jb k →
      svc s k st = s.cost k := by
    intro k hk hka hnh
    have hnp : ¬ Pending s k st := fun hpk => hnh (hprio k hk hpk)
    unfold Pending at hnp
    have := J.svc_le_cost hl k st
    omega
  have hdoneI : ∀ k, k < s.n → k ≠ Jb → s.task k = i → t₀ ≤ s.arr k → s.arr k < t₀ + (A + 1) →
      svc s k st = s.cost k := by
    intro k hk hkne hki h1 h2
    have hkS : k ∈ (range s.n).filter
        (fun k => s.task k = i ∧ t₀ ≤ s.arr k ∧ s.arr k < t₀ + (A + 1)) := by
      rw [mem_filter]; exact ⟨mem_range.2 hk, hki, h1, h2⟩
    have hle : k ≤ Jb := hmax k hkS
    have hord := hS.ordered k Jb hk hJ (by rw [hki, hJi]) hle
    apply hnotpend k hk (by omega)
    unfold hepFP
    simp only [id]
    rintro (hh | ⟨_, hh⟩)
    · rw [hki, hJi] at hh; omega
    · omega
  have hdoneH : ∀ k, k < s.n → s.task k < i → s.arr k < st + 1 →
      svc s k st = s.cost k := by
    intro k hk hki h2
    apply hnotpend k hk (by omega)
    unfold hepFP
    simp only [id]
    rintro (hh | ⟨hh, _⟩)
    · rw [hJi] at hh; omega
    · rw [hJi] at hh; omega
  -- the blocking job occupies `[t₀, t₀ + B)`
  have hB : t₀ + B ≤ st ∧
      ∀ k, k < s.n → s.task k ≤ i → t₀ ≤ s.arr k → svc s k (t₀ + B) = 0 := by
    rcases hblock with hB0 | ⟨b, hbn, hbt, hbc, ht1, hbs, hb0⟩
    · rw [hB0]
      exact ⟨by omega, fun k _ _ hk => J.svc_zero_before hl k _ (by omega)⟩
    · obtain ⟨u, hu⟩ : ∃ u, t₀ = u + 1 := ⟨t₀ - 1, by omega⟩
      have e1 : t₀ - 1 = u := by omega
      rw [e1] at hbs hb0
      have hrun := np_run hl b u hbs hb0 (fun x h1 h2 => hnpall b hbn x h1 h2)
      have hrun' : ∀ v, t₀ ≤ v → v < t₀ + B → s.sched v = some b := by
        intro v h1 h2
        have := (hrun (v - u) (by omega)).1
        have e : u + (v - u) = v := by omega
        rw [e] at this
        exact this
      constructor
      · by_contra hlt
        have := hrun' st (by omega) (by omega)
        rw [hst] at this
        injection this with this
        have : s.task b = i := by rw [← this]; exact hJi
        omega
      · intro k hk hki hka
        have h1 := svc_const s k t₀ B (fun v h1 h2 hv => by
          rw [hrun' v h1 h2] at hv
          injection hv with hv
          rw [hv] at hbt
          omega)
        rw [h1]
        exact J.svc_zero_before hl k t₀ hka
  obtain ⟨hstB, hzeroB⟩ := hB
  -- count the service of the higher-priority and own jobs in `[t₀ + B, st)`
  obtain ⟨x, hx⟩ : ∃ x, st + 1 = t₀ + x := ⟨st + 1 - t₀, by omega⟩
  obtain ⟨y, hy⟩ : ∃ y, st = t₀ + B + y := ⟨st - (t₀ + B), by omega⟩
  have hx1 : 1 ≤ x := by omega
  let p : ℕ → Prop := fun k =>
    (k ≠ Jb ∧ (s.task k = i ∧ t₀ ≤ s.arr k ∧ s.arr k < t₀ + (A + 1))) ∨
    (s.task k < i ∧ t₀ ≤ s.arr k ∧ s.arr k < t₀ + x)
  have heq : J.servedP s p (t₀ + B + y) = J.workP s p := by
    unfold J.servedP J.workP
    apply sum_congr rfl
    intro k hk
    have hk' := mem_range.1 hk
    by_cases hpk : p k
    · rw [if_pos hpk, if_pos hpk, ← hy]
      rcases hpk with ⟨h0, h1, h2, h3⟩ | ⟨h1, h2, h3⟩
      · exact hdoneI k hk' h0 h1 h2 h3
      · exact hdoneH k hk' h1 (by omega)
    · rw [if_neg hpk, if_neg hpk]
  have hzero : J.servedP s p (t₀ + B) = 0 := by
    unfold J.servedP
    apply sum_eq_zero
    intro k hk
    by_cases hpk : p k
    · rw [if_pos hpk]
      rcases hpk with ⟨_, h1, h2, _⟩ | ⟨h1, h2, _⟩
      · exact hzeroB k (mem_range.1 hk) (by omega) h2
      · exact hzeroB k (mem_range.1 hk) (by omega) h2
    · rw [if_neg hpk]
  have hlen := servedP_le_len s p (t₀ + B) y
  have hwork : J.workP s p =
      J.workP s (fun k => k ≠ Jb ∧ (s.task k = i ∧ t₀ ≤ s.arr k ∧ s.arr k < t₀ + (A + 1))) +
      workOf s (fun x => x < i) t₀ (t₀ + x) := by
    rw [workOf_eq]
    exact workP_or_eq s _ _ (fun k h1 h2 => by have := h1.2.1; have := h2.1; omega)
  have hsplit := workP_split s (fun k => s.task k = i ∧ t₀ ≤ s.arr k ∧ s.arr k < t₀ + (A + 1))
    Jb hJ ⟨hJi, hJa0, hJa1⟩
  have hwI : workOf s (fun x => x = i) t₀ (t₀ + (A + 1)) = C * a.N (A + 1) := by
    rw [← hown (A + 1) (by omega)]
    unfold workOf cntOf
    rw [mul_sum]
    apply sum_congr rfl
    intro k hk
    by_cases hh : s.task k = i ∧ t₀ ≤ s.arr k ∧ s.arr k < t₀ + (A + 1)
    · rw [if_pos hh, if_pos hh, hcost k (mem_range.1 hk) hh.1, Nat.mul_one]
    · rw [if_neg hh, if_neg hh, Nat.mul_zero]
  rw [workOf_eq] at hwI
  have hCN : C ≤ C * a.N (A + 1) := Nat.le_mul_of_pos_right C hN1
  have hAFx : AF ≤ x := by
    rcases Nat.lt_or_ge L x with hLx | hxL
    · -- the busy-window length is itself a solution of the offset equation
      by_contra hlt'
      have hc := hleast L (by omega)
      rw [eL] at hc
      have := hmono (A + 1) L (by omega)
      omega
    · by_contra hlt'
      have hc := hleast x (by omega)
      have ex : max x 1 = x := by omega
      rw [ex, hneed] at hc
      have := hhp x hxL
      omega
  -- `Jb` cannot complete before `st + C`
  have hge : st + C ≤ s.arr Jb + R' := by
    by_contra hlt
    rcases Nat.lt_or_ge st (s.arr Jb + R') with h1 | h1
    · have := svc_le_len s Jb st (s.arr Jb + R' - st)
      have e : st + (s.arr Jb + R' - st) = s.arr Jb + R' := by omega
      rw [e, hm] at this
      omega
    · have := J.svc_mono (s := s) Jb h1
      omega
  omega

end RTA.Sched
