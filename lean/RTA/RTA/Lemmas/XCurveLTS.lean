import RTA.Lemmas.Extrapolate
/-! C13, cache transparency: every history of queries on clones sharing one
`ExtrapolatingCurve` cache returns what fresh objects would return. -/

namespace RTA

/-- the value returned by the `k`-th `next()` (k = 0, 1, …) of an iterator obtained from a
FRESH `ExtrapolatingCurve` over `d0` on which nothing else is ever done -/
def freshNext (d0 : List Nat) (k : Nat) : Option Nat :=
  (((XState.init d0).run (.newIter :: List.replicate (k + 1) (.next 0))).getLast?).join

/-- history-free reference semantics: `number_arrivals` answers `xcurveN d0`, the `k`-th
`next()` of any iterator answers `freshNext d0 k`; `cs` = number of `next()` calls so far
per iterator -/
def xPure (d0 : List Nat) : List XOp → List Nat → List (Option Nat)
  | [], _ => []
  | .na delta :: ops, cs => some (xcurveN d0 delta) :: xPure d0 ops cs
  | .newIter :: ops, cs => none :: xPure d0 ops (cs ++ [0])
  | .next i :: ops, cs =>
    match cs[i]? with
    | none => none :: xPure d0 ops cs
    | some k => freshNext d0 k :: xPure d0 ops (cs.set i (k + 1))

namespace XLTS

/-! ### prefixes stay iterated extrapolations -/

theorem iterExt_add (d : List Nat) (n k : Nat) : iterExt (iterExt d n) k = iterExt d (n + k) := by
  induction k with
  | zero => rfl
  | succ k ih =>
    show iterExt (iterExt d n) k ++ [extrapolateNext (iterExt (iterExt d n) k)]
      = iterExt d (n + k) ++ [extrapolateNext (iterExt d (n + k))]
    rw [ih]

theorem xAdvance_is_iterExt (dist fuel : Nat) : ∀ (P : List Nat) (nj : Nat),
    ∃ n, (xAdvance dist fuel P nj).1 = iterExt P n := by
  induction fuel with
  | zero => intro P nj; exact ⟨0, rfl⟩
  | succ f ih =>
    intro P nj
    unfold xAdvance
    split
    · obtain ⟨k, hk⟩ := extrapolateSteps_is_iterExt P (nj + 1) (nj + 1)
      obtain ⟨n, hn⟩ := ih (extrapolateSteps P (nj + 1) (nj + 1)) (nj + 1)
      exact ⟨k + n, by rw [hn, hk, iterExt_add]⟩
    · exact ⟨0, rfl⟩

theorem step_na (s : XState) (delta : Nat) :
    s.step (.na delta) =
      if delta = 0 then (s, some 0)
      else ({ s with pfx := extrapolate s.pfx (delta + 1) (extrapolateFuel s.pfx (delta + 1)) },
        some (curveN (extrapolate s.pfx (delta + 1) (extrapolateFuel s.pfx (delta + 1))) delta)) := rfl

theorem step_newIter (s : XState) :
    s.step .newIter =
      if s.pfx.length ≥ 2 then ({ s with iters := s.iters ++ [.ext 0 0] }, none)
      else ({ s with iters := s.iters ++ [.per (minDistance s.pfx 2) 0] }, none) := rfl

theorem step_next_none (s : XState) (i : Nat) (h : s.iters[i]? = none) :
    s.step (.next i) = (s, none) := by
  simp only [XState.step, h]

theorem step_next_per (s : XState) (i period j : Nat) (h : s.iters[i]? = some (.per period j)) :
    s.step (.next i) =
      ({ s with iters := s.iters.set i (.per period (j + 1)) }, some (period * j + 1)) := by
  simp only [XState.step, h]

theorem step_next_ext (s : XState) (i dist nj : Nat) (h : s.iters[i]? = some (.ext dist nj)) :
    s.step (.next i) =
      ({ pfx := (xAdvance dist (xAdvanceFuel s.pfx dist nj) s.pfx nj).1,
         iters := s.iters.set i
          (.ext (minDistance (xAdvance dist (xAdvanceFuel s.pfx dist nj) s.pfx nj).1
                  (xAdvance dist (xAdvanceFuel s.pfx dist nj) s.pfx nj).2)
                (xAdvance dist (xAdvanceFuel s.pfx dist nj) s.pfx nj).2) },
       some (1 + dist)) := by
  simp only [XState.step, h]

theorem step_pfx_iterExt (d0 : List Nat) (s : XState) (h : ∃ n, s.pfx = iterExt d0 n) (op : XOp) :
    ∃ m, (s.step op).1.pfx = iterExt d0 m := by
  obtain ⟨n, hn⟩ := h
  cases op with
  | na delta =>
    rw [step_na]
    split
    · exact ⟨n, hn⟩
    · obtain ⟨k, hk⟩ := extrapolate_is_iterExt s.pfx (delta + 1) (extrapolateFuel s.pfx (delta + 1))
      exact ⟨n + k, by show extrapolate s.pfx _ _ = _; rw [hk, hn, iterExt_add]⟩
  | newIter =>
    rw [step_newIter]
    split
    · exact ⟨n, hn⟩
    · exact ⟨n, hn⟩
  | next i =>
    cases hi : s.iters[i]? with
    | none => rw [step_next_none s i hi]; exact ⟨n, hn⟩
    | some it =>
      cases it with
      | per period j => rw [step_next_per s i period j hi]; exact ⟨n, hn⟩
      | ext dist nj =>
        rw [step_next_ext s i dist nj hi]
        obtain ⟨k, hk⟩ := xAdvance_is_iterExt dist (xAdvanceFuel s.pfx dist nj) s.pfx nj
        refine ⟨n + k, ?_⟩
        show (xAdvance dist (xAdvanceFuel s.pfx dist nj) s.pfx nj).1 = _
        rw [hk, hn, iterExt_add]

/-! ### the infinite extrapolated sequence -/

/-- entry `i` of the infinitely extrapolated delta-min sequence -/
def dInf (d0 : List Nat) (i : Nat) : Nat := (iterExt d0 (i + 1)).getD i 0

theorem iterExt_getD_dInf (d0 : List Nat) (n i : Nat) (hi : i < d0.length + n) :
    (iterExt d0 n).getD i 0 = dInf d0 i := by
  unfold dInf
  rcases Nat.le_total n (i + 1) with h | h
  · obtain ⟨k, hk⟩ : ∃ k, i + 1 = n + k := ⟨i + 1 - n, by omega⟩
    rw [hk, iterExt_getD_prefix d0 n k i hi]
  · obtain ⟨k, hk⟩ : ∃ k, n = (i + 1) + k := ⟨n - (i + 1), by omega⟩
    rw [hk, iterExt_getD_prefix d0 (i + 1) k i (by omega)]

theorem sorted_getD_le (l : List Nat) (hs : l.Pairwise (· ≤ ·)) (i j : Nat) (hij : i ≤ j)
    (hj : j < l.length) : l.getD i 0 ≤ l.getD j 0 := by
  rw [List.getD_eq_getElem?_getD, List.getD_eq_getElem?_getD,
    List.getElem?_eq_getElem (by omega), List.getElem?_eq_getElem hj]
  simp only [Option.getD_some]
  rcases Nat.lt_or_eq_of_le hij with h | h
  · exact List.pairwise_iff_getElem.1 hs i j (by omega) hj h
  · subst h; exact Nat.le_refl _

theorem dInf_mono (d0 : List Nat) (hwf : curveWF d0) (i j : Nat) (hij : i ≤ j) :
    dInf d0 i ≤ dInf d0 j := by
  rw [← iterExt_getD_dInf d0 (j + 1) i (by omega), ← iterExt_getD_dInf d0 (j + 1) j (by omega)]
  exact sorted_getD_le _ (iterExt_wf d0 hwf (j + 1)).2.1 i j hij (by rw [iterExt_length]; omega)

/-- `min_distance` on the infinite sequence -/
def minDInf (d0 : List Nat) (j : Nat) : Nat := if j > 1 then dInf d0 (j - 2) else 0

theorem minDInf_mono (d0 : List Nat) (hwf : curveWF d0) (i j : Nat) (hij : i ≤ j) :
    minDInf d0 i ≤ minDInf d0 j := by
  unfold minDInf
  split
  · rw [if_pos (by omega)]
    exact dInf_mono d0 hwf _ _ (by omega)
  · exact Nat.zero_le _

theorem minDistance_iterExt (d0 : List Nat) (n j : Nat) (h2 : 2 ≤ d0.length)
    (hj : j ≤ d0.length + n) : minDistance (iterExt d0 n) j = minDInf d0 j := by
  unfold minDistance minDInf
  split
  · rw [iterExt_length, Nat.min_eq_left (by omega), iterExt_getD_dInf d0 n (j - 2) (by omega)]
  · rfl

theorem dInf_unbounded (d0 : List Nat) (hwf : curveWF d0) (h2 : 2 ≤ d0.length) (b : Nat) :
    b < minDInf d0 ((b + 1) * d0.length + 1) := by
  have h := iterExt_last_ge d0 hwf h2 (b * d0.length)
  have e : d0.length + b * d0.length = (b + 1) * d0.length := by rw [Nat.add_mul]; omega
  rw [e, Nat.mul_div_cancel _ (by omega)] at h
  have hl := getD_last (iterExt d0 (b * d0.length)) (iterExt_wf d0 hwf _).1
  rw [iterExt_length, e] at hl
  rw [← hl, iterExt_getD_dInf d0 _ _ (by rw [e]; have : 0 < (b+1) * d0.length := Nat.mul_pos (by omega) (by omega); omega)] at h
  unfold minDInf
  have hpos : 0 < (b + 1) * d0.length := Nat.mul_pos (by omega) (by omega)
  rw [if_pos (by omega)]
  have e2 : (b + 1) * d0.length + 1 - 2 = (b + 1) * d0.length - 1 := by omega
  rw [e2]
  omega

/-! ### the iterator's `advance` on the infinite sequence -/

def advPure (d0 : List Nat) (dist : Nat) : Nat → Nat → Nat
  | 0, nj => nj
  | fuel + 1, nj => if minDInf d0 nj ≤ dist then advPure d0 dist fuel (nj + 1) else nj

/-- `r` is the first job count `≥ nj` whose minimum distance exceeds `dist` -/
def IsAdv (d0 : List Nat) (dist nj r : Nat) : Prop :=
  nj ≤ r ∧ dist < minDInf d0 r ∧ ∀ j, nj ≤ j → j < r → minDInf d0 j ≤ dist

theorem advPure_spec (d0 : List Nat) (dist fuel : Nat) : ∀ nj,
    (∃ j, nj ≤ j ∧ j < nj + fuel ∧ dist < minDInf d0 j) →
    IsAdv d0 dist nj (advPure d0 dist fuel nj) := by
  induction fuel with
  | zero => rintro nj ⟨j, h1, h2, _⟩; omega
  | succ f ih =>
    rintro nj ⟨j, h1, h2, h3⟩
    unfold advPure
    split
    · rename_i hc
      have hne : j ≠ nj := by rintro rfl; omega
      obtain ⟨a, b, c⟩ := ih (nj + 1) ⟨j, by omega, by omega, h3⟩
      refine ⟨by omega, b, ?_⟩
      intro j' hj1 hj2
      by_cases e : j' = nj
      · subst e; exact hc
      · exact c j' (by omega) hj2
    · rename_i hc
      exact ⟨Nat.le_refl _, by omega, fun j' a b => by omega⟩

theorem isAdv_unique (d0 : List Nat) (dist nj r r' : Nat) (h : IsAdv d0 dist nj r)
    (h' : IsAdv d0 dist nj r') : r = r' := by
  obtain ⟨a, b, c⟩ := h
  obtain ⟨a', b', c'⟩ := h'
  rcases Nat.lt_trichotomy r r' with hlt | heq | hgt
  · have := c' r a hlt; omega
  · exact heq
  · have := c r' a' hgt; omega

theorem fuel_ok (d0 : List Nat) (hwf : curveWF d0) (h2 : 2 ≤ d0.length) (dist nj L : Nat)
    (hL : d0.length ≤ L) :
    ∃ j, nj ≤ j ∧ j < nj + ((dist + 2) * (L + 2) + nj + 2) ∧ dist < minDInf d0 j := by
  have hub := dInf_unbounded d0 hwf h2 dist
  have hm : (dist + 1) * d0.length ≤ (dist + 2) * (L + 2) :=
    Nat.mul_le_mul (by omega) (by omega)
  by_cases hc : nj ≤ (dist + 1) * d0.length + 1
  · exact ⟨(dist + 1) * d0.length + 1, hc, by omega, hub⟩
  · refine ⟨nj, Nat.le_refl _, by omega, ?_⟩
    have := minDInf_mono d0 hwf ((dist + 1) * d0.length + 1) nj (by omega)
    omega

theorem advPure_indep (d0 : List Nat) (hwf : curveWF d0) (h2 : 2 ≤ d0.length) (dist nj L L' : Nat)
    (hL : d0.length ≤ L) (hL' : d0.length ≤ L') :
    advPure d0 dist ((dist + 2) * (L + 2) + nj + 2) nj
      = advPure d0 dist ((dist + 2) * (L' + 2) + nj + 2) nj :=
  isAdv_unique d0 dist nj _ _
    (advPure_spec d0 dist _ nj (fuel_ok d0 hwf h2 dist nj L hL))
    (advPure_spec d0 dist _ nj (fuel_ok d0 hwf h2 dist nj L' hL'))

/-! ### `extrapolateSteps` and `xAdvance` on an iterated extrapolation -/

theorem extSteps_spec (m fuel : Nat) : ∀ (P : List Nat), 2 ≤ P.length → m ≤ P.length + fuel →
    ∃ k, extrapolateSteps P m fuel = iterExt P k ∧ m ≤ P.length + k := by
  induction fuel with
  | zero => intro P _ hf; exact ⟨0, rfl, hf⟩
  | succ f ih =>
    intro P h2 hf
    unfold extrapolateSteps
    split
    · obtain ⟨k, hk, hm⟩ := ih (P ++ [extrapolateNext P]) (by simp; omega) (by simp; omega)
      refine ⟨k + 1, by rw [hk, iterExt_succ'], ?_⟩
      simp at hm; omega
    · exact ⟨0, rfl, by omega⟩

theorem xAdvance_eq (d0 : List Nat) (h2 : 2 ≤ d0.length) (dist fuel : Nat) : ∀ (n nj : Nat),
    nj ≤ d0.length + n →
    ∃ n', n ≤ n' ∧ xAdvance dist fuel (iterExt d0 n) nj = (iterExt d0 n', advPure d0 dist fuel nj)
      ∧ advPure d0 dist fuel nj ≤ d0.length + n' := by
  induction fuel with
  | zero => intro n nj h; exact ⟨n, Nat.le_refl _, rfl, h⟩
  | succ f ih =>
    intro n nj h
    unfold xAdvance advPure
    rw [minDistance_iterExt d0 n nj h2 h]
    split
    · obtain ⟨k, hk, hm⟩ := extSteps_spec (nj + 1) (nj + 1) (iterExt d0 n)
        (by rw [iterExt_length]; omega) (by omega)
      rw [hk, iterExt_add]
      rw [iterExt_length] at hm
      obtain ⟨n', h1, h3, h4⟩ := ih (n + k) (nj + 1) (by omega)
      exact ⟨n', by omega, h3, h4⟩
    · exact ⟨n, Nat.le_refl _, rfl, h⟩

/-! ### iterator states as a function of the number of `next()` calls -/

/-- `(dist, njobs)` of a `StepsIter` after `k` calls of `next()` -/
def iterState (d0 : List Nat) : Nat → Nat × Nat
  | 0 => (0, 0)
  | k + 1 =>
    (minDInf d0 (advPure d0 (iterState d0 k).1
        (xAdvanceFuel d0 (iterState d0 k).1 (iterState d0 k).2) (iterState d0 k).2),
     advPure d0 (iterState d0 k).1
        (xAdvanceFuel d0 (iterState d0 k).1 (iterState d0 k).2) (iterState d0 k).2)

def iterSt (d0 : List Nat) (k : Nat) : XIter :=
  if 2 ≤ d0.length then .ext (iterState d0 k).1 (iterState d0 k).2
  else .per (minDistance d0 2) k

def outOf : XIter → Nat
  | .ext dist _ => 1 + dist
  | .per p j => p * j + 1

def pureOut (d0 : List Nat) (k : Nat) : Option Nat := some (outOf (iterSt d0 k))

/-- `xPure` with an arbitrary iterator oracle -/
def xPureG (f : Nat → Option Nat) (d0 : List Nat) : List XOp → List Nat → List (Option Nat)
  | [], _ => []
  | .na delta :: ops, cs => some (xcurveN d0 delta) :: xPureG f d0 ops cs
  | .newIter :: ops, cs => none :: xPureG f d0 ops (cs ++ [0])
  | .next i :: ops, cs =>
    match cs[i]? with
    | none => none :: xPureG f d0 ops cs
    | some k => f k :: xPureG f d0 ops (cs.set i (k + 1))

structure Inv (d0 : List Nat) (s : XState) (cs : List Nat) : Prop where
  pfx : ∃ n, s.pfx = iterExt d0 n ∧ (d0.length < 2 → n = 0)
  iters : s.iters = cs.map (iterSt d0)
  bound : 2 ≤ d0.length → ∀ k ∈ cs, (iterState d0 k).2 ≤ s.pfx.length

theorem inv_na (d0 : List Nat) (hwf : curveWF d0) (s : XState) (cs : List Nat)
    (hI : Inv d0 s cs) (delta : Nat) :
    (s.step (.na delta)).2 = some (xcurveN d0 delta) ∧ Inv d0 (s.step (.na delta)).1 cs := by
  rw [step_na]
  split
  · rename_i h0
    subst h0
    exact ⟨by rw [xcurveN_zero], hI⟩
  · rename_i h0
    obtain ⟨⟨n, hn, hshort⟩, hit, hb⟩ := hI
    by_cases h2 : 2 ≤ d0.length
    · have hwfP := iterExt_wf d0 hwf n
      have hr := extrapolate_reaches (iterExt d0 n) hwfP (by rw [iterExt_length]; omega) (delta + 1)
      obtain ⟨m, hm⟩ := extrapolate_is_iterExt (iterExt d0 n) (delta + 1)
        (extrapolateFuel (iterExt d0 n) (delta + 1))
      rw [hm, iterExt_add] at hr
      rw [hn, hm, iterExt_add]
      refine ⟨?_, ⟨⟨n + m, rfl, fun h => by omega⟩, hit, ?_⟩⟩
      · show some (curveN (iterExt d0 (n + m)) delta) = _
        rw [curveN_small _ (iterExt_wf d0 hwf (n + m)) delta (by omega) (by omega),
          xcurveN_eq d0 hwf h2 delta (n + m) (by omega) (by omega)]
      · intro _ k hk
        have := hb h2 k hk
        show _ ≤ (iterExt d0 (n + m)).length
        rw [hn, iterExt_length] at this
        rw [iterExt_length]; omega
    · have hn0 := hshort (by omega)
      subst hn0
      have hp : s.pfx = d0 := hn
      rw [hp, extrapolate_short d0 _ _ (by omega)]
      refine ⟨?_, ⟨⟨0, rfl, fun _ => rfl⟩, hit, fun h => absurd h h2⟩⟩
      show some (curveN d0 delta) = _
      rw [xcurveN_short d0 delta (by omega)]

theorem iterSt_zero_long (d0 : List Nat) (h2 : 2 ≤ d0.length) : iterSt d0 0 = .ext 0 0 := by
  unfold iterSt; rw [if_pos h2]; rfl

theorem iterSt_zero_short (d0 : List Nat) (h2 : ¬ 2 ≤ d0.length) :
    iterSt d0 0 = .per (minDistance d0 2) 0 := by
  unfold iterSt; rw [if_neg h2]

theorem inv_newIter (d0 : List Nat) (s : XState) (cs : List Nat) (hI : Inv d0 s cs) :
    (s.step .newIter).2 = none ∧ Inv d0 (s.step .newIter).1 (cs ++ [0]) := by
  rw [step_newIter]
  obtain ⟨⟨n, hn, hshort⟩, hit, hb⟩ := hI
  have hb' : 2 ≤ d0.length → ∀ k ∈ cs ++ [0], (iterState d0 k).2 ≤ s.pfx.length := by
    intro h2 k hk
    rw [List.mem_append, List.mem_singleton] at hk
    rcases hk with hk | hk
    · exact hb h2 k hk
    · subst hk; exact Nat.zero_le _
  by_cases h2 : 2 ≤ d0.length
  · rw [if_pos (by rw [hn, iterExt_length]; omega)]
    refine ⟨rfl, ⟨⟨n, hn, hshort⟩, ?_, hb'⟩⟩
    show s.iters ++ [XIter.ext 0 0] = _
    rw [List.map_append, hit, List.map_singleton, iterSt_zero_long d0 h2]
  · have hn0 := hshort (by omega)
    subst hn0
    have hp : s.pfx = d0 := hn
    rw [if_neg (by rw [hp]; omega)]
    refine ⟨rfl, ⟨⟨0, hn, hshort⟩, ?_, hb'⟩⟩
    show s.iters ++ [XIter.per (minDistance s.pfx 2) 0] = _
    rw [List.map_append, hit, List.map_singleton, iterSt_zero_short d0 h2, hp]

theorem inv_next_none (d0 : List Nat) (s : XState) (cs : List Nat) (hI : Inv d0 s cs) (i : Nat)
    (hi : cs[i]? = none) : s.step (.next i) = (s, none) := by
  apply step_next_none
  rw [hI.iters, List.getElem?_map, hi]; rfl

theorem inv_next_some (d0 : List Nat) (hwf : curveWF d0) (s : XState) (cs : List Nat)
    (hI : Inv d0 s cs) (i k : Nat) (hi : cs[i]? = some k) :
    (s.step (.next i)).2 = pureOut d0 k ∧ Inv d0 (s.step (.next i)).1 (cs.set i (k + 1)) := by
  obtain ⟨⟨n, hn, hshort⟩, hit, hb⟩ := hI
  have hsi : s.iters[i]? = some (iterSt d0 k) := by
    rw [hit, List.getElem?_map, hi]; rfl
  have hkmem : k ∈ cs := List.mem_of_getElem? hi
  by_cases h2 : 2 ≤ d0.length
  · have hst : iterSt d0 k = .ext (iterState d0 k).1 (iterState d0 k).2 := by
      unfold iterSt; rw [if_pos h2]
    rw [hst] at hsi
    rw [step_next_ext s i _ _ hsi]
    have hbk := hb h2 k hkmem
    rw [hn, iterExt_length] at hbk
    obtain ⟨n', hn', hx, hle⟩ := xAdvance_eq d0 h2 (iterState d0 k).1
      (xAdvanceFuel (iterExt d0 n) (iterState d0 k).1 (iterState d0 k).2) n (iterState d0 k).2 hbk
    have hfuel : advPure d0 (iterState d0 k).1
        (xAdvanceFuel (iterExt d0 n) (iterState d0 k).1 (iterState d0 k).2) (iterState d0 k).2
        = (iterState d0 (k + 1)).2 := by
      show _ = advPure d0 (iterState d0 k).1
        (xAdvanceFuel d0 (iterState d0 k).1 (iterState d0 k).2) (iterState d0 k).2
      unfold xAdvanceFuel
      exact advPure_indep d0 hwf h2 _ _ _ _ (by rw [iterExt_length]; omega) (Nat.le_refl _)
    rw [hfuel] at hx hle
    rw [hn, hx]
    have hnew : iterSt d0 (k + 1)
        = .ext (minDistance (iterExt d0 n') (iterState d0 (k + 1)).2) (iterState d0 (k + 1)).2 := by
      unfold iterSt
      rw [if_pos h2, minDistance_iterExt d0 n' _ h2 hle]
      rfl
    refine ⟨?_, ⟨⟨n', rfl, fun h => by omega⟩, ?_, ?_⟩⟩
    · show some (1 + (iterState d0 k).1) = pureOut d0 k
      unfold pureOut
      rw [hst]; rfl
    · show s.iters.set i (.ext (minDistance (iterExt d0 n') (iterState d0 (k + 1)).2)
          (iterState d0 (k + 1)).2) = _
      rw [← hnew, hit, List.map_set]
    · intro _ k' hk'
      show _ ≤ (iterExt d0 n').length
      rw [iterExt_length]
      rcases List.mem_or_eq_of_mem_set hk' with h | h
      · have := hb h2 k' h
        rw [hn, iterExt_length] at this
        omega
      · subst h; exact hle
  · have hst : ∀ j, iterSt d0 j = .per (minDistance d0 2) j := by
      intro j; unfold iterSt; rw [if_neg h2]
    rw [hst] at hsi
    rw [step_next_per s i _ _ hsi]
    refine ⟨?_, ⟨⟨n, hn, hshort⟩, ?_, fun h => absurd h h2⟩⟩
    · show some (minDistance d0 2 * k + 1) = pureOut d0 k
      unfold pureOut
      rw [hst]; rfl
    · show s.iters.set i (.per (minDistance d0 2) (k + 1)) = _
      rw [← hst (k + 1), hit, List.map_set]

/-! ### histories -/

theorem run_cons (s : XState) (op : XOp) (ops : List XOp) :
    s.run (op :: ops) = (s.step op).2 :: (s.step op).1.run ops := rfl

theorem run_eq (d0 : List Nat) (hwf : curveWF d0) (ops : List XOp) : ∀ (s : XState) (cs : List Nat),
    Inv d0 s cs → s.run ops = xPureG (pureOut d0) d0 ops cs := by
  induction ops with
  | nil => intro s cs _; rfl
  | cons op ops ih =>
    intro s cs hI
    rw [run_cons]
    cases op with
    | na delta =>
      obtain ⟨h1, h2⟩ := inv_na d0 hwf s cs hI delta
      rw [h1, ih _ _ h2]; rfl
    | newIter =>
      obtain ⟨h1, h2⟩ := inv_newIter d0 s cs hI
      rw [h1, ih _ _ h2]; rfl
    | next i =>
      cases hi : cs[i]? with
      | none =>
        rw [inv_next_none d0 s cs hI i hi, ih _ _ hI]
        simp only [xPureG, hi]
      | some k =>
        obtain ⟨h1, h2⟩ := inv_next_some d0 hwf s cs hI i k hi
        rw [h1, ih _ _ h2]
        simp only [xPureG, hi]

theorem inv_init (d0 : List Nat) : Inv d0 (XState.init d0) [] :=
  ⟨⟨0, rfl, fun _ => rfl⟩, rfl, fun _ k hk => by simp at hk⟩

theorem xPureG_nexts_last (f : Nat → Option Nat) (d0 : List Nat) (m : Nat) : ∀ c,
    (xPureG f d0 (List.replicate (m + 1) (.next 0)) [c]).getLast? = some (f (c + m)) := by
  induction m with
  | zero => intro c; simp [xPureG, List.replicate]
  | succ m ih =>
    intro c
    have e : xPureG f d0 (List.replicate (m + 1 + 1) (.next 0)) [c]
        = f c :: xPureG f d0 (List.replicate (m + 1) (.next 0)) [c + 1] := by
      rw [List.replicate_succ]
      simp only [xPureG, List.getElem?_cons_zero, List.set_cons_zero]
    rw [e, List.getLast?_cons, ih (c + 1)]
    simp only [Option.getD_some]
    congr 2; omega

theorem freshNext_eq (d0 : List Nat) (hwf : curveWF d0) (k : Nat) :
    freshNext d0 k = pureOut d0 k := by
  unfold freshNext
  rw [run_eq d0 hwf _ _ _ (inv_init d0)]
  have e : xPureG (pureOut d0) d0 (.newIter :: List.replicate (k + 1) (.next 0)) []
      = none :: xPureG (pureOut d0) d0 (List.replicate (k + 1) (.next 0)) [0] := rfl
  rw [e, List.getLast?_cons, xPureG_nexts_last]
  simp

theorem xPure_eq_G (d0 : List Nat) (f : Nat → Option Nat) (hf : ∀ k, freshNext d0 k = f k)
    (ops : List XOp) : ∀ cs, xPure d0 ops cs = xPureG f d0 ops cs := by
  induction ops with
  | nil => intro cs; rfl
  | cons op ops ih =>
    intro cs
    cases op with
    | na delta => simp only [xPure, xPureG, ih]
    | newIter => simp only [xPure, xPureG, ih]
    | next i =>
      cases hi : cs[i]? with
      | none => simp only [xPure, xPureG, hi, ih]
      | some k => simp only [xPure, xPureG, hi, ih, hf]

/-! ### the fresh iterator enumerates the step list -/

theorem iterState_dist (d0 : List Nat) (k : Nat) :
    (iterState d0 k).1 = minDInf d0 (iterState d0 k).2 := by
  cases k with
  | zero => rfl
  | succ k => rfl

theorem iterState_adv (d0 : List Nat) (hwf : curveWF d0) (h2 : 2 ≤ d0.length) (k : Nat) :
    IsAdv d0 (iterState d0 k).1 (iterState d0 k).2 (iterState d0 (k + 1)).2 := by
  show IsAdv d0 _ _ (advPure d0 (iterState d0 k).1
        (xAdvanceFuel d0 (iterState d0 k).1 (iterState d0 k).2) (iterState d0 k).2)
  unfold xAdvanceFuel
  exact advPure_spec d0 _ _ _ (fuel_ok d0 hwf h2 _ _ d0.length (Nat.le_refl _))

theorem iterState_lt (d0 : List Nat) (hwf : curveWF d0) (h2 : 2 ≤ d0.length) (k : Nat) :
    (iterState d0 k).1 < (iterState d0 (k + 1)).1 := by
  rw [iterState_dist d0 (k + 1)]
  exact (iterState_adv d0 hwf h2 k).2.1

theorem iterState_least (d0 : List Nat) (hwf : curveWF d0) (h2 : 2 ≤ d0.length) (k i : Nat)
    (hi : (iterState d0 k).1 < dInf d0 i) : (iterState d0 (k + 1)).1 ≤ dInf d0 i := by
  obtain ⟨a, b, c⟩ := iterState_adv d0 hwf h2 k
  have e : dInf d0 i = minDInf d0 (i + 2) := by
    unfold minDInf; rw [if_pos (by omega)]; rfl
  rw [e] at hi ⊢
  rw [iterState_dist d0 (k + 1)]
  apply minDInf_mono d0 hwf
  apply Nat.le_of_not_lt
  intro hlt
  by_cases hge : (iterState d0 k).2 ≤ i + 2
  · have := c (i + 2) hge hlt; omega
  · have := minDInf_mono d0 hwf (i + 2) (iterState d0 k).2 (by omega)
    rw [← iterState_dist d0 k] at this
    omega

theorem step_iff_dInf (d0 : List Nat) (hwf : curveWF d0) (h2 : 2 ≤ d0.length) (x : Nat)
    (hx : 2 ≤ x) : xcurveN d0 (x - 1) < xcurveN d0 x ↔ ∃ i, dInf d0 i = x - 1 := by
  obtain ⟨n, hn⟩ := exists_iterExt_last_gt d0 hwf h2 x
  rw [xcurveN_step_iff d0 hwf h2 x n hx (by omega)]
  constructor
  · intro h
    obtain ⟨i, hi, e⟩ := List.getElem_of_mem h
    refine ⟨i, ?_⟩
    rw [iterExt_length] at hi
    rw [← iterExt_getD_dInf d0 n i hi, List.getD_eq_getElem?_getD,
      List.getElem?_eq_getElem (by rw [iterExt_length]; exact hi)]
    exact e
  · rintro ⟨i, hi⟩
    have hlt : i < d0.length + n := by
      apply Nat.lt_of_not_le
      intro hle
      have hm := dInf_mono d0 hwf (d0.length + n - 1) i (by omega)
      have hl := getD_last (iterExt d0 n) (iterExt_wf d0 hwf n).1
      rw [iterExt_length, iterExt_getD_dInf d0 n _ (by omega)] at hl
      omega
    rw [← iterExt_getD_dInf d0 n i hlt, List.getD_eq_getElem?_getD,
      List.getElem?_eq_getElem (by rw [iterExt_length]; exact hlt)] at hi
    simp only [Option.getD_some] at hi
    rw [← hi]
    exact List.getElem_mem _

/-- in a strictly increasing list, the next member after position `k` sits at `k + 1` -/
theorem sorted_next (S : List Nat) (hS : S.Pairwise (· < ·)) : ∀ (k a b : Nat),
    S[k]? = some a → b ∈ S → a < b → (∀ x ∈ S, ¬ (a < x ∧ x < b)) → S[k + 1]? = some b := by
  induction S with
  | nil => intro k a b hk; simp at hk
  | cons c T ih =>
    intro k a b hk hb hab hno
    rw [List.pairwise_cons] at hS
    cases k with
    | zero =>
      simp at hk
      subst hk
      have hbT : b ∈ T := by
        rcases List.mem_cons.1 hb with h | h
        · omega
        · exact h
      cases T with
      | nil => simp at hbT
      | cons e U =>
        have hce := hS.1 e (by simp)
        have hne := hno e (by simp)
        have hU := (List.pairwise_cons.1 hS.2).1
        rcases List.mem_cons.1 hbT with h | h
        · subst h; simp
        · have := hU b h; omega
    | succ k =>
      rw [List.getElem?_cons_succ] at hk ⊢
      have haT : a ∈ T := List.mem_of_getElem? hk
      have hca := hS.1 a haT
      have hbT : b ∈ T := by
        rcases List.mem_cons.1 hb with h | h
        · omega
        · exact h
      exact ih hS.2 k a b hk hbT hab (fun x hx => hno x (List.mem_cons_of_mem _ hx))

theorem steps_long (d0 : List Nat) (hwf : curveWF d0) (h2 : 2 ≤ d0.length) (H : Nat) : ∀ k,
    1 + (iterState d0 k).1 ≤ H → (xcurveSteps d0 H)[k]? = some (1 + (iterState d0 k).1) := by
  intro k
  induction k with
  | zero =>
    intro hH
    unfold xcurveSteps
    rw [if_pos h2, if_pos (by omega)]
    rfl
  | succ k ih =>
    intro hH
    have hlt := iterState_lt d0 hwf h2 k
    have spec := xcurve_steps_spec d0 hwf H
    apply sorted_next _ spec.1 k _ _ (ih (by omega))
    · rw [spec.2]
      refine ⟨by omega, hH, ?_⟩
      rw [step_iff_dInf d0 hwf h2 _ (by omega)]
      have e := iterState_dist d0 (k + 1)
      unfold minDInf at e
      split at e
      · refine ⟨(iterState d0 (k + 1)).2 - 2, ?_⟩
        rw [e]; omega
      · omega
    · omega
    · intro x hx hxx
      have hstep := ((spec.2 x).1 hx).2.2
      rw [step_iff_dInf d0 hwf h2 x (by omega)] at hstep
      obtain ⟨i, hi⟩ := hstep
      have := iterState_least d0 hwf h2 k i (by omega)
      omega

theorem periodicSteps_get (T H : Nat) : ∀ (k fuel j : Nat), k < fuel → T * (j + k) + 1 ≤ H →
    (periodicSteps T H fuel j)[k]? = some (T * (j + k) + 1) := by
  intro k
  induction k with
  | zero =>
    intro fuel j hf hH
    cases fuel with
    | zero => omega
    | succ f =>
      unfold periodicSteps
      have hH' : T * j + 1 ≤ H := hH
      rw [if_pos hH']; rfl
  | succ k ih =>
    intro fuel j hf hH
    cases fuel with
    | zero => omega
    | succ f =>
      unfold periodicSteps
      have hle : T * j ≤ T * (j + (k + 1)) := Nat.mul_le_mul_left _ (by omega)
      rw [if_pos (by omega), List.getElem?_cons_succ]
      have e : j + (k + 1) = j + 1 + k := by omega
      rw [e] at hH ⊢
      exact ih f (j + 1) (by omega) hH

end XLTS
open XLTS

/-- reachable prefixes are extrapolations of the initial one -/
theorem xstate_pfx_iterExt (d0 : List Nat) (ops : List XOp) :
    ∀ s : XState, (∃ n, s.pfx = iterExt d0 n) →
      ∀ op, ∃ m, (s.step op).1.pfx = iterExt d0 m := by
  have _ := ops
  intro s h op
  exact step_pfx_iterExt d0 s h op

/-- C13: the cache is invisible — any interleaving of `number_arrivals` and iterator
operations on any clones returns exactly the history-free answers -/
theorem xcurve_transparent (d0 : List Nat) (hwf : curveWF d0) (ops : List XOp) :
    (XState.init d0).run ops = xPure d0 ops [] := by
  rw [run_eq d0 hwf ops _ _ (inv_init d0),
    xPure_eq_G d0 (pureOut d0) (freshNext_eq d0 hwf) ops []]

/-- a fresh iterator enumerates `xcurveSteps`: its `k`-th value is the `k`-th element of
the step list cut at any horizon that contains it -/
theorem freshNext_eq_steps (d0 : List Nat) (hwf : curveWF d0) (k v H : Nat)
    (h : freshNext d0 k = some v) (hv : v ≤ H) : (xcurveSteps d0 H)[k]? = some v := by
  rw [freshNext_eq d0 hwf k] at h
  unfold pureOut at h
  by_cases h2 : 2 ≤ d0.length
  · have hst : iterSt d0 k = .ext (iterState d0 k).1 (iterState d0 k).2 := by
      unfold iterSt; rw [if_pos h2]
    rw [hst] at h
    have hv' : 1 + (iterState d0 k).1 = v := Option.some.inj h
    rw [← hv'] at hv ⊢
    exact steps_long d0 hwf h2 H k hv
  · cases d0 with
    | nil => exact absurd rfl hwf.1
    | cons T tl =>
      cases tl with
      | cons a as => simp at h2
      | nil =>
        have hT : 1 ≤ T := hwf.2.2
        have hst : iterSt [T] k = .per T k := by
          unfold iterSt; rw [if_neg (by simp)]; rfl
        rw [hst] at h
        have hv' : T * k + 1 = v := Option.some.inj h
        rw [← hv'] at hv ⊢
        unfold xcurveSteps
        rw [if_neg (by simp)]
        have hk : k ≤ T * k := Nat.le_mul_of_pos_left k hT
        have := periodicSteps_get T H k (H + 1) 0 (by omega) (by rw [Nat.zero_add]; exact hv)
        rw [Nat.zero_add] at this
        exact this

/-- a fresh iterator never ends and never fails -/
theorem freshNext_isSome (d0 : List Nat) (hwf : curveWF d0) (k : Nat) :
    (freshNext d0 k).isSome = true := by
  rw [freshNext_eq d0 hwf k]; rfl

end RTA
