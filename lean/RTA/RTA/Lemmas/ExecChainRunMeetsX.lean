import RTA.Lemmas.ExecChainEndToEnd
import RTA.Lemmas.ExecRefineChainX
/-! Link between the job system `ExecX.toSysCX` of a run with a linear chain and ARBITRARY
execution times and the completions that the executable `ExecX.run` reports.  Adapted copy of the
corresponding part of `Lemmas/ExecChainEndToEnd.lean`. -/

namespace RTA.ExecX.ChainRunMeetsXLemmas
open RTA RTA.Sched RTA.Spec RTA.Exec RTA.Exec.RefineLemmas RTA.ExecX.ChainRefineXLemmas
open RTA.Exec.ChainRefineLemmas (src jobC jobC_some fin fin_running)
open RTA.Exec.ChainEndToEndLemmas (fin_out relTimes_get relTimes_length)

/-! ### `ExecX.run` visits the states `stateAtC` -/

section run
variable (cbs : List Cb) (ex : ℕ → ℕ → ℕ) (ch : List ℕ) (sigma : ℕ → Bool) (rels : ℕ → List ℕ)

local notation "St" => stateAtC cbs ex ch sigma rels
local notation "Pk" => pickedAtC cbs ex ch sigma rels
local notation "sb" => startedBeforeC cbs ex ch sigma rels
local notation "served" => servedCbC cbs ex ch sigma rels
local notation "starts" => startsCbC cbs ex ch sigma rels

/-- the completion reported by slot `u` of the infinite run -/
def outAtC (u : ℕ) : Option (ℕ × ℕ × ℕ) :=
  (step cbs ex (chainFn ch) u (sigma u) (rels u) (St u)).2

theorem go_eq : ∀ m t,
    run.go cbs ex (chainFn ch) rels ((List.range' t m).map sigma) t (St t) =
      (List.range' t m).filterMap (outAtC cbs ex ch sigma rels) := by
  intro m
  induction m with
  | zero => intro t; simp [run.go]
  | succ m ih =>
    intro t
    rw [List.range'_succ, List.map_cons, List.filterMap_cons]
    simp only [run.go]
    have e1 : (step cbs ex (chainFn ch) t (sigma t) (rels t) (St t)).1 = St (t + 1) := rfl
    have e2 : outAtC cbs ex ch sigma rels t = (step cbs ex (chainFn ch) t (sigma t) (rels t) (St t)).2 := rfl
    rw [e2]
    cases hout : (step cbs ex (chainFn ch) t (sigma t) (rels t) (St t)).2 with
    | none =>
      rw [e1]
      exact ih (t + 1)
    | some o' =>
      rw [e1]
      simp only
      rw [ih (t + 1)]

theorem outAtC_eq (u : ℕ) : outAtC cbs ex ch sigma rels u =
    if sigma u = true then
      (match (Pk u).running with
        | none => none
        | some (i, rem, r) => if rem ≤ 1 then some (i, r, u + 1) else none)
    else none := by
  cases hs : sigma u with
  | false => simp [outAtC, step, hs]
  | true =>
    simp only [outAtC, step, pickedAtC, hs]
    simp only [Bool.not_true, Bool.false_eq_true, if_false, if_true]
    exact fin_out ch u _

/-- an instance of `l` completes in slot `u` -/
def complAt (l u : ℕ) : Bool := (served u == some l) && (St (u + 1)).running.isNone

theorem outAtC_spec (l u : ℕ) :
    (outAtC cbs ex ch sigma rels u = none ∧ complAt cbs ex ch sigma rels l u = false) ∨
    ∃ i r, outAtC cbs ex ch sigma rels u = some (i, r, u + 1) ∧
      (complAt cbs ex ch sigma rels l u = true ↔ i = l) := by
  rw [outAtC_eq]
  unfold complAt
  rw [servedCbC_eq, stateAtC_succ]
  cases hs : sigma u with
  | false => left; simp
  | true =>
    simp only [if_true]
    rw [fin_running]
    rcases hr : (Pk u).running with _ | ⟨i, rem, r⟩
    · left; simp
    · by_cases h : rem ≤ 1
      · right
        refine ⟨i, r, by simp [h], ?_⟩
        simp [h]
      · left
        simp [h]

theorem compl_list (l : ℕ) : ∀ xs : List ℕ,
    completionsOf (xs.filterMap (outAtC cbs ex ch sigma rels)) l =
      (xs.filter (complAt cbs ex ch sigma rels l)).map (· + 1) := by
  intro xs
  induction xs with
  | nil => rfl
  | cons x xs ih =>
    rw [List.filterMap_cons, List.filter_cons]
    rcases outAtC_spec cbs ex ch sigma rels l x with ⟨h1, h2⟩ | ⟨i, r, h1, h2⟩
    · rw [h1, h2]
      simpa using ih
    · rw [h1]
      simp only
      unfold completionsOf at ih ⊢
      rw [List.filter_cons]
      by_cases e : i = l
      · rw [if_pos (h2.2 e)]
        simp only [e, decide_true, if_true, List.map_cons]
        rw [ih]
      · have : ¬ complAt cbs ex ch sigma rels l x = true := fun hh => e (h2.1 hh)
        rw [if_neg this]
        simp only [e, decide_false, Bool.false_eq_true, if_false]
        exact ih

theorem run_eq (l n : ℕ) :
    completionsOf (ExecX.run cbs ex (chainFn ch) ((List.range n).map sigma) rels) l =
      ((List.range n).filter (complAt cbs ex ch sigma rels l)).map (· + 1) := by
  have h := go_eq cbs ex ch sigma rels n 0
  rw [← List.range_eq_range'] at h
  have : ExecX.run cbs ex (chainFn ch) ((List.range n).map sigma) rels =
      (List.range n).filterMap (outAtC cbs ex ch sigma rels) := h
  rw [this]
  exact compl_list cbs ex ch sigma rels l _

end run

/-! ### the number of completions of `l` -/

section count
variable {cbs : List Cb} {ex : ℕ → ℕ → ℕ} {ch : List ℕ} {sigma : ℕ → Bool} {rels : ℕ → List ℕ} {H : ℕ}
variable (hy : HypX cbs ex ch rels H)

local notation "St" => stateAtC cbs ex ch sigma rels
local notation "sb" => startedBeforeC cbs ex ch sigma rels
local notation "served" => servedCbC cbs ex ch sigma rels
local notation "starts" => startsCbC cbs ex ch sigma rels
local notation "Sy" => toSysCX cbs ex ch sigma rels H
local notation "job" => jobC ch rels H
local notation "compl" => complAt cbs ex ch sigma rels

variable (cbs ex ch sigma rels) in
/-- an instance of `l` is running at the beginning of slot `t` -/
def runsL (l t : ℕ) : ℕ := if (St t).running.map (·.1) = some l then 1 else 0

theorem done_succ (l t : ℕ) :
    ((List.range (t + 1)).filter (compl l)).length =
      ((List.range t).filter (compl l)).length + if compl l t = true then 1 else 0 := by
  rw [List.range_succ, List.filter_append, List.length_append]
  cases h : compl l t <;> simp [h]

include hy

theorem count_inv (l : ℕ) : ∀ t,
    ((List.range t).filter (compl l)).length + runsL cbs ex ch sigma rels l t = sb l t := by
  intro t
  induction t with
  | zero => simp [runsL, stateAtC, State.init, startedBeforeC]
  | succ t ih =>
    rw [done_succ, sbC_succ]
    unfold runsL at ih ⊢
    generalize ((List.range t).filter (compl l)).length = c at ih ⊢
    unfold complAt
    rcases slots (sigma := sigma) hy t with
      ⟨hsv, hst, hrun, _⟩ | ⟨_, i, rem, r, hr, hsv, hst, hnext⟩ | ⟨_, hr, i, r0, hsv, hst, hi, _, hnext⟩
    · rw [hsv, hst, hrun]
      simp only [show ((none : Option ℕ) == some l) = false from rfl, Bool.false_and,
        Bool.false_eq_true, if_false]
      omega
    · rw [hsv, hst, hnext]
      rw [hr] at ih
      by_cases e : i = l
      · subst e
        by_cases h : rem ≤ 1
        · simp [h] at ih ⊢; omega
        · simp [h] at ih ⊢; omega
      · have e' : ¬ l = i := fun h => e h.symm
        by_cases h : rem ≤ 1
        · simp [h, e] at ih ⊢; omega
        · simp [h, e] at ih ⊢; omega
    · generalize ex i t = cst at hnext
      rw [hsv, hnext]
      rw [hr] at ih
      by_cases e : i = l
      · subst e
        rw [(hst i).2 rfl]
        by_cases h : cst ≤ 1
        · simp [h] at ih ⊢; omega
        · simp [h] at ih ⊢; omega
      · have e' : ¬ l = i := fun h => e h.symm
        have hs' : starts t l = false := by
          cases hh : starts t l with
          | false => rfl
          | true => exact absurd ((hst l).1 hh) e'
        rw [hs']
        by_cases h : cst ≤ 1
        · simp [h, e] at ih ⊢; omega
        · simp [h, e] at ih ⊢; omega

/-- the instance of `l` that completes in slot `u` is the `done l u`-th one -/
theorem compl_job (l u : ℕ) (hc : compl l u = true) :
    ∃ k, job l ((List.range u).filter (compl l)).length = some k ∧ (Sy).sched u = some k ∧
      ((List.range u).filter (compl l)).length < cnt rels (src ch l) (u + 1) := by
  have hsv : served u = some l := by
    unfold complAt at hc
    simp only [Bool.and_eq_true, beq_iff_eq] at hc
    exact hc.1
  have hcnt := count_inv (sigma := sigma) hy l u
  obtain ⟨_, hlt⟩ := served_lt hy hsv
  have hsch := sched_eqC (sigma := sigma) hy u
  rw [hsv] at hsch
  simp only at hsch
  have hm : (if starts u l = true then sb l u else sb l u - 1) =
      ((List.range u).filter (compl l)).length := by
    unfold runsL at hcnt
    have g := inv1 (sigma := sigma) hy u
    rcases slots (sigma := sigma) hy u with
      ⟨hsv', _⟩ | ⟨_, i, rem, r, hr, hsv', hst, _⟩ | ⟨_, hr, i, r0, hsv', hst, _⟩
    · rw [hsv'] at hsv; cases hsv
    · rw [hsv'] at hsv; cases hsv
      rw [hst]
      rw [hr] at hcnt
      simp at hcnt ⊢
      omega
    · rw [hsv'] at hsv; cases hsv
      rw [(hst l).2 rfl]
      rw [hr] at hcnt
      simp at hcnt ⊢
      omega
  rw [hm] at hlt hsch
  obtain ⟨k, hk⟩ := jobC_some (rels := rels) (H := H) hy.hnd (i := l)
    (m := ((List.range u).filter (compl l)).length)
    (by have := cnt_le_H (rels := rels) hy.hfin (src ch l) (u + 1); omega)
  exact ⟨k, hk, by rw [hsch, hk], hlt⟩

end count

end RTA.ExecX.ChainRunMeetsXLemmas

namespace RTA.ExecX
open RTA RTA.Sched RTA.Spec RTA.Exec

open RTA.Exec.RefineLemmas ChainRefineXLemmas ChainRunMeetsXLemmas in
open RTA.Exec.ChainRefineLemmas (src jobC jobC_some) in
open RTA.Exec.ChainEndToEndLemmas (relTimes_get relTimes_length) in
/-- link between the job system `toSysCX` (every callback instance of the chain carries the arrival
time of its source event) and the completions reported by `ExecX.run`: if every job of the last
callback meets `R`, then the `m`-th reported completion of the last callback is within `R` of
the `m`-th release of the chain's source -/
theorem run_chain_meets_of_sysCX (cbs : List Cb) (ex : ℕ → ℕ → ℕ) (ch : List ℕ) (sigma : ℕ → Bool) (rels : ℕ → List ℕ)
    (H l : ℕ)
    (hch : ch.Nodup) (hne : 2 ≤ ch.length) (hlast : ch.getLast? = some l)
    (hmem : ∀ i ∈ ch, i < cbs.length ∧ (cbs.getD i default).isTimer = false)
    (hidx : ∀ t, ∀ i ∈ rels t, i < cbs.length)
    (hext : ∀ t, ∀ i ∈ rels t, i ∉ ch.tail)
    (hfin : ∀ t, H ≤ t → rels t = [])
    (hexec : ∀ k, k < cbs.length → ∀ t, 1 ≤ ex k t ∧ ex k t ≤ (cbs.getD k default).cost)
    (R : ℕ)
    (hmeets : ∀ j, j < (toSysCX cbs ex ch sigma rels H).n → (toSysCX cbs ex ch sigma rels H).task j = l →
      MeetsBound (toSysCX cbs ex ch sigma rels H) j R)
    (n m : ℕ)
    (hm : m < (completionsOf (ExecX.run cbs ex (chainFn ch) ((List.range n).map sigma) rels) l).length) :
    m < (relTimes rels H (ch.headD 0)).length ∧
    (completionsOf (ExecX.run cbs ex (chainFn ch) ((List.range n).map sigma) rels) l).getD m 0 ≤
      (relTimes rels H (ch.headD 0)).getD m 0 + R := by
  have _ := hne
  have hy : HypX cbs ex ch rels H := ⟨hch, fun i hi => (hmem i hi).1, hidx, hext, hfin, hexec⟩
  have hl : l ∈ ch := List.mem_of_getLast? hlast
  have hsrc : src ch l = ch.headD 0 := by unfold src; rw [if_pos hl]
  rw [run_eq] at hm ⊢
  rw [List.length_map] at hm
  -- the slot of the `m`-th completion
  obtain ⟨u, hu⟩ : ∃ u, ((List.range n).filter (complAt cbs ex ch sigma rels l))[m]? = some u :=
    ⟨_, List.getElem?_eq_getElem hm⟩
  obtain ⟨_, hcu, hcount⟩ := (filt_range_idx _ n m u).1 hu
  have hget : (((List.range n).filter (complAt cbs ex ch sigma rels l)).map (· + 1)).getD m 0 = u + 1 := by
    rw [List.getD_eq_getElem?_getD, List.getElem?_map, hu]; rfl
  rw [hget]
  -- the job that completes there
  obtain ⟨k, hk, hsch, hlt⟩ := compl_job (sigma := sigma) hy l u hcu
  rw [hcount] at hk hlt
  rw [hsrc] at hlt
  obtain ⟨hkn, hpend, _⟩ := c_validC (sigma := sigma) hy u k hsch
  obtain ⟨_, hkt, harr⟩ := jobCX_facts (cbs := cbs) (ex := ex) (sigma := sigma) hch hfin hk
  rw [hsrc] at harr
  have hmH : m < cnt rels (ch.headD 0) H := by
    have := cnt_le_H (rels := rels) hfin (ch.headD 0) (u + 1); omega
  obtain ⟨e, he⟩ := job_some rels H (ch.headD 0) m hmH
  have hrt := relTimes_get rels H (ch.headD 0) m e he
  have hgetr : (relTimes rels H (ch.headD 0)).getD m 0 = ((events rels H).getD e (0, 0)).1 := by
    rw [List.getD_eq_getElem?_getD, hrt]; rfl
  have hearr := job_arr rels H hfin he
  have harr_eq : (toSysCX cbs ex ch sigma rels H).arr k = ((events rels H).getD e (0, 0)).1 := by
    have h1 := harr ((toSysCX cbs ex ch sigma rels H).arr k)
    have h2 := hearr ((toSysCX cbs ex ch sigma rels H).arr k + 1)
    have h3 := harr (((events rels H).getD e (0, 0)).1)
    have h4 := hearr (((events rels H).getD e (0, 0)).1 + 1)
    have : ((events rels H).getD e (0, 0)).1 ≤ (toSysCX cbs ex ch sigma rels H).arr k := by
      have := h2.2 (h1.1 (Nat.le_refl _)); omega
    have : (toSysCX cbs ex ch sigma rels H).arr k ≤ ((events rels H).getD e (0, 0)).1 :=
      h3.2 (h4.1 (by omega))
    omega
  refine ⟨by rw [relTimes_length]; exact hmH, ?_⟩
  rw [hgetr, ← harr_eq]
  have hmt : svc (toSysCX cbs ex ch sigma rels H) k ((toSysCX cbs ex ch sigma rels H).arr k + R) =
      (toSysCX cbs ex ch sigma rels H).cost k := hmeets k hkn hkt
  rcases Nat.lt_or_ge u ((toSysCX cbs ex ch sigma rels H).arr k + R) with hlt' | hge
  · omega
  · have := svc_mono (s := toSysCX cbs ex ch sigma rels H) k hge
    have := hpend.2
    omega

end RTA.ExecX
