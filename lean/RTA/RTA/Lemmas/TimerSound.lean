import Mathlib.Algebra.BigOperators.Ring.Finset
import RTA.Lemmas.SupplyFifo
/-! C04, timer analysis: a timer callback of the ROS 2 executor running on a reservation.

Schedule-level Spec (`SupplyTimerLegal`): the facts about the executor that concern the
analysed timer `i` and the timers of higher priority (`hp`):
* callbacks are non-preemptive and make progress only in slots in which the reservation
  delivers service;
* the executor never idles in a supplied slot while an instance of `i` or of a
  higher-priority timer is pending;
* a callback that is neither `i` nor a higher-priority timer is never *started* while such an
  instance is pending; instances of `i` start in release order;
every other aspect (polling points, the ready set, the order among `i` and the
higher-priority timers -- the proof never uses that an instance of `i` waits for pending
higher-priority timers --, what runs while no timer is pending) is left arbitrary.

Theorem: `Ok(R)` of `rta_timer` bounds the response time of every instance of `i`, for every
supply process that delivers at least the supply-bound function in every window (in
particular every compliant budget placement of a periodic / deadline-constrained
reservation), every release pattern within the arrival curves, every execution time up to
the WCET. -/

open Finset

namespace RTA.Sched
open RTA RTA.Spec

/-- instances of callback `i` or of a timer with higher priority -/
def Rel (s : Sys) (i : ℕ) (hp : ℕ → Prop) (k : ℕ) : Prop := s.task k = i ∨ hp (s.task k)

structure SupplyTimerLegal (s : Sys) (σ : ℕ → Bool) (i : ℕ) (hp : ℕ → Prop) : Prop where
  /-- only released, incomplete jobs are served, and only in supplied slots -/
  valid : ∀ t j, s.sched t = some j → j < s.n ∧ Pending s j t ∧ σ t = true
  /-- non-preemptive: while `j` is served no other job is in a started-but-incomplete state -/
  nonpre : ∀ t j, s.sched t = some j → ∀ k < s.n, k ≠ j → svc s k t = 0 ∨ svc s k t = s.cost k
  /-- no idling in a supplied slot while a relevant instance is pending -/
  wc : ∀ t, σ t = true → (∃ k < s.n, Rel s i hp k ∧ Pending s k t) → ∃ j, s.sched t = some j
  /-- a callback that is not relevant is not started while a relevant instance is pending -/
  prioOther : ∀ t j, s.sched t = some j → svc s j t = 0 → ¬ Rel s i hp j →
      ∀ k < s.n, Rel s i hp k → ¬ Pending s k t
  /-- instances of `i` are started in release order -/
  prioOwn : ∀ t j, s.sched t = some j → svc s j t = 0 → s.task j = i →
      ∀ k < s.n, s.task k = i → Pending s k t → s.arr j ≤ s.arr k

/-- number of instances of callback `i` released in `[a, b)` -/
def countOf (s : Sys) (i a b : ℕ) : ℕ :=
  ((range s.n).filter fun k => s.task k = i ∧ a ≤ s.arr k ∧ s.arr k < b).card

namespace TimerSoundLemmas
open Classical

variable {s : Sys} {σ : ℕ → Bool} {i : ℕ} {hp : ℕ → Prop}

/-! ### single jobs -/

theorem t_svc_le_cost (hl : SupplyTimerLegal s σ i hp) (j t : ℕ) : svc s j t ≤ s.cost j := by
  induction t with
  | zero => simp [svc]
  | succ t ih =>
    simp only [svc]
    by_cases h : s.sched t = some j
    · have := (hl.valid t j h).2.1.2
      simp [h]; omega
    · simp [h]; exact ih

theorem t_svc_zero_before (hl : SupplyTimerLegal s σ i hp) (j t : ℕ) (h : t ≤ s.arr j) :
    svc s j t = 0 := by
  induction t with
  | zero => rfl
  | succ t ih =>
    simp only [svc]
    have : s.sched t ≠ some j := by
      intro hs
      have := (hl.valid t j hs).2.1.1
      omega
    simp [this]; exact ih (by omega)

theorem t_done_mono (hl : SupplyTimerLegal s σ i hp) (j : ℕ) {a b : ℕ} (h : a ≤ b)
    (hd : svc s j a = s.cost j) : svc s j b = s.cost j := by
  have := svc_mono (s := s) j h
  have := t_svc_le_cost hl j b
  omega

theorem svc_succ (j t : ℕ) :
    svc s j (t + 1) = svc s j t + if s.sched t = some j then 1 else 0 := rfl

theorem svc_succ_of_ne (j t : ℕ) (h : s.sched t ≠ some j) : svc s j (t + 1) = svc s j t := by
  rw [svc_succ, if_neg h]; rfl

theorem svc_succ_of_eq (j t : ℕ) (h : s.sched t = some j) : svc s j (t + 1) = svc s j t + 1 := by
  rw [svc_succ, if_pos h]

theorem sched_of_svc_lt (j t : ℕ) (h : svc s j t < svc s j (t + 1)) : s.sched t = some j := by
  by_cases hs : s.sched t = some j
  · exact hs
  · rw [svc_succ_of_ne j t hs] at h; omega

/-- a job that is not served in `[x, y)` keeps its service -/
theorem svc_const (k x : ℕ) : ∀ y, x ≤ y → (∀ u, x ≤ u → u < y → s.sched u ≠ some k) →
    svc s k y = svc s k x := by
  intro y hxy
  induction y, hxy using Nat.le_induction with
  | base => intro _; rfl
  | succ y hy ih =>
    intro h
    rw [svc_succ_of_ne k y (h y hy (by omega))]
    exact ih (fun u h1 h2 => h u h1 (by omega))

theorem svc_le_len (k x : ℕ) : ∀ len, svc s k (x + len) ≤ svc s k x + len := by
  intro len
  induction len with
  | zero => exact le_refl _
  | succ len ih =>
    have e : x + (len + 1) = (x + len) + 1 := by omega
    rw [e, svc_succ]
    split <;> omega

/-- a job that has received service was started at some earlier slot -/
theorem exists_start (k : ℕ) : ∀ x, 0 < svc s k x →
    ∃ u, u < x ∧ s.sched u = some k ∧ svc s k u = 0 := by
  intro x
  induction x with
  | zero => intro h; simp [svc] at h
  | succ x ih =>
    intro h
    rcases Nat.eq_zero_or_pos (svc s k x) with h0 | hpos
    · exact ⟨x, by omega, sched_of_svc_lt k x (by omega), h0⟩
    · obtain ⟨u, hu, h1, h2⟩ := ih hpos
      exact ⟨u, by omega, h1, h2⟩

/-- started but incomplete -/
def SI (s : Sys) (k t : ℕ) : Prop := 0 < svc s k t ∧ svc s k t < s.cost k

/-- non-preemptive execution: at most one job is started but incomplete -/
theorem atmost_one (hl : SupplyTimerLegal s σ i hp) : ∀ t k1 k2, k1 < s.n → k2 < s.n →
    SI s k1 t → SI s k2 t → k1 = k2 := by
  intro t
  induction t with
  | zero => intro k1 k2 _ _ h; exact absurd h.1 (by simp [svc])
  | succ t ih =>
    intro k1 k2 h1 h2 a1 a2
    apply Classical.byContradiction
    intro hne
    unfold SI at a1 a2 ih
    by_cases c1 : s.sched t = some k1
    · have c2 : s.sched t ≠ some k2 := by
        rw [c1]; intro h; injection h with h; exact hne h
      have := hl.nonpre t k1 c1 k2 h2 (fun h => hne h.symm)
      rw [svc_succ_of_ne k2 t c2] at a2
      omega
    · by_cases c2 : s.sched t = some k2
      · have := hl.nonpre t k2 c2 k1 h1 hne
        rw [svc_succ_of_ne k1 t c1] at a1
        omega
      · rw [svc_succ_of_ne k1 t c1] at a1
        rw [svc_succ_of_ne k2 t c2] at a2
        exact hne (ih k1 k2 h1 h2 a1 a2)

/-- while relevant instances are pending, no other callback is started -/
theorem no_start (hl : SupplyTimerLegal s σ i hp) (t0 j' : ℕ) (hnr : ¬ Rel s i hp j') :
    ∀ x, t0 ≤ x → (∀ u, t0 ≤ u → u < x → ∃ k, k < s.n ∧ Rel s i hp k ∧ Pending s k u) →
      0 < svc s j' x → 0 < svc s j' t0 := by
  intro x hx
  induction x, hx using Nat.le_induction with
  | base => intro _ h; exact h
  | succ x hx ih =>
    intro hb h
    rcases Nat.eq_zero_or_pos (svc s j' x) with h0 | hpos
    · exfalso
      have hs := sched_of_svc_lt (s := s) j' x (by omega)
      obtain ⟨k, hk, hr, hpk⟩ := hb x hx (by omega)
      exact hl.prioOther x j' hs h0 hnr k hk hr hpk
    · exact ih (fun u h1 h2 => hb u h1 (by omega)) hpos

theorem service_le (σ : ℕ → Bool) (t : ℕ) : ∀ d, service σ t d ≤ d := by
  intro d
  induction d with
  | zero => exact le_refl _
  | succ d ih =>
    show service σ t d + (if σ (t + d) then 1 else 0) ≤ d + 1
    split <;> omega

/-! ### sums over classes of jobs -/

/-- service received up to `t` by the jobs in class `P` -/
noncomputable def sv (s : Sys) (P : ℕ → Prop) (t : ℕ) : ℕ :=
  ∑ k ∈ range s.n, if P k then svc s k t else 0
/-- total cost of the jobs in class `P` -/
noncomputable def wk (s : Sys) (P : ℕ → Prop) : ℕ :=
  ∑ k ∈ range s.n, if P k then s.cost k else 0
/-- number of jobs in class `P` -/
noncomputable def cnt (s : Sys) (P : ℕ → Prop) : ℕ :=
  ∑ k ∈ range s.n, if P k then 1 else 0

theorem sv_mono_t (P : ℕ → Prop) {a b : ℕ} (h : a ≤ b) : sv s P a ≤ sv s P b := by
  unfold sv
  apply sum_le_sum
  intro k _
  split
  · exact svc_mono k h
  · exact le_refl _

theorem sv_step (P : ℕ → Prop) (t j : ℕ) (hj : s.sched t = some j) (hjn : j < s.n) (hP : P j) :
    sv s P (t + 1) = sv s P t + 1 := by
  unfold sv
  have : ∀ k ∈ range s.n, (if P k then svc s k (t + 1) else 0)
      = (if P k then svc s k t else 0) + (if k = j then 1 else 0) := by
    intro k _
    by_cases hk : k = j
    · subst hk; rw [svc_succ_of_eq k t hj]; simp [hP]
    · have : s.sched t ≠ some k := by rw [hj]; intro h; injection h with h; exact hk h.symm
      rw [svc_succ_of_ne k t this]; simp [hk]
  rw [sum_congr rfl this, sum_add_distrib]
  congr 1
  rw [sum_ite_eq']
  simp [hjn]

theorem sv_step_le (P : ℕ → Prop) (t : ℕ) : sv s P (t + 1) ≤ sv s P t + 1 := by
  by_cases h : ∃ j, s.sched t = some j ∧ j < s.n ∧ P j
  · obtain ⟨j, h1, h2, h3⟩ := h
    rw [sv_step P t j h1 h2 h3]
  · have : sv s P (t + 1) = sv s P t := by
      unfold sv
      apply sum_congr rfl
      intro k hk
      by_cases hP : P k
      · rw [if_pos hP, if_pos hP]
        apply svc_succ_of_ne
        intro hs
        exact h ⟨k, hs, mem_range.1 hk, hP⟩
      · rw [if_neg hP, if_neg hP]
    omega

theorem sv_le_len (P : ℕ → Prop) (x : ℕ) : ∀ len, sv s P (x + len) ≤ sv s P x + len := by
  intro len
  induction len with
  | zero => exact le_refl _
  | succ len ih =>
    have e : x + (len + 1) = (x + len) + 1 := by omega
    have := sv_step_le (s := s) P (x + len)
    rw [e]; omega

/-- if every supplied slot of `[a, a+len)` serves a job of class `P`, the service of the class
grows at least by the supply delivered in the window -/
theorem sv_supply (P : ℕ → Prop) (a : ℕ) :
    ∀ len, (∀ u, a ≤ u → u < a + len → σ u = true →
        ∃ j, s.sched u = some j ∧ j < s.n ∧ P j) →
      sv s P a + service σ a len ≤ sv s P (a + len) := by
  intro len
  induction len with
  | zero => intro _; simp [service]
  | succ len ih =>
    intro h
    have ih' := ih (fun u h1 h2 => h u h1 (by omega))
    have e : a + (len + 1) = (a + len) + 1 := by omega
    rw [e]
    show sv s P a + (service σ a len + (if σ (a + len) then 1 else 0)) ≤ _
    by_cases hσ : σ (a + len) = true
    · obtain ⟨j, hj, hjn, hjP⟩ := h (a + len) (by omega) (by omega) hσ
      rw [sv_step P (a + len) j hj hjn hjP]
      simp [hσ]; omega
    · have := sv_mono_t (s := s) P (show a + len ≤ a + len + 1 by omega)
      simp [hσ]; omega

theorem sv_le_wk (hl : SupplyTimerLegal s σ i hp) (P : ℕ → Prop) (t : ℕ) : sv s P t ≤ wk s P := by
  unfold sv wk
  apply sum_le_sum
  intro k _
  split
  · exact t_svc_le_cost hl k t
  · exact le_refl _

theorem all_done_of_sv_eq (hl : SupplyTimerLegal s σ i hp) (P : ℕ → Prop) (t : ℕ)
    (h : sv s P t = wk s P) (k : ℕ) (hk : k < s.n) (hP : P k) : svc s k t = s.cost k := by
  unfold sv wk at h
  have hle : ∀ i ∈ range s.n, (if P i then svc s i t else 0) ≤ (if P i then s.cost i else 0) := by
    intro i _
    split
    · exact t_svc_le_cost hl i t
    · exact le_refl _
  have := (sum_eq_sum_iff_of_le hle).1 h k (mem_range.2 hk)
  simpa [hP] using this

theorem sv_imp (P Q : ℕ → Prop) (t : ℕ) (h : ∀ k, k < s.n → P k → Q k) : sv s P t ≤ sv s Q t := by
  unfold sv
  apply sum_le_sum
  intro k hk
  by_cases hP : P k
  · rw [if_pos hP, if_pos (h k (mem_range.1 hk) hP)]
  · rw [if_neg hP]; exact Nat.zero_le _

theorem sv_or_le (P Q : ℕ → Prop) (t : ℕ) :
    sv s (fun k => P k ∨ Q k) t ≤ sv s P t + sv s Q t := by
  unfold sv
  rw [← sum_add_distrib]
  apply sum_le_sum
  intro k _
  by_cases hP : P k <;> by_cases hQ : Q k <;> simp [hP, hQ]

theorem sv_or_disj (P Q : ℕ → Prop) (t : ℕ) (hd : ∀ k, P k → Q k → False) :
    sv s (fun k => P k ∨ Q k) t = sv s P t + sv s Q t := by
  unfold sv
  rw [← sum_add_distrib]
  apply sum_congr rfl
  intro k _
  by_cases hP : P k <;> by_cases hQ : Q k
  · exact absurd hQ (fun h => hd k hP h)
  · simp [hP, hQ]
  · simp [hP, hQ]
  · simp [hP, hQ]

theorem sv_zero (P : ℕ → Prop) (t : ℕ) (h : ∀ k, k < s.n → P k → svc s k t = 0) : sv s P t = 0 := by
  unfold sv
  apply sum_eq_zero
  intro k hk
  by_cases hP : P k
  · rw [if_pos hP]; exact h k (mem_range.1 hk) hP
  · rw [if_neg hP]

/-- service of a class, with one member `j` split off and bounded separately -/
theorem sv_split (hl : SupplyTimerLegal s σ i hp) (P : ℕ → Prop) (j t : ℕ) (hj : j < s.n) :
    sv s P t ≤ wk s (fun k => k ≠ j ∧ P k) + svc s j t := by
  unfold sv wk
  have : ∀ k ∈ range s.n, (if P k then svc s k t else 0)
      ≤ (if (k ≠ j ∧ P k) then s.cost k else 0) + (if k = j then svc s j t else 0) := by
    intro k _
    by_cases hk : k = j
    · subst hk; simp; split <;> omega
    · simp [hk]; split
      · exact t_svc_le_cost hl k t
      · exact le_refl _
  calc _ ≤ ∑ k ∈ range s.n, ((if (k ≠ j ∧ P k) then s.cost k else 0) + (if k = j then svc s j t else 0)) :=
        sum_le_sum this
    _ = _ := by
      rw [sum_add_distrib, sum_ite_eq']
      simp only [mem_range, hj, if_true]
      congr 1
      refine sum_congr rfl (fun k _ => ?_)
      split_ifs <;> rfl

theorem wk_imp (P Q : ℕ → Prop) (h : ∀ k, k < s.n → P k → Q k) : wk s P ≤ wk s Q := by
  unfold wk
  apply sum_le_sum
  intro k hk
  by_cases hP : P k
  · rw [if_pos hP, if_pos (h k (mem_range.1 hk) hP)]
  · rw [if_neg hP]; exact Nat.zero_le _

theorem wk_or_le (P Q : ℕ → Prop) : wk s (fun k => P k ∨ Q k) ≤ wk s P + wk s Q := by
  unfold wk
  rw [← sum_add_distrib]
  apply sum_le_sum
  intro k _
  by_cases hP : P k <;> by_cases hQ : Q k <;> simp [hP, hQ]

theorem cnt_split (P : ℕ → Prop) (j : ℕ) (hj : j < s.n) (hP : P j) :
    cnt s (fun k => k ≠ j ∧ P k) + 1 = cnt s P := by
  unfold cnt
  have : ∀ k ∈ range s.n, (if P k then 1 else 0)
      = (if (k ≠ j ∧ P k) then 1 else 0) + (if k = j then 1 else 0) := by
    intro k _
    by_cases hk : k = j
    · subst hk; simp [hP]
    · simp [hk]
  rw [sum_congr rfl this, sum_add_distrib, sum_ite_eq']
  simp only [mem_range, hj, if_true]
  congr 1
  refine sum_congr rfl (fun k _ => ?_)
  split_ifs <;> rfl

theorem wk_le_mul_cnt (P : ℕ → Prop) (C : ℕ) (h : ∀ k, k < s.n → P k → s.cost k ≤ C) :
    wk s P ≤ C * cnt s P := by
  unfold wk cnt
  rw [mul_sum]
  apply sum_le_sum
  intro k hk
  by_cases hP : P k
  · rw [if_pos hP, if_pos hP]; simpa using h k (mem_range.1 hk) hP
  · rw [if_neg hP]; exact Nat.zero_le _

theorem countOf_eq_cnt (s : Sys) (i a b : ℕ) :
    countOf s i a b = cnt s (fun k => s.task k = i ∧ a ≤ s.arr k ∧ s.arr k < b) := by
  unfold countOf cnt
  rw [card_filter]
  refine sum_congr rfl (fun k _ => ?_)
  split_ifs <;> rfl

theorem countOf_pos (s : Sys) (i a b j : ℕ) (hj : j < s.n) (hji : s.task j = i)
    (h1 : a ≤ s.arr j) (h2 : s.arr j < b) : 1 ≤ countOf s i a b := by
  unfold countOf
  apply card_pos.2
  exact ⟨j, mem_filter.2 ⟨mem_range.2 hj, hji, h1, h2⟩⟩

theorem workOf_eq_wk (s : Sys) (hp : ℕ → Prop) [DecidablePred hp] (a b : ℕ) :
    workOf s hp a b = wk s (fun k => hp (s.task k) ∧ a ≤ s.arr k ∧ s.arr k < b) := by
  unfold workOf wk
  refine sum_congr rfl (fun k _ => ?_)
  split_ifs <;> rfl

/-- the own instances released in a window, one of them (`j`) set apart -/
theorem wk_own_minus (s : Sys) (i a b j C : ℕ) (hj : j < s.n) (hji : s.task j = i)
    (h1 : a ≤ s.arr j) (h2 : s.arr j < b) (hcost : ∀ k < s.n, s.task k = i → s.cost k ≤ C) :
    wk s (fun k => k ≠ j ∧ (s.task k = i ∧ a ≤ s.arr k ∧ s.arr k < b)) + C
      ≤ C * countOf s i a b := by
  have h := wk_le_mul_cnt (s := s) (fun k => k ≠ j ∧ (s.task k = i ∧ a ≤ s.arr k ∧ s.arr k < b)) C
    (fun k hk hP => hcost k hk hP.2.1)
  have e := cnt_split (s := s) (fun k => s.task k = i ∧ a ≤ s.arr k ∧ s.arr k < b) j hj ⟨hji, h1, h2⟩
  rw [countOf_eq_cnt, ← e, Nat.mul_add, Nat.mul_one]
  omega

theorem wk_own_le (s : Sys) (i a b C : ℕ) (hcost : ∀ k < s.n, s.task k = i → s.cost k ≤ C) :
    wk s (fun k => s.task k = i ∧ a ≤ s.arr k ∧ s.arr k < b) ≤ C * countOf s i a b := by
  rw [countOf_eq_cnt]
  exact wk_le_mul_cnt _ C (fun k hk hP => hcost k hk hP.1)

theorem sum_single_bound (n : ℕ) (P : ℕ → Prop) (f g : ℕ → ℕ) (B : ℕ)
    (huniq : ∀ k1 k2, k1 < n → k2 < n → P k1 → P k2 → k1 = k2)
    (hb : ∀ k, k < n → P k → f k ≤ g k + B) :
    (∑ k ∈ range n, if P k then f k else 0) ≤ (∑ k ∈ range n, if P k then g k else 0) + B := by
  by_cases hex : ∃ b, b < n ∧ P b
  · obtain ⟨b, hbn, hPb⟩ := hex
    have e : ∀ h : ℕ → ℕ, ∀ k ∈ range n, (if P k then h k else 0) = if k = b then h k else 0 := by
      intro h k hk
      by_cases hkb : k = b
      · subst hkb; simp [hPb]
      · have : ¬ P k := fun hPk => hkb (huniq k b (mem_range.1 hk) hbn hPk hPb)
        simp [this, hkb]
    rw [sum_congr rfl (e f), sum_congr rfl (e g), sum_ite_eq', sum_ite_eq']
    simp only [mem_range, hbn, if_true]
    exact hb b hbn hPb
  · have : ∀ k ∈ range n, (if P k then f k else 0) = 0 := by
      intro k hk
      have : ¬ P k := fun hPk => hex ⟨k, mem_range.1 hk, hPk⟩
      rw [if_neg this]
    rw [sum_eq_zero this]; omega

/-! ### the busy interval -/

/-- the callback that blocks the busy interval starting at `t0`: not relevant, started before
`t0` and incomplete at `t0` -/
def Blk (s : Sys) (i : ℕ) (hp : ℕ → Prop) (t0 k : ℕ) : Prop :=
  ¬ Rel s i hp k ∧ 0 < svc s k t0 ∧ svc s k t0 < s.cost k

/-- all relevant instances released before `t` are complete at `t` -/
def QuietR (s : Sys) (i : ℕ) (hp : ℕ → Prop) (t : ℕ) : Prop :=
  ∀ k < s.n, Rel s i hp k → s.arr k < t → svc s k t = s.cost k

theorem blk_bound (hl : SupplyTimerLegal s σ i hp) (B t0 T : ℕ)
    (hB : ∀ k < s.n, ¬ Rel s i hp k → s.cost k ≤ B + 1) :
    sv s (Blk s i hp t0) T ≤ sv s (Blk s i hp t0) t0 + B := by
  unfold sv
  apply sum_single_bound
  · intro k1 k2 h1 h2 p1 p2
    exact atmost_one hl t0 k1 k2 h1 h2 ⟨p1.2.1, p1.2.2⟩ ⟨p2.2.1, p2.2.2⟩
  · intro k hk hP
    have := t_svc_le_cost hl k T
    have := hB k hk hP.1
    have := hP.2.1
    omega

/-- in a busy interval that starts at a quiet time `t0` every served job is the blocking
callback or a relevant instance released at or after `t0` -/
theorem busy_class (hl : SupplyTimerLegal s σ i hp) (t0 T : ℕ) (hq : QuietR s i hp t0)
    (hbusy : ∀ u, t0 ≤ u → u < T → ∃ k, k < s.n ∧ Rel s i hp k ∧ Pending s k u)
    (u j' : ℕ) (h1 : t0 ≤ u) (h2 : u < T) (hs : s.sched u = some j') :
    Blk s i hp t0 j' ∨ (Rel s i hp j' ∧ t0 ≤ s.arr j' ∧ s.arr j' ≤ u) := by
  have hv := hl.valid u j' hs
  by_cases hr : Rel s i hp j'
  · right
    refine ⟨hr, ?_, hv.2.1.1⟩
    rcases Nat.lt_or_ge (s.arr j') t0 with hlt | hge
    · have := t_done_mono hl j' h1 (hq j' hv.1 hr hlt)
      have := hv.2.1.2
      omega
    · exact hge
  · left
    have hpos : 0 < svc s j' u := by
      rcases Nat.eq_zero_or_pos (svc s j' u) with h0 | h
      · exfalso
        obtain ⟨k, hk, hrk, hpk⟩ := hbusy u h1 h2
        exact hl.prioOther u j' hs h0 hr k hk hrk hpk
      · exact h
    have := no_start hl t0 j' hr u h1 (fun v a b => hbusy v a (by omega)) hpos
    have := svc_mono (s := s) j' h1
    have := hv.2.1.2
    exact ⟨hr, by omega, by omega⟩

end TimerSoundLemmas
open TimerSoundLemmas

/-- Schedule half with abstract curves: `N` bounds the number of instances of `i` per window,
`C` their cost, `hpRbf` the higher-priority timers' workload per window, `B + 1` the cost of
any other callback, `sbf` the delivered service.  `L` is a busy-window bound; for every
offset `A ≤ L` at which `N` steps there is a solution `r ≤ R` of the offset equation of
`rta_timer` (interference counted up to the start of the instance). -/
theorem supply_timer_sound (s : Sys) (σ : ℕ → Bool) (i : ℕ) (hp : ℕ → Prop) [DecidablePred hp]
    (hl : SupplyTimerLegal s σ i hp) (hi : ¬ hp i)
    (sbf N hpRbf : ℕ → ℕ) (C B : ℕ) (hC : 1 ≤ C)
    (hsbf : ∀ t d, sbf d ≤ service σ t d)
    (hsbf_le : ∀ d, sbf d ≤ d)
    (hN : ∀ t d, countOf s i t (t + d) ≤ N d) (hNmono : ∀ a b, a ≤ b → N a ≤ N b) (hN0 : N 0 = 0)
    (hcost : ∀ k < s.n, s.task k = i → s.cost k ≤ C)
    (hhp : ∀ t d, workOf s hp t (t + d) ≤ hpRbf d) (hhpmono : ∀ a b, a ≤ b → hpRbf a ≤ hpRbf b)
    (hB : ∀ k < s.n, ¬ Rel s i hp k → s.cost k ≤ B + 1)
    (L R : ℕ) (hL : 0 < L) (hLfix : C * N L + B + hpRbf L ≤ sbf L)
    (hR : ∀ A, A ≤ L → N A < N (A + 1) → ∃ r, r ≤ R ∧
      C * N (A + 1) + hpRbf (if r > C then A + r - C + 1 else A + 1) + B ≤ sbf (A + r))
    (j : ℕ) (hj : j < s.n) (hji : s.task j = i) : svc s j (s.arr j + R) = s.cost j := by
  classical
  have _ := hsbf_le
  have _ := hC
  have _ := hhpmono
  -- the last time before the release of `j` that is quiet for the relevant instances
  have hq0 : QuietR s i hp 0 := by intro k _ _ h; omega
  let t0 := Nat.findGreatest (QuietR s i hp) (s.arr j)
  have ht0q : QuietR s i hp t0 := Nat.findGreatest_spec (P := QuietR s i hp) (Nat.zero_le _) hq0
  have ht0le : t0 ≤ s.arr j := Nat.findGreatest_le _
  have ht0max : ∀ t, t0 < t → t ≤ s.arr j → ¬ QuietR s i hp t :=
    fun t h1 h2 => Nat.findGreatest_is_greatest h1 h2
  -- before the release of `j` a relevant instance is pending at every time from `t0` on
  have busy1 : ∀ u, t0 ≤ u → u < s.arr j → ∃ k, k < s.n ∧ Rel s i hp k ∧ Pending s k u := by
    intro u hu1 hu2
    have hnq := ht0max (u + 1) (by omega) (by omega)
    apply Classical.byContradiction
    intro hno
    apply hnq
    intro k hk hr ha
    apply Classical.byContradiction
    intro hne
    apply hno
    refine ⟨k, hk, hr, by omega, ?_⟩
    have := t_svc_le_cost hl k (u + 1)
    have := svc_mono (s := s) k (show u ≤ u + 1 by omega)
    omega
  -- the offset is below L
  have hA : s.arr j - t0 < L := by
    apply Classical.byContradiction
    intro hge
    have hge : t0 + L ≤ s.arr j := by omega
    have hb := sv_supply (s := s) (σ := σ)
      (fun k => Blk s i hp t0 k ∨ (Rel s i hp k ∧ t0 ≤ s.arr k ∧ s.arr k < t0 + L)) t0 L (by
      intro u h1 h2 h3
      obtain ⟨j', hj'⟩ := hl.wc u h3 (busy1 u h1 (by omega))
      rcases busy_class hl t0 (t0 + L) ht0q (fun v a b => busy1 v a (by omega)) u j' h1 h2 hj'
        with hb | ⟨hr, ha, hb⟩
      · exact ⟨j', hj', (hl.valid u j' hj').1, Or.inl hb⟩
      · exact ⟨j', hj', (hl.valid u j' hj').1, Or.inr ⟨hr, ha, by omega⟩⟩)
    have hdisj : ∀ t, sv s (fun k => Blk s i hp t0 k ∨ (Rel s i hp k ∧ t0 ≤ s.arr k ∧ s.arr k < t0 + L)) t
        = sv s (Blk s i hp t0) t + sv s (fun k => Rel s i hp k ∧ t0 ≤ s.arr k ∧ s.arr k < t0 + L) t :=
      fun t => sv_or_disj _ _ t (fun k h1 h2 => h1.1 h2.1)
    rw [hdisj, hdisj] at hb
    have hQ0 : sv s (fun k => Rel s i hp k ∧ t0 ≤ s.arr k ∧ s.arr k < t0 + L) t0 = 0 :=
      sv_zero _ _ (fun k _ hP => t_svc_zero_before hl k t0 hP.2.1)
    have hblk := blk_bound hl B t0 (t0 + L) hB
    have hQle := sv_le_wk hl (fun k => Rel s i hp k ∧ t0 ≤ s.arr k ∧ s.arr k < t0 + L) (t0 + L)
    have hwkQ : wk s (fun k => Rel s i hp k ∧ t0 ≤ s.arr k ∧ s.arr k < t0 + L)
        ≤ C * N L + hpRbf L := by
      have h1 := wk_imp (s := s) (fun k => Rel s i hp k ∧ t0 ≤ s.arr k ∧ s.arr k < t0 + L)
        (fun k => (s.task k = i ∧ t0 ≤ s.arr k ∧ s.arr k < t0 + L) ∨
          (hp (s.task k) ∧ t0 ≤ s.arr k ∧ s.arr k < t0 + L))
        (fun k _ hP => by
          rcases hP.1 with h | h
          · exact Or.inl ⟨h, hP.2⟩
          · exact Or.inr ⟨h, hP.2⟩)
      have h2 := wk_or_le (s := s) (fun k => s.task k = i ∧ t0 ≤ s.arr k ∧ s.arr k < t0 + L)
        (fun k => hp (s.task k) ∧ t0 ≤ s.arr k ∧ s.arr k < t0 + L)
      have h3 := wk_own_le s i t0 (t0 + L) C hcost
      have h4 := Nat.mul_le_mul_left C (hN t0 L)
      have h5 := hhp t0 L
      rw [workOf_eq_wk] at h5
      omega
    have h3 := hsbf t0 L
    have heq : sv s (fun k => Rel s i hp k ∧ t0 ≤ s.arr k ∧ s.arr k < t0 + L) (t0 + L)
        = wk s (fun k => Rel s i hp k ∧ t0 ≤ s.arr k ∧ s.arr k < t0 + L) := by omega
    apply ht0max (t0 + L) (by omega) hge
    intro k hk hr hka
    rcases Nat.lt_or_ge (s.arr k) t0 with hlt | hge'
    · exact t_done_mono hl k (by omega) (ht0q k hk hr hlt)
    · exact all_done_of_sv_eq hl _ _ heq k hk ⟨hr, hge', hka⟩
  -- the step offset A' ≤ A with the same number of own instances
  have hcntpos := countOf_pos s i t0 (s.arr j + 1) j hj hji ht0le (by omega)
  have hcntle : countOf s i t0 (s.arr j + 1) ≤ N (s.arr j - t0 + 1) := by
    have := hN t0 (s.arr j - t0 + 1)
    have e : t0 + (s.arr j - t0 + 1) = s.arr j + 1 := by omega
    rw [e] at this; exact this
  obtain ⟨A', hA'le, hA'inc, hA'eq⟩ :=
    RosNaiveLemmas.exists_greatest_inc N hNmono hN0 (s.arr j - t0) (by omega)
  obtain ⟨r, hrR, hreq⟩ := hR A' (by omega) hA'inc
  have hiv : ∃ iv, ((r > C ∧ iv = A' + r - C + 1) ∨ (r ≤ C ∧ iv = A' + 1)) ∧
      C * N (A' + 1) + hpRbf iv + B ≤ sbf (A' + r) := by
    by_cases hrC : r > C
    · rw [if_pos hrC] at hreq; exact ⟨_, Or.inl ⟨hrC, rfl⟩, hreq⟩
    · rw [if_neg hrC] at hreq; exact ⟨_, Or.inr ⟨by omega, rfl⟩, hreq⟩
  obtain ⟨iv, hivdef, hreq'⟩ := hiv
  -- `j` is complete at `T = t0 + A' + r`
  have hdone : svc s j (t0 + (A' + r)) = s.cost j := by
    apply Classical.byContradiction
    intro hne
    have hlt : svc s j (t0 + (A' + r)) < s.cost j := by
      have := t_svc_le_cost hl j (t0 + (A' + r)); omega
    have hbusy : ∀ u, t0 ≤ u → u < t0 + (A' + r) →
        ∃ k, k < s.n ∧ Rel s i hp k ∧ Pending s k u := by
      intro u h1 h2
      rcases Nat.lt_or_ge u (s.arr j) with hu | hu
      · exact busy1 u h1 hu
      · refine ⟨j, hj, Or.inl hji, hu, ?_⟩
        have := svc_mono (s := s) j (show u ≤ t0 + (A' + r) by omega)
        omega
    -- the time at which `j` starts (`T` if it has not started before `T`)
    let st := Nat.findGreatest (fun u => svc s j u = 0) (t0 + (A' + r))
    have hst0 : svc s j st = 0 :=
      Nat.findGreatest_spec (P := fun u => svc s j u = 0) (Nat.zero_le _) rfl
    have hstle : st ≤ t0 + (A' + r) := Nat.findGreatest_le _
    have hstmax : ∀ u, st < u → u ≤ t0 + (A' + r) → 0 < svc s j u :=
      fun u h1 h2 => Nat.pos_of_ne_zero (Nat.findGreatest_is_greatest (P := fun u => svc s j u = 0) h1 h2)
    -- from its start on only `j` is served
    have F1 : ∀ u, st ≤ u → u < t0 + (A' + r) → ∀ j', s.sched u = some j' → j' = j := by
      intro u h1 h2 j' hs
      apply Classical.byContradiction
      intro hne'
      rcases Nat.eq_or_lt_of_le h1 with he | hlt'
      · have hp1 := hstmax (st + 1) (by omega) (by omega)
        have hsj := sched_of_svc_lt (s := s) j st (by omega)
        rw [he, hs] at hsj
        injection hsj with hsj
        exact hne' hsj
      · have hp1 := hstmax u hlt' (by omega)
        have := svc_mono (s := s) j (show u ≤ t0 + (A' + r) by omega)
        have := hl.nonpre u j' hs j hj (fun h => hne' h.symm)
        omega
    -- classification of the jobs served in [t0, T)
    have hb := sv_supply (s := s) (σ := σ)
      (fun k => Blk s i hp t0 k ∨
        ((s.task k = i ∧ t0 ≤ s.arr k ∧ s.arr k < s.arr j + 1) ∨
         (hp (s.task k) ∧ t0 ≤ s.arr k ∧ s.arr k < st))) t0 (A' + r) (by
      intro u h1 h2 h3
      obtain ⟨j', hj'⟩ := hl.wc u h3 (hbusy u h1 h2)
      have hv := hl.valid u j' hj'
      refine ⟨j', hj', hv.1, ?_⟩
      rcases busy_class hl t0 (t0 + (A' + r)) ht0q hbusy u j' h1 h2 hj' with hb | ⟨hr, ha, hb⟩
      · exact Or.inl hb
      · right
        rcases hr with hown | hhpj
        · left
          refine ⟨hown, ha, ?_⟩
          apply Classical.byContradiction
          intro hgt
          have hpos : 0 < svc s j' (u + 1) := by rw [svc_succ_of_eq j' u hj']; omega
          obtain ⟨u', hu', hs', hz'⟩ := exists_start (s := s) j' (u + 1) hpos
          have hv' := hl.valid u' j' hs'
          have hpj : Pending s j u' := by
            refine ⟨by have := hv'.2.1.1; omega, ?_⟩
            have := svc_mono (s := s) j (show u' ≤ t0 + (A' + r) by omega)
            omega
          have := hl.prioOwn u' j' hs' hz' hown j hj hji hpj
          omega
        · right
          refine ⟨hhpj, ha, ?_⟩
          rcases Nat.lt_or_ge u st with hlt' | hge'
          · omega
          · exfalso
            have := F1 u hge' h2 j' hj'
            rw [this, hji] at hhpj
            exact hi hhpj)
    have hdisj : ∀ t, sv s (fun k => Blk s i hp t0 k ∨
        ((s.task k = i ∧ t0 ≤ s.arr k ∧ s.arr k < s.arr j + 1) ∨
         (hp (s.task k) ∧ t0 ≤ s.arr k ∧ s.arr k < st))) t
        = sv s (Blk s i hp t0) t + sv s (fun k =>
          ((s.task k = i ∧ t0 ≤ s.arr k ∧ s.arr k < s.arr j + 1) ∨
           (hp (s.task k) ∧ t0 ≤ s.arr k ∧ s.arr k < st))) t :=
      fun t => sv_or_disj _ _ t (fun k h1 h2 => by
        rcases h2 with h | h
        · exact h1.1 (Or.inl h.1)
        · exact h1.1 (Or.inr h.1))
    rw [hdisj, hdisj] at hb
    have hOH0 : sv s (fun k =>
          ((s.task k = i ∧ t0 ≤ s.arr k ∧ s.arr k < s.arr j + 1) ∨
           (hp (s.task k) ∧ t0 ≤ s.arr k ∧ s.arr k < st))) t0 = 0 :=
      sv_zero _ _ (fun k _ hP => t_svc_zero_before hl k t0 (by
        rcases hP with h | h
        · exact h.2.1
        · exact h.2.1))
    have hblk := blk_bound hl B t0 (t0 + (A' + r)) hB
    have hOH := sv_or_le (s := s) (fun k => s.task k = i ∧ t0 ≤ s.arr k ∧ s.arr k < s.arr j + 1)
      (fun k => hp (s.task k) ∧ t0 ≤ s.arr k ∧ s.arr k < st) (t0 + (A' + r))
    -- own instances
    have hOwn := sv_split hl (fun k => s.task k = i ∧ t0 ≤ s.arr k ∧ s.arr k < s.arr j + 1) j
      (t0 + (A' + r)) hj
    have hOwn2 := wk_own_minus s i t0 (s.arr j + 1) j C hj hji ht0le (by omega) hcost
    have hOwn3 := Nat.mul_le_mul_left C hcntle
    rw [hA'eq] at hOwn3
    -- higher-priority timers: released in [t0, t0 + iv) or in [t0 + iv, st)
    have hHp1 := sv_imp (s := s) (fun k => hp (s.task k) ∧ t0 ≤ s.arr k ∧ s.arr k < st)
      (fun k => (hp (s.task k) ∧ t0 ≤ s.arr k ∧ s.arr k < t0 + iv) ∨
        (hp (s.task k) ∧ t0 + iv ≤ s.arr k ∧ s.arr k < st)) (t0 + (A' + r))
      (fun k _ hP => by
        rcases Nat.lt_or_ge (s.arr k) (t0 + iv) with h | h
        · exact Or.inl ⟨hP.1, hP.2.1, h⟩
        · exact Or.inr ⟨hP.1, h, hP.2.2⟩)
    have hHp2 := sv_or_le (s := s) (fun k => hp (s.task k) ∧ t0 ≤ s.arr k ∧ s.arr k < t0 + iv)
      (fun k => hp (s.task k) ∧ t0 + iv ≤ s.arr k ∧ s.arr k < st) (t0 + (A' + r))
    have hHp3 := sv_le_wk hl (fun k => hp (s.task k) ∧ t0 ≤ s.arr k ∧ s.arr k < t0 + iv)
      (t0 + (A' + r))
    have hHp4 := hhp t0 iv
    rw [workOf_eq_wk] at hHp4
    -- the late higher-priority instances are served only before `st`
    have hX1 : sv s (fun k => hp (s.task k) ∧ t0 + iv ≤ s.arr k ∧ s.arr k < st) (t0 + (A' + r))
        ≤ sv s (fun k => hp (s.task k) ∧ t0 + iv ≤ s.arr k ∧ s.arr k < st) st := by
      unfold sv
      apply sum_le_sum
      intro k _
      by_cases hP : hp (s.task k) ∧ t0 + iv ≤ s.arr k ∧ s.arr k < st
      · rw [if_pos hP, if_pos hP]
        apply le_of_eq
        apply svc_const k st _ hstle
        intro u h1 h2 hs
        have := F1 u h1 h2 k hs
        rw [this, hji] at hP
        exact hi hP.1
      · rw [if_neg hP, if_neg hP]
    have hX2 : sv s (fun k => hp (s.task k) ∧ t0 + iv ≤ s.arr k ∧ s.arr k < st) st
        ≤ st - (t0 + iv) := by
      rcases Nat.lt_or_ge st (t0 + iv) with h | h
      · rw [sv_zero]
        · exact Nat.zero_le _
        · intro k _ hP; omega
      · have h1 := sv_le_len (s := s) (fun k => hp (s.task k) ∧ t0 + iv ≤ s.arr k ∧ s.arr k < st)
          (t0 + iv) (st - (t0 + iv))
        have e : t0 + iv + (st - (t0 + iv)) = st := by omega
        rw [e] at h1
        have h2 : sv s (fun k => hp (s.task k) ∧ t0 + iv ≤ s.arr k ∧ s.arr k < st) (t0 + iv) = 0 :=
          sv_zero _ _ (fun k _ hP => t_svc_zero_before hl k (t0 + iv) hP.2.1)
        omega
    -- service of `j`
    have hJ1 := svc_le_len (s := s) j st (t0 + (A' + r) - st)
    have e : st + (t0 + (A' + r) - st) = t0 + (A' + r) := by omega
    rw [e, hst0] at hJ1
    have hJ2 := hcost j hj hji
    have h3 := hsbf t0 (A' + r)
    generalize C * N (A' + 1) = W at *
    omega
  exact t_done_mono hl j (by omega) hdone

/-- what `rta_timer = Ok(R)` provides (scalar WCET `C` of the analysed timer) -/
theorem timer_extract (sup : Supply) (hs : sup.WF) (a : Arr) (C : ℕ) (interf : RB)
    (hwf : a.WF) (hex : a.Exact) (hC : 1 ≤ C) (hpos : 0 < a.N 1)
    (hwfi : interf.ArrWF) (hexi : interf.Exact) (B limit R : ℕ)
    (hR : rosTimer sup (.rbf a (.scalar C)) interf B limit = .ok R) :
    ∃ L, 0 < L ∧ C * a.N L + B + interf.need L ≤ sup.sbf L ∧
      ∀ A, A ≤ L → a.N A < a.N (A + 1) → ∃ r, r ≤ R ∧
        C * a.N (A + 1) + interf.need (if r > C then A + r - C + 1 else A + 1) + B ≤ sup.sbf (A + r) := by
  have hlim : 1 ≤ limit := by
    rcases Nat.eq_zero_or_pos limit with h0 | h
    · subst h0
      unfold rosTimer rosBound search at hR
      rw [RTA.C08.limit_zero_diverges] at hR
      cases hR
    · exact h
  have hneed : ∀ d, (RB.rbf a (.scalar C)).need d = C * a.N d := fun d => by
    simp [RB.need, Cost.ofJobs]
  obtain ⟨hwfo, hexo⟩ := RosNaiveLemmas.scalar_rb_side a C hwf hex hC
  rw [timer_eq_naive_on_steps sup hs a C interf hwf hex hC hpos hwfi hexi B limit hlim] at hR
  unfold naiveRosBoundOn at hR
  rcases RosNaiveLemmas.nss_cases sup.sbf 0
      (fun d => (RB.rbf a (.scalar C)).need d + B + interf.need d) limit with ⟨L, h⟩ | h
  · rw [h] at hR
    simp only [] at hR
    have hL := (RosNaiveLemmas.nss_ok_iff _ _ _ _ _).1 h
    have hL2 : (RB.rbf a (.scalar C)).need (max L 1) + B + interf.need (max L 1) ≤ sup.sbf (0 + L) :=
      hL.2.1
    rw [Nat.zero_add, hneed] at hL2
    have hLpos : 0 < L := by
      rcases Nat.eq_zero_or_pos L with h0 | h
      · subst h0
        rw [Supply.sbf_zero sup hs] at hL2
        have e : max 0 1 = 1 := rfl
        rw [e] at hL2
        have := Nat.mul_pos hC hpos
        omega
      · exact h
    have hmax : max L 1 = L := by omega
    rw [hmax] at hL2
    refine ⟨L, hLpos, hL2, ?_⟩
    intro A hA hinc
    have hmem : A ∈ rosOffsets (.rbf a (.scalar C)) L := by
      rw [RosNaiveLemmas.mem_rosOffsets _ hwfo hexo L A]
      refine ⟨hA, ?_⟩
      rw [hneed, hneed]
      exact Nat.mul_lt_mul_of_pos_left hinc hC
    obtain ⟨v, hv, hvR⟩ := SupplyFifoLemmas.naiveMax_ok_inv _ R hR _ (List.mem_map.2 ⟨A, hmem, rfl⟩)
    have hv2 : (RB.rbf a (.scalar C)).need (A + 1) +
        interf.need (interferenceInterval (.rbf a (.scalar C)) A (max v 1)) + B ≤ sup.sbf (A + v) :=
      ((RosNaiveLemmas.nss_ok_iff _ _ _ _ _).1 hv).2.1
    rw [hneed, RosNaiveLemmas.iv_scalar a C hwf hpos A (max v 1) (by omega)] at hv2
    refine ⟨v, hvR, ?_⟩
    rcases Nat.eq_zero_or_pos v with h0 | hvpos
    · subst h0
      have e : max 0 1 = 1 := rfl
      rw [e] at hv2
      rw [if_neg (by omega)] at hv2
      rw [if_neg (by omega)]
      exact hv2
    · have e : max v 1 = v := by omega
      rw [e] at hv2
      exact hv2
  · rw [h] at hR
    cases hR

/-- C04, timer: `Ok(R)` of `rta_timer` is never exceeded by an instance of the analysed timer:
all supply processes delivering at least `sup.sbf` per window, all legal executions -/
theorem timer_sound (s : Sys) (σ : ℕ → Bool) (i : ℕ) (hp : ℕ → Prop) [DecidablePred hp]
    (hl : SupplyTimerLegal s σ i hp) (hi : ¬ hp i)
    (sup : Supply) (hs : sup.WF) (hsbf : ∀ t d, sup.sbf d ≤ service σ t d)
    (a : Arr) (C : ℕ) (hwf : a.WF) (hex : a.Exact) (hC : 1 ≤ C)
    (interf : RB) (hwfi : interf.ArrWF) (hexi : interf.Exact) (B : ℕ)
    (hN : ∀ t d, countOf s i t (t + d) ≤ a.N d)
    (hcost : ∀ k < s.n, s.task k = i → s.cost k ≤ C)
    (hhp : ∀ t d, workOf s hp t (t + d) ≤ interf.need d)
    (hB : ∀ k < s.n, ¬ Rel s i hp k → s.cost k ≤ B + 1)
    (limit R : ℕ) (hR : rosTimer sup (.rbf a (.scalar C)) interf B limit = .ok R) :
    ∀ j, j < s.n → s.task j = i → MeetsBound s j R := by
  intro j hj hji
  show svc s j (s.arr j + R) = s.cost j
  have hpos : 0 < a.N 1 := by
    have h1 := countOf_pos s i (s.arr j) (s.arr j + 1) j hj hji (le_refl _) (by omega)
    have h2 := hN (s.arr j) 1
    omega
  obtain ⟨L, hLpos, hLfix, hA⟩ :=
    timer_extract sup hs a C interf hwf hex hC hpos hwfi hexi B limit R hR
  exact supply_timer_sound s σ i hp hl hi sup.sbf a.N interf.need C B hC hsbf
    (fun d => Nat.le_trans (hsbf 0 d) (service_le σ 0 d))
    hN (Arr.N_mono a hwf) (Arr.N_zero a) hcost hhp (RB.need_mono interf hwfi hexi)
    hB L R hLpos hLfix hA j hj hji

/-- instance: periodic / deadline-constrained reservation, every compliant budget placement -/
theorem timer_sound_reservation (s : Sys) (Q D P : ℕ) (hQ : 1 ≤ Q) (hQD : Q ≤ D) (hDP : D ≤ P)
    (σ : ℕ → Bool) (hσ : Compliant Q D P σ) (i : ℕ) (hp : ℕ → Prop) [DecidablePred hp]
    (hl : SupplyTimerLegal s σ i hp) (hi : ¬ hp i)
    (a : Arr) (C : ℕ) (hwf : a.WF) (hex : a.Exact) (hC : 1 ≤ C)
    (interf : RB) (hwfi : interf.ArrWF) (hexi : interf.Exact) (B : ℕ)
    (hN : ∀ t d, countOf s i t (t + d) ≤ a.N d)
    (hcost : ∀ k < s.n, s.task k = i → s.cost k ≤ C)
    (hhp : ∀ t d, workOf s hp t (t + d) ≤ interf.need d)
    (hB : ∀ k < s.n, ¬ Rel s i hp k → s.cost k ≤ B + 1)
    (limit R : ℕ) (hR : rosTimer (.constrained Q D P) (.rbf a (.scalar C)) interf B limit = .ok R) :
    ∀ j, j < s.n → s.task j = i → MeetsBound s j R :=
  timer_sound s σ i hp hl hi (.constrained Q D P) ⟨hQ, hQD, hDP⟩
    (fun t d => cSbf_sound Q D P hQ hQD hDP σ hσ t d) a C hwf hex hC interf hwfi hexi B
    hN hcost hhp hB limit R hR

/-! ### polling-point callbacks

`rta_polling_point_callback` is `rta_timer` without blocking, every other callback counted as
interference: the schedule-level facts are those of `SupplyTimerLegal` with
`hp := fun k => k ≠ i` (no callback is "other"; `prioOther` is vacuous). -/

theorem pollingPoint_eq_timer (sup : Supply) (own interf : RB) (limit : ℕ) :
    rosPollingPoint sup own interf limit = rosTimer sup own interf 0 limit := rfl

/-- C04, polling point: `Ok(R)` of `rta_polling_point_callback` is never exceeded by an
instance of the analysed callback -/
theorem pollingPoint_sound (s : Sys) (σ : ℕ → Bool) (i : ℕ)
    (hl : SupplyTimerLegal s σ i (fun k => k ≠ i))
    (sup : Supply) (hs : sup.WF) (hsbf : ∀ t d, sup.sbf d ≤ service σ t d)
    (a : Arr) (C : ℕ) (hwf : a.WF) (hex : a.Exact) (hC : 1 ≤ C)
    (interf : RB) (hwfi : interf.ArrWF) (hexi : interf.Exact)
    (hN : ∀ t d, countOf s i t (t + d) ≤ a.N d)
    (hcost : ∀ k < s.n, s.task k = i → s.cost k ≤ C)
    (hint : ∀ t d, workOf s (fun k => k ≠ i) t (t + d) ≤ interf.need d)
    (limit R : ℕ) (hR : rosPollingPoint sup (.rbf a (.scalar C)) interf limit = .ok R) :
    ∀ j, j < s.n → s.task j = i → MeetsBound s j R := by
  rw [pollingPoint_eq_timer] at hR
  exact timer_sound s σ i (fun k => k ≠ i) hl (fun h => h rfl) sup hs hsbf a C hwf hex hC
    interf hwfi hexi 0 hN hcost hint
    (fun k _ h => absurd (Decidable.em (s.task k = i)) h) limit R hR

/-- instance: periodic / deadline-constrained reservation, every compliant budget placement -/
theorem pollingPoint_sound_reservation (s : Sys) (Q D P : ℕ) (hQ : 1 ≤ Q) (hQD : Q ≤ D)
    (hDP : D ≤ P) (σ : ℕ → Bool) (hσ : Compliant Q D P σ) (i : ℕ)
    (hl : SupplyTimerLegal s σ i (fun k => k ≠ i))
    (a : Arr) (C : ℕ) (hwf : a.WF) (hex : a.Exact) (hC : 1 ≤ C)
    (interf : RB) (hwfi : interf.ArrWF) (hexi : interf.Exact)
    (hN : ∀ t d, countOf s i t (t + d) ≤ a.N d)
    (hcost : ∀ k < s.n, s.task k = i → s.cost k ≤ C)
    (hint : ∀ t d, workOf s (fun k => k ≠ i) t (t + d) ≤ interf.need d)
    (limit R : ℕ)
    (hR : rosPollingPoint (.constrained Q D P) (.rbf a (.scalar C)) interf limit = .ok R) :
    ∀ j, j < s.n → s.task j = i → MeetsBound s j R :=
  pollingPoint_sound s σ i hl (.constrained Q D P) ⟨hQ, hQD, hDP⟩
    (fun t d => cSbf_sound Q D P hQ hQD hDP σ hσ t d) a C hwf hex hC interf hwfi hexi
    hN hcost hint limit R hR

end RTA.Sched
