import RTA.Lemmas.MonoRosOwn
/-! C17, processing chain: every single-parameter hardening, including the chain's own arrival
curve and the WCET of its last callback. -/

namespace RTA
open RTA.Spec RTA.Sched

theorem chain_mono_all (s s' : Supply) (hs : s.WF) (hs' : s'.WF) (hsup : s'.Weaker s)
    (a a' : Arr) (C C' P P' : Nat) (hwf : a.WF) (hex : a.Exact) (hwf' : a'.WF) (hex' : a'.Exact)
    (hC : 1 ≤ C) (hCC : C ≤ C') (hP : 1 ≤ P) (hPP : P ≤ P')
    (hpos : 0 < a.N 1) (hN : ∀ d, a.N d ≤ a'.N d)
    (others others' : RB) (hwfo : others.ArrWF) (hexo : others.Exact)
    (hwfo' : others'.ArrWF) (hexo' : others'.Exact)
    (h : ∀ d, others.need d ≤ others'.need d) (limit : Nat) (hl : 1 ≤ limit) :
    Res.leD
      (rosChain s (.rbf a (.scalar C)) (.rbf a (.scalar P)) (.rbf a (.scalar (C + P))) others limit)
      (rosChain s' (.rbf a' (.scalar C')) (.rbf a' (.scalar P')) (.rbf a' (.scalar (C' + P'))) others' limit) := by
  have hC' : 1 ≤ C' := Nat.le_trans hC hCC
  have hP' : 1 ≤ P' := Nat.le_trans hP hPP
  have hpos' : 0 < a'.N 1 := Nat.lt_of_lt_of_le hpos (hN 1)
  rw [rosChain_eq_pollingPoint _ _ _ _ hC, rosChain_eq_pollingPoint _ _ _ _ hC']
  have hwfI : (RB.agg [.rbf a (.scalar P), others]).ArrWF := by
    simp only [RB.ArrWF, RB.ArrWFList]; exact ⟨hwf, hwfo, trivial⟩
  have hexI : (RB.agg [.rbf a (.scalar P), others]).Exact := by
    simp only [RB.Exact, RB.ExactList]; exact ⟨⟨hex, Cost.scalar_strictPos P hP⟩, hexo, trivial⟩
  have hwfI' : (RB.agg [.rbf a' (.scalar P'), others']).ArrWF := by
    simp only [RB.ArrWF, RB.ArrWFList]; exact ⟨hwf', hwfo', trivial⟩
  have hexI' : (RB.agg [.rbf a' (.scalar P'), others']).Exact := by
    simp only [RB.Exact, RB.ExactList]; exact ⟨⟨hex', Cost.scalar_strictPos P' hP'⟩, hexo', trivial⟩
  refine Res.leD_trans
    (pollingPoint_mono_own s hs a a' C C' hwf hex hwf' hex' hC hCC hpos hN
      (.agg [.rbf a (.scalar P), others]) hwfI hexI limit hl)
    (pollingPoint_mono s s' hs hs' hsup a' C' hwf' hex' hC' hpos'
      (.agg [.rbf a (.scalar P), others]) (.agg [.rbf a' (.scalar P'), others'])
      hwfI hexI hwfI' hexI'
      (fun d => by
        rw [ChainSoundLemmas.need_agg2, ChainSoundLemmas.need_agg2,
          ChainSoundLemmas.need_scalar, ChainSoundLemmas.need_scalar]
        exact Nat.add_le_add (Nat.mul_le_mul hPP (hN d)) (h d))
      limit hl)

end RTA
