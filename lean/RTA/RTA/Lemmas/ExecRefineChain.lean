import RTA.Lemmas.ExecRefine
import RTA.Lemmas.ChainSound
/-! Refinement for processing chains: every run of the executor transition system WITH a linear
chain `c₀ → c₁ → … → c_k` (the completion of an instance of `c_x` releases an instance of
`c_{x+1}`; only `c₀` is released externally) satisfies the schedule-level Spec used by
`chain_sound`: `SupplyTimerLegal` for the last callback of the chain with every other callback
as interference, where every callback instance of the chain carries as its arrival time the
arrival time of the source event of its chain instance. -/

open Finset

namespace RTA.Exec
open RTA RTA.Sched

variable (cbs : List Cb) (ch : List ℕ) (sigma : ℕ → Bool) (rels : ℕ → List ℕ)

/-- the `chain` function of the transition system for the linear chain `ch = [c₀, …, c_k]` -/
def chainFn (i : ℕ) : Option ℕ :=
  match ch.findIdx? (· = i) with
  | some x => ch[x + 1]?
  | none => none

/-- the state at the beginning of slot `t` (with the chain) -/
def stateAtC : ℕ → State
  | 0 => State.init cbs.length
  | t + 1 => (step cbs (chainFn ch) t (sigma t) (rels t) (stateAtC t)).1

/-- state of slot `t` after recording the releases and picking -/
def pickedAtC (t : ℕ) : State :=
  let s1 := { stateAtC cbs ch sigma rels t with
    queue := addReleases (stateAtC cbs ch sigma rels t).queue (rels t) t }
  if !sigma t then s1 else
  match s1.running with
  | some _ => s1
  | none => pick cbs s1

def servedCbC (t : ℕ) : Option ℕ :=
  if !sigma t then none else (pickedAtC cbs ch sigma rels t).running.map (·.1)

def startsCbC (t i : ℕ) : Bool :=
  sigma t && (({ stateAtC cbs ch sigma rels t with
      queue := addReleases (stateAtC cbs ch sigma rels t).queue (rels t) t } : State).running.isNone) &&
    (servedCbC cbs ch sigma rels t == some i)

def startedBeforeC (i : ℕ) : ℕ → ℕ
  | 0 => 0
  | t + 1 => startedBeforeC i t + (if startsCbC cbs ch sigma rels t i then 1 else 0)

/-- number of source events (external releases of `c₀`) before `H` -/
def nSrc (H : ℕ) : ℕ := ((events rels H).filter fun e => some e.2 = ch.head?).length

/-- the jobs of a run with a chain: first the external release events (as in `toSys`), then,
for every later stage `x = 1 … k` of the chain and every source event `m`, the instance of
`c_x` that belongs to the `m`-th chain instance.  Every job of the chain carries the arrival
time of its source event. -/
def toSysC (H : ℕ) : Sys where
  n := (events rels H).length + (ch.length - 1) * nSrc ch rels H
  task := fun k =>
    if k < (events rels H).length then ((events rels H).getD k (0, 0)).2
    else ch.getD ((k - (events rels H).length) / nSrc ch rels H + 1) 0
  arr := fun k =>
    if k < (events rels H).length then ((events rels H).getD k (0, 0)).1
    else
      match nthEventOf rels H (ch.headD 0) ((k - (events rels H).length) % nSrc ch rels H) with
      | some e => ((events rels H).getD e (0, 0)).1
      | none => 0
  cost := fun k =>
    (cbs.getD (if k < (events rels H).length then ((events rels H).getD k (0, 0)).2
               else ch.getD ((k - (events rels H).length) / nSrc ch rels H + 1) 0) default).cost
  np := fun _ _ => False
  sched := fun t =>
    match servedCbC cbs ch sigma rels t with
    | none => none
    | some i =>
      let m0 := startedBeforeC cbs ch sigma rels i t
      let m := if startsCbC cbs ch sigma rels t i then m0 else m0 - 1
      match ch.findIdx? (· = i) with
      | some (x + 1) => some ((events rels H).length + x * nSrc ch rels H + m)
      | _ => nthEventOf rels H i m

namespace ChainRefineLemmas
open RefineLemmas

/-! ### the structure of the chain -/

section chain
variable (ch : List ℕ)

/-- the callback at position `x` of the chain -/
def cAt (x : ℕ) : ℕ := ch.getD x 0

theorem cAt_eq {x : ℕ} (hx : x < ch.length) : cAt ch x = ch[x] := by
  simp [cAt, List.getD_eq_getElem?_getD, List.getElem?_eq_getElem hx]

theorem idx_some {i x : ℕ} (h : ch.findIdx? (· = i) = some x) : x < ch.length ∧ cAt ch x = i := by
  rw [List.findIdx?_eq_some_iff_getElem] at h
  obtain ⟨hx, h1, _⟩ := h
  exact ⟨hx, by rw [cAt_eq ch hx]; simpa using h1⟩

theorem idx_none {i : ℕ} (h : ch.findIdx? (· = i) = none) : i ∉ ch := by
  rw [List.findIdx?_eq_none_iff] at h
  intro hi
  simpa using h i hi

variable {ch}

theorem idx_cAt (hnd : ch.Nodup) {x : ℕ} (hx : x < ch.length) :
    ch.findIdx? (· = cAt ch x) = some x := by
  rw [List.findIdx?_eq_some_iff_getElem]
  refine ⟨hx, by simp [cAt_eq ch hx], ?_⟩
  intro j hj
  rw [cAt_eq ch hx]
  have : ch[j] ≠ ch[x] := fun e => by
    have := (hnd.getElem_inj_iff (hi := by omega) (hj := hx)).1 e
    omega
  simpa using this

theorem cAt_inj (hnd : ch.Nodup) {x y : ℕ} (hx : x < ch.length) (hy : y < ch.length)
    (h : cAt ch x = cAt ch y) : x = y := by
  rw [cAt_eq ch hx, cAt_eq ch hy] at h
  exact (hnd.getElem_inj_iff).1 h

theorem cAt_mem {x : ℕ} (hx : x < ch.length) : cAt ch x ∈ ch := by
  rw [cAt_eq ch hx]; exact List.getElem_mem _

theorem mem_ch {i : ℕ} : i ∈ ch ↔ ∃ x, x < ch.length ∧ i = cAt ch x := by
  rw [List.mem_iff_getElem]
  constructor
  · rintro ⟨x, hx, e⟩; exact ⟨x, hx, by rw [cAt_eq ch hx, e]⟩
  · rintro ⟨x, hx, e⟩; exact ⟨x, hx, by rw [e, cAt_eq ch hx]⟩

theorem mem_tail {i : ℕ} : i ∈ ch.tail ↔ ∃ x, x + 1 < ch.length ∧ i = cAt ch (x + 1) := by
  rw [List.mem_iff_getElem]
  constructor
  · rintro ⟨x, hx, e⟩
    have hx' : x + 1 < ch.length := by simp at hx; omega
    exact ⟨x, hx', by rw [cAt_eq ch hx', ← e, List.getElem_tail]⟩
  · rintro ⟨x, hx, e⟩
    have hx' : x < ch.tail.length := by simp; omega
    exact ⟨x, hx', by rw [e, cAt_eq ch hx, List.getElem_tail]⟩

theorem head_not_tail (hnd : ch.Nodup) (h0 : 0 < ch.length) : cAt ch 0 ∉ ch.tail := by
  rw [mem_tail]
  rintro ⟨x, hx, e⟩
  have := cAt_inj hnd h0 hx e
  omega

theorem chainFn_cAt (hnd : ch.Nodup) {x : ℕ} (hx : x + 1 < ch.length) :
    chainFn ch (cAt ch x) = some (cAt ch (x + 1)) := by
  unfold chainFn
  rw [idx_cAt hnd (by omega)]
  simp only
  rw [cAt_eq ch hx, List.getElem?_eq_getElem hx]

theorem chainFn_some {i j : ℕ} (h : chainFn ch i = some j) :
    ∃ x, x + 1 < ch.length ∧ i = cAt ch x ∧ j = cAt ch (x + 1) := by
  unfold chainFn at h
  split at h
  · rename_i x hx
    obtain ⟨h1, h2⟩ := List.getElem?_eq_some_iff.1 h
    exact ⟨x, h1, (idx_some ch hx).2.symm, by rw [cAt_eq ch h1, h2]⟩
  · cases h

/-- the completion of `i` releases `cAt (x+1)` iff `i = cAt x` -/
theorem chainFn_iff (hnd : ch.Nodup) {i x : ℕ} (hx : x + 1 < ch.length) :
    chainFn ch i = some (cAt ch (x + 1)) ↔ i = cAt ch x := by
  constructor
  · intro h
    obtain ⟨y, hy, e1, e2⟩ := chainFn_some h
    have := cAt_inj hnd hx hy e2
    have : x = y := by omega
    subst this; exact e1
  · intro e; subst e; exact chainFn_cAt hnd hx

theorem chainFn_tail {i j : ℕ} (h : chainFn ch i = some j) : j ∈ ch.tail := by
  obtain ⟨y, hy, _, e2⟩ := chainFn_some h
  exact mem_tail.2 ⟨y, hy, e2⟩

end chain

/-! ### what happens in one slot -/

section slot
variable (cbs : List Cb) (ch : List ℕ) (sigma : ℕ → Bool) (rels : ℕ → List ℕ)

/-- the state in slot `t` after the releases of `t` have been recorded -/
def relAtC (t : ℕ) : State :=
  { stateAtC cbs ch sigma rels t with
    queue := addReleases (stateAtC cbs ch sigma rels t).queue (rels t) t }

/-- the queues after the completion of an instance of `i` at the end of slot `t` -/
def chq (i : ℕ) (q : List (List ℕ)) (t : ℕ) : List (List ℕ) :=
  match chainFn ch i with
  | some j => addReleases q [j] (t + 1)
  | none => q

/-- the end of a supplied slot -/
def fin (t : ℕ) (s2 : State) : State :=
  match s2.running with
  | none => s2
  | some (i, rem, r) =>
    if rem ≤ 1 then { s2 with queue := chq ch i s2.queue t, running := none }
    else { s2 with running := some (i, rem - 1, r) }

theorem fin_aux (t : ℕ) (s2 : State) :
    (match s2.running with
      | none => ((s2, none) : State × Option (ℕ × ℕ × ℕ))
      | some (i, rem, r) =>
        if rem ≤ 1 then
          let q := match chainFn ch i with
            | some j => addReleases s2.queue [j] (t + 1)
            | none => s2.queue
          ({ s2 with queue := q, running := none }, some (i, r, t + 1))
        else ({ s2 with running := some (i, rem - 1, r) }, none)).1 = fin ch t s2 := by
  unfold fin
  rcases s2.running with _ | ⟨i, rem, r⟩
  · rfl
  · simp only
    split <;> rfl

theorem stateAtC_succ (t : ℕ) : stateAtC cbs ch sigma rels (t + 1) =
    if sigma t = true then fin ch t (pickedAtC cbs ch sigma rels t) else relAtC cbs ch sigma rels t := by
  cases hs : sigma t with
  | false => simp [stateAtC, step, hs, relAtC]
  | true =>
    simp only [stateAtC, step, pickedAtC, hs, relAtC]
    simp only [Bool.not_true, Bool.false_eq_true, if_false, if_true]
    exact fin_aux ch t _

theorem pickedAtC_eq (t : ℕ) : pickedAtC cbs ch sigma rels t =
    if sigma t = true then
      (match (relAtC cbs ch sigma rels t).running with
        | some _ => relAtC cbs ch sigma rels t
        | none => pick cbs (relAtC cbs ch sigma rels t))
    else relAtC cbs ch sigma rels t := by
  cases hs : sigma t <;> simp [pickedAtC, hs, relAtC]

theorem startsCbC_eq (t c : ℕ) : startsCbC cbs ch sigma rels t c =
    (sigma t && (relAtC cbs ch sigma rels t).running.isNone &&
      (servedCbC cbs ch sigma rels t == some c)) := rfl

theorem servedCbC_eq (t : ℕ) : servedCbC cbs ch sigma rels t =
    if sigma t = true then (pickedAtC cbs ch sigma rels t).running.map (·.1) else none := by
  cases hs : sigma t <;> simp [servedCbC, hs]

theorem fin_running (t : ℕ) (s2 : State) : (fin ch t s2).running =
    match s2.running with
    | none => none
    | some (i, rem, r) => if rem ≤ 1 then none else some (i, rem - 1, r) := by
  unfold fin
  rcases h : s2.running with _ | ⟨i, rem, r⟩
  · simp [h]
  · simp only
    split <;> rfl

theorem fin_ready (t : ℕ) (s2 : State) : (fin ch t s2).ready = s2.ready := by
  unfold fin
  rcases h : s2.running with _ | ⟨i, rem, r⟩
  · rfl
  · simp only
    split <;> rfl

theorem chq_length (i : ℕ) (q : List (List ℕ)) (t : ℕ) : (chq ch i q t).length = q.length := by
  unfold chq
  split
  · exact addReleases_length _ _ _
  · rfl

theorem chq_getD (i : ℕ) (q : List (List ℕ)) (t j : ℕ) (hj : j < q.length) :
    ((chq ch i q t).getD j []).length =
      (q.getD j []).length + if chainFn ch i = some j then 1 else 0 := by
  unfold chq
  split
  · rename_i j' hj'
    rw [addReleases_getD _ _ _ _ hj]
    by_cases e : j' = j
    · subst e; simp [hj']
    · simp [e, hj']
  · rename_i h; simp [h]

end slot

section slot2
variable {cbs : List Cb} {ch : List ℕ} {sigma : ℕ → Bool} {rels : ℕ → List ℕ}

local notation "St" => stateAtC cbs ch sigma rels
local notation "Rl" => relAtC cbs ch sigma rels
local notation "Pk" => pickedAtC cbs ch sigma rels
local notation "sb" => startedBeforeC cbs ch sigma rels
local notation "served" => servedCbC cbs ch sigma rels
local notation "starts" => startsCbC cbs ch sigma rels

variable (cbs ch sigma rels) in
/-- the ready set used by `pick` in slot `t` -/
def readyAtC (t : ℕ) : List ℕ :=
  if (Rl t).ready.isEmpty then pendingPolled cbs (Rl t).queue else (Rl t).ready

variable {t : ℕ}

theorem slotA (hs : sigma t = false) :
    served t = none ∧ (∀ c, starts t c = false) ∧ St (t + 1) = Rl t := by
  refine ⟨by simp [servedCbC_eq, hs], fun c => by simp [startsCbC_eq, hs],
    by simp [stateAtC_succ, hs]⟩

theorem slotB (hs : sigma t = true) {i rem r : ℕ} (hr : (Rl t).running = some (i, rem, r)) :
    served t = some i ∧ (∀ c, starts t c = false) ∧ Pk t = Rl t := by
  have hp : Pk t = Rl t := by rw [pickedAtC_eq]; simp [hs, hr]
  exact ⟨by simp [servedCbC_eq, hs, hp, hr], fun c => by simp [startsCbC_eq, hr], hp⟩

theorem slotC (hs : sigma t = true) (hr : (Rl t).running = none) {i : ℕ}
    (hb : bestOf cbs (pendingTimers cbs (Rl t).queue) = some i) :
    served t = some i ∧ (∀ c, starts t c = true ↔ c = i) ∧
    Pk t = { queue := (Rl t).queue.set i (((Rl t).queue.getD i []).drop 1),
             ready := (Rl t).ready,
             running := some (i, (cbs.getD i default).cost, ((Rl t).queue.getD i []).headD 0) } := by
  have hp0 : Pk t = pick cbs (Rl t) := by
    rw [pickedAtC_eq, if_pos hs]; simp only [hr]
  have hp := hp0.trans (pick_timer cbs _ i hb)
  have hsv : served t = some i := by simp [servedCbC_eq, hs, hp]
  refine ⟨hsv, fun c => ?_, hp⟩
  rw [startsCbC_eq, hs, hr, hsv]
  simp only [Option.isNone_none, Bool.and_self, Bool.true_and, beq_iff_eq, Option.some.injEq]
  exact eq_comm

theorem slotD (hs : sigma t = true) (hr : (Rl t).running = none)
    (hb : bestOf cbs (pendingTimers cbs (Rl t).queue) = none) {i : ℕ}
    (hb2 : bestOf cbs (readyAtC cbs ch sigma rels t) = some i) :
    served t = some i ∧ (∀ c, starts t c = true ↔ c = i) ∧
    Pk t = { queue := (Rl t).queue.set i (((Rl t).queue.getD i []).drop 1),
             ready := (readyAtC cbs ch sigma rels t).erase i,
             running := some (i, (cbs.getD i default).cost, ((Rl t).queue.getD i []).headD 0) } := by
  have hp0 : Pk t = pick cbs (Rl t) := by
    rw [pickedAtC_eq, if_pos hs]; simp only [hr]
  have hp := hp0.trans (pick_polled cbs _ i hb hb2)
  have hsv : served t = some i := by simp [servedCbC_eq, hs, hp]
  refine ⟨hsv, fun c => ?_, hp⟩
  rw [startsCbC_eq, hs, hr, hsv]
  simp only [Option.isNone_none, Bool.and_self, Bool.true_and, beq_iff_eq, Option.some.injEq]
  exact eq_comm

theorem slotE (hs : sigma t = true) (hr : (Rl t).running = none)
    (hb : bestOf cbs (pendingTimers cbs (Rl t).queue) = none)
    (hb2 : bestOf cbs (readyAtC cbs ch sigma rels t) = none) :
    served t = none ∧ (∀ c, starts t c = false) ∧
    Pk t = { Rl t with ready := readyAtC cbs ch sigma rels t } := by
  have hp0 : Pk t = pick cbs (Rl t) := by
    rw [pickedAtC_eq, if_pos hs]; simp only [hr]
  have hp := hp0.trans (pick_none cbs _ hb hb2)
  have hsv : served t = none := by simp [servedCbC_eq, hs, hp, hr]
  exact ⟨hsv, fun c => by simp [startsCbC_eq, hsv], hp⟩

theorem sbC_succ (i t : ℕ) : sb i (t + 1) = sb i t + if starts t i = true then 1 else 0 := rfl

end slot2

/-! ### layer 1: queues, running instance, ready set -/

section good
variable (cbs : List Cb) (ch : List ℕ)

/-- the bookkeeping invariant of a state: `sbf i` = instances of `i` started so far, `cn i` =
external releases of `i` recorded so far -/
structure Good (s : State) (sbf cn : ℕ → ℕ) : Prop where
  qlen : s.queue.length = cbs.length
  qExt : ∀ i, i < cbs.length → i ∉ ch.tail → (s.queue.getD i []).length + sbf i = cn i
  qCh : ∀ x, x + 1 < ch.length →
    (s.queue.getD (cAt ch (x + 1)) []).length + sbf (cAt ch (x + 1)) +
      (if s.running.map (·.1) = some (cAt ch x) then 1 else 0) = sbf (cAt ch x)
  runOk : ∀ i rem r, s.running = some (i, rem, r) → i < cbs.length ∧ 1 ≤ sbf i ∧ 1 ≤ rem
  rNodup : s.ready.Nodup
  rPolled : ∀ c ∈ s.ready, c < cbs.length ∧ (cbs.getD c default).isTimer = false
  rPend : ∀ c ∈ s.ready, 0 < (s.queue.getD c []).length

variable {cbs ch}

theorem Good.congr {s : State} {sbf cn sbf' cn' : ℕ → ℕ} (g : Good cbs ch s sbf cn)
    (h1 : ∀ i, sbf' i = sbf i) (h2 : ∀ i, cn' i = cn i) : Good cbs ch s sbf' cn' := by
  have e1 : sbf' = sbf := funext h1
  have e2 : cn' = cn := funext h2
  rw [e1, e2]; exact g

variable (hmem : ∀ i ∈ ch, i < cbs.length)
include hmem

theorem good_rel {s : State} {sbf cn : ℕ → ℕ} (g : Good cbs ch s sbf cn) (rel : List ℕ) (t : ℕ)
    (hext : ∀ i ∈ rel, i ∉ ch.tail) :
    Good cbs ch { s with queue := addReleases s.queue rel t } sbf (fun i => cn i + rel.count i) := by
  have hget : ∀ i, i < cbs.length → ((addReleases s.queue rel t).getD i []).length =
      (s.queue.getD i []).length + rel.count i := fun i hi =>
    addReleases_getD _ _ _ _ (by rw [g.qlen]; exact hi)
  refine ⟨by simp only [addReleases_length]; exact g.qlen, ?_, ?_, g.runOk, g.rNodup, g.rPolled, ?_⟩
  · intro i hi hnt
    simp only
    rw [hget i hi]
    have := g.qExt i hi hnt
    omega
  · intro x hx
    have hi := hmem _ (cAt_mem hx)
    have hc : rel.count (cAt ch (x + 1)) = 0 :=
      List.count_eq_zero.2 (fun hin => hext _ hin (mem_tail.2 ⟨x, hx, rfl⟩))
    simp only
    rw [hget _ hi, hc]
    exact g.qCh x hx
  · intro c hc
    simp only
    rw [hget c (g.rPolled c hc).1]
    have := g.rPend c hc
    omega

omit hmem in
theorem good_ready {s : State} {sbf cn : ℕ → ℕ} (g : Good cbs ch s sbf cn) (ready' : List ℕ)
    (hnd : ready'.Nodup)
    (hr : ∀ c ∈ ready', c < cbs.length ∧ (cbs.getD c default).isTimer = false ∧
      0 < (s.queue.getD c []).length) :
    Good cbs ch { s with ready := ready' } sbf cn :=
  ⟨g.qlen, g.qExt, g.qCh, g.runOk, hnd, fun c hc => ⟨(hr c hc).1, (hr c hc).2.1⟩,
    fun c hc => (hr c hc).2.2⟩

theorem good_pop {s : State} {sbf cn : ℕ → ℕ} (g : Good cbs ch s sbf cn) (hrun : s.running = none)
    (i0 : ℕ) (hi0 : i0 < cbs.length) (hq0 : 0 < (s.queue.getD i0 []).length)
    (ready' : List ℕ) (rem0 r0 : ℕ) (hrem : 1 ≤ rem0) (hnd : ready'.Nodup)
    (hready : ∀ c ∈ ready', c ≠ i0 ∧ c < cbs.length ∧ (cbs.getD c default).isTimer = false ∧
      0 < (s.queue.getD c []).length) :
    Good cbs ch { queue := s.queue.set i0 ((s.queue.getD i0 []).drop 1), ready := ready',
                  running := some (i0, rem0, r0) }
      (fun i => sbf i + if i = i0 then 1 else 0) cn := by
  have hget : ∀ j, j < cbs.length →
      ((s.queue.set i0 ((s.queue.getD i0 []).drop 1)).getD j []).length =
        (s.queue.getD j []).length - if j = i0 then 1 else 0 := by
    intro j hj
    rw [getD_set_len _ _ _ _ (by rw [g.qlen]; exact hj)]
    by_cases e : i0 = j
    · subst e; simp
    · rw [if_neg e, if_neg (fun hh => e hh.symm)]; rfl
  refine ⟨by simpa using g.qlen, ?_, ?_, ?_, hnd, ?_, ?_⟩
  · intro i hi hnt
    simp only
    rw [hget i hi]
    have := g.qExt i hi hnt
    by_cases e : i = i0
    · subst e; simp only [if_true] at *; omega
    · simp only [if_neg e]; omega
  · intro x hx
    have ha := hmem _ (cAt_mem hx)
    have hb := hmem _ (cAt_mem (show x < ch.length by omega))
    have h0 := g.qCh x hx
    rw [hrun] at h0
    simp only [Option.map_none] at h0
    rw [if_neg (by simp)] at h0
    simp only [Option.map_some, Option.some.injEq]
    rw [hget _ ha]
    by_cases e1 : cAt ch (x + 1) = i0
    · by_cases e2 : cAt ch x = i0
      · rw [if_pos e1, if_pos e2.symm, if_pos e2]; rw [e1] at h0 ⊢; omega
      · rw [if_pos e1, if_neg (fun h => e2 h.symm), if_neg e2]; rw [e1] at h0 ⊢; omega
    · by_cases e2 : cAt ch x = i0
      · rw [if_neg e1, if_pos e2.symm, if_pos e2]; omega
      · rw [if_neg e1, if_neg (fun h => e2 h.symm), if_neg e2]; omega
  · intro i rem r hr
    cases hr
    simp only [if_true]
    exact ⟨hi0, by omega, hrem⟩
  · intro c hc
    have := hready c hc
    exact ⟨this.2.1, this.2.2.1⟩
  · intro c hc
    have := hready c hc
    simp only
    rw [hget c this.2.1, if_neg this.1]
    exact this.2.2.2

theorem good_fin (hnd : ch.Nodup) {s : State} {sbf cn : ℕ → ℕ} (g : Good cbs ch s sbf cn) (t : ℕ) :
    Good cbs ch (fin ch t s) sbf cn := by
  unfold fin
  rcases hr : s.running with _ | ⟨i, rem, r⟩
  · exact g
  · simp only
    have hok := g.runOk i rem r hr
    split
    · have hget : ∀ j, j < cbs.length → ((chq ch i s.queue t).getD j []).length =
          (s.queue.getD j []).length + if chainFn ch i = some j then 1 else 0 := fun j hj =>
        chq_getD ch i s.queue t j (by rw [g.qlen]; exact hj)
      refine ⟨by simp only [chq_length]; exact g.qlen, ?_, ?_, ?_, g.rNodup, g.rPolled, ?_⟩
      · intro j hj hnt
        simp only
        rw [hget j hj, if_neg (fun h => hnt (chainFn_tail h))]
        exact g.qExt j hj hnt
      · intro x hx
        have ha := hmem _ (cAt_mem hx)
        have h0 := g.qCh x hx
        rw [hr] at h0
        simp only [Option.map_some, Option.some.injEq] at h0
        simp only [Option.map_none]
        rw [hget _ ha, if_neg (show ¬ (none : Option ℕ) = some (cAt ch x) by simp)]
        by_cases e : i = cAt ch x
        · rw [if_pos ((chainFn_iff hnd hx).2 e)]; rw [if_pos e] at h0; omega
        · rw [if_neg (fun h => e ((chainFn_iff hnd hx).1 h))]; rw [if_neg e] at h0; omega
      · intro i' rem' r' h; cases h
      · intro c hc
        simp only
        rw [hget c (g.rPolled c hc).1]
        have := g.rPend c hc
        omega
    · refine ⟨g.qlen, g.qExt, ?_, ?_, g.rNodup, g.rPolled, g.rPend⟩
      · intro x hx
        have h0 := g.qCh x hx
        rw [hr] at h0
        exact h0
      · intro i' rem' r' h
        cases h
        exact ⟨hok.1, hok.2.1, by omega⟩

end good

section inv1
variable {cbs : List Cb} {ch : List ℕ} {sigma : ℕ → Bool} {rels : ℕ → List ℕ}

local notation "St" => stateAtC cbs ch sigma rels
local notation "Rl" => relAtC cbs ch sigma rels
local notation "Pk" => pickedAtC cbs ch sigma rels
local notation "sb" => startedBeforeC cbs ch sigma rels
local notation "served" => servedCbC cbs ch sigma rels
local notation "starts" => startsCbC cbs ch sigma rels

theorem good_rdy_nodup {s : State} {sbf cn : ℕ → ℕ} (g : Good cbs ch s sbf cn) :
    (if s.ready.isEmpty then pendingPolled cbs s.queue else s.ready).Nodup := by
  split
  · exact nodup_pendingPolled _ _
  · exact g.rNodup

theorem good_rdy_mem {s : State} {sbf cn : ℕ → ℕ} (g : Good cbs ch s sbf cn) :
    ∀ c ∈ (if s.ready.isEmpty then pendingPolled cbs s.queue else s.ready),
      c < cbs.length ∧ (cbs.getD c default).isTimer = false ∧ 0 < (s.queue.getD c []).length := by
  intro c hc
  split at hc
  · exact (mem_pendingPolled _ _ _).1 hc
  · exact ⟨(g.rPolled c hc).1, (g.rPolled c hc).2, g.rPend c hc⟩

variable (cbs ch sigma rels) in
/-- the bookkeeping invariant at the beginning of slot `t` -/
def Inv1C (t : ℕ) : Prop := Good cbs ch (St t) (fun i => sb i t) (fun i => cnt rels i t)

theorem getD_replicate_nil (n i : ℕ) : ((List.replicate n ([] : List ℕ))[i]?).getD [] = [] := by
  rw [List.getElem?_replicate]; split <;> rfl

theorem inv1C_zero : Inv1C cbs ch sigma rels 0 := by
  refine ⟨by simp [stateAtC, State.init], ?_, ?_, ?_, by simp [stateAtC, State.init], ?_, ?_⟩
  · intro i hi _
    simp [stateAtC, State.init, startedBeforeC, cnt, List.getD_eq_getElem?_getD, getD_replicate_nil]
  · intro x hx
    simp [stateAtC, State.init, startedBeforeC, List.getD_eq_getElem?_getD, getD_replicate_nil]
  · intro i rem r h; simp [stateAtC, State.init] at h
  · intro c hc; simp [stateAtC, State.init] at hc
  · intro c hc; simp [stateAtC, State.init] at hc

variable (hnd : ch.Nodup) (hmem : ∀ i ∈ ch, i < cbs.length) (hext : ∀ t, ∀ i ∈ rels t, i ∉ ch.tail)
  (hcost : ∀ c ∈ cbs, 1 ≤ c.cost)
variable {t : ℕ}
include hmem hext

theorem goodRl_of (h : Inv1C cbs ch sigma rels t) :
    Good cbs ch (Rl t) (fun i => sb i t) (fun i => cnt rels i (t + 1)) :=
  (good_rel hmem h (rels t) t (hext t)).congr (fun _ => rfl) (fun _ => rfl)

include hcost in
theorem goodPk_of (h : Inv1C cbs ch sigma rels t) (hs : sigma t = true) :
    Good cbs ch (Pk t) (fun i => sb i (t + 1)) (fun i => cnt rels i (t + 1)) := by
  have g := goodRl_of hmem hext h
  rcases hr : (Rl t).running with _ | ⟨i, rem, r⟩
  · cases hb : bestOf cbs (pendingTimers cbs (Rl t).queue) with
    | some i =>
      obtain ⟨_, hst, hp⟩ := slotC hs hr hb
      have hm := (mem_pendingTimers _ _ _).1 (bestOf_mem _ _ _ hb)
      rw [hp]
      refine (good_pop hmem g hr i hm.1 hm.2.2 _ _ _ ?_ g.rNodup ?_).congr ?_ (fun _ => rfl)
      · exact cost_pos hcost hm.1
      · intro c hc
        have h1 := g.rPolled c hc
        refine ⟨?_, h1.1, h1.2, g.rPend c hc⟩
        intro e; subst e; rw [h1.2] at hm; exact absurd hm.2.1 (by simp)
      · intro c
        rw [sbC_succ]
        by_cases e : c = i
        · rw [if_pos ((hst c).2 e), if_pos e]
        · rw [if_neg (fun hh => e ((hst c).1 hh)), if_neg e]
    | none =>
      cases hb2 : bestOf cbs (readyAtC cbs ch sigma rels t) with
      | some i =>
        obtain ⟨_, hst, hp⟩ := slotD hs hr hb hb2
        have hm := good_rdy_mem g i (bestOf_mem _ _ _ hb2)
        rw [hp]
        refine (good_pop hmem g hr i hm.1 hm.2.2 _ _ _ ?_ ((good_rdy_nodup g).erase i) ?_).congr ?_
          (fun _ => rfl)
        · exact cost_pos hcost hm.1
        · intro c hc
          rw [(good_rdy_nodup g).mem_erase_iff] at hc
          exact ⟨hc.1, good_rdy_mem g c hc.2⟩
        · intro c
          rw [sbC_succ]
          by_cases e : c = i
          · rw [if_pos ((hst c).2 e), if_pos e]
          · rw [if_neg (fun hh => e ((hst c).1 hh)), if_neg e]
      | none =>
        obtain ⟨_, hst, hp⟩ := slotE hs hr hb hb2
        rw [hp]
        refine (good_ready g _ (good_rdy_nodup g) (good_rdy_mem g)).congr ?_ (fun _ => rfl)
        intro c; rw [sbC_succ, hst]; simp
  · obtain ⟨_, hst, hp⟩ := slotB hs hr
    rw [hp]
    refine g.congr ?_ (fun _ => rfl)
    intro c; rw [sbC_succ, hst]; simp

include hnd hcost in
theorem inv1C_succ (h : Inv1C cbs ch sigma rels t) : Inv1C cbs ch sigma rels (t + 1) := by
  unfold Inv1C
  cases hs : sigma t with
  | false =>
    obtain ⟨_, hst, hnext⟩ := slotA (cbs := cbs) (ch := ch) (rels := rels) hs
    rw [hnext]
    refine (goodRl_of hmem hext h).congr ?_ (fun _ => rfl)
    intro c; rw [sbC_succ, hst]; simp
  | true =>
    rw [stateAtC_succ, if_pos hs]
    exact good_fin hmem hnd (goodPk_of hmem hext hcost h hs) t

end inv1

/-! ### the chain of started-counts -/

section bounds
variable {cbs : List Cb} {ch : List ℕ}

/-- the callback whose external releases feed callback `i` -/
def src (ch : List ℕ) (i : ℕ) : ℕ := if i ∈ ch then ch.headD 0 else i

theorem headD_eq (ch : List ℕ) : ch.headD 0 = cAt ch 0 := by
  cases ch <;> rfl

variable (hnd : ch.Nodup) (hmem : ∀ i ∈ ch, i < cbs.length)
variable {s : State} {sbf cn : ℕ → ℕ} (g : Good cbs ch s sbf cn)
include hnd hmem g

theorem chain_le : ∀ x, x < ch.length → sbf (cAt ch x) ≤ cn (cAt ch 0) := by
  intro x
  induction x with
  | zero =>
    intro hx
    have := g.qExt _ (hmem _ (cAt_mem hx)) (head_not_tail hnd hx)
    omega
  | succ x ih =>
    intro hx
    have := g.qCh x hx
    have := ih (by omega)
    omega

theorem chain_lt {x : ℕ} (hx : x < ch.length) (hq : 0 < (s.queue.getD (cAt ch x) []).length) :
    sbf (cAt ch x) < cn (cAt ch 0) := by
  cases x with
  | zero =>
    have := g.qExt _ (hmem _ (cAt_mem hx)) (head_not_tail hnd hx)
    omega
  | succ x =>
    have := g.qCh x hx
    have := chain_le hnd hmem g x (by omega)
    omega

theorem chain_eq (hrun : s.running = none)
    (hq : ∀ x, x < ch.length → (s.queue.getD (cAt ch x) []).length = 0) :
    ∀ x, x < ch.length → sbf (cAt ch x) = cn (cAt ch 0) := by
  intro x
  induction x with
  | zero =>
    intro hx
    have := g.qExt _ (hmem _ (cAt_mem hx)) (head_not_tail hnd hx)
    have := hq 0 hx
    omega
  | succ x ih =>
    intro hx
    have h0 := g.qCh x hx
    rw [hrun] at h0
    simp only [Option.map_none] at h0
    rw [if_neg (by simp)] at h0
    have := ih (by omega)
    have := hq (x + 1) hx
    omega

theorem sb_le_src {i : ℕ} (hi : i < cbs.length) : sbf i ≤ cn (src ch i) := by
  unfold src
  split
  · rename_i h
    obtain ⟨x, hx, e⟩ := mem_ch.1 h
    rw [e, headD_eq]; exact chain_le hnd hmem g x hx
  · rename_i h
    have := g.qExt i hi (fun h' => h (List.mem_of_mem_tail h'))
    omega

theorem sb_lt_src {i : ℕ} (hi : i < cbs.length) (hq : 0 < (s.queue.getD i []).length) :
    sbf i < cn (src ch i) := by
  unfold src
  split
  · rename_i h
    obtain ⟨x, hx, e⟩ := mem_ch.1 h
    rw [e, headD_eq]; rw [e] at hq; exact chain_lt hnd hmem g hx hq
  · rename_i h
    have := g.qExt i hi (fun h' => h (List.mem_of_mem_tail h'))
    omega

theorem sb_eq_src (hrun : s.running = none)
    (hq : ∀ j, j < cbs.length → (s.queue.getD j []).length = 0) {i : ℕ} (hi : i < cbs.length) :
    sbf i = cn (src ch i) := by
  unfold src
  split
  · rename_i h
    obtain ⟨x, hx, e⟩ := mem_ch.1 h
    rw [e, headD_eq]
    exact chain_eq hnd hmem g hrun (fun y hy => hq _ (hmem _ (cAt_mem hy))) x hx
  · rename_i h
    have := g.qExt i hi (fun h' => h (List.mem_of_mem_tail h'))
    have := hq i hi
    omega

end bounds

/-! ### the shape of a slot -/

section shape
variable {cbs : List Cb} {ch : List ℕ} {sigma : ℕ → Bool} {rels : ℕ → List ℕ}

local notation "St" => stateAtC cbs ch sigma rels
local notation "Rl" => relAtC cbs ch sigma rels
local notation "Pk" => pickedAtC cbs ch sigma rels
local notation "sb" => startedBeforeC cbs ch sigma rels
local notation "served" => servedCbC cbs ch sigma rels
local notation "starts" => startsCbC cbs ch sigma rels

variable (hnd : ch.Nodup) (hmem : ∀ i ∈ ch, i < cbs.length) (hext : ∀ t, ∀ i ∈ rels t, i ∉ ch.tail)
  (hcost : ∀ c ∈ cbs, 1 ≤ c.cost)
include hnd hmem hext hcost

theorem inv1C : ∀ t, Inv1C cbs ch sigma rels t
  | 0 => inv1C_zero
  | t + 1 => inv1C_succ hnd hmem hext hcost (inv1C t)

theorem goodRl (t : ℕ) : Good cbs ch (Rl t) (fun i => sb i t) (fun i => cnt rels i (t + 1)) :=
  goodRl_of hmem hext (inv1C hnd hmem hext hcost t)

omit hnd hmem hext hcost in
theorem readyAtC_of_empty {t : ℕ} (h : (St t).ready = []) :
    readyAtC cbs ch sigma rels t = pendingPolled cbs (Rl t).queue := by
  unfold readyAtC
  have : (Rl t).ready = [] := h
  rw [this]; rfl

omit hnd hmem hext hcost in
theorem readyAtC_of_nonempty {t : ℕ} (h : (St t).ready ≠ []) :
    readyAtC cbs ch sigma rels t = (St t).ready := by
  unfold readyAtC
  have : (Rl t).ready.isEmpty = false := by
    show (St t).ready.isEmpty = false
    cases hh : (St t).ready with
    | nil => exact absurd hh h
    | cons a l => rfl
  rw [this]; rfl

theorem slot_casesC (t : ℕ) :
    (served t = none ∧ (∀ c, starts t c = false) ∧ (St (t + 1)).running = (St t).running ∧
      (sigma t = true → (St t).running = none ∧ pendingTimers cbs (Rl t).queue = [] ∧
        readyAtC cbs ch sigma rels t = [])) ∨
    (sigma t = true ∧ ∃ i rem r, (St t).running = some (i, rem, r) ∧
      served t = some i ∧ (∀ c, starts t c = false) ∧
      (St (t + 1)).running = if rem ≤ 1 then none else some (i, rem - 1, r)) ∨
    (sigma t = true ∧ (St t).running = none ∧ ∃ i r0, served t = some i ∧
      (∀ c, starts t c = true ↔ c = i) ∧ i < cbs.length ∧
      0 < ((Rl t).queue.getD i []).length ∧
      (St (t + 1)).running = if (cbs.getD i default).cost ≤ 1 then none
        else some (i, (cbs.getD i default).cost - 1, r0)) := by
  have g := goodRl hnd hmem hext hcost (sigma := sigma) t
  cases hs : sigma t with
  | false =>
    obtain ⟨hsv, hst, hnext⟩ := slotA (cbs := cbs) (ch := ch) (rels := rels) hs
    exact Or.inl ⟨hsv, hst, by rw [hnext]; rfl, fun h => by cases h⟩
  | true =>
    have hnext : St (t + 1) = fin ch t (Pk t) := by rw [stateAtC_succ, if_pos hs]
    rcases hr : (Rl t).running with _ | ⟨i, rem, r⟩
    · cases hb : bestOf cbs (pendingTimers cbs (Rl t).queue) with
      | some i =>
        obtain ⟨hsv, hst, hp⟩ := slotC hs hr hb
        have hm := (mem_pendingTimers _ _ _).1 (bestOf_mem _ _ _ hb)
        refine Or.inr (Or.inr ⟨rfl, hr, i, ((Rl t).queue.getD i []).headD 0, hsv, hst, hm.1, hm.2.2, ?_⟩)
        rw [hnext, fin_running, hp]
      | none =>
        have hb' := (bestOf_eq_none _ _).1 hb
        cases hb2 : bestOf cbs (readyAtC cbs ch sigma rels t) with
        | some i =>
          obtain ⟨hsv, hst, hp⟩ := slotD hs hr hb hb2
          have hm := good_rdy_mem g i (bestOf_mem _ _ _ hb2)
          refine Or.inr (Or.inr ⟨rfl, hr, i, ((Rl t).queue.getD i []).headD 0, hsv, hst, hm.1, hm.2.2, ?_⟩)
          rw [hnext, fin_running, hp]
        | none =>
          obtain ⟨hsv, hst, hp⟩ := slotE hs hr hb hb2
          refine Or.inl ⟨hsv, hst, ?_, fun _ => ⟨hr, hb', (bestOf_eq_none _ _).1 hb2⟩⟩
          rw [hnext, fin_running, hp]
          have : (St t).running = none := hr
          simp only [hr, this]
    · obtain ⟨hsv, hst, hp⟩ := slotB hs hr
      refine Or.inr (Or.inl ⟨rfl, i, rem, r, hr, hsv, hst, ?_⟩)
      rw [hnext, fin_running, hp, hr]

end shape

/-! ### the jobs of `toSysC` -/

section jobs
variable (cbs : List Cb) (ch : List ℕ) (sigma : ℕ → Bool) (rels : ℕ → List ℕ) (H : ℕ)

/-- the job that is the `m`-th instance of callback `i` -/
def jobC (i m : ℕ) : Option ℕ :=
  match ch.findIdx? (· = i) with
  | some (x + 1) =>
    if m < nSrc ch rels H then some ((events rels H).length + x * nSrc ch rels H + m) else none
  | _ => nthEventOf rels H i m

variable {cbs ch sigma rels H}

local notation "Sy" => toSysC cbs ch sigma rels H

theorem src_of_not_tail {i : ℕ} (h : i ∉ ch.tail) : src ch i = i := by
  unfold src
  split
  · rename_i hm
    cases ch with
    | nil => cases hm
    | cons a l =>
      rcases List.mem_cons.1 hm with e | e
      · rw [e]; rfl
      · exact absurd e h
  · rfl

theorem src_of_tail {i : ℕ} (h : i ∈ ch.tail) : src ch i = cAt ch 0 := by
  unfold src
  rw [if_pos (List.mem_of_mem_tail h), headD_eq]

theorem nSrc_eq (hne : 0 < ch.length) : nSrc ch rels H = cnt rels (cAt ch 0) H := by
  unfold nSrc
  rw [← countP_events, ← List.countP_eq_length_filter]
  apply List.countP_congr
  intro e _
  cases ch with
  | nil => simp at hne
  | cons a l => simp [cAt]

theorem jobC_ext {i : ℕ} (hi : i ∉ ch.tail) (m : ℕ) : jobC ch rels H i m = nthEventOf rels H i m := by
  unfold jobC
  split
  · rename_i x hx
    have := idx_some ch hx
    exact absurd (mem_tail.2 ⟨x, this.1, this.2.symm⟩) hi
  · rfl

theorem jobC_stage (hnd : ch.Nodup) {x : ℕ} (hx : x + 1 < ch.length) (m : ℕ) :
    jobC ch rels H (cAt ch (x + 1)) m =
      if m < nSrc ch rels H then some ((events rels H).length + x * nSrc ch rels H + m) else none := by
  unfold jobC
  rw [idx_cAt hnd hx]

theorem ext_facts {k : ℕ} (hk : k < (events rels H).length) :
    (Sy).task k = ((events rels H).getD k (0, 0)).2 ∧ (Sy).arr k = ((events rels H).getD k (0, 0)).1 := by
  constructor
  · show (if _ then _ else _) = _
    rw [if_pos hk]
  · show (if _ then _ else _) = _
    rw [if_pos hk]

theorem stage_facts (hfin : ∀ t, H ≤ t → rels t = []) {x m : ℕ} (hx : x + 1 < ch.length)
    (hm : m < nSrc ch rels H) :
    (events rels H).length + x * nSrc ch rels H + m < (Sy).n ∧
    (Sy).task ((events rels H).length + x * nSrc ch rels H + m) = cAt ch (x + 1) ∧
    ∀ t, (Sy).arr ((events rels H).length + x * nSrc ch rels H + m) ≤ t ↔
      m < cnt rels (cAt ch 0) (t + 1) := by
  have hM : 0 < nSrc ch rels H := by omega
  have hnot : ¬ (events rels H).length + x * nSrc ch rels H + m < (events rels H).length := by omega
  have hsub : (events rels H).length + x * nSrc ch rels H + m - (events rels H).length =
      nSrc ch rels H * x + m := by rw [Nat.mul_comm]; omega
  have hdiv : (nSrc ch rels H * x + m) / nSrc ch rels H = x := by
    rw [Nat.mul_add_div hM, Nat.div_eq_of_lt hm]; rfl
  have hmod : (nSrc ch rels H * x + m) % nSrc ch rels H = m := by
    rw [Nat.mul_add_mod, Nat.mod_eq_of_lt hm]
  refine ⟨?_, ?_, ?_⟩
  · show _ < (events rels H).length + (ch.length - 1) * nSrc ch rels H
    have h1 : (x + 1) * nSrc ch rels H ≤ (ch.length - 1) * nSrc ch rels H :=
      Nat.mul_le_mul_right _ (by omega)
    rw [Nat.succ_mul] at h1
    omega
  · show (if _ then _ else ch.getD (_ / nSrc ch rels H + 1) 0) = _
    rw [if_neg hnot, hsub, hdiv]; rfl
  · intro t
    have hm' : m < cnt rels (ch.headD 0) H := by
      rw [headD_eq, ← nSrc_eq (by omega)]; exact hm
    obtain ⟨e, he⟩ := job_some rels H (ch.headD 0) m hm'
    have : (Sy).arr ((events rels H).length + x * nSrc ch rels H + m) =
        ((events rels H).getD e (0, 0)).1 := by
      show (if _ then _ else (match nthEventOf rels H (ch.headD 0) (_ % nSrc ch rels H) with
        | some e => ((events rels H).getD e (0, 0)).1
        | none => 0)) = _
      rw [if_neg hnot, hsub, hmod, he]
    rw [this, ← headD_eq, ← job_arr rels H hfin he (t + 1)]
    omega

variable (hnd : ch.Nodup) (hfin : ∀ t, H ≤ t → rels t = [])

include hnd hfin in
theorem jobC_facts {i m k : ℕ} (hj : jobC ch rels H i m = some k) :
    k < (Sy).n ∧ (Sy).task k = i ∧ ∀ t, (Sy).arr k ≤ t ↔ m < cnt rels (src ch i) (t + 1) := by
  by_cases hi : i ∈ ch.tail
  · obtain ⟨x, hx, e⟩ := mem_tail.1 hi
    subst e
    rw [jobC_stage hnd hx] at hj
    split at hj
    · rename_i hm
      cases hj
      rw [src_of_tail hi]
      exact stage_facts hfin hx hm
    · cases hj
  · rw [jobC_ext hi] at hj
    have h := (job_iff rels H i m k).1 hj
    have hf := ext_facts (cbs := cbs) (ch := ch) (sigma := sigma) h.1
    refine ⟨Nat.lt_of_lt_of_le h.1 (Nat.le_add_right _ _), by rw [hf.1]; exact h.2.1, ?_⟩
    intro t
    rw [src_of_not_tail hi, hf.2, ← job_arr rels H hfin hj (t + 1)]
    omega

include hnd hfin in
theorem jobC_inj {i m k i' m' : ℕ} (h : jobC ch rels H i m = some k)
    (h' : jobC ch rels H i' m' = some k) : i = i' ∧ m = m' := by
  have e : i = i' := by
    rw [← (jobC_facts (cbs := []) (sigma := fun _ => false) hnd hfin h).2.1,
      (jobC_facts (cbs := []) (sigma := fun _ => false) hnd hfin h').2.1]
  subst e
  refine ⟨rfl, ?_⟩
  by_cases hi : i ∈ ch.tail
  · obtain ⟨x, hx, e⟩ := mem_tail.1 hi
    subst e
    rw [jobC_stage hnd hx] at h h'
    split at h
    · split at h'
      · cases h; simp only [Option.some.injEq] at h'; omega
      · cases h'
    · cases h
  · rw [jobC_ext hi] at h h'
    exact (job_inj rels h h').2

include hnd in
theorem jobC_some {i m : ℕ} (hm : m < cnt rels (src ch i) H) : ∃ k, jobC ch rels H i m = some k := by
  by_cases hi : i ∈ ch.tail
  · obtain ⟨x, hx, e⟩ := mem_tail.1 hi
    subst e
    rw [src_of_tail hi, ← nSrc_eq (by omega)] at hm
    rw [jobC_stage hnd hx, if_pos hm]
    exact ⟨_, rfl⟩
  · rw [src_of_not_tail hi] at hm
    rw [jobC_ext hi]
    exact job_some rels H i m hm

include hnd in
theorem jobC_exists (hmem : ∀ i ∈ ch, i < cbs.length) (hidx : ∀ t, ∀ i ∈ rels t, i < cbs.length)
    (hext : ∀ t, ∀ i ∈ rels t, i ∉ ch.tail) {k : ℕ} (hk : k < (Sy).n) :
    ∃ i m, i < cbs.length ∧ jobC ch rels H i m = some k := by
  have hk' : k < (events rels H).length + (ch.length - 1) * nSrc ch rels H := hk
  rcases Nat.lt_or_ge k (events rels H).length with hlt | hge
  · have hev : ((events rels H).getD k (0, 0)) ∈ events rels H := by
      rw [List.getD_eq_getElem?_getD, List.getElem?_eq_getElem hlt, Option.getD_some]
      exact List.getElem_mem _
    simp only [events, List.mem_flatMap, List.mem_range, List.mem_map] at hev
    obtain ⟨t, _, i, hi, e'⟩ := hev
    obtain ⟨m, hm⟩ := job_exists rels H k hlt
    refine ⟨((events rels H).getD k (0, 0)).2, m, ?_, ?_⟩
    · show ((events rels H).getD k (0, 0)).2 < cbs.length
      rw [← show (t, i) = ((events rels H).getD k (0, 0)) from e']; exact hidx t i hi
    · rw [jobC_ext]
      · exact hm
      · show ((events rels H).getD k (0, 0)).2 ∉ ch.tail
        rw [← show (t, i) = ((events rels H).getD k (0, 0)) from e']; exact hext t i hi
  · have hM : 0 < nSrc ch rels H := by
      rcases Nat.eq_zero_or_pos (nSrc ch rels H) with h0 | h0
      · rw [h0] at hk'; omega
      · exact h0
    have hd : k - (events rels H).length < nSrc ch rels H * (ch.length - 1) := by
      rw [Nat.mul_comm]; omega
    have hx : (k - (events rels H).length) / nSrc ch rels H < ch.length - 1 :=
      Nat.div_lt_of_lt_mul hd
    have hx' : (k - (events rels H).length) / nSrc ch rels H + 1 < ch.length :=
      Nat.add_lt_of_lt_sub hx
    have hmod := Nat.mod_lt (k - (events rels H).length) hM
    refine ⟨cAt ch ((k - (events rels H).length) / nSrc ch rels H + 1),
      (k - (events rels H).length) % nSrc ch rels H, hmem _ (cAt_mem hx'), ?_⟩
    rw [jobC_stage hnd hx', if_pos hmod]
    have := Nat.div_add_mod (k - (events rels H).length) (nSrc ch rels H)
    rw [Nat.mul_comm] at this
    congr 1
    omega

end jobs

/-! ### layer 2: service received by the jobs -/

/-- the hypotheses of `run_chain_legal` that the proof uses -/
structure Hyp (cbs : List Cb) (ch : List ℕ) (rels : ℕ → List ℕ) (H : ℕ) : Prop where
  hnd : ch.Nodup
  hmem : ∀ i ∈ ch, i < cbs.length
  hidx : ∀ t, ∀ i ∈ rels t, i < cbs.length
  hext : ∀ t, ∀ i ∈ rels t, i ∉ ch.tail
  hfin : ∀ t, H ≤ t → rels t = []
  hcost : ∀ c ∈ cbs, 1 ≤ c.cost

section layer2
variable {cbs : List Cb} {ch : List ℕ} {sigma : ℕ → Bool} {rels : ℕ → List ℕ} {H : ℕ}
variable (hy : Hyp cbs ch rels H)

local notation "St" => stateAtC cbs ch sigma rels
local notation "Rl" => relAtC cbs ch sigma rels
local notation "sb" => startedBeforeC cbs ch sigma rels
local notation "served" => servedCbC cbs ch sigma rels
local notation "starts" => startsCbC cbs ch sigma rels
local notation "Sy" => toSysC cbs ch sigma rels H
local notation "job" => jobC ch rels H
local notation "costOf" => costOf' cbs

include hy

theorem inv1 (t : ℕ) : Good cbs ch (St t) (fun i => sb i t) (fun i => cnt rels i t) :=
  inv1C hy.hnd hy.hmem hy.hext hy.hcost t

theorem gRl (t : ℕ) : Good cbs ch (Rl t) (fun i => sb i t) (fun i => cnt rels i (t + 1)) :=
  goodRl hy.hnd hy.hmem hy.hext hy.hcost t

theorem slots (t : ℕ) :
    (served t = none ∧ (∀ c, starts t c = false) ∧ (St (t + 1)).running = (St t).running ∧
      (sigma t = true → (St t).running = none ∧ pendingTimers cbs (Rl t).queue = [] ∧
        readyAtC cbs ch sigma rels t = [])) ∨
    (sigma t = true ∧ ∃ i rem r, (St t).running = some (i, rem, r) ∧
      served t = some i ∧ (∀ c, starts t c = false) ∧
      (St (t + 1)).running = if rem ≤ 1 then none else some (i, rem - 1, r)) ∨
    (sigma t = true ∧ (St t).running = none ∧ ∃ i r0, served t = some i ∧
      (∀ c, starts t c = true ↔ c = i) ∧ i < cbs.length ∧
      0 < ((Rl t).queue.getD i []).length ∧
      (St (t + 1)).running = if (cbs.getD i default).cost ≤ 1 then none
        else some (i, (cbs.getD i default).cost - 1, r0)) :=
  slot_casesC hy.hnd hy.hmem hy.hext hy.hcost t

theorem served_lt {t i : ℕ} (h : served t = some i) :
    i < cbs.length ∧ (if starts t i = true then sb i t else sb i t - 1) < cnt rels (src ch i) (t + 1) := by
  have g := gRl (sigma := sigma) hy t
  rcases slots (sigma := sigma) hy t with
    ⟨hsv, _⟩ | ⟨_, i', rem, r, hr, hsv, hst, _⟩ | ⟨_, hr, i', r0, hsv, hst, hi, hq, _⟩
  · rw [hsv] at h; cases h
  · rw [hsv] at h; cases h
    obtain ⟨hi, h1, _⟩ := g.runOk i rem r hr
    have := sb_le_src hy.hnd hy.hmem g hi
    rw [hst]
    simp only [Bool.false_eq_true, if_false]
    exact ⟨hi, by omega⟩
  · rw [hsv] at h; cases h
    rw [if_pos ((hst i).2 rfl)]
    exact ⟨hi, sb_lt_src hy.hnd hy.hmem g hi hq⟩

theorem sched_eqC (t : ℕ) : (Sy).sched t =
    match served t with
    | none => none
    | some i => job i (if starts t i = true then sb i t else sb i t - 1) := by
  have h0 : (Sy).sched t = match served t with
    | none => none
    | some i =>
      (match ch.findIdx? (· = i) with
        | some (x + 1) => some ((events rels H).length + x * nSrc ch rels H +
            (if starts t i = true then sb i t else sb i t - 1))
        | _ => nthEventOf rels H i (if starts t i = true then sb i t else sb i t - 1)) := rfl
  rw [h0]
  cases hsv : served t with
  | none => rfl
  | some i =>
    simp only
    obtain ⟨_, hlt⟩ := served_lt hy hsv
    generalize (if starts t i = true then sb i t else sb i t - 1) = m at hlt ⊢
    unfold jobC
    split
    · rename_i x hx
      have hit : i ∈ ch.tail := mem_tail.2 ⟨x, (idx_some ch hx).1, (idx_some ch hx).2.symm⟩
      rw [src_of_tail hit] at hlt
      have := cnt_le_H (rels := rels) hy.hfin (cAt ch 0) (t + 1)
      rw [← nSrc_eq (H := H) (by have := (idx_some ch hx).1; omega)] at this
      rw [if_pos (show m < nSrc ch rels H by omega)]
    · rfl

theorem sched_iffC {i m k : ℕ} (hj : job i m = some k) (t : ℕ) :
    (Sy).sched t = some k ↔ (served t = some i ∧
      m = if starts t i = true then sb i t else sb i t - 1) := by
  rw [sched_eqC hy]
  cases hsv : served t with
  | none => simp
  | some i' =>
    simp only
    constructor
    · intro h
      obtain ⟨e1, e2⟩ := jobC_inj hy.hnd hy.hfin h hj
      subst e1
      exact ⟨rfl, e2.symm⟩
    · rintro ⟨e1, e2⟩
      cases e1
      rw [← e2]; exact hj

omit hy in
theorem svc_succC (k t : ℕ) :
    svc (Sy) k (t + 1) = svc (Sy) k t + if (Sy).sched t = some k then 1 else 0 := rfl

variable (cbs ch sigma rels H) in
structure Inv2C (t : ℕ) : Prop where
  done : ∀ i m k, job i m = some k → m + 1 ≤ sb i t →
    (m + 1 = sb i t → ∀ rem r, (St t).running ≠ some (i, rem, r)) → svc (Sy) k t = costOf i
  unst : ∀ i m k, job i m = some k → sb i t ≤ m → svc (Sy) k t = 0
  run : ∀ i rem r m k, (St t).running = some (i, rem, r) → job i m = some k → m + 1 = sb i t →
    svc (Sy) k t + rem = costOf i ∧ 1 ≤ svc (Sy) k t

omit hy in
theorem inv2C_zero : Inv2C cbs ch sigma rels H 0 where
  done := fun i m k _ h => by simp [startedBeforeC] at h
  unst := fun i m k _ _ => rfl
  run := fun i rem r m k h => by simp [stateAtC, State.init] at h

variable {t : ℕ}

theorem inv2C_keep (hsv : served t = none) (hst : ∀ c, starts t c = false)
    (hrun : (St (t + 1)).running = (St t).running) (h : Inv2C cbs ch sigma rels H t) :
    Inv2C cbs ch sigma rels H (t + 1) := by
  have hsb : ∀ i, sb i (t + 1) = sb i t := fun i => by rw [sbC_succ, hst]; simp
  have hsvc : ∀ k, svc (Sy) k (t + 1) = svc (Sy) k t := fun k => by
    rw [svc_succC, sched_eqC hy, hsv]; simp
  refine ⟨?_, ?_, ?_⟩
  · intro i m k hj; rw [hsb, hsvc, hrun]; exact h.done i m k hj
  · intro i m k hj; rw [hsb, hsvc]; exact h.unst i m k hj
  · intro i rem r m k; rw [hsb, hsvc, hrun]; exact h.run i rem r m k

theorem inv2C_cont {i0 rem0 r0 : ℕ} (hsv : served t = some i0) (hst : ∀ c, starts t c = false)
    (hr : (St t).running = some (i0, rem0, r0))
    (hnext : (St (t + 1)).running = if rem0 ≤ 1 then none else some (i0, rem0 - 1, r0))
    (h : Inv2C cbs ch sigma rels H t) : Inv2C cbs ch sigma rels H (t + 1) := by
  have hsb : ∀ i, sb i (t + 1) = sb i t := fun i => by rw [sbC_succ, hst]; simp
  obtain ⟨_, hsb0, hrem0⟩ := (inv1 (sigma := sigma) hy t).runOk i0 rem0 r0 hr
  have hsb0 : 1 ≤ sb i0 t := hsb0
  have hsched : ∀ i m k, job i m = some k →
      ((Sy).sched t = some k ↔ (i = i0 ∧ m + 1 = sb i0 t)) := by
    intro i m k hj
    rw [sched_iffC hy hj, hsv]
    constructor
    · rintro ⟨e1, e2⟩
      cases e1
      rw [hst] at e2
      simp at e2
      exact ⟨rfl, by omega⟩
    · rintro ⟨e1, e2⟩
      subst e1
      rw [hst]; simp; omega
  refine ⟨?_, ?_, ?_⟩
  · intro i m k hj hm hnr
    rw [hsb] at hm hnr
    rw [svc_succC]
    by_cases hk : (Sy).sched t = some k
    · obtain ⟨e1, e2⟩ := (hsched i m k hj).1 hk
      subst e1
      have := h.run i rem0 r0 m k hr hj e2
      have hh := hnr e2
      rw [hnext] at hh
      have : rem0 ≤ 1 := by
        rcases Nat.lt_or_ge 1 rem0 with h' | h'
        · rw [if_neg (by omega)] at hh; exact absurd rfl (hh _ _)
        · exact h'
      rw [if_pos hk]; omega
    · rw [if_neg hk, Nat.add_zero]
      apply h.done i m k hj hm
      intro e rem r hrr
      rw [hr] at hrr
      cases hrr
      exact hk ((hsched _ m k hj).2 ⟨rfl, e⟩)
  · intro i m k hj hm
    rw [hsb] at hm
    rw [svc_succC]
    have : ¬ (Sy).sched t = some k := by
      intro hk
      obtain ⟨e1, e2⟩ := (hsched i m k hj).1 hk
      subst e1; omega
    rw [if_neg this]; exact h.unst i m k hj hm
  · intro i rem r m k hrr hj hm
    rw [hsb] at hm
    rw [hnext] at hrr
    split at hrr
    · cases hrr
    · cases hrr
      have hk := (hsched _ m k hj).2 ⟨rfl, hm⟩
      have := h.run _ rem0 _ m k hr hj hm
      rw [svc_succC, if_pos hk]; omega

theorem inv2C_start {i0 r0 : ℕ} (hsv : served t = some i0)
    (hst : ∀ c, starts t c = true ↔ c = i0)
    (hr : (St t).running = none) (hc : 1 ≤ costOf i0)
    (hnext : (St (t + 1)).running = if (costOf i0) ≤ 1 then none else some (i0, (costOf i0) - 1, r0))
    (h : Inv2C cbs ch sigma rels H t) : Inv2C cbs ch sigma rels H (t + 1) := by
  have hsb : ∀ i, sb i (t + 1) = sb i t + if i = i0 then 1 else 0 := fun i => by
    rw [sbC_succ]
    by_cases e : i = i0
    · rw [if_pos ((hst i).2 e), if_pos e]
    · rw [if_neg (fun hh => e ((hst i).1 hh)), if_neg e]
  have hsched : ∀ i m k, job i m = some k →
      ((Sy).sched t = some k ↔ (i = i0 ∧ m = sb i0 t)) := by
    intro i m k hj
    rw [sched_iffC hy hj, hsv]
    constructor
    · rintro ⟨e1, e2⟩
      cases e1
      rw [if_pos ((hst _).2 rfl)] at e2
      exact ⟨rfl, e2⟩
    · rintro ⟨e1, e2⟩
      subst e1
      rw [if_pos ((hst i).2 rfl)]; exact ⟨rfl, e2⟩
  refine ⟨?_, ?_, ?_⟩
  · intro i m k hj hm hnr
    rw [hsb] at hm hnr
    rw [svc_succC]
    by_cases hk : (Sy).sched t = some k
    · obtain ⟨e1, e2⟩ := (hsched i m k hj).1 hk
      subst e1
      have h0 := h.unst i m k hj (by omega)
      have hh := hnr (by simp [e2])
      rw [hnext] at hh
      have : (costOf i) ≤ 1 := by
        rcases Nat.lt_or_ge 1 (costOf i) with h' | h'
        · rw [if_neg (by omega)] at hh; exact absurd rfl (hh _ _)
        · exact h'
      rw [if_pos hk]; omega
    · rw [if_neg hk, Nat.add_zero]
      apply h.done i m k hj
      · by_cases e : i = i0
        · subst e
          have : m ≠ sb i t := fun e' => hk ((hsched i m k hj).2 ⟨rfl, e'⟩)
          simp only [if_true] at hm; omega
        · simpa [e] using hm
      · intro _ rem r hrr; rw [hr] at hrr; cases hrr
  · intro i m k hj hm
    rw [hsb] at hm
    rw [svc_succC]
    have : ¬ (Sy).sched t = some k := by
      intro hk
      obtain ⟨e1, e2⟩ := (hsched i m k hj).1 hk
      subst e1; simp at hm; omega
    rw [if_neg this]; exact h.unst i m k hj (by omega)
  · intro i rem r m k hrr hj hm
    rw [hsb] at hm
    rw [hnext] at hrr
    split at hrr
    · cases hrr
    · cases hrr
      simp only [if_true] at hm
      have hk := (hsched _ m k hj).2 ⟨rfl, by omega⟩
      have h0 := h.unst _ m k hj (by omega)
      rw [svc_succC, if_pos hk]; omega

theorem inv2C_succ (h : Inv2C cbs ch sigma rels H t) : Inv2C cbs ch sigma rels H (t + 1) := by
  rcases slots (sigma := sigma) hy t with
    ⟨hsv, hst, hrun, _⟩ | ⟨_, i, rem, r, hr, hsv, hst, hnext⟩ | ⟨_, hr, i, r0, hsv, hst, hi, _, hnext⟩
  · exact inv2C_keep hy hsv hst hrun h
  · exact inv2C_cont hy hsv hst hr hnext h
  · exact inv2C_start hy hsv hst hr (cost_pos hy.hcost hi) hnext h

theorem inv2C : ∀ t, Inv2C cbs ch sigma rels H t
  | 0 => inv2C_zero
  | t + 1 => inv2C_succ hy (inv2C t)

end layer2

/-! ### the status of a job; the clauses of the Spec -/

section clauses
variable {cbs : List Cb} {ch : List ℕ} {sigma : ℕ → Bool} {rels : ℕ → List ℕ} {H : ℕ}
variable (hy : Hyp cbs ch rels H)

local notation "St" => stateAtC cbs ch sigma rels
local notation "Rl" => relAtC cbs ch sigma rels
local notation "sb" => startedBeforeC cbs ch sigma rels
local notation "served" => servedCbC cbs ch sigma rels
local notation "starts" => startsCbC cbs ch sigma rels
local notation "Sy" => toSysC cbs ch sigma rels H
local notation "job" => jobC ch rels H
local notation "costOf" => costOf' cbs

include hy

theorem job_costC {i m k : ℕ} (hj : job i m = some k) : (Sy).cost k = costOf i := by
  have := (jobC_facts (cbs := cbs) (sigma := sigma) hy.hnd hy.hfin hj).2.1
  show (cbs.getD ((Sy).task k) default).cost = _
  rw [this]

/-- unstarted / complete / running -/
theorem statusC {i m k : ℕ} (hi : i < cbs.length) (hj : job i m = some k) (t : ℕ) :
    (sb i t ≤ m ∧ svc (Sy) k t = 0) ∨
    (m + 1 ≤ sb i t ∧ svc (Sy) k t = (Sy).cost k ∧ 1 ≤ svc (Sy) k t ∧
      (m + 1 = sb i t → ∀ rem r, (St t).running ≠ some (i, rem, r))) ∨
    (m + 1 = sb i t ∧ ∃ rem r, (St t).running = some (i, rem, r) ∧
      svc (Sy) k t + rem = (Sy).cost k ∧ 1 ≤ svc (Sy) k t ∧ 1 ≤ rem) := by
  have h2 := inv2C (sigma := sigma) hy t
  have h1 := inv1 (sigma := sigma) hy t
  have hc := cost_pos hy.hcost hi
  rw [job_costC (sigma := sigma) hy hj]
  rcases Nat.lt_or_ge m (sb i t) with hm | hm
  · by_cases hrun : m + 1 = sb i t ∧ ∃ rem r, (St t).running = some (i, rem, r)
    · obtain ⟨e, rem, r, hr⟩ := hrun
      have := h2.run i rem r m k hr hj e
      exact Or.inr (Or.inr ⟨e, rem, r, hr, this.1, this.2, (h1.runOk i rem r hr).2.2⟩)
    · have hnr : m + 1 = sb i t → ∀ rem r, (St t).running ≠ some (i, rem, r) := by
        intro e rem r hr
        exact hrun ⟨e, rem, r, hr⟩
      have := h2.done i m k hj hm hnr
      exact Or.inr (Or.inl ⟨hm, this, by omega, hnr⟩)
  · exact Or.inl ⟨hm, h2.unst i m k hj hm⟩

theorem sched_shapeC (t : ℕ) :
    ((Sy).sched t = none ∧ (∀ c, starts t c = false) ∧
      (sigma t = true → (St t).running = none ∧ pendingTimers cbs (Rl t).queue = [] ∧
        readyAtC cbs ch sigma rels t = [])) ∨
    (sigma t = true ∧ ∃ i rem r j, (St t).running = some (i, rem, r) ∧
      (∀ c, starts t c = false) ∧ i < cbs.length ∧ 1 ≤ sb i t ∧
      sb i t ≤ cnt rels (src ch i) (t + 1) ∧
      job i (sb i t - 1) = some j ∧ (Sy).sched t = some j) ∨
    (sigma t = true ∧ (St t).running = none ∧ ∃ i j,
      (∀ c, starts t c = true ↔ c = i) ∧ i < cbs.length ∧
      0 < ((Rl t).queue.getD i []).length ∧ sb i t < cnt rels (src ch i) (t + 1) ∧
      job i (sb i t) = some j ∧ (Sy).sched t = some j) := by
  have g := gRl (sigma := sigma) hy t
  rcases slots (sigma := sigma) hy t with
    ⟨hsv, hst, _, hx⟩ | ⟨hs, i, rem, r, hr, hsv, hst, _⟩ | ⟨hs, hr, i, r0, hsv, hst, hi, hq, _⟩
  · refine Or.inl ⟨?_, hst, hx⟩
    rw [sched_eqC hy, hsv]
  · obtain ⟨hi, hsb, _⟩ := g.runOk i rem r hr
    have hsb : 1 ≤ sb i t := hsb
    have hle : sb i t ≤ cnt rels (src ch i) (t + 1) := sb_le_src hy.hnd hy.hmem g hi
    obtain ⟨j, hj⟩ := jobC_some (rels := rels) (H := H) hy.hnd (i := i) (m := sb i t - 1)
      (by have := cnt_le_H (rels := rels) hy.hfin (src ch i) (t + 1); omega)
    refine Or.inr (Or.inl ⟨hs, i, rem, r, j, hr, hst, hi, hsb, hle, hj, ?_⟩)
    rw [sched_eqC hy, hsv]
    simp only [hst i, Bool.false_eq_true, if_false]
    exact hj
  · have hlt : sb i t < cnt rels (src ch i) (t + 1) := sb_lt_src hy.hnd hy.hmem g hi hq
    obtain ⟨j, hj⟩ := jobC_some (rels := rels) (H := H) hy.hnd (i := i) (m := sb i t)
      (by have := cnt_le_H (rels := rels) hy.hfin (src ch i) (t + 1); omega)
    refine Or.inr (Or.inr ⟨hs, hr, i, j, hst, hi, hq, hlt, hj, ?_⟩)
    rw [sched_eqC hy, hsv]
    simp only [(hst i).2 rfl, if_true]
    exact hj

theorem c_validC (t j : ℕ) (hs : (Sy).sched t = some j) :
    j < (Sy).n ∧ Pending (Sy) j t ∧ sigma t = true := by
  rcases sched_shapeC (sigma := sigma) hy t with
    ⟨h0, _⟩ | ⟨hsg, i, rem, r, j', hr, hst, hi, hsb, hle, hj, hsch⟩ |
    ⟨hsg, hr, i, j', hst, hi, hq, hlt, hj, hsch⟩
  · rw [h0] at hs; cases hs
  · rw [hsch] at hs; cases hs
    obtain ⟨hn, _, harr⟩ := jobC_facts (cbs := cbs) (sigma := sigma) hy.hnd hy.hfin hj
    refine ⟨hn, ⟨(harr t).2 (by omega), ?_⟩, hsg⟩
    rcases statusC (sigma := sigma) hy hi hj t with h | h | h
    · omega
    · exact absurd hr (h.2.2.2 (by omega) rem r)
    · obtain ⟨_, rem', r', _, h1, h2, h3⟩ := h
      omega
  · rw [hsch] at hs; cases hs
    obtain ⟨hn, _, harr⟩ := jobC_facts (cbs := cbs) (sigma := sigma) hy.hnd hy.hfin hj
    refine ⟨hn, ⟨(harr t).2 hlt, ?_⟩, hsg⟩
    rcases statusC (sigma := sigma) hy hi hj t with h | h | h
    · rw [h.2, job_costC (sigma := sigma) hy hj]
      exact cost_pos hy.hcost hi
    · omega
    · omega

theorem c_nonpreC (t j : ℕ) (hs : (Sy).sched t = some j) (k : ℕ) (hk : k < (Sy).n) (hkj : k ≠ j) :
    svc (Sy) k t = 0 ∨ svc (Sy) k t = (Sy).cost k := by
  obtain ⟨i, m, hi, hj⟩ := jobC_exists (cbs := cbs) (sigma := sigma) hy.hnd hy.hmem hy.hidx hy.hext hk
  rcases statusC (sigma := sigma) hy hi hj t with h | h | h
  · exact Or.inl h.2
  · exact Or.inr h.2.1
  · exfalso
    obtain ⟨hm, rem', r', h1, _⟩ := h
    rcases sched_shapeC (sigma := sigma) hy t with
      ⟨h0, _⟩ | ⟨hsg, i', rem, r, j', hr, hst, hi', hsb, hle, hj', hsch⟩ |
      ⟨hsg, hr, i', j', hst, hi', hq, hlt, hj', hsch⟩
    · rw [h0] at hs; cases hs
    · rw [hsch] at hs; cases hs
      rw [hr] at h1; cases h1
      have e : sb i t - 1 = m := by omega
      rw [e, hj] at hj'
      cases hj'; exact hkj rfl
    · rw [hr] at h1; cases h1

theorem c_wcC (t : ℕ) (hsg : sigma t = true) (hp : ∃ k < (Sy).n, Pending (Sy) k t) :
    ∃ j, (Sy).sched t = some j := by
  obtain ⟨k, hk, hp⟩ := hp
  rcases sched_shapeC (sigma := sigma) hy t with
    ⟨_, _, hx⟩ | ⟨_, i, rem, r, j', _, _, _, _, _, _, hsch⟩ | ⟨_, _, i, j', _, _, _, _, _, hsch⟩
  · exfalso
    obtain ⟨hr, hpt, hra⟩ := hx hsg
    have g := gRl (sigma := sigma) hy t
    have hq : ∀ c, c < cbs.length → ((Rl t).queue.getD c []).length = 0 := by
      intro c hc
      rcases Nat.eq_zero_or_pos ((Rl t).queue.getD c []).length with h0 | hpos
      · exact h0
      · exfalso
        cases htm : (cbs.getD c default).isTimer with
        | true =>
          have : c ∈ pendingTimers cbs (Rl t).queue := (mem_pendingTimers _ _ _).2 ⟨hc, htm, hpos⟩
          rw [hpt] at this; cases this
        | false =>
          have hm : c ∈ pendingPolled cbs (Rl t).queue := (mem_pendingPolled _ _ _).2 ⟨hc, htm, hpos⟩
          by_cases he : (St t).ready = []
          · rw [readyAtC_of_empty he] at hra
            rw [hra] at hm; cases hm
          · rw [readyAtC_of_nonempty he] at hra
            exact he hra
    obtain ⟨i, m, hi, hj⟩ := jobC_exists (cbs := cbs) (sigma := sigma) hy.hnd hy.hmem hy.hidx hy.hext hk
    have heq : sb i t = cnt rels (src ch i) (t + 1) := sb_eq_src hy.hnd hy.hmem g hr hq hi
    obtain ⟨_, _, harr⟩ := jobC_facts (cbs := cbs) (sigma := sigma) hy.hnd hy.hfin hj
    have hm := (harr t).1 hp.1
    rcases statusC (sigma := sigma) hy hi hj t with h | h | h
    · omega
    · have := hp.2; omega
    · obtain ⟨_, rem', r', h1, _⟩ := h
      rw [hr] at h1; cases h1
  · exact ⟨j', hsch⟩
  · exact ⟨j', hsch⟩

theorem c_prioOwnC (t j : ℕ) (hs : (Sy).sched t = some j) (h0 : svc (Sy) j t = 0) (k : ℕ)
    (hk : k < (Sy).n) (hkt : (Sy).task k = (Sy).task j) (hp : Pending (Sy) k t) :
    (Sy).arr j ≤ (Sy).arr k := by
  rcases sched_shapeC (sigma := sigma) hy t with
    ⟨h0', _⟩ | ⟨hsg, i, rem, r, j', hr, hst, hi, hsb, hle, hj, hsch⟩ |
    ⟨hsg, hr, i, j', hst, hi, hq, hlt, hj, hsch⟩
  · rw [h0'] at hs; cases hs
  · rw [hsch] at hs; cases hs
    exfalso
    rcases statusC (sigma := sigma) hy hi hj t with h | h | h
    · omega
    · omega
    · obtain ⟨_, rem', r', _, h1, h2, h3⟩ := h
      omega
  · rw [hsch] at hs; cases hs
    obtain ⟨_, htj, harrj⟩ := jobC_facts (cbs := cbs) (sigma := sigma) hy.hnd hy.hfin hj
    obtain ⟨i', m', hi', hk'⟩ :=
      jobC_exists (cbs := cbs) (sigma := sigma) hy.hnd hy.hmem hy.hidx hy.hext hk
    obtain ⟨_, htk, harrk⟩ := jobC_facts (cbs := cbs) (sigma := sigma) hy.hnd hy.hfin hk'
    have e : i' = i := by rw [← htk, hkt, htj]
    subst e
    have hm : sb i' t ≤ m' := by
      rcases statusC (sigma := sigma) hy hi' hk' t with h | h | h
      · exact h.1
      · have := hp.2; omega
      · obtain ⟨_, rem', r', h1, _⟩ := h
        rw [hr] at h1; cases h1
    have h1 := (harrk ((Sy).arr k)).1 (Nat.le_refl _)
    exact (harrj ((Sy).arr k)).2 (by omega)

theorem chain_legal (l : ℕ) : SupplyTimerLegal (Sy) sigma l (fun k => k ≠ l) where
  valid := c_validC hy
  nonpre := c_nonpreC hy
  wc := fun t h ⟨k, hk, _, hp⟩ => c_wcC hy t h ⟨k, hk, hp⟩
  prioOther := by
    intro t j _ _ hnr
    exact absurd (show Rel (Sy) l (fun k => k ≠ l) j from Classical.em _) hnr
  prioOwn := by
    intro t j hs h0 hji k hk hki hp
    exact c_prioOwnC hy t j hs h0 k hk (by rw [hki, hji]) hp

end clauses

end ChainRefineLemmas

/-- every run with a linear chain satisfies the Spec of `chain_sound` for the last callback -/
theorem run_chain_legal (H : ℕ) (l : ℕ)
    (hch : ch.Nodup) (hne : 2 ≤ ch.length) (hlast : ch.getLast? = some l)
    (hmem : ∀ i ∈ ch, i < cbs.length ∧ (cbs.getD i default).isTimer = false)
    (hidx : ∀ t, ∀ i ∈ rels t, i < cbs.length)
    (hext : ∀ t, ∀ i ∈ rels t, i ∉ ch.tail)
    (hfin : ∀ t, H ≤ t → rels t = [])
    (hcost : ∀ c ∈ cbs, 1 ≤ c.cost) :
    SupplyTimerLegal (toSysC cbs ch sigma rels H) sigma l (fun k => k ≠ l) := by
  have _ := hne
  have _ := hlast
  exact ChainRefineLemmas.chain_legal
    ⟨hch, fun i hi => (hmem i hi).1, hidx, hext, hfin, hcost⟩ l

end RTA.Exec
