import RTA.Lemmas.ExecRefine
/-! Link between the job system of a run (`Exec.toSys`, over which the soundness theorems are
stated) and the completions that the executable `Exec.run` reports: if every job of callback
`i` has received its full service within `R` of its release, then every completion
`(i, release, completion)` reported by `Exec.run` on any finite prefix of the supply process
satisfies `completion ≤ release + R`. -/

namespace RTA.Exec
open RTA RTA.Sched

theorem run_meets_of_sys (cbs : List Cb) (sigma : ℕ → Bool) (rels : ℕ → List ℕ) (H : ℕ)
    (hidx : ∀ t, ∀ i ∈ rels t, i < cbs.length)
    (hfin : ∀ t, H ≤ t → rels t = [])
    (hcost : ∀ c ∈ cbs, 1 ≤ c.cost)
    (i R : ℕ)
    (hmeets : ∀ j, j < (toSys cbs sigma rels H).n → (toSys cbs sigma rels H).task j = i →
      MeetsBound (toSys cbs sigma rels H) j R)
    (n : ℕ) :
    ∀ o ∈ Exec.run cbs (fun _ => none) ((List.range n).map sigma) rels, o.1 = i → o.2.2 ≤ o.2.1 + R := by
  sorry

end RTA.Exec
