import RTA.Lemmas.Sporadic
import RTA.Lemmas.CurveSteps
import RTA.Lemmas.Extrapolate
import RTA.Lemmas.Prefix
/-! Structural induction over arrival models: C10 (`N 0 = 0`, monotone, never
undercounts, jitter composition) and C11 (`steps_iter` exact) for every composition. -/

namespace RTA
open RTA.Spec

mutual
/-- models whose `steps_iter` is exact except for a possible leading 0.  The former finding
F3 (delta-min vector ending in a plateau: `steps_iter` missed the increases of
`number_arrivals` at multiples of the largest distance) is fixed in the Rust code
(`Curve::number_arrivals` splits `delta` into whole periods and a remainder in `1 ..= last`),
so `Curve` needs no side condition any more (`curveExact` is kept in `CurveSteps.lean` for
reference only); every model now satisfies `Exact0` (`Arr.Exact0_trivial`). The former finding F2
(`Propagated` over a model under which nothing arrives within the jitter yielded a spurious
step 1) is fixed in the Rust code ("fix: Propagated::steps_iter yields 1 only if the curve
steps there"), so `Propagated` needs no side condition any more. -/
def Arr.Exact0 : Arr → Prop
  | .never => True
  | .periodic _ => True
  | .sporadic _ _ => True
  | .curve _ => True
  | .xcurve _ => True
  | .pfx _ _ => True
  | .prop _ a => a.Exact0
  | .agg as => Arr.Exact0List as
  | .sum a b => a.Exact0 ∧ b.Exact0
def Arr.Exact0List : List Arr → Prop
  | [] => True
  | a :: as => a.Exact0 ∧ Arr.Exact0List as
end

mutual
/-- models whose `steps_iter` is exact: additionally excludes finding K1
(`ArrivalCurvePrefix` yields 0) unless the prefix sits under a `Propagated`, which filters
the 0 out -/
def Arr.Exact : Arr → Prop
  | .never => True
  | .periodic _ => True
  | .sporadic _ _ => True
  | .curve _ => True
  | .xcurve _ => True
  | .pfx _ _ => False
  | .prop _ a => a.Exact0
  | .agg as => Arr.ExactList as
  | .sum a b => a.Exact ∧ b.Exact
def Arr.ExactList : List Arr → Prop
  | [] => True
  | a :: as => a.Exact ∧ Arr.ExactList as
end

/-! ### unfolding `Arr.N` as a function -/

theorem Arr.N_never_fun : Arr.never.N = fun _ => 0 := by funext d; simp only [Arr.N]
theorem Arr.N_curve_fun (dm : List Nat) : (Arr.curve dm).N = curveN dm := by
  funext d; simp only [Arr.N]
theorem Arr.N_xcurve_fun (dm : List Nat) : (Arr.xcurve dm).N = xcurveN dm := by
  funext d; simp only [Arr.N]
theorem Arr.N_pfx_fun (h : Nat) (st : List (Nat × Nat)) : (Arr.pfx h st).N = prefixN h st := by
  funext d; simp only [Arr.N]
theorem Arr.N_prop_fun (J : Nat) (a : Arr) :
    (Arr.prop J a).N = fun d => if d = 0 then 0 else a.N (d + J) := by
  funext d; simp only [Arr.N]
theorem Arr.N_agg_fun (as : List Arr) : (Arr.agg as).N = Arr.Nlist as := by
  funext d; simp only [Arr.N]
theorem Arr.N_sum_fun (a b : Arr) : (Arr.sum a b).N = fun d => a.N d + b.N d := by
  funext d; simp only [Arr.N]
theorem Arr.Nlist_nil_fun : Arr.Nlist [] = fun _ => 0 := by funext d; simp only [Arr.Nlist]
theorem Arr.Nlist_cons_fun (a : Arr) (as : List Arr) :
    Arr.Nlist (a :: as) = fun d => a.N d + Arr.Nlist as d := by
  funext d; simp only [Arr.Nlist]

/-! ### `N 0 = 0`, monotonicity -/

mutual
theorem Arr.N_zero' : (a : Arr) → a.N 0 = 0
  | .never => by simp only [Arr.N]
  | .periodic T => by simp only [Arr.N]; exact ceilDiv_zero T
  | .sporadic T J => by simp [Arr.N]
  | .curve d => by simp only [Arr.N]; exact curveN_zero d
  | .xcurve d => by simp only [Arr.N]; exact xcurveN_zero d
  | .pfx h st => by simp only [Arr.N]; exact prefixN_zero h st
  | .prop J a => by simp [Arr.N]
  | .agg as => by simp only [Arr.N]; exact Arr.Nlist_zero' as
  | .sum a b => by simp only [Arr.N]; rw [Arr.N_zero' a, Arr.N_zero' b]
theorem Arr.Nlist_zero' : (as : List Arr) → Arr.Nlist as 0 = 0
  | [] => by simp only [Arr.Nlist]
  | a :: as => by simp only [Arr.Nlist]; rw [Arr.N_zero' a, Arr.Nlist_zero' as]
end

/-- `number_arrivals(0) = 0` for every model -/
theorem Arr.N_zero (a : Arr) : a.N 0 = 0 := Arr.N_zero' a

mutual
theorem Arr.N_mono' : (a : Arr) → a.WF → MonoN a.N
  | .never, _ => by intro x y _; simp only [Arr.N]; exact Nat.le_refl _
  | .periodic T, hwf => by
    simp only [Arr.WF] at hwf
    intro x y h
    simp only [Arr.N]
    exact ceilDiv_mono T hwf x y h
  | .sporadic T J, hwf => by
    simp only [Arr.WF] at hwf
    exact sporadic_N_mono T J hwf
  | .curve d, hwf => by
    simp only [Arr.WF] at hwf
    rw [Arr.N_curve_fun]; exact curveN_mono d hwf
  | .xcurve d, hwf => by
    simp only [Arr.WF] at hwf
    rw [Arr.N_xcurve_fun]; exact xcurveN_mono d hwf
  | .pfx h st, hwf => by
    simp only [Arr.WF] at hwf
    rw [Arr.N_pfx_fun]; exact prefixN_mono h st hwf
  | .prop J a, hwf => by
    simp only [Arr.WF] at hwf
    have ih := Arr.N_mono' a hwf
    intro x y h
    simp only [Arr.N]
    by_cases hx : x = 0
    · rw [if_pos hx]; exact Nat.zero_le _
    · rw [if_neg hx, if_neg (by omega)]
      exact ih _ _ (by omega)
  | .agg as, hwf => by
    simp only [Arr.WF] at hwf
    rw [Arr.N_agg_fun]; exact Arr.Nlist_mono' as hwf
  | .sum a b, hwf => by
    simp only [Arr.WF] at hwf
    have iha := Arr.N_mono' a hwf.1
    have ihb := Arr.N_mono' b hwf.2
    intro x y h
    simp only [Arr.N]
    exact Nat.add_le_add (iha x y h) (ihb x y h)
theorem Arr.Nlist_mono' : (as : List Arr) → Arr.WFlist as → MonoN (Arr.Nlist as)
  | [], _ => by intro x y _; simp only [Arr.Nlist]; exact Nat.le_refl _
  | a :: as, hwf => by
    simp only [Arr.WFlist] at hwf
    have iha := Arr.N_mono' a hwf.1
    have ihb := Arr.Nlist_mono' as hwf.2
    intro x y h
    simp only [Arr.Nlist]
    exact Nat.add_le_add (iha x y h) (ihb x y h)
end

/-- `number_arrivals` is non-decreasing -/
theorem Arr.N_mono (a : Arr) (hwf : a.WF) : MonoN a.N := Arr.N_mono' a hwf

mutual
theorem Arr.Exact_imp_Exact0' : (a : Arr) → a.Exact → a.Exact0
  | .never, _ => by simp only [Arr.Exact0]
  | .periodic _, _ => by simp only [Arr.Exact0]
  | .sporadic _ _, _ => by simp only [Arr.Exact0]
  | .curve _, _ => by simp only [Arr.Exact0]
  | .xcurve _, _ => by simp only [Arr.Exact0]
  | .pfx _ _, h => by simp only [Arr.Exact] at h
  | .prop J a, h => by simp only [Arr.Exact] at h; simp only [Arr.Exact0]; exact h
  | .agg as, h => by
    simp only [Arr.Exact] at h; simp only [Arr.Exact0]; exact Arr.ExactList_imp_Exact0List' as h
  | .sum a b, h => by
    simp only [Arr.Exact] at h; simp only [Arr.Exact0]
    exact ⟨Arr.Exact_imp_Exact0' a h.1, Arr.Exact_imp_Exact0' b h.2⟩
theorem Arr.ExactList_imp_Exact0List' : (as : List Arr) → Arr.ExactList as → Arr.Exact0List as
  | [], _ => by simp only [Arr.Exact0List]
  | a :: as, h => by
    simp only [Arr.ExactList] at h; simp only [Arr.Exact0List]
    exact ⟨Arr.Exact_imp_Exact0' a h.1, Arr.ExactList_imp_Exact0List' as h.2⟩
end

theorem Arr.Exact_imp_Exact0 (a : Arr) (h : a.Exact) : a.Exact0 := Arr.Exact_imp_Exact0' a h

mutual
theorem Arr.Exact0_trivial' : (a : Arr) → a.Exact0
  | .never => by simp only [Arr.Exact0]
  | .periodic _ => by simp only [Arr.Exact0]
  | .sporadic _ _ => by simp only [Arr.Exact0]
  | .curve _ => by simp only [Arr.Exact0]
  | .xcurve _ => by simp only [Arr.Exact0]
  | .pfx _ _ => by simp only [Arr.Exact0]
  | .prop _ a => by simp only [Arr.Exact0]; exact Arr.Exact0_trivial' a
  | .agg as => by simp only [Arr.Exact0]; exact Arr.Exact0List_trivial' as
  | .sum a b => by
    simp only [Arr.Exact0]; exact ⟨Arr.Exact0_trivial' a, Arr.Exact0_trivial' b⟩
theorem Arr.Exact0List_trivial' : (as : List Arr) → Arr.Exact0List as
  | [] => by simp only [Arr.Exact0List]
  | a :: as => by
    simp only [Arr.Exact0List]; exact ⟨Arr.Exact0_trivial' a, Arr.Exact0List_trivial' as⟩
end

/-- since the F2 and F3 fixes every model satisfies `Exact0`: `steps_iter` is exact up to the
leading 0 of `ArrivalCurvePrefix` (K1) for EVERY well-formed arrival model -/
theorem Arr.Exact0_trivial (a : Arr) : a.Exact0 := Arr.Exact0_trivial' a

/-! ### steps: sorted multi-lists (what the k-way merge produces before `dedup`) -/

/-- like `StepsSpec0`, but `l` is only sorted and may contain duplicates -/
def WSpec0 (N : Nat → Nat) (H : Nat) (l : List Nat) : Prop :=
  l.Pairwise (· ≤ ·) ∧ ∀ δ, 1 ≤ δ → (δ ∈ l ↔ (δ ≤ H ∧ N (δ - 1) < N δ))

theorem StepsSpec0.toW {N : Nat → Nat} {H : Nat} {l : List Nat} (h : StepsSpec0 N H l) :
    WSpec0 N H l := ⟨strict_imp_sorted _ h.1, h.2⟩

theorem WSpec0.dedup {N : Nat → Nat} {H : Nat} {l : List Nat} (h : WSpec0 N H l) :
    StepsSpec0 N H (dedup l) := by
  refine ⟨dedup_strict _ h.1, fun δ hδ => ?_⟩
  rw [mem_dedup]; exact h.2 δ hδ

theorem WSpec0.nil (H : Nat) : WSpec0 (fun _ => 0) H [] := by
  refine ⟨List.Pairwise.nil, fun δ _ => ?_⟩
  simp

theorem WSpec0.merge (N1 N2 : Nat → Nat) (H : Nat) (l1 l2 : List Nat)
    (m1 : MonoN N1) (m2 : MonoN N2) (h1 : WSpec0 N1 H l1) (h2 : WSpec0 N2 H l2) :
    WSpec0 (fun d => N1 d + N2 d) H (merge l1 l2) := by
  refine ⟨merge_sorted _ _ h1.1 h2.1, fun δ hδ => ?_⟩
  rw [mem_merge, h1.2 δ hδ, h2.2 δ hδ]
  show _ ↔ (δ ≤ H ∧ N1 (δ - 1) + N2 (δ - 1) < N1 δ + N2 δ)
  rw [sum_step_iff N1 N2 m1 m2]
  constructor
  · rintro (h | h)
    · exact ⟨h.1, Or.inl h.2⟩
    · exact ⟨h.1, Or.inr h.2⟩
  · rintro ⟨h, h' | h'⟩
    · exact Or.inl ⟨h, h'⟩
    · exact Or.inr ⟨h, h'⟩

theorem StepsSpec.zero_not_mem {N : Nat → Nat} {H : Nat} {l : List Nat} (h : StepsSpec N H l) :
    0 ∉ l := by
  intro h0
  have := (h.2 0).1 h0
  omega

theorem StepsSpec.of_spec0 {N : Nat → Nat} {H : Nat} {l : List Nat} (h : StepsSpec0 N H l)
    (h0 : 0 ∉ l) : StepsSpec N H l := by
  refine ⟨h.1, fun δ => ?_⟩
  by_cases hδ : 1 ≤ δ
  · rw [h.2 δ hδ]
    exact ⟨fun h => ⟨hδ, h⟩, fun h => h.2⟩
  · have : δ = 0 := by omega
    subst this
    constructor
    · intro h; exact absurd h h0
    · intro h; omega

mutual
theorem Arr.steps_spec0' : (a : Arr) → a.WF → a.Exact0 → ∀ H,
    StepsSpec0 a.N H (a.stepsUpTo H)
  | .never, _, _, H => by
    rw [Arr.N_never_fun]; simp only [Arr.stepsUpTo]
    exact (stepsSpec_const 0 H).toSpec0
  | .periodic T, hwf, _, H => by
    simp only [Arr.WF] at hwf
    exact (periodic_steps_spec T H hwf).toSpec0
  | .sporadic T J, hwf, _, H => by
    simp only [Arr.WF] at hwf
    exact (sporadic_steps_spec T J H hwf).toSpec0
  | .curve d, hwf, _, H => by
    simp only [Arr.WF] at hwf
    rw [Arr.N_curve_fun]; simp only [Arr.stepsUpTo]
    exact (curve_steps_spec d hwf H).toSpec0
  | .xcurve d, hwf, _, H => by
    simp only [Arr.WF] at hwf
    rw [Arr.N_xcurve_fun]; simp only [Arr.stepsUpTo]
    exact (xcurve_steps_spec d hwf H).toSpec0
  | .pfx h st, hwf, _, H => by
    simp only [Arr.WF] at hwf
    rw [Arr.N_pfx_fun]; simp only [Arr.stepsUpTo]
    exact prefix_steps_spec0 h st hwf H
  | .prop J a, hwf, hex, H => by
    simp only [Arr.WF] at hwf
    simp only [Arr.Exact0] at hex
    have ih := Arr.steps_spec0' a hwf hex (H + J)
    rw [Arr.N_prop_fun]; simp only [Arr.stepsUpTo]
    by_cases hH : 1 ≤ H
    · rw [if_pos hH]
      exact (stepsSpec_prop a.N H J _ hH (Arr.N_mono a hwf) ih).toSpec0
    · rw [if_neg hH]
      have : H = 0 := by omega
      subst this
      exact (stepsSpec_zero _).toSpec0
  | .agg as, hwf, hex, H => by
    simp only [Arr.WF] at hwf
    simp only [Arr.Exact0] at hex
    rw [Arr.N_agg_fun]; simp only [Arr.stepsUpTo]
    exact (Arr.stepsList_spec0' as hwf hex H).dedup
  | .sum a b, hwf, hex, H => by
    simp only [Arr.WF] at hwf
    simp only [Arr.Exact0] at hex
    rw [Arr.N_sum_fun]; simp only [Arr.stepsUpTo]
    exact stepsSpec0_sum a.N b.N H _ _ (Arr.N_mono a hwf.1) (Arr.N_mono b hwf.2)
      (Arr.steps_spec0' a hwf.1 hex.1 H) (Arr.steps_spec0' b hwf.2 hex.2 H)
theorem Arr.stepsList_spec0' : (as : List Arr) → Arr.WFlist as → Arr.Exact0List as → ∀ H,
    WSpec0 (Arr.Nlist as) H (Arr.stepsList as H)
  | [], _, _, H => by
    rw [Arr.Nlist_nil_fun]; simp only [Arr.stepsList]
    exact WSpec0.nil H
  | a :: as, hwf, hex, H => by
    simp only [Arr.WFlist] at hwf
    simp only [Arr.Exact0List] at hex
    rw [Arr.Nlist_cons_fun]; simp only [Arr.stepsList]
    exact WSpec0.merge a.N (Arr.Nlist as) H _ _ (Arr.N_mono a hwf.1) (Arr.Nlist_mono' as hwf.2)
      (Arr.steps_spec0' a hwf.1 hex.1 H).toW (Arr.stepsList_spec0' as hwf.2 hex.2 H)
end

/-- C11, allowing the leading 0 of `ArrivalCurvePrefix` -/
theorem Arr.steps_spec0 (a : Arr) (hwf : a.WF) (hex : a.Exact0) (H : Nat) :
    StepsSpec0 a.N H (a.stepsUpTo H) := Arr.steps_spec0' a hwf hex H

mutual
theorem Arr.zero_not_mem_steps' : (a : Arr) → a.WF → a.Exact → ∀ H, 0 ∉ a.stepsUpTo H
  | .never, _, _, H => by simp [Arr.stepsUpTo]
  | .periodic T, hwf, _, H => by
    simp only [Arr.WF] at hwf
    exact (periodic_steps_spec T H hwf).zero_not_mem
  | .sporadic T J, hwf, _, H => by
    simp only [Arr.WF] at hwf
    exact (sporadic_steps_spec T J H hwf).zero_not_mem
  | .curve d, hwf, _, H => by
    simp only [Arr.WF] at hwf
    simp only [Arr.stepsUpTo]
    exact (curve_steps_spec d hwf H).zero_not_mem
  | .xcurve d, hwf, _, H => by
    simp only [Arr.WF] at hwf
    simp only [Arr.stepsUpTo]
    exact (xcurve_steps_spec d hwf H).zero_not_mem
  | .pfx h st, _, hex, H => by simp only [Arr.Exact] at hex
  | .prop J a, hwf, hex, H => by
    simp only [Arr.WF] at hwf
    simp only [Arr.Exact] at hex
    have ih := Arr.steps_spec0 a hwf hex (H + J)
    simp only [Arr.stepsUpTo]
    by_cases hH : 1 ≤ H
    · rw [if_pos hH]
      exact (stepsSpec_prop a.N H J _ hH (Arr.N_mono a hwf) ih).zero_not_mem
    · rw [if_neg hH]; simp
  | .agg as, hwf, hex, H => by
    simp only [Arr.WF] at hwf
    simp only [Arr.Exact] at hex
    simp only [Arr.stepsUpTo]
    rw [mem_dedup]
    exact Arr.zero_not_mem_stepsList' as hwf hex H
  | .sum a b, hwf, hex, H => by
    simp only [Arr.WF] at hwf
    simp only [Arr.Exact] at hex
    simp only [Arr.stepsUpTo]
    rw [mem_dedup, mem_merge]
    intro h
    rcases h with h | h
    · exact Arr.zero_not_mem_steps' a hwf.1 hex.1 H h
    · exact Arr.zero_not_mem_steps' b hwf.2 hex.2 H h
theorem Arr.zero_not_mem_stepsList' : (as : List Arr) → Arr.WFlist as → Arr.ExactList as → ∀ H,
    0 ∉ Arr.stepsList as H
  | [], _, _, H => by simp [Arr.stepsList]
  | a :: as, hwf, hex, H => by
    simp only [Arr.WFlist] at hwf
    simp only [Arr.ExactList] at hex
    simp only [Arr.stepsList]
    rw [mem_merge]
    intro h
    rcases h with h | h
    · exact Arr.zero_not_mem_steps' a hwf.1 hex.1 H h
    · exact Arr.zero_not_mem_stepsList' as hwf.2 hex.2 H h
end

/-- C11: `steps_iter` (cut at any horizon `H`) is strictly increasing and contains `δ`
iff `1 ≤ δ ≤ H` and the bound at `δ - 1` is smaller than at `δ` -/
theorem Arr.steps_spec (a : Arr) (hwf : a.WF) (hex : a.Exact) (H : Nat) :
    StepsSpec a.N H (a.stepsUpTo H) :=
  StepsSpec.of_spec0 (Arr.steps_spec0 a hwf (Arr.Exact_imp_Exact0 a hex) H)
    (Arr.zero_not_mem_steps' a hwf hex H)

/-- former finding F2 (fixed in the Rust code, "fix: Propagated::steps_iter yields 1 only if
the curve steps there"): `Propagated` over a never-arriving model no longer yields the step 1 -/
theorem prop_never_steps : (Arr.prop 3 .never).stepsUpTo 10 = [] := by
  simp [Arr.stepsUpTo, Arr.N]

/-- ... and so its step list is exact (nothing ever arrives, there are no steps) -/
theorem prop_never_steps_spec :
    StepsSpec (Arr.prop 3 .never).N 10 ((Arr.prop 3 .never).stepsUpTo 10) :=
  Arr.steps_spec (Arr.prop 3 .never) (by simp only [Arr.WF]) (by simp only [Arr.Exact, Arr.Exact0]) 10

theorem cnt_delayed' (J : Nat) : ∀ (base rels : List Nat), DelayedBy J base rels → ∀ t x,
    cnt rels t x ≤ cnt base (t - J) (x + (t - (t - J)))
  | [], [], _, t, x => by simp [cnt_nil]
  | [], _ :: _, h, _, _ => by simp [DelayedBy] at h
  | _ :: _, [], h, _, _ => by simp [DelayedBy] at h
  | b :: bs, r :: rs, h, t, x => by
    rw [DelayedBy] at h
    have ih := cnt_delayed' J bs rs h.2.2 t x
    rw [cnt_cons, cnt_cons]
    split <;> split <;> omega

/-- `DelayedBy` preserves `cnt` up to widening the window to the left by `J` -/
theorem cnt_delayed (J : Nat) (base rels : List Nat) (h : DelayedBy J base rels) (t x : Nat) :
    cnt rels t x ≤ cnt base (t - J) (x + (t - (t - J))) := cnt_delayed' J base rels h t x

/-- `cnt` is invariant under permutation and additive over concatenation -/
theorem cnt_perm (l1 l2 : List Nat) (h : l1.Perm l2) (t x : Nat) : cnt l1 t x = cnt l2 t x := by
  unfold cnt
  exact (h.filter _).length_eq

theorem cnt_append (l1 l2 : List Nat) (t x : Nat) : cnt (l1 ++ l2) t x = cnt l1 t x + cnt l2 t x := by
  unfold cnt
  rw [List.filter_append, List.length_append]

/-- `Propagated`: a release sequence delayed by at most `J` against a sequence bounded by
`N` is bounded by `δ ↦ N (δ + J)` -/
theorem cnt_delayed_le (N : Nat → Nat) (hm : MonoN N) (J : Nat) (base rels : List Nat)
    (hb : ∀ t x, cnt base t x ≤ N x) (hd : DelayedBy J base rels) (t x : Nat) :
    cnt rels t x ≤ if x = 0 then 0 else N (x + J) := by
  by_cases hx : x = 0
  · subst hx; rw [if_pos rfl, cnt_zero]; exact Nat.le_refl _
  · rw [if_neg hx]
    have h1 := cnt_delayed J base rels hd t x
    have h2 := hb (t - J) (x + (t - (t - J)))
    have h3 := hm (x + (t - (t - J))) (x + J) (by omega)
    omega

mutual
theorem Arr.bounds' : (a : Arr) → a.WF → ∀ rels, Admissible a rels → ∀ t x,
    cnt rels t x ≤ a.N x
  | .never, _, rels, hadm, t, x => by
    simp only [Admissible] at hadm
    subst hadm
    rw [cnt_nil]; exact Nat.zero_le _
  | .periodic T, hwf, rels, hadm, t, x => by
    simp only [Arr.WF] at hwf
    exact periodic_bounds T hwf rels hadm t x
  | .sporadic T J, hwf, rels, hadm, t, x => by
    simp only [Arr.WF] at hwf
    exact sporadic_bounds T J hwf rels hadm t x
  | .curve d, hwf, rels, hadm, t, x => by
    simp only [Arr.WF] at hwf
    simp only [Admissible] at hadm
    simp only [Arr.N]
    exact curve_bounds d hwf rels hadm t x
  | .xcurve d, hwf, rels, hadm, t, x => by
    simp only [Arr.WF] at hwf
    simp only [Admissible] at hadm
    simp only [Arr.N]
    exact xcurve_bounds d hwf rels hadm t x
  | .pfx h st, hwf, rels, hadm, t, x => by
    simp only [Arr.WF] at hwf
    simp only [Admissible] at hadm
    simp only [Arr.N]
    exact prefix_bounds h st hwf rels hadm t x
  | .prop J a, hwf, rels, hadm, t, x => by
    simp only [Arr.WF] at hwf
    simp only [Admissible] at hadm
    obtain ⟨base, hb, hd⟩ := hadm
    simp only [Arr.N]
    exact cnt_delayed_le a.N (Arr.N_mono a hwf) J base rels (Arr.bounds' a hwf base hb) hd t x
  | .agg as, hwf, rels, hadm, t, x => by
    simp only [Arr.WF] at hwf
    simp only [Admissible] at hadm
    obtain ⟨parts, hp, hperm⟩ := hadm
    simp only [Arr.N]
    rw [cnt_perm _ _ hperm]
    exact Arr.boundsList' as hwf parts hp t x
  | .sum a b, hwf, rels, hadm, t, x => by
    simp only [Arr.WF] at hwf
    simp only [Admissible] at hadm
    obtain ⟨ra, rb, ha, hb, hperm⟩ := hadm
    simp only [Arr.N]
    rw [cnt_perm _ _ hperm, cnt_append]
    exact Nat.add_le_add (Arr.bounds' a hwf.1 ra ha t x) (Arr.bounds' b hwf.2 rb hb t x)
theorem Arr.boundsList' : (as : List Arr) → Arr.WFlist as → ∀ parts, AdmissibleList as parts →
    ∀ t x, cnt parts.flatten t x ≤ Arr.Nlist as x
  | [], _, [], _, t, x => by simp [cnt_nil]
  | [], _, _ :: _, h, _, _ => by simp [AdmissibleList] at h
  | _ :: _, _, [], h, _, _ => by simp [AdmissibleList] at h
  | a :: as, hwf, p :: ps, hadm, t, x => by
    simp only [Arr.WFlist] at hwf
    simp only [AdmissibleList] at hadm
    simp only [Arr.Nlist, List.flatten_cons]
    rw [cnt_append]
    exact Nat.add_le_add (Arr.bounds' a hwf.1 p hadm.1 t x) (Arr.boundsList' as hwf.2 ps hadm.2 t x)
end

/-- C10: no window of any admissible event sequence contains more events than
`number_arrivals` claims — for every model and every composition -/
theorem Arr.bounds (a : Arr) (hwf : a.WF) (rels : List Nat) (hadm : Admissible a rels)
    (t x : Nat) : cnt rels t x ≤ a.N x := Arr.bounds' a hwf rels hadm t x

mutual
theorem Arr.withJitter_wf' : (a : Arr) → a.WF → ∀ j, (a.withJitter j).WF
  | .never, _, j => by simp only [Arr.withJitter, Arr.WF]
  | .periodic T, hwf, j => by simp only [Arr.WF] at hwf; simp only [Arr.withJitter, Arr.WF]; exact hwf
  | .sporadic T J, hwf, j => by simp only [Arr.WF] at hwf; simp only [Arr.withJitter, Arr.WF]; exact hwf
  | .curve d, hwf, j => by simp only [Arr.WF] at hwf; simp only [Arr.withJitter, Arr.WF]; exact hwf
  | .xcurve d, hwf, j => by simp only [Arr.WF] at hwf; simp only [Arr.withJitter, Arr.WF]; exact hwf
  | .pfx h st, hwf, j => by simp only [Arr.WF] at hwf; simp only [Arr.withJitter, Arr.WF]; exact hwf
  | .prop J a, hwf, j => by simp only [Arr.WF] at hwf; simp only [Arr.withJitter, Arr.WF]; exact hwf
  | .agg as, hwf, j => by
    simp only [Arr.WF] at hwf; simp only [Arr.withJitter, Arr.WF]
    exact Arr.withJitterList_wf' as hwf j
  | .sum a b, hwf, j => by
    simp only [Arr.WF] at hwf; simp only [Arr.withJitter, Arr.WF]
    exact ⟨Arr.withJitter_wf' a hwf.1 j, Arr.withJitter_wf' b hwf.2 j⟩
theorem Arr.withJitterList_wf' : (as : List Arr) → Arr.WFlist as → ∀ j,
    Arr.WFlist (Arr.withJitterList as j)
  | [], _, j => by simp only [Arr.withJitterList, Arr.WFlist]
  | a :: as, hwf, j => by
    simp only [Arr.WFlist] at hwf; simp only [Arr.withJitterList, Arr.WFlist]
    exact ⟨Arr.withJitter_wf' a hwf.1 j, Arr.withJitterList_wf' as hwf.2 j⟩
end

theorem Arr.withJitter_wf (a : Arr) (hwf : a.WF) (j : Nat) : (a.withJitter j).WF :=
  Arr.withJitter_wf' a hwf j

mutual
theorem Arr.withJitter_add' : (a : Arr) → ∀ x y d,
    ((a.withJitter x).withJitter y).N d = (a.withJitter (x + y)).N d
  | .never, x, y, d => by simp only [Arr.withJitter]
  | .periodic T, x, y, d => by simp only [Arr.withJitter]
  | .sporadic T J, x, y, d => by simp only [Arr.withJitter, Nat.add_assoc]
  | .curve dm, x, y, d => by simp only [Arr.withJitter]
  | .xcurve dm, x, y, d => by simp only [Arr.withJitter]
  | .pfx h st, x, y, d => by simp only [Arr.withJitter]
  | .prop J a, x, y, d => by simp only [Arr.withJitter, Nat.add_assoc]
  | .agg as, x, y, d => by
    simp only [Arr.withJitter, Arr.N]
    exact Arr.withJitterList_add' as x y d
  | .sum a b, x, y, d => by
    simp only [Arr.withJitter, Arr.N]
    rw [Arr.withJitter_add' a x y d, Arr.withJitter_add' b x y d]
theorem Arr.withJitterList_add' : (as : List Arr) → ∀ x y d,
    Arr.Nlist (Arr.withJitterList (Arr.withJitterList as x) y) d
      = Arr.Nlist (Arr.withJitterList as (x + y)) d
  | [], x, y, d => by simp only [Arr.withJitterList]
  | a :: as, x, y, d => by
    simp only [Arr.withJitterList, Arr.Nlist]
    rw [Arr.withJitter_add' a x y d, Arr.withJitterList_add' as x y d]
end

/-- adding jitter `x` and then `y` is the same as adding `x + y` -/
theorem Arr.withJitter_add (a : Arr) (x y d : Nat) :
    ((a.withJitter x).withJitter y).N d = (a.withJitter (x + y)).N d :=
  Arr.withJitter_add' a x y d

mutual
theorem Arr.withJitter_zero' : (a : Arr) → ∀ d, (a.withJitter 0).N d = a.N d
  | .never, d => by simp only [Arr.withJitter]
  | .periodic T, d => by
    simp only [Arr.withJitter, Arr.N, Nat.add_zero]
    split
    next h => subst h; exact (ceilDiv_zero T).symm
    next h => rfl
  | .sporadic T J, d => by simp only [Arr.withJitter, Nat.add_zero]
  | .curve dm, d => by
    simp only [Arr.withJitter, Arr.N, Nat.add_zero]
    split
    next h => subst h; exact (curveN_zero dm).symm
    next h => rfl
  | .xcurve dm, d => by
    simp only [Arr.withJitter, Arr.N, Nat.add_zero]
    split
    next h => subst h; exact (xcurveN_zero dm).symm
    next h => rfl
  | .pfx h st, d => by
    simp only [Arr.withJitter, Arr.N, Nat.add_zero]
    split
    next h0 => subst h0; exact (prefixN_zero h st).symm
    next h0 => rfl
  | .prop J a, d => by simp only [Arr.withJitter, Nat.add_zero]
  | .agg as, d => by
    simp only [Arr.withJitter, Arr.N]
    exact Arr.withJitterList_zero' as d
  | .sum a b, d => by
    simp only [Arr.withJitter, Arr.N]
    rw [Arr.withJitter_zero' a d, Arr.withJitter_zero' b d]
theorem Arr.withJitterList_zero' : (as : List Arr) → ∀ d,
    Arr.Nlist (Arr.withJitterList as 0) d = Arr.Nlist as d
  | [], d => by simp only [Arr.withJitterList]
  | a :: as, d => by
    simp only [Arr.withJitterList, Arr.Nlist]
    rw [Arr.withJitter_zero' a d, Arr.withJitterList_zero' as d]
end

/-- adding zero jitter changes nothing -/
theorem Arr.withJitter_zero (a : Arr) (d : Nat) : (a.withJitter 0).N d = a.N d :=
  Arr.withJitter_zero' a d

/-! ### `DelayedBy`: composition, concatenation, permutation -/

theorem DelayedBy_trans (J j : Nat) : ∀ (a b c : List Nat), DelayedBy J a b → DelayedBy j b c →
    DelayedBy (J + j) a c
  | [], [], [], _, _ => by simp [DelayedBy]
  | [], [], _ :: _, _, h => by simp [DelayedBy] at h
  | [], _ :: _, _, h, _ => by simp [DelayedBy] at h
  | _ :: _, [], _, h, _ => by simp [DelayedBy] at h
  | _ :: _, _ :: _, [], _, h => by simp [DelayedBy] at h
  | x :: a, y :: b, z :: c, h1, h2 => by
    rw [DelayedBy] at h1 h2 ⊢
    exact ⟨by omega, by omega, DelayedBy_trans J j a b c h1.2.2 h2.2.2⟩

theorem DelayedBy_nil_left (j : Nat) (rels : List Nat) (h : DelayedBy j [] rels) : rels = [] := by
  cases rels with
  | nil => rfl
  | cons r rs => simp [DelayedBy] at h

theorem DelayedBy_append (j : Nat) (l2 : List Nat) : ∀ (l1 rels : List Nat),
    DelayedBy j (l1 ++ l2) rels →
    ∃ r1 r2, rels = r1 ++ r2 ∧ DelayedBy j l1 r1 ∧ DelayedBy j l2 r2
  | [], rels, h => ⟨[], rels, rfl, by simp [DelayedBy], by simpa using h⟩
  | x :: l1, [], h => by simp [DelayedBy] at h
  | x :: l1, r :: rs, h => by
    rw [List.cons_append, DelayedBy] at h
    obtain ⟨r1, r2, e, h1, h2⟩ := DelayedBy_append j l2 l1 rs h.2.2
    refine ⟨r :: r1, r2, by rw [e]; rfl, ?_, h2⟩
    rw [DelayedBy]
    exact ⟨h.1, h.2.1, h1⟩

theorem DelayedBy_perm (j : Nat) (base base' : List Nat) (hp : base.Perm base') :
    ∀ rels, DelayedBy j base rels → ∃ rels', rels.Perm rels' ∧ DelayedBy j base' rels' := by
  induction hp with
  | nil => intro rels h; exact ⟨rels, List.Perm.refl _, h⟩
  | cons x _ ih =>
    intro rels h
    cases rels with
    | nil => simp [DelayedBy] at h
    | cons r rs =>
      rw [DelayedBy] at h
      obtain ⟨rs', hp', hd'⟩ := ih rs h.2.2
      refine ⟨r :: rs', hp'.cons r, ?_⟩
      rw [DelayedBy]
      exact ⟨h.1, h.2.1, hd'⟩
  | swap x y l =>
    intro rels h
    cases rels with
    | nil => simp [DelayedBy] at h
    | cons r1 rs =>
      cases rs with
      | nil => simp [DelayedBy] at h
      | cons r2 rs =>
        rw [DelayedBy, DelayedBy] at h
        refine ⟨r2 :: r1 :: rs, List.Perm.swap r2 r1 rs, ?_⟩
        rw [DelayedBy, DelayedBy]
        exact ⟨h.2.2.1, h.2.2.2.1, h.1, h.2.1, h.2.2.2.2⟩
  | trans _ _ ih1 ih2 =>
    intro rels h
    obtain ⟨r1, hp1, hd1⟩ := ih1 rels h
    obtain ⟨r2, hp2, hd2⟩ := ih2 r1 hd1
    exact ⟨r2, hp1.trans hp2, hd2⟩

/-! ### `clone_with_jitter` -/

mutual
/-- a sequence obtained by delaying each event of an admissible sequence by at most `j` is
admissible for the model with jitter `j` -/
theorem Arr.withJitter_admissible' : (a : Arr) → ∀ j base rels, Admissible a base →
    DelayedBy j base rels → Admissible (a.withJitter j) rels
  | .never, j, base, rels, hadm, hd => by
    simp only [Admissible] at hadm
    subst hadm
    simp only [Arr.withJitter, Admissible]
    exact DelayedBy_nil_left j rels hd
  | .periodic T, j, base, rels, hadm, hd => by
    simp only [Admissible] at hadm
    simp only [Arr.withJitter, Admissible]
    exact ⟨base, GapsEq_imp_GapsGe T base hadm, hd⟩
  | .sporadic T J, j, base, rels, hadm, hd => by
    simp only [Admissible] at hadm
    obtain ⟨arr, hg, hd0⟩ := hadm
    simp only [Arr.withJitter, Admissible]
    exact ⟨arr, hg, DelayedBy_trans J j arr base rels hd0 hd⟩
  | .curve d, j, base, rels, hadm, hd => by
    simp only [Arr.withJitter]
    rw [Admissible]
    exact ⟨base, hadm, hd⟩
  | .xcurve d, j, base, rels, hadm, hd => by
    simp only [Arr.withJitter]
    rw [Admissible]
    exact ⟨base, hadm, hd⟩
  | .pfx h st, j, base, rels, hadm, hd => by
    simp only [Arr.withJitter]
    rw [Admissible]
    exact ⟨base, hadm, hd⟩
  | .prop J a, j, base, rels, hadm, hd => by
    rw [Admissible] at hadm
    obtain ⟨b0, hb0, hd0⟩ := hadm
    simp only [Arr.withJitter]
    rw [Admissible]
    exact ⟨b0, hb0, DelayedBy_trans J j b0 base rels hd0 hd⟩
  | .agg as, j, base, rels, hadm, hd => by
    rw [Admissible] at hadm
    obtain ⟨parts, hp, hperm⟩ := hadm
    obtain ⟨rels', hperm', hd'⟩ := DelayedBy_perm j base parts.flatten hperm rels hd
    obtain ⟨parts', hp', e⟩ := Arr.withJitterList_admissible' as j parts rels' hp hd'
    simp only [Arr.withJitter]
    rw [Admissible]
    exact ⟨parts', hp', e ▸ hperm'⟩
  | .sum a b, j, base, rels, hadm, hd => by
    rw [Admissible] at hadm
    obtain ⟨ra, rb, ha, hb, hperm⟩ := hadm
    obtain ⟨rels', hperm', hd'⟩ := DelayedBy_perm j base (ra ++ rb) hperm rels hd
    obtain ⟨r1, r2, e, h1, h2⟩ := DelayedBy_append j rb ra rels' hd'
    simp only [Arr.withJitter]
    rw [Admissible]
    exact ⟨r1, r2, Arr.withJitter_admissible' a j ra r1 ha h1,
      Arr.withJitter_admissible' b j rb r2 hb h2, e ▸ hperm'⟩
theorem Arr.withJitterList_admissible' : (as : List Arr) → ∀ j parts rels,
    AdmissibleList as parts → DelayedBy j parts.flatten rels →
    ∃ parts', AdmissibleList (Arr.withJitterList as j) parts' ∧ rels = parts'.flatten
  | [], j, [], rels, _, hd => by
    refine ⟨[], ?_, ?_⟩
    · simp only [Arr.withJitterList, AdmissibleList]
    · exact DelayedBy_nil_left j rels (by simpa using hd)
  | [], _, _ :: _, _, h, _ => by simp [AdmissibleList] at h
  | _ :: _, _, [], _, h, _ => by simp [AdmissibleList] at h
  | a :: as, j, p :: ps, rels, hadm, hd => by
    simp only [AdmissibleList] at hadm
    rw [List.flatten_cons] at hd
    obtain ⟨r1, r2, e, h1, h2⟩ := DelayedBy_append j ps.flatten p rels hd
    obtain ⟨ps', hps', e'⟩ := Arr.withJitterList_admissible' as j ps r2 hadm.2 h2
    refine ⟨r1 :: ps', ?_, ?_⟩
    · simp only [Arr.withJitterList, AdmissibleList]
      exact ⟨Arr.withJitter_admissible' a j p r1 hadm.1 h1, hps'⟩
    · rw [List.flatten_cons, ← e', e]
end

/-- `clone_with_jitter(j)` bounds every sequence obtained by delaying each event of an
admissible sequence by at most `j` -/
theorem Arr.withJitter_bounds (a : Arr) (hwf : a.WF) (j : Nat) (base rels : List Nat)
    (hadm : Admissible a base) (hd : DelayedBy j base rels) (t x : Nat) :
    cnt rels t x ≤ (a.withJitter j).N x :=
  Arr.bounds (a.withJitter j) (Arr.withJitter_wf a hwf j) rels
    (Arr.withJitter_admissible' a j base rels hadm hd) t x

end RTA
