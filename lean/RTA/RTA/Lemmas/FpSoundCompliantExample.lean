import RTA.Lemmas.FpSoundCompliant
import RTA.Lemmas.FpSoundEqExample
import RTA.Lemmas.FifoSound
/-! Non-vacuity of the task-set level theorem `fp_preemptive_sound_of_compliant`: the concrete
system `eqSys` of `FpSoundEqExample` (two tasks on the same priority level) complies with the
task set `eqTs`, its schedule is legal, and the analysis result applies. -/

open Finset Classical

namespace RTA.Sched.FpEqExample
open RTA RTA.Spec RTA.Sched RTA.Sched.J

/-- the task set: two periodic tasks with period 10 and WCET 1 -/
def eqTs : List (Arr × Cost) := [(.periodic 10, .scalar 1), (.periodic 10, .scalar 1)]

theorem eqSys_relsOf0 : relsOf eqSys 0 = [0] := by
  simp [relsOf, eqSys, List.range_succ]

theorem eqSys_relsOf1 : relsOf eqSys 1 = [0] := by
  simp [relsOf, eqSys, List.range_succ]

theorem eqSys_costsOf0 : costsOf eqSys 0 = [1] := by
  simp [costsOf, eqSys, List.range_succ]

theorem eqSys_costsOf1 : costsOf eqSys 1 = [1] := by
  simp [costsOf, eqSys, List.range_succ]

theorem runSum_one_le (st m : ℕ) : runSum [1] st m ≤ (Cost.scalar 1).ofJobs m := by
  unfold runSum
  simp only [Cost.ofJobs]
  cases st with
  | zero =>
    cases m with
    | zero => simp
    | succ m => simp
  | succ st => simp

theorem taskCompliant_of (i : ℕ) (hr : relsOf eqSys i = [0]) (hc : costsOf eqSys i = [1]) :
    TaskCompliant eqSys i (.periodic 10) (.scalar 1) := by
  refine { sorted := ?_, adm := ?_, costs := ?_ }
  · rw [hr]; exact List.pairwise_singleton _ _
  · rw [hr]; unfold Admissible; simp [GapsEq]
  · intro st m; rw [hc]; exact runSum_one_le st m

/-- the job set of `eqSys` complies with the task set `eqTs` -/
theorem eqSys_compliant : Compliant eqSys eqTs := by
  refine { task_lt := ?_, comp := ?_ }
  · intro k hk
    have hk2 : k < 2 := hk
    show k < 2
    exact hk2
  · intro i hi
    have hi2 : i < 2 := hi
    have h01 : i = 0 ∨ i = 1 := by omega
    rcases h01 with rfl | rfl
    · exact taskCompliant_of 0 eqSys_relsOf0 eqSys_costsOf0
    · exact taskCompliant_of 1 eqSys_relsOf1 eqSys_costsOf1

theorem eqSys_hepOthers : hepOthers eqTs eqPr 0 = [tua] := by
  simp [hepOthers, taskRB, eqTs, eqPr, tua, List.range_succ]

theorem eqSys_taskRB : taskRB eqTs 0 = tua := by
  simp [taskRB, eqTs, tua]

theorem eqTs_wf : ∀ p ∈ eqTs, p.1.WF ∧ p.2.WF := by
  intro p hp
  simp only [eqTs, List.mem_cons, List.not_mem_nil, or_false, or_self] at hp
  subst hp
  simp [Arr.WF, Cost.WF]

theorem eqTs_exact : ∀ x, x < eqTs.length → (taskRB eqTs x).Exact := by
  intro x hx
  have hx2 : x < 2 := hx
  have h01 : x = 0 ∨ x = 1 := by omega
  rcases h01 with rfl | rfl
  · rw [eqSys_taskRB]; exact tua_exact
  · have : taskRB eqTs 1 = tua := by simp [taskRB, eqTs, tua]
    rw [this]; exact tua_exact

/-- `fp_preemptive_sound_of_compliant` applies: every job of task 0 completes within 2 of its
release (and the bound is attained, `eqSys_attained`) -/
theorem eqSys_meets_task_set : ∀ j, j < eqSys.n → eqSys.task j = 0 → MeetsBound eqSys j 2 :=
  fp_preemptive_sound_of_compliant eqSys eqTs eqPr 0 (by decide) eqTs_wf eqTs_exact
    eqSys_compliant eqSys_legal (fun _ _ h => h) (fun _ _ => le_refl _) 100 2
    (by rw [eqSys_taskRB, eqSys_hepOthers]; exact eqSys_result)

end RTA.Sched.FpEqExample
