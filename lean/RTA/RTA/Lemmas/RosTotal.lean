import RTA.Props.C07
import RTA.Lemmas.MonoRos
/-! # C20 for the ROS 2 analyses: totality (no failed assertion / underflow / guard on
well-formed input) and independence of the build profile.

Pattern: for `limit = 0` the first fixed-point search diverges (`RTA.C08.limit_zero_diverges`);
for `1 ≤ limit` the analysis equals its naive evaluator (`RTA.C07.*`), which by inspection
returns `.ok` or the divergence error of one of its linear-scan solvers. -/

namespace RTA.RosTotal
open RTA RTA.Spec RTA.RosNaiveLemmas RTA.MonoRosLemmas

theorem search_zero (s : Supply) (w : Nat → Nat) : search s 0 w = .div 0 0 := by
  unfold search
  exact RTA.C08.limit_zero_diverges s w 0

theorem naiveRosBound_ne_panic (s : Supply) (bwRhs : Nat → Nat) (offRhs : Nat → Nat → Nat)
    (limit : Nat) : naiveRosBound s bwRhs offRhs limit ≠ .panic := by
  unfold naiveRosBound
  rcases nss_cases s.sbf 0 bwRhs limit with ⟨L, hL⟩ | hd
  · rw [hL]
    apply naiveMax_ne_panic
    intro x hx
    rw [List.mem_map] at hx
    obtain ⟨A, _, rfl⟩ := hx
    exact nss_ne_panic _ _ _ _
  · rw [hd]; intro h; cases h

theorem naiveRosBoundOn_ne_panic (s : Supply) (bwRhs : Nat → Nat) (offRhs : Nat → Nat → Nat)
    (limit : Nat) (offsets : Nat → List Nat) :
    naiveRosBoundOn s bwRhs offRhs limit offsets ≠ .panic := by
  unfold naiveRosBoundOn
  rcases nss_cases s.sbf 0 bwRhs limit with ⟨L, hL⟩ | hd
  · rw [hL]
    apply naiveMax_ne_panic
    intro x hx
    rw [List.mem_map] at hx
    obtain ⟨A, _, rfl⟩ := hx
    exact nss_ne_panic _ _ _ _
  · rw [hd]; intro h; cases h

theorem rosBound_limit_zero (s : Supply) (demand : RB) (bwRhs : Nat → Nat)
    (offRhs : Nat → Nat → Nat) : rosBound s demand bwRhs offRhs 0 = .div 0 0 := by
  unfold rosBound
  rw [search_zero]

/-- the event-source analysis never panics -/
theorem event_source_total (s : Supply) (hs : s.WF) (demand : RB) (hwf : demand.ArrWF)
    (hex : demand.Exact) (limit : Nat) :
    rosEventSource s demand limit ≠ .panic := by
  rcases Nat.eq_zero_or_pos limit with h0 | hl
  · subst h0
    unfold rosEventSource
    rw [rosBound_limit_zero]
    intro h; cases h
  · rw [RTA.C07.event_source s hs demand hwf hex limit hl]
    exact naiveRosBound_ne_panic _ _ _ _

theorem all_lt_of_forall (wl : List Callback) (sub : List Nat) (hsub : ∀ i ∈ sub, i < wl.length) :
    sub.all (· < wl.length) = true := by
  rw [List.all_eq_true]
  intro i hi
  exact decide_eq_true (hsub i hi)

/-- the rr subchain analysis never panics (non-empty subchain of valid indices) -/
theorem rr_total (s : Supply) (hs : s.WF) (wl : List Callback) (sub : List Nat) (limit : Nat)
    (hne : sub ≠ []) (hsub : ∀ i ∈ sub, i < wl.length)
    (hwf : ∀ cb ∈ wl, cb.arr.WF ∧ MonoN cb.cost.ofJobs) :
    rrSubchain s wl sub limit ≠ .panic := by
  rcases Nat.eq_zero_or_pos limit with h0 | hl
  · subst h0
    unfold rrSubchain
    cases hg : sub.getLast? with
    | none => exact absurd (List.getLast?_eq_none_iff.mp hg) hne
    | some e =>
      simp only [all_lt_of_forall wl sub hsub, not_true_eq_false, if_false, search_zero]
      intro h; cases h
  · rw [RTA.C07.rr s hs wl sub limit hl hsub hwf]
    unfold naiveRr
    cases hg : sub.getLast? with
    | none => exact absurd (List.getLast?_eq_none_iff.mp hg) hne
    | some e =>
      simp only
      rcases nss_cases s.sbf 0 (rrRhs wl e (sumPPBound wl sub)) limit with ⟨L, hL⟩ | hd
      · rw [hL]; intro h; cases h
      · rw [hd]; intro h; cases h

theorem naiveBw_ne_panic (s : Supply) (wl : List Callback) (sub : List Nat) (limit : Nat)
    (hne : sub ≠ []) : naiveBw s wl sub limit ≠ .panic := by
  unfold naiveBw
  cases hg : sub.getLast? with
  | none => exact absurd (List.getLast?_eq_none_iff.mp hg) hne
  | some e =>
    simp only
    rcases nss_cases s.sbf 0 (fun ta => 1 + bwInterference wl e (wl.getD e default).kind
        (sumPPBound wl sub) ta ta + (wl.getD e default).cost.ofJobs ((wl.getD e default).arr.N ta))
        limit with ⟨L, hL⟩ | hd
    · rw [hL]
      apply naiveMax_ne_panic
      intro x hx
      rw [List.mem_map] at hx
      obtain ⟨A, _, rfl⟩ := hx
      exact naiveBwPer_ne_panic _ _ _ _ _ _ _
    · rw [hd]; intro h; cases h

/-- the bw subchain analysis never panics, in either build profile -/
theorem bw_total (s : Supply) (hs : s.WF) (wl : List Callback) (sub : List Nat) (limit : Nat)
    (hl : 1 ≤ limit) (hne : sub ≠ []) (hsub : ∀ i ∈ sub, i < wl.length)
    (hwf : ∀ cb ∈ wl, cb.arr.WF ∧ cb.arr.Exact ∧ MonoN cb.cost.ofJobs)
    (hpos : ∀ e, sub.getLast? = some e → 0 < (wl.getD e default).arr.N 1) (dbg : Bool) :
    bwSubchain s wl sub limit dbg ≠ .panic := by
  rw [RTA.C07.bw s hs wl sub limit hl hne hsub hwf hpos dbg]
  exact naiveBw_ne_panic s wl sub limit hne

/-- independence of the build profile: the debug build (with the brute-force cross-check of
the relevant steps) returns what the release build returns -/
theorem bw_profile_independent (s : Supply) (hs : s.WF) (wl : List Callback) (sub : List Nat)
    (limit : Nat) (hl : 1 ≤ limit) (hne : sub ≠ []) (hsub : ∀ i ∈ sub, i < wl.length)
    (hwf : ∀ cb ∈ wl, cb.arr.WF ∧ cb.arr.Exact ∧ MonoN cb.cost.ofJobs)
    (hpos : ∀ e, sub.getLast? = some e → 0 < (wl.getD e default).arr.N 1) :
    bwSubchain s wl sub limit true = bwSubchain s wl sub limit false := by
  rw [RTA.C07.bw s hs wl sub limit hl hne hsub hwf hpos true,
    RTA.C07.bw s hs wl sub limit hl hne hsub hwf hpos false]

/-- the timer analysis never panics -/
theorem timer_total (s : Supply) (hs : s.WF) (a : Arr) (C : Nat) (interf : RB)
    (hwf : a.WF) (hex : a.Exact) (hC : 1 ≤ C) (hpos : 0 < a.N 1) (hwfi : interf.ArrWF)
    (hexi : interf.Exact) (B limit : Nat) :
    rosTimer s (.rbf a (.scalar C)) interf B limit ≠ .panic := by
  rcases Nat.eq_zero_or_pos limit with h0 | hl
  · subst h0
    unfold rosTimer
    rw [rosBound_limit_zero]
    intro h; cases h
  · rw [RTA.C07.timer_partial s hs a C interf hwf hex hC hpos hwfi hexi B limit hl]
    exact naiveRosBoundOn_ne_panic _ _ _ _ _

/-- the polling-point analysis never panics -/
theorem polling_point_total (s : Supply) (hs : s.WF) (a : Arr) (C : Nat) (interf : RB)
    (hwf : a.WF) (hex : a.Exact) (hC : 1 ≤ C) (hpos : 0 < a.N 1) (hwfi : interf.ArrWF)
    (hexi : interf.Exact) (limit : Nat) :
    rosPollingPoint s (.rbf a (.scalar C)) interf limit ≠ .panic := by
  rcases Nat.eq_zero_or_pos limit with h0 | hl
  · subst h0
    unfold rosPollingPoint
    rw [rosBound_limit_zero]
    intro h; cases h
  · rw [RTA.C07.polling_point_partial s hs a C interf hwf hex hC hpos hwfi hexi limit hl]
    exact naiveRosBoundOn_ne_panic _ _ _ _ _

/-- the processing-chain analysis never panics -/
theorem chain_total (s : Supply) (hs : s.WF) (a : Arr) (C P : Nat) (others : RB)
    (hwf : a.WF) (hex : a.Exact) (hC : 1 ≤ C) (hP : 1 ≤ P) (hpos : 0 < a.N 1)
    (hwfo : others.ArrWF) (hexo : others.Exact) (limit : Nat) :
    rosChain s (.rbf a (.scalar C)) (.rbf a (.scalar P)) (.rbf a (.scalar (C + P))) others limit
      ≠ .panic := by
  rcases Nat.eq_zero_or_pos limit with h0 | hl
  · subst h0
    unfold rosChain
    rw [rosBound_limit_zero]
    intro h; cases h
  · rw [RTA.C07.chain_partial s hs a C P others hwf hex hC hP hpos hwfo hexo limit hl]
    exact naiveRosBoundOn_ne_panic _ _ _ _ _

end RTA.RosTotal
