import RTA.Lemmas.EdfSoundCompliant
import RTA.Lemmas.FpSoundCompliantExample
import RTA.Lemmas.FpSoundEqExample
/-! Non-vacuity of the EDF task-set level theorem `edf_preemptive_sound_of_compliant`: the
concrete system `eqSys` of `FpSoundEqExample` with equal relative deadlines (an EDF tie, broken
against the analysed task) complies with the task set `eqTs`, its schedule is legal for EDF,
and the analysis result applies. -/

open Finset Classical

namespace RTA.Sched.FpEqExample
open RTA RTA.Spec RTA.Sched RTA.Sched.J

/-- both tasks have relative deadline 5: equal absolute deadlines, an EDF tie -/
def eqDl : ℕ → ℕ := fun _ => 5

/-- longest non-preemptive segment of either task (fully preemptive) -/
def eqSg : ℕ → ℕ := fun _ => 1

/-- the schedule of `eqSys` is legal for EDF with the deadlines `eqDl` -/
theorem eqSys_edf_legal : JlfpLegal eqSys (hepEDF eqSys eqDl) :=
  { toValid := eqSys_legal.toValid
    cont := eqSys_legal.cont
    prio := fun _ _ _ => Or.inr (fun _ _ _ => by simp [hepEDF, eqSys, eqDl]) }

/-- the analysis result for task 0: interference of one job of task 1 with the same absolute
deadline -/
theorem eqSys_edf_result :
    edfPreemptive (taskRB eqTs 0) (eqDl 0) (edfOthersOf eqTs eqDl eqSg 0) 100 = .ok 2 := by
  decide +kernel

/-- `edf_preemptive_sound_of_compliant` applies: every job of task 0 completes within 2 of its
release (and the bound is attained, `eqSys_attained`) -/
theorem eqSys_edf_meets : ∀ j, j < eqSys.n → eqSys.task j = 0 → MeetsBound eqSys j 2 :=
  edf_preemptive_sound_of_compliant eqSys eqTs eqDl eqSg 0 (by decide) eqTs_wf eqTs_exact
    eqSys_compliant eqSys_edf_legal (fun _ _ h => h) (fun _ _ => le_refl _) 100 2
    eqSys_edf_result

/-- the bound 2 obtained from the EDF analysis is attained by job 0 of `eqSys` -/
theorem eqSys_edf_attained : ¬ MeetsBound eqSys 0 1 ∧ MeetsBound eqSys 0 2 := eqSys_attained

end RTA.Sched.FpEqExample
