import Mathlib.Algebra.BigOperators.Group.Finset.Basic
import Mathlib.Algebra.BigOperators.Group.Finset.Piecewise
import Mathlib.Algebra.Order.BigOperators.Group.Finset
import Mathlib.Tactic.Linarith
import RTA.Spec.Sched
/-! C01/C02: abstract busy-window theorem for job-level fixed-priority scheduling with
non-preemptable states on an ideal uniprocessor (`blocked_bound`, `reach_rt`,
`run_to_completion`). -/

open Finset Classical

namespace RTA.Sched.J

variable (s : Sys)

/-- total cost of the jobs satisfying `p` (classical decidability) -/
noncomputable def workP (p : ℕ → Prop) : ℕ := ∑ k ∈ range s.n, if p k then s.cost k else 0
noncomputable def servedP (p : ℕ → Prop) (t : ℕ) : ℕ := ∑ k ∈ range s.n, if p k then svc s k t else 0

variable {s} {hep : ℕ → ℕ → Prop}

theorem svc_mono (j : ℕ) {a b : ℕ} (h : a ≤ b) : svc s j a ≤ svc s j b := by
  induction b, h using Nat.le_induction with
  | base => exact le_refl _
  | succ b _ ih => simp only [svc]; omega

theorem svc_le_cost (hl : JlfpLegal s hep) (j t : ℕ) : svc s j t ≤ s.cost j := by
  induction t with
  | zero => simp [svc]
  | succ t ih =>
    simp only [svc]
    by_cases h : s.sched t = some j
    · have := (hl.valid t j h).2.2
      simp [h]; omega
    · simp [h]; exact ih

theorem svc_zero_before (hl : JlfpLegal s hep) (j t : ℕ) (h : t ≤ s.arr j) : svc s j t = 0 := by
  induction t with
  | zero => rfl
  | succ t ih =>
    simp only [svc]
    have : s.sched t ≠ some j := by
      intro hs
      have := (hl.valid t j hs).2.1
      omega
    simp [this]; exact ih (by omega)

theorem done_mono (hl : JlfpLegal s hep) (j : ℕ) {a b : ℕ} (h : a ≤ b) (hd : svc s j a = s.cost j) :
    svc s j b = s.cost j := by
  have := svc_mono (s := s) j h
  have := svc_le_cost hl j b
  omega

theorem svc_run (k a : ℕ) : ∀ len, (∀ i < len, s.sched (a + i) = some k) →
    svc s k (a + len) = svc s k a + len := by
  intro len
  induction len with
  | zero => intro _; rfl
  | succ len ih =>
    intro h
    have := ih (fun i hi => h i (by omega))
    have e : a + (len + 1) = (a + len) + 1 := by omega
    rw [e]; simp only [svc]; rw [h len (by omega)]; simp; omega

theorem servedP_busy (p : ℕ → Prop) (a : ℕ) :
    ∀ len, (∀ u, a ≤ u → u < a + len → ∃ j, s.sched u = some j ∧ j < s.n ∧ p j) →
      servedP s p (a + len) = servedP s p a + len := by
  intro len
  induction len with
  | zero => intro _; simp
  | succ len ih =>
    intro h
    have ih' := ih (fun u h1 h2 => h u h1 (by omega))
    obtain ⟨j, hj, hjn, hjp⟩ := h (a + len) (by omega) (by omega)
    have : servedP s p (a + (len + 1)) = servedP s p (a + len) + 1 := by
      unfold servedP
      have e : a + (len + 1) = (a + len) + 1 := by omega
      rw [e]
      simp only [svc]
      have : ∀ k ∈ range s.n,
          (if p k then svc s k (a+len) + (if s.sched (a+len) = some k then 1 else 0) else 0)
          = (if p k then svc s k (a+len) else 0) + (if k = j then 1 else 0) := by
        intro k _
        by_cases hk : k = j
        · subst hk; simp [hj, hjp]
        · have : s.sched (a+len) ≠ some k := by rw [hj]; intro h; injection h with h; exact hk h.symm
          simp [this, hk]
      rw [sum_congr rfl this, sum_add_distrib]
      congr 1
      rw [sum_ite_eq']
      simp [hjn]
    rw [this, ih']; omega

theorem servedP_le_workP (hl : JlfpLegal s hep) (p : ℕ → Prop) (t : ℕ) : servedP s p t ≤ workP s p := by
  unfold servedP workP
  apply sum_le_sum
  intro k _
  split
  · exact svc_le_cost hl k t
  · exact le_refl _

theorem all_done_of_served_eq (hl : JlfpLegal s hep) (p : ℕ → Prop) (t : ℕ)
    (h : servedP s p t = workP s p) (k : ℕ) (hk : k < s.n) (hp : p k) : svc s k t = s.cost k := by
  unfold servedP workP at h
  have hle : ∀ i ∈ range s.n, (if p i then svc s i t else 0) ≤ (if p i then s.cost i else 0) := by
    intro i _
    split
    · exact svc_le_cost hl i t
    · exact le_refl _
  have := (sum_eq_sum_iff_of_le hle).1 h k (mem_range.2 hk)
  simpa [hp] using this

/-- service of a set, with one member `j` split off and bounded separately -/
theorem servedP_split (hl : JlfpLegal s hep) (p : ℕ → Prop) (j t : ℕ) (hj : j < s.n) :
    servedP s p t ≤ workP s (fun k => k ≠ j ∧ p k) + svc s j t := by
  unfold servedP workP
  have : ∀ k ∈ range s.n, (if p k then svc s k t else 0)
      ≤ (if (k ≠ j ∧ p k) then s.cost k else 0) + (if k = j then svc s j t else 0) := by
    intro k _
    by_cases hk : k = j
    · subst hk; simp; split <;> omega
    · simp [hk]; split
      · exact svc_le_cost hl k t
      · exact le_refl _
  calc _ ≤ ∑ k ∈ range s.n, ((if (k ≠ j ∧ p k) then s.cost k else 0) + (if k = j then svc s j t else 0)) :=
        sum_le_sum this
    _ = _ := by
      rw [sum_add_distrib, sum_ite_eq']
      simp only [mem_range, hj, if_true]
      congr 1
      refine sum_congr rfl (fun k _ => ?_)
      split_ifs <;> rfl

/-- quiet w.r.t. the jobs of higher-or-equal priority than `j` -/
def Quiet (s : Sys) (hep : ℕ → ℕ → Prop) (j t : ℕ) : Prop :=
  ∀ k < s.n, hep k j → s.arr k < t → svc s k t = s.cost k

/-- Within a stretch `[t0, X)` in which some hep-job is always pending, the slots that serve a
lower-priority job form an initial run of one job in non-preemptable states. -/
theorem blocked_bound (hl : JlfpLegal s hep) (htrans : ∀ a b c, hep a b → hep b c → hep a c)
    (j t0 X B : ℕ) (hq : Quiet s hep j t0)
    (hbusy : ∀ u, t0 ≤ u → u < X → ∃ k < s.n, hep k j ∧ Pending s k u)
    (Hb : ∀ l < s.n, ¬ hep l j → s.arr l < t0 → ∀ x len, (∀ i < len, s.np l (x + i)) → len ≤ B) :
    ∃ e, t0 ≤ e ∧ e ≤ t0 + B ∧
      ∀ u, e ≤ u → u < X → ∃ j', s.sched u = some j' ∧ j' < s.n ∧ hep j' j ∧ t0 ≤ s.arr j' ∧ s.arr j' ≤ u := by
  -- classification of each slot of the stretch
  have cls : ∀ u, t0 ≤ u → u < X → ∃ j', s.sched u = some j' ∧ j' < s.n ∧
      ((hep j' j ∧ t0 ≤ s.arr j' ∧ s.arr j' ≤ u) ∨
       (¬ hep j' j ∧ ∃ u', u = u' + 1 ∧ s.sched u' = some j' ∧ s.np j' (svc s j' u))) := by
    intro u h1 h2
    obtain ⟨k, hk, hkh, hkp⟩ := hbusy u h1 h2
    obtain ⟨j', hj'⟩ := hl.wc u ⟨k, hk, hkp⟩
    have hv := hl.valid u j' hj'
    refine ⟨j', hj', hv.1, ?_⟩
    have hepcase : hep j' j → (hep j' j ∧ t0 ≤ s.arr j' ∧ s.arr j' ≤ u) := by
      intro hh
      refine ⟨hh, ?_, hv.2.1⟩
      by_contra hlt
      have := done_mono hl j' h1 (hq j' hv.1 hh (by omega))
      have := hv.2.2
      omega
    by_cases hh : hep j' j
    · exact Or.inl (hepcase hh)
    · rcases hl.prio u j' hj' with ⟨u', hu', hs', hnp⟩ | hdec
      · exact Or.inr ⟨hh, u', hu', hs', hnp⟩
      · exact absurd (htrans _ _ _ (hdec k hk hkp) hkh) hh
  -- blocked slots are downward closed
  have down : ∀ u l, t0 < u → u < X → s.sched u = some l → ¬ hep l j → s.sched (u - 1) = some l := by
    intro u l h1 h2 hs hn
    obtain ⟨j', hj', _, h | ⟨_, u', hu', hs', _⟩⟩ := cls u (by omega) h2
    · rw [hs] at hj'; injection hj' with e; subst e; exact absurd h.1 hn
    · rw [hs] at hj'; injection hj' with e; subst e
      have : u - 1 = u' := by omega
      rw [this]; exact hs'
  have down_many : ∀ d u l, t0 ≤ u - d → d ≤ u → u < X → s.sched u = some l → ¬ hep l j →
      s.sched (u - d) = some l := by
    intro d
    induction d with
    | zero => intro u l _ _ _ hs _; simpa using hs
    | succ d ih =>
      intro u l h1 h2 h3 hs hn
      have h := ih u l (by omega) (by omega) h3 hs hn
      have := down (u - d) l (by omega) (by omega) h hn
      have e : u - d - 1 = u - (d + 1) := by omega
      rw [e] at this; exact this
  -- if no slot is blocked, e = t0
  by_cases hex : ∃ u, t0 ≤ u ∧ u < X ∧ ∃ l, s.sched u = some l ∧ ¬ hep l j
  · -- take the last blocked slot below X: use the largest via findGreatest
    let P := fun u => t0 ≤ u ∧ u < X ∧ ∃ l, s.sched u = some l ∧ ¬ hep l j
    obtain ⟨u0, hu0⟩ := hex
    have hX : 0 < X := by omega
    let g := Nat.findGreatest P (X - 1)
    have hg : P g := Nat.findGreatest_spec (P := P) (m := u0) (by omega) hu0
    have hgmax : ∀ u, g < u → u ≤ X - 1 → ¬ P u := fun u h1 h2 => Nat.findGreatest_is_greatest h1 h2
    obtain ⟨hg1, hg2, l, hgl, hgn⟩ := hg
    -- all slots t0..g are served by l
    have hall : ∀ i < g - t0 + 1, s.sched (t0 + i) = some l := by
      intro i hi
      have := down_many (g - (t0 + i)) g l (by omega) (by omega) hg2 hgl hgn
      have e : g - (g - (t0 + i)) = t0 + i := by omega
      rw [e] at this; exact this
    -- l arrived before t0 and its states are non-preemptable
    obtain ⟨j0, hj0, hj0n, h0 | ⟨_, u', hu', hs', hnp0⟩⟩ := cls t0 (le_refl _) (by omega)
    · have := hall 0 (by omega)
      simp at this
      rw [this] at hj0; injection hj0 with e; subst e; exact absurd h0.1 hgn
    · have hl0 := hall 0 (by omega)
      simp at hl0
      rw [hl0] at hj0; injection hj0 with e; subst e
      have harr : s.arr l < t0 := by
        have := (hl.valid u' l hs').2.1
        omega
      have hnp : ∀ i < g - t0 + 1, s.np l (svc s l t0 + i) := by
        intro i hi
        have hrun := svc_run (s := s) l t0 i (fun i' hi' => hall i' (by omega))
        obtain ⟨j1, hj1, _, h1 | ⟨_, u1, hu1, hs1, hnp1⟩⟩ := cls (t0 + i) (by omega) (by omega)
        · rw [hall i hi] at hj1; injection hj1 with e; subst e; exact absurd h1.1 hgn
        · rw [hall i hi] at hj1; injection hj1 with e; subst e
          rw [hrun] at hnp1; exact hnp1
      have hlen := Hb l hj0n hgn harr (svc s l t0) (g - t0 + 1) hnp
      refine ⟨g + 1, by omega, by omega, ?_⟩
      intro u h1 h2
      obtain ⟨j', hj', hjn, h | ⟨hn, _⟩⟩ := cls u (by omega) h2
      · exact ⟨j', hj', hjn, h⟩
      · exact absurd ⟨by omega, h2, j', hj', hn⟩ (hgmax u (by omega) (by omega))
  · refine ⟨t0, le_refl _, by omega, ?_⟩
    intro u h1 h2
    obtain ⟨j', hj', hjn, h | ⟨hn, _⟩⟩ := cls u h1 h2
    · exact ⟨j', hj', hjn, h⟩
    · exact absurd ⟨u, h1, h2, j', hj', hn⟩ hex

/-- Abstract busy-window theorem: by `t0 + AF` job `j` has received `rt` units of service. -/
theorem reach_rt (hl : JlfpLegal s hep) (htrans : ∀ a b c, hep a b → hep b c → hep a c)
    (hrefl : ∀ a, hep a a)
    (j : ℕ) (hj : j < s.n) (t0 : ℕ) (hq : Quiet s hep j t0) (ht0 : t0 ≤ s.arr j)
    (hmax : ∀ t, t0 < t → t ≤ s.arr j → ¬ Quiet s hep j t)
    (rt B IBF AF : ℕ) (hrt : rt ≤ s.cost j)
    (Hb : ∀ l < s.n, ¬ hep l j → s.arr l < t0 → ∀ x len, (∀ i < len, s.np l (x + i)) → len ≤ B)
    (Hw : workP s (fun k => k ≠ j ∧ (hep k j ∧ t0 ≤ s.arr k ∧ s.arr k < t0 + AF)) ≤ IBF)
    (HAF : B + IBF + rt ≤ AF) : rt ≤ svc s j (t0 + AF) := by
  by_contra hlt
  have hlt : svc s j (t0 + AF) < rt := by omega
  have hbusy : ∀ u, t0 ≤ u → u < t0 + AF → ∃ k < s.n, hep k j ∧ Pending s k u := by
    intro u h1 h2
    by_cases hu : u < s.arr j
    · have hnq := hmax (u+1) (by omega) (by omega)
      unfold Quiet at hnq
      push Not at hnq
      obtain ⟨k, hk, hkh, hka, hkn⟩ := hnq
      refine ⟨k, hk, hkh, by omega, ?_⟩
      have := svc_le_cost hl k (u+1)
      have := svc_mono (s := s) k (show u ≤ u + 1 by omega)
      omega
    · refine ⟨j, hj, hrefl j, by omega, ?_⟩
      have := svc_mono (s := s) j (show u ≤ t0 + AF by omega)
      omega
  obtain ⟨e, he1, he2, hserve⟩ := blocked_bound hl htrans j t0 (t0 + AF) B hq hbusy Hb
  let p := fun k => hep k j ∧ t0 ≤ s.arr k ∧ s.arr k < t0 + AF
  by_cases heX : t0 + AF ≤ e
  · omega
  · have hb := servedP_busy (s := s) p e (t0 + AF - e) (by
      intro u h1 h2
      obtain ⟨j', a, b, c, d, f⟩ := hserve u h1 (by omega)
      exact ⟨j', a, b, c, d, by omega⟩)
    have e1 : e + (t0 + AF - e) = t0 + AF := by omega
    rw [e1] at hb
    have hsplit := servedP_split hl p j (t0 + AF) hj
    have Hw' : workP s (fun k => k ≠ j ∧ p k) ≤ IBF := Hw
    omega

/-- once `j` has reached a service level from which it is non-preemptable until completion,
it completes `cost - level` slots later -/
theorem run_to_completion (hl : JlfpLegal s hep) (j : ℕ) (rt : ℕ)
    (hnp : ∀ x, rt ≤ x → x < s.cost j → s.np j x) (hrt0 : 0 < rt) :
    ∀ t, rt ≤ svc s j t → svc s j (t + (s.cost j - rt)) = s.cost j := by
  -- first, whenever 0 < rt ≤ svc < cost at time t, j runs at t
  have runs : ∀ t, rt ≤ svc s j t → svc s j t < s.cost j → s.sched t = some j := by
    intro t
    induction t with
    | zero => intro h; simp [svc] at h; omega
    | succ t ih =>
      intro h1 h2
      by_cases hs : s.sched t = some j
      · exact hl.cont t j hs h2 (hnp _ h1 h2)
      · have e : svc s j (t+1) = svc s j t := by simp [svc, hs]
        rw [e] at h1 h2
        have hst := ih h1 h2
        exact absurd hst hs
  -- service grows by one per slot until the cost is reached
  have grow : ∀ d t, rt ≤ svc s j t → svc s j t + d ≤ s.cost j → svc s j (t + d) = svc s j t + d := by
    intro d
    induction d with
    | zero => intro t _ _; rfl
    | succ d ih =>
      intro t h1 h2
      have h := ih t h1 (by omega)
      have hr := runs (t + d) (by omega) (by omega)
      have e : t + (d + 1) = (t + d) + 1 := by omega
      rw [e]; simp only [svc]; rw [hr]; simp; omega
  intro t ht
  have hle := svc_le_cost hl j t
  have h := grow (s.cost j - svc s j t) t ht (by omega)
  have := done_mono hl j (show t + (s.cost j - svc s j t) ≤ t + (s.cost j - rt) by omega) (by omega)
  exact this




end RTA.Sched.J
