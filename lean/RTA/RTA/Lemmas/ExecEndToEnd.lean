import RTA.Lemmas.ExecRunMeets
import RTA.Lemmas.TimerSound
import RTA.Lemmas.RrSound
import RTA.Lemmas.BwSound
/-! End-to-end soundness of the ROS 2 analyses over the executor transition system, with every
hypothesis stated on the INPUTS of the run (callback table `cbs`, supply process `sigma`,
release pattern `rels`, arrival curves) and the conclusion on the completions that the
executable `Exec.run` reports — no reference to the derived job system `Exec.toSys`.

`relCount rels k t d` = number of releases of callback `k` in the window `[t, t + d)`. -/

namespace RTA.Exec
open RTA RTA.Sched RTA.Spec

/-- number of releases of callback `k` in the slots `[t, t + d)` -/
def relCount (rels : ℕ → List ℕ) (k t d : ℕ) : ℕ :=
  ((List.range d).map fun u => (rels (t + u)).count k).sum

/-- the jobs of callback `k` of the run's job system released in a window are the releases of `k`
in that window -/
theorem countOf_toSys_le (cbs : List Cb) (sigma : ℕ → Bool) (rels : ℕ → List ℕ) (H k t d : ℕ) :
    countOf (toSys cbs sigma rels H) k t (t + d) ≤ relCount rels k t d := by
  sorry

/-- the work of the callbacks in `ts` released in a window is bounded by the releases in that window
times the callbacks' costs -/
theorem workOf_toSys_le (cbs : List Cb) (sigma : ℕ → Bool) (rels : ℕ → List ℕ) (H : ℕ)
    (hidx : ∀ t, ∀ i ∈ rels t, i < cbs.length)
    (ts : ℕ → Prop) [DecidablePred ts] (t d : ℕ) :
    workOf (toSys cbs sigma rels H) ts t (t + d) ≤
      (((List.range cbs.length).filter fun k => decide (ts k)).map fun k =>
        relCount rels k t d * (cbs.getD k default).cost).sum := by
  sorry

/-- **timer, end to end.**  For every callback table, every supply process delivering at least
`sup.sbf` per window, every release pattern within the (exact, well-formed) arrival curves `arrs`:
if `rta_timer`, given the analysed timer's curve and cost, the higher-priority timers as
interference and `B` at least the cost − 1 of every other callback, returns `Ok(R)`, then every
completion of the timer reported by `Exec.run` is within `R` of its release. -/
theorem timer_exec_sound (cbs : List Cb) (sigma : ℕ → Bool) (rels : ℕ → List ℕ) (H i : ℕ)
    (hi : i < cbs.length) (hti : (cbs.getD i default).isTimer = true)
    (hidx : ∀ t, ∀ i ∈ rels t, i < cbs.length) (hfin : ∀ t, H ≤ t → rels t = [])
    (hcb : ∀ c ∈ cbs, 1 ≤ c.cost)
    (hdist : ∀ k, k < cbs.length → k ≠ i → (cbs.getD k default).isTimer = true →
      (cbs.getD k default).prio ≠ (cbs.getD i default).prio)
    (sup : Supply) (hs : sup.WF) (hsbf : ∀ t d, sup.sbf d ≤ service sigma t d)
    (arrs : List Arr) (hlen : arrs.length = cbs.length) (hwf : ∀ a ∈ arrs, a.WF ∧ a.Exact)
    (hrel : ∀ k, k < cbs.length → ∀ t d, relCount rels k t d ≤ (arrs.getD k default).N d)
    (B : ℕ)
    (hB : ∀ k, k < cbs.length → k ≠ i →
      ¬ ((cbs.getD k default).isTimer = true ∧ (cbs.getD k default).prio < (cbs.getD i default).prio) →
      (cbs.getD k default).cost ≤ B + 1)
    (limit R : ℕ)
    (hR : rosTimer sup (.rbf (arrs.getD i default) (.scalar (cbs.getD i default).cost))
      (.agg (((List.range cbs.length).filter fun k =>
          (cbs.getD k default).isTimer && decide ((cbs.getD k default).prio < (cbs.getD i default).prio)).map
        fun k => .rbf (arrs.getD k default) (.scalar (cbs.getD k default).cost))) B limit = .ok R)
    (n : ℕ) :
    ∀ o ∈ Exec.run cbs (fun _ => none) ((List.range n).map sigma) rels, o.1 = i → o.2.2 ≤ o.2.1 + R := by
  sorry

/-- **polling-point callback, end to end**: interference = all other callbacks -/
theorem pollingPoint_exec_sound (cbs : List Cb) (sigma : ℕ → Bool) (rels : ℕ → List ℕ) (H i : ℕ)
    (hi : i < cbs.length)
    (hidx : ∀ t, ∀ i ∈ rels t, i < cbs.length) (hfin : ∀ t, H ≤ t → rels t = [])
    (hcb : ∀ c ∈ cbs, 1 ≤ c.cost)
    (sup : Supply) (hs : sup.WF) (hsbf : ∀ t d, sup.sbf d ≤ service sigma t d)
    (arrs : List Arr) (hlen : arrs.length = cbs.length) (hwf : ∀ a ∈ arrs, a.WF ∧ a.Exact)
    (hrel : ∀ k, k < cbs.length → ∀ t d, relCount rels k t d ≤ (arrs.getD k default).N d)
    (limit R : ℕ)
    (hR : rosPollingPoint sup (.rbf (arrs.getD i default) (.scalar (cbs.getD i default).cost))
      (.agg (((List.range cbs.length).filter fun k => decide (k ≠ i)).map
        fun k => .rbf (arrs.getD k default) (.scalar (cbs.getD k default).cost))) limit = .ok R)
    (n : ℕ) :
    ∀ o ∈ Exec.run cbs (fun _ => none) ((List.range n).map sigma) rels, o.1 = i → o.2.2 ≤ o.2.1 + R := by
  sorry

/-- **rr, end to end** (singleton subchains): the workload `wl` describes the callback table
(kinds, priorities, scalar costs), releases are within the arrival curves, and the vector of
assumed bounds reproduces itself; then every completion reported by `Exec.run` is within the
assumed bound of its callback -/
theorem rr_exec_sound (cbs : List Cb) (sigma : ℕ → Bool) (rels : ℕ → List ℕ) (H : ℕ)
    (hidx : ∀ t, ∀ i ∈ rels t, i < cbs.length) (hfin : ∀ t, H ≤ t → rels t = [])
    (hcb : ∀ c ∈ cbs, 1 ≤ c.cost)
    (sup : Supply) (hs : sup.WF) (hsbf : ∀ t d, sup.sbf d ≤ service sigma t d)
    (wl : List Callback) (hlen : wl.length = cbs.length)
    (hscalar : ∀ i, i < wl.length → (wl.getD i default).cost = .scalar (cbs.getD i default).cost)
    (hwf : ∀ cb ∈ wl, cb.arr.WF)
    (hkinds : KindsAgree wl (toInfo cbs sigma rels))
    (hprio : ∀ i j, i < cbs.length → j < cbs.length → (cbs.getD i default).isTimer = false →
      (cbs.getD j default).isTimer = false → (cbs.getD i default).prio = (cbs.getD j default).prio → i = j)
    (hrel : ∀ k, k < cbs.length → ∀ t d, relCount rels k t d ≤ (wl.getD k default).arr.N d)
    (limit : ℕ)
    (hself : ∀ i, i < wl.length → ∃ R, rrSubchain sup wl [i] limit = .ok R ∧ R ≤ (wl.getD i default).rtb)
    (n i : ℕ) :
    ∀ o ∈ Exec.run cbs (fun _ => none) ((List.range n).map sigma) rels, o.1 = i →
      o.2.2 ≤ o.2.1 + (wl.getD i default).rtb := by
  sorry

/-- **bw, end to end** (singleton subchains) -/
theorem bw_exec_sound (cbs : List Cb) (sigma : ℕ → Bool) (rels : ℕ → List ℕ) (H : ℕ)
    (hidx : ∀ t, ∀ i ∈ rels t, i < cbs.length) (hfin : ∀ t, H ≤ t → rels t = [])
    (hcb : ∀ c ∈ cbs, 1 ≤ c.cost)
    (sup : Supply) (hs : sup.WF) (hsbf : ∀ t d, sup.sbf d ≤ service sigma t d)
    (wl : List Callback) (hlen : wl.length = cbs.length)
    (hscalar : ∀ i, i < wl.length → (wl.getD i default).cost = .scalar (cbs.getD i default).cost)
    (hwf : ∀ cb ∈ wl, cb.arr.WF ∧ cb.arr.Exact)
    (hkinds : KindsAgree wl (toInfo cbs sigma rels))
    (hprio : ∀ i j, i < cbs.length → j < cbs.length → (cbs.getD i default).isTimer = false →
      (cbs.getD j default).isTimer = false → (cbs.getD i default).prio = (cbs.getD j default).prio → i = j)
    (hrel : ∀ k, k < cbs.length → ∀ t d, relCount rels k t d ≤ (wl.getD k default).arr.N d)
    (limit : ℕ) (dbg : Bool)
    (hself : ∀ i, i < wl.length → ∃ R, bwSubchain sup wl [i] limit dbg = .ok R ∧ R ≤ (wl.getD i default).rtb)
    (n i : ℕ) :
    ∀ o ∈ Exec.run cbs (fun _ => none) ((List.range n).map sigma) rels, o.1 = i →
      o.2.2 ≤ o.2.1 + (wl.getD i default).rtb := by
  sorry

end RTA.Exec
