import RTA.Lemmas.ExecRunMeets
import RTA.Lemmas.TimerSound
import RTA.Lemmas.RrSound
import RTA.Lemmas.BwSound
/-! End-to-end soundness of the ROS 2 analyses over the executor transition system, with every
hypothesis stated on the INPUTS of the run (callback table `cbs`, supply process `sigma`,
release pattern `rels`, arrival curves) and the conclusion on the completions that the
executable `Exec.run` reports — no reference to the derived job system `Exec.toSys`.

`relCount rels k t d` = number of releases of callback `k` in the window `[t, t + d)`. -/

namespace RTA.Exec
open RTA RTA.Sched RTA.Spec

/-- number of releases of callback `k` in the slots `[t, t + d)` -/
def relCount (rels : ℕ → List ℕ) (k t d : ℕ) : ℕ :=
  ((List.range d).map fun u => (rels (t + u)).count k).sum

end RTA.Exec

namespace RTA.Exec.EndToEndLemmas
open RTA RTA.Sched RTA.Spec RTA.Exec Finset

theorem sum_range_getD {α} (f : α → ℕ) (d : α) : ∀ l : List α,
    ∑ k ∈ range l.length, f (l.getD k d) = (l.map f).sum := by
  intro l
  induction l with
  | nil => simp
  | cons a l ih =>
    rw [List.length_cons, Finset.sum_range_succ', List.map_cons, List.sum_cons, ← ih]
    simp [Nat.add_comm]

theorem list_range_sum (f : ℕ → ℕ) : ∀ n, ((List.range n).map f).sum = ∑ i ∈ range n, f i := by
  intro n
  induction n with
  | zero => simp
  | succ n ih => rw [List.range_succ, List.map_append, List.sum_append, ih, Finset.sum_range_succ]; simp

theorem list_filter_sum (p : ℕ → Bool) (g : ℕ → ℕ) : ∀ n,
    (((List.range n).filter p).map g).sum = ∑ k ∈ range n, if p k = true then g k else 0 := by
  intro n
  induction n with
  | zero => simp
  | succ n ih =>
    rw [List.range_succ, List.filter_append, List.map_append, List.sum_append, ih,
      Finset.sum_range_succ]
    cases hp : p n <;> simp [hp]

/-- weighted sum over the release events = sum over the slots -/
theorem events_sum (rels : ℕ → List ℕ) (w : ℕ × ℕ → ℕ) : ∀ H,
    ((events rels H).map w).sum = ∑ u ∈ range H, ((rels u).map fun i => w (u, i)).sum := by
  intro H
  induction H with
  | zero => simp [events]
  | succ H ih =>
    rw [RefineLemmas.events_succ, List.map_append, List.sum_append, ih, Finset.sum_range_succ,
      List.map_map]
    rfl

theorem window_sum_le (f : ℕ → ℕ) (H t d : ℕ) :
    ∑ u ∈ range H, (if t ≤ u ∧ u < t + d then f u else 0) ≤ ∑ v ∈ range d, f (t + v) := by
  rw [← Finset.sum_filter]
  have e : ∑ v ∈ range d, f (t + v) = ∑ u ∈ (range d).image (fun v => t + v), f u := by
    rw [Finset.sum_image]
    intro a _ b _ h
    simpa using h
  rw [e]
  apply Finset.sum_le_sum_of_subset
  intro u hu
  simp only [Finset.mem_filter, Finset.mem_range] at hu
  simp only [Finset.mem_image, Finset.mem_range]
  exact ⟨u - t, by omega, by omega⟩

/-- the general counting lemma: a weighted sum over the jobs of `toSys` released in the window -/
theorem toSys_sum_le (cbs : List Cb) (sigma : ℕ → Bool) (rels : ℕ → List ℕ) (H t d : ℕ)
    (P : ℕ → Prop) [DecidablePred P] (c : ℕ → ℕ) :
    (∑ k ∈ range (toSys cbs sigma rels H).n,
      if P ((toSys cbs sigma rels H).task k) ∧ t ≤ (toSys cbs sigma rels H).arr k ∧
          (toSys cbs sigma rels H).arr k < t + d
        then c ((toSys cbs sigma rels H).task k) else 0) ≤
    ∑ v ∈ range d, ((rels (t + v)).map fun i => if P i then c i else 0).sum := by
  have e1 := sum_range_getD
    (fun e : ℕ × ℕ => if P e.2 ∧ t ≤ e.1 ∧ e.1 < t + d then c e.2 else 0) (0, 0) (events rels H)
  have e2 := events_sum rels
    (fun e : ℕ × ℕ => if P e.2 ∧ t ≤ e.1 ∧ e.1 < t + d then c e.2 else 0) H
  have e3 := window_sum_le (fun u => ((rels u).map fun i => if P i then c i else 0).sum) H t d
  show (∑ k ∈ range (events rels H).length,
      if P ((events rels H).getD k (0, 0)).2 ∧ t ≤ ((events rels H).getD k (0, 0)).1 ∧
        ((events rels H).getD k (0, 0)).1 < t + d then c ((events rels H).getD k (0, 0)).2 else 0) ≤ _
  rw [e1, e2]
  refine Nat.le_trans (Nat.le_of_eq ?_) e3
  apply Finset.sum_congr rfl
  intro u _
  by_cases hu : t ≤ u ∧ u < t + d
  · rw [if_pos hu]
    congr 1
    apply List.map_congr_left
    intro i _
    simp [hu]
  · rw [if_neg hu]
    apply List.sum_eq_zero
    intro x hx
    simp only [List.mem_map] at hx
    obtain ⟨i, _, rfl⟩ := hx
    rw [if_neg (fun h => hu h.2)]

theorem count_eq_sum (k : ℕ) : ∀ l : List ℕ,
    (l.map fun i => if i = k then 1 else 0).sum = l.count k := by
  intro l
  induction l with
  | nil => simp
  | cons a l ih =>
    rw [List.map_cons, List.sum_cons, ih, List.count_cons]
    by_cases h : a = k
    · subst h; simp; omega
    · have : ¬ (a == k) = true := by simpa using h
      simp [h]

theorem relCount_eq (rels : ℕ → List ℕ) (k t d : ℕ) :
    relCount rels k t d = ∑ v ∈ range d, (rels (t + v)).count k := by
  unfold relCount
  exact list_range_sum _ d

/-- grouping the releases of a slot by callback -/
theorem group_sum (n : ℕ) (P : ℕ → Prop) [DecidablePred P] (c : ℕ → ℕ) : ∀ l : List ℕ,
    (∀ i ∈ l, i < n) →
    (l.map fun i => if P i then c i else 0).sum =
      ∑ k ∈ range n, if P k then l.count k * c k else 0 := by
  intro l
  induction l with
  | nil => intro _; simp
  | cons a l ih =>
    intro hl
    have ha : a < n := hl a (by simp)
    rw [List.map_cons, List.sum_cons, ih (fun i hi => hl i (List.mem_cons_of_mem _ hi))]
    have : ∀ k, (if P k then (a :: l).count k * c k else 0) =
        (if k = a then (if P k then c k else 0) else 0) + (if P k then l.count k * c k else 0) := by
      intro k
      rw [List.count_cons]
      by_cases hk : k = a
      · subst hk
        by_cases hp : P k
        · simp [hp, Nat.add_mul]; omega
        · simp [hp]
      · have : ¬ (a == k) = true := by simpa using fun h => hk h.symm
        simp [hk, this]
    rw [Finset.sum_congr rfl (fun k _ => this k), Finset.sum_add_distrib, Finset.sum_ite_eq']
    simp [ha]

end RTA.Exec.EndToEndLemmas

namespace RTA.Exec
open RTA RTA.Sched RTA.Spec

/-- the jobs of callback `k` of the run's job system released in a window are the releases of `k`
in that window -/
theorem countOf_toSys_le (cbs : List Cb) (sigma : ℕ → Bool) (rels : ℕ → List ℕ) (H k t d : ℕ) :
    countOf (toSys cbs sigma rels H) k t (t + d) ≤ relCount rels k t d := by
  have h := EndToEndLemmas.toSys_sum_le cbs sigma rels H t d (fun i => i = k) (fun _ => 1)
  unfold countOf
  rw [Finset.card_filter, EndToEndLemmas.relCount_eq]
  refine Nat.le_trans h (Nat.le_of_eq ?_)
  apply Finset.sum_congr rfl
  intro v _
  exact EndToEndLemmas.count_eq_sum k _

/-- the work of the callbacks in `ts` released in a window is bounded by the releases in that window
times the callbacks' costs -/
theorem workOf_toSys_le (cbs : List Cb) (sigma : ℕ → Bool) (rels : ℕ → List ℕ) (H : ℕ)
    (hidx : ∀ t, ∀ i ∈ rels t, i < cbs.length)
    (ts : ℕ → Prop) [DecidablePred ts] (t d : ℕ) :
    workOf (toSys cbs sigma rels H) ts t (t + d) ≤
      (((List.range cbs.length).filter fun k => decide (ts k)).map fun k =>
        relCount rels k t d * (cbs.getD k default).cost).sum := by
  have h := EndToEndLemmas.toSys_sum_le cbs sigma rels H t d ts (fun i => (cbs.getD i default).cost)
  refine Nat.le_trans h (Nat.le_of_eq ?_)
  rw [EndToEndLemmas.list_filter_sum]
  rw [Finset.sum_congr rfl (fun v _ => EndToEndLemmas.group_sum cbs.length ts
    (fun i => (cbs.getD i default).cost) (rels (t + v)) (hidx (t + v)))]
  rw [Finset.sum_comm]
  apply Finset.sum_congr rfl
  intro k _
  by_cases hk : ts k
  · simp only [hk, if_true, decide_true]
    rw [EndToEndLemmas.relCount_eq, Finset.sum_mul]
  · simp [hk]

end RTA.Exec

namespace RTA.Exec.EndToEndLemmas
open RTA RTA.Sched RTA.Spec RTA.Exec Finset

theorem getD_mem' {α} [Inhabited α] (l : List α) (k : ℕ) (hk : k < l.length) :
    l.getD k default ∈ l := by
  rw [List.getD_eq_getElem?_getD, List.getElem?_eq_getElem hk, Option.getD_some]
  exact List.getElem_mem _

theorem scalar_strictPos (c : ℕ) (hc : 1 ≤ c) : (Cost.scalar c).StrictPos := by
  intro n
  show c * n < c * (n + 1)
  rw [Nat.mul_succ]; omega

theorem agg_wf (arrs : List Arr) (n : ℕ) (hlen : arrs.length = n)
    (hwf : ∀ a ∈ arrs, a.WF ∧ a.Exact) (c : ℕ → ℕ) (hc : ∀ k, k < n → 1 ≤ c k) :
    ∀ ks : List ℕ, (∀ k ∈ ks, k < n) →
      RB.ArrWFList (ks.map fun k => .rbf (arrs.getD k default) (.scalar (c k))) ∧
      RB.ExactList (ks.map fun k => .rbf (arrs.getD k default) (.scalar (c k))) := by
  intro ks
  induction ks with
  | nil => intro _; simp [RB.ArrWFList, RB.ExactList]
  | cons a ks ih =>
    intro h
    have ha : a < n := h a (by simp)
    have hm := hwf _ (getD_mem' arrs a (by omega))
    have := ih (fun k hk => h k (List.mem_cons_of_mem _ hk))
    simp only [List.map_cons, RB.ArrWFList, RB.ExactList, RB.ArrWF, RB.Exact]
    exact ⟨⟨hm.1, this.1⟩, ⟨hm.2, scalar_strictPos _ (hc a ha)⟩, this.2⟩

theorem need_le (arrs : List Arr) (n : ℕ) (rels : ℕ → List ℕ) (c : ℕ → ℕ) (t d : ℕ)
    (hrel : ∀ k, k < n → relCount rels k t d ≤ (arrs.getD k default).N d) :
    ∀ ks : List ℕ, (∀ k ∈ ks, k < n) →
      (ks.map fun k => relCount rels k t d * c k).sum ≤
        RB.needList (ks.map fun k => .rbf (arrs.getD k default) (.scalar (c k))) d := by
  intro ks
  induction ks with
  | nil => intro _; simp [RB.needList]
  | cons a ks ih =>
    intro h
    have ha : a < n := h a (by simp)
    have := ih (fun k hk => h k (List.mem_cons_of_mem _ hk))
    simp only [List.map_cons, List.sum_cons, RB.needList, RB.need, Cost.ofJobs]
    have h1 : relCount rels a t d * c a ≤ c a * (arrs.getD a default).N d := by
      rw [Nat.mul_comm]; exact Nat.mul_le_mul_left _ (hrel a ha)
    omega

theorem relCount_zero (rels : ℕ → List ℕ) (n : ℕ) (hidx : ∀ t, ∀ i ∈ rels t, i < n)
    (k : ℕ) (hk : n ≤ k) (t d : ℕ) : relCount rels k t d = 0 := by
  unfold relCount
  apply List.sum_eq_zero
  intro x hx
  simp only [List.mem_map, List.mem_range] at hx
  obtain ⟨u, _, rfl⟩ := hx
  apply List.count_eq_zero.2
  intro hm
  have := hidx _ _ hm
  omega

theorem mem_filter_range_lt (n : ℕ) (p : ℕ → Bool) : ∀ k ∈ (List.range n).filter p, k < n := by
  intro k hk
  exact List.mem_range.1 (List.mem_filter.1 hk).1

end RTA.Exec.EndToEndLemmas

namespace RTA.Exec
open RTA RTA.Sched RTA.Spec

/-- **timer, end to end.**  For every callback table, every supply process delivering at least
`sup.sbf` per window, every release pattern within the (exact, well-formed) arrival curves `arrs`:
if `rta_timer`, given the analysed timer's curve and cost, the higher-priority timers as
interference and `B` at least the cost − 1 of every other callback, returns `Ok(R)`, then every
completion of the timer reported by `Exec.run` is within `R` of its release. -/
theorem timer_exec_sound (cbs : List Cb) (sigma : ℕ → Bool) (rels : ℕ → List ℕ) (H i : ℕ)
    (hi : i < cbs.length) (hti : (cbs.getD i default).isTimer = true)
    (hidx : ∀ t, ∀ i ∈ rels t, i < cbs.length) (hfin : ∀ t, H ≤ t → rels t = [])
    (hcb : ∀ c ∈ cbs, 1 ≤ c.cost)
    (hdist : ∀ k, k < cbs.length → k ≠ i → (cbs.getD k default).isTimer = true →
      (cbs.getD k default).prio ≠ (cbs.getD i default).prio)
    (sup : Supply) (hs : sup.WF) (hsbf : ∀ t d, sup.sbf d ≤ service sigma t d)
    (arrs : List Arr) (hlen : arrs.length = cbs.length) (hwf : ∀ a ∈ arrs, a.WF ∧ a.Exact)
    (hrel : ∀ k, k < cbs.length → ∀ t d, relCount rels k t d ≤ (arrs.getD k default).N d)
    (B : ℕ)
    (hB : ∀ k, k < cbs.length → k ≠ i →
      ¬ ((cbs.getD k default).isTimer = true ∧ (cbs.getD k default).prio < (cbs.getD i default).prio) →
      (cbs.getD k default).cost ≤ B + 1)
    (limit R : ℕ)
    (hR : rosTimer sup (.rbf (arrs.getD i default) (.scalar (cbs.getD i default).cost))
      (.agg (((List.range cbs.length).filter fun k =>
          (cbs.getD k default).isTimer && decide ((cbs.getD k default).prio < (cbs.getD i default).prio)).map
        fun k => .rbf (arrs.getD k default) (.scalar (cbs.getD k default).cost))) B limit = .ok R)
    (n : ℕ) :
    ∀ o ∈ Exec.run cbs (fun _ => none) ((List.range n).map sigma) rels, o.1 = i → o.2.2 ≤ o.2.1 + R := by
  have hkslt := EndToEndLemmas.mem_filter_range_lt cbs.length (fun k =>
    (cbs.getD k default).isTimer && decide ((cbs.getD k default).prio < (cbs.getD i default).prio))
  have hcpos : ∀ k, k < cbs.length → 1 ≤ (cbs.getD k default).cost :=
    fun k hk => hcb _ (EndToEndLemmas.getD_mem' cbs k hk)
  have hagg := EndToEndLemmas.agg_wf arrs cbs.length hlen hwf (fun k => (cbs.getD k default).cost)
    hcpos _ hkslt
  have hai := hwf _ (EndToEndLemmas.getD_mem' arrs i (by omega))
  refine run_meets_of_sys cbs sigma rels H hidx hfin hcb i R ?_ n
  refine timer_sound _ sigma i _ (run_timer_legal cbs sigma rels H i hi hti hidx hfin hcb hdist)
    (fun h => Nat.lt_irrefl _ h.2) sup hs hsbf (arrs.getD i default) (cbs.getD i default).cost
    hai.1 hai.2 (hcpos i hi) _ (by simp only [RB.ArrWF]; exact hagg.1)
    (by simp only [RB.Exact]; exact hagg.2) B ?_ ?_ ?_ ?_ limit R hR
  · exact fun t d => Nat.le_trans (countOf_toSys_le cbs sigma rels H i t d) (hrel i hi t d)
  · intro k _ hk
    show (cbs.getD ((toSys cbs sigma rels H).task k) default).cost ≤ _
    rw [hk]
  · intro t d
    refine Nat.le_trans (workOf_toSys_le cbs sigma rels H hidx _ t d) ?_
    simp only [RB.need]
    have e : (fun k => decide ((cbs.getD k default).isTimer = true ∧
        (cbs.getD k default).prio < (cbs.getD i default).prio)) =
        (fun k => (cbs.getD k default).isTimer &&
          decide ((cbs.getD k default).prio < (cbs.getD i default).prio)) := by
      funext k; simp [Bool.decide_and]
    rw [e]
    exact EndToEndLemmas.need_le arrs cbs.length rels _ t d (fun k hk => hrel k hk t d) _ hkslt
  · intro k hk hnr
    have hlt := RefineLemmas.task_lt (sigma := sigma) (H := H) hidx hk
    exact hB _ hlt (fun e => hnr (Or.inl e)) (fun e => hnr (Or.inr e))

/-- **polling-point callback, end to end**: interference = all other callbacks -/
theorem pollingPoint_exec_sound (cbs : List Cb) (sigma : ℕ → Bool) (rels : ℕ → List ℕ) (H i : ℕ)
    (hi : i < cbs.length)
    (hidx : ∀ t, ∀ i ∈ rels t, i < cbs.length) (hfin : ∀ t, H ≤ t → rels t = [])
    (hcb : ∀ c ∈ cbs, 1 ≤ c.cost)
    (sup : Supply) (hs : sup.WF) (hsbf : ∀ t d, sup.sbf d ≤ service sigma t d)
    (arrs : List Arr) (hlen : arrs.length = cbs.length) (hwf : ∀ a ∈ arrs, a.WF ∧ a.Exact)
    (hrel : ∀ k, k < cbs.length → ∀ t d, relCount rels k t d ≤ (arrs.getD k default).N d)
    (limit R : ℕ)
    (hR : rosPollingPoint sup (.rbf (arrs.getD i default) (.scalar (cbs.getD i default).cost))
      (.agg (((List.range cbs.length).filter fun k => decide (k ≠ i)).map
        fun k => .rbf (arrs.getD k default) (.scalar (cbs.getD k default).cost))) limit = .ok R)
    (n : ℕ) :
    ∀ o ∈ Exec.run cbs (fun _ => none) ((List.range n).map sigma) rels, o.1 = i → o.2.2 ≤ o.2.1 + R := by
  have hkslt := EndToEndLemmas.mem_filter_range_lt cbs.length (fun k => decide (k ≠ i))
  have hcpos : ∀ k, k < cbs.length → 1 ≤ (cbs.getD k default).cost :=
    fun k hk => hcb _ (EndToEndLemmas.getD_mem' cbs k hk)
  have hagg := EndToEndLemmas.agg_wf arrs cbs.length hlen hwf (fun k => (cbs.getD k default).cost)
    hcpos _ hkslt
  have hai := hwf _ (EndToEndLemmas.getD_mem' arrs i (by omega))
  refine run_meets_of_sys cbs sigma rels H hidx hfin hcb i R ?_ n
  refine pollingPoint_sound _ sigma i
    (RrSoundLemmas.toTimer (run_polling_legal cbs sigma rels H hidx hfin hcb) i)
    sup hs hsbf (arrs.getD i default) (cbs.getD i default).cost
    hai.1 hai.2 (hcpos i hi) _ (by simp only [RB.ArrWF]; exact hagg.1)
    (by simp only [RB.Exact]; exact hagg.2) ?_ ?_ ?_ limit R hR
  · exact fun t d => Nat.le_trans (countOf_toSys_le cbs sigma rels H i t d) (hrel i hi t d)
  · intro k _ hk
    show (cbs.getD ((toSys cbs sigma rels H).task k) default).cost ≤ _
    rw [hk]
  · intro t d
    refine Nat.le_trans (workOf_toSys_le cbs sigma rels H hidx _ t d) ?_
    simp only [RB.need]
    exact EndToEndLemmas.need_le arrs cbs.length rels _ t d (fun k hk => hrel k hk t d) _ hkslt

/-- **rr, end to end** (singleton subchains): the workload `wl` describes the callback table
(kinds, priorities, scalar costs), releases are within the arrival curves, and the vector of
assumed bounds reproduces itself; then every completion reported by `Exec.run` is within the
assumed bound of its callback -/
theorem rr_exec_sound (cbs : List Cb) (sigma : ℕ → Bool) (rels : ℕ → List ℕ) (H : ℕ)
    (hidx : ∀ t, ∀ i ∈ rels t, i < cbs.length) (hfin : ∀ t, H ≤ t → rels t = [])
    (hcb : ∀ c ∈ cbs, 1 ≤ c.cost)
    (sup : Supply) (hs : sup.WF) (hsbf : ∀ t d, sup.sbf d ≤ service sigma t d)
    (wl : List Callback) (hlen : wl.length = cbs.length)
    (hscalar : ∀ i, i < wl.length → (wl.getD i default).cost = .scalar (cbs.getD i default).cost)
    (hwf : ∀ cb ∈ wl, cb.arr.WF)
    (hkinds : KindsAgree wl (toInfo cbs sigma rels))
    (hprio : ∀ i j, i < cbs.length → j < cbs.length → (cbs.getD i default).isTimer = false →
      (cbs.getD j default).isTimer = false → (cbs.getD i default).prio = (cbs.getD j default).prio → i = j)
    (hrel : ∀ k, k < cbs.length → ∀ t d, relCount rels k t d ≤ (wl.getD k default).arr.N d)
    (limit : ℕ)
    (hself : ∀ i, i < wl.length → ∃ R, rrSubchain sup wl [i] limit = .ok R ∧ R ≤ (wl.getD i default).rtb)
    (n i : ℕ) :
    ∀ o ∈ Exec.run cbs (fun _ => none) ((List.range n).map sigma) rels, o.1 = i →
      o.2.2 ≤ o.2.1 + (wl.getD i default).rtb := by
  have hN : ∀ k t d, countOf (toSys cbs sigma rels H) k t (t + d) ≤ (wl.getD k default).arr.N d := by
    intro k t d
    have h := countOf_toSys_le cbs sigma rels H k t d
    rcases Nat.lt_or_ge k cbs.length with hk | hk
    · exact Nat.le_trans h (hrel k hk t d)
    · rw [EndToEndLemmas.relCount_zero rels cbs.length hidx k hk t d] at h; omega
  refine run_meets_of_sys cbs sigma rels H hidx hfin hcb i _ ?_ n
  intro j hj hji
  have := rr_singleton_sound _ sigma _ (run_polling_legal cbs sigma rels H hidx hfin hcb) sup hs hsbf wl
    (fun k => (cbs.getD k default).cost) hscalar hwf
    (fun k hk => by rw [hlen]; exact RefineLemmas.task_lt (sigma := sigma) (H := H) hidx hk)
    hkinds (fun a b ha hb => hprio a b (by omega) (by omega)) hN
    (fun k hk => ⟨RefineLemmas.cost_pos hcb (RefineLemmas.task_lt (sigma := sigma) (H := H) hidx hk),
      Nat.le_refl _⟩)
    limit hself j hj
  rwa [hji] at this

/-- **bw, end to end** (singleton subchains) -/
theorem bw_exec_sound (cbs : List Cb) (sigma : ℕ → Bool) (rels : ℕ → List ℕ) (H : ℕ)
    (hidx : ∀ t, ∀ i ∈ rels t, i < cbs.length) (hfin : ∀ t, H ≤ t → rels t = [])
    (hcb : ∀ c ∈ cbs, 1 ≤ c.cost)
    (sup : Supply) (hs : sup.WF) (hsbf : ∀ t d, sup.sbf d ≤ service sigma t d)
    (wl : List Callback) (hlen : wl.length = cbs.length)
    (hscalar : ∀ i, i < wl.length → (wl.getD i default).cost = .scalar (cbs.getD i default).cost)
    (hwf : ∀ cb ∈ wl, cb.arr.WF ∧ cb.arr.Exact)
    (hkinds : KindsAgree wl (toInfo cbs sigma rels))
    (hprio : ∀ i j, i < cbs.length → j < cbs.length → (cbs.getD i default).isTimer = false →
      (cbs.getD j default).isTimer = false → (cbs.getD i default).prio = (cbs.getD j default).prio → i = j)
    (hrel : ∀ k, k < cbs.length → ∀ t d, relCount rels k t d ≤ (wl.getD k default).arr.N d)
    (limit : ℕ) (dbg : Bool)
    (hself : ∀ i, i < wl.length → ∃ R, bwSubchain sup wl [i] limit dbg = .ok R ∧ R ≤ (wl.getD i default).rtb)
    (n i : ℕ) :
    ∀ o ∈ Exec.run cbs (fun _ => none) ((List.range n).map sigma) rels, o.1 = i →
      o.2.2 ≤ o.2.1 + (wl.getD i default).rtb := by
  have hN : ∀ k t d, countOf (toSys cbs sigma rels H) k t (t + d) ≤ (wl.getD k default).arr.N d := by
    intro k t d
    have h := countOf_toSys_le cbs sigma rels H k t d
    rcases Nat.lt_or_ge k cbs.length with hk | hk
    · exact Nat.le_trans h (hrel k hk t d)
    · rw [EndToEndLemmas.relCount_zero rels cbs.length hidx k hk t d] at h; omega
  refine run_meets_of_sys cbs sigma rels H hidx hfin hcb i _ ?_ n
  intro j hj hji
  have := bw_singleton_sound _ sigma _ (run_polling_legal cbs sigma rels H hidx hfin hcb) sup hs hsbf wl
    (fun k => (cbs.getD k default).cost) hscalar hwf
    (fun k hk => by rw [hlen]; exact RefineLemmas.task_lt (sigma := sigma) (H := H) hidx hk)
    hkinds (fun a b ha hb => hprio a b (by omega) (by omega)) hN
    (fun k hk => ⟨RefineLemmas.cost_pos hcb (RefineLemmas.task_lt (sigma := sigma) (H := H) hidx hk),
      Nat.le_refl _⟩)
    limit dbg hself j hj
  rwa [hji] at this

end RTA.Exec
