import RTA.Lemmas.PruneCore
/-! C06 for the four EDF analyses: the pruned search space (own step offsets and the other
tasks' step offsets shifted by the deadline difference) loses nothing against naive
all-offset evaluation. -/

namespace RTA
open RTA.Spec

/-- the other tasks' request bounds are well-formed and exact -/
def EdfOthersOK (others : List EdfTask) : Prop := ∀ o ∈ others, o.rb.ArrWF ∧ o.rb.Exact

namespace PruneEDFLemmas

theorem le_maxList_of_mem (l : List Nat) (x : Nat) (h : x ∈ l) : x ≤ maxList l := by
  induction l with
  | nil => cases h
  | cons y ys ih =>
    simp only [maxList]
    rw [List.mem_cons] at h
    rcases h with h | h
    · subst h; exact Nat.le_max_left _ _
    · exact Nat.le_trans (ih h) (Nat.le_max_right _ _)

theorem maxList_le (l : List Nat) (b : Nat) (h : ∀ x ∈ l, x ≤ b) : maxList l ≤ b := by
  induction l with
  | nil => simp only [maxList]; omega
  | cons y ys ih =>
    simp only [maxList]
    exact Nat.max_le.2 ⟨h y (by simp), ih (fun x hx => h x (by simp [hx]))⟩

/-- `maxList` is monotone w.r.t. list inclusion -/
theorem maxList_subset (l1 l2 : List Nat) (h : ∀ x ∈ l1, x ∈ l2) : maxList l1 ≤ maxList l2 :=
  maxList_le l1 _ (fun x hx => le_maxList_of_mem l2 x (h x hx))

theorem sumList_map_le {α : Type} (l : List α) (f g : α → Nat) (h : ∀ o ∈ l, f o ≤ g o) :
    sumList (l.map f) ≤ sumList (l.map g) := by
  induction l with
  | nil => exact Nat.le_refl _
  | cons y ys ih =>
    simp only [List.map_cons, sumList]
    exact Nat.add_le_add (h y (by simp)) (ih (fun o ho => h o (by simp [ho])))

/-- the `go` loop of `edfSpace`: a sorted list of exactly the shifted increase offsets
below `L` -/
theorem go_spec (D L : Nat) (os : List EdfTask) (ho : EdfOthersOK os) :
    ∃ R, edfSpace.go D L os = some R ∧ R.Pairwise (· ≤ ·) ∧
      ∀ A, A ∈ R ↔ (A < L ∧ ∃ o ∈ os, ∃ off,
        o.rb.need off < o.rb.need (off + 1) ∧ A = off + o.D - D) := by
  induction os with
  | nil => exact ⟨[], edfSpace.go.eq_1 D L, List.Pairwise.nil, fun A => by simp⟩
  | cons o os ih =>
    have ho' : EdfOthersOK os := fun x hx => ho x (List.mem_cons_of_mem _ hx)
    obtain ⟨R, hR, hRs, hRm⟩ := ih ho'
    obtain ⟨offs, he, hp, hm⟩ :=
      RB.offsetsBelow_spec o.rb (ho o (by simp)).1 (ho o (by simp)).2 (L + D - o.D)
    refine ⟨merge ((offs.map fun off => off + o.D - D).filter (· < L)) R, ?_, ?_, ?_⟩
    · rw [edfSpace.go.eq_2, he, hR]
    · apply merge_sorted _ _ _ hRs
      apply List.Pairwise.filter
      rw [List.pairwise_map]
      refine List.Pairwise.imp ?_ hp
      intro a b hab
      show a + o.D - D ≤ b + o.D - D
      omega
    · intro A
      rw [mem_merge, List.mem_filter, List.mem_map, hRm]
      constructor
      · rintro (⟨⟨off, hoff, rfl⟩, hlt⟩ | ⟨hlt, o', ho', off, hinc, rfl⟩)
        · have := (hm off).1 hoff
          exact ⟨of_decide_eq_true hlt, o, by simp, off, this.2, rfl⟩
        · exact ⟨hlt, o', List.mem_cons_of_mem _ ho', off, hinc, rfl⟩
      · rintro ⟨hlt, o', ho', off, hinc, rfl⟩
        rw [List.mem_cons] at ho'
        rcases ho' with rfl | ho'
        · left
          exact ⟨⟨off, (hm off).2 ⟨by omega, hinc⟩, rfl⟩, decide_eq_true hlt⟩
        · right; exact ⟨hlt, o', ho', off, hinc, rfl⟩

theorem need_min_const (N : Nat → Nat) (hm : MonoN N) (X' X AF : Nat) (h : X' ≤ X)
    (he : N X = N X') : N (min AF X) = N (min AF X') := by
  by_cases h1 : AF ≤ X'
  · rw [Nat.min_eq_left h1, Nat.min_eq_left (by omega)]
  · by_cases h2 : AF ≤ X
    · rw [Nat.min_eq_left h2, Nat.min_eq_right (by omega)]
      have a := hm X' AF (by omega)
      have b := hm AF X h2
      omega
    · rw [Nat.min_eq_right (by omega), Nat.min_eq_right (by omega)]; exact he

end PruneEDFLemmas
open PruneEDFLemmas

/-- the blocking bound can only shrink as the offset grows -/
theorem edfBlocking_antitone (others : List EdfTask) (D A A' : Nat) (h : A' ≤ A) :
    edfBlocking others D A ≤ edfBlocking others D A' := by
  unfold edfBlocking
  apply maxList_subset
  intro x hx
  rw [List.mem_map] at hx ⊢
  obtain ⟨o, ho, rfl⟩ := hx
  refine ⟨o, ?_, rfl⟩
  rw [List.mem_filter] at ho ⊢
  refine ⟨ho.1, ?_⟩
  have h2 := ho.2
  simp only [Bool.and_eq_true, decide_eq_true_eq] at h2 ⊢
  exact ⟨by omega, h2.2⟩

/-- the search space: strictly increasing offsets below `L`, exactly the own increase
offsets and the shifted increase offsets of the other tasks -/
theorem edfSpace_spec (tua : RB) (D : Nat) (others : List EdfTask) (L : Nat)
    (hwf : tua.ArrWF) (hex : tua.Exact) (ho : EdfOthersOK others) :
    ∃ S, edfSpace tua D others L = some S ∧ S.Pairwise (· < ·) ∧
      ∀ A, A ∈ S ↔ (A < L ∧ (tua.need A < tua.need (A + 1) ∨
        ∃ o ∈ others, ∃ off, o.rb.need off < o.rb.need (off + 1) ∧ A = off + o.D - D)) := by
  obtain ⟨own, he, hp, hm⟩ := RB.offsetsBelow_spec tua hwf hex L
  obtain ⟨R, hR, hRs, hRm⟩ := go_spec D L others ho
  refine ⟨dedup (merge R own), ?_, ?_, ?_⟩
  · unfold edfSpace
    rw [he]
    simp only []
    rw [hR]
  · exact dedup_strict _ (merge_sorted _ _ hRs (strict_imp_sorted _ hp))
  · intro A
    rw [mem_dedup, mem_merge, hRm, hm]
    constructor
    · rintro (⟨h1, h2⟩ | ⟨h1, h2⟩)
      · exact ⟨h1, Or.inr h2⟩
      · exact ⟨h1, Or.inl h2⟩
    · rintro ⟨h1, h2 | h2⟩
      · exact Or.inr ⟨h1, h2⟩
      · exact Or.inl ⟨h1, h2⟩

/-- between consecutive points of the search space the higher-or-equal-priority workload
bound does not depend on the offset -/
theorem edfHep_const (tua : RB) (D : Nat) (others : List EdfTask) (ho : EdfOthersOK others)
    (A' A : Nat) (h : A' ≤ A)
    (hno : ∀ B, A' < B → B ≤ A → ¬ ∃ o ∈ others, ∃ off, o.rb.need off < o.rb.need (off + 1) ∧ B = off + o.D - D)
    (AF : Nat) : edfHepWorkload others D A AF = edfHepWorkload others D A' AF := by
  unfold edfHepWorkload
  congr 1
  apply List.map_congr_left
  intro o hoo
  have hmono := RB.need_mono o.rb (ho o hoo).1 (ho o hoo).2
  apply need_min_const _ hmono _ _ _ (by omega)
  apply const_of_no_increase _ hmono _ _ (by omega)
  intro δ h1 h2 hinc
  apply hno (δ - 1 + o.D - D) (by omega) (by omega)
  refine ⟨o, hoo, δ - 1, ?_, rfl⟩
  have e : δ - 1 + 1 = δ := by omega
  rw [e]
  exact hinc

namespace PruneEDFLemmas

/-! ### the per-offset function -/

/-- right-hand side of the per-offset fixed-point equation -/
def edfRhs (tua : RB) (D : Nat) (others : List EdfTask) (rem : Nat) (wb : Bool) (A AF : Nat) : Nat :=
  (if wb then edfBlocking others D A else 0) + (tua.need (A + 1) - rem) +
    edfHepWorkload others D A AF

/-- per-offset result of the naive spec -/
def edfPer (tua : RB) (D : Nat) (others : List EdfTask) (rem : Nat) (wb : Bool) (limit A : Nat) :
    Res :=
  match naiveSolve (edfRhs tua D others rem wb A) limit with
  | .ok AF => .ok (AF - A + rem)
  | e => e

/-- per-offset result of the model -/
def edfPerModel (tua : RB) (D : Nat) (others : List EdfTask) (rem : Nat) (wb : Bool)
    (limit A : Nat) : Res :=
  let B := if wb then edfBlocking others D A else 0
  finishEDF A rem
    (search .dedicated limit
      (fun AF => B + (tua.need (A + 1) - rem) + edfHepWorkload others D A AF))

theorem naiveEdf_eq (tua : RB) (D : Nat) (others : List EdfTask) (rem : Nat) (wb : Bool)
    (limit : Nat) : naiveEdf tua D others rem wb limit =
      match naiveSolve (fun L => sumNeed (others.map (·.rb)) L + tua.need L) limit with
      | .ok L => naiveMax ((List.range L).map (edfPer tua D others rem wb limit))
      | e => e := rfl

theorem edfCore_eq (tua : RB) (D : Nat) (others : List EdfTask) (rem : Nat) (wb : Bool)
    (limit : Nat) (flag : Bool) : edfCore tua D others rem wb limit flag =
      match search .dedicated limit (fun L => sumNeed (others.map (·.rb)) L + tua.need L) with
      | .ok L => if flag then .panic else
          overOffsets (edfSpace tua D others L) (edfPerModel tua D others rem wb limit)
      | e => e := rfl

theorem busy_mono (tua : RB) (others : List EdfTask) (hwf : tua.ArrWF) (hex : tua.Exact)
    (ho : EdfOthersOK others) :
    Mono (fun L => sumNeed (others.map (·.rb)) L + tua.need L) := by
  intro a b hab
  show sumNeed (others.map (·.rb)) a + tua.need a ≤ sumNeed (others.map (·.rb)) b + tua.need b
  refine Nat.add_le_add ?_ (RB.need_mono tua hwf hex a b hab)
  unfold sumNeed
  rw [List.map_map, List.map_map]
  apply sumList_map_le
  intro o hoo
  exact RB.need_mono o.rb (ho o hoo).1 (ho o hoo).2 a b hab

theorem edfHep_mono (others : List EdfTask) (ho : EdfOthersOK others) (D A a b : Nat)
    (hab : a ≤ b) : edfHepWorkload others D A a ≤ edfHepWorkload others D A b := by
  unfold edfHepWorkload
  apply sumList_map_le
  intro o hoo
  exact RB.need_mono o.rb (ho o hoo).1 (ho o hoo).2 _ _ (by omega)

theorem edfRhs_mono (tua : RB) (D : Nat) (others : List EdfTask) (rem : Nat) (wb : Bool)
    (ho : EdfOthersOK others) (A : Nat) : Mono (edfRhs tua D others rem wb A) := by
  intro a b hab
  unfold edfRhs
  exact Nat.add_le_add_left (edfHep_mono others ho D A a b hab) _

/-- the model's per-offset computation is the naive one (since the `fix:` commit for finding
F9 there is no guard left: `self_interference.saturating_sub(rem_cost)`) -/
theorem edfPerModel_eq (tua : RB) (D : Nat) (others : List EdfTask) (rem : Nat) (wb : Bool)
    (limit : Nat) (ho : EdfOthersOK others) (hl : 1 ≤ limit) (A : Nat) :
    edfPerModel tua D others rem wb limit A = edfPer tua D others rem wb limit A := by
  unfold edfPerModel edfPer
  show finishEDF A rem (search .dedicated limit (edfRhs tua D others rem wb A)) = _
  rw [search_dedicated_eq_naive _ (edfRhs_mono tua D others rem wb ho A) limit hl]
  cases naiveSolve (edfRhs tua D others rem wb A) limit <;> rfl

theorem edfPer_cases (tua : RB) (D : Nat) (others : List EdfTask) (rem : Nat) (wb : Bool)
    (limit A : Nat) :
    (∃ v, edfPer tua D others rem wb limit A = .ok v) ∨
      edfPer tua D others rem wb limit A = .div 0 limit := by
  unfold edfPer
  rcases naiveSolve_cases (edfRhs tua D others rem wb A) limit with ⟨r, hr⟩ | hd
  · rw [hr]; exact Or.inl ⟨_, rfl⟩
  · rw [hd]; exact Or.inr rfl

/-- a pointwise larger right-hand side at a smaller offset dominates -/
theorem edfPer_le (tua : RB) (D : Nat) (others : List EdfTask) (rem : Nat) (wb : Bool)
    (limit A' A : Nat) (h : A' ≤ A)
    (hle : ∀ x, edfRhs tua D others rem wb A x ≤ edfRhs tua D others rem wb A' x) :
    Res.le (edfPer tua D others rem wb limit A) (edfPer tua D others rem wb limit A') := by
  have hm := naiveSolve_mono _ _ limit hle
  unfold edfPer
  generalize naiveSolve (edfRhs tua D others rem wb A) limit = r1 at hm ⊢
  generalize naiveSolve (edfRhs tua D others rem wb A') limit = r2 at hm ⊢
  cases r1 <;> cases r2 <;> simp only [Res.le] at hm ⊢ <;>
    first | omega | exact hm | trivial

theorem firstErr_ne_panic (rs : List Res) (e : Res) (h : firstErr rs = some e) : e ≠ .panic := by
  induction rs with
  | nil => simp [firstErr] at h
  | cons x xs ih =>
    cases x with
    | ok a => simp only [firstErr] at h; exact ih h
    | div o l => simp only [firstErr] at h; injection h with h; subst h; intro hc; cases hc
    | panic => simp only [firstErr] at h; exact ih h

theorem maxResponseTime_ne_panic (rs : List Res) (hnp : ∀ x ∈ rs, x ≠ .panic) :
    maxResponseTime rs ≠ .panic := by
  rw [RTA.C08.maxResponseTime_spec rs hnp]
  cases h : firstErr rs with
  | none => intro hc; cases hc
  | some e => exact firstErr_ne_panic rs e h

theorem search_dedicated_ne_panic (w : Nat → Nat) (hw : Mono w) (limit : Nat) :
    search .dedicated limit w ≠ .panic := by
  unfold search
  apply RTA.C08.search_total .dedicated trivial w hw 0 limit
  intro x _
  exact Nat.zero_le _

theorem edfPerModel_ne_panic (tua : RB) (D : Nat) (others : List EdfTask) (rem : Nat) (wb : Bool)
    (limit : Nat) (ho : EdfOthersOK others) (A : Nat) :
    edfPerModel tua D others rem wb limit A ≠ .panic := by
  unfold edfPerModel
  show finishEDF A rem (search .dedicated limit (edfRhs tua D others rem wb A)) ≠ _
  have := search_dedicated_ne_panic _ (edfRhs_mono tua D others rem wb ho A) limit
  revert this
  cases search .dedicated limit (edfRhs tua D others rem wb A) <;> intro h
  · intro hc; cases hc
  · intro hc; cases hc
  · exact absurd rfl h

/-- the model never fails a guard on well-formed input (no side condition relating `rem` to
the own demand is needed since the `fix:` commit for finding F9) -/
theorem edfCore_ne_panic_of_wf (tua : RB) (D : Nat) (others : List EdfTask) (rem : Nat)
    (wb : Bool) (limit : Nat) (hwf : tua.ArrWF) (hex : tua.Exact) (ho : EdfOthersOK others) :
    edfCore tua D others rem wb limit ≠ .panic := by
  rw [edfCore_eq]
  have hs := search_dedicated_ne_panic _ (busy_mono tua others hwf hex ho) limit
  revert hs
  cases search .dedicated limit (fun L => sumNeed (others.map (·.rb)) L + tua.need L) with
  | panic => intro h; exact absurd rfl h
  | div o l => intro _ hc; cases hc
  | ok L =>
    intro _
    obtain ⟨S, hS, _, _⟩ := edfSpace_spec tua D others L hwf hex ho
    simp only [Bool.false_eq_true, if_false]
    rw [hS]
    unfold overOffsets
    apply maxResponseTime_ne_panic
    intro x hx
    rw [List.mem_map] at hx
    obtain ⟨A, _, rfl⟩ := hx
    exact edfPerModel_ne_panic tua D others rem wb limit ho A

end PruneEDFLemmas

/-- C06, the common core of the four EDF analyses -/
theorem edfCore_eq_naive (tua : RB) (D : Nat) (others : List EdfTask) (rem : Nat) (wb : Bool)
    (limit : Nat) (hwf : tua.ArrWF) (hex : tua.Exact) (ho : EdfOthersOK others) (hl : 1 ≤ limit)
    (hpos : 0 < tua.need 1)
    (hstep : ∀ A, tua.need A < tua.need (A + 1) → tua.need A + rem < tua.need (A + 1)) :
    edfCore tua D others rem wb limit = naiveEdf tua D others rem wb limit := by
  have hmt := RB.need_mono tua hwf hex
  -- `hstep` excluded the `rbf_tua(A+1) - rem` guard, which is gone since the F9 fix
  have _ := hstep
  rw [naiveEdf_eq, edfCore_eq,
    search_dedicated_eq_naive _ (busy_mono tua others hwf hex ho) limit hl]
  rcases naiveSolve_cases (fun L => sumNeed (others.map (·.rb)) L + tua.need L) limit with
    ⟨L, hL⟩ | hdiv
  · rw [hL]
    simp only [Bool.false_eq_true, if_false]
    obtain ⟨S, hS, hSp, hSm⟩ := edfSpace_spec tua D others L hwf hex ho
    rw [hS]
    unfold overOffsets
    have hfun : edfPerModel tua D others rem wb limit = edfPer tua D others rem wb limit :=
      funext fun A => edfPerModel_eq tua D others rem wb limit ho hl A
    rw [hfun]
    apply maxResponseTime_pruned _ L limit S (fun A hA => ((hSm A).1 hA).1)
      (fun A _ => edfPer_cases tua D others rem wb limit A)
    intro A hA
    have h0 : 0 ∈ S := (hSm 0).2 ⟨by omega, Or.inl (by rw [RB.need_zero]; exact hpos)⟩
    obtain ⟨A', hA'S, hA'le, hgreat⟩ := exists_greatest_le S h0 A
    refine ⟨A', hA'S, ?_⟩
    have hnoS : ∀ B, A' < B → B ≤ A → B ∉ S := by
      intro B h1 h2 hB
      have := hgreat B hB h2
      omega
    have hown : tua.need (A + 1) = tua.need (A' + 1) := by
      apply const_of_no_increase _ hmt _ _ (by omega)
      intro δ h1 h2 hinc
      apply hnoS (δ - 1) (by omega) (by omega)
      rw [hSm]
      refine ⟨by omega, Or.inl ?_⟩
      have e : δ - 1 + 1 = δ := by omega
      rw [e]
      exact hinc
    have hhep : ∀ AF, edfHepWorkload others D A AF = edfHepWorkload others D A' AF := by
      apply edfHep_const tua D others ho A' A hA'le
      intro B h1 h2 hex'
      apply hnoS B h1 h2
      rw [hSm]
      exact ⟨by omega, Or.inr hex'⟩
    apply edfPer_le tua D others rem wb limit A' A hA'le
    intro x
    unfold edfRhs
    rw [hown, hhep x]
    have hb := edfBlocking_antitone others D A A' hA'le
    cases wb
    · exact Nat.le_refl _
    · simp only [if_true]
      omega
  · rw [hdiv]

namespace PruneEDFLemmas

/-- facts about a scalar-cost request bound needed to instantiate the core theorem -/
theorem scalar_facts (a : Arr) (C rem : Nat) (hwf : a.WF) (hex : a.Exact) (hC : 1 ≤ C)
    (hrem : rem < C) (hpos : 0 < a.N 1) :
    (RB.rbf a (.scalar C)).ArrWF ∧ (RB.rbf a (.scalar C)).Exact ∧
      0 < (RB.rbf a (.scalar C)).need 1 ∧
      ∀ A, (RB.rbf a (.scalar C)).need A < (RB.rbf a (.scalar C)).need (A + 1) →
        (RB.rbf a (.scalar C)).need A + rem < (RB.rbf a (.scalar C)).need (A + 1) := by
  refine ⟨?_, ?_, ?_, ?_⟩
  · simp only [RB.ArrWF]; exact hwf
  · simp only [RB.Exact]; exact ⟨hex, Cost.scalar_strictPos C hC⟩
  · simp only [RB.need, Cost.ofJobs]
    exact Nat.mul_pos (by omega) hpos
  · intro A
    simp only [RB.need, Cost.ofJobs]
    intro h
    have hlt : a.N A < a.N (A + 1) := Nat.lt_of_mul_lt_mul_left h
    have h2 : C * (a.N A + 1) ≤ C * a.N (A + 1) := Nat.mul_le_mul_left C hlt
    rw [Nat.mul_succ] at h2
    omega

end PruneEDFLemmas

theorem edfPreemptive_eq_naive (tua : RB) (D : Nat) (others : List EdfTask) (limit : Nat)
    (hwf : tua.ArrWF) (hex : tua.Exact) (ho : EdfOthersOK others) (hl : 1 ≤ limit)
    (hpos : 0 < tua.need 1) :
    edfPreemptive tua D others limit = naiveEdf tua D others 0 false limit := by
  unfold edfPreemptive
  exact edfCore_eq_naive tua D others 0 false limit hwf hex ho hl hpos (fun A h => by omega)

theorem edfNonpreemptive_eq_naive (a : Arr) (C D : Nat) (others : List EdfTask) (limit : Nat)
    (hwf : a.WF) (hex : a.Exact) (hC : 1 ≤ C) (ho : EdfOthersOK others) (hl : 1 ≤ limit)
    (hpos : 0 < a.N 1) :
    edfNonpreemptive a C D others limit = naiveEdf (.rbf a (.scalar C)) D others (C - 1) true limit := by
  obtain ⟨h1, h2, h3, h4⟩ := scalar_facts a C (C - 1) hwf hex hC (by omega) hpos
  unfold edfNonpreemptive
  rw [show decide (C < 1) = false from decide_eq_false (by omega)]
  exact edfCore_eq_naive _ D others (C - 1) true limit h1 h2 ho hl h3 h4

theorem edfLimited_eq_naive (a : Arr) (C D last : Nat) (others : List EdfTask) (limit : Nat)
    (hwf : a.WF) (hex : a.Exact) (hlast1 : 1 ≤ last) (hlastC : last ≤ C) (ho : EdfOthersOK others)
    (hl : 1 ≤ limit) (hpos : 0 < a.N 1) :
    edfLimited a C D last others limit = naiveEdf (.rbf a (.scalar C)) D others (last - 1) true limit := by
  obtain ⟨h1, h2, h3, h4⟩ := scalar_facts a C (last - 1) hwf hex (by omega) (by omega) hpos
  unfold edfLimited
  rw [show decide (last < 1 ∨ C < last - 1) = false from decide_eq_false (by omega),
    show C - (C - (last - 1)) = last - 1 by omega]
  exact edfCore_eq_naive _ D others (last - 1) true limit h1 h2 ho hl h3 h4

theorem edfFloating_eq_naive (tua : RB) (D : Nat) (others : List EdfTask) (limit : Nat)
    (hwf : tua.ArrWF) (hex : tua.Exact) (ho : EdfOthersOK others) (hl : 1 ≤ limit)
    (hpos : 0 < tua.need 1) :
    edfFloating tua D others limit = naiveEdf tua D others 0 true limit := by
  unfold edfFloating
  exact edfCore_eq_naive tua D others 0 true limit hwf hex ho hl hpos (fun A h => by omega)


/-- no guard fails on well-formed input (C20).  Until the `fix:` commit for finding F9
(`self_interference.saturating_sub(rem_cost)`) this needed "the task under analysis releases
something" (`0 < tua.need 1`) and `hstep` (`rem` below every own step) to exclude the
`rbf_tua(A+1) - rem` underflow. -/
theorem edfCore_no_panic' (tua : RB) (D : Nat) (others : List EdfTask) (rem : Nat) (wb : Bool)
    (limit : Nat) (hwf : tua.ArrWF) (hex : tua.Exact) (ho : EdfOthersOK others) :
    edfCore tua D others rem wb limit ≠ .panic :=
  edfCore_ne_panic_of_wf tua D others rem wb limit hwf hex ho

/-- with `rem = 0` (fully preemptive, floating non-preemptive) no guard can fail at all -/
theorem edfCore_no_panic_rem0 (tua : RB) (D : Nat) (others : List EdfTask) (wb : Bool)
    (limit : Nat) (hwf : tua.ArrWF) (hex : tua.Exact) (ho : EdfOthersOK others) :
    edfCore tua D others 0 wb limit ≠ .panic :=
  edfCore_ne_panic_of_wf tua D others 0 wb limit hwf hex ho

/-- the witness of the former finding F9: a task under analysis that never releases anything,
`rem = 2`, and one periodic interfering task that contributes the offset `0` to the search
space.  Before the `fix:` commit (`self_interference.saturating_sub(rem_cost)`) the guard
`rbf_tua(A+1) - rem` failed there and the model returned `.panic`; now the analysis is total on
this input and returns `Ok(3)` (`AF = 1`, the one job of the other task, plus `rem`). -/
theorem edfCore_never_arriving_tua_total :
    edfCore (.rbf .never (.scalar 3)) 5
      [{rb := .rbf (.periodic 4) (.scalar 1), D := 5, seg := 1}] 2 true 50 = .ok 3 := by
  have hwf : (RB.rbf .never (.scalar 3)).ArrWF := by simp [RB.ArrWF, Arr.WF]
  have hex : (RB.rbf .never (.scalar 3)).Exact := by
    simp only [RB.Exact, Arr.Exact, true_and]
    exact Cost.scalar_strictPos 3 (by omega)
  have ho : EdfOthersOK [{rb := .rbf (.periodic 4) (.scalar 1), D := 5, seg := 1}] := by
    intro o hoo
    rw [List.mem_singleton] at hoo
    subst hoo
    refine ⟨by simp [RB.ArrWF, Arr.WF], ?_⟩
    simp only [RB.Exact, Arr.Exact, true_and]
    exact Cost.scalar_strictPos 1 (by omega)
  have hL : search .dedicated 50 (fun L =>
      sumNeed (([{rb := .rbf (.periodic 4) (.scalar 1), D := 5, seg := 1}] : List EdfTask).map (·.rb)) L +
        (RB.rbf .never (.scalar 3)).need L) = .ok 1 := by decide
  rw [PruneEDFLemmas.edfCore_eq, hL]
  simp only [Bool.false_eq_true, if_false]
  obtain ⟨S, hS, hSp, hSm⟩ := edfSpace_spec _ 5 _ 1 hwf hex ho
  have h0 : 0 ∈ S :=
    (hSm 0).2 ⟨by omega, Or.inr ⟨_, List.mem_singleton.2 rfl, 0, by decide, rfl⟩⟩
  have hall : ∀ A ∈ S, A = 0 := fun A hA => by have := ((hSm A).1 hA).1; omega
  have hSeq : S = [0] := by
    match S, hSp, h0, hall with
    | [], _, h0, _ => cases h0
    | [a], _, _, hall => rw [hall a (by simp)]
    | a :: b :: t, hSp, _, hall =>
      have h1 := hall a (by simp)
      have h2 := hall b (by simp)
      have h3 : a < b := (List.pairwise_cons.1 hSp).1 b (by simp)
      omega
  rw [hS, hSeq]
  decide

end RTA
