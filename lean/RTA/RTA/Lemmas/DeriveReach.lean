import RTA.Lemmas.Derive
/-! The hypothesis `hreach` of the C12 theorems (the 64-step doubling search of the model finds
a horizon by which the source admits enough arrivals) follows from a plain size condition: the
source admits that many arrivals within `2^65 - 1` time units. -/

namespace RTA
open RTA

namespace DeriveReachLemmas

/-- the horizon after `fuel` unconditional doublings from `H` -/
def iter : Nat → Nat → Nat
  | 0, H => H
  | f + 1, H => iter f (2 * H + 1)

theorem iter_eq (f H : Nat) : iter f H = 2 ^ f * (H + 1) - 1 := by
  induction f generalizing H with
  | zero => simp [iter]
  | succ f ih =>
    rw [iter, ih, Nat.pow_succ]
    have : 2 * H + 1 + 1 = 2 * (H + 1) := by omega
    rw [this, Nat.mul_assoc]

theorem horizonFor_iter (a : Arr) (n : Nat) (fuel : Nat) :
    ∀ H, n ≤ a.N (iter fuel H) → n ≤ a.N (Arr.horizonFor a n fuel H) := by
  induction fuel with
  | zero => intro H h; simpa [iter, Arr.horizonFor] using h
  | succ f ih =>
    intro H h
    rw [Arr.horizonFor]
    split
    · assumption
    · exact ih _ (by simpa [iter] using h)

end DeriveReachLemmas

set_option linter.unusedVariables false in -- `hwf` is kept in the statement but not needed
/-- the doubling search (64 doublings from 1: horizons 1, 3, 7, …, 2^65 - 1) reaches `n`
arrivals whenever the source admits `n` arrivals within `2^65 - 1` time units -/
theorem Arr.horizonFor_reaches (a : Arr) (hwf : a.WF) (n : Nat) (h : n ≤ a.N (2 ^ 65 - 1)) :
    n ≤ a.N (Arr.horizonFor a n 64 1) := by
  apply DeriveReachLemmas.horizonFor_iter
  rw [DeriveReachLemmas.iter_eq]
  exact h

/-- `curveOfBound_dominates` under the size condition instead of `hreach` -/
theorem curveOfBound_dominates_of_size (a : Arr) (hwf : a.WF) (hex : a.Exact) (upTo : Nat)
    (hsize : max upTo 3 + 1 ≤ a.N (2 ^ 65 - 1))
    (hpos : 1 ≤ a.N 1) (hsub : SubAdditive a.N) (hlast : 1 ≤ (a.curveOfBound upTo).getLastD 0) :
    (∀ x, a.N x ≤ curveN (a.curveOfBound upTo) x) ∧
    (∀ x, x < (a.curveOfBound upTo).getLastD 0 → curveN (a.curveOfBound upTo) x = a.N x) :=
  curveOfBound_dominates a hwf hex upTo (Arr.horizonFor_reaches a hwf _ hsize) hpos hsub hlast

end RTA
