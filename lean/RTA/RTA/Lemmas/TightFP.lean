import RTA.Lemmas.Tight
import RTA.Lemmas.FpSound
/-! C18, fully preemptive fixed priority: the bound is attained.

Setting: priorities = task indices (`pr := id`, smaller index = higher priority), no
non-preemptable states.  If, from some instant `t₀` on, the analysed task `i` releases exactly
as many jobs as its curve allows in every window `[t₀, t₀ + Δ)` up to the busy-window length,
the higher-priority tasks release exactly their maximal workload, and every job of `i` runs
for its WCET, then in EVERY legal schedule some job of task `i` has a response time equal to
the bound returned by the analysis (no smaller bound is met). -/

open Finset

namespace RTA.Sched
open RTA RTA.Spec

namespace TightFPLemmas
open TightLemmas FpSoundLemmas RTA.PruneCoreLemmas RTA.PruneFPLemmas

/-! ### counting service -/

theorem servedP_step_le (s : Sys) (p : ℕ → Prop) (t : ℕ) :
    J.servedP s p (t + 1) ≤ J.servedP s p t + 1 := by
  classical
  have h1 : J.servedP s p (t + 1)
      ≤ J.servedP s p t + ∑ k ∈ range s.n, if s.sched t = some k then 1 else 0 := by
    unfold J.servedP
    rw [← sum_add_distrib]
    apply sum_le_sum
    intro k _
    simp only [svc]
    by_cases hp : p k
    · simp only [if_pos hp]; exact le_refl _
    · simp only [if_neg hp]; exact Nat.zero_le _
  have h2 := sum_sched_le_one s t
  omega

theorem servedP_le_len (s : Sys) (p : ℕ → Prop) (a : ℕ) :
    ∀ len, J.servedP s p (a + len) ≤ J.servedP s p a + len := by
  intro len
  induction len with
  | zero => simp
  | succ len ih =>
    have := servedP_step_le s p (a + len)
    have e : a + (len + 1) = a + len + 1 := by omega
    rw [e]
    omega

theorem workP_or_eq (s : Sys) (p q : ℕ → Prop) (hdis : ∀ k, p k → q k → False) :
    J.workP s (fun k => p k ∨ q k) = J.workP s p + J.workP s q := by
  classical
  unfold J.workP
  rw [← sum_add_distrib]
  apply sum_congr rfl
  intro k _
  by_cases hp : p k <;> by_cases hq : q k
  · exact (hdis k hp hq).elim
  · simp [hp, hq]
  · simp [hp, hq]
  · simp [hp, hq]

/-- a positive maximum of per-offset results is one of the results -/
theorem naiveMax_attained (rs : List Res) (R : ℕ) (h : naiveMax rs = .ok R) (hpos : 0 < R) :
    Res.ok R ∈ rs := by
  have hall := naiveMax_ok_inv rs R h
  unfold naiveMax at h
  rw [if_neg (by
    rw [Bool.not_eq_true, List.any_eq_false]
    intro x hx
    obtain ⟨v, rfl, _⟩ := hall x hx
    simp)] at h
  injection h with h
  have hm := maxList_mem_of_pos _ (by rw [h]; exact hpos)
  rw [h] at hm
  obtain ⟨x, hx, hgx⟩ := List.mem_map.1 hm
  obtain ⟨v, rfl, _⟩ := hall x hx
  simp only at hgx
  subst hgx
  exact hx

/-! ### the greedy fixed-priority scheduler -/

/-- priority key: (task index, job index) lexicographically, for job indices `< n` -/
def key (js : JobSet) (k : ℕ) : ℕ := js.task k * js.n + k

theorem key_le (js : JobSet) (j k : ℕ) (hk : k < js.n)
    (h : key js j ≤ key js k) :
    js.task j < js.task k ∨ (js.task j = js.task k ∧ j ≤ k) := by
  unfold key at h
  rcases Nat.lt_trichotomy (js.task j) (js.task k) with hlt | heq | hgt
  · exact Or.inl hlt
  · right
    rw [heq] at h
    exact ⟨heq, by omega⟩
  · exfalso
    have h1 : (js.task k + 1) * js.n ≤ js.task j * js.n := Nat.mul_le_mul_right _ hgt
    rw [Nat.add_mul, Nat.one_mul] at h1
    omega

/-- service vector of the greedy FP scheduler -/
def sigFP (js : JobSet) : ℕ → ℕ → ℕ
  | 0 => fun _ => 0
  | t + 1 => fun k =>
    sigFP js t k + if pickUpTo (key js) (pend js (sigFP js t) t) js.n = some k then 1 else 0

/-- the greedy FP scheduler -/
def gschedFP (js : JobSet) (t : ℕ) : Option ℕ := pickUpTo (key js) (pend js (sigFP js t) t) js.n

theorem svc_gschedFP (js : JobSet) (k : ℕ) :
    ∀ t, svc (js.withSched (gschedFP js)) k t = sigFP js t k := by
  intro t
  induction t with
  | zero => rfl
  | succ t ih =>
    show svc (js.withSched (gschedFP js)) k t + (if gschedFP js t = some k then 1 else 0)
      = sigFP js t k + (if gschedFP js t = some k then 1 else 0)
    rw [ih]

theorem pending_gschedFP (js : JobSet) (k t : ℕ) :
    Pending (js.withSched (gschedFP js)) k t ↔ pend js (sigFP js t) t k = true := by
  unfold Pending
  rw [svc_gschedFP]
  simp [pend, JobSet.withSched]

end TightFPLemmas
open TightFPLemmas TightLemmas FpSoundLemmas RTA.PruneCoreLemmas RTA.PruneFPLemmas

/-- C18, fully preemptive FP: the bound is attained in every legal schedule of a job set that
realises the curves from `t₀` -/
theorem fp_preemptive_bound_attained (s : Sys) (i : ℕ) (a : Arr) (C : ℕ) (hp : List (Arr × ℕ))
    (hS : FpSetting s id i (.rbf a (.scalar C)) (hp.map fun p => RB.rbf p.1 (.scalar p.2)) 0)
    (hnp : ∀ l x, ¬ s.np l x)
    (hwf : a.WF) (hex : a.Exact) (hC : 1 ≤ C)
    (hwfo : ∀ p ∈ hp, p.1.WF ∧ p.1.Exact ∧ 1 ≤ p.2)
    (limit R L t₀ : ℕ)
    (hR : fpPreemptive (.rbf a (.scalar C)) (hp.map fun p => RB.rbf p.1 (.scalar p.2)) limit = .ok R)
    (hL : naiveSolve (fun x => 0 + sumNeed (hp.map fun p => RB.rbf p.1 (.scalar p.2)) x +
        (RB.rbf a (.scalar C)).need x) limit = .ok L)
    (hown : ∀ Δ, Δ ≤ L → cntOf s (fun x => x = i) t₀ (t₀ + Δ) = a.N Δ)
    (hcost : ∀ k, k < s.n → s.task k = i → s.cost k = C)
    (hhp : ∀ Δ, Δ ≤ L → workOf s (fun x => x < i) t₀ (t₀ + Δ) =
        sumNeed (hp.map fun p => RB.rbf p.1 (.scalar p.2)) Δ)
    (hRpos : 0 < R) :
    ∃ j, j < s.n ∧ s.task j = i ∧ MeetsBound s j R ∧ ∀ R', R' < R → ¬ MeetsBound s j R' := by
  classical
  have hwf' : (RB.rbf a (.scalar C)).ArrWF := by simp only [RB.ArrWF]; exact hwf
  have hex' : (RB.rbf a (.scalar C)).Exact := by
    simp only [RB.Exact]; exact ⟨hex, Cost.scalar_strictPos C hC⟩
  have ho : OthersOK (hp.map fun p => RB.rbf p.1 (.scalar p.2)) := by
    intro o hoo
    obtain ⟨q, hq, rfl⟩ := List.mem_map.1 hoo
    obtain ⟨h1, h2, h3⟩ := hwfo q hq
    constructor
    · simp only [RB.ArrWF]; exact h1
    · simp only [RB.Exact]; exact ⟨h2, Cost.scalar_strictPos _ h3⟩
  generalize (hp.map fun p => RB.rbf p.1 (.scalar p.2)) = others at hS hR hL hhp ho
  have hneed : ∀ d, (RB.rbf a (.scalar C)).need d = C * a.N d := fun d => by
    simp only [RB.need, Cost.ofJobs]
  have hmono := RB.need_mono _ hwf' hex'
  have hl := hS.legal
  have hmeets := fp_preemptive_sound s id i _ _ hS hwf' hex' ho limit R hR
  have hlim : 1 ≤ limit := by
    rcases Nat.eq_zero_or_pos limit with h0 | h
    · subst h0
      unfold fpPreemptive at hR
      rw [fpCore_eq, search_limit_zero] at hR
      cases hR
    · exact h
  -- task `i` has a job (otherwise the bound is 0)
  have hjob : ∃ j, j < s.n ∧ s.task j = i := by
    by_contra hno
    push Not at hno
    have hN : ∀ Δ, Δ ≤ L → a.N Δ = 0 := by
      intro Δ hΔ
      rw [← hown Δ hΔ]
      unfold cntOf
      apply sum_eq_zero
      intro k hk
      rw [if_neg]
      intro h
      exact hno k (mem_range.1 hk) h.1
    obtain ⟨S, _, hm, he⟩ := fpCore_form (RB.rbf a (.scalar C)) others 0 0 limit hwf' hex' ho hlim
      (fun _ h => h) L hL
    have hS0 : S = [] := by
      apply List.eq_nil_iff_forall_not_mem.2
      intro A hA
      obtain ⟨hAL, hlt⟩ := (hm A).1 hA
      rw [hneed, hneed, hN A (by omega), hN (A + 1) (by omega)] at hlt
      omega
    unfold fpPreemptive at hR
    rw [he, hS0] at hR
    simp only [List.map_nil, maxResponseTime] at hR
    injection hR with hR
    omega
  have hpos : 0 < (RB.rbf a (.scalar C)).need 1 := by
    obtain ⟨j, hj, hji⟩ := hjob
    have h1 := hS.w_tua (s.arr j) 1
    rw [workOf_eq] at h1
    have h2 := workP_split s (fun k => s.task k = i ∧ s.arr j ≤ s.arr k ∧ s.arr k < s.arr j + 1)
      j hj ⟨hji, le_refl _, by omega⟩
    have := hS.cost_pos j hj
    omega
  -- the maximum is attained at some offset `A < L`
  rw [fpPreemptive_eq_naive _ _ limit hwf' hex' ho hlim hpos, naiveFp_eq, hL] at hR
  simp only at hR
  have hmem := naiveMax_attained _ R hR hRpos
  obtain ⟨A, hA, hfA⟩ := List.mem_map.1 hmem
  have hAL : A < L := List.mem_range.1 hA
  unfold fpF at hfA
  rcases naiveSolve_cases
    (fun AF => 0 + ((RB.rbf a (.scalar C)).need (A + 1) - 0) + sumNeed others AF) limit with
    ⟨AF, h⟩ | h
  swap
  · rw [h] at hfA; cases hfA
  rw [h] at hfA
  injection hfA with hfA
  obtain ⟨_, _, hleast⟩ := (naiveSolve_ok_iff _ _ _).1 h
  have hLs := ((naiveSolve_ok_iff _ _ _).1 hL).2.1
  have eL : max L 1 = L := by omega
  rw [eL] at hLs
  -- the last job of task `i` released in `[t₀, t₀ + A]`
  have hN1 : 0 < a.N (A + 1) := by
    apply Nat.pos_of_ne_zero
    intro h0
    have := hmono 1 (A + 1) (by omega)
    rw [hneed (A + 1), h0] at this
    omega
  have hne : ((range s.n).filter
      (fun k => s.task k = i ∧ t₀ ≤ s.arr k ∧ s.arr k < t₀ + (A + 1))).Nonempty := by
    by_contra hemp
    rw [Finset.not_nonempty_iff_eq_empty] at hemp
    have h0 : cntOf s (fun x => x = i) t₀ (t₀ + (A + 1)) = 0 := by
      unfold cntOf
      apply sum_eq_zero
      intro k hk
      rw [if_neg]
      intro hh
      have hkS : k ∈ (range s.n).filter
          (fun k => s.task k = i ∧ t₀ ≤ s.arr k ∧ s.arr k < t₀ + (A + 1)) := by
        rw [mem_filter]; exact ⟨hk, hh⟩
      rw [hemp] at hkS
      simp at hkS
    rw [hown _ (by omega)] at h0
    omega
  obtain ⟨Jb, hJS, hmax⟩ := Finset.exists_max_image _ id hne
  obtain ⟨hJr, hJi, hJa0, hJa1⟩ := mem_filter.1 hJS
  have hJ : Jb < s.n := mem_range.1 hJr
  refine ⟨Jb, hJ, hJi, hmeets Jb hJ hJi, ?_⟩
  intro R' hR' hm
  have hjF : svc s Jb (complTime s Jb) = s.cost Jb := complTime_spec s Jb ⟨_, hm⟩
  have hmin : ∀ t, svc s Jb t = s.cost Jb → complTime s Jb ≤ t := fun t ht => complTime_le s Jb t ht
  generalize complTime s Jb = F at hjF hmin
  have hcJ := hS.cost_pos Jb hJ
  have hF1 : 1 ≤ F := by
    rcases Nat.eq_zero_or_pos F with h0 | h0
    · subst h0
      have : svc s Jb 0 = 0 := rfl
      omega
    · exact h0
  obtain ⟨F', rfl⟩ : ∃ F', F = F' + 1 := ⟨F - 1, by omega⟩
  have hlt : svc s Jb F' < s.cost Jb := by
    have h1 := J.svc_le_cost hl Jb F'
    have h2 : svc s Jb F' ≠ s.cost Jb := fun h => by have := hmin F' h; omega
    omega
  have hsch : s.sched F' = some Jb := by
    by_contra hns
    simp only [svc, if_neg hns] at hjF
    omega
  have hpJ1 : s.arr Jb ≤ F' := (hl.valid F' Jb hsch).2.1
  have hprio : ∀ k < s.n, Pending s k F' → hepFP s id Jb k := by
    rcases hl.prio F' Jb hsch with ⟨t', _, _, hnp'⟩ | hprio
    · exact absurd hnp' (hnp _ _)
    · exact hprio
  have hnotpend : ∀ k, k < s.n → s.arr k ≤ F' → ¬ hepFP s id Jb k →
      svc s k (F' + 1) = s.cost k := by
    intro k hk hka hnh
    have hnp : ¬ Pending s k F' := fun hpk => hnh (hprio k hk hpk)
    have hd : svc s k F' = s.cost k := by
      unfold Pending at hnp
      have := J.svc_le_cost hl k F'
      omega
    exact J.done_mono hl k (by omega) hd
  have hdoneI : ∀ k, k < s.n → s.task k = i → t₀ ≤ s.arr k → s.arr k < t₀ + (A + 1) →
      svc s k (F' + 1) = s.cost k := by
    intro k hk hki h1 h2
    have hkS : k ∈ (range s.n).filter
        (fun k => s.task k = i ∧ t₀ ≤ s.arr k ∧ s.arr k < t₀ + (A + 1)) := by
      rw [mem_filter]; exact ⟨mem_range.2 hk, hki, h1, h2⟩
    have hle : k ≤ Jb := hmax k hkS
    rcases Nat.lt_or_ge k Jb with hkJ | hkJ
    · have hord := hS.ordered k Jb hk hJ (by rw [hki, hJi]) hle
      apply hnotpend k hk (by omega)
      unfold hepFP
      simp only [id]
      rintro (hh | ⟨_, hh⟩)
      · rw [hki, hJi] at hh; omega
      · omega
    · have : k = Jb := by omega
      subst this
      exact hjF
  have hdoneH : ∀ k, k < s.n → s.task k < i → s.arr k < F' + 1 →
      svc s k (F' + 1) = s.cost k := by
    intro k hk hki h2
    apply hnotpend k hk (by omega)
    unfold hepFP
    simp only [id]
    rintro (hh | ⟨hh, _⟩)
    · rw [hJi] at hh; omega
    · rw [hJi] at hh; omega
  -- count the service of these jobs in `[t₀, F' + 1)`
  obtain ⟨x, hx⟩ : ∃ x, F' + 1 = t₀ + x := ⟨F' + 1 - t₀, by omega⟩
  have hx1 : 1 ≤ x := by omega
  let p : ℕ → Prop := fun k => (s.task k = i ∧ t₀ ≤ s.arr k ∧ s.arr k < t₀ + (A + 1)) ∨
    (s.task k < i ∧ t₀ ≤ s.arr k ∧ s.arr k < t₀ + x)
  have heq : J.servedP s p (t₀ + x) = J.workP s p := by
    unfold J.servedP J.workP
    apply sum_congr rfl
    intro k hk
    have hk' := mem_range.1 hk
    by_cases hpk : p k
    · rw [if_pos hpk, if_pos hpk, ← hx]
      rcases hpk with ⟨h1, h2, h3⟩ | ⟨h1, h2, h3⟩
      · exact hdoneI k hk' h1 h2 h3
      · exact hdoneH k hk' h1 (by omega)
    · rw [if_neg hpk, if_neg hpk]
  have hzero : J.servedP s p t₀ = 0 := by
    unfold J.servedP
    apply sum_eq_zero
    intro k _
    by_cases hpk : p k
    · rw [if_pos hpk]
      apply J.svc_zero_before hl
      rcases hpk with ⟨_, h2, _⟩ | ⟨_, h2, _⟩ <;> exact h2
    · rw [if_neg hpk]
  have hlen := servedP_le_len s p t₀ x
  have hwork : J.workP s p = workOf s (fun x => x = i) t₀ (t₀ + (A + 1)) +
      workOf s (fun x => x < i) t₀ (t₀ + x) := by
    rw [workOf_eq, workOf_eq]
    exact workP_or_eq s _ _ (fun k h1 h2 => by have := h1.1; have := h2.1; omega)
  have hwI : workOf s (fun x => x = i) t₀ (t₀ + (A + 1)) = C * a.N (A + 1) := by
    rw [← hown (A + 1) (by omega)]
    unfold workOf cntOf
    rw [mul_sum]
    apply sum_congr rfl
    intro k hk
    by_cases hh : s.task k = i ∧ t₀ ≤ s.arr k ∧ s.arr k < t₀ + (A + 1)
    · rw [if_pos hh, if_pos hh, hcost k (mem_range.1 hk) hh.1, Nat.mul_one]
    · rw [if_neg hh, if_neg hh, Nat.mul_zero]
  have hAFx : AF ≤ x := by
    rcases Nat.lt_or_ge L x with hLx | hxL
    · -- the busy-window length is itself a solution of the offset equation
      by_contra hlt'
      have hc := hleast L (by omega)
      rw [eL] at hc
      have := hmono (A + 1) L (by omega)
      omega
    · by_contra hlt'
      have hc := hleast x (by omega)
      have ex : max x 1 = x := by omega
      rw [ex, hneed] at hc
      have := hhp x hxL
      omega
  have := hmin (s.arr Jb + R') hm
  omega

/-- every job set has a legal fully preemptive fixed-priority schedule (priorities = task
indices, jobs of one task in index order) -/
theorem exists_fp_preemptive_schedule (js : JobSet) (hpos : ∀ k, k < js.n → 1 ≤ js.cost k) :
    ∃ sched, JlfpLegal (js.withSched sched) (hepFP (js.withSched sched) id) := by
  have _ := hpos
  refine ⟨gschedFP js, ⟨⟨?_, ?_⟩, ?_, ?_⟩⟩
  · intro t j h
    have h' : pickUpTo (key js) (pend js (sigFP js t) t) js.n = some j := h
    rcases pick_spec (key js) (pend js (sigFP js t) t) js.n with ⟨hn, _⟩ | ⟨j', hj', hlt, hp, _⟩
    · rw [hn] at h'; cases h'
    · rw [hj'] at h'
      cases h'
      exact ⟨hlt, (pending_gschedFP js _ t).2 hp⟩
  · rintro t ⟨k, hk, hpk⟩
    have hk' : k < js.n := hk
    rcases pick_spec (key js) (pend js (sigFP js t) t) js.n with ⟨_, hall⟩ | ⟨j', hj', _, _, _⟩
    · have := (pending_gschedFP js k t).1 hpk
      rw [hall k hk'] at this
      cases this
    · exact ⟨j', hj'⟩
  · intro t k _ _ hnp
    exact hnp.elim
  · intro t j h
    right
    intro k hk hpk
    have h' : pickUpTo (key js) (pend js (sigFP js t) t) js.n = some j := h
    have hk' : k < js.n := hk
    rcases pick_spec (key js) (pend js (sigFP js t) t) js.n with ⟨hn, _⟩ | ⟨j', hj', hlt, _, hmin⟩
    · rw [hn] at h'; cases h'
    · rw [hj'] at h'
      cases h'
      exact key_le js j k hk' (hmin k hk' ((pending_gschedFP js k t).1 hpk))

end RTA.Sched
