import RTA.Lemmas.MonoRos
import RTA.Lemmas.Agree
/-! C19 / finding K3, the direction that always holds: on a dedicated processor the
event-source analysis examines the offsets `A ≤ L` (closed), the FIFO analysis `A < L`; so the
event-source bound is never smaller than the FIFO bound, and a FIFO error implies an
event-source error. -/

namespace RTA
open RTA.Spec

namespace FifoLeEsLemmas

/-- on a dedicated processor the supply-aware scan at offset 0 is the plain scan -/
theorem naiveSolveSup_dedicated (w : Nat → Nat) (limit : Nat) :
    naiveSolveSup Supply.dedicated.sbf 0 w limit = naiveSolve w limit := by
  unfold naiveSolveSup naiveSolve
  simp only [Supply.sbf, Nat.zero_add]
  rfl

end FifoLeEsLemmas
open FifoLeEsLemmas MonoRosLemmas RosNaiveLemmas PruneCoreLemmas

theorem fifo_le_event_source (r : RB) (hwf : r.ArrWF) (hex : r.Exact) (limit : Nat) (hl : 1 ≤ limit) :
    Res.leD (fifoRta r limit) (rosEventSource .dedicated r limit) := by
  rw [fifo_eq_naive r hwf hex limit hl, eventSource_eq_naive .dedicated trivial r hwf hex limit hl]
  unfold naiveFifo naiveEventSource naiveRosBound
  rw [naiveSolveSup_dedicated]
  rcases naiveSolve_cases (fun L => r.need L) limit with ⟨L, hL⟩ | hd
  · rw [hL]
    simp only []
    rw [← naiveMax_ok (fun A => r.need (A + 1) - A) (List.range L)]
    apply naiveMax_leD
    · intro A _ h; cases h
    · intro A _; exact nss_ne_panic _ _ _ _
    · intro A hA
      refine ⟨A, List.mem_range.2 (by have := List.mem_range.1 hA; omega), ?_⟩
      rcases nss_cases Supply.dedicated.sbf A (fun _ => r.need (A + 1)) limit with ⟨x, hx⟩ | hx
      · rw [hx]
        have h2 := ((nss_ok_iff _ _ _ _ _).1 hx).2.1
        replace h2 : r.need (A + 1) ≤ A + x := h2
        show r.need (A + 1) - A ≤ x
        omega
      · rw [hx]; exact trivial
  · rw [hd]
    exact trivial

end RTA
