import RTA.Lemmas.ExecRefineChain
import RTA.Lemmas.ExecEndToEnd
import RTA.Lemmas.ChainSound
/-! End-to-end soundness of the processing-chain analysis (`rta_processing_chain`) over the
executor transition system with a linear chain `ch = [c₀, …, c_k]`: every hypothesis is on the
INPUTS of the run, the conclusion on the completions that the executable `Exec.run` reports:
the `m`-th completion of the last callback is within `R` of the `m`-th release of the chain's
source `c₀` (chain instances do not overtake each other). -/

namespace RTA.Exec
open RTA RTA.Sched RTA.Spec

/-- the release times of callback `i` in time order (releases before `H`) -/
def relTimes (rels : ℕ → List ℕ) (H i : ℕ) : List ℕ :=
  ((events rels H).filter fun e => e.2 = i).map (·.1)

/-- the completions of callback `l` that a run reports, in the order reported -/
def completionsOf (outs : List (ℕ × ℕ × ℕ)) (l : ℕ) : List ℕ :=
  (outs.filter fun o => o.1 = l).map (·.2.2)

end RTA.Exec

namespace RTA.Exec.ChainEndToEndLemmas
open RTA RTA.Sched RTA.Spec RTA.Exec RefineLemmas ChainRefineLemmas

/-! ### lists -/

theorem filter_map_getD {α β} (l : List α) (p : α → Bool) (f : α → β) (d : α) :
    (l.filter p).map f =
      ((List.range l.length).filter (fun k => p (l.getD k d))).map (fun k => f (l.getD k d)) := by
  induction l with
  | nil => simp
  | cons a l ih =>
    rw [List.length_cons, List.range_succ_eq_map, List.filter_cons, List.filter_cons, List.filter_map]
    have e0 : (a :: l).getD 0 d = a := rfl
    rw [e0]
    have e1 : (List.filter p l).map f = List.map (fun k => f ((a :: l).getD k d)) (List.map Nat.succ
        (List.filter ((fun k => p ((a :: l).getD k d)) ∘ Nat.succ) (List.range l.length))) := by
      rw [List.map_map]; exact ih
    cases p a
    · simpa using e1
    · simp only [if_true, List.map_cons, e0, e1]

/-- the `m`-th release time of callback `i` is the time of the `m`-th event of `i` -/
theorem relTimes_get (rels : ℕ → List ℕ) (H i m e : ℕ) (h : nthEventOf rels H i m = some e) :
    (relTimes rels H i)[m]? = some ((events rels H).getD e (0, 0)).1 := by
  unfold relTimes
  rw [filter_map_getD (events rels H) (fun e => decide (e.2 = i)) (·.1) (0, 0), List.getElem?_map]
  have h' : ((List.range (events rels H).length).filter
      fun k => decide (((events rels H).getD k (0, 0)).2 = i))[m]? = some e := h
  rw [h']
  rfl

theorem relTimes_length (rels : ℕ → List ℕ) (H i : ℕ) :
    (relTimes rels H i).length = cnt rels i H := by
  unfold relTimes
  rw [List.length_map, ← countP_events, List.countP_eq_length_filter]

/-! ### `Exec.run` visits the states `stateAtC` -/

section run
variable (cbs : List Cb) (ch : List ℕ) (sigma : ℕ → Bool) (rels : ℕ → List ℕ)

local notation "St" => stateAtC cbs ch sigma rels
local notation "Pk" => pickedAtC cbs ch sigma rels
local notation "sb" => startedBeforeC cbs ch sigma rels
local notation "served" => servedCbC cbs ch sigma rels
local notation "starts" => startsCbC cbs ch sigma rels

/-- the completion reported by slot `u` of the infinite run -/
def outAtC (u : ℕ) : Option (ℕ × ℕ × ℕ) :=
  (step cbs (chainFn ch) u (sigma u) (rels u) (St u)).2

theorem go_eq : ∀ m t,
    run.go cbs (chainFn ch) rels ((List.range' t m).map sigma) t (St t) =
      (List.range' t m).filterMap (outAtC cbs ch sigma rels) := by
  intro m
  induction m with
  | zero => intro t; simp [run.go]
  | succ m ih =>
    intro t
    rw [List.range'_succ, List.map_cons, List.filterMap_cons]
    simp only [run.go]
    have e1 : (step cbs (chainFn ch) t (sigma t) (rels t) (St t)).1 = St (t + 1) := rfl
    have e2 : outAtC cbs ch sigma rels t = (step cbs (chainFn ch) t (sigma t) (rels t) (St t)).2 := rfl
    rw [e2]
    cases hout : (step cbs (chainFn ch) t (sigma t) (rels t) (St t)).2 with
    | none =>
      rw [e1]
      exact ih (t + 1)
    | some o' =>
      rw [e1]
      simp only
      rw [ih (t + 1)]

theorem fin_out (t : ℕ) (s2 : State) :
    (match s2.running with
      | none => ((s2, none) : State × Option (ℕ × ℕ × ℕ))
      | some (i, rem, r) =>
        if rem ≤ 1 then
          let q := match chainFn ch i with
            | some j => addReleases s2.queue [j] (t + 1)
            | none => s2.queue
          ({ s2 with queue := q, running := none }, some (i, r, t + 1))
        else ({ s2 with running := some (i, rem - 1, r) }, none)).2 =
    match s2.running with
    | none => none
    | some (i, rem, r) => if rem ≤ 1 then some (i, r, t + 1) else none := by
  rcases s2.running with _ | ⟨i, rem, r⟩
  · rfl
  · simp only
    split <;> rfl

theorem outAtC_eq (u : ℕ) : outAtC cbs ch sigma rels u =
    if sigma u = true then
      (match (Pk u).running with
        | none => none
        | some (i, rem, r) => if rem ≤ 1 then some (i, r, u + 1) else none)
    else none := by
  cases hs : sigma u with
  | false => simp [outAtC, step, hs]
  | true =>
    simp only [outAtC, step, pickedAtC, hs]
    simp only [Bool.not_true, Bool.false_eq_true, if_false, if_true]
    exact fin_out ch u _

/-- an instance of `l` completes in slot `u` -/
def complAt (l u : ℕ) : Bool := (served u == some l) && (St (u + 1)).running.isNone

theorem outAtC_spec (l u : ℕ) :
    (outAtC cbs ch sigma rels u = none ∧ complAt cbs ch sigma rels l u = false) ∨
    ∃ i r, outAtC cbs ch sigma rels u = some (i, r, u + 1) ∧
      (complAt cbs ch sigma rels l u = true ↔ i = l) := by
  rw [outAtC_eq]
  unfold complAt
  rw [servedCbC_eq, stateAtC_succ]
  cases hs : sigma u with
  | false => left; simp
  | true =>
    simp only [if_true]
    rw [fin_running]
    rcases hr : (Pk u).running with _ | ⟨i, rem, r⟩
    · left; simp
    · by_cases h : rem ≤ 1
      · right
        refine ⟨i, r, by simp [h], ?_⟩
        simp [h]
      · left
        simp [h]

theorem compl_list (l : ℕ) : ∀ xs : List ℕ,
    completionsOf (xs.filterMap (outAtC cbs ch sigma rels)) l =
      (xs.filter (complAt cbs ch sigma rels l)).map (· + 1) := by
  intro xs
  induction xs with
  | nil => rfl
  | cons x xs ih =>
    rw [List.filterMap_cons, List.filter_cons]
    rcases outAtC_spec cbs ch sigma rels l x with ⟨h1, h2⟩ | ⟨i, r, h1, h2⟩
    · rw [h1, h2]
      simpa using ih
    · rw [h1]
      simp only
      unfold completionsOf at ih ⊢
      rw [List.filter_cons]
      by_cases e : i = l
      · rw [if_pos (h2.2 e)]
        simp only [e, decide_true, if_true, List.map_cons]
        rw [ih]
      · have : ¬ complAt cbs ch sigma rels l x = true := fun hh => e (h2.1 hh)
        rw [if_neg this]
        simp only [e, decide_false, Bool.false_eq_true, if_false]
        exact ih

theorem run_eq (l n : ℕ) :
    completionsOf (Exec.run cbs (chainFn ch) ((List.range n).map sigma) rels) l =
      ((List.range n).filter (complAt cbs ch sigma rels l)).map (· + 1) := by
  have h := go_eq cbs ch sigma rels n 0
  rw [← List.range_eq_range'] at h
  have : Exec.run cbs (chainFn ch) ((List.range n).map sigma) rels =
      (List.range n).filterMap (outAtC cbs ch sigma rels) := h
  rw [this]
  exact compl_list cbs ch sigma rels l _

end run

/-! ### the number of completions of `l` -/

section count
variable {cbs : List Cb} {ch : List ℕ} {sigma : ℕ → Bool} {rels : ℕ → List ℕ} {H : ℕ}
variable (hy : Hyp cbs ch rels H)

local notation "St" => stateAtC cbs ch sigma rels
local notation "sb" => startedBeforeC cbs ch sigma rels
local notation "served" => servedCbC cbs ch sigma rels
local notation "starts" => startsCbC cbs ch sigma rels
local notation "Sy" => toSysC cbs ch sigma rels H
local notation "job" => jobC ch rels H
local notation "compl" => complAt cbs ch sigma rels

variable (cbs ch sigma rels) in
/-- an instance of `l` is running at the beginning of slot `t` -/
def runsL (l t : ℕ) : ℕ := if (St t).running.map (·.1) = some l then 1 else 0

theorem done_succ (l t : ℕ) :
    ((List.range (t + 1)).filter (compl l)).length =
      ((List.range t).filter (compl l)).length + if compl l t = true then 1 else 0 := by
  rw [List.range_succ, List.filter_append, List.length_append]
  cases h : compl l t <;> simp [h]

include hy

theorem count_inv (l : ℕ) : ∀ t,
    ((List.range t).filter (compl l)).length + runsL cbs ch sigma rels l t = sb l t := by
  intro t
  induction t with
  | zero => simp [runsL, stateAtC, State.init, startedBeforeC]
  | succ t ih =>
    rw [done_succ, sbC_succ]
    unfold runsL at ih ⊢
    generalize ((List.range t).filter (compl l)).length = c at ih ⊢
    unfold complAt
    rcases slots (sigma := sigma) hy t with
      ⟨hsv, hst, hrun, _⟩ | ⟨_, i, rem, r, hr, hsv, hst, hnext⟩ | ⟨_, hr, i, r0, hsv, hst, hi, _, hnext⟩
    · rw [hsv, hst, hrun]
      simp only [show ((none : Option ℕ) == some l) = false from rfl, Bool.false_and,
        Bool.false_eq_true, if_false]
      omega
    · rw [hsv, hst, hnext]
      rw [hr] at ih
      by_cases e : i = l
      · subst e
        by_cases h : rem ≤ 1
        · simp [h] at ih ⊢; omega
        · simp [h] at ih ⊢; omega
      · have e' : ¬ l = i := fun h => e h.symm
        by_cases h : rem ≤ 1
        · simp [h, e] at ih ⊢; omega
        · simp [h, e] at ih ⊢; omega
    · generalize (cbs.getD i default).cost = cst at hnext
      rw [hsv, hnext]
      rw [hr] at ih
      by_cases e : i = l
      · subst e
        rw [(hst i).2 rfl]
        by_cases h : cst ≤ 1
        · simp [h] at ih ⊢; omega
        · simp [h] at ih ⊢; omega
      · have e' : ¬ l = i := fun h => e h.symm
        have hs' : starts t l = false := by
          cases hh : starts t l with
          | false => rfl
          | true => exact absurd ((hst l).1 hh) e'
        rw [hs']
        by_cases h : cst ≤ 1
        · simp [h, e] at ih ⊢; omega
        · simp [h, e] at ih ⊢; omega

/-- the instance of `l` that completes in slot `u` is the `done l u`-th one -/
theorem compl_job (l u : ℕ) (hc : compl l u = true) :
    ∃ k, job l ((List.range u).filter (compl l)).length = some k ∧ (Sy).sched u = some k ∧
      ((List.range u).filter (compl l)).length < cnt rels (src ch l) (u + 1) := by
  have hsv : served u = some l := by
    unfold complAt at hc
    simp only [Bool.and_eq_true, beq_iff_eq] at hc
    exact hc.1
  have hcnt := count_inv (sigma := sigma) hy l u
  obtain ⟨_, hlt⟩ := served_lt hy hsv
  have hsch := sched_eqC (sigma := sigma) hy u
  rw [hsv] at hsch
  simp only at hsch
  have hm : (if starts u l = true then sb l u else sb l u - 1) =
      ((List.range u).filter (compl l)).length := by
    unfold runsL at hcnt
    have g := inv1 (sigma := sigma) hy u
    rcases slots (sigma := sigma) hy u with
      ⟨hsv', _⟩ | ⟨_, i, rem, r, hr, hsv', hst, _⟩ | ⟨_, hr, i, r0, hsv', hst, _⟩
    · rw [hsv'] at hsv; cases hsv
    · rw [hsv'] at hsv; cases hsv
      rw [hst]
      rw [hr] at hcnt
      simp at hcnt ⊢
      omega
    · rw [hsv'] at hsv; cases hsv
      rw [(hst l).2 rfl]
      rw [hr] at hcnt
      simp at hcnt ⊢
      omega
  rw [hm] at hlt hsch
  obtain ⟨k, hk⟩ := jobC_some (rels := rels) (H := H) hy.hnd (i := l)
    (m := ((List.range u).filter (compl l)).length)
    (by have := cnt_le_H (rels := rels) hy.hfin (src ch l) (u + 1); omega)
  exact ⟨k, hk, by rw [hsch, hk], hlt⟩

end count

end RTA.Exec.ChainEndToEndLemmas

namespace RTA.Exec
open RTA RTA.Sched RTA.Spec

open ChainEndToEndLemmas RefineLemmas ChainRefineLemmas in
/-- link between the job system `toSysC` (every callback instance of the chain carries the arrival
time of its source event) and the completions reported by `Exec.run`: if every job of the last
callback meets `R`, then the `m`-th reported completion of the last callback is within `R` of
the `m`-th release of the chain's source -/
theorem run_chain_meets_of_sysC (cbs : List Cb) (ch : List ℕ) (sigma : ℕ → Bool) (rels : ℕ → List ℕ)
    (H l : ℕ)
    (hch : ch.Nodup) (hne : 2 ≤ ch.length) (hlast : ch.getLast? = some l)
    (hmem : ∀ i ∈ ch, i < cbs.length ∧ (cbs.getD i default).isTimer = false)
    (hidx : ∀ t, ∀ i ∈ rels t, i < cbs.length)
    (hext : ∀ t, ∀ i ∈ rels t, i ∉ ch.tail)
    (hfin : ∀ t, H ≤ t → rels t = [])
    (hcost : ∀ c ∈ cbs, 1 ≤ c.cost)
    (R : ℕ)
    (hmeets : ∀ j, j < (toSysC cbs ch sigma rels H).n → (toSysC cbs ch sigma rels H).task j = l →
      MeetsBound (toSysC cbs ch sigma rels H) j R)
    (n m : ℕ)
    (hm : m < (completionsOf (Exec.run cbs (chainFn ch) ((List.range n).map sigma) rels) l).length) :
    m < (relTimes rels H (ch.headD 0)).length ∧
    (completionsOf (Exec.run cbs (chainFn ch) ((List.range n).map sigma) rels) l).getD m 0 ≤
      (relTimes rels H (ch.headD 0)).getD m 0 + R := by
  have _ := hne
  have hy : Hyp cbs ch rels H := ⟨hch, fun i hi => (hmem i hi).1, hidx, hext, hfin, hcost⟩
  have hl : l ∈ ch := List.mem_of_getLast? hlast
  have hsrc : src ch l = ch.headD 0 := by unfold src; rw [if_pos hl]
  rw [run_eq] at hm ⊢
  rw [List.length_map] at hm
  -- the slot of the `m`-th completion
  obtain ⟨u, hu⟩ : ∃ u, ((List.range n).filter (complAt cbs ch sigma rels l))[m]? = some u :=
    ⟨_, List.getElem?_eq_getElem hm⟩
  obtain ⟨_, hcu, hcount⟩ := (filt_range_idx _ n m u).1 hu
  have hget : (((List.range n).filter (complAt cbs ch sigma rels l)).map (· + 1)).getD m 0 = u + 1 := by
    rw [List.getD_eq_getElem?_getD, List.getElem?_map, hu]; rfl
  rw [hget]
  -- the job that completes there
  obtain ⟨k, hk, hsch, hlt⟩ := compl_job (sigma := sigma) hy l u hcu
  rw [hcount] at hk hlt
  rw [hsrc] at hlt
  obtain ⟨hkn, hpend, _⟩ := c_validC (sigma := sigma) hy u k hsch
  obtain ⟨_, hkt, harr⟩ := jobC_facts (cbs := cbs) (sigma := sigma) hch hfin hk
  rw [hsrc] at harr
  have hmH : m < cnt rels (ch.headD 0) H := by
    have := cnt_le_H (rels := rels) hfin (ch.headD 0) (u + 1); omega
  obtain ⟨e, he⟩ := job_some rels H (ch.headD 0) m hmH
  have hrt := relTimes_get rels H (ch.headD 0) m e he
  have hgetr : (relTimes rels H (ch.headD 0)).getD m 0 = ((events rels H).getD e (0, 0)).1 := by
    rw [List.getD_eq_getElem?_getD, hrt]; rfl
  have hearr := job_arr rels H hfin he
  have harr_eq : (toSysC cbs ch sigma rels H).arr k = ((events rels H).getD e (0, 0)).1 := by
    have h1 := harr ((toSysC cbs ch sigma rels H).arr k)
    have h2 := hearr ((toSysC cbs ch sigma rels H).arr k + 1)
    have h3 := harr (((events rels H).getD e (0, 0)).1)
    have h4 := hearr (((events rels H).getD e (0, 0)).1 + 1)
    have : ((events rels H).getD e (0, 0)).1 ≤ (toSysC cbs ch sigma rels H).arr k := by
      have := h2.2 (h1.1 (Nat.le_refl _)); omega
    have : (toSysC cbs ch sigma rels H).arr k ≤ ((events rels H).getD e (0, 0)).1 :=
      h3.2 (h4.1 (by omega))
    omega
  refine ⟨by rw [relTimes_length]; exact hmH, ?_⟩
  rw [hgetr, ← harr_eq]
  have hmt : svc (toSysC cbs ch sigma rels H) k ((toSysC cbs ch sigma rels H).arr k + R) =
      (toSysC cbs ch sigma rels H).cost k := hmeets k hkn hkt
  rcases Nat.lt_or_ge u ((toSysC cbs ch sigma rels H).arr k + R) with hlt' | hge
  · omega
  · have := svc_mono (s := toSysC cbs ch sigma rels H) k hge
    have := hpend.2
    omega

end RTA.Exec

/-! ### counting the jobs of `toSysC` -/

namespace RTA.Exec.ChainEndToEndLemmas
open RTA RTA.Sched RTA.Spec RTA.Exec RefineLemmas ChainRefineLemmas Finset

theorem cnt_add (rels : ℕ → List ℕ) (i t : ℕ) : ∀ d,
    cnt rels i (t + d) = cnt rels i t + relCount rels i t d := by
  intro d
  induction d with
  | zero => simp [relCount]
  | succ d ih =>
    show cnt rels i (t + d) + (rels (t + d)).count i = _
    rw [ih, EndToEndLemmas.relCount_eq, EndToEndLemmas.relCount_eq, Finset.sum_range_succ]
    omega

theorem sum_range_mul' (g : ℕ → ℕ) (M : ℕ) : ∀ X,
    ∑ j ∈ range (X * M), g j = ∑ x ∈ range X, ∑ m ∈ range M, g (x * M + m) := by
  intro X
  induction X with
  | zero => simp
  | succ X ih => rw [Nat.succ_mul, Finset.sum_range_add, ih, Finset.sum_range_succ]

theorem window_count (a b : ℕ) : ∀ M,
    ∑ m ∈ range M, (if a ≤ m ∧ m < b then 1 else 0) ≤ min M b - a := by
  intro M
  induction M with
  | zero => simp
  | succ M ih => rw [Finset.sum_range_succ]; split <;> omega

theorem mem_head_or_tail {ch : List ℕ} {i : ℕ} (h : i ∈ ch) : i = ch.headD 0 ∨ i ∈ ch.tail := by
  cases ch with
  | nil => cases h
  | cons a l => simpa using h

section sums
variable {cbs : List Cb} {ch : List ℕ} {sigma : ℕ → Bool} {rels : ℕ → List ℕ} {H : ℕ}

local notation "Sy" => toSysC cbs ch sigma rels H

theorem ev_not_tail (hext : ∀ t, ∀ i ∈ rels t, i ∉ ch.tail) {k : ℕ}
    (hk : k < (events rels H).length) : ((events rels H).getD k (0, 0)).2 ∉ ch.tail := by
  have hev : ((events rels H).getD k (0, 0)) ∈ events rels H := by
    rw [List.getD_eq_getElem?_getD, List.getElem?_eq_getElem hk, Option.getD_some]
    exact List.getElem_mem _
  simp only [events, List.mem_flatMap, List.mem_range, List.mem_map] at hev
  obtain ⟨t, _, i, hi, e'⟩ := hev
  rw [← show (t, i) = ((events rels H).getD k (0, 0)) from e']
  exact hext t i hi

/-- one stage of the chain: the jobs of `c_{x+1}` released in a window -/
theorem stage_sum (hfin : ∀ t, H ≤ t → rels t = []) (P : ℕ → Prop) [DecidablePred P] (c : ℕ → ℕ)
    (t d x : ℕ) (hx : x + 1 < ch.length) :
    ∑ m ∈ range (nSrc ch rels H),
      (if P ((Sy).task ((events rels H).length + (x * nSrc ch rels H + m))) ∧
          t ≤ (Sy).arr ((events rels H).length + (x * nSrc ch rels H + m)) ∧
          (Sy).arr ((events rels H).length + (x * nSrc ch rels H + m)) < t + d
        then c ((Sy).task ((events rels H).length + (x * nSrc ch rels H + m))) else 0) ≤
    (if P (cAt ch (x + 1)) then c (cAt ch (x + 1)) else 0) * relCount rels (cAt ch 0) t d := by
  have hpt : ∀ m ∈ range (nSrc ch rels H),
      (if P ((Sy).task ((events rels H).length + (x * nSrc ch rels H + m))) ∧
          t ≤ (Sy).arr ((events rels H).length + (x * nSrc ch rels H + m)) ∧
          (Sy).arr ((events rels H).length + (x * nSrc ch rels H + m)) < t + d
        then c ((Sy).task ((events rels H).length + (x * nSrc ch rels H + m))) else 0) =
      (if P (cAt ch (x + 1)) then c (cAt ch (x + 1)) else 0) *
        (if cnt rels (cAt ch 0) t ≤ m ∧ m < cnt rels (cAt ch 0) (t + d) then 1 else 0) := by
    intro m hm
    rw [Finset.mem_range] at hm
    obtain ⟨_, htask, harr⟩ := stage_facts (cbs := cbs) (sigma := sigma) hfin hx hm
    rw [← Nat.add_assoc, htask]
    generalize (Sy).arr ((events rels H).length + x * nSrc ch rels H + m) = A at harr
    have hlt : ∀ T, A < T ↔ m < cnt rels (cAt ch 0) T := by
      intro T
      cases T with
      | zero =>
        have : cnt rels (cAt ch 0) 0 = 0 := rfl
        omega
      | succ T' => rw [← harr T']; omega
    have hw : (t ≤ A ∧ A < t + d) ↔
        (cnt rels (cAt ch 0) t ≤ m ∧ m < cnt rels (cAt ch 0) (t + d)) := by
      rw [← hlt (t + d)]
      have := hlt t
      omega
    by_cases hP : P (cAt ch (x + 1))
    · by_cases hW : t ≤ A ∧ A < t + d
      · rw [if_pos ⟨hP, hW⟩, if_pos hP, if_pos (hw.1 hW), Nat.mul_one]
      · rw [if_neg (fun h => hW h.2), if_neg (fun h => hW (hw.2 h)), Nat.mul_zero]
    · rw [if_neg (fun h => hP h.1), if_neg hP, Nat.zero_mul]
  rw [Finset.sum_congr rfl hpt, ← Finset.mul_sum]
  apply Nat.mul_le_mul_left
  have h1 := window_count (cnt rels (cAt ch 0) t) (cnt rels (cAt ch 0) (t + d)) (nSrc ch rels H)
  have h2 := cnt_add rels (cAt ch 0) t d
  omega

/-- the general counting lemma for `toSysC`: the external release events, plus one job per
source event for every later stage -/
theorem toSysC_sum_le (hfin : ∀ t, H ≤ t → rels t = []) (P : ℕ → Prop) [DecidablePred P]
    (c : ℕ → ℕ) (t d : ℕ) :
    (∑ k ∈ range (Sy).n,
      if P ((Sy).task k) ∧ t ≤ (Sy).arr k ∧ (Sy).arr k < t + d then c ((Sy).task k) else 0) ≤
    (∑ k ∈ range (events rels H).length,
      if P ((Sy).task k) ∧ t ≤ (Sy).arr k ∧ (Sy).arr k < t + d then c ((Sy).task k) else 0) +
    ∑ x ∈ range (ch.length - 1),
      (if P (cAt ch (x + 1)) then c (cAt ch (x + 1)) else 0) * relCount rels (cAt ch 0) t d := by
  show (∑ k ∈ range ((events rels H).length + (ch.length - 1) * nSrc ch rels H), _) ≤ _
  rw [Finset.sum_range_add, sum_range_mul']
  apply Nat.add_le_add_left
  apply Finset.sum_le_sum
  intro x hx
  rw [Finset.mem_range] at hx
  exact stage_sum hfin P c t d x (by omega)

end sums

section bounds2
variable {cbs : List Cb} {ch : List ℕ} {sigma : ℕ → Bool} {rels : ℕ → List ℕ} {H : ℕ}

local notation "Sy" => toSysC cbs ch sigma rels H

theorem last_eq {l K : ℕ} (hK : ch.length = K + 2) (hlast : ch.getLast? = some l) :
    cAt ch (K + 1) = l := by
  rw [List.getLast?_eq_getElem?, hK] at hlast
  unfold cAt
  rw [List.getD_eq_getElem?_getD]
  have : K + 2 - 1 = K + 1 := by omega
  rw [this] at hlast
  rw [hlast]; rfl

/-- (i) the jobs of the last callback released in a window -/
theorem countOf_toSysC_le (hch : ch.Nodup) (hext : ∀ t, ∀ i ∈ rels t, i ∉ ch.tail)
    (hfin : ∀ t, H ≤ t → rels t = []) {l K : ℕ} (hK : ch.length = K + 2)
    (hlast : ch.getLast? = some l) (t d : ℕ) :
    countOf (Sy) l t (t + d) ≤ relCount rels (ch.headD 0) t d := by
  have hl := last_eq hK hlast
  have hlt : l ∈ ch.tail := mem_tail.2 ⟨K, by omega, hl.symm⟩
  unfold countOf
  rw [Finset.card_filter]
  refine Nat.le_trans (toSysC_sum_le (cbs := cbs) (sigma := sigma) hfin (fun i => i = l)
    (fun _ => 1) t d) ?_
  have h0 : (∑ k ∈ range (events rels H).length,
      if (Sy).task k = l ∧ t ≤ (Sy).arr k ∧ (Sy).arr k < t + d then 1 else 0) = 0 := by
    apply Finset.sum_eq_zero
    intro k hk
    rw [Finset.mem_range] at hk
    rw [if_neg]
    rintro ⟨h, _⟩
    have := ev_not_tail (H := H) hext hk
    rw [← (ext_facts (cbs := cbs) (ch := ch) (sigma := sigma) hk).1, h] at this
    exact this hlt
  rw [h0, Nat.zero_add, headD_eq]
  have hpt : ∀ x ∈ range (ch.length - 1),
      (if cAt ch (x + 1) = l then 1 else 0) * relCount rels (cAt ch 0) t d =
        if x = K then relCount rels (cAt ch 0) t d else 0 := by
    intro x hx
    rw [Finset.mem_range] at hx
    by_cases e : x = K
    · subst e; rw [if_pos hl, if_pos rfl, Nat.one_mul]
    · rw [if_neg e, if_neg, Nat.zero_mul]
      intro h
      rw [← hl] at h
      have := cAt_inj hch (by omega) (by omega) h
      omega
  rw [Finset.sum_congr rfl hpt, Finset.sum_ite_eq']
  split <;> omega

/-- (ii) the work of the other callbacks (chain prefix and callbacks outside the chain) released
in a window -/
theorem workOf_toSysC_le (hch : ch.Nodup) (hidx : ∀ t, ∀ i ∈ rels t, i < cbs.length)
    (hext : ∀ t, ∀ i ∈ rels t, i ∉ ch.tail)
    (hfin : ∀ t, H ≤ t → rels t = []) {l K : ℕ} (hK : ch.length = K + 2)
    (hlast : ch.getLast? = some l) (t d : ℕ) :
    workOf (Sy) (fun k => k ≠ l) t (t + d) ≤
      relCount rels (ch.headD 0) t d * (ch.dropLast.map fun i => (cbs.getD i default).cost).sum +
      (((List.range cbs.length).filter fun k => decide (k ∉ ch)).map fun k =>
        relCount rels k t d * (cbs.getD k default).cost).sum := by
  have hl := last_eq hK hlast
  have hlt : l ∈ ch.tail := mem_tail.2 ⟨K, by omega, hl.symm⟩
  have h0 : ch.headD 0 ∈ ch := by rw [headD_eq]; exact cAt_mem (by omega)
  refine Nat.le_trans (toSysC_sum_le (cbs := cbs) (sigma := sigma) hfin (fun i => i ≠ l)
    (fun i => (cbs.getD i default).cost) t d) ?_
  -- the external events
  have hev : (∑ k ∈ range (events rels H).length,
      if (Sy).task k ≠ l ∧ t ≤ (Sy).arr k ∧ (Sy).arr k < t + d
        then (cbs.getD ((Sy).task k) default).cost else 0) ≤
      relCount rels (ch.headD 0) t d * (cbs.getD (ch.headD 0) default).cost +
      (((List.range cbs.length).filter fun k => decide (k ∉ ch)).map fun k =>
        relCount rels k t d * (cbs.getD k default).cost).sum := by
    have hpt : ∀ k ∈ range (events rels H).length,
        (if (Sy).task k ≠ l ∧ t ≤ (Sy).arr k ∧ (Sy).arr k < t + d
          then (cbs.getD ((Sy).task k) default).cost else 0) =
        (if (toSys cbs sigma rels H).task k = ch.headD 0 ∧ t ≤ (toSys cbs sigma rels H).arr k ∧
            (toSys cbs sigma rels H).arr k < t + d then 1 else 0) *
          (cbs.getD (ch.headD 0) default).cost +
        (if (toSys cbs sigma rels H).task k ∉ ch ∧ t ≤ (toSys cbs sigma rels H).arr k ∧
            (toSys cbs sigma rels H).arr k < t + d then (toSys cbs sigma rels H).cost k else 0) := by
      intro k hk
      rw [Finset.mem_range] at hk
      have hnt := ev_not_tail (H := H) hext hk
      obtain ⟨e1, e2⟩ := ext_facts (cbs := cbs) (ch := ch) (sigma := sigma) hk
      rw [e1, e2]
      show _ = (if ((events rels H).getD k (0, 0)).2 = ch.headD 0 ∧ t ≤ ((events rels H).getD k (0, 0)).1 ∧
            ((events rels H).getD k (0, 0)).1 < t + d then 1 else 0) *
          (cbs.getD (ch.headD 0) default).cost +
        (if ((events rels H).getD k (0, 0)).2 ∉ ch ∧ t ≤ ((events rels H).getD k (0, 0)).1 ∧
            ((events rels H).getD k (0, 0)).1 < t + d
          then (cbs.getD ((events rels H).getD k (0, 0)).2 default).cost else 0)
      generalize ((events rels H).getD k (0, 0)).2 = i at hnt
      generalize ((events rels H).getD k (0, 0)).1 = A
      have hil : i ≠ l := fun e => hnt (e ▸ hlt)
      by_cases hW : t ≤ A ∧ A < t + d
      · by_cases hi : i = ch.headD 0
        · rw [if_pos ⟨hil, hW⟩, if_pos ⟨hi, hW⟩, if_neg (fun h => h.1 (hi ▸ h0)), hi]; omega
        · have hic : i ∉ ch := fun h => by
            rcases mem_head_or_tail h with h | h
            · exact hi h
            · exact hnt h
          rw [if_pos ⟨hil, hW⟩, if_neg (fun h => hi h.1), if_pos ⟨hic, hW⟩]; omega
      · rw [if_neg (fun h => hW h.2), if_neg (fun h => hW h.2), if_neg (fun h => hW h.2)]; omega
    rw [Finset.sum_congr rfl hpt, Finset.sum_add_distrib, ← Finset.sum_mul]
    have h1 := countOf_toSys_le cbs sigma rels H (ch.headD 0) t d
    unfold countOf at h1
    rw [Finset.card_filter] at h1
    have h2 := workOf_toSys_le cbs sigma rels H hidx (fun k => k ∉ ch) t d
    unfold workOf at h2
    exact Nat.add_le_add (Nat.mul_le_mul_right _ h1) h2
  -- the later stages
  have hst : ∑ x ∈ range (ch.length - 1),
      (if cAt ch (x + 1) ≠ l then (cbs.getD (cAt ch (x + 1)) default).cost else 0) *
        relCount rels (cAt ch 0) t d =
      relCount rels (ch.headD 0) t d *
        ∑ x ∈ range K, (cbs.getD (cAt ch (x + 1)) default).cost := by
    have e : ch.length - 1 = K + 1 := by omega
    rw [e, Finset.sum_range_succ, hl, if_neg (by simp), Nat.zero_mul, Nat.add_zero, headD_eq,
      Finset.mul_sum]
    apply Finset.sum_congr rfl
    intro x hx
    rw [Finset.mem_range] at hx
    rw [if_pos, Nat.mul_comm]
    intro h
    rw [← hl] at h
    have := cAt_inj hch (by omega) (by omega) h
    omega
  -- the prefix cost
  have hP : (ch.dropLast.map fun i => (cbs.getD i default).cost).sum =
      (cbs.getD (ch.headD 0) default).cost + ∑ x ∈ range K, (cbs.getD (cAt ch (x + 1)) default).cost := by
    rw [← EndToEndLemmas.sum_range_getD (fun i => (cbs.getD i default).cost) 0 ch.dropLast,
      List.length_dropLast]
    have e : ch.length - 1 = K + 1 := by omega
    rw [e, Finset.sum_range_succ', Nat.add_comm]
    have hget : ∀ x, x < K + 1 → ch.dropLast.getD x 0 = cAt ch x := by
      intro x hx
      unfold cAt
      rw [List.getD_eq_getElem?_getD, List.getD_eq_getElem?_getD, List.dropLast_eq_take,
        List.getElem?_take, if_pos (by omega)]
    congr 1
    · rw [hget 0 (by omega), headD_eq]
    · apply Finset.sum_congr rfl
      intro x hx
      rw [Finset.mem_range] at hx
      rw [hget (x + 1) (by omega)]
  rw [hst, hP, Nat.mul_add]
  omega

theorem dropLast_cost_pos {K : ℕ} (hK : ch.length = K + 2)
    (h0 : 1 ≤ (cbs.getD (ch.headD 0) default).cost) :
    1 ≤ (ch.dropLast.map fun i => (cbs.getD i default).cost).sum := by
  cases ch with
  | nil => simp at hK
  | cons a l =>
    cases l with
    | nil => simp at hK
    | cons b l' =>
      simp only [List.dropLast_cons_cons, List.map_cons, List.sum_cons]
      have : 1 ≤ (cbs.getD a default).cost := h0
      omega

theorem need_le' (arrs : List Arr) (rels : ℕ → List ℕ) (c : ℕ → ℕ) (t d : ℕ) :
    ∀ ks : List ℕ, (∀ k ∈ ks, relCount rels k t d ≤ (arrs.getD k default).N d) →
      (ks.map fun k => relCount rels k t d * c k).sum ≤
        RB.needList (ks.map fun k => .rbf (arrs.getD k default) (.scalar (c k))) d := by
  intro ks
  induction ks with
  | nil => intro _; simp [RB.needList]
  | cons a ks ih =>
    intro h
    have := ih (fun k hk => h k (List.mem_cons_of_mem _ hk))
    simp only [List.map_cons, List.sum_cons, RB.needList, RB.need, Cost.ofJobs]
    have h1 : relCount rels a t d * c a ≤ c a * (arrs.getD a default).N d := by
      rw [Nat.mul_comm]; exact Nat.mul_le_mul_left _ (h a (by simp))
    omega

end bounds2

end RTA.Exec.ChainEndToEndLemmas

namespace RTA.Exec
open RTA RTA.Sched RTA.Spec

open ChainEndToEndLemmas RefineLemmas ChainRefineLemmas in
/-- **processing chain, end to end.**  `a` bounds the releases of the chain's source `c₀`, `arrs`
the releases of the callbacks outside the chain; `C` is the cost of the last callback, `P` the
total cost of the callbacks before it; `others` = all callbacks outside the chain. -/
theorem chain_exec_sound (cbs : List Cb) (ch : List ℕ) (sigma : ℕ → Bool) (rels : ℕ → List ℕ)
    (H l : ℕ)
    (hch : ch.Nodup) (hne : 2 ≤ ch.length) (hlast : ch.getLast? = some l)
    (hmem : ∀ i ∈ ch, i < cbs.length ∧ (cbs.getD i default).isTimer = false)
    (hidx : ∀ t, ∀ i ∈ rels t, i < cbs.length)
    (hext : ∀ t, ∀ i ∈ rels t, i ∉ ch.tail)
    (hfin : ∀ t, H ≤ t → rels t = [])
    (hcb : ∀ c ∈ cbs, 1 ≤ c.cost)
    (sup : Supply) (hs : sup.WF) (hsbf : ∀ t d, sup.sbf d ≤ service sigma t d)
    (a : Arr) (hwf : a.WF) (hex : a.Exact)
    (hsrc : ∀ t d, relCount rels (ch.headD 0) t d ≤ a.N d)
    (arrs : List Arr) (hlen : arrs.length = cbs.length) (hwfo : ∀ b ∈ arrs, b.WF ∧ b.Exact)
    (hrel : ∀ k, k < cbs.length → k ∉ ch → ∀ t d, relCount rels k t d ≤ (arrs.getD k default).N d)
    (limit R : ℕ)
    (hR : rosChain sup
      (.rbf a (.scalar (cbs.getD l default).cost))
      (.rbf a (.scalar ((ch.dropLast.map fun i => (cbs.getD i default).cost).sum)))
      (.rbf a (.scalar ((cbs.getD l default).cost + (ch.dropLast.map fun i => (cbs.getD i default).cost).sum)))
      (.agg (((List.range cbs.length).filter fun k => decide (k ∉ ch)).map
        fun k => .rbf (arrs.getD k default) (.scalar (cbs.getD k default).cost))) limit = .ok R)
    (n m : ℕ)
    (hm : m < (completionsOf (Exec.run cbs (chainFn ch) ((List.range n).map sigma) rels) l).length) :
    (completionsOf (Exec.run cbs (chainFn ch) ((List.range n).map sigma) rels) l).getD m 0 ≤
      (relTimes rels H (ch.headD 0)).getD m 0 + R := by
  obtain ⟨K, hK⟩ : ∃ K, ch.length = K + 2 := ⟨ch.length - 2, by omega⟩
  have hl : l ∈ ch := List.mem_of_getLast? hlast
  have h0 : ch.headD 0 ∈ ch := by rw [headD_eq]; exact cAt_mem (by omega)
  have hkslt := EndToEndLemmas.mem_filter_range_lt cbs.length (fun k => decide (k ∉ ch))
  have hcpos : ∀ k, k < cbs.length → 1 ≤ (cbs.getD k default).cost :=
    fun k hk => hcb _ (EndToEndLemmas.getD_mem' cbs k hk)
  have hagg := EndToEndLemmas.agg_wf arrs cbs.length hlen hwfo (fun k => (cbs.getD k default).cost)
    hcpos _ hkslt
  have hPsum := dropLast_cost_pos (cbs := cbs) hK (hcpos _ (hmem _ h0).1)
  refine (run_chain_meets_of_sysC cbs ch sigma rels H l hch hne hlast hmem hidx hext hfin hcb R ?_
    n m hm).2
  refine chain_sound _ sigma l
    (run_chain_legal cbs ch sigma rels H l hch hne hlast hmem hidx hext hfin hcb)
    sup hs hsbf a (cbs.getD l default).cost
    ((ch.dropLast.map fun i => (cbs.getD i default).cost).sum) hwf hex (hcpos l (hmem l hl).1) hPsum
    _ (by simp only [RB.ArrWF]; exact hagg.1) (by simp only [RB.Exact]; exact hagg.2)
    ?_ ?_ ?_ limit R hR
  · exact fun t d => Nat.le_trans
      (countOf_toSysC_le (cbs := cbs) (sigma := sigma) hch hext hfin hK hlast t d) (hsrc t d)
  · intro k _ hk
    show (cbs.getD ((toSysC cbs ch sigma rels H).task k) default).cost ≤ _
    rw [hk]
  · intro t d
    refine Nat.le_trans
      (workOf_toSysC_le (cbs := cbs) (sigma := sigma) hch hidx hext hfin hK hlast t d) ?_
    rw [ChainSoundLemmas.need_scalar]
    apply Nat.add_le_add
    · rw [Nat.mul_comm]; exact Nat.mul_le_mul_left _ (hsrc t d)
    · simp only [RB.need]
      refine need_le' arrs rels _ t d _ ?_
      intro k hk
      have hk' := List.mem_filter.1 hk
      exact hrel k (List.mem_range.1 hk'.1) (by simpa using hk'.2) t d

end RTA.Exec
