import RTA.Model.Derive
import RTA.Lemmas.ArrAll
/-! C12: curves derived from traces and from other arrival bounds. -/

namespace RTA
open RTA.Spec

/-! ### `Curve::from_trace` -/

namespace DeriveLemmas

theorem go_length (t : Nat) : ∀ d w : List Nat,
    (traceUpdate.go t d w).length = max d.length w.length := by
  intro d w
  induction w generalizing d with
  | nil => cases d <;> simp [traceUpdate.go]
  | cons v vs ih =>
    cases d with
    | nil => simp only [traceUpdate.go, List.length_cons, ih]; simp
    | cons x xs => simp only [traceUpdate.go, List.length_cons, ih]; omega

theorem go_getD (t : Nat) : ∀ (d w : List Nat) (k : Nat),
    (traceUpdate.go t d w).getD k 0 =
      if k < w.length then
        (if k < d.length then min (d.getD k 0) (t - w.getD k 0) else t - w.getD k 0)
      else d.getD k 0 := by
  intro d w
  induction w generalizing d with
  | nil => intro k; cases d <;> simp [traceUpdate.go]
  | cons v vs ih =>
    intro k
    cases d with
    | nil =>
      simp only [traceUpdate.go]
      cases k with
      | zero => simp
      | succ k =>
        rw [List.getD_cons_succ, ih]
        simp
    | cons x xs =>
      simp only [traceUpdate.go]
      cases k with
      | zero => simp
      | succ k =>
        rw [List.getD_cons_succ, ih]
        simp

theorem getD_take (l : List Nat) (p k : Nat) (hk : k < p) : (l.take p).getD k 0 = l.getD k 0 := by
  rw [List.getD_eq_getElem?_getD, List.getD_eq_getElem?_getD, List.getElem?_take, if_pos hk]

theorem getD_le_of_all (l : List Nat) (t : Nat) (h : ∀ v ∈ l, v ≤ t) (k : Nat) : l.getD k 0 ≤ t := by
  rw [List.getD_eq_getElem?_getD]
  by_cases hk : k < l.length
  · rw [List.getElem?_eq_getElem hk]
    exact h _ (List.getElem_mem hk)
  · rw [List.getElem?_eq_none (by omega)]
    exact Nat.zero_le _

/-- invariant of `Curve::from_trace`: `rd` = processed events, most recent first -/
def TraceInv (p : Nat) (rd d : List Nat) : Prop :=
  d.length = min p (rd.length - 1) ∧
  ∀ k, k < d.length →
    (∀ j, j + k + 1 < rd.length → d.getD k 0 + rd.getD (j + k + 1) 0 ≤ rd.getD j 0) ∧
    (∃ j, j + k + 1 < rd.length ∧ d.getD k 0 + rd.getD (j + k + 1) 0 = rd.getD j 0)

theorem traceInv_step (p : Nat) (rd d : List Nat) (t : Nat) (ht : ∀ v ∈ rd, v ≤ t)
    (h : TraceInv p rd d) : TraceInv p (t :: rd) (traceUpdate d (rd.take p) t) := by
  obtain ⟨hlen, hk⟩ := h
  have hwl : (rd.take p).length = min p rd.length := List.length_take
  have hlen' : (traceUpdate d (rd.take p) t).length = min p rd.length := by
    unfold traceUpdate
    rw [go_length, hwl, hlen]; omega
  refine ⟨by rw [hlen']; simp, ?_⟩
  intro k hklt
  rw [hlen'] at hklt
  have hget : (traceUpdate d (rd.take p) t).getD k 0 =
      if k < d.length then min (d.getD k 0) (t - rd.getD k 0) else t - rd.getD k 0 := by
    unfold traceUpdate
    rw [go_getD, hwl, if_pos hklt, getD_take _ _ _ (by omega)]
  have hrk : rd.getD k 0 ≤ t := getD_le_of_all rd t ht k
  rw [hget]
  by_cases hkd : k < d.length
  · rw [if_pos hkd]
    obtain ⟨hlb, j0, hj0, hatt⟩ := hk k hkd
    constructor
    · intro j hj
      cases j with
      | zero =>
        rw [Nat.zero_add, List.getD_cons_succ, List.getD_cons_zero]
        omega
      | succ j =>
        have e : j + 1 + k + 1 = (j + k + 1) + 1 := by omega
        rw [e, List.getD_cons_succ, List.getD_cons_succ]
        have := hlb j (by simp only [List.length_cons] at hj; omega)
        omega
    · by_cases hmin : d.getD k 0 ≤ t - rd.getD k 0
      · refine ⟨j0 + 1, by simp only [List.length_cons]; omega, ?_⟩
        have e : j0 + 1 + k + 1 = (j0 + k + 1) + 1 := by omega
        rw [e, List.getD_cons_succ, List.getD_cons_succ, Nat.min_eq_left hmin]
        exact hatt
      · refine ⟨0, by simp only [List.length_cons]; omega, ?_⟩
        rw [Nat.zero_add, List.getD_cons_succ, List.getD_cons_zero, Nat.min_eq_right (by omega)]
        omega
  · rw [if_neg hkd]
    constructor
    · intro j hj
      simp only [List.length_cons] at hj
      have : j = 0 := by omega
      subst this
      rw [Nat.zero_add, List.getD_cons_succ, List.getD_cons_zero]
      omega
    · refine ⟨0, by simp only [List.length_cons]; omega, ?_⟩
      rw [Nat.zero_add, List.getD_cons_succ, List.getD_cons_zero]
      omega

theorem take_cons_take (p : Nat) (t : Nat) (rd : List Nat) :
    (t :: rd.take p).take p = (t :: rd).take p := by
  cases p with
  | zero => rfl
  | succ p =>
    rw [List.take_succ_cons, List.take_succ_cons, List.take_take]
    congr 2
    omega

theorem traceAux_inv (p : Nat) : ∀ (rest rd d : List Nat), rest.Pairwise (· ≤ ·) →
    (∀ t ∈ rest, ∀ v ∈ rd, v ≤ t) → TraceInv p rd d →
    TraceInv p (rest.reverse ++ rd) (curveFromTraceAux p rest d (rd.take p)) := by
  intro rest
  induction rest with
  | nil => intro rd d _ _ h; simpa [curveFromTraceAux] using h
  | cons t ts ih =>
    intro rd d hs hle h
    rw [List.pairwise_cons] at hs
    simp only [curveFromTraceAux]
    rw [take_cons_take, List.reverse_cons, List.append_assoc, List.singleton_append]
    apply ih (t :: rd) _ hs.2
    · intro t' ht' v hv
      rw [List.mem_cons] at hv
      rcases hv with rfl | hv
      · exact hs.1 t' ht'
      · exact hle t' (List.mem_cons_of_mem _ ht') v hv
    · exact traceInv_step p rd d t (fun v hv => hle t List.mem_cons_self v hv) h

theorem getD_reverse (l : List Nat) (i : Nat) (hi : i < l.length) :
    l.reverse.getD i 0 = l.getD (l.length - 1 - i) 0 := by
  rw [List.getD_eq_getElem?_getD, List.getD_eq_getElem?_getD, List.getElem?_reverse hi]

theorem sorted_getD_le (l : List Nat) (hs : l.Pairwise (· ≤ ·)) (a b : Nat) (hab : a ≤ b)
    (hb : b < l.length) : l.getD a 0 ≤ l.getD b 0 := by
  rcases Nat.lt_or_eq_of_le hab with h | h
  · rw [List.getD_eq_getElem?_getD, List.getD_eq_getElem?_getD,
      List.getElem?_eq_getElem (by omega : a < l.length), List.getElem?_eq_getElem hb]
    exact (List.pairwise_iff_getElem.1 hs) a b (by omega) hb h
  · subst h; exact Nat.le_refl _

theorem sorted_of_adjacent (l : List Nat)
    (h : ∀ k, k + 1 < l.length → l.getD k 0 ≤ l.getD (k + 1) 0) : l.Pairwise (· ≤ ·) := by
  induction l with
  | nil => exact List.Pairwise.nil
  | cons a as ih =>
    have ih' := ih (fun k hk => by
      have := h (k + 1) (by simp only [List.length_cons]; omega)
      rw [List.getD_cons_succ, List.getD_cons_succ] at this
      exact this)
    rw [List.pairwise_cons]
    refine ⟨?_, ih'⟩
    cases as with
    | nil => intro v hv; simp at hv
    | cons b bs =>
      have h0 := h 0 (by simp)
      simp only [List.getD_cons_zero, List.getD_cons_succ] at h0
      intro v hv
      have := sorted_head_le ih' v hv
      omega

end DeriveLemmas
open DeriveLemmas

/-- `Curve::from_trace` on a sorted trace: entry `k` is the minimum span of `k + 2`
consecutive trace events; there are `min p (len - 1)` entries -/
theorem curveFromTrace_spec (τ : List Nat) (hs : τ.Pairwise (· ≤ ·)) (p : Nat) :
    (curveFromTrace τ p).length = min p (τ.length - 1) ∧
    ∀ k, k < (curveFromTrace τ p).length →
      (∀ i, i + k + 1 < τ.length → (curveFromTrace τ p).getD k 0 + τ.getD i 0 ≤ τ.getD (i + k + 1) 0) ∧
      (∃ i, i + k + 1 < τ.length ∧ (curveFromTrace τ p).getD k 0 + τ.getD i 0 = τ.getD (i + k + 1) 0) := by
  have h0 : TraceInv p [] [] := ⟨by simp, fun k hk => by simp at hk⟩
  have h := traceAux_inv p τ [] [] hs (fun _ _ v hv => by simp at hv) h0
  rw [List.append_nil, List.take_nil] at h
  change TraceInv p τ.reverse (curveFromTrace τ p) at h
  obtain ⟨hlen, hk⟩ := h
  rw [List.length_reverse] at hlen hk
  refine ⟨hlen, fun k hkl => ?_⟩
  obtain ⟨hlb, j0, hj0, hatt⟩ := hk k hkl
  constructor
  · intro i hi
    have := hlb (τ.length - 2 - i - k) (by omega)
    rw [getD_reverse _ _ (by omega), getD_reverse _ _ (by omega)] at this
    have e1 : τ.length - 1 - (τ.length - 2 - i - k + k + 1) = i := by omega
    have e2 : τ.length - 1 - (τ.length - 2 - i - k) = i + k + 1 := by omega
    rw [e1, e2] at this
    exact this
  · refine ⟨τ.length - 2 - j0 - k, by omega, ?_⟩
    rw [getD_reverse _ _ (by omega), getD_reverse _ _ (by omega)] at hatt
    have e1 : τ.length - 1 - (j0 + k + 1) = τ.length - 2 - j0 - k := by omega
    have e2 : τ.length - 1 - j0 = τ.length - 2 - j0 - k + k + 1 := by omega
    rw [e1, e2] at hatt
    exact hatt

theorem curveFromTrace_respects (τ : List Nat) (hs : τ.Pairwise (· ≤ ·)) (p : Nat) :
    Respects (curveFromTrace τ p) τ := by
  refine ⟨hs, fun i k hk hi => ?_⟩
  have := ((curveFromTrace_spec τ hs p).2 k hk).1 i hi
  omega

theorem curveFromTrace_sorted (τ : List Nat) (hs : τ.Pairwise (· ≤ ·)) (p : Nat) :
    (curveFromTrace τ p).Pairwise (· ≤ ·) := by
  apply sorted_of_adjacent
  intro k hk
  obtain ⟨_, hspec⟩ := curveFromTrace_spec τ hs p
  obtain ⟨i, hi, hatt⟩ := (hspec (k + 1) hk).2
  have h1 := (hspec k (by omega)).1 i (by omega)
  have h2 := sorted_getD_le τ hs (i + k + 1) (i + (k + 1) + 1) (by omega) hi
  omega

/-- C12: the inferred curve bounds the number of trace events in every window of every
length (also far beyond the recorded prefix), provided it is usable at all (at least two
events, `p ≥ 1`, and not all of the first `p + 1` spans are zero) -/
theorem curveFromTrace_bounds (τ : List Nat) (hs : τ.Pairwise (· ≤ ·)) (p : Nat)
    (hne : curveFromTrace τ p ≠ []) (hlast : 1 ≤ (curveFromTrace τ p).getLastD 0) (t x : Nat) :
    cnt τ t x ≤ curveN (curveFromTrace τ p) x :=
  curve_bounds _ ⟨hne, curveFromTrace_sorted τ hs p, hlast⟩ τ (curveFromTrace_respects τ hs p) t x

/-! ### `delta_min_iter` is the exact dual of `number_arrivals` -/

namespace DeriveLemmas

/-- no increase point in `(lo, hi]` ⇒ `N` constant on `[lo, hi]` -/
theorem const_of_no_inc (N : Nat → Nat) (hm : MonoN N) (lo : Nat) : ∀ hi,
    (∀ y, lo < y → y ≤ hi → ¬ N (y - 1) < N y) → lo ≤ hi → N hi = N lo := by
  intro hi
  induction hi with
  | zero => intro _ h; have : lo = 0 := by omega
            subst this; rfl
  | succ hi ih =>
    intro h hle
    rcases Nat.lt_or_eq_of_le hle with hlt | heq
    · have h1 := ih (fun y h1 h2 => h y h1 (by omega)) (by omega)
      have h2 := h (hi + 1) (by omega) (Nat.le_refl _)
      rw [Nat.add_sub_cancel] at h2
      have h3 := hm hi (hi + 1) (by omega)
      omega
    · rw [heq]

theorem mem_emit (next cnt δ n x : Nat) :
    (n, x) ∈ (List.range (cnt + 1 - next)).map (fun i => (next + i, δ - 1)) ↔
      (x = δ - 1 ∧ next ≤ n ∧ n ≤ cnt) := by
  rw [List.mem_map]
  constructor
  · rintro ⟨i, hi, e⟩
    rw [List.mem_range] at hi
    simp only [Prod.mk.injEq] at e
    omega
  · rintro ⟨h1, h2, h3⟩
    refine ⟨n - next, List.mem_range.2 (by omega), ?_⟩
    simp only [Prod.mk.injEq]
    omega

/-- the scan over the increase points in `(lo, H]` -/
theorem dminScan_mem (N : Nat → Nat) (hm : MonoN N) (H : Nat) : ∀ (steps : List Nat) (lo next : Nat),
    steps.Pairwise (· < ·) →
    (∀ δ, δ ∈ steps ↔ (lo < δ ∧ δ ≤ H ∧ N (δ - 1) < N δ)) →
    next = max 2 (N lo + 1) →
    ∀ n x, (n, x) ∈ dminScan N steps next ↔
      (2 ≤ n ∧ lo ≤ x ∧ x + 1 ≤ H ∧ N x < n ∧ n ≤ N (x + 1)) := by
  intro steps
  induction steps with
  | nil =>
    intro lo next _ hmem hnext n x
    simp only [dminScan, List.not_mem_nil, false_iff]
    rintro ⟨_, h2, h3, h4, h5⟩
    have := (hmem (x + 1)).2 ⟨by omega, h3, by rw [Nat.add_sub_cancel]; omega⟩
    simp at this
  | cons δ rest ih =>
    intro lo next hpw hmem hnext n x
    rw [List.pairwise_cons] at hpw
    have hδ := (hmem δ).1 List.mem_cons_self
    have hconst : N (δ - 1) = N lo := by
      apply const_of_no_inc N hm lo (δ - 1) _ (by omega)
      intro y h1 h2 h3
      have := (hmem y).2 ⟨h1, by omega, h3⟩
      rw [List.mem_cons] at this
      rcases this with h | h
      · omega
      · have := hpw.1 y h; omega
    have hmem' : ∀ δ', δ' ∈ rest ↔ (δ < δ' ∧ δ' ≤ H ∧ N (δ' - 1) < N δ') := by
      intro δ'
      constructor
      · intro h
        have h1 := (hmem δ').1 (List.mem_cons_of_mem _ h)
        exact ⟨hpw.1 δ' h, h1.2⟩
      · rintro ⟨h1, h2, h3⟩
        have := (hmem δ').2 ⟨by omega, h2, h3⟩
        rw [List.mem_cons] at this
        rcases this with h | h
        · omega
        · exact h
    have hinc : ∀ y, lo < y → y ≤ H → N (y - 1) < N y → y = δ ∨ δ < y := by
      intro y h1 h2 h3
      have := (hmem y).2 ⟨h1, h2, h3⟩
      rw [List.mem_cons] at this
      rcases this with h | h
      · exact Or.inl h
      · exact Or.inr (hpw.1 y h)
    simp only [dminScan]
    by_cases hc : next ≤ N δ
    · rw [if_pos hc, List.mem_append, mem_emit,
        ih δ (N δ + 1) hpw.2 hmem' (by omega) n x]
      constructor
      · rintro (⟨h1, h2, h3⟩ | ⟨h1, h2, h3, h4, h5⟩)
        · subst h1
          have e : δ - 1 + 1 = δ := by omega
          rw [e]
          exact ⟨by omega, by omega, hδ.2.1, by omega, h3⟩
        · exact ⟨h1, by omega, h3, h4, h5⟩
      · rintro ⟨h1, h2, h3, h4, h5⟩
        rcases hinc (x + 1) (by omega) h3 (by rw [Nat.add_sub_cancel]; omega) with h | h
        · left
          subst h
          rw [Nat.add_sub_cancel] at hconst
          exact ⟨by omega, by omega, h5⟩
        · right
          exact ⟨h1, by omega, h3, h4, h5⟩
    · rw [if_neg hc, ih δ next hpw.2 hmem' (by omega) n x]
      constructor
      · rintro ⟨h1, h2, h3, h4, h5⟩
        exact ⟨h1, by omega, h3, h4, h5⟩
      · rintro ⟨h1, h2, h3, h4, h5⟩
        rcases hinc (x + 1) (by omega) h3 (by rw [Nat.add_sub_cancel]; omega) with h | h
        · subst h
          rw [Nat.add_sub_cancel] at hconst
          omega
        · exact ⟨h1, by omega, h3, h4, h5⟩

theorem dminScan_fst (N : Nat → Nat) : ∀ (steps : List Nat) (next : Nat),
    (dminScan N steps next).map (·.1) =
      (List.range (dminScan N steps next).length).map (· + next) := by
  intro steps
  induction steps with
  | nil => intro next; simp [dminScan]
  | cons δ rest ih =>
    intro next
    simp only [dminScan]
    by_cases hc : next ≤ N δ
    · rw [if_pos hc, List.map_append, List.length_append, List.length_map, List.length_range,
        List.range_add, List.map_append, ih, List.map_map, List.map_map]
      congr 1
      · apply List.map_congr_left
        intro i _
        simp only [Function.comp]
        omega
      · apply List.map_congr_left
        intro i _
        simp only [Function.comp]
        omega
    · rw [if_neg hc, ih]

theorem dminScan_snd_mem (N : Nat → Nat) : ∀ (steps : List Nat) (next : Nat),
    ∀ v ∈ (dminScan N steps next).map (·.2), ∃ δ ∈ steps, v = δ - 1 := by
  intro steps
  induction steps with
  | nil => intro next v hv; simp [dminScan] at hv
  | cons δ rest ih =>
    intro next v hv
    simp only [dminScan] at hv
    split at hv
    · rw [List.map_append, List.mem_append] at hv
      rcases hv with hv | hv
      · rw [List.map_map, List.mem_map] at hv
        obtain ⟨i, _, e⟩ := hv
        exact ⟨δ, List.mem_cons_self, e.symm⟩
      · obtain ⟨δ', h1, h2⟩ := ih _ v hv
        exact ⟨δ', List.mem_cons_of_mem _ h1, h2⟩
    · obtain ⟨δ', h1, h2⟩ := ih _ v hv
      exact ⟨δ', List.mem_cons_of_mem _ h1, h2⟩

theorem dminScan_snd_sorted (N : Nat → Nat) : ∀ (steps : List Nat) (next : Nat),
    steps.Pairwise (· < ·) → ((dminScan N steps next).map (·.2)).Pairwise (· ≤ ·) := by
  intro steps
  induction steps with
  | nil => intro next _; simp [dminScan]
  | cons δ rest ih =>
    intro next hpw
    rw [List.pairwise_cons] at hpw
    simp only [dminScan]
    split
    · rw [List.map_append, List.pairwise_append]
      refine ⟨?_, ih _ hpw.2, ?_⟩
      · rw [List.map_map, List.pairwise_map]
        exact List.pairwise_of_forall (fun _ _ => Nat.le_refl _)
      · intro u hu v hv
        rw [List.map_map, List.mem_map] at hu
        obtain ⟨i, _, e⟩ := hu
        obtain ⟨δ', h1, h2⟩ := dminScan_snd_mem N rest _ v hv
        have := hpw.1 δ' h1
        simp only [Function.comp] at e
        omega
    · exact ih _ hpw.2

end DeriveLemmas

/-- for `n ≥ 2`, `(n, x)` is reported (within horizon `H`) exactly when `n` events fit into
some window of length `x + 1` but into no window of length `x` -/
theorem dminEntries_dual (a : Arr) (hwf : a.WF) (hex : a.Exact) (H n x : Nat) :
    (n, x) ∈ a.dminEntries H ↔ (2 ≤ n ∧ x + 1 ≤ H ∧ a.N x < n ∧ n ≤ a.N (x + 1)) := by
  have hs := Arr.steps_spec a hwf hex H
  unfold Arr.dminEntries
  rw [dminScan_mem a.N (Arr.N_mono a hwf) H (a.stepsUpTo H) 0 2 hs.1 (fun δ => by rw [hs.2 δ]; omega)
    (by rw [Arr.N_zero]; rfl) n x]
  omega

/-- the reported job counts are consecutive starting at 2 and the distances non-decreasing -/
theorem dminEntries_shape (a : Arr) (hwf : a.WF) (hex : a.Exact) (H : Nat) :
    ((a.dminEntries H).map (·.1) = (List.range (a.dminEntries H).length).map (· + 2)) ∧
    ((a.dminEntries H).map (·.2)).Pairwise (· ≤ ·) :=
  ⟨dminScan_fst a.N _ 2, dminScan_snd_sorted a.N _ 2 (Arr.steps_spec a hwf hex H).1⟩

/-! ### curves derived from arrival bounds dominate their source -/

def SubAdditive (N : Nat → Nat) : Prop := ∀ a b, N (a + b) ≤ N a + N b

/-- a delta-min vector that is the exact dual of `N` on its range: entry `k` is the `x`
with `N x < k + 2 ≤ N (x + 1)` -/
def DualOf (N : Nat → Nat) (d : List Nat) : Prop :=
  ∀ k, k < d.length → N (d.getD k 0) < k + 2 ∧ k + 2 ≤ N (d.getD k 0 + 1)

namespace DeriveLemmas

theorem subadd_mul (N : Nat → Nat) (hsub : SubAdditive N) (L t : Nat) : ∀ q,
    N (q * L + t) ≤ q * N L + N t := by
  intro q
  induction q with
  | zero => simp
  | succ q ih =>
    have e : (q + 1) * L + t = L + (q * L + t) := by rw [Nat.add_mul]; omega
    rw [e, Nat.add_mul, Nat.one_mul]
    have := hsub L (q * L + t)
    omega

theorem dual_eq_below (N : Nat → Nat) (d : List Nat) (hN0 : N 0 = 0) (hpos : 1 ≤ N 1)
    (hmono : MonoN N) (hwf : curveWF d) (hdual : DualOf N d) (x : Nat)
    (hx : x < d.getLastD 0) : curveN d x = N x := by
  by_cases hx0 : x = 0
  · subst hx0; rw [curveN_zero, hN0]
  · rw [curveN_small d hwf x (by omega) hx]
    have hc := countLt_lt_length d hwf.1 x (Nat.le_of_lt hx)
    have h1 := getD_ge_of_countLt d hwf.2.1 x (countLt d x) (Nat.le_refl _) hc
    have h2 := hmono _ _ h1
    have h3 := (hdual (countLt d x) hc).1
    by_cases hc0 : countLt d x = 0
    · have := hmono 1 x (by omega)
      omega
    · have h4 := getD_lt_of_countLt d hwf.2.1 x (countLt d x - 1) (by omega)
      have h5 := (hdual (countLt d x - 1) (by omega)).2
      have h6 := hmono (d.getD (countLt d x - 1) 0 + 1) x (by omega)
      omega

/-- least crossing point -/
theorem exists_cross (N : Nat → Nat) (n : Nat) (h0 : N 0 < n) : ∀ H, n ≤ N H →
    ∃ x, x + 1 ≤ H ∧ N x < n ∧ n ≤ N (x + 1) := by
  intro H
  induction H with
  | zero => intro h; omega
  | succ H ih =>
    intro h
    by_cases hH : n ≤ N H
    · obtain ⟨x, h1, h2⟩ := ih hH
      exact ⟨x, by omega, h2⟩
    · exact ⟨H, Nat.le_refl _, by omega, h⟩

/-- entries numbered consecutively from `s`: filtering on the number is a `take` -/
theorem filter_consecutive (m : Nat) : ∀ (l : List (Nat × Nat)) (s : Nat),
    l.map (·.1) = (List.range l.length).map (· + s) →
    l.filter (fun e => decide (e.1 ≤ m)) = l.take (m + 1 - s) := by
  intro l
  induction l with
  | nil => intro s _; simp
  | cons e l ih =>
    intro s h
    rw [List.length_cons, List.range_succ_eq_map, List.map_cons, List.map_cons, List.map_map] at h
    rw [List.cons.injEq] at h
    obtain ⟨he, hl⟩ := h
    have hl' : l.map (·.1) = (List.range l.length).map (· + (s + 1)) := by
      rw [hl]
      apply List.map_congr_left
      intro i _
      simp only [Function.comp]
      omega
    have ih' := ih (s + 1) hl'
    rw [List.filter_cons]
    simp only [Nat.zero_add] at he
    by_cases hs : s ≤ m
    · rw [if_pos (by simpa [he] using hs), ih']
      obtain ⟨j, hj⟩ : ∃ j, m + 1 - s = j + 1 := ⟨m - s, by omega⟩
      rw [hj, List.take_succ_cons]
      congr 2
      omega
    · rw [if_neg (by simpa [he] using hs), ih']
      have e1 : m + 1 - (s + 1) = 0 := by omega
      have e2 : m + 1 - s = 0 := by omega
      rw [e1, e2]; rfl

end DeriveLemmas

/-- a curve that is the dual of a monotone, sub-additive bound with `N 0 = 0`, `N 1 ≥ 1`
coincides with it below the largest recorded distance and is never smaller anywhere -/
theorem dual_curve_dominates (N : Nat → Nat) (d : List Nat) (hN0 : N 0 = 0) (hpos : 1 ≤ N 1)
    (hmono : MonoN N) (hsub : SubAdditive N) (hwf : curveWF d) (hdual : DualOf N d) :
    (∀ x, N x ≤ curveN d x) ∧ (∀ x, x < d.getLastD 0 → curveN d x = N x) := by
  have hbelow := dual_eq_below N d hN0 hpos hmono hwf hdual
  refine ⟨fun x => ?_, hbelow⟩
  by_cases hx0 : x = 0
  · subst hx0; rw [hN0]; exact Nat.zero_le _
  obtain ⟨c, t, ht1, ht, hx, hN⟩ := curveN_decomp d hwf x (by omega)
  have hlen : 0 < d.length := List.length_pos_iff.2 hwf.1
  have h1 := subadd_mul N hsub (d.getLastD 0) t c
  have h2 := (hdual (d.length - 1) (by omega)).1
  rw [getD_last d hwf.1] at h2
  have h3 : c * N (d.getLastD 0) ≤ c * d.length := Nat.mul_le_mul_left c (by omega)
  have hc := countLt_lt_length d hwf.1 t ht
  have h4 := getD_ge_of_countLt d hwf.2.1 t (countLt d t) (Nat.le_refl _) hc
  have h5 := hmono _ _ h4
  have h6 := (hdual (countLt d t) hc).1
  rw [hN, hx]
  omega

/-- `Curve::from_arrival_bound(&a, up_to)` is the dual of `a` with `max up_to 3 - 1` entries,
when the doubling search of the model finds a horizon with enough arrivals -/
theorem curveOfBound_dual (a : Arr) (hwf : a.WF) (hex : a.Exact) (upTo : Nat)
    (hreach : max upTo 3 + 1 ≤ a.N (Arr.horizonFor a (max upTo 3 + 1) 64 1)) :
    (a.curveOfBound upTo).length = max upTo 3 - 1 ∧ DualOf a.N (a.curveOfBound upTo) ∧
    (a.curveOfBound upTo).Pairwise (· ≤ ·) := by
  unfold Arr.curveOfBound
  simp only []
  generalize hm : max upTo 3 = m at *
  generalize hH : Arr.horizonFor a (m + 1) 64 1 = H at *
  have hm3 : 3 ≤ m := by omega
  obtain ⟨hfst, hsnd⟩ := dminEntries_shape a hwf hex H
  have hdual := dminEntries_dual a hwf hex H
  generalize hE : a.dminEntries H = E at *
  have hfilter := filter_consecutive m E 2 hfst
  have e : m + 1 - 2 = m - 1 := by omega
  rw [e] at hfilter
  rw [hfilter]
  -- E is long enough
  have hElen : m - 1 ≤ E.length := by
    obtain ⟨x, h1, h2, h3⟩ := exists_cross a.N m (by rw [Arr.N_zero]; omega) H (by omega)
    have hmem := (hdual m x).2 ⟨by omega, h1, h2, h3⟩
    have : m ∈ E.map (·.1) := List.mem_map.2 ⟨(m, x), hmem, rfl⟩
    rw [hfst, List.mem_map] at this
    obtain ⟨i, hi, e⟩ := this
    rw [List.mem_range] at hi
    omega
  have hlen : ((E.take (m - 1)).map (·.2)).length = m - 1 := by
    rw [List.length_map, List.length_take]; omega
  refine ⟨hlen, ?_, ?_⟩
  · intro k hk
    rw [hlen] at hk
    have hkE : k < E.length := by omega
    have hget : ((E.take (m - 1)).map (·.2)).getD k 0 = (E[k]).2 := by
      rw [List.getD_eq_getElem?_getD, List.getElem?_map, List.getElem?_take, if_pos hk,
        List.getElem?_eq_getElem hkE]
      rfl
    have hf : (E[k]).1 = k + 2 := by
      have h1 : (E.map (·.1))[k]? = ((List.range E.length).map (· + 2))[k]? := by rw [hfst]
      rw [List.getElem?_map, List.getElem?_map, List.getElem?_eq_getElem hkE,
        List.getElem?_eq_getElem (by simpa using hkE)] at h1
      simpa using h1
    have hmem : (k + 2, (E[k]).2) ∈ E := by
      rw [← hf]; exact List.getElem_mem hkE
    have := (hdual _ _).1 hmem
    rw [hget]
    exact ⟨this.2.2.1, this.2.2.2⟩
  · rw [List.map_take]
    exact hsnd.sublist (List.take_sublist _ _)

/-- C12 for `Curve::from_arrival_bound`: never smaller than the source at any interval
length, equal to it up to the covered prefix -/
theorem curveOfBound_dominates (a : Arr) (hwf : a.WF) (hex : a.Exact) (upTo : Nat)
    (hreach : max upTo 3 + 1 ≤ a.N (Arr.horizonFor a (max upTo 3 + 1) 64 1))
    (hpos : 1 ≤ a.N 1) (hsub : SubAdditive a.N) (hlast : 1 ≤ (a.curveOfBound upTo).getLastD 0) :
    (∀ x, a.N x ≤ curveN (a.curveOfBound upTo) x) ∧
    (∀ x, x < (a.curveOfBound upTo).getLastD 0 → curveN (a.curveOfBound upTo) x = a.N x) := by
  obtain ⟨hlen, hdual, hsorted⟩ := curveOfBound_dual a hwf hex upTo hreach
  have hne : a.curveOfBound upTo ≠ [] := by
    intro h
    rw [h] at hlen
    simp at hlen
    omega
  exact dual_curve_dominates a.N _ (Arr.N_zero a) hpos (Arr.N_mono a hwf) hsub
    ⟨hne, hsorted, hlast⟩ hdual

/-- `From<Periodic> for Curve` is exact everywhere -/
theorem curveOfPeriodic_eq (T : Nat) (hT : 1 ≤ T) (x : Nat) :
    curveN (curveOfPeriodic T) x = (Arr.periodic T).N x := by
  rw [periodic_N_eq]
  exact curveN_singleton T x hT

namespace DeriveLemmas

/-- `l` = the increase points of `N` in `(lo, h]`, ascending -/
def IncPts (N : Nat → Nat) (lo h : Nat) (l : List Nat) : Prop :=
  l.Pairwise (· < ·) ∧ ∀ δ, δ ∈ l ↔ (lo < δ ∧ δ ≤ h ∧ N (δ - 1) < N δ)

theorem IncPts.tail {N : Nat → Nat} {lo h δ : Nat} {rest : List Nat}
    (hp : IncPts N lo h (δ :: rest)) : IncPts N δ h rest := by
  obtain ⟨hpw, hmem⟩ := hp
  rw [List.pairwise_cons] at hpw
  refine ⟨hpw.2, fun δ' => ?_⟩
  have hδ := (hmem δ).1 List.mem_cons_self
  constructor
  · intro h
    have h1 := (hmem δ').1 (List.mem_cons_of_mem _ h)
    exact ⟨hpw.1 δ' h, h1.2⟩
  · rintro ⟨h1, h2, h3⟩
    have := (hmem δ').2 ⟨by omega, h2, h3⟩
    rw [List.mem_cons] at this
    rcases this with h | h
    · omega
    · exact h

/-- below the first increase point `N` still has the value at `lo` -/
theorem IncPts.const_below {N : Nat → Nat} (hm : MonoN N) {lo h δ : Nat} {rest : List Nat}
    (hp : IncPts N lo h (δ :: rest)) (x : Nat) (h1 : lo ≤ x) (h2 : x < δ) : N x = N lo := by
  obtain ⟨hpw, hmem⟩ := hp
  rw [List.pairwise_cons] at hpw
  have hδ := (hmem δ).1 List.mem_cons_self
  apply const_of_no_inc N hm lo x _ h1
  intro y hy1 hy2 hy3
  have := (hmem y).2 ⟨hy1, by omega, hy3⟩
  rw [List.mem_cons] at this
  rcases this with h | h
  · omega
  · have := hpw.1 y h; omega

theorem IncPts.const_nil {N : Nat → Nat} (hm : MonoN N) {lo h : Nat}
    (hp : IncPts N lo h []) (x : Nat) (h1 : lo ≤ x) (h2 : x ≤ h) : N x = N lo := by
  apply const_of_no_inc N hm lo x _ h1
  intro y hy1 hy2 hy3
  have := (hp.2 y).2 ⟨hy1, by omega, hy3⟩
  simp at this

theorem ok_true (N : Nat → Nat) (hm : MonoN N) (h : Nat) : ∀ (l : List Nat) (lo last : Nat),
    IncPts N lo h l → last ≤ N lo →
    Arr.prefixOfBoundUntil.ok h (l.map fun δ => (δ, N δ)) last = true := by
  intro l
  induction l with
  | nil => intro lo last _ _; simp [Arr.prefixOfBoundUntil.ok]
  | cons δ rest ih =>
    intro lo last hp hl
    have hδ := (hp.2 δ).1 List.mem_cons_self
    have hc := hp.const_below hm (δ - 1) (by omega) (by omega)
    simp only [List.map_cons, Arr.prefixOfBoundUntil.ok, Bool.and_eq_true, decide_eq_true_eq]
    exact ⟨⟨hδ.2.1, by omega⟩, ih δ (N δ) hp.tail (Nat.le_refl _)⟩

theorem pfxLk_incPts (N : Nat → Nat) (hm : MonoN N) (h : Nat) : ∀ (l : List Nat) (lo x : Nat),
    IncPts N lo h l → lo ≤ x → x ≤ h →
    pfxLk (l.map fun δ => (δ, N δ)) (N lo) x = N x := by
  intro l
  induction l with
  | nil =>
    intro lo x hp h1 h2
    simp only [List.map_nil, pfxLk]
    exact (hp.const_nil hm x h1 h2).symm
  | cons δ rest ih =>
    intro lo x hp h1 h2
    simp only [List.map_cons, pfxLk]
    by_cases hx : δ ≤ x
    · rw [if_pos hx]
      exact ih δ x hp.tail hx h2
    · rw [if_neg hx]
      exact (hp.const_below hm x h1 (by omega)).symm

theorem incPts_chain (N : Nat → Nat) (hm : MonoN N) (h : Nat) : ∀ (l : List Nat) (lo : Nat),
    IncPts N lo h l →
    (l.map fun δ => (δ, N δ)).Pairwise (fun a b => a.1 < b.1 ∧ a.2 < b.2) := by
  intro l
  induction l with
  | nil => intro lo _; simp
  | cons δ rest ih =>
    intro lo hp
    rw [List.map_cons, List.pairwise_cons]
    refine ⟨?_, ih δ hp.tail⟩
    intro s hs
    rw [List.mem_map] at hs
    obtain ⟨δ', hδ', rfl⟩ := hs
    have h1 := (hp.tail.2 δ').1 hδ'
    have h2 := hm δ (δ' - 1) (by omega)
    exact ⟨h1.1, by show N δ < N δ'; omega⟩

end DeriveLemmas

/-- C12 for `ArrivalCurvePrefix::from_arrival_bound_until`: well-formed, equal to the source
up to the horizon, never smaller beyond it (for sub-additive sources) -/
theorem prefixOfBoundUntil_spec (a : Arr) (hwf : a.WF) (hex : a.Exact) (h : Nat) (hh : 1 ≤ h)
    (hpos : 1 ≤ a.N 1) :
    ∃ steps, a.prefixOfBoundUntil h = some steps ∧ prefixWF h steps ∧
      (∀ x, x ≤ h → prefixN h steps x = a.N x) ∧
      (SubAdditive a.N → ∀ x, a.N x ≤ prefixN h steps x) := by
  have hm := Arr.N_mono a hwf
  have hN0 := Arr.N_zero a
  have hs := Arr.steps_spec a hwf hex h
  have hp : IncPts a.N 0 h (a.stepsUpTo h) := ⟨hs.1, fun δ => by rw [hs.2 δ]; omega⟩
  have hmax : max h 1 = h := by omega
  refine ⟨(a.stepsUpTo h).map fun δ => (δ, a.N δ), ?_, ?_⟩
  · unfold Arr.prefixOfBoundUntil
    simp only [hmax]
    rw [if_pos (ok_true a.N hm h _ 0 0 hp (Nat.zero_le _))]
  generalize hS : a.stepsUpTo h = S at *
  have hwfP : prefixWF h (S.map fun δ => (δ, a.N δ)) := by
    have h1mem : 1 ∈ S := (hp.2 1).2 ⟨by omega, hh, by rw [hN0]; omega⟩
    cases S with
    | nil => simp at h1mem
    | cons δ rest =>
      have hδ := (hp.2 δ).1 List.mem_cons_self
      have hδ1 : δ = 1 := by
        rw [List.mem_cons] at h1mem
        rcases h1mem with h | h
        · exact h.symm
        · have := (List.pairwise_cons.1 hp.1).1 1 h
          omega
      subst hδ1
      refine ⟨hh, by simp, rfl, hpos, incPts_chain a.N hm h _ 0 hp, ?_⟩
      intro s hs
      rw [List.mem_map] at hs
      obtain ⟨δ', hδ', rfl⟩ := hs
      exact ((hp.2 δ').1 hδ').2.1
  have heq : ∀ x, x ≤ h → prefixN h (S.map fun δ => (δ, a.N δ)) x = a.N x := by
    intro x hx
    have f := prefixN_form hwfP 0 x hx
    rw [Nat.zero_mul, Nat.zero_add, Nat.mul_zero, Nat.zero_add] at f
    rw [f]
    have := pfxLk_incPts a.N hm h S 0 x hp (Nat.zero_le _) hx
    rw [hN0] at this
    exact this
  refine ⟨hwfP, heq, fun hsub x => ?_⟩
  have f1 := prefixN_form hwfP 1 0 (Nat.zero_le _)
  rw [pfxLk_zero hwfP, Nat.one_mul, Nat.add_zero, Nat.mul_one, Nat.add_zero, heq h (Nat.le_refl _)] at f1
  have ex := Nat.div_add_mod x h
  have lx := Nat.mod_lt x (by omega : 0 < h)
  have f := prefixN_form hwfP (x / h) (x % h) (by omega)
  rw [Nat.mul_comm (x / h) h, ex] at f
  have f2 := prefixN_form hwfP 0 (x % h) (by omega)
  rw [Nat.zero_mul, Nat.zero_add, Nat.mul_zero, Nat.zero_add, heq _ (by omega)] at f2
  have sm := subadd_mul a.N hsub h (x % h) (x / h)
  rw [Nat.mul_comm (x / h) h, ex] at sm
  rw [f, ← f1, ← f2, Nat.mul_comm]
  exact sm

/-- the library's periodic and sporadic models are sub-additive, and sums of sub-additive
bounds are sub-additive -/
theorem subadditive_sum (N1 N2 : Nat → Nat) (h1 : SubAdditive N1) (h2 : SubAdditive N2) :
    SubAdditive (fun d => N1 d + N2 d) := by
  intro a b
  have := h1 a b
  have := h2 a b
  show N1 (a + b) + N2 (a + b) ≤ N1 a + N2 a + (N1 b + N2 b)
  omega

end RTA
