import RTA.Lemmas.RrSound
/-! C05, busy-window-aware analysis (`bw::rta_subchain`, singleton subchains): soundness over
the same schedule-level executor Spec as the rr analysis (`PollingExecLegal`).

Theorem (`bw_singleton_sound`): if for EVERY callback the singleton bw analysis returns `Ok(R)`
with `R` at most the assumed response-time bound of that callback, then every instance of
every callback completes within its assumed bound — every supply process delivering at least
the supply-bound function, every release pattern within the (exact) arrival curves, every
execution time up to the scalar WCET. -/

open Finset

namespace RTA.Sched
open RTA RTA.Spec

namespace BwSoundLemmas
open Classical TimerSoundLemmas RrSoundLemmas

variable {s : Sys} {σ : ℕ → Bool} {E : ExecInfo}
variable {nT : ℕ} {kind : ℕ → CbKind} {N : ℕ → ℕ → ℕ} {C rtb : ℕ → ℕ} {J : ℕ}

/-! ### the executor busy window in which `J` is released -/

/-- `t0` is a quiet time at or before the release of `J`, and every supplied slot between
`t0` and the release of `J` serves a job -/
structure BwCtx (s : Sys) (σ : ℕ → Bool) (J t0 : ℕ) : Prop where
  ht0 : t0 ≤ s.arr J
  quiet : Quiet s t0
  busy : ∀ u, t0 ≤ u → u < s.arr J → σ u = true → ∃ j, s.sched u = some j

/-- (0) the last quiet time at or before the release of `J` -/
theorem exists_t0 (hl : PollingExecLegal s σ E) (J : ℕ) : ∃ t0, BwCtx s σ J t0 := by
  have hq0 : Quiet s 0 := by intro k _ h; omega
  refine ⟨Nat.findGreatest (Quiet s) (s.arr J), Nat.findGreatest_le _,
    Nat.findGreatest_spec (P := Quiet s) (Nat.zero_le _) hq0, ?_⟩
  intro u hu1 hu2 hσ
  have hnq : ¬ Quiet s (u + 1) :=
    Nat.findGreatest_is_greatest (P := Quiet s) (n := s.arr J) (by omega) (by omega)
  have hex : ∃ k, k < s.n ∧ s.arr k < u + 1 ∧ svc s k (u + 1) ≠ s.cost k := by
    apply Classical.byContradiction
    intro h
    apply hnq
    intro k hk hka
    apply Classical.byContradiction
    intro h'
    exact h ⟨k, hk, hka, h'⟩
  obtain ⟨k, hk, hka, hkn⟩ := hex
  have hkp : Pending s k u := by
    refine ⟨by omega, ?_⟩
    have := p_svc_le_cost hl k (u + 1)
    have := svc_mono (s := s) k (show u ≤ u + 1 by omega)
    omega
  exact hl.wc u hσ ⟨k, hk, hkp⟩

/-- the instances served after a quiet time `t0` were released at or after `t0` -/
theorem act_released (hl : PollingExecLegal s σ E) (t0 : ℕ) (hq : Quiet s t0) (c T K : ℕ)
    (hK : K ∈ ActSet s J c t0 T) : t0 ≤ s.arr K ∧ s.arr K < T := by
  rw [mem_ActSet] at hK
  obtain ⟨hKn, _, _, hlt⟩ := hK
  have hle := p_svc_le_cost hl K T
  constructor
  · rcases Nat.lt_or_ge (s.arr K) t0 with h | h
    · have := hq K hKn h; omega
    · exact h
  · rcases Nat.lt_or_ge (s.arr K) T with h | h
    · exact h
    · have := p_svc_zero_before hl K T h; omega

/-- the `arrived` half of the cap -/
theorem act_arrived_bw (A : Ana s σ E nT kind N C) (t0 : ℕ) (hq : Quiet s t0) (c S T : ℕ)
    (hT : T ≤ t0 + S) : (ActSet s J c t0 T).card ≤ N c S := by
  refine Nat.le_trans ?_ (countOf_window A c t0 T S hT)
  unfold countOf
  apply card_le_card
  intro K hK
  have h := act_released A.hl t0 hq c T K hK
  rw [mem_ActSet] at hK
  rw [mem_filter, mem_range]
  exact ⟨hK.1, hK.2.2.1, h.1, h.2⟩

/-- instances of callback `c` released at or after `a` that have started before `T` -/
noncomputable def LateSet (s : Sys) (c a T : ℕ) : Finset ℕ :=
  (range s.n).filter (fun K => s.task K = c ∧ a ≤ s.arr K ∧ 0 < svc s K T)

theorem mem_LateSet (c a T K : ℕ) :
    K ∈ LateSet s c a T ↔ (K < s.n ∧ s.task K = c ∧ a ≤ s.arr K ∧ 0 < svc s K T) := by
  unfold LateSet; rw [mem_filter, mem_range]

/-- the instances of a polled callback released at or after `a` start in the windows of the
polling points in `[a, T)`, at most one per window -/
theorem late_le_pp (hl : PollingExecLegal s σ E) (c : ℕ) (hc : E.isTimer c = false) (a : ℕ) :
    ∀ T, (LateSet s c a T).card ≤ (ppIn E a T).card := by
  intro T
  induction T using Nat.strongRecOn with
  | _ T ih =>
    rcases Nat.eq_zero_or_pos (ppIn E a T).card with h0 | hpos
    · rw [h0, Nat.le_zero, card_eq_zero]
      apply eq_empty_of_forall_notMem
      intro K hK
      rw [mem_LateSet] at hK
      obtain ⟨u, hu1, hu2, hst⟩ :=
        start_in K a T (p_svc_zero_before hl K a hK.2.2.1) hK.2.2.2
      obtain ⟨p, hp, hap⟩ := hl.inWindow u K hst (by rw [hK.2.1]; exact hc)
      have hm : p ∈ ppIn E a T := by
        rw [mem_ppIn]
        exact ⟨by have := hp.2.1; omega, by omega, hp.1⟩
      have := card_pos.2 ⟨p, hm⟩
      omega
    · obtain ⟨q, h1, h2, h3, h4⟩ := ppIn_last a T hpos
      have hsub : LateSet s c a T ⊆ LateSet s c a q ∪ StSet s c q T := by
        intro K hK
        rw [mem_union, mem_LateSet, mem_StSet]
        rw [mem_LateSet] at hK
        rcases Nat.eq_zero_or_pos (svc s K q) with h | h
        · exact Or.inr ⟨hK.1, hK.2.1, h, hK.2.2.2⟩
        · exact Or.inl ⟨hK.1, hK.2.1, hK.2.2.1, h⟩
      have ha := card_le_card hsub
      have hb := card_union_le (LateSet s c a q) (StSet s c q T)
      have hc1 := ih q h2
      have hc2 := one_per_window hl c q T hc h4
      have hc3 := ppIn_card_succ (E := E) a q T h1 h2 h3
      omega

/-- (2), polled callbacks: released before `J` inside the busy window, or started in the
window of one of the polling points that `J` waits through -/
theorem act_polled_bw (A : Ana s σ E nT kind N C) (jc : JobCtx s rtb J) (t0 : ℕ)
    (bw : BwCtx s σ J t0) (c T : ℕ) (hc : E.isTimer c = false) (hT0 : svc s J T = 0) :
    (ActSet s J c t0 T).card ≤ N c (s.arr J - t0) + N (s.task J) (rtb (s.task J)) := by
  have hl := A.hl
  have hsub : ActSet s J c t0 T ⊆
      ((range s.n).filter (fun k => s.task k = c ∧ t0 ≤ s.arr k ∧ s.arr k < s.arr J)) ∪
        LateSet s c (s.arr J) T := by
    intro K hK
    have h := act_released hl t0 bw.quiet c T K hK
    rw [mem_ActSet] at hK
    rw [mem_union, mem_filter, mem_range, mem_LateSet]
    rcases Nat.lt_or_ge (s.arr K) (s.arr J) with h' | h'
    · exact Or.inl ⟨hK.1, hK.2.2.1, h.1, h'⟩
    · exact Or.inr ⟨hK.1, hK.2.2.1, h', by omega⟩
  have h1 := card_le_card hsub
  have h2 := card_union_le
    ((range s.n).filter (fun k => s.task k = c ∧ t0 ≤ s.arr k ∧ s.arr k < s.arr J))
    (LateSet s c (s.arr J) T)
  have h3 : ((range s.n).filter (fun k => s.task k = c ∧ t0 ≤ s.arr k ∧ s.arr k < s.arr J)).card
      ≤ N c (s.arr J - t0) :=
    countOf_window A c t0 (s.arr J) (s.arr J - t0) (by omega)
  have h4 : (LateSet s c (s.arr J) T).card ≤ N (s.task J) (rtb (s.task J)) := by
    cases hti : E.isTimer (s.task J) with
    | true =>
      have : LateSet s c (s.arr J) T = ∅ := by
        apply eq_empty_of_forall_notMem
        intro K hK
        rw [mem_LateSet] at hK
        obtain ⟨u, hu1, hu2, hst⟩ :=
          start_in K (s.arr J) T (p_svc_zero_before hl K _ hK.2.2.1) hK.2.2.2
        have hJu : svc s J u = 0 := by
          have := svc_mono (s := s) J (show u ≤ T by omega); omega
        have hcJ := (A.hcost J jc.hJ).1
        exact hl.timersFirst u K hst (by rw [hK.2.1]; exact hc) J jc.hJ hti ⟨hu1, by omega⟩
      rw [this, card_empty]
      exact Nat.zero_le _
    | false =>
      have hp := late_le_pp hl c hc (s.arr J) T
      rcases Nat.le_total (s.arr J) T with h | h
      · have := pp_le_starts hl jc.hJ hti T h hT0
        have := own_window A jc T hT0
        omega
      · have : (ppIn E (s.arr J) T).card = 0 := by
          rw [card_eq_zero]
          apply eq_empty_of_forall_notMem
          intro v hv
          rw [mem_ppIn] at hv
          omega
        omega
  omega

/-- (2), own callback: only instances released in the busy window up to the release of `J` -/
theorem act_own_bw (A : Ana s σ E nT kind N C) (jc : JobCtx s rtb J) (t0 : ℕ)
    (bw : BwCtx s σ J t0) (T : ℕ) (hT0 : svc s J T = 0) :
    (ActSet s J (s.task J) t0 T).card + 1 ≤ N (s.task J) (s.arr J - t0 + 1) := by
  have hn : J ∉ ActSet s J (s.task J) t0 T := by
    rw [mem_ActSet]; intro h; exact h.2.1 rfl
  have ht0 := bw.ht0
  rw [← card_insert_of_notMem hn]
  refine Nat.le_trans ?_ (countOf_window A (s.task J) t0 (s.arr J + 1) (s.arr J - t0 + 1)
    (by omega))
  unfold countOf
  apply card_le_card
  intro K hK
  rw [mem_insert] at hK
  rw [mem_filter, mem_range]
  rcases hK with rfl | hK
  · exact ⟨jc.hJ, rfl, ht0, by omega⟩
  · have h := act_released A.hl t0 bw.quiet _ T K hK
    rw [mem_ActSet] at hK
    refine ⟨hK.1, hK.2.2.1, h.1, ?_⟩
    rcases Nat.lt_or_ge (s.arr J) (s.arr K) with h' | h'
    · exfalso
      have hpos : 0 < svc s K T := by omega
      obtain ⟨u, hu, hsch, hz⟩ := exists_start (s := s) K T hpos
      have hv := (A.hl.valid u K hsch).2.1
      have hJu : svc s J u = 0 := by
        have := svc_mono (s := s) J (show u ≤ T by omega); omega
      have hcJ := (A.hcost J jc.hJ).1
      have := A.hl.fifo u K ⟨hsch, hz⟩ J jc.hJ hK.2.2.1.symm
        ⟨by have := hv.1; omega, by omega⟩ hJu
      omega
    · omega

theorem le_cappedJobs (k k' : CbKind) (x a cap : ℕ) (h1 : x ≤ a) (h2 : x ≤ cap) :
    x ≤ cappedJobs k k' a cap := by
  unfold cappedJobs
  cases k with
  | timer => exact h1
  | eventSource => exact h1
  | polledUnknown => exact Nat.le_min.2 ⟨h1, by omega⟩
  | polled p =>
    cases k' <;> simp only [] <;> refine Nat.le_min.2 ⟨h1, ?_⟩ <;> omega

/-- the cap of the analysis on the interfering instances of callback `c` -/
theorem act_cap_bw (A : Ana s σ E nT kind N C) (jc : JobCtx s rtb J) (t0 : ℕ)
    (bw : BwCtx s σ J t0) (c S T : ℕ) (hc : c < nT) (hTS : T ≤ t0 + S)
    (hT0 : svc s J T = 0) :
    (ActSet s J c t0 T).card ≤
      cappedJobs (kind c) (kind (s.task J)) (N c S)
        (N c (s.arr J - t0) + N (s.task J) (rtb (s.task J))) := by
  have harr := act_arrived_bw (J := J) A t0 bw.quiet c S T hTS
  have hkc := A.hkinds c hc
  cases hk : kind c with
  | timer => exact harr
  | eventSource => rw [hk] at hkc; exact hkc.elim
  | polledUnknown =>
    rw [hk] at hkc
    exact le_cappedJobs _ _ _ _ _ harr (act_polled_bw A jc t0 bw c T hkc hT0)
  | polled p =>
    rw [hk] at hkc
    have hkc' : E.isTimer c = false ∧ E.prio c = p := hkc
    exact le_cappedJobs _ _ _ _ _ harr (act_polled_bw A jc t0 bw c T hkc'.1 hT0)

/-! ### the interference bound -/

/-- the interference term of the bw analysis for callback `i`, activation offset `act`, at `S` -/
noncomputable def bwI (nT : ℕ) (kind : ℕ → CbKind) (N : ℕ → ℕ → ℕ) (C rtb : ℕ → ℕ)
    (i S act : ℕ) : ℕ :=
  ∑ c ∈ range nT, if c = i then C c * (N c (act + 1) - 1)
    else C c * cappedJobs (kind c) (kind i) (N c S) (N c act + N i (rtb i))

/-- the service received in `[t0, T)` by the jobs other than `J`, per callback -/
theorem sv_diff_le (A : Ana s σ E nT kind N C) (t0 T : ℕ) (hT : t0 ≤ T) :
    sv s (fun K => K ≠ J) T ≤
      sv s (fun K => K ≠ J) t0 + ∑ c ∈ range nT, C c * (ActSet s J c t0 T).card := by
  have e1 : ∀ K ∈ range s.n, (if K ≠ J then svc s K T else 0) =
      (if K ≠ J then svc s K t0 else 0) +
        ∑ c ∈ range nT, if s.task K = c then (if K ≠ J then svc s K T - svc s K t0 else 0) else 0 := by
    intro K hK
    rw [sum_ite_eq (range nT) (s.task K) (fun _ => if K ≠ J then svc s K T - svc s K t0 else 0)]
    rw [if_pos (mem_range.2 (A.htask K (mem_range.1 hK)))]
    have := svc_mono (s := s) K hT
    split <;> omega
  have e0 : ∀ t, sv s (fun K => K ≠ J) t = ∑ K ∈ range s.n, if K ≠ J then svc s K t else 0 := by
    intro t
    unfold sv
    refine sum_congr rfl (fun k _ => ?_)
    split_ifs <;> rfl
  rw [e0, e0, sum_congr rfl e1, sum_add_distrib, sum_comm]
  apply Nat.add_le_add_left
  apply sum_le_sum
  intro c _
  exact act_sum_le A c t0 T

/-- (2) while `J` is unstarted, the other jobs receive at most the interference term of the
analysis inside the busy window -/
theorem others_bound_bw (A : Ana s σ E nT kind N C) (jc : JobCtx s rtb J) (t0 : ℕ)
    (bw : BwCtx s σ J t0) (S T : ℕ) (hT : t0 ≤ T) (hTS : T ≤ t0 + S) (hT0 : svc s J T = 0) :
    sv s (fun K => K ≠ J) T ≤
      sv s (fun K => K ≠ J) t0 + bwI nT kind N C rtb (s.task J) S (s.arr J - t0) := by
  refine Nat.le_trans (sv_diff_le A t0 T hT) ?_
  apply Nat.add_le_add_left
  unfold bwI
  apply sum_le_sum
  intro c hc
  have hcn := mem_range.1 hc
  by_cases hci : c = s.task J
  · rw [if_pos hci]
    apply Nat.mul_le_mul_left
    have := act_own_bw A jc t0 bw T hT0
    rw [hci]
    omega
  · rw [if_neg hci]
    apply Nat.mul_le_mul_left
    exact act_cap_bw A jc t0 bw c S T hcn hTS hT0

/-- (1) the activation offset of `J` in its busy window is below the busy-window bound -/
theorem busy_lt (A : Ana s σ E nT kind N C) (t0 : ℕ) (bw : BwCtx s σ J t0) (sbf : ℕ → ℕ)
    (hsbf : ∀ t d, sbf d ≤ service σ t d) (L : ℕ)
    (hL : 1 + ∑ c ∈ range nT, C c * N c L ≤ sbf L) : s.arr J - t0 < L := by
  rcases Nat.lt_or_ge (s.arr J - t0) L with h | h
  · exact h
  · exfalso
    have ht0 := bw.ht0
    have hb := sv_supply (s := s) (σ := σ) (fun K => K ≠ J) t0 L (by
      intro u h1 h2 h3
      obtain ⟨j', hj'⟩ := bw.busy u h1 (by omega) h3
      have hv := A.hl.valid u j' hj'
      refine ⟨j', hj', hv.1, ?_⟩
      intro e
      rw [e] at hv
      have := hv.2.1.1
      omega)
    have hd := sv_diff_le (J := J) A t0 (t0 + L) (by omega)
    have hs : ∑ c ∈ range nT, C c * (ActSet s J c t0 (t0 + L)).card ≤
        ∑ c ∈ range nT, C c * N c L :=
      sum_le_sum (fun c _ => Nat.mul_le_mul_left _
        (act_arrived_bw A t0 bw.quiet c L (t0 + L) (le_refl _)))
    have := hsbf t0 L
    omega

/-- (3), (4) the job `J` is complete `f` after the start of its busy window -/
theorem job_done_bw (A : Ana s σ E nT kind N C) (jc : JobCtx s rtb J) (t0 : ℕ)
    (bw : BwCtx s σ J t0) (sbf : ℕ → ℕ) (hsbf : ∀ t d, sbf d ≤ service σ t d) (S f : ℕ)
    (hW : 1 + bwI nT kind N C rtb (s.task J) S (s.arr J - t0) ≤ sbf S)
    (hR : sbf S - 1 + C (s.task J) ≤ sbf f) : svc s J (t0 + f) = s.cost J := by
  have hl := A.hl
  have hJ := jc.hJ
  have hcJ := A.hcost J hJ
  have ht0 := bw.ht0
  have hJ0 : svc s J t0 = 0 := p_svc_zero_before hl J _ ht0
  -- every supplied slot of the busy window in which `J` is incomplete serves a job
  have hbusy : ∀ u, t0 ≤ u → σ u = true → svc s J u < s.cost J → ∃ j', s.sched u = some j' := by
    intro u h1 h2 h3
    rcases Nat.lt_or_ge u (s.arr J) with h | h
    · exact bw.busy u h1 h h2
    · exact hl.wc u h2 ⟨J, hJ, h, h3⟩
  -- (3) `J` starts before `t0 + S`
  have hstarted : 0 < svc s J (t0 + S) := by
    apply Nat.pos_of_ne_zero
    intro h0
    have hb := sv_supply (s := s) (σ := σ) (fun K => K ≠ J) t0 S (by
      intro u h1 h2 h3
      have hJu : svc s J u = 0 := by
        have := svc_mono (s := s) J (show u ≤ t0 + S by omega); omega
      obtain ⟨j', hj'⟩ := hbusy u h1 h3 (by omega)
      refine ⟨j', hj', (hl.valid u j' hj').1, ?_⟩
      intro e
      rw [e] at hj'
      have := svc_succ_of_eq (s := s) J u hj'
      have := svc_mono (s := s) J (show u + 1 ≤ t0 + S by omega)
      omega)
    have ho := others_bound_bw A jc t0 bw S (t0 + S) (by omega) (le_refl _) h0
    have := hsbf t0 S
    omega
  apply Classical.byContradiction
  intro hne
  have hlt : svc s J (t0 + f) < s.cost J := by
    have := p_svc_le_cost hl J (t0 + f); omega
  -- the slot in which `J` starts
  let st := Nat.findGreatest (fun u => svc s J u = 0) (t0 + S)
  have hst0 : svc s J st = 0 :=
    Nat.findGreatest_spec (P := fun u => svc s J u = 0) (Nat.zero_le _) rfl
  have hstle : st ≤ t0 + S := Nat.findGreatest_le _
  have hage : t0 ≤ st :=
    Nat.le_findGreatest (P := fun u => svc s J u = 0) (by omega) hJ0
  have hstlt : st < t0 + S := by
    rcases Nat.lt_or_ge st (t0 + S) with h | h
    · exact h
    · have e : st = t0 + S := by omega
      rw [e] at hst0; omega
  have hst1 : 0 < svc s J (st + 1) :=
    Nat.pos_of_ne_zero (Nat.findGreatest_is_greatest (P := fun u => svc s J u = 0)
      (show st < st + 1 by omega) (by omega))
  have hsJ : s.sched st = some J := sched_of_svc_lt (s := s) J st (by omega)
  -- from its start on only `J` is served
  have F1 : ∀ u, st ≤ u → u < t0 + f → ∀ j', s.sched u = some j' → j' = J := by
    intro u h1 h2 j' hs
    apply Classical.byContradiction
    intro hne'
    rcases Nat.eq_or_lt_of_le h1 with he | hlt'
    · rw [← he, hsJ] at hs
      injection hs with hs
      exact hne' hs.symm
    · have := svc_mono (s := s) J (show st + 1 ≤ u by omega)
      have := svc_mono (s := s) J (show u ≤ t0 + f by omega)
      have := hl.nonpre u j' hs J hJ (fun h => hne' h.symm)
      omega
  have hafter : sv s (fun K => K ≠ J) (t0 + f) ≤ sv s (fun K => K ≠ J) st := by
    unfold sv
    apply sum_le_sum
    intro K _
    by_cases hK : K ≠ J
    · rw [if_pos hK, if_pos hK]
      rcases Nat.le_total (t0 + f) st with h | h
      · exact svc_mono K h
      · apply le_of_eq
        apply svc_const K st _ h
        intro u h1 h2 hs
        exact hK (F1 u h1 h2 K hs)
    · rw [if_neg hK, if_neg hK]
  have ho := others_bound_bw A jc t0 bw S st hage (by omega) hst0
  have hb := sv_supply (s := s) (σ := σ) (fun K => K ≠ J ∨ K = J) t0 f (by
    intro u h1 h2 h3
    have : svc s J u < s.cost J := by
      have := svc_mono (s := s) J (show u ≤ t0 + f by omega); omega
    obtain ⟨j', hj'⟩ := hbusy u h1 h3 this
    exact ⟨j', hj', (hl.valid u j' hj').1, Decidable.em _ |>.symm⟩)
  have hdisj : ∀ t, sv s (fun K => K ≠ J ∨ K = J) t = sv s (fun K => K ≠ J) t + svc s J t := by
    intro t
    rw [sv_or_disj _ _ t (fun k h1 h2 => h1 h2), sv_single J t hJ]
  rw [hdisj, hdisj] at hb
  have := hsbf t0 f
  omega

/-- induction over the expiry times of the assumed bounds -/
theorem all_done_bw (A : Ana s σ E nT kind N C) (sbf : ℕ → ℕ)
    (hsbf : ∀ t d, sbf d ≤ service σ t d)
    (hana : ∀ i, i < nT → 0 < N i 1 → 1 ≤ C i → 1 ≤ rtb i ∧
      ∃ L, 1 + ∑ c ∈ range nT, C c * N c L ≤ sbf L ∧
        ∀ act, act < L → ∃ S f, 1 + bwI nT kind N C rtb i S act ≤ sbf S ∧
          sbf S - 1 + C i ≤ sbf f ∧ f ≤ act + rtb i) :
    ∀ D j, j < s.n → s.arr j + rtb (s.task j) = D →
      svc s j (s.arr j + rtb (s.task j)) = s.cost j := by
  intro D
  induction D using Nat.strongRecOn with
  | _ D ih =>
    intro j hj hD
    have hcj := A.hcost j hj
    have hpos : 0 < N (s.task j) 1 := by
      have h1 := countOf_pos s (s.task j) (s.arr j) (s.arr j + 1) j hj rfl (le_refl _) (by omega)
      have h2 := A.hN (s.task j) (s.arr j) 1
      omega
    obtain ⟨hrtb, L, hL, hact⟩ := hana (s.task j) (A.htask j hj) hpos (by omega)
    have jc : JobCtx s rtb j := by
      refine ⟨hj, ?_, hrtb⟩
      intro K hK hKa
      have := ih (s.arr K + rtb (s.task K)) (by omega) K hK rfl
      exact p_done_mono A.hl K (by omega) this
    obtain ⟨t0, bw⟩ := exists_t0 A.hl j
    have ht0 := bw.ht0
    obtain ⟨S, f, hW, hR, hf⟩ := hact (s.arr j - t0) (busy_lt A t0 bw sbf hsbf L hL)
    have := job_done_bw A jc t0 bw sbf hsbf S f hW hR
    exact p_done_mono A.hl j (by omega) this

/-! ### what `bw::rta_subchain = Ok(R)` provides -/

theorem cappedJobs_self (k k' : CbKind) (a n : ℕ) : cappedJobs k k' a (a + n) = a := by
  unfold cappedJobs
  cases k with
  | timer => rfl
  | eventSource => rfl
  | polledUnknown => exact Nat.min_eq_left (by omega)
  | polled p => cases k' <;> simp only [] <;> apply Nat.min_eq_left <;> omega

theorem sum_ite_split (n i : ℕ) (hi : i < n) (X : ℕ → ℕ) (Y : ℕ) :
    (∑ c ∈ range n, if c = i then 0 else X c) + Y = ∑ c ∈ range n, if c = i then Y else X c := by
  have e1 : ∀ c ∈ range n, (if c = i then Y else X c) =
      (if c = i then 0 else X c) + (if c = i then Y else 0) := by
    intro c _
    by_cases h : c = i <;> simp [h]
  rw [sum_congr rfl e1, sum_add_distrib, sum_ite_eq' (range n) i (fun _ => Y)]
  simp [hi]

theorem bwInterference_sum (wl : List Callback) (C : ℕ → ℕ)
    (hscalar : ∀ i, i < wl.length → (wl.getD i default).cost = .scalar (C i))
    (i : ℕ) (k : CbKind) (npp S act : ℕ) :
    bwInterference wl i k npp S act = ∑ c ∈ range wl.length, if c = i then 0 else
      C c * cappedJobs (wl.getD c default).kind k ((wl.getD c default).arr.N S)
        ((wl.getD c default).arr.N act + npp) := by
  unfold bwInterference
  rw [sumList_range]
  refine sum_congr rfl (fun c hc => ?_)
  by_cases hci : c = i
  · rw [if_pos hci, if_pos hci]
  · rw [if_neg hci, if_neg hci]
    unfold Callback.bwRbf
    simp only []
    rw [hscalar c (mem_range.1 hc)]
    rfl

theorem naiveBw_ok_inv (sup : Supply) (wl : List Callback) (i limit R : ℕ)
    (h : naiveBw sup wl [i] limit = .ok R) :
    ∃ L, naiveSolveSup sup.sbf 0 (fun ta => 1 + bwInterference wl i (wl.getD i default).kind
        (sumPPBound wl [i]) ta ta + (wl.getD i default).cost.ofJobs ((wl.getD i default).arr.N ta))
        limit = .ok L ∧
      ∀ act, act < L → ∃ v, naiveBwPer sup wl i (sumPPBound wl [i]) true limit act = .ok v ∧ v ≤ R := by
  unfold naiveBw at h
  simp only [List.getLast?_singleton] at h
  split at h
  · rename_i L hL
    refine ⟨L, hL, ?_⟩
    intro act hact
    have := SupplyFifoLemmas.naiveMax_ok_inv _ R h
      (naiveBwPer sup wl i (sumPPBound wl [i]) true limit act)
      (List.mem_map.2 ⟨act, List.mem_range.2 hact, by simp⟩)
    exact this
  · rename_i hne
    exact absurd h (hne R)

theorem naiveBwPer_ok_inv (sup : Supply) (wl : List Callback) (i npp limit act v : ℕ)
    (h : naiveBwPer sup wl i npp true limit act = .ok v) :
    ∃ S, naiveSolveSup sup.sbf 0 (fun sStar => 1 + bwInterference wl i (wl.getD i default).kind
        npp sStar act + (wl.getD i default).cost.ofJobs ((wl.getD i default).bwSelfInstances act))
        limit = .ok S ∧
      v = naiveSt sup ((sup.sbf S - 1) +
        ((wl.getD i default).cost.ofJobs ((wl.getD i default).bwSelfInstances act + 1) -
          (wl.getD i default).cost.ofJobs ((wl.getD i default).bwSelfInstances act))) - act := by
  unfold naiveBwPer at h
  simp only [] at h
  split at h
  · rename_i S hS
    refine ⟨S, hS, ?_⟩
    injection h with h
    simpa using h.symm
  · rename_i hne
    exact absurd h (hne v)

theorem bw_extract (sup : Supply) (hs : sup.WF) (wl : List Callback) (C : ℕ → ℕ)
    (hscalar : ∀ i, i < wl.length → (wl.getD i default).cost = .scalar (C i))
    (hwf : ∀ cb ∈ wl, cb.arr.WF ∧ cb.arr.Exact) (i : ℕ) (hi : i < wl.length) (hCi : 1 ≤ C i)
    (hpos : 0 < (wl.getD i default).arr.N 1) (limit R : ℕ) (dbg : Bool)
    (h : bwSubchain sup wl [i] limit dbg = .ok R) :
    1 ≤ R ∧ ∃ L, 1 + ∑ c ∈ range wl.length, C c * (wl.getD c default).arr.N L ≤ sup.sbf L ∧
      ∀ act, act < L → ∃ S f,
        1 + bwI wl.length (fun c => (wl.getD c default).kind)
          (fun c d => (wl.getD c default).arr.N d) C (fun c => (wl.getD c default).rtb) i S act
            ≤ sup.sbf S ∧
        sup.sbf S - 1 + C i ≤ sup.sbf f ∧ f ≤ act + R := by
  have hlim : 1 ≤ limit := by
    rcases Nat.eq_zero_or_pos limit with h0 | h'
    · subst h0
      exfalso
      unfold bwSubchain at h
      simp [hi, search, RTA.C08.limit_zero_diverges] at h
    · exact h'
  have hwf' : ∀ cb ∈ wl, cb.arr.WF ∧ cb.arr.Exact ∧ MonoN cb.cost.ofJobs := by
    intro cb hcb
    refine ⟨(hwf cb hcb).1, (hwf cb hcb).2, ?_⟩
    obtain ⟨c, hc, e⟩ := mem_getD wl cb hcb
    rw [← e, hscalar c hc]
    intro a b hab
    exact Nat.mul_le_mul_left _ hab
  rw [bw_eq_naive sup hs wl [i] limit hlim (by simp) (by simpa using hi) hwf'
    (by simpa using hpos) dbg] at h
  obtain ⟨L, hL, hper⟩ := naiveBw_ok_inv sup wl i limit R h
  have hnpp : sumPPBound wl [i] = (wl.getD i default).arr.N (wl.getD i default).rtb := by
    simp [sumPPBound, sumList, Callback.ppBound]
  rw [hnpp] at hL hper
  have h0 := Supply.sbf_zero sup hs
  -- the per-offset facts
  have hoff : ∀ act, act < L → ∃ S f,
      1 + bwI wl.length (fun c => (wl.getD c default).kind)
        (fun c d => (wl.getD c default).arr.N d) C (fun c => (wl.getD c default).rtb) i S act
          ≤ sup.sbf S ∧
      sup.sbf S - 1 + C i ≤ sup.sbf f ∧ f ≤ act + R := by
    intro act hact
    obtain ⟨v, hv, hvR⟩ := hper act hact
    obtain ⟨S, hS, hvf⟩ := naiveBwPer_ok_inv sup wl i _ limit act v hv
    have hS' := ((RosNaiveLemmas.nss_ok_iff _ _ _ _ _).1 hS).2.1
    rw [Nat.zero_add] at hS'
    have hrhs : ∀ x, 1 + bwInterference wl i (wl.getD i default).kind
          ((wl.getD i default).arr.N (wl.getD i default).rtb) x act +
          (wl.getD i default).cost.ofJobs ((wl.getD i default).bwSelfInstances act) =
        1 + bwI wl.length (fun c => (wl.getD c default).kind)
          (fun c d => (wl.getD c default).arr.N d) C (fun c => (wl.getD c default).rtb) i x act := by
      intro x
      rw [bwInterference_sum wl C hscalar, hscalar i hi, Nat.add_assoc, sum_ite_split _ _ hi]
      unfold bwI
      congr 1
      refine sum_congr rfl (fun c _ => ?_)
      by_cases hci : c = i
      · rw [if_pos hci, if_pos hci, hci]
        rfl
      · rw [if_neg hci, if_neg hci]
    simp only [hrhs] at hS'
    have hSpos : 1 ≤ S := by
      rcases Nat.eq_zero_or_pos S with hz | hp
      · subst hz
        rw [h0] at hS'
        omega
      · exact hp
    have hmax : max S 1 = S := by omega
    rw [hmax] at hS'
    have e : (wl.getD i default).cost.ofJobs ((wl.getD i default).bwSelfInstances act + 1) -
        (wl.getD i default).cost.ofJobs ((wl.getD i default).bwSelfInstances act) = C i := by
      rw [hscalar i hi]
      simp only [Cost.ofJobs]
      rw [Nat.mul_add, Nat.mul_one]
      omega
    rw [e] at hvf
    refine ⟨S, naiveSt sup (sup.sbf S - 1 + C i), hS', ?_, by omega⟩
    exact (Supply.galois sup hs (sup.sbf S - 1 + C i) (naiveSt sup (sup.sbf S - 1 + C i))).1
      (le_of_eq (RosNaiveLemmas.naiveSt_eq sup hs (sup.sbf S - 1 + C i)).symm)
  refine ⟨?_, L, ?_, hoff⟩
  · -- the offset 0 is below `L`, and its result is positive
    have hL' := ((RosNaiveLemmas.nss_ok_iff _ _ _ _ _).1 hL).2.1
    have hLpos : 0 < L := by
      rcases Nat.eq_zero_or_pos L with hz | hp
      · subst hz
        rw [Nat.zero_add, h0] at hL'
        omega
      · exact hp
    obtain ⟨S, f, h1, h2, h3⟩ := hoff 0 hLpos
    rcases Nat.eq_zero_or_pos f with hz | hp
    · subst hz
      rw [h0] at h2
      omega
    · omega
  · have hL' := ((RosNaiveLemmas.nss_ok_iff _ _ _ _ _).1 hL).2.1
    rw [Nat.zero_add] at hL'
    have hrhs : ∀ x, 1 + bwInterference wl i (wl.getD i default).kind
          ((wl.getD i default).arr.N (wl.getD i default).rtb) x x +
          (wl.getD i default).cost.ofJobs ((wl.getD i default).arr.N x) =
        1 + ∑ c ∈ range wl.length, C c * (wl.getD c default).arr.N x := by
      intro x
      rw [bwInterference_sum wl C hscalar, hscalar i hi, Nat.add_assoc, sum_ite_split _ _ hi]
      congr 1
      refine sum_congr rfl (fun c _ => ?_)
      by_cases hci : c = i
      · rw [if_pos hci, hci]
        rfl
      · rw [if_neg hci, cappedJobs_self]
    simp only [hrhs] at hL'
    have hLpos : 1 ≤ L := by
      rcases Nat.eq_zero_or_pos L with hz | hp
      · subst hz
        rw [h0] at hL'
        omega
      · exact hp
    have hmax : max L 1 = L := by omega
    rw [hmax] at hL'
    exact hL'

end BwSoundLemmas

theorem bw_singleton_sound (s : Sys) (σ : ℕ → Bool) (E : ExecInfo) (hl : PollingExecLegal s σ E)
    (sup : Supply) (hs : sup.WF) (hsbf : ∀ t d, sup.sbf d ≤ service σ t d)
    (wl : List Callback) (C : ℕ → ℕ)
    (hscalar : ∀ i, i < wl.length → (wl.getD i default).cost = .scalar (C i))
    (hwf : ∀ cb ∈ wl, cb.arr.WF ∧ cb.arr.Exact)
    (htask : ∀ k, k < s.n → s.task k < wl.length)
    (hkinds : KindsAgree wl E)
    (hprio : ∀ i j, i < wl.length → j < wl.length → E.isTimer i = false → E.isTimer j = false →
      E.prio i = E.prio j → i = j)
    (hN : ∀ i t d, countOf s i t (t + d) ≤ (wl.getD i default).arr.N d)
    (hcost : ∀ k, k < s.n → 1 ≤ s.cost k ∧ s.cost k ≤ C (s.task k))
    (limit : ℕ) (dbg : Bool)
    (hself : ∀ i, i < wl.length → ∃ R, bwSubchain sup wl [i] limit dbg = .ok R ∧ R ≤ (wl.getD i default).rtb) :
    ∀ j, j < s.n → MeetsBound s j (wl.getD (s.task j) default).rtb := by
  intro j hj
  have hwf1 : ∀ cb ∈ wl, cb.arr.WF := fun cb h => (hwf cb h).1
  have A : RrSoundLemmas.Ana s σ E wl.length (fun c => (wl.getD c default).kind)
      (fun c d => (wl.getD c default).arr.N d) C := by
    refine ⟨hl, htask, hkinds, hprio, hN, ?_, hcost⟩
    intro i a b hab
    by_cases hi : i < wl.length
    · exact Arr.N_mono _ (hwf1 _ (RosNaiveLemmas.getD_mem wl i hi)) a b hab
    · have e : wl.getD i default = default := by
        rw [List.getD_eq_getElem?_getD, List.getElem?_eq_none (by omega)]
        rfl
      rw [e]
      exact Nat.le_of_eq rfl
  exact BwSoundLemmas.all_done_bw (rtb := fun c => (wl.getD c default).rtb) A sup.sbf hsbf (by
      intro i hi hpos hCi
      obtain ⟨R, hR, hle⟩ := hself i hi
      obtain ⟨h1, L, hL, hoff⟩ :=
        BwSoundLemmas.bw_extract sup hs wl C hscalar hwf i hi hCi hpos limit R dbg hR
      refine ⟨by omega, L, hL, ?_⟩
      intro act hact
      obtain ⟨S, f, h2, h3, h4⟩ := hoff act hact
      exact ⟨S, f, h2, h3, by omega⟩) _ j hj rfl

end RTA.Sched
