import RTA.Lemmas.RosNaive
import RTA.Lemmas.MonoAnalyses
/-! Monotonicity of the ROS 2 analyses (C17): a harder workload or a weaker supply never
decreases a returned bound and never turns a divergence error into `Ok`.

Order on results used here (`Res.leD`): `ok a ≤ ok b` iff `a ≤ b`; every `ok` and every
divergence error is below every divergence error (the offset recorded in the error may
differ between the two systems); nothing else. -/

namespace RTA
open RTA.Spec

/-- `ok a ≤ ok b` iff `a ≤ b`; anything that is not a panic is below a divergence error -/
def Res.leD : Res → Res → Prop
  | .ok a, .ok b => a ≤ b
  | .ok _, .div _ _ => True
  | .div _ _, .div _ _ => True
  | _, _ => False

/-- the supply `s'` guarantees no more service than `s` in any window -/
def Supply.Weaker (s' s : Supply) : Prop := ∀ d, s'.sbf d ≤ s.sbf d

/-- callback `c'` is at least as hard as `c`: same kind, no smaller assumed response-time
bound, no fewer arrivals in any window, no smaller cost of any number of jobs -/
structure Callback.Le (c c' : Callback) : Prop where
  kind : c.kind = c'.kind
  rtb : c.rtb ≤ c'.rtb
  arr : ∀ d, c.arr.N d ≤ c'.arr.N d
  cost : ∀ n, c.cost.ofJobs n ≤ c'.cost.ofJobs n

/-- pointwise order on workloads of the same shape -/
def WorkloadLe (wl wl' : List Callback) : Prop :=
  wl.length = wl'.length ∧ ∀ i, i < wl.length → (wl.getD i default).Le (wl'.getD i default)

namespace MonoRosLemmas
open PruneCoreLemmas RosNaiveLemmas MonoLemmas

/-! ### the order `Res.leD` -/

theorem leD_div_of_ne_panic (x : Res) (o l : Nat) (h : x ≠ .panic) : Res.leD x (.div o l) := by
  cases x with
  | ok v => exact trivial
  | div a b => exact trivial
  | panic => exact absurd rfl h

theorem leD_ok_right (x : Res) (b : Nat) (h : Res.leD x (.ok b)) : ∃ a, x = .ok a ∧ a ≤ b := by
  cases x with
  | ok v => exact ⟨v, rfl, h⟩
  | div a b => exact h.elim
  | panic => exact h.elim

/-! ### reading `naiveMax` -/

theorem naiveMax_ok_or_mem (rs : List Res) : (∃ v, naiveMax rs = .ok v) ∨ naiveMax rs ∈ rs := by
  unfold naiveMax
  split
  · rename_i hany
    right
    cases hf : rs.find? (fun r => match r with | .ok _ => false | _ => true) with
    | none =>
      rw [List.any_eq_true] at hany
      obtain ⟨x, hx, hpx⟩ := hany
      rw [List.find?_eq_none] at hf
      exact absurd hpx (hf x hx)
    | some y =>
      simp only [Option.getD_some]
      exact List.mem_of_find?_eq_some hf
  · exact Or.inl ⟨_, rfl⟩

theorem naiveMax_ne_panic (rs : List Res) (h : ∀ x ∈ rs, x ≠ .panic) : naiveMax rs ≠ .panic := by
  rcases naiveMax_ok_or_mem rs with ⟨v, hv⟩ | hm
  · rw [hv]; intro hc; cases hc
  · exact h _ hm

/-- comparison of two naive maxima: every entry of the first list is dominated by some
entry of the second -/
theorem naiveMax_leD (f f' : Nat → Res) (l l' : List Nat)
    (hnp : ∀ A ∈ l, f A ≠ .panic) (hnp' : ∀ A ∈ l', f' A ≠ .panic)
    (hdom : ∀ A ∈ l, ∃ A' ∈ l', Res.leD (f A) (f' A')) :
    Res.leD (naiveMax (l.map f)) (naiveMax (l'.map f')) := by
  have hn : naiveMax (l.map f) ≠ .panic := by
    apply naiveMax_ne_panic
    intro x hx
    rcases List.mem_map.1 hx with ⟨A, hA, rfl⟩
    exact hnp A hA
  have hn' : naiveMax (l'.map f') ≠ .panic := by
    apply naiveMax_ne_panic
    intro x hx
    rcases List.mem_map.1 hx with ⟨A, hA, rfl⟩
    exact hnp' A hA
  cases h' : naiveMax (l'.map f') with
  | panic => exact absurd h' hn'
  | div o lim => exact leD_div_of_ne_panic _ _ _ hn
  | ok R' =>
    have hok' : ∀ A ∈ l', ∃ v, f' A = .ok v := by
      intro A hA
      exact naiveMax_ok_inv _ R' h' _ (List.mem_map.2 ⟨A, hA, rfl⟩)
    have hok : ∀ A ∈ l, ∃ v, f A = .ok v := by
      intro A hA
      obtain ⟨A', hA', hle⟩ := hdom A hA
      obtain ⟨v', hv'⟩ := hok' A' hA'
      rw [hv'] at hle
      obtain ⟨a, ha, _⟩ := leD_ok_right _ _ hle
      exact ⟨a, ha⟩
    obtain ⟨g, hg, e⟩ := naiveMax_all_ok f l hok
    obtain ⟨g', hg', e'⟩ := naiveMax_all_ok f' l' hok'
    rw [e', Res.ok.injEq] at h'
    rw [e, ← h']
    show maxList _ ≤ maxList _
    apply maxList_le_of_forall
    intro x hx
    rcases List.mem_map.1 hx with ⟨A, hA, rfl⟩
    obtain ⟨A', hA', hle⟩ := hdom A hA
    rw [hg A hA, hg' A' hA'] at hle
    exact Nat.le_trans hle (mem_le_maxList _ _ (List.mem_map.2 ⟨A', hA', rfl⟩))

/-! ### comparing least solutions -/

theorem nss_leD (sbf sbf' : Nat → Nat) (off off' : Nat) (w w' : Nat → Nat) (limit : Nat)
    (h : ∀ r, w' (max r 1) ≤ sbf' (off' + r) → w (max r 1) ≤ sbf (off + r)) :
    Res.leD (naiveSolveSup sbf off w limit) (naiveSolveSup sbf' off' w' limit) := by
  rcases nss_cases sbf' off' w' limit with ⟨b, hb⟩ | hb
  · rw [hb]
    rw [nss_ok_iff] at hb
    rcases nss_cases sbf off w limit with ⟨a, ha⟩ | ha
    · rw [ha]
      rw [nss_ok_iff] at ha
      show a ≤ b
      rcases Nat.lt_or_ge b a with hlt | hge
      · exact absurd (h b hb.2.1) (ha.2.2 b hlt)
      · exact hge
    · rw [nss_div_iff] at ha
      exact absurd (h b hb.2.1) (ha b hb.1)
  · rw [hb]
    exact leD_div_of_ne_panic _ _ _ (nss_ne_panic _ _ _ _)

/-- the generic comparison for the ECRTS'19 scheme over given offsets -/
theorem rosBoundOn_leD (s s' : Supply) (hsup : s'.Weaker s)
    (bwRhs bwRhs' : Nat → Nat) (offRhs offRhs' : Nat → Nat → Nat) (limit : Nat)
    (offsets offsets' : Nat → List Nat)
    (hbw : ∀ x, bwRhs x ≤ bwRhs' x) (hoff : ∀ A x, offRhs A x ≤ offRhs' A x)
    (hoffs : ∀ m m', m ≤ m' → ∀ A ∈ offsets m, A ∈ offsets' m') :
    Res.leD (naiveRosBoundOn s bwRhs offRhs limit offsets)
      (naiveRosBoundOn s' bwRhs' offRhs' limit offsets') := by
  have h0 : Res.leD (naiveSolveSup s.sbf 0 bwRhs limit) (naiveSolveSup s'.sbf 0 bwRhs' limit) := by
    apply nss_leD
    intro r hr
    exact Nat.le_trans (hbw _) (Nat.le_trans hr (hsup _))
  have hper : ∀ A, Res.leD (naiveSolveSup s.sbf A (offRhs A) limit)
      (naiveSolveSup s'.sbf A (offRhs' A) limit) := by
    intro A
    apply nss_leD
    intro r hr
    exact Nat.le_trans (hoff _ _) (Nat.le_trans hr (hsup _))
  unfold naiveRosBoundOn
  rcases nss_cases s'.sbf 0 bwRhs' limit with ⟨m', hm'⟩ | hm'
  · rw [hm'] at h0 ⊢
    obtain ⟨m, hm, hle⟩ := leD_ok_right _ _ h0
    rw [hm]
    simp only []
    apply naiveMax_leD
    · intro A _; exact nss_ne_panic _ _ _ _
    · intro A _; exact nss_ne_panic _ _ _ _
    · intro A hA
      exact ⟨A, hoffs m m' hle A hA, hper A⟩
  · rw [hm']
    simp only []
    apply leD_div_of_ne_panic
    rcases nss_cases s.sbf 0 bwRhs limit with ⟨m, hm⟩ | hm
    · rw [hm]
      simp only []
      apply naiveMax_ne_panic
      intro x hx
      rcases List.mem_map.1 hx with ⟨A, _, rfl⟩
      exact nss_ne_panic _ _ _ _
    · rw [hm]; intro hc; cases hc

theorem naiveRosBound_eq_on (s : Supply) (bwRhs : Nat → Nat) (offRhs : Nat → Nat → Nat) (limit : Nat) :
    naiveRosBound s bwRhs offRhs limit =
      naiveRosBoundOn s bwRhs offRhs limit (fun m => List.range (m + 1)) := rfl

/-! ### weaker reservations -/

theorem cSbf_budget_le (Q Q' D P : Nat) (h1 : 1 ≤ Q') (h2 : Q' ≤ Q) (h3 : Q ≤ D) (h4 : D ≤ P)
    (d : Nat) : cSbf Q' D P d ≤ cSbf Q D P d := by
  have hc : Compliant Q' D P (worst Q D P) := by
    intro k
    exact Nat.le_trans h2 (worst_compliant Q D P (by omega) h3 h4 k)
  have := cSbf_sound Q' D P h1 (by omega) h4 (worst Q D P) hc Q d
  rw [cSbf_attained Q D P (by omega) h3 h4] at this
  exact this

theorem cSbf_deadline_le (Q D D' P : Nat) (h1 : 1 ≤ Q) (h2 : Q ≤ D) (h3 : D ≤ D') (h4 : D' ≤ P)
    (d : Nat) : cSbf Q D' P d ≤ cSbf Q D P d := by
  have hc : Compliant Q D' P (worst Q D P) := by
    intro k
    exact Nat.le_trans (worst_compliant Q D P h1 h2 (by omega) k) (service_mono _ _ _ _ h3)
  have := cSbf_sound Q D' P h1 (by omega) h4 (worst Q D P) hc Q d
  rw [cSbf_attained Q D P h1 h2 (by omega)] at this
  exact this

/-! ### the tail shared by rr and bw -/

/-- at the least solution the supply equals the demand -/
theorem lfp_eq (s : Supply) (hs : s.WF) (rhs : Nat → Nat) (hm : Mono rhs) (hpos : ∀ x, 1 ≤ rhs x)
    (limit S : Nat) (h : naiveSolveSup s.sbf 0 rhs limit = .ok S) : s.sbf S = rhs S := by
  rw [nss_ok_iff] at h
  obtain ⟨_, hsol, hleast⟩ := h
  rw [Nat.zero_add] at hsol
  have hS : 1 ≤ S := by
    rcases Nat.eq_zero_or_pos S with h0 | hp
    · subst h0
      rw [Supply.sbf_zero s hs] at hsol
      have := hpos (max 0 1)
      omega
    · exact hp
  have e : max S 1 = S := by omega
  rw [e] at hsol
  have hn := hleast (S - 1) (by omega)
  rw [Nat.zero_add] at hn
  have hl := (Supply.sbf_lipschitz s hs (S - 1)).2
  have e2 : S - 1 + 1 = S := by omega
  rw [e2] at hl
  have := hm (max (S - 1) 1) S (by omega)
  omega

theorem naiveSt_le (s s' : Supply) (hs : s.WF) (hs' : s'.WF) (hsup : s'.Weaker s) (d d' : Nat)
    (h : d ≤ d') : naiveSt s d ≤ naiveSt s' d' := by
  rw [naiveSt_eq s hs, naiveSt_eq s' hs']
  have h1 := (Supply.galois s' hs' d' (s'.stClosed d')).1 (Nat.le_refl _)
  exact (Supply.galois s hs d _).2 (Nat.le_trans h (Nat.le_trans h1 (hsup _)))

theorem tail_pair (s s' : Supply) (hs : s.WF) (hs' : s'.WF) (hsup : s'.Weaker s)
    (rhs rhs' : Nat → Nat) (hm : Mono rhs) (hm' : Mono rhs') (hpos : ∀ x, 1 ≤ rhs x)
    (hle : ∀ x, rhs x ≤ rhs' x) (limit : Nat) :
    (∃ S S', naiveSolveSup s.sbf 0 rhs limit = .ok S ∧ naiveSolveSup s'.sbf 0 rhs' limit = .ok S' ∧
      ∀ ω ω', ω ≤ ω' → naiveSt s (s.sbf S - 1 + ω) ≤ naiveSt s' (s'.sbf S' - 1 + ω')) ∨
    (naiveSolveSup s'.sbf 0 rhs' limit = .div 0 limit ∧
      ((∃ S, naiveSolveSup s.sbf 0 rhs limit = .ok S) ∨ naiveSolveSup s.sbf 0 rhs limit = .div 0 limit)) := by
  have h0 : Res.leD (naiveSolveSup s.sbf 0 rhs limit) (naiveSolveSup s'.sbf 0 rhs' limit) := by
    apply nss_leD
    intro r hr
    exact Nat.le_trans (hle _) (Nat.le_trans hr (hsup _))
  rcases nss_cases s'.sbf 0 rhs' limit with ⟨S', hS'⟩ | hd
  · left
    rw [hS'] at h0
    obtain ⟨S, hS, hSS⟩ := leD_ok_right _ _ h0
    refine ⟨S, S', hS, hS', ?_⟩
    intro ω ω' hω
    apply naiveSt_le s s' hs hs' hsup
    have e := lfp_eq s hs rhs hm hpos limit S hS
    have hsol := ((nss_ok_iff _ _ _ _ _).1 hS').2.1
    rw [Nat.zero_add] at hsol
    have h1 := hle S
    have h2 := hm' S (max S' 1) (by omega)
    have h3 := (Supply.sbf_lipschitz s' hs' S').1
    omega
  · right
    exact ⟨hd, nss_cases _ _ _ _⟩

/-! ### the workload order -/

theorem ppBound_le (cb cb' : Callback) (h : cb.Le cb') (hwf' : cb'.arr.WF) : cb.ppBound ≤ cb'.ppBound := by
  unfold Callback.ppBound
  exact Nat.le_trans (h.arr _) (Arr.N_mono _ hwf' _ _ h.rtb)

theorem getD_le (wl wl' : List Callback) (hle : WorkloadLe wl wl') (i : Nat) (hi : i < wl.length) :
    (wl.getD i default).Le (wl'.getD i default) := hle.2 i hi

theorem sumPPBound_le (wl wl' : List Callback) (hle : WorkloadLe wl wl') (sub : List Nat)
    (hsub : ∀ i ∈ sub, i < wl.length) (hwf' : ∀ cb ∈ wl', cb.arr.WF) :
    sumPPBound wl sub ≤ sumPPBound wl' sub := by
  unfold sumPPBound
  apply sumList_map_le
  intro i hi
  have h1 := hsub i hi
  exact ppBound_le _ _ (hle.2 i h1) (hwf' _ (getD_mem wl' i (hle.1 ▸ h1)))

theorem cost_le (cb cb' : Callback) (h : cb.Le cb') (hm' : MonoN cb'.cost.ofJobs) (n n' : Nat)
    (hn : n ≤ n') : cb.cost.ofJobs n ≤ cb'.cost.ofJobs n' :=
  Nat.le_trans (h.cost n) (hm' _ _ hn)

theorem directRbf_le (cb cb' : Callback) (h : cb.Le cb') (hwf' : cb'.arr.WF)
    (hm' : MonoN cb'.cost.ofJobs) (k : CbKind) (x npp npp' : Nat) (hnpp : npp ≤ npp') :
    cb.directRbf k x npp ≤ cb'.directRbf k x npp' := by
  unfold Callback.directRbf
  simp only []
  rw [h.kind]
  apply cost_le cb cb' h hm'
  apply cappedJobs_mono2
  · have := h.rtb
    exact Nat.le_trans (h.arr _) (Arr.N_mono _ hwf' _ _ (by omega))
  · exact hnpp

theorem bwRbf_le (cb cb' : Callback) (h : cb.Le cb') (hm' : MonoN cb'.cost.ofJobs)
    (k : CbKind) (x a npp npp' : Nat) (hnpp : npp ≤ npp') :
    cb.bwRbf k x a npp ≤ cb'.bwRbf k x a npp' := by
  unfold Callback.bwRbf
  simp only []
  rw [h.kind]
  apply cost_le cb cb' h hm'
  apply cappedJobs_mono2
  · exact h.arr _
  · have := h.arr a
    omega

theorem rrRhs_le (wl wl' : List Callback) (hle : WorkloadLe wl wl') (e npp npp' : Nat)
    (he : e < wl.length) (hwf' : ∀ cb ∈ wl', cb.arr.WF ∧ MonoN cb.cost.ofJobs)
    (hnpp : npp ≤ npp') (x : Nat) : rrRhs wl e npp x ≤ rrRhs wl' e npp' x := by
  have hk := (hle.2 e he).kind
  have heoc' := hwf' _ (getD_mem wl' e (hle.1 ▸ he))
  unfold rrRhs
  simp only []
  rw [← hle.1, ← hk]
  have h1 : sumList ((List.range wl.length).map fun i =>
        if i = e then 0 else (wl.getD i default).directRbf (wl.getD e default).kind x npp) ≤
      sumList ((List.range wl.length).map fun i =>
        if i = e then 0 else (wl'.getD i default).directRbf (wl.getD e default).kind x npp') := by
    apply sumList_map_le
    intro i hi
    have hi' := List.mem_range.1 hi
    have hcb' := hwf' _ (getD_mem wl' i (hle.1 ▸ hi'))
    split
    · exact Nat.le_refl _
    · exact directRbf_le _ _ (hle.2 i hi') hcb'.1 hcb'.2 _ _ _ _ hnpp
  have h2 : (wl.getD e default).cost.ofJobs ((wl.getD e default).rrSelfInstances x) ≤
      (wl'.getD e default).cost.ofJobs ((wl'.getD e default).rrSelfInstances x) := by
    apply cost_le _ _ (hle.2 e he) heoc'.2
    unfold Callback.rrSelfInstances
    have h3 := (hle.2 e he).arr (x + (wl.getD e default).rtb - 1)
    have h4 := Arr.N_mono _ heoc'.1 (x + (wl.getD e default).rtb - 1)
      (x + (wl'.getD e default).rtb - 1) (by have := (hle.2 e he).rtb; omega)
    omega
  omega

theorem bwInterference_le (wl wl' : List Callback) (hle : WorkloadLe wl wl') (e : Nat) (k : CbKind)
    (npp npp' : Nat) (hwf' : ∀ cb ∈ wl', cb.arr.WF ∧ MonoN cb.cost.ofJobs)
    (hnpp : npp ≤ npp') (x a : Nat) :
    bwInterference wl e k npp x a ≤ bwInterference wl' e k npp' x a := by
  unfold bwInterference
  rw [← hle.1]
  apply sumList_map_le
  intro i hi
  have hi' := List.mem_range.1 hi
  have hcb' := hwf' _ (getD_mem wl' i (hle.1 ▸ hi'))
  split
  · exact Nat.le_refl _
  · exact bwRbf_le _ _ (hle.2 i hi') hcb'.2 _ _ _ _ _ hnpp

theorem rrRhs_pos (wl : List Callback) (e npp x : Nat) : 1 ≤ rrRhs wl e npp x := by
  unfold rrRhs
  simp only []
  omega

/-- bw, per activation offset -/
theorem bwPer_leD (s s' : Supply) (hs : s.WF) (hs' : s'.WF) (hsup : s'.Weaker s)
    (wl wl' : List Callback) (hle : WorkloadLe wl wl') (e npp npp' : Nat) (he : e < wl.length)
    (hwf : ∀ cb ∈ wl, cb.arr.WF ∧ MonoN cb.cost.ofJobs)
    (hwf' : ∀ cb ∈ wl', cb.arr.WF ∧ MonoN cb.cost.ofJobs) (hnpp : npp ≤ npp')
    (hω : ∀ n n', (wl.getD e default).cost.ofJobs (n + 1) - (wl.getD e default).cost.ofJobs n ≤
      (wl'.getD e default).cost.ofJobs (n' + 1) - (wl'.getD e default).cost.ofJobs n')
    (sg : Bool) (limit act : Nat) :
    Res.leD (naiveBwPer s wl e npp sg limit act) (naiveBwPer s' wl' e npp' sg limit act) := by
  have hk := (hle.2 e he).kind
  have heoc' := hwf' _ (getD_mem wl' e (hle.1 ▸ he))
  unfold naiveBwPer
  simp only []
  rw [← hk]
  rcases tail_pair s s' hs hs' hsup
    (fun sStar => 1 + bwInterference wl e (wl.getD e default).kind npp sStar act +
      (wl.getD e default).cost.ofJobs ((wl.getD e default).bwSelfInstances act))
    (fun sStar => 1 + bwInterference wl' e (wl.getD e default).kind npp' sStar act +
      (wl'.getD e default).cost.ofJobs ((wl'.getD e default).bwSelfInstances act))
    (by
      intro x y hxy
      have := bwInterference_mono wl e (wl.getD e default).kind npp hwf x y act act hxy (Nat.le_refl _)
      show 1 + _ + _ ≤ 1 + _ + _
      omega)
    (by
      intro x y hxy
      have := bwInterference_mono wl' e (wl.getD e default).kind npp' hwf' x y act act hxy (Nat.le_refl _)
      show 1 + _ + _ ≤ 1 + _ + _
      omega)
    (by intro x; show 1 ≤ 1 + _ + _; omega)
    (by
      intro x
      have h1 := bwInterference_le wl wl' hle e (wl.getD e default).kind npp npp' hwf' hnpp x act
      have h2 : (wl.getD e default).cost.ofJobs ((wl.getD e default).bwSelfInstances act) ≤
          (wl'.getD e default).cost.ofJobs ((wl'.getD e default).bwSelfInstances act) := by
        apply cost_le _ _ (hle.2 e he) heoc'.2
        unfold Callback.bwSelfInstances
        have := (hle.2 e he).arr (act + 1)
        omega
      show 1 + _ + _ ≤ 1 + _ + _
      omega)
    limit with ⟨S, S', h1, h2, h3⟩ | ⟨h2, ⟨S, h1⟩ | h1⟩
  · rw [h1, h2]
    have := h3 _ _ (hω ((wl.getD e default).bwSelfInstances act) ((wl'.getD e default).bwSelfInstances act))
    show (if sg = true then _ - act else _) ≤ (if sg = true then _ - act else _)
    split <;> omega
  · rw [h1, h2]
    exact trivial
  · rw [h1, h2]
    exact trivial

theorem naiveBwPer_ne_panic (s : Supply) (wl : List Callback) (e npp : Nat) (sg : Bool)
    (limit act : Nat) : naiveBwPer s wl e npp sg limit act ≠ .panic := by
  rcases naiveBwPer_cases s wl e npp sg limit act with ⟨v, h⟩ | h <;> rw [h] <;> intro hc <;> cases hc

end MonoRosLemmas
open MonoRosLemmas RosNaiveLemmas PruneCoreLemmas

/-- event source: more demand / weaker supply -/
theorem eventSource_mono (s s' : Supply) (hs : s.WF) (hs' : s'.WF) (hsup : s'.Weaker s)
    (demand demand' : RB) (hwf : demand.ArrWF) (hex : demand.Exact)
    (hwf' : demand'.ArrWF) (hex' : demand'.Exact)
    (h : ∀ d, demand.need d ≤ demand'.need d) (limit : Nat) (hl : 1 ≤ limit) :
    Res.leD (rosEventSource s demand limit) (rosEventSource s' demand' limit) := by
  rw [eventSource_eq_naive s hs demand hwf hex limit hl,
    eventSource_eq_naive s' hs' demand' hwf' hex' limit hl]
  unfold naiveEventSource
  rw [naiveRosBound_eq_on, naiveRosBound_eq_on]
  apply rosBoundOn_leD s s' hsup
  · intro x; exact h x
  · intro A _; exact h (A + 1)
  · intro m m' hmm A hA
    rw [List.mem_range] at hA ⊢
    omega

/-- timer: more interference, more blocking, weaker supply (the callback's own model fixed) -/
theorem timer_mono (s s' : Supply) (hs : s.WF) (hs' : s'.WF) (hsup : s'.Weaker s)
    (a : Arr) (C : Nat) (hwf : a.WF) (hex : a.Exact) (hC : 1 ≤ C) (hpos : 0 < a.N 1)
    (interf interf' : RB) (hwfi : interf.ArrWF) (hexi : interf.Exact)
    (hwfi' : interf'.ArrWF) (hexi' : interf'.Exact)
    (h : ∀ d, interf.need d ≤ interf'.need d) (B B' : Nat) (hB : B ≤ B') (limit : Nat) (hl : 1 ≤ limit) :
    Res.leD (rosTimer s (.rbf a (.scalar C)) interf B limit)
      (rosTimer s' (.rbf a (.scalar C)) interf' B' limit) := by
  obtain ⟨h1, h2⟩ := scalar_rb_side a C hwf hex hC
  rw [timer_eq_naive_on_steps s hs a C interf hwf hex hC hpos hwfi hexi B limit hl,
    timer_eq_naive_on_steps s' hs' a C interf' hwf hex hC hpos hwfi' hexi' B' limit hl]
  apply rosBoundOn_leD s s' hsup
  · intro x
    have := h x
    show _ + B + _ ≤ _ + B' + _
    omega
  · intro A x
    have := h (interferenceInterval (.rbf a (.scalar C)) A x)
    show _ + _ + B ≤ _ + _ + B'
    omega
  · intro m m' hmm A hA
    rw [mem_rosOffsets _ h1 h2] at hA ⊢
    exact ⟨by omega, hA.2⟩

/-- polling-point callback: more interference, weaker supply (the callback's own model fixed) -/
theorem pollingPoint_mono (s s' : Supply) (hs : s.WF) (hs' : s'.WF) (hsup : s'.Weaker s)
    (a : Arr) (C : Nat) (hwf : a.WF) (hex : a.Exact) (hC : 1 ≤ C) (hpos : 0 < a.N 1)
    (interf interf' : RB) (hwfi : interf.ArrWF) (hexi : interf.Exact)
    (hwfi' : interf'.ArrWF) (hexi' : interf'.Exact)
    (h : ∀ d, interf.need d ≤ interf'.need d) (limit : Nat) (hl : 1 ≤ limit) :
    Res.leD (rosPollingPoint s (.rbf a (.scalar C)) interf limit)
      (rosPollingPoint s' (.rbf a (.scalar C)) interf' limit) := by
  obtain ⟨h1, h2⟩ := scalar_rb_side a C hwf hex hC
  rw [pollingPoint_eq_naive_on_steps s hs a C interf hwf hex hC hpos hwfi hexi limit hl,
    pollingPoint_eq_naive_on_steps s' hs' a C interf' hwf hex hC hpos hwfi' hexi' limit hl]
  apply rosBoundOn_leD s s' hsup
  · intro x
    have := h x
    show _ + _ ≤ _ + _
    omega
  · intro A x
    have := h (interferenceInterval (.rbf a (.scalar C)) A x)
    show _ + _ ≤ _ + _
    omega
  · intro m m' hmm A hA
    rw [mem_rosOffsets _ h1 h2] at hA ⊢
    exact ⟨by omega, hA.2⟩

/-- rr subchain analysis: pointwise harder workload (the end-of-chain callback with a
marginal cost that does not shrink), weaker supply -/
theorem rr_mono (s s' : Supply) (hs : s.WF) (hs' : s'.WF) (hsup : s'.Weaker s)
    (wl wl' : List Callback) (sub : List Nat) (limit : Nat) (hl : 1 ≤ limit)
    (hne : sub ≠ []) (hsub : ∀ i ∈ sub, i < wl.length)
    (hwf : ∀ cb ∈ wl, cb.arr.WF ∧ MonoN cb.cost.ofJobs)
    (hwf' : ∀ cb ∈ wl', cb.arr.WF ∧ MonoN cb.cost.ofJobs)
    (hle : WorkloadLe wl wl')
    (hω : ∀ e, sub.getLast? = some e → ∀ n n',
      (wl.getD e default).cost.ofJobs (n + 1) - (wl.getD e default).cost.ofJobs n ≤
      (wl'.getD e default).cost.ofJobs (n' + 1) - (wl'.getD e default).cost.ofJobs n') :
    Res.leD (rrSubchain s wl sub limit) (rrSubchain s' wl' sub limit) := by
  have hsub' : ∀ i ∈ sub, i < wl'.length := fun i hi => hle.1 ▸ hsub i hi
  rw [rr_eq_naive s hs wl sub limit hl hsub hwf, rr_eq_naive s' hs' wl' sub limit hl hsub' hwf']
  unfold naiveRr
  cases hlast : sub.getLast? with
  | none => exact absurd (List.getLast?_eq_none_iff.1 hlast) hne
  | some e =>
    have he := hsub e (List.mem_of_getLast? hlast)
    have he' := hsub' e (List.mem_of_getLast? hlast)
    have hnpp := sumPPBound_le wl wl' hle sub hsub (fun cb h => (hwf' cb h).1)
    simp only []
    rcases tail_pair s s' hs hs' hsup (rrRhs wl e (sumPPBound wl sub)) (rrRhs wl' e (sumPPBound wl' sub))
      (rrRhs_mono wl e _ hwf he) (rrRhs_mono wl' e _ hwf' he') (rrRhs_pos wl e _)
      (rrRhs_le wl wl' hle e _ _ he hwf' hnpp) limit with ⟨S, S', h1, h2, h3⟩ | ⟨h2, ⟨S, h1⟩ | h1⟩
    · rw [h1, h2]
      exact h3 _ _ (hω e hlast _ _)
    · rw [h1, h2]
      exact trivial
    · rw [h1, h2]
      exact trivial

/-- bw subchain analysis: the same -/
theorem bw_mono (s s' : Supply) (hs : s.WF) (hs' : s'.WF) (hsup : s'.Weaker s)
    (wl wl' : List Callback) (sub : List Nat) (limit : Nat) (hl : 1 ≤ limit)
    (hne : sub ≠ []) (hsub : ∀ i ∈ sub, i < wl.length)
    (hwf : ∀ cb ∈ wl, cb.arr.WF ∧ cb.arr.Exact ∧ MonoN cb.cost.ofJobs)
    (hwf' : ∀ cb ∈ wl', cb.arr.WF ∧ cb.arr.Exact ∧ MonoN cb.cost.ofJobs)
    (hpos : ∀ e, sub.getLast? = some e → 0 < (wl.getD e default).arr.N 1)
    (hle : WorkloadLe wl wl')
    (hω : ∀ e, sub.getLast? = some e → ∀ n n',
      (wl.getD e default).cost.ofJobs (n + 1) - (wl.getD e default).cost.ofJobs n ≤
      (wl'.getD e default).cost.ofJobs (n' + 1) - (wl'.getD e default).cost.ofJobs n')
    (dbg : Bool) :
    Res.leD (bwSubchain s wl sub limit dbg) (bwSubchain s' wl' sub limit dbg) := by
  have hsub' : ∀ i ∈ sub, i < wl'.length := fun i hi => hle.1 ▸ hsub i hi
  have hwf2 : ∀ cb ∈ wl, cb.arr.WF ∧ MonoN cb.cost.ofJobs := fun cb h => ⟨(hwf cb h).1, (hwf cb h).2.2⟩
  have hwf2' : ∀ cb ∈ wl', cb.arr.WF ∧ MonoN cb.cost.ofJobs :=
    fun cb h => ⟨(hwf' cb h).1, (hwf' cb h).2.2⟩
  have hpos' : ∀ e, sub.getLast? = some e → 0 < (wl'.getD e default).arr.N 1 := by
    intro e hlast
    have he := hsub e (List.mem_of_getLast? hlast)
    exact Nat.lt_of_lt_of_le (hpos e hlast) ((hle.2 e he).arr 1)
  rw [bw_eq_naive s hs wl sub limit hl hne hsub hwf hpos dbg,
    bw_eq_naive s' hs' wl' sub limit hl hne hsub' hwf' hpos' dbg]
  unfold naiveBw
  cases hlast : sub.getLast? with
  | none => exact absurd (List.getLast?_eq_none_iff.1 hlast) hne
  | some e =>
    have he := hsub e (List.mem_of_getLast? hlast)
    have he' := hsub' e (List.mem_of_getLast? hlast)
    have hnpp := sumPPBound_le wl wl' hle sub hsub (fun cb h => (hwf' cb h).1)
    have hk := (hle.2 e he).kind
    have heoc' := hwf2' _ (getD_mem wl' e he')
    simp only []
    have h0 : Res.leD
        (naiveSolveSup s.sbf 0 (fun ta => 1 + bwInterference wl e (wl.getD e default).kind
          (sumPPBound wl sub) ta ta + (wl.getD e default).cost.ofJobs ((wl.getD e default).arr.N ta)) limit)
        (naiveSolveSup s'.sbf 0 (fun ta => 1 + bwInterference wl' e (wl'.getD e default).kind
          (sumPPBound wl' sub) ta ta + (wl'.getD e default).cost.ofJobs ((wl'.getD e default).arr.N ta)) limit) := by
      apply nss_leD
      intro r hr
      refine Nat.le_trans ?_ (Nat.le_trans hr (hsup _))
      rw [← hk]
      have h1 := bwInterference_le wl wl' hle e (wl.getD e default).kind _ _ hwf2' hnpp (max r 1) (max r 1)
      have h2 := cost_le _ _ (hle.2 e he) heoc'.2 _ _ ((hle.2 e he).arr (max r 1))
      show 1 + _ + _ ≤ 1 + _ + _
      omega
    rcases nss_cases s'.sbf 0 (fun ta => 1 + bwInterference wl' e (wl'.getD e default).kind
          (sumPPBound wl' sub) ta ta + (wl'.getD e default).cost.ofJobs ((wl'.getD e default).arr.N ta))
        limit with ⟨m', hm'⟩ | hm'
    · rw [hm'] at h0 ⊢
      obtain ⟨m, hm, hmm⟩ := leD_ok_right _ _ h0
      rw [hm]
      simp only []
      apply naiveMax_leD
      · intro A _; exact naiveBwPer_ne_panic _ _ _ _ _ _ _
      · intro A _; exact naiveBwPer_ne_panic _ _ _ _ _ _ _
      · intro A hA
        refine ⟨A, ?_, bwPer_leD s s' hs hs' hsup wl wl' hle e _ _ he hwf2 hwf2' hnpp (hω e hlast) _ limit A⟩
        rw [List.mem_range] at hA ⊢
        omega
    · rw [hm']
      simp only []
      apply leD_div_of_ne_panic
      rcases nss_cases s.sbf 0 (fun ta => 1 + bwInterference wl e (wl.getD e default).kind
          (sumPPBound wl sub) ta ta + (wl.getD e default).cost.ofJobs ((wl.getD e default).arr.N ta))
          limit with ⟨m, hm⟩ | hm
      · rw [hm]
        simp only []
        apply naiveMax_ne_panic
        intro x hx
        rcases List.mem_map.1 hx with ⟨A, _, rfl⟩
        exact naiveBwPer_ne_panic _ _ _ _ _ _ _
      · rw [hm]; intro hc; cases hc

/-- weaker supplies, concretely: a smaller budget, a later deadline -/
theorem weaker_supplies :
    (∀ Q Q' P, 1 ≤ Q' → Q' ≤ Q → Q ≤ P → (Supply.periodic Q' P).Weaker (.periodic Q P)) ∧
    (∀ Q Q' D P, 1 ≤ Q' → Q' ≤ Q → Q ≤ D → D ≤ P → (Supply.constrained Q' D P).Weaker (.constrained Q D P)) ∧
    (∀ Q D D' P, 1 ≤ Q → Q ≤ D → D ≤ D' → D' ≤ P → (Supply.constrained Q D' P).Weaker (.constrained Q D P)) ∧
    (∀ Q P, 1 ≤ Q → Q ≤ P → (Supply.periodic Q P).Weaker .dedicated) := by
  refine ⟨?_, ?_, ?_, ?_⟩
  · intro Q Q' P h1 h2 h3 d
    show pSbf Q' P d ≤ pSbf Q P d
    rw [pSbf_eq_cSbf Q' P h1 (by omega), pSbf_eq_cSbf Q P (by omega) h3]
    exact cSbf_budget_le Q Q' P P h1 h2 h3 (Nat.le_refl _) d
  · intro Q Q' D P h1 h2 h3 h4 d
    exact cSbf_budget_le Q Q' D P h1 h2 h3 h4 d
  · intro Q D D' P h1 h2 h3 h4 d
    exact cSbf_deadline_le Q D D' P h1 h2 h3 h4 d
  · intro Q P h1 h2 d
    show pSbf Q P d ≤ d
    have := lipschitz_add (pSbf_lipschitz Q P h1 h2) 0 d
    rw [pSbf_zero Q P h1 h2, Nat.zero_add] at this
    omega

/-- hardened callbacks, concretely: a larger scalar WCET, more jitter, a larger assumed
response-time bound keep the marginal-cost condition and the pointwise order -/
theorem scalar_callback_le (rtb rtb' : Nat) (a a' : Arr) (C C' : Nat) (k : CbKind)
    (hr : rtb ≤ rtb') (ha : ∀ d, a.N d ≤ a'.N d) (hC : C ≤ C') :
    Callback.Le ⟨rtb, a, .scalar C, k⟩ ⟨rtb', a', .scalar C', k⟩ ∧
    (∀ n n', (Cost.scalar C).ofJobs (n + 1) - (Cost.scalar C).ofJobs n ≤
      (Cost.scalar C').ofJobs (n' + 1) - (Cost.scalar C').ofJobs n') := by
  refine ⟨⟨rfl, hr, ha, ?_⟩, ?_⟩
  · intro n
    exact Nat.mul_le_mul_right n hC
  · intro n n'
    show C * (n + 1) - C * n ≤ C' * (n' + 1) - C' * n'
    rw [Nat.mul_add, Nat.mul_add]
    omega

end RTA
