import RTA.Spec.PoissonReal
import Mathlib.Analysis.Calculus.Deriv.MeanValue
import Mathlib.Analysis.SpecialFunctions.ExpDeriv
import Mathlib.Analysis.Calculus.Deriv.Pow
import Mathlib.Analysis.Calculus.Deriv.Add
import Mathlib.Analysis.Calculus.Deriv.Mul
import Mathlib.Topology.Algebra.InfiniteSum.Order
import Mathlib.Topology.Algebra.InfiniteSum.NatInt
/-! Helper lemmas for C15 (real-valued Poisson quantile algorithm). -/

open Finset

namespace RTA.PoissonLemmas
open RTA.PoissonReal

theorem pmf_nonneg (m : ℝ) (hm : 0 ≤ m) (k : ℕ) : 0 ≤ pmf m k := by
  unfold pmf
  have h1 : 0 < Real.exp (-m) := Real.exp_pos _
  have h2 : 0 ≤ m ^ k := pow_nonneg hm k
  have h3 : (0 : ℝ) < (k.factorial : ℝ) := by exact_mod_cast k.factorial_pos
  exact div_nonneg (mul_nonneg h1.le h2) h3.le

theorem pmf_hasSum (m : ℝ) : HasSum (pmf m) 1 := by
  have h : HasSum (fun n : ℕ => m ^ n / (n.factorial : ℝ)) (Real.exp m) := by
    rw [Real.exp_eq_exp_ℝ]
    exact NormedSpace.expSeries_div_hasSum_exp m
  have h2 := h.mul_left (Real.exp (-m))
  have e1 : Real.exp (-m) * Real.exp m = 1 := by
    rw [← Real.exp_add]; simp
  rw [e1] at h2
  have e2 : pmf m = fun n : ℕ => Real.exp (-m) * (m ^ n / (n.factorial : ℝ)) := by
    funext n; unfold pmf; rw [mul_div_assoc]
  rw [e2]; exact h2

theorem cdf_succ (m : ℝ) (n : ℕ) : cdf m (n + 1) = cdf m n + pmf m (n + 1) := by
  unfold cdf; rw [Finset.sum_range_succ]

theorem cdf_eq (m : ℝ) (n : ℕ) : cdf m n = (∑ k ∈ range n, pmf m k) + pmf m n := by
  unfold cdf; rw [Finset.sum_range_succ]

theorem cdf_mono (m : ℝ) (hm : 0 ≤ m) (n n' : ℕ) (h : n ≤ n') : cdf m n ≤ cdf m n' := by
  induction n', h using Nat.le_induction with
  | base => exact le_rfl
  | succ k _ ih =>
    rw [cdf_succ]
    have := pmf_nonneg m hm (k + 1)
    linarith

theorem cdf_le_one (m : ℝ) (hm : 0 ≤ m) (n : ℕ) : cdf m n ≤ 1 := by
  unfold cdf
  exact sum_le_hasSum _ (fun k _ => pmf_nonneg m hm k) (pmf_hasSum m)

theorem cdf_eventually (m ε : ℝ) (_hm : 0 ≤ m) (hε : 0 < ε) : ∃ n, 1 ≤ cdf m n + ε := by
  have ht := (pmf_hasSum m).tendsto_sum_nat
  have hlt : (1 - ε) < 1 := by linarith
  have hev := (tendsto_order.1 ht).1 (1 - ε) hlt
  obtain ⟨n, hn⟩ := (hev.and (Filter.eventually_ge_atTop 1)).exists
  obtain ⟨h1, h2⟩ := hn
  refine ⟨n - 1, ?_⟩
  unfold cdf
  have : n - 1 + 1 = n := by omega
  rw [this]
  linarith

theorem loop_gen (m ε : ℝ) (n : ℕ) (hn : 1 ≤ cdf m n + ε)
    (hleast : ∀ k, k < n → cdf m k + ε < 1) :
    ∀ d j, j + d = n → loop m ε (d + 1) (∑ k ∈ range j, pmf m k) j = some n := by
  intro d
  induction d with
  | zero =>
    intro j hj
    have hjn : j = n := by omega
    subst hjn
    rw [cdf_eq] at hn
    unfold loop
    rw [if_pos (by linarith)]
  | succ d ih =>
    intro j hj
    have hlt : j < n := by omega
    have h1 := hleast j hlt
    rw [cdf_eq] at h1
    unfold loop
    rw [if_neg (by intro hge; linarith)]
    have := ih (j + 1) (by omega)
    rw [Finset.sum_range_succ] at this
    exact this

theorem loop_spec (m ε : ℝ) (n : ℕ) (hn : 1 ≤ cdf m n + ε)
    (hleast : ∀ k, k < n → cdf m k + ε < 1) :
    loop m ε (n + 1) 0 0 = some n := by
  have := loop_gen m ε n hn hleast n 0 (by omega)
  simpa using this

theorem number_arrivals_is_quantile (r ε : ℝ) (hr : 0 ≤ r) (hε : 0 < ε) (delta : ℕ)
    (hd : 1 ≤ delta) :
    ∃ n fuel, numberArrivals r ε delta fuel = some n ∧
      1 - ε ≤ cdf ((delta : ℝ) * r) n ∧ ∀ k, k < n → cdf ((delta : ℝ) * r) k < 1 - ε := by
  classical
  have hm : 0 ≤ (delta : ℝ) * r := mul_nonneg (Nat.cast_nonneg _) hr
  have hex := cdf_eventually ((delta : ℝ) * r) ε hm hε
  have hn := Nat.find_spec hex
  have hleast : ∀ k, k < Nat.find hex → cdf ((delta : ℝ) * r) k + ε < 1 := by
    intro k hk
    have := Nat.find_min hex hk
    exact not_le.1 this
  refine ⟨Nat.find hex, Nat.find hex + 1, ?_, by linarith, ?_⟩
  · unfold numberArrivals
    rw [if_neg (by omega)]
    exact loop_spec _ _ _ hn hleast
  · intro k hk
    have := hleast k hk
    linarith

theorem number_arrivals_zero (r ε : ℝ) (fuel : ℕ) : numberArrivals r ε 0 fuel = some 0 := by
  unfold numberArrivals
  rw [if_pos rfl]

/-! ### monotonicity in the mean -/

theorem hasDerivAt_pmf_zero (m : ℝ) : HasDerivAt (fun x => pmf x 0) (-pmf m 0) m := by
  have h : HasDerivAt (fun x : ℝ => Real.exp (-x)) (Real.exp (-m) * -1) m :=
    (hasDerivAt_neg m).exp
  have e : (fun x => pmf x 0) = fun x : ℝ => Real.exp (-x) := by
    funext x; unfold pmf; simp
  rw [e]
  have e2 : -pmf m 0 = Real.exp (-m) * -1 := by unfold pmf; simp
  rw [e2]; exact h

theorem hasDerivAt_pmf_succ (m : ℝ) (k : ℕ) :
    HasDerivAt (fun x => pmf x (k + 1)) (pmf m k - pmf m (k + 1)) m := by
  have h1 : HasDerivAt (fun x : ℝ => Real.exp (-x)) (Real.exp (-m) * -1) m :=
    (hasDerivAt_neg m).exp
  have h2 : HasDerivAt (fun x : ℝ => x ^ (k + 1)) (((k + 1 : ℕ) : ℝ) * m ^ k) m := by
    simpa using hasDerivAt_pow (k + 1) m
  have h3 := (h1.mul h2).div_const (((k + 1).factorial : ℝ))
  have hk : ((k.factorial : ℝ)) ≠ 0 := by exact_mod_cast k.factorial_pos.ne'
  have hk1 : (((k : ℝ) + 1)) ≠ 0 := by positivity
  have e : pmf m k - pmf m (k + 1) =
      (Real.exp (-m) * -1 * m ^ (k + 1) + Real.exp (-m) * (((k + 1 : ℕ) : ℝ) * m ^ k))
        / ((k + 1).factorial : ℝ) := by
    unfold pmf
    rw [Nat.factorial_succ]
    push_cast
    field_simp
    ring
  rw [e]
  exact h3

theorem hasDerivAt_cdf (n : ℕ) (m : ℝ) : HasDerivAt (fun x => cdf x n) (-pmf m n) m := by
  induction n with
  | zero =>
    have e : (fun x => cdf x 0) = fun x => pmf x 0 := by
      funext x; unfold cdf; simp
    rw [e]; exact hasDerivAt_pmf_zero m
  | succ n ih =>
    have e : (fun x => cdf x (n + 1)) = fun x => cdf x n + pmf x (n + 1) := by
      funext x; exact cdf_succ x n
    rw [e]
    have h := ih.add (hasDerivAt_pmf_succ m n)
    have e2 : -pmf m (n + 1) = -pmf m n + (pmf m n - pmf m (n + 1)) := by ring
    rw [e2]; exact h

theorem cdf_antitone_mean (n : ℕ) (m m' : ℝ) (hm : 0 ≤ m) (h : m ≤ m') :
    cdf m' n ≤ cdf m n := by
  have hanti : AntitoneOn (fun x => cdf x n) (Set.Ici 0) := by
    apply antitoneOn_of_deriv_nonpos (convex_Ici 0)
    · exact fun x _ => (hasDerivAt_cdf n x).continuousAt.continuousWithinAt
    · exact fun x _ => (hasDerivAt_cdf n x).differentiableAt.differentiableWithinAt
    · intro x hx
      rw [interior_Ici] at hx
      rw [(hasDerivAt_cdf n x).deriv]
      have := pmf_nonneg x (le_of_lt hx) n
      linarith
  exact hanti (Set.mem_Ici.2 hm) (Set.mem_Ici.2 (hm.trans h)) h

theorem quantile_mono (r ε : ℝ) (hr : 0 ≤ r) (_hε : 0 < ε) (d d' : ℕ) (h : d ≤ d') (n n' : ℕ)
    (hq : 1 - ε ≤ cdf ((d : ℝ) * r) n ∧ ∀ k, k < n → cdf ((d : ℝ) * r) k < 1 - ε)
    (hq' : 1 - ε ≤ cdf ((d' : ℝ) * r) n' ∧ ∀ k, k < n' → cdf ((d' : ℝ) * r) k < 1 - ε) :
    n ≤ n' := by
  by_contra hlt
  have hlt' : n' < n := not_le.1 hlt
  have h1 := hq.2 n' hlt'
  have h2 := hq'.1
  have hle : (d : ℝ) * r ≤ (d' : ℝ) * r :=
    mul_le_mul_of_nonneg_right (Nat.cast_le.2 h) hr
  have h3 := cdf_antitone_mean n' _ _ (mul_nonneg (Nat.cast_nonneg _) hr) hle
  linarith

end RTA.PoissonLemmas
