import RTA.Lemmas.TimerSound
/-! C05, round-robin-aware analysis (`rr::rta_subchain`, singleton subchains): soundness over
a schedule-level Spec of the ROS 2 executor with polling points.

Spec (`PollingExecLegal`): callbacks are timers or polled callbacks; some slots are *polling
points* (the ready set is refreshed; only when nothing is running).
* non-preemptive, progress only in supplied slots, no idling while anything is pending,
  instances of one callback start in release order;
* a polled callback is never started while a timer instance is pending;
* a polled instance starts only in the window of a polling point at which it was already
  pending, at most one instance per polled callback and window;
* starvation freedom: an instance of a polled callback that was pending at a polling point `p`
  and is still unstarted at a later polling point `p'` has seen another instance of its
  callback start in `[p, p')`;
* priority inside a window: before a polled instance starts in the window of `p`, every
  polled callback of higher priority that had an unstarted pending instance at `p` has
  started an instance in that window.

Theorem (`rr_singleton_sound`): let `rtb` be the assumed response-time bounds in the
workload; if for EVERY callback the singleton analysis returns `Ok(R)` with `R ≤ rtb`
(the vector reproduces itself, as obtained by iterating the analysis), then every instance of
every callback completes within `rtb` of its release — for every supply process that delivers
at least the supply-bound function in every window. -/

open Finset

namespace RTA.Sched
open RTA RTA.Spec

/-- per callback (task): timer or polled, the actual priority among polled callbacks
(smaller = higher); per slot: polling point or not -/
structure ExecInfo where
  isTimer : ℕ → Bool
  prio : ℕ → ℕ
  pp : ℕ → Bool

/-- job `j` starts in slot `t` -/
def StartsAt (s : Sys) (j t : ℕ) : Prop := s.sched t = some j ∧ svc s j t = 0

/-- `p` is the last polling point at or before `t` -/
def LastPP (E : ExecInfo) (p t : ℕ) : Prop :=
  E.pp p = true ∧ p ≤ t ∧ ∀ u, p < u → u ≤ t → E.pp u = false

structure PollingExecLegal (s : Sys) (σ : ℕ → Bool) (E : ExecInfo) : Prop where
  valid : ∀ t j, s.sched t = some j → j < s.n ∧ Pending s j t ∧ σ t = true
  nonpre : ∀ t j, s.sched t = some j → ∀ k < s.n, k ≠ j → svc s k t = 0 ∨ svc s k t = s.cost k
  wc : ∀ t, σ t = true → (∃ k < s.n, Pending s k t) → ∃ j, s.sched t = some j
  fifo : ∀ t j, StartsAt s j t → ∀ k < s.n, s.task k = s.task j → Pending s k t → svc s k t = 0 →
      s.arr j ≤ s.arr k
  /-- polling happens only when nothing is running -/
  ppIdle : ∀ t, E.pp t = true → ∀ k < s.n, svc s k t = 0 ∨ svc s k t = s.cost k
  timersFirst : ∀ t j, StartsAt s j t → E.isTimer (s.task j) = false →
      ∀ k < s.n, E.isTimer (s.task k) = true → ¬ Pending s k t
  inWindow : ∀ t j, StartsAt s j t → E.isTimer (s.task j) = false → ∃ p, LastPP E p t ∧ s.arr j ≤ p
  once : ∀ p t t' j j', LastPP E p t → LastPP E p t' → StartsAt s j t → StartsAt s j' t' →
      E.isTimer (s.task j) = false → s.task j = s.task j' → j = j'
  served : ∀ p p' j, E.pp p = true → E.pp p' = true → p < p' → j < s.n →
      E.isTimer (s.task j) = false → s.arr j ≤ p → svc s j p' = 0 →
      ∃ k u, k < s.n ∧ k ≠ j ∧ s.task k = s.task j ∧ p ≤ u ∧ u < p' ∧ StartsAt s k u
  prioWin : ∀ p t j k, LastPP E p t → StartsAt s j t → E.isTimer (s.task j) = false →
      k < s.n → E.isTimer (s.task k) = false → E.prio (s.task k) < E.prio (s.task j) →
      s.arr k ≤ p → svc s k p = 0 →
      ∃ k' u, k' < s.n ∧ s.task k' = s.task k ∧ p ≤ u ∧ u < t ∧ StartsAt s k' u

/-- the kinds in the analysed workload agree with the executor: timers are timers, polled
callbacks are polled, a known priority is the actual one; event sources are not covered -/
def KindsAgree (wl : List Callback) (E : ExecInfo) : Prop :=
  ∀ i, i < wl.length →
    match (wl.getD i default).kind with
    | .timer => E.isTimer i = true
    | .eventSource => False
    | .polledUnknown => E.isTimer i = false
    | .polled p => E.isTimer i = false ∧ E.prio i = p

/-- C05, rr, singleton subchains -/
theorem rr_singleton_sound (s : Sys) (σ : ℕ → Bool) (E : ExecInfo) (hl : PollingExecLegal s σ E)
    (sup : Supply) (hs : sup.WF) (hsbf : ∀ t d, sup.sbf d ≤ service σ t d)
    (wl : List Callback) (C : ℕ → ℕ)
    (hscalar : ∀ i, i < wl.length → (wl.getD i default).cost = .scalar (C i))
    (hwf : ∀ cb ∈ wl, cb.arr.WF)
    (htask : ∀ k, k < s.n → s.task k < wl.length)
    (hkinds : KindsAgree wl E)
    (hprio : ∀ i j, i < wl.length → j < wl.length → E.isTimer i = false → E.isTimer j = false →
      E.prio i = E.prio j → i = j)
    (hN : ∀ i t d, countOf s i t (t + d) ≤ (wl.getD i default).arr.N d)
    (hcost : ∀ k, k < s.n → 1 ≤ s.cost k ∧ s.cost k ≤ C (s.task k))
    (limit : ℕ)
    (hself : ∀ i, i < wl.length → ∃ R, rrSubchain sup wl [i] limit = .ok R ∧ R ≤ (wl.getD i default).rtb) :
    ∀ j, j < s.n → MeetsBound s j (wl.getD (s.task j) default).rtb := by
  sorry

end RTA.Sched
