import RTA.Lemmas.TimerSound
/-! C05, round-robin-aware analysis (`rr::rta_subchain`, singleton subchains): soundness over
a schedule-level Spec of the ROS 2 executor with polling points.

Spec (`PollingExecLegal`): callbacks are timers or polled callbacks; some slots are *polling
points* (the ready set is refreshed; only when nothing is running).
* non-preemptive, progress only in supplied slots, no idling while anything is pending,
  instances of one callback start in release order;
* a polled callback is never started while a timer instance is pending;
* a polled instance starts only in the window of a polling point at which it was already
  pending, at most one instance per polled callback and window;
* starvation freedom: an instance of a polled callback that was pending at a polling point `p`
  and is still unstarted at a later polling point `p'` has seen another instance of its
  callback start in `[p, p')`;
* priority inside a window: before a polled instance starts in the window of `p`, every
  polled callback of higher priority that had an unstarted pending instance at `p` has
  started an instance in that window.

Theorem (`rr_singleton_sound`): let `rtb` be the assumed response-time bounds in the
workload; if for EVERY callback the singleton analysis returns `Ok(R)` with `R ≤ rtb`
(the vector reproduces itself, as obtained by iterating the analysis), then every instance of
every callback completes within `rtb` of its release — for every supply process that delivers
at least the supply-bound function in every window. -/

open Finset

namespace RTA.Sched
open RTA RTA.Spec

/-- per callback (task): timer or polled, the actual priority among polled callbacks
(smaller = higher); per slot: polling point or not -/
structure ExecInfo where
  isTimer : ℕ → Bool
  prio : ℕ → ℕ
  pp : ℕ → Bool

/-- job `j` starts in slot `t` -/
def StartsAt (s : Sys) (j t : ℕ) : Prop := s.sched t = some j ∧ svc s j t = 0

/-- `p` is the last polling point at or before `t` -/
def LastPP (E : ExecInfo) (p t : ℕ) : Prop :=
  E.pp p = true ∧ p ≤ t ∧ ∀ u, p < u → u ≤ t → E.pp u = false

structure PollingExecLegal (s : Sys) (σ : ℕ → Bool) (E : ExecInfo) : Prop where
  valid : ∀ t j, s.sched t = some j → j < s.n ∧ Pending s j t ∧ σ t = true
  nonpre : ∀ t j, s.sched t = some j → ∀ k < s.n, k ≠ j → svc s k t = 0 ∨ svc s k t = s.cost k
  wc : ∀ t, σ t = true → (∃ k < s.n, Pending s k t) → ∃ j, s.sched t = some j
  fifo : ∀ t j, StartsAt s j t → ∀ k < s.n, s.task k = s.task j → Pending s k t → svc s k t = 0 →
      s.arr j ≤ s.arr k
  /-- polling happens only when nothing is running -/
  ppIdle : ∀ t, E.pp t = true → ∀ k < s.n, svc s k t = 0 ∨ svc s k t = s.cost k
  timersFirst : ∀ t j, StartsAt s j t → E.isTimer (s.task j) = false →
      ∀ k < s.n, E.isTimer (s.task k) = true → ¬ Pending s k t
  inWindow : ∀ t j, StartsAt s j t → E.isTimer (s.task j) = false → ∃ p, LastPP E p t ∧ s.arr j ≤ p
  once : ∀ p t t' j j', LastPP E p t → LastPP E p t' → StartsAt s j t → StartsAt s j' t' →
      E.isTimer (s.task j) = false → s.task j = s.task j' → j = j'
  served : ∀ p p' j, E.pp p = true → E.pp p' = true → p < p' → j < s.n →
      E.isTimer (s.task j) = false → s.arr j ≤ p → svc s j p' = 0 →
      ∃ k u, k < s.n ∧ k ≠ j ∧ s.task k = s.task j ∧ p ≤ u ∧ u < p' ∧ StartsAt s k u
  prioWin : ∀ p t j k, LastPP E p t → StartsAt s j t → E.isTimer (s.task j) = false →
      k < s.n → E.isTimer (s.task k) = false → E.prio (s.task k) < E.prio (s.task j) →
      s.arr k ≤ p → svc s k p = 0 →
      ∃ k' u, k' < s.n ∧ s.task k' = s.task k ∧ p ≤ u ∧ u < t ∧ StartsAt s k' u

/-- the kinds in the analysed workload agree with the executor: timers are timers, polled
callbacks are polled, a known priority is the actual one; event sources are not covered -/
def KindsAgree (wl : List Callback) (E : ExecInfo) : Prop :=
  ∀ i, i < wl.length →
    match (wl.getD i default).kind with
    | .timer => E.isTimer i = true
    | .eventSource => False
    | .polledUnknown => E.isTimer i = false
    | .polled p => E.isTimer i = false ∧ E.prio i = p

namespace RrSoundLemmas
open Classical TimerSoundLemmas

variable {s : Sys} {σ : ℕ → Bool} {E : ExecInfo}

/-! ### basic facts (via the timer Spec, whose `valid`/`nonpre` fields are the same) -/

theorem toTimer (hl : PollingExecLegal s σ E) (i : ℕ) :
    SupplyTimerLegal s σ i (fun k => k ≠ i) where
  valid := hl.valid
  nonpre := hl.nonpre
  wc := fun t h ⟨k, hk, _, hp⟩ => hl.wc t h ⟨k, hk, hp⟩
  prioOther := fun t j _ _ hnr => absurd (Decidable.em (s.task j = i)) hnr
  prioOwn := by
    intro t j hs h0 hji k hk hki hp
    by_cases hkj : k = j
    · subst hkj; exact le_refl _
    · rcases hl.nonpre t j hs k hk hkj with h | h
      · exact hl.fifo t j ⟨hs, h0⟩ k hk (by rw [hki, hji]) hp h
      · have := hp.2; omega

theorem p_svc_le_cost (hl : PollingExecLegal s σ E) (j t : ℕ) : svc s j t ≤ s.cost j :=
  t_svc_le_cost (toTimer hl 0) j t

theorem p_svc_zero_before (hl : PollingExecLegal s σ E) (j t : ℕ) (h : t ≤ s.arr j) :
    svc s j t = 0 := t_svc_zero_before (toTimer hl 0) j t h

theorem p_done_mono (hl : PollingExecLegal s σ E) (j : ℕ) {a b : ℕ} (h : a ≤ b)
    (hd : svc s j a = s.cost j) : svc s j b = s.cost j := t_done_mono (toTimer hl 0) j h hd

theorem p_atmost_one (hl : PollingExecLegal s σ E) (t k1 k2 : ℕ) (h1 : k1 < s.n) (h2 : k2 < s.n)
    (a1 : SI s k1 t) (a2 : SI s k2 t) : k1 = k2 := atmost_one (toTimer hl 0) t k1 k2 h1 h2 a1 a2

/-- a job unstarted at `x` that has service at `y` starts in `[x, y)` -/
theorem start_in (k x y : ℕ) (h0 : svc s k x = 0) (hy : 0 < svc s k y) :
    ∃ u, x ≤ u ∧ u < y ∧ StartsAt s k u := by
  obtain ⟨u, hu, hs, hz⟩ := exists_start (s := s) k y hy
  refine ⟨u, ?_, hu, hs, hz⟩
  rcases Nat.lt_or_ge u x with h | h
  · have h1 := svc_succ_of_eq (s := s) k u hs
    have h2 := svc_mono (s := s) k (show u + 1 ≤ x by omega)
    omega
  · exact h

theorem startsAt_svc (k u y : ℕ) (h : StartsAt s k u) (hy : u < y) : 0 < svc s k y := by
  have h1 := svc_succ_of_eq (s := s) k u h.1
  have h2 := svc_mono (s := s) k (show u + 1 ≤ y by omega)
  omega

theorem startsAt_zero (k u x : ℕ) (h : StartsAt s k u) (hx : x ≤ u) : svc s k x = 0 := by
  have h2 := svc_mono (s := s) k hx
  have := h.2
  omega

/-! ### polling points and windows -/

/-- polling points in `[x, y)` -/
noncomputable def ppIn (E : ExecInfo) (x y : ℕ) : Finset ℕ :=
  (range y).filter (fun v => x ≤ v ∧ E.pp v = true)

theorem mem_ppIn (x y v : ℕ) : v ∈ ppIn E x y ↔ (v < y ∧ x ≤ v ∧ E.pp v = true) := by
  unfold ppIn; rw [mem_filter, mem_range]

theorem ppIn_subset (x x' y y' : ℕ) (h : ∀ v, x ≤ v → v < y → E.pp v = true → x' ≤ v ∧ v < y') :
    (ppIn E x y).card ≤ (ppIn E x' y').card := by
  apply card_le_card
  intro v hv
  rw [mem_ppIn] at hv ⊢
  have := h v hv.2.1 hv.1 hv.2.2
  exact ⟨this.2, this.1, hv.2.2⟩

theorem ppIn_card_succ (x q y : ℕ) (h1 : x ≤ q) (h2 : q < y) (hq : E.pp q = true) :
    (ppIn E x q).card + 1 ≤ (ppIn E x y).card := by
  have hn : q ∉ ppIn E x q := by rw [mem_ppIn]; omega
  rw [← card_insert_of_notMem hn]
  apply card_le_card
  intro v hv
  rw [mem_insert] at hv
  rw [mem_ppIn]
  rcases hv with rfl | hv
  · exact ⟨h2, h1, hq⟩
  · rw [mem_ppIn] at hv; exact ⟨by omega, hv.2⟩

theorem ppIn_card_last (x q y : ℕ) (_h1 : x ≤ q)
    (hno : ∀ v, q < v → v < y → E.pp v = false) :
    (ppIn E x y).card ≤ (ppIn E x q).card + 1 := by
  have hn : q ∉ ppIn E x q := by rw [mem_ppIn]; omega
  rw [← card_insert_of_notMem hn]
  apply card_le_card
  intro v hv
  rw [mem_ppIn] at hv
  rw [mem_insert, mem_ppIn]
  rcases Nat.lt_trichotomy v q with h | h | h
  · exact Or.inr ⟨h, hv.2⟩
  · exact Or.inl h
  · have := hno v h hv.1; rw [hv.2.2] at this; cases this

/-- a nonempty set of polling points has a last element -/
theorem ppIn_last (x : ℕ) : ∀ y, 0 < (ppIn E x y).card →
    ∃ q, x ≤ q ∧ q < y ∧ E.pp q = true ∧ (∀ v, q < v → v < y → E.pp v = false) := by
  intro y
  induction y with
  | zero =>
    intro h
    obtain ⟨v, hv⟩ := card_pos.1 h
    rw [mem_ppIn] at hv; omega
  | succ y ih =>
    intro h
    by_cases hy : x ≤ y ∧ E.pp y = true
    · exact ⟨y, hy.1, by omega, hy.2, fun v h1 h2 => by omega⟩
    · have : 0 < (ppIn E x y).card := by
        obtain ⟨v, hv⟩ := card_pos.1 h
        rw [mem_ppIn] at hv
        apply card_pos.2
        refine ⟨v, ?_⟩
        rw [mem_ppIn]
        refine ⟨?_, hv.2⟩
        rcases Nat.lt_or_ge v y with h' | h'
        · exact h'
        · have e : v = y := by omega
          subst e; exact absurd hv.2 hy
      obtain ⟨q, h1, h2, h3, h4⟩ := ih this
      refine ⟨q, h1, by omega, h3, ?_⟩
      intro v hv1 hv2
      rcases Nat.lt_or_ge v y with h' | h'
      · exact h4 v hv1 h'
      · have e : v = y := by omega
        subst e
        cases hp : E.pp v with
        | false => rfl
        | true => exact absurd ⟨by omega, hp⟩ hy

theorem lastPP_shift (p u u' : ℕ) (h : LastPP E p u) (hu : u ≤ u')
    (hno : ∀ v, u < v → v ≤ u' → E.pp v = false) : LastPP E p u' := by
  refine ⟨h.1, by have := h.2.1; omega, ?_⟩
  intro v h1 h2
  rcases Nat.lt_or_ge u v with h' | h'
  · exact hno v h' h2
  · exact h.2.2 v h1 h'

/-- instances of callback `c` that start in `[x, y)` -/
noncomputable def StSet (s : Sys) (c x y : ℕ) : Finset ℕ :=
  (range s.n).filter (fun K => s.task K = c ∧ svc s K x = 0 ∧ 0 < svc s K y)

theorem mem_StSet (c x y K : ℕ) :
    K ∈ StSet s c x y ↔ (K < s.n ∧ s.task K = c ∧ svc s K x = 0 ∧ 0 < svc s K y) := by
  unfold StSet; rw [mem_filter, mem_range]

theorem StSet_mono (c x y y' : ℕ) (h : y ≤ y') : StSet s c x y ⊆ StSet s c x y' := by
  intro K hK
  rw [mem_StSet] at hK ⊢
  have := svc_mono (s := s) K h
  exact ⟨hK.1, hK.2.1, hK.2.2.1, by omega⟩

theorem StSet_split (c x y z : ℕ) : StSet s c x z ⊆ StSet s c x y ∪ StSet s c y z := by
  intro K hK
  rw [mem_union, mem_StSet, mem_StSet]
  rw [mem_StSet] at hK
  rcases Nat.eq_zero_or_pos (svc s K y) with h | h
  · exact Or.inr ⟨hK.1, hK.2.1, h, hK.2.2.2⟩
  · exact Or.inl ⟨hK.1, hK.2.1, hK.2.2.1, h⟩

/-- at most one instance of a polled callback starts in a stretch without polling points -/
theorem one_per_window (hl : PollingExecLegal s σ E) (c x y : ℕ) (hc : E.isTimer c = false)
    (hno : ∀ v, x < v → v < y → E.pp v = false) : (StSet s c x y).card ≤ 1 := by
  have key : ∀ K K' u u', s.task K = c → s.task K' = c → x ≤ u → u ≤ u' → u' < y →
      StartsAt s K u → StartsAt s K' u' → K = K' := by
    intro K K' u u' hK hK' h1 h2 h3 hs hs'
    obtain ⟨p, hp, _⟩ := hl.inWindow u K hs (by rw [hK]; exact hc)
    have hp' := lastPP_shift p u u' hp h2 (fun v a b => hno v (by omega) (by omega))
    exact hl.once p u u' K K' hp hp' hs hs' (by rw [hK]; exact hc) (by rw [hK, hK'])
  apply card_le_one.2
  intro K hK K' hK'
  rw [mem_StSet] at hK hK'
  obtain ⟨u, hu1, hu2, hs⟩ := start_in K x y hK.2.2.1 hK.2.2.2
  obtain ⟨u', hu1', hu2', hs'⟩ := start_in K' x y hK'.2.2.1 hK'.2.2.2
  rcases Nat.le_total u u' with h | h
  · exact key K K' u u' hK.2.1 hK'.2.1 hu1 h hu2' hs hs'
  · exact (key K' K u' u hK'.2.1 hK.2.1 hu1' h hu2 hs' hs).symm

/-- the instances of a polled callback that start in `[x, y)`: at most one more than the
number of polling points in `(x, y)` -/
theorem starts_le_pp (hl : PollingExecLegal s σ E) (c : ℕ) (hc : E.isTimer c = false) (x : ℕ) :
    ∀ y, (StSet s c x y).card ≤ (ppIn E (x + 1) y).card + 1 := by
  intro y
  induction y using Nat.strongRecOn with
  | _ y ih =>
    rcases Nat.eq_zero_or_pos (ppIn E (x + 1) y).card with h0 | hpos
    · rw [h0]
      apply one_per_window hl c x y hc
      intro v h1 h2
      cases hp : E.pp v with
      | false => rfl
      | true =>
        exfalso
        have : v ∈ ppIn E (x + 1) y := by rw [mem_ppIn]; exact ⟨h2, h1, hp⟩
        have := card_pos.2 ⟨v, this⟩
        omega
    · obtain ⟨q, h1, h2, h3, h4⟩ := ppIn_last (x + 1) y hpos
      have ha := card_le_card (StSet_split (s := s) c x q y)
      have hb := card_union_le (StSet s c x q) (StSet s c q y)
      have hc1 := ih q h2
      have hc2 := one_per_window hl c q y hc h4
      have hc3 := ppIn_card_succ (E := E) (x + 1) q y h1 h2 h3
      omega

theorem StSet_card_succ (c x y y' k : ℕ) (h : y ≤ y') (hk : k ∈ StSet s c x y')
    (hn : k ∉ StSet s c x y) : (StSet s c x y).card + 1 ≤ (StSet s c x y').card := by
  rw [← card_insert_of_notMem hn]
  apply card_le_card
  intro v hv
  rw [mem_insert] at hv
  rcases hv with rfl | hv
  · exact hk
  · exact StSet_mono c x y y' h hv

/-- while an instance `J` of a polled callback waits unstarted, every polling point but the
last one is followed by the start of another instance of its callback -/
theorem pp_chain (hl : PollingExecLegal s σ E) (J : ℕ) (hJ : J < s.n)
    (hpol : E.isTimer (s.task J) = false) : ∀ len, svc s J (s.arr J + len) = 0 →
    (ppIn E (s.arr J) (s.arr J + len)).card = 0 ∨
    ∃ q, s.arr J ≤ q ∧ q < s.arr J + len ∧ E.pp q = true ∧
      (∀ v, q < v → v < s.arr J + len → E.pp v = false) ∧
      (ppIn E (s.arr J) (s.arr J + len)).card ≤ (StSet s (s.task J) (s.arr J) q).card + 1 := by
  intro len
  induction len with
  | zero =>
    intro _
    left
    apply Nat.eq_zero_of_not_pos
    intro h
    obtain ⟨v, hv⟩ := card_pos.1 h
    rw [mem_ppIn] at hv; omega
  | succ len ih =>
    intro h0
    have e : s.arr J + (len + 1) = s.arr J + len + 1 := by omega
    rw [e] at h0 ⊢
    have h0' : svc s J (s.arr J + len) = 0 := by
      have := svc_mono (s := s) J (show s.arr J + len ≤ s.arr J + len + 1 by omega)
      omega
    cases hp : E.pp (s.arr J + len) with
    | false =>
      have hle : (ppIn E (s.arr J) (s.arr J + len + 1)).card ≤ (ppIn E (s.arr J) (s.arr J + len)).card := by
        apply ppIn_subset
        intro v h1 h2 h3
        refine ⟨h1, ?_⟩
        rcases Nat.lt_or_ge v (s.arr J + len) with h | h
        · exact h
        · have e : v = s.arr J + len := by omega
          rw [e, hp] at h3; cases h3
      rcases ih h0' with h | ⟨q, h1, h2, h3, h4, h5⟩
      · left; omega
      · right
        refine ⟨q, h1, by omega, h3, ?_, by omega⟩
        intro v hv1 hv2
        rcases Nat.lt_or_ge v (s.arr J + len) with h | h
        · exact h4 v hv1 h
        · have e : v = s.arr J + len := by omega
          rw [e]; exact hp
    | true =>
      right
      have hle := ppIn_card_last (E := E) (s.arr J) (s.arr J + len) (s.arr J + len + 1) (by omega)
        (fun v a b => by omega)
      refine ⟨s.arr J + len, by omega, by omega, hp, fun v a b => by omega, ?_⟩
      rcases ih h0' with h | ⟨q, h1, h2, h3, h4, h5⟩
      · omega
      · obtain ⟨k, u, hk, hkJ, hkt, hu1, hu2, hst⟩ :=
          hl.served q (s.arr J + len) J h3 hp h2 hJ hpol h1 h0'
        have hmem : k ∈ StSet s (s.task J) (s.arr J) (s.arr J + len) := by
          rw [mem_StSet]
          exact ⟨hk, hkt, startsAt_zero k u _ hst (by omega), startsAt_svc k u _ hst hu2⟩
        have hnm : k ∉ StSet s (s.task J) (s.arr J) q := by
          rw [mem_StSet]
          intro h
          have := startsAt_zero k u q hst hu1
          omega
        have := StSet_card_succ (s := s) (s.task J) (s.arr J) q (s.arr J + len) k (by omega) hmem hnm
        omega

/-! ### the analysed system, abstractly -/

/-- what the schedule-level argument needs: callbacks `0 … nT-1` with kinds `kind`, arrival
bounds `N c`, assumed response-time bounds `rtb c`, WCETs `C c` -/
structure Ana (s : Sys) (σ : ℕ → Bool) (E : ExecInfo) (nT : ℕ) (kind : ℕ → CbKind)
    (N : ℕ → ℕ → ℕ) (C : ℕ → ℕ) : Prop where
  hl : PollingExecLegal s σ E
  htask : ∀ k, k < s.n → s.task k < nT
  hkinds : ∀ i, i < nT →
    match kind i with
    | .timer => E.isTimer i = true
    | .eventSource => False
    | .polledUnknown => E.isTimer i = false
    | .polled p => E.isTimer i = false ∧ E.prio i = p
  hprio : ∀ i j, i < nT → j < nT → E.isTimer i = false → E.isTimer j = false →
      E.prio i = E.prio j → i = j
  hN : ∀ i t d, countOf s i t (t + d) ≤ N i d
  hNmono : ∀ i a b, a ≤ b → N i a ≤ N i b
  hcost : ∀ k, k < s.n → 1 ≤ s.cost k ∧ s.cost k ≤ C (s.task k)

/-- the job under analysis: every job whose assumed bound expires at or before the release
of `J` is complete by then -/
structure JobCtx (s : Sys) (rtb : ℕ → ℕ) (J : ℕ) : Prop where
  hJ : J < s.n
  old : ∀ K, K < s.n → s.arr K + rtb (s.task K) ≤ s.arr J → svc s K (s.arr J) = s.cost K
  hrtb : 1 ≤ rtb (s.task J)

variable {nT : ℕ} {kind : ℕ → CbKind} {N : ℕ → ℕ → ℕ} {C rtb : ℕ → ℕ} {J : ℕ}

theorem countOf_window (A : Ana s σ E nT kind N C) (c lo hi d : ℕ) (h : hi ≤ lo + d) :
    countOf s c lo hi ≤ N c d := by
  rcases Nat.lt_or_ge hi lo with h' | h'
  · have : countOf s c lo hi = 0 := by
      unfold countOf
      apply card_eq_zero.2
      apply filter_eq_empty_iff.2
      intro k _ hk
      omega
    omega
  · have h1 := A.hN c lo (hi - lo)
    have e : lo + (hi - lo) = hi := by omega
    rw [e] at h1
    exact Nat.le_trans h1 (A.hNmono c _ _ (by omega))

/-- the own instances started while `J` waits, and `J`, were released in `(a - rtb, a]` -/
theorem own_window (A : Ana s σ E nT kind N C) (jc : JobCtx s rtb J) (T : ℕ)
    (hT0 : svc s J T = 0) :
    (StSet s (s.task J) (s.arr J) T).card + 1 ≤ N (s.task J) (rtb (s.task J)) := by
  have hn : J ∉ StSet s (s.task J) (s.arr J) T := by
    rw [mem_StSet]; intro h; omega
  rw [← card_insert_of_notMem hn]
  refine Nat.le_trans ?_ (countOf_window A (s.task J) (s.arr J + 1 - rtb (s.task J)) (s.arr J + 1)
    (rtb (s.task J)) (by omega))
  unfold countOf
  apply card_le_card
  intro k hk
  rw [mem_insert] at hk
  rw [mem_filter, mem_range]
  rcases hk with rfl | hk
  · exact ⟨jc.hJ, rfl, by have := jc.hrtb; omega, by omega⟩
  · rw [mem_StSet] at hk
    obtain ⟨hkn, hkt, hk0, hkT⟩ := hk
    obtain ⟨u, hu1, hu2, hst⟩ := start_in k _ _ hk0 hkT
    have hJu : svc s J u = 0 := by
      have := svc_mono (s := s) J (show u ≤ T by omega); omega
    have hcJ := (A.hcost J jc.hJ).1
    have hfifo := A.hl.fifo u k hst J jc.hJ hkt.symm ⟨hu1, by omega⟩ hJu
    refine ⟨hkn, hkt, ?_, by omega⟩
    rcases Nat.lt_or_ge (s.arr J) (s.arr k + rtb (s.task J)) with h | h
    · omega
    · have := jc.old k hkn (by rw [hkt]; exact h)
      have := (A.hcost k hkn).1
      omega

/-- the start `x0` of the callback running at `a` (or `a` itself): no polling point in
`(x0, a]`, and every job incomplete at `a` is unstarted at `x0` -/
theorem exists_x0 (hl : PollingExecLegal s σ E) (a : ℕ) :
    ∃ x0, x0 ≤ a ∧ (∀ v, x0 < v → v ≤ a → E.pp v = false) ∧
      ∀ K, K < s.n → svc s K a < s.cost K → svc s K x0 = 0 := by
  by_cases h : ∃ K0, K0 < s.n ∧ SI s K0 a
  · obtain ⟨K0, hK0, hsi⟩ := h
    obtain ⟨u0, hu0, hs0, hz0⟩ := exists_start (s := s) K0 a hsi.1
    refine ⟨u0, by omega, ?_, ?_⟩
    · intro v h1 h2
      cases hp : E.pp v with
      | false => rfl
      | true =>
        exfalso
        have h3 := startsAt_svc K0 u0 v ⟨hs0, hz0⟩ h1
        have h4 := svc_mono (s := s) K0 h2
        have := hsi.2
        rcases hl.ppIdle v hp K0 hK0 with h | h <;> omega
    · intro K hK hlt
      rcases Nat.eq_zero_or_pos (svc s K a) with h | h
      · have := svc_mono (s := s) K (show u0 ≤ a by omega); omega
      · have := p_atmost_one hl a K K0 hK hK0 ⟨h, hlt⟩ hsi
        rw [this]; exact hz0
  · refine ⟨a, le_refl _, fun v h1 h2 => by omega, ?_⟩
    intro K hK hlt
    rcases Nat.eq_zero_or_pos (svc s K a) with h' | h'
    · exact h'
    · exact absurd ⟨K, hK, h', hlt⟩ h

/-- the instances of callback `c`, other than `J`, that receive service in `[a, T)` -/
noncomputable def ActSet (s : Sys) (J c a T : ℕ) : Finset ℕ :=
  (range s.n).filter (fun K => K ≠ J ∧ s.task K = c ∧ svc s K a < svc s K T)

theorem mem_ActSet (c a T K : ℕ) :
    K ∈ ActSet s J c a T ↔ (K < s.n ∧ K ≠ J ∧ s.task K = c ∧ svc s K a < svc s K T) := by
  unfold ActSet; rw [mem_filter, mem_range]

theorem ActSet_sub_StSet (hl : PollingExecLegal s σ E) (c a T x0 : ℕ)
    (hx0 : ∀ K, K < s.n → svc s K a < s.cost K → svc s K x0 = 0) :
    ActSet s J c a T ⊆ StSet s c x0 T := by
  intro K hK
  rw [mem_ActSet] at hK
  rw [mem_StSet]
  have := p_svc_le_cost hl K T
  exact ⟨hK.1, hK.2.2.1, hx0 K hK.1 (by omega), by omega⟩

/-- (1c) a polled callback is served at most once per window -/
theorem act_polled (hl : PollingExecLegal s σ E) (c a T : ℕ) (hc : E.isTimer c = false) :
    (ActSet s J c a T).card ≤ (ppIn E a T).card + 1 := by
  obtain ⟨x0, h1, h2, h3⟩ := exists_x0 hl a
  have ha := card_le_card (ActSet_sub_StSet (J := J) hl c a T x0 h3)
  have hb := starts_le_pp hl c hc x0 T
  have hc' : (ppIn E (x0 + 1) T).card ≤ (ppIn E a T).card := by
    apply ppIn_subset
    intro v hv1 hv2 hv3
    refine ⟨?_, hv2⟩
    rcases Nat.lt_or_ge a v with h | h
    · omega
    · have := h2 v hv1 h; rw [hv3] at this; cases this
  omega

/-- (1e) while a timer instance waits, no polled callback is started -/
theorem act_timer (hl : PollingExecLegal s σ E) (hJ : J < s.n) (hc0 : 1 ≤ s.cost J) (c T : ℕ)
    (hc : E.isTimer c = false) (hi : E.isTimer (s.task J) = true) (hT0 : svc s J T = 0) :
    (ActSet s J c (s.arr J) T).card ≤ 1 := by
  have key : ∀ K, K ∈ ActSet s J c (s.arr J) T → SI s K (s.arr J) := by
    intro K hK
    rw [mem_ActSet] at hK
    have hle := p_svc_le_cost hl K T
    refine ⟨?_, by omega⟩
    rcases Nat.eq_zero_or_pos (svc s K (s.arr J)) with h | h
    · exfalso
      obtain ⟨u, hu1, hu2, hst⟩ := start_in K (s.arr J) T h (by omega)
      have hJu : svc s J u = 0 := by
        have := svc_mono (s := s) J (show u ≤ T by omega); omega
      exact hl.timersFirst u K hst (by rw [hK.2.2.1]; exact hc) J hJ hi ⟨hu1, by omega⟩
    · exact h
  apply card_le_one.2
  intro K hK K' hK'
  have h1 := key K hK
  have h2 := key K' hK'
  rw [mem_ActSet] at hK hK'
  exact p_atmost_one hl _ K K' hK.1 hK'.1 h1 h2

/-- (1b) the polling points met while `J` (polled) waits are bounded by the own instances
released in `(a - rtb, a]` -/
theorem pp_le_starts (hl : PollingExecLegal s σ E) (hJ : J < s.n)
    (hpol : E.isTimer (s.task J) = false) (T : ℕ) (hT : s.arr J ≤ T) (hT0 : svc s J T = 0) :
    (ppIn E (s.arr J) T).card ≤ (StSet s (s.task J) (s.arr J) T).card + 1 := by
  obtain ⟨len, rfl⟩ := Nat.exists_eq_add_of_le hT
  rcases pp_chain hl J hJ hpol len hT0 with h | ⟨q, h1, h2, h3, h4, h5⟩
  · omega
  · have := card_le_card (StSet_mono (s := s) (s.task J) (s.arr J) q (s.arr J + len) (by omega))
    omega

/-- (1d) a polled callback of lower priority than the (polled) callback of `J` -/
theorem act_lowprio (A : Ana s σ E nT kind N C) (jc : JobCtx s rtb J) (c T : ℕ)
    (hpol : E.isTimer (s.task J) = false) (hc : E.isTimer c = false)
    (hpr : E.prio (s.task J) < E.prio c) (hT : s.arr J ≤ T) (hT0 : svc s J T = 0) :
    (ActSet s J c (s.arr J) T).card ≤ N (s.task J) (rtb (s.task J)) := by
  have hl := A.hl
  have how := own_window A jc T hT0
  obtain ⟨len, rfl⟩ := Nat.exists_eq_add_of_le hT
  rcases pp_chain hl J jc.hJ hpol len hT0 with h | ⟨q, h1, h2, h3, h4, h5⟩
  · have := act_polled (J := J) hl c (s.arr J) (s.arr J + len) hc
    omega
  · obtain ⟨x0, hx1, hx2, hx3⟩ := exists_x0 hl (s.arr J)
    have ha := card_le_card (ActSet_sub_StSet (J := J) hl c (s.arr J) (s.arr J + len) x0 hx3)
    have hb := card_le_card (StSet_split (s := s) c x0 q (s.arr J + len))
    have hb' := card_union_le (StSet s c x0 q) (StSet s c q (s.arr J + len))
    have hc1 := starts_le_pp hl c hc x0 q
    have hc2 : (ppIn E (x0 + 1) q).card ≤ (ppIn E (s.arr J) q).card := by
      apply ppIn_subset
      intro v hv1 hv2 hv3
      refine ⟨?_, hv2⟩
      rcases Nat.lt_or_ge (s.arr J) v with h | h
      · omega
      · have := hx2 v hv1 h; rw [hv3] at this; cases this
    have hc3 := ppIn_card_succ (E := E) (s.arr J) q (s.arr J + len) h1 h2 h3
    have hd := one_per_window hl c q (s.arr J + len) hc h4
    have hmono := card_le_card (StSet_mono (s := s) (s.task J) (s.arr J) q (s.arr J + len) (by omega))
    rcases Nat.eq_zero_or_pos (StSet s c q (s.arr J + len)).card with h0 | hpos
    · omega
    · obtain ⟨K, hK⟩ := card_pos.1 hpos
      rw [mem_StSet] at hK
      obtain ⟨t, ht1, ht2, hst⟩ := start_in K q (s.arr J + len) hK.2.2.1 hK.2.2.2
      have hlp : LastPP E q t := ⟨h3, ht1, fun v a b => h4 v a (by omega)⟩
      have hJq : svc s J q = 0 := by
        have := svc_mono (s := s) J (show q ≤ s.arr J + len by omega); omega
      obtain ⟨k', u, hk', hkt, hu1, hu2, hst'⟩ :=
        hl.prioWin q t K J hlp hst (by rw [hK.2.1]; exact hc) jc.hJ hpol
          (by rw [hK.2.1]; exact hpr) h1 hJq
      have hmem : k' ∈ StSet s (s.task J) (s.arr J) (s.arr J + len) := by
        rw [mem_StSet]
        exact ⟨hk', hkt, startsAt_zero k' u _ hst' (by omega), startsAt_svc k' u _ hst' (by omega)⟩
      have hnm : k' ∉ StSet s (s.task J) (s.arr J) q := by
        rw [mem_StSet]
        intro h
        have := startsAt_zero k' u q hst' hu1
        omega
      have := StSet_card_succ (s := s) (s.task J) (s.arr J) q (s.arr J + len) k' (by omega) hmem hnm
      omega

/-- (1a) the instances served in `[a, T)` were released in `(a - rtb, T)` -/
theorem act_mem_window (A : Ana s σ E nT kind N C) (jc : JobCtx s rtb J) (c S T K : ℕ)
    (hT : T ≤ s.arr J + S) (hK : K ∈ ActSet s J c (s.arr J) T) :
    K ∈ (range s.n).filter (fun k => s.task k = c ∧ s.arr J + 1 - rtb c ≤ s.arr k ∧
      s.arr k < s.arr J + S) := by
  rw [mem_ActSet] at hK
  rw [mem_filter, mem_range]
  obtain ⟨hKn, _, hKc, hlt⟩ := hK
  refine ⟨hKn, hKc, ?_, ?_⟩
  · rcases Nat.lt_or_ge (s.arr J) (s.arr K + rtb c) with h | h
    · omega
    · have := jc.old K hKn (by rw [hKc]; exact h)
      have := p_svc_le_cost A.hl K T
      omega
  · rcases Nat.lt_or_ge (s.arr K) T with h | h
    · omega
    · have := p_svc_zero_before A.hl K T h
      omega

theorem act_arrived (A : Ana s σ E nT kind N C) (jc : JobCtx s rtb J) (c S T : ℕ)
    (hT : T ≤ s.arr J + S) :
    (ActSet s J c (s.arr J) T).card ≤ N c (S + rtb c - 1) := by
  refine Nat.le_trans ?_ (countOf_window A c (s.arr J + 1 - rtb c) (s.arr J + S)
    (S + rtb c - 1) (by omega))
  unfold countOf
  apply card_le_card
  intro K hK
  exact act_mem_window A jc c S T K hT hK

theorem act_arrived_own (A : Ana s σ E nT kind N C) (jc : JobCtx s rtb J) (S T : ℕ)
    (hS : 1 ≤ S) (hT : T ≤ s.arr J + S) :
    (ActSet s J (s.task J) (s.arr J) T).card + 1 ≤ N (s.task J) (S + rtb (s.task J) - 1) := by
  have hn : J ∉ ActSet s J (s.task J) (s.arr J) T := by
    rw [mem_ActSet]; intro h; exact h.2.1 rfl
  rw [← card_insert_of_notMem hn]
  refine Nat.le_trans ?_ (countOf_window A (s.task J) (s.arr J + 1 - rtb (s.task J)) (s.arr J + S)
    (S + rtb (s.task J) - 1) (by omega))
  unfold countOf
  apply card_le_card
  intro K hK
  rw [mem_insert] at hK
  rcases hK with rfl | hK
  · rw [mem_filter, mem_range]
    exact ⟨jc.hJ, rfl, by have := jc.hrtb; omega, by omega⟩
  · exact act_mem_window A jc (s.task J) S T K hT hK

/-- the cap of the analysis on the interfering instances of callback `c` -/
theorem act_cap (A : Ana s σ E nT kind N C) (jc : JobCtx s rtb J) (c S T : ℕ) (hc : c < nT)
    (hci : c ≠ s.task J) (hT : s.arr J ≤ T) (hTS : T ≤ s.arr J + S) (hT0 : svc s J T = 0) :
    (ActSet s J c (s.arr J) T).card ≤
      cappedJobs (kind c) (kind (s.task J)) (N c (S + rtb c - 1)) (N (s.task J) (rtb (s.task J))) := by
  have hl := A.hl
  have hi := A.htask J jc.hJ
  have harr := act_arrived A jc c S T hTS
  have how := own_window A jc T hT0
  have gen : E.isTimer c = false →
      (ActSet s J c (s.arr J) T).card ≤ N (s.task J) (rtb (s.task J)) + 1 := by
    intro hcp
    cases hti : E.isTimer (s.task J) with
    | false =>
      have h1 := act_polled (J := J) hl c (s.arr J) T hcp
      have h2 := pp_le_starts hl jc.hJ hti T hT hT0
      omega
    | true =>
      have := act_timer hl jc.hJ (A.hcost J jc.hJ).1 c T hcp hti hT0
      omega
  have hkc := A.hkinds c hc
  have hki := A.hkinds (s.task J) hi
  cases hk : kind c with
  | timer => exact harr
  | eventSource => rw [hk] at hkc; exact hkc.elim
  | polledUnknown =>
    rw [hk] at hkc
    simp only [cappedJobs]
    exact Nat.le_min.2 ⟨harr, gen hkc⟩
  | polled p =>
    rw [hk] at hkc
    have hkc' : E.isTimer c = false ∧ E.prio c = p := hkc
    cases hk' : kind (s.task J) with
    | polled q =>
      rw [hk'] at hki
      have hki' : E.isTimer (s.task J) = false ∧ E.prio (s.task J) = q := hki
      simp only [cappedJobs]
      by_cases hpq : p < q
      · rw [if_pos hpq]
        exact Nat.le_min.2 ⟨harr, gen hkc'.1⟩
      · rw [if_neg hpq]
        have hne : E.prio (s.task J) ≠ E.prio c := fun h =>
          hci (A.hprio _ _ hi hc hki'.1 hkc'.1 h).symm
        have := act_lowprio A jc c T hki'.1 hkc'.1 (by omega) hT hT0
        exact Nat.le_min.2 ⟨harr, by omega⟩
    | timer => simp only [cappedJobs]; exact Nat.le_min.2 ⟨harr, gen hkc'.1⟩
    | eventSource => simp only [cappedJobs]; exact Nat.le_min.2 ⟨harr, gen hkc'.1⟩
    | polledUnknown => simp only [cappedJobs]; exact Nat.le_min.2 ⟨harr, gen hkc'.1⟩

/-- the interference term of the analysis for callback `i` at `S` -/
noncomputable def interf (nT : ℕ) (kind : ℕ → CbKind) (N : ℕ → ℕ → ℕ) (C rtb : ℕ → ℕ) (i S : ℕ) : ℕ :=
  ∑ c ∈ range nT, if c = i then C c * (N c (S + rtb c - 1) - 1)
    else C c * cappedJobs (kind c) (kind i) (N c (S + rtb c - 1)) (N i (rtb i))

theorem act_sum_le (A : Ana s σ E nT kind N C) (c a T : ℕ) :
    (∑ K ∈ range s.n, if s.task K = c then (if K ≠ J then svc s K T - svc s K a else 0) else 0)
      ≤ C c * (ActSet s J c a T).card := by
  have h1 : ∀ K ∈ range s.n,
      (if s.task K = c then (if K ≠ J then svc s K T - svc s K a else 0) else 0) ≤
      (if (K ≠ J ∧ s.task K = c ∧ svc s K a < svc s K T) then C c else 0) := by
    intro K hK
    have hKn := mem_range.1 hK
    by_cases h : K ≠ J ∧ s.task K = c ∧ svc s K a < svc s K T
    · rw [if_pos h, if_pos h.2.1, if_pos h.1]
      have := p_svc_le_cost A.hl K T
      have := (A.hcost K hKn).2
      rw [h.2.1] at this
      omega
    · rw [if_neg h]
      by_cases h1 : s.task K = c
      · rw [if_pos h1]
        by_cases h2 : K ≠ J
        · rw [if_pos h2]
          have : ¬ svc s K a < svc s K T := fun h3 => h ⟨h2, h1, h3⟩
          omega
        · rw [if_neg h2]
      · rw [if_neg h1]
  refine Nat.le_trans (sum_le_sum h1) ?_
  rw [← sum_filter]
  unfold ActSet
  rw [sum_const_nat (m := C c) (fun _ _ => rfl), Nat.mul_comm]

theorem others_bound (A : Ana s σ E nT kind N C) (jc : JobCtx s rtb J) (S T : ℕ) (hS : 1 ≤ S)
    (hT : s.arr J ≤ T) (hTS : T ≤ s.arr J + S) (hT0 : svc s J T = 0) :
    sv s (fun K => K ≠ J) T ≤ sv s (fun K => K ≠ J) (s.arr J) + interf nT kind N C rtb (s.task J) S := by
  have e1 : ∀ K ∈ range s.n, (if K ≠ J then svc s K T else 0) =
      (if K ≠ J then svc s K (s.arr J) else 0) +
        ∑ c ∈ range nT, if s.task K = c then (if K ≠ J then svc s K T - svc s K (s.arr J) else 0) else 0 := by
    intro K hK
    rw [sum_ite_eq (range nT) (s.task K) (fun _ => if K ≠ J then svc s K T - svc s K (s.arr J) else 0)]
    rw [if_pos (mem_range.2 (A.htask K (mem_range.1 hK)))]
    have := svc_mono (s := s) K hT
    split <;> omega
  have e0 : ∀ t, sv s (fun K => K ≠ J) t = ∑ K ∈ range s.n, if K ≠ J then svc s K t else 0 := by
    intro t
    unfold sv
    refine sum_congr rfl (fun k _ => ?_)
    split_ifs <;> rfl
  rw [e0, e0, sum_congr rfl e1, sum_add_distrib, sum_comm]
  apply Nat.add_le_add_left
  unfold interf
  apply sum_le_sum
  intro c hc
  have hcn := mem_range.1 hc
  refine Nat.le_trans (act_sum_le A c (s.arr J) T) ?_
  by_cases hci : c = s.task J
  · rw [if_pos hci]
    apply Nat.mul_le_mul_left
    have := act_arrived_own A jc S T hS hTS
    rw [hci]
    omega
  · rw [if_neg hci]
    apply Nat.mul_le_mul_left
    exact act_cap A jc c S T hcn hci hT hTS hT0

theorem sv_single (J t : ℕ) (hJ : J < s.n) : sv s (fun k => k = J) t = svc s J t := by
  unfold sv
  have e : (∑ k ∈ range s.n, if k = J then svc s k t else 0) = svc s J t := by
    rw [sum_ite_eq']
    simp [hJ]
  rw [← e]
  refine sum_congr rfl (fun k _ => ?_)
  split_ifs <;> rfl

/-- the job `J` is complete `R` after its release -/
theorem job_done (A : Ana s σ E nT kind N C) (jc : JobCtx s rtb J) (sbf : ℕ → ℕ)
    (hsbf : ∀ t d, sbf d ≤ service σ t d) (S R : ℕ) (hS : 1 ≤ S)
    (hW : 1 + interf nT kind N C rtb (s.task J) S ≤ sbf S)
    (hR : sbf S - 1 + C (s.task J) ≤ sbf R) : svc s J (s.arr J + R) = s.cost J := by
  have hl := A.hl
  have hJ := jc.hJ
  have hcJ := A.hcost J hJ
  have hJa : svc s J (s.arr J) = 0 := p_svc_zero_before hl J _ (le_refl _)
  -- (2) `J` starts before `a + S`
  have hstarted : 0 < svc s J (s.arr J + S) := by
    apply Nat.pos_of_ne_zero
    intro h0
    have hb := sv_supply (s := s) (σ := σ) (fun K => K ≠ J) (s.arr J) S (by
      intro u h1 h2 h3
      have hJu : svc s J u = 0 := by
        have := svc_mono (s := s) J (show u ≤ s.arr J + S by omega); omega
      obtain ⟨j', hj'⟩ := hl.wc u h3 ⟨J, hJ, h1, by omega⟩
      refine ⟨j', hj', (hl.valid u j' hj').1, ?_⟩
      intro e
      rw [e] at hj'
      have := svc_succ_of_eq (s := s) J u hj'
      have := svc_mono (s := s) J (show u + 1 ≤ s.arr J + S by omega)
      omega)
    have ho := others_bound A jc S (s.arr J + S) hS (by omega) (le_refl _) h0
    have := hsbf (s.arr J) S
    omega
  apply Classical.byContradiction
  intro hne
  have hlt : svc s J (s.arr J + R) < s.cost J := by
    have := p_svc_le_cost hl J (s.arr J + R); omega
  -- the slot in which `J` starts
  let st := Nat.findGreatest (fun u => svc s J u = 0) (s.arr J + S)
  have hst0 : svc s J st = 0 :=
    Nat.findGreatest_spec (P := fun u => svc s J u = 0) (Nat.zero_le _) rfl
  have hstle : st ≤ s.arr J + S := Nat.findGreatest_le _
  have hage : s.arr J ≤ st :=
    Nat.le_findGreatest (P := fun u => svc s J u = 0) (by omega) hJa
  have hstlt : st < s.arr J + S := by
    rcases Nat.lt_or_ge st (s.arr J + S) with h | h
    · exact h
    · have e : st = s.arr J + S := by omega
      rw [e] at hst0; omega
  have hst1 : 0 < svc s J (st + 1) :=
    Nat.pos_of_ne_zero (Nat.findGreatest_is_greatest (P := fun u => svc s J u = 0)
      (show st < st + 1 by omega) (by omega))
  have hsJ : s.sched st = some J := sched_of_svc_lt (s := s) J st (by omega)
  -- from its start on only `J` is served
  have F1 : ∀ u, st ≤ u → u < s.arr J + R → ∀ j', s.sched u = some j' → j' = J := by
    intro u h1 h2 j' hs
    apply Classical.byContradiction
    intro hne'
    rcases Nat.eq_or_lt_of_le h1 with he | hlt'
    · rw [← he, hsJ] at hs
      injection hs with hs
      exact hne' hs.symm
    · have := svc_mono (s := s) J (show st + 1 ≤ u by omega)
      have := svc_mono (s := s) J (show u ≤ s.arr J + R by omega)
      have := hl.nonpre u j' hs J hJ (fun h => hne' h.symm)
      omega
  have hafter : sv s (fun K => K ≠ J) (s.arr J + R) ≤ sv s (fun K => K ≠ J) st := by
    unfold sv
    apply sum_le_sum
    intro K _
    by_cases hK : K ≠ J
    · rw [if_pos hK, if_pos hK]
      rcases Nat.le_total (s.arr J + R) st with h | h
      · exact svc_mono K h
      · apply le_of_eq
        apply svc_const K st _ h
        intro u h1 h2 hs
        exact hK (F1 u h1 h2 K hs)
    · rw [if_neg hK, if_neg hK]
  have ho := others_bound A jc S st hS hage (by omega) hst0
  have hb := sv_supply (s := s) (σ := σ) (fun K => K ≠ J ∨ K = J) (s.arr J) R (by
    intro u h1 h2 h3
    have : svc s J u < s.cost J := by
      have := svc_mono (s := s) J (show u ≤ s.arr J + R by omega); omega
    obtain ⟨j', hj'⟩ := hl.wc u h3 ⟨J, hJ, h1, this⟩
    exact ⟨j', hj', (hl.valid u j' hj').1, Decidable.em _ |>.symm⟩)
  have hdisj : ∀ t, sv s (fun K => K ≠ J ∨ K = J) t = sv s (fun K => K ≠ J) t + svc s J t := by
    intro t
    rw [sv_or_disj _ _ t (fun k h1 h2 => h1 h2), sv_single J t hJ]
  rw [hdisj, hdisj] at hb
  have := hsbf (s.arr J) R
  omega

/-- induction over the expiry times of the assumed bounds -/
theorem all_done (A : Ana s σ E nT kind N C) (sbf : ℕ → ℕ)
    (hsbf : ∀ t d, sbf d ≤ service σ t d) (hsbf0 : sbf 0 = 0)
    (hana : ∀ i, i < nT → ∃ S R, 1 ≤ S ∧ 1 + interf nT kind N C rtb i S ≤ sbf S ∧
      sbf S - 1 + C i ≤ sbf R ∧ R ≤ rtb i) :
    ∀ D j, j < s.n → s.arr j + rtb (s.task j) = D →
      svc s j (s.arr j + rtb (s.task j)) = s.cost j := by
  intro D
  induction D using Nat.strongRecOn with
  | _ D ih =>
    intro j hj hD
    obtain ⟨S, R, hS, hW, hR, hle⟩ := hana (s.task j) (A.htask j hj)
    have hcj := A.hcost j hj
    have hRpos : 1 ≤ R := by
      rcases Nat.eq_zero_or_pos R with h | h
      · rw [h, hsbf0] at hR; omega
      · exact h
    have jc : JobCtx s rtb j := by
      refine ⟨hj, ?_, by omega⟩
      intro K hK hKa
      have := ih (s.arr K + rtb (s.task K)) (by omega) K hK rfl
      exact p_done_mono A.hl K (by omega) this
    have := job_done A jc sbf hsbf S R hS hW hR
    exact p_done_mono A.hl j (by omega) this

/-! ### what `rr::rta_subchain = Ok(R)` provides -/

theorem sumList_snoc (l : List ℕ) (x : ℕ) : sumList (l ++ [x]) = sumList l + x := by
  induction l with
  | nil => simp [sumList]
  | cons a as ih => simp only [List.cons_append, sumList, ih]; omega

theorem sumList_range (f : ℕ → ℕ) (n : ℕ) :
    sumList ((List.range n).map f) = ∑ c ∈ range n, f c := by
  induction n with
  | zero => simp [sumList]
  | succ n ih =>
    rw [List.range_succ, List.map_append, List.map_singleton, sumList_snoc, ih, sum_range_succ]

theorem mem_getD (wl : List Callback) (cb : Callback) (h : cb ∈ wl) :
    ∃ i, i < wl.length ∧ wl.getD i default = cb := by
  obtain ⟨i, hi, e⟩ := List.mem_iff_getElem.1 h
  refine ⟨i, hi, ?_⟩
  rw [List.getD_eq_getElem?_getD, List.getElem?_eq_getElem hi]
  exact e

theorem rr_extract (sup : Supply) (hs : sup.WF) (wl : List Callback) (C : ℕ → ℕ)
    (hscalar : ∀ i, i < wl.length → (wl.getD i default).cost = .scalar (C i))
    (hwf : ∀ cb ∈ wl, cb.arr.WF) (i : ℕ) (hi : i < wl.length) (limit R : ℕ)
    (h : rrSubchain sup wl [i] limit = .ok R) :
    ∃ S, 1 ≤ S ∧
      1 + interf wl.length (fun c => (wl.getD c default).kind) (fun c d => (wl.getD c default).arr.N d)
        C (fun c => (wl.getD c default).rtb) i S ≤ sup.sbf S ∧
      sup.sbf S - 1 + C i ≤ sup.sbf R := by
  have hlim : 1 ≤ limit := by
    rcases Nat.eq_zero_or_pos limit with h0 | h'
    · subst h0
      exfalso
      unfold rrSubchain at h
      simp [hi, search, RTA.C08.limit_zero_diverges] at h
    · exact h'
  have hwf' : ∀ cb ∈ wl, cb.arr.WF ∧ MonoN cb.cost.ofJobs := by
    intro cb hcb
    refine ⟨hwf cb hcb, ?_⟩
    obtain ⟨c, hc, e⟩ := mem_getD wl cb hcb
    rw [← e, hscalar c hc]
    intro a b hab
    exact Nat.mul_le_mul_left _ hab
  rw [rr_eq_naive sup hs wl [i] limit hlim (by simpa using hi) hwf'] at h
  unfold naiveRr at h
  simp only [List.getLast?_singleton] at h
  have hnpp : sumPPBound wl [i] = (wl.getD i default).arr.N (wl.getD i default).rtb := by
    simp [sumPPBound, sumList, Callback.ppBound]
  rw [hnpp] at h
  rcases RosNaiveLemmas.nss_cases sup.sbf 0
      (rrRhs wl i ((wl.getD i default).arr.N (wl.getD i default).rtb)) limit with ⟨S, hS⟩ | hS
  · rw [hS] at h
    simp only [] at h
    injection h with h
    have hS' := ((RosNaiveLemmas.nss_ok_iff _ _ _ _ _).1 hS).2.1
    rw [Nat.zero_add] at hS'
    -- the right-hand side in sum form
    have hrhs : ∀ x, rrRhs wl i ((wl.getD i default).arr.N (wl.getD i default).rtb) x =
        1 + interf wl.length (fun c => (wl.getD c default).kind)
          (fun c d => (wl.getD c default).arr.N d) C (fun c => (wl.getD c default).rtb) i x := by
      intro x
      unfold rrRhs interf
      simp only []
      rw [sumList_range, hscalar i hi]
      have e1 : ∀ c ∈ range wl.length,
          (if c = i then C c * ((wl.getD c default).arr.N (x + (wl.getD c default).rtb - 1) - 1)
            else C c * cappedJobs (wl.getD c default).kind (wl.getD i default).kind
              ((wl.getD c default).arr.N (x + (wl.getD c default).rtb - 1))
              ((wl.getD i default).arr.N (wl.getD i default).rtb)) =
          (if c = i then 0 else (wl.getD c default).directRbf (wl.getD i default).kind x
              ((wl.getD i default).arr.N (wl.getD i default).rtb)) +
            (if c = i then C c * ((wl.getD c default).arr.N (x + (wl.getD c default).rtb - 1) - 1)
              else 0) := by
        intro c hc
        by_cases hci : c = i
        · rw [if_pos hci, if_pos hci, if_pos hci]; omega
        · rw [if_neg hci, if_neg hci, if_neg hci]
          unfold Callback.directRbf
          simp only []
          rw [hscalar c (mem_range.1 hc)]
          simp [Cost.ofJobs]
      rw [sum_congr rfl e1, sum_add_distrib, sum_ite_eq']
      simp only [mem_range, hi, if_true]
      simp [Cost.ofJobs, Callback.rrSelfInstances]
      omega
    have h0 := Supply.sbf_zero sup hs
    have hSpos : 1 ≤ S := by
      rcases Nat.eq_zero_or_pos S with hz | hp
      · subst hz
        rw [hrhs, h0] at hS'
        omega
      · exact hp
    have hmax : max S 1 = S := by omega
    rw [hmax, hrhs] at hS'
    refine ⟨S, hSpos, hS', ?_⟩
    rw [RosNaiveLemmas.naiveSt_eq sup hs] at h
    have hg := (Supply.galois sup hs _ R).1 (le_of_eq h)
    rw [hscalar i hi] at hg
    have e : Cost.ofJobs (.scalar (C i)) ((wl.getD i default).rrSelfInstances S + 1) -
        Cost.ofJobs (.scalar (C i)) ((wl.getD i default).rrSelfInstances S) = C i := by
      simp only [Cost.ofJobs]
      rw [Nat.mul_add, Nat.mul_one]
      omega
    rw [e] at hg
    exact hg
  · rw [hS] at h
    cases h

end RrSoundLemmas

/-- C05, rr, singleton subchains -/
theorem rr_singleton_sound (s : Sys) (σ : ℕ → Bool) (E : ExecInfo) (hl : PollingExecLegal s σ E)
    (sup : Supply) (hs : sup.WF) (hsbf : ∀ t d, sup.sbf d ≤ service σ t d)
    (wl : List Callback) (C : ℕ → ℕ)
    (hscalar : ∀ i, i < wl.length → (wl.getD i default).cost = .scalar (C i))
    (hwf : ∀ cb ∈ wl, cb.arr.WF)
    (htask : ∀ k, k < s.n → s.task k < wl.length)
    (hkinds : KindsAgree wl E)
    (hprio : ∀ i j, i < wl.length → j < wl.length → E.isTimer i = false → E.isTimer j = false →
      E.prio i = E.prio j → i = j)
    (hN : ∀ i t d, countOf s i t (t + d) ≤ (wl.getD i default).arr.N d)
    (hcost : ∀ k, k < s.n → 1 ≤ s.cost k ∧ s.cost k ≤ C (s.task k))
    (limit : ℕ)
    (hself : ∀ i, i < wl.length → ∃ R, rrSubchain sup wl [i] limit = .ok R ∧ R ≤ (wl.getD i default).rtb) :
    ∀ j, j < s.n → MeetsBound s j (wl.getD (s.task j) default).rtb := by
  intro j hj
  have A : RrSoundLemmas.Ana s σ E wl.length (fun c => (wl.getD c default).kind)
      (fun c d => (wl.getD c default).arr.N d) C := by
    refine ⟨hl, htask, hkinds, hprio, hN, ?_, hcost⟩
    intro i a b hab
    by_cases hi : i < wl.length
    · exact Arr.N_mono _ (hwf _ (RosNaiveLemmas.getD_mem wl i hi)) a b hab
    · have e : wl.getD i default = default := by
        rw [List.getD_eq_getElem?_getD, List.getElem?_eq_none (by omega)]
        rfl
      rw [e]
      exact Nat.le_of_eq rfl
  exact RrSoundLemmas.all_done (rtb := fun c => (wl.getD c default).rtb) A sup.sbf hsbf
    (Supply.sbf_zero sup hs) (by
      intro i hi
      obtain ⟨R, hR, hle⟩ := hself i hi
      obtain ⟨S, h1, h2, h3⟩ := RrSoundLemmas.rr_extract sup hs wl C hscalar hwf i hi limit R hR
      exact ⟨S, R, h1, h2, h3, hle⟩) _ j hj rfl

end RTA.Sched
