import RTA.Lemmas.TimerSound
/-! Non-vacuity of `timer_sound` / `pollingPoint_sound`: a concrete executor schedule on a
concrete periodic reservation that satisfies every hypothesis, with a job whose response time
is positive (so the theorems are not vacuously true). -/

open Finset

namespace RTA.Sched
open RTA RTA.Spec

/-- reservation: budget 2 every 4 slots, delivered in the LAST two slots of each period -/
def exSigma (t : ℕ) : Bool := decide (2 ≤ t % 4)

/-- jobs: 0 = analysed timer (task 1, released at 0, cost 2); 1 = higher-priority timer
(task 0, released at 0, cost 1); 2 = a polled callback (task 2, released at 0, cost 2).
Schedule: slots 2 (job 1), 3 and 6 (job 0), 7 and 10 (job 2). -/
def exSys : Sys where
  n := 3
  task := fun k => if k = 0 then 1 else if k = 1 then 0 else 2
  arr := fun _ => 0
  cost := fun k => if k = 1 then 1 else 2
  np := fun _ _ => False
  sched := fun t => if t = 2 then some 1 else if t = 3 ∨ t = 6 then some 0
    else if t = 7 ∨ t = 10 then some 2 else none

namespace TimerSoundExample

theorem sched_eq (t : ℕ) : exSys.sched t = if t = 2 then some 1 else if t = 3 ∨ t = 6 then some 0
    else if t = 7 ∨ t = 10 then some 2 else none := rfl

theorem cost_eq (k : ℕ) : exSys.cost k = if k = 1 then 1 else 2 := rfl
theorem task_eq (k : ℕ) : exSys.task k = if k = 0 then 1 else if k = 1 then 0 else 2 := rfl
theorem arr_eq (k : ℕ) : exSys.arr k = 0 := rfl
theorem n_eq : exSys.n = 3 := rfl

theorem svc0 (t : ℕ) : svc exSys 0 t = if t ≤ 3 then 0 else if t ≤ 6 then 1 else 2 := by
  induction t with
  | zero => rfl
  | succ t ih =>
    rw [TimerSoundLemmas.svc_succ, ih, sched_eq]
    grind

theorem svc1 (t : ℕ) : svc exSys 1 t = if t ≤ 2 then 0 else 1 := by
  induction t with
  | zero => rfl
  | succ t ih =>
    rw [TimerSoundLemmas.svc_succ, ih, sched_eq]
    grind

theorem svc2 (t : ℕ) : svc exSys 2 t = if t ≤ 7 then 0 else if t ≤ 10 then 1 else 2 := by
  induction t with
  | zero => rfl
  | succ t ih =>
    rw [TimerSoundLemmas.svc_succ, ih, sched_eq]
    grind

/-- the served slots -/
theorem sched_cases {t j : ℕ} (h : exSys.sched t = some j) :
    (t = 2 ∧ j = 1) ∨ (t = 3 ∧ j = 0) ∨ (t = 6 ∧ j = 0) ∨ (t = 7 ∧ j = 2) ∨ (t = 10 ∧ j = 2) := by
  rw [sched_eq] at h
  split at h
  · injection h with h; omega
  split at h
  · injection h with h; omega
  split at h
  · injection h with h; omega
  · exact absurd h (by simp)

theorem lt3 {k : ℕ} (h : k < 3) : k = 0 ∨ k = 1 ∨ k = 2 := by omega

end TimerSoundExample

open TimerSoundExample in
/-- the example satisfies the executor Spec for the analysed timer (task 1) with the
higher-priority timer (task 0) -/
theorem exSys_legal : SupplyTimerLegal exSys exSigma 1 (fun k => k = 0) := by
  refine ⟨?_, ?_, ?_, ?_, ?_⟩
  · intro t j h
    rcases sched_cases h with ⟨rfl, rfl⟩ | ⟨rfl, rfl⟩ | ⟨rfl, rfl⟩ | ⟨rfl, rfl⟩ | ⟨rfl, rfl⟩ <;>
      refine ⟨by decide, ⟨Nat.zero_le _, ?_⟩, by decide⟩ <;>
      simp [svc0, svc1, svc2, cost_eq]
  · intro t j h k hk hne
    rcases sched_cases h with ⟨rfl, rfl⟩ | ⟨rfl, rfl⟩ | ⟨rfl, rfl⟩ | ⟨rfl, rfl⟩ | ⟨rfl, rfl⟩ <;>
      rcases lt3 hk with rfl | rfl | rfl <;>
      first
        | exact absurd rfl hne
        | simp [svc0, svc1, svc2, cost_eq]
  · rintro t hσ ⟨k, hk, hr, hp⟩
    have hσ' : 2 ≤ t % 4 := by simpa [exSigma] using hσ
    have ht : t = 2 ∨ t = 3 ∨ t = 6 := by
      rcases lt3 hk with rfl | rfl | rfl
      · have := hp.2
        rw [svc0] at this
        rw [cost_eq] at this
        have : t ≤ 6 := by grind
        omega
      · have := hp.2
        rw [svc1] at this
        rw [cost_eq] at this
        have : t ≤ 2 := by grind
        omega
      · exfalso
        simp [Rel, task_eq] at hr
    rcases ht with rfl | rfl | rfl
    · exact ⟨1, rfl⟩
    · exact ⟨0, rfl⟩
    · exact ⟨0, rfl⟩
  · intro t j h h0 hnr k hk hr hp
    rcases sched_cases h with ⟨rfl, rfl⟩ | ⟨rfl, rfl⟩ | ⟨rfl, rfl⟩ | ⟨rfl, rfl⟩ | ⟨rfl, rfl⟩
    · exact hnr (by simp [Rel, task_eq])
    · exact hnr (by simp [Rel, task_eq])
    · exact hnr (by simp [Rel, task_eq])
    · have := hp.2
      rcases lt3 hk with rfl | rfl | rfl
      · simp [svc0, cost_eq] at this
      · simp [svc1, cost_eq] at this
      · simp [Rel, task_eq] at hr
    · simp [svc2] at h0
  · intro t j _ _ _ k _ _ _
    exact Nat.le_refl 0

/-- the reservation process is compliant with (Q, D, P) = (2, 4, 4) -/
theorem exSigma_compliant : Compliant 2 4 4 exSigma := by
  intro k
  have h2 : (k * 4 + 2) % 4 = 2 := by omega
  have h3 : (k * 4 + 3) % 4 = 3 := by omega
  simp [service, exSigma, h2, h3]

namespace TimerSoundExample

theorem one_le_ceilDiv {d : ℕ} (h : 0 < d) : 1 ≤ ceilDiv d 20 := by
  unfold ceilDiv
  split <;> omega

end TimerSoundExample

open TimerSoundExample in
/-- all hypotheses of `timer_sound_reservation` hold for the example, the analysis returns a
bound, and the analysed job's response time (7) is positive and within the bound -/
theorem timer_sound_nonvacuous :
    ∃ R, rosTimer (.constrained 2 4 4) (.rbf (.periodic 20) (.scalar 2))
          (.rbf (.periodic 20) (.scalar 1)) 1 100 = .ok R ∧
      (∀ t d, countOf exSys 1 t (t + d) ≤ (Arr.periodic 20).N d) ∧
      (∀ k, k < exSys.n → exSys.task k = 1 → exSys.cost k ≤ 2) ∧
      (∀ t d, workOf exSys (fun k => k = 0) t (t + d) ≤ (RB.rbf (.periodic 20) (.scalar 1)).need d) ∧
      (∀ k, k < exSys.n → ¬ Rel exSys 1 (fun k => k = 0) k → exSys.cost k ≤ 1 + 1) ∧
      MeetsBound exSys 0 R ∧ ¬ MeetsBound exSys 0 6 := by
  refine ⟨10, by decide, ?_, ?_, ?_, ?_, ?_, ?_⟩
  · intro t d
    show _ ≤ ceilDiv d 20
    by_cases h : t = 0 ∧ 0 < d
    · obtain ⟨rfl, hd⟩ := h
      refine le_trans ?_ (one_le_ceilDiv hd)
      simp [countOf, exSys, hd]
      decide
    · have : countOf exSys 1 t (t + d) = 0 := by
        simp only [countOf, card_eq_zero, filter_eq_empty_iff]
        intro k _ hk
        apply h
        have h1 : t ≤ 0 := hk.2.1
        have h2 : 0 < t + d := hk.2.2
        omega
      omega
  · intro k hk _
    show (if k = 1 then 1 else 2) ≤ 2
    split <;> omega
  · intro t d
    show _ ≤ 1 * ceilDiv d 20
    by_cases h : t = 0 ∧ 0 < d
    · obtain ⟨rfl, hd⟩ := h
      have := one_le_ceilDiv hd
      refine le_trans ?_ (by omega : 1 ≤ 1 * ceilDiv d 20)
      simp [workOf, exSys, hd, sum_range_succ]
    · have : workOf exSys (fun k => k = 0) t (t + d) = 0 := by
        unfold workOf
        apply sum_eq_zero
        intro k _
        rw [if_neg]
        intro hk
        apply h
        have h1 : t ≤ 0 := hk.2.1
        have h2 : 0 < t + d := hk.2.2
        omega
      omega
  · intro k hk _
    show (if k = 1 then 1 else 2) ≤ 2
    split <;> omega
  · show svc exSys 0 (0 + 10) = 2
    rw [svc0]; rfl
  · show ¬ svc exSys 0 (0 + 6) = 2
    rw [svc0]; decide

end RTA.Sched
