import RTA.Lemmas.Steps
import RTA.Spec.Events
/-! The delta-min curve: closed form of `number_arrivals`, monotonicity, and the
undercounting theorem against sequences that respect the delta-min vector (C10). -/

namespace RTA
open RTA.Spec

/-- number of entries of `d` that are `< x` -/
def countLt (d : List Nat) (x : Nat) : Nat := (d.filter (fun v => decide (v < x))).length

theorem countLt_cons (v : Nat) (d : List Nat) (x : Nat) :
    countLt (v :: d) x = (if v < x then 1 else 0) + countLt d x := by
  by_cases h : v < x
  · simp [countLt, h]; omega
  · simp [countLt, h]

theorem countLt_eq_zero (d : List Nat) (x : Nat) (h : ∀ v ∈ d, x ≤ v) : countLt d x = 0 := by
  induction d with
  | nil => rfl
  | cons a as ih =>
    rw [countLt_cons, ih (fun v hv => h v (List.mem_cons_of_mem _ hv))]
    have := h a (by simp)
    rw [if_neg (by omega)]

theorem countLt_le_length (d : List Nat) (x : Nat) : countLt d x ≤ d.length :=
  List.length_filter_le _ _

theorem countLt_mono (d : List Nat) (a b : Nat) (h : a ≤ b) : countLt d a ≤ countLt d b := by
  induction d with
  | nil => exact Nat.le_refl _
  | cons v vs ih =>
    rw [countLt_cons, countLt_cons]
    split <;> split <;> omega

theorem getLastD_cons_cons (a b : Nat) (l : List Nat) :
    (a :: b :: l).getLastD 0 = (b :: l).getLastD 0 := by
  simp

theorem countLt_lt_length (d : List Nat) (hne : d ≠ []) (x : Nat) (h : x ≤ d.getLastD 0) :
    countLt d x < d.length := by
  induction d with
  | nil => exact absurd rfl hne
  | cons a as ih =>
    cases as with
    | nil =>
      have : x ≤ a := h
      rw [countLt_cons, if_neg (by omega)]; simp [countLt]
    | cons b bs =>
      rw [getLastD_cons_cons] at h
      have := ih (by simp) h
      rw [countLt_cons]
      simp only [List.length_cons] at this ⊢
      split <;> omega

theorem sorted_head_le {a : Nat} {l : List Nat} (hs : (a :: l).Pairwise (· ≤ ·)) :
    ∀ v ∈ a :: l, a ≤ v := by
  intro v hv
  rw [List.mem_cons] at hv
  rcases hv with rfl | hv
  · exact Nat.le_refl _
  · exact (List.pairwise_cons.1 hs).1 v hv

theorem curveLookup_eq (d : List Nat) (hs : d.Pairwise (· ≤ ·)) (hne : d ≠ []) (x : Nat)
    (h : x ≤ d.getLastD 0) : curveLookup d x = some (1 + countLt d x) := by
  induction d with
  | nil => exact absurd rfl hne
  | cons a as ih =>
    unfold curveLookup
    by_cases hxa : x ≤ a
    · rw [if_pos hxa, countLt_eq_zero]
      intro v hv
      have := sorted_head_le hs v hv
      omega
    · rw [if_neg hxa]
      cases as with
      | nil => exact absurd h hxa
      | cons b bs =>
        rw [getLastD_cons_cons] at h
        rw [ih (List.pairwise_cons.1 hs).2 (by simp) h, countLt_cons a, if_pos (by omega)]
        simp; omega

theorem getD_ge_of_all (d : List Nat) (x : Nat) (h : ∀ v ∈ d, x ≤ v) (i : Nat) (hi : i < d.length) :
    x ≤ d.getD i 0 := by
  rw [List.getD_eq_getElem?_getD, List.getElem?_eq_getElem hi]
  exact h _ (List.getElem_mem hi)

theorem getD_ge_of_countLt (d : List Nat) (hs : d.Pairwise (· ≤ ·)) (x i : Nat)
    (hc : countLt d x ≤ i) (hi : i < d.length) : x ≤ d.getD i 0 := by
  induction d generalizing i with
  | nil => simp at hi
  | cons a as ih =>
    by_cases hax : a < x
    · rw [countLt_cons, if_pos hax] at hc
      cases i with
      | zero => omega
      | succ j =>
        rw [List.getD_cons_succ]
        exact ih (List.pairwise_cons.1 hs).2 j (by omega) (by simpa using hi)
    · apply getD_ge_of_all _ _ _ _ hi
      intro v hv
      have := sorted_head_le hs v hv
      omega

theorem getD_lt_of_countLt (d : List Nat) (hs : d.Pairwise (· ≤ ·)) (x i : Nat)
    (hc : i < countLt d x) : d.getD i 0 < x := by
  induction d generalizing i with
  | nil => simp [countLt] at hc
  | cons a as ih =>
    by_cases hax : a < x
    · rw [countLt_cons, if_pos hax] at hc
      cases i with
      | zero => simpa using hax
      | succ j =>
        rw [List.getD_cons_succ]
        exact ih (List.pairwise_cons.1 hs).2 j (by omega)
    · rw [countLt_eq_zero] at hc
      · omega
      · intro v hv
        have := sorted_head_le hs v hv
        omega

theorem getD_last (d : List Nat) (hne : d ≠ []) : d.getD (d.length - 1) 0 = d.getLastD 0 := by
  induction d with
  | nil => exact absurd rfl hne
  | cons a as ih =>
    cases as with
    | nil => rfl
    | cons b bs =>
      rw [getLastD_cons_cons, ← ih (by simp)]
      simp

/-- closed form of `Curve::number_arrivals`: with `last` the largest recorded distance and
`1 ≤ tail ≤ last`, `N (c*last + tail) = c*len + 1 + #{i | d[i] < tail}` -/
theorem curveN_closed (d : List Nat) (hwf : curveWF d) (c tail : Nat)
    (ht1 : 1 ≤ tail) (ht : tail ≤ d.getLastD 0) :
    curveN d (c * d.getLastD 0 + tail) = c * d.length + (1 + countLt d tail) := by
  obtain ⟨hne, hs, hl⟩ := hwf
  unfold curveN
  generalize hL : d.getLastD 0 = L at *
  rw [if_neg (by omega)]
  have hq : (c * L + tail - 1) / L = c := by
    have e : c * L + tail - 1 = L * c + (tail - 1) := by rw [Nat.mul_comm]; omega
    rw [e, Nat.mul_add_div (by omega), Nat.div_eq_of_lt (by omega)]; rfl
  have hr : c * L + tail - L * c = tail := by rw [Nat.mul_comm]; omega
  simp only [hq, hr]
  split
  · rw [curveLookup_eq d hs hne tail (by omega)]
    rfl
  · rename_i hngt
    rw [countLt_eq_zero]
    cases d with
    | nil => exact absurd rfl hne
    | cons a as =>
      intro v hv
      have := sorted_head_le hs v hv
      simp only [List.headD_cons] at hngt
      omega

theorem curveN_zero (d : List Nat) : curveN d 0 = 0 := by
  simp [curveN]

/-- inside the first period (`x ≤ last`) `number_arrivals` is the plain lookup -/
theorem curveN_closed0 (d : List Nat) (hwf : curveWF d) (x : Nat) (hx : x ≤ d.getLastD 0) :
    curveN d x = (if x = 0 then 0 else 1 + countLt d x) := by
  by_cases h0 : x = 0
  · subst h0; rw [curveN_zero]; rfl
  · have := curveN_closed d hwf 0 x (by omega) hx
    rw [Nat.zero_mul, Nat.zero_add] at this
    rw [this, if_neg h0]; omega

theorem curveN_decomp (d : List Nat) (hwf : curveWF d) (x : Nat) (hx : 1 ≤ x) :
    ∃ c t, 1 ≤ t ∧ t ≤ d.getLastD 0 ∧ x = c * d.getLastD 0 + t ∧
      curveN d x = c * d.length + (1 + countLt d t) := by
  have hpos : 0 < d.getLastD 0 := hwf.2.2
  have hdm := Nat.div_add_mod' (x - 1) (d.getLastD 0)
  have hlt := Nat.mod_lt (x - 1) hpos
  refine ⟨(x - 1) / d.getLastD 0, (x - 1) % d.getLastD 0 + 1, by omega, by omega, by omega, ?_⟩
  have h := curveN_closed d hwf ((x - 1) / d.getLastD 0) ((x - 1) % d.getLastD 0 + 1)
    (by omega) (by omega)
  have e : (x - 1) / d.getLastD 0 * d.getLastD 0 + ((x - 1) % d.getLastD 0 + 1) = x := by omega
  rw [e] at h
  exact h

theorem curveN_mono (d : List Nat) (hwf : curveWF d) : MonoN (curveN d) := by
  intro a b hab
  by_cases ha0 : a = 0
  · subst ha0; rw [curveN_zero]; exact Nat.zero_le _
  obtain ⟨ca, ta, hta1, hta, ha, hNa⟩ := curveN_decomp d hwf a (by omega)
  obtain ⟨cb, tb, htb1, htb, hb, hNb⟩ := curveN_decomp d hwf b (by omega)
  rw [hNa, hNb]
  have hca := countLt_lt_length d hwf.1 ta hta
  have hmono := fun h => countLt_mono d ta tb h
  generalize d.getLastD 0 = L at *
  generalize d.length = n at *
  generalize countLt d ta = ka at *
  generalize countLt d tb = kb at *
  subst ha hb
  rcases Nat.lt_trichotomy ca cb with h | h | h
  · obtain ⟨e, rfl⟩ : ∃ e, cb = ca + 1 + e := ⟨cb - ca - 1, by omega⟩
    rw [Nat.add_mul, Nat.add_mul, Nat.one_mul]
    omega
  · subst h
    have : ta ≤ tb := by omega
    have := hmono this
    omega
  · obtain ⟨e, rfl⟩ : ∃ e, ca = cb + 1 + e := ⟨ca - cb - 1, by omega⟩
    rw [Nat.add_mul, Nat.add_mul, Nat.one_mul] at hab
    omega

theorem curveN_pos (d : List Nat) (hwf : curveWF d) (x : Nat) (hx : 1 ≤ x) : 0 < curveN d x := by
  obtain ⟨c, t, ht1, ht, hxe, hN⟩ := curveN_decomp d hwf x hx
  rw [hN]
  omega

/-- lower bound on the span of `m + 1` consecutive events of a sequence respecting `d`:
whole blocks of `len` gaps span `last` each, the remainder is read off `d` -/
def spanLB (d : List Nat) (m : Nat) : Nat :=
  (m / d.length) * d.getLastD 0 + (if m % d.length = 0 then 0 else d.getD (m % d.length - 1) 0)

theorem respects_span_aux (d rels : List Nat) (hne : d ≠ []) (h : Respects d rels) (q r : Nat)
    (hr : r < d.length) : ∀ i, i + (q * d.length + r) < rels.length →
      rels.getD i 0 + (q * d.getLastD 0 + (if r = 0 then 0 else d.getD (r - 1) 0)) ≤
        rels.getD (i + (q * d.length + r)) 0 := by
  induction q with
  | zero =>
    intro i hi
    simp only [Nat.zero_mul, Nat.zero_add] at hi ⊢
    split
    · rename_i h0; subst h0; simp
    · have := h.2 i (r - 1) (by omega) (by omega)
      have e : i + (r - 1) + 1 = i + r := by omega
      rw [e] at this; exact this
  | succ q ih =>
    intro i hi
    rw [Nat.add_mul, Nat.one_mul] at hi ⊢
    rw [Nat.add_mul, Nat.one_mul]
    have h1 := h.2 i (d.length - 1) (by omega) (by omega)
    rw [getD_last d hne] at h1
    have e : i + (d.length - 1) + 1 = i + d.length := by omega
    rw [e] at h1
    have h2 := ih (i + d.length) (by omega)
    have e2 : i + d.length + (q * d.length + r) = i + (q * d.length + d.length + r) := by omega
    rw [e2] at h2
    omega

theorem respects_span (d rels : List Nat) (hne : d ≠ []) (h : Respects d rels) (i m : Nat)
    (him : i + m < rels.length) : rels.getD i 0 + spanLB d m ≤ rels.getD (i + m) 0 := by
  have hlen : 0 < d.length := List.length_pos_iff.2 hne
  have := respects_span_aux d rels hne h (m / d.length) (m % d.length) (Nat.mod_lt _ hlen) i
    (by rw [Nat.div_add_mod']; exact him)
  rw [Nat.div_add_mod'] at this
  exact this

/-- if `m` is at least the claimed number of arrivals for `Δ ≥ 1`, then `m + 1` events span
at least `Δ` (so they do not fit into a window of length `Δ`) -/
theorem curveN_spanLB (d : List Nat) (hwf : curveWF d) (x m : Nat) (hx : 1 ≤ x)
    (hm : curveN d x ≤ m) : x ≤ spanLB d m := by
  obtain ⟨c, t, ht1, ht, hxe, hN⟩ := curveN_decomp d hwf x hx
  have hlen : 0 < d.length := List.length_pos_iff.2 hwf.1
  rw [hN] at hm
  unfold spanLB
  have hmd := Nat.div_add_mod' m d.length
  have hr := Nat.mod_lt m hlen
  have hget := getD_ge_of_countLt d hwf.2.1 t (m % d.length - 1)
  generalize m / d.length = q at *
  generalize m % d.length = r at *
  generalize d.getLastD 0 = L at *
  generalize d.length = n at *
  subst hxe hmd
  rcases Nat.lt_trichotomy q c with h | h | h
  · obtain ⟨e, rfl⟩ : ∃ e, c = q + 1 + e := ⟨c - q - 1, by omega⟩
    rw [Nat.add_mul, Nat.add_mul, Nat.one_mul] at hm
    omega
  · subst h
    rw [if_neg (by omega)]
    have := hget (by omega) (by omega)
    omega
  · obtain ⟨e, rfl⟩ : ∃ e, q = c + 1 + e := ⟨q - c - 1, by omega⟩
    rw [Nat.add_mul, Nat.add_mul, Nat.one_mul]
    omega

theorem cnt_eq_countLt (l : List Nat) (t x : Nat) (h : ∀ v ∈ l, t ≤ v) :
    cnt l t x = countLt l (t + x) := by
  unfold cnt countLt
  congr 1
  apply List.filter_congr
  intro v hv
  simp [h v hv]

theorem cnt_cons_lt (r : Nat) (rs : List Nat) (t x : Nat) (h : r < t) :
    cnt (r :: rs) t x = cnt rs t x := by
  unfold cnt
  rw [List.filter_cons, if_neg]
  simp; omega

/-- in a sorted list, `m + 1` events inside a window give two events `m` positions apart
inside the window -/
theorem cnt_span (rels : List Nat) (hs : rels.Pairwise (· ≤ ·)) (t x m : Nat)
    (h : m + 1 ≤ cnt rels t x) :
    ∃ i, i + m < rels.length ∧ t ≤ rels.getD i 0 ∧ rels.getD (i + m) 0 < t + x := by
  induction rels with
  | nil => simp [cnt] at h
  | cons r rs ih =>
    by_cases hrt : r < t
    · rw [cnt_cons_lt r rs t x hrt] at h
      obtain ⟨i, h1, h2, h3⟩ := ih (List.pairwise_cons.1 hs).2 h
      refine ⟨i + 1, ?_, ?_, ?_⟩
      · simp only [List.length_cons]; omega
      · rw [List.getD_cons_succ]; exact h2
      · have e : i + 1 + m = (i + m) + 1 := by omega
        rw [e, List.getD_cons_succ]; exact h3
    · have hall : ∀ v ∈ r :: rs, t ≤ v := by
        intro v hv
        have := sorted_head_le hs v hv
        omega
      rw [cnt_eq_countLt _ t x hall] at h
      have hlen := countLt_le_length (r :: rs) (t + x)
      refine ⟨0, by omega, ?_, ?_⟩
      · simp; omega
      · rw [Nat.zero_add]
        exact getD_lt_of_countLt _ hs _ _ (by omega)

theorem cnt_zero_curve (rels : List Nat) (t : Nat) : cnt rels t 0 = 0 := by
  unfold cnt
  rw [List.length_eq_zero_iff, List.filter_eq_nil_iff]
  intro v _
  simp

/-- C10 for `Curve`: a sequence respecting the delta-min vector never has more events in a
window than `number_arrivals` claims -/
theorem curve_bounds (d : List Nat) (hwf : curveWF d) (rels : List Nat) (h : Respects d rels)
    (t x : Nat) : cnt rels t x ≤ curveN d x := by
  by_cases hx : x = 0
  · subst hx; rw [cnt_zero_curve]; exact Nat.zero_le _
  · apply Nat.le_of_not_lt
    intro hlt
    obtain ⟨i, h1, h2, h3⟩ := cnt_span rels h.1 t x (curveN d x) hlt
    have h4 := respects_span d rels hwf.1 h i (curveN d x) h1
    have h5 := curveN_spanLB d hwf x (curveN d x) (by omega) (Nat.le_refl _)
    omega
end RTA
