import RTA.Lemmas.CurveN
/-! `Curve::steps_iter` enumerates exactly the increase points of `Curve::number_arrivals`
for every well-formed delta-min vector — also for vectors that end in a plateau (finding F3,
fixed in `number_arrivals`: the remainder now ranges over `1 ..= last`). (C11) -/

namespace RTA

/-- "no plateau at the end": the largest distance is 1, or `last - 1` occurs in the vector,
or the largest distance occurs only once.  Before the F3 fix `steps_iter` was exact only for
these vectors; `curve_steps_spec` no longer needs the hypothesis (kept for reference). -/
def curveExact (d : List Nat) : Prop :=
  d.getLastD 0 = 1 ∨ (d.getLastD 0 - 1) ∈ d ∨ d.count (d.getLastD 0) = 1

instance (d : List Nat) : Decidable (curveExact d) := by unfold curveExact; infer_instance

/-! Helper lemmas live in their own namespace so that they cannot clash with helpers of the
neighbouring files. -/
namespace CurveSteps

/-! ### differences of a sorted list, generalised over the predecessor -/

/-- `curveDiffs` with an arbitrary predecessor `p` of the first entry -/
def diffsFrom (p : Nat) (d : List Nat) : List Nat :=
  (List.zipWith (fun a b => b - a) (p :: d) d).filter (· ≠ 0)

theorem curveDiffs_eq (d : List Nat) : curveDiffs d = diffsFrom 0 d := rfl

theorem diffsFrom_nil (p : Nat) : diffsFrom p [] = [] := rfl

theorem diffsFrom_cons (p x : Nat) (xs : List Nat) :
    diffsFrom p (x :: xs) = if x - p ≠ 0 then (x - p) :: diffsFrom x xs else diffsFrom x xs := by
  simp [diffsFrom, List.filter_cons]

/-- sum of the first `k` entries -/
def psum (l : List Nat) (k : Nat) : Nat := sumList (l.take k)

theorem psum_zero (l : List Nat) : psum l 0 = 0 := by simp [psum, sumList]

theorem psum_nil (k : Nat) : psum [] k = 0 := by simp [psum, sumList]

theorem psum_cons_succ (a : Nat) (l : List Nat) (k : Nat) :
    psum (a :: l) (k + 1) = a + psum l k := by simp [psum, sumList]

theorem psum_ge (l : List Nat) (k : Nat) (h : l.length ≤ k) : psum l k = sumList l := by
  simp [psum, List.take_of_length_le h]

theorem psum_succ (l : List Nat) : ∀ k, k < l.length → psum l (k + 1) = psum l k + l.getD k 0 := by
  induction l with
  | nil => intro k hk; simp at hk
  | cons a l ih =>
    intro k hk
    cases k with
    | zero => simp [psum_cons_succ, psum_zero]
    | succ k =>
      rw [psum_cons_succ, psum_cons_succ, ih k (by simpa using hk)]
      simp [Nat.add_assoc]

theorem psum_lt (l : List Nat) (hpos : ∀ x ∈ l, 0 < x) :
    ∀ k, k < l.length → psum l k < sumList l := by
  induction l with
  | nil => intro k hk; simp at hk
  | cons a l ih =>
    intro k hk
    have ha := hpos a (by simp)
    cases k with
    | zero => rw [psum_zero]; simp only [sumList]; omega
    | succ k =>
      rw [psum_cons_succ]
      have := ih (fun x hx => hpos x (by simp [hx])) k (by simpa using hk)
      simp only [sumList]; omega

theorem getD_pos (l : List Nat) (hpos : ∀ x ∈ l, 0 < x) (k : Nat) (hk : k < l.length) :
    0 < l.getD k 0 := by
  apply hpos
  simp [List.getD_eq_getElem?_getD, hk]

theorem diffsFrom_pos (d : List Nat) : ∀ p, ∀ x ∈ diffsFrom p d, 0 < x := by
  intro p x hx
  simp only [diffsFrom, List.mem_filter] at hx
  have := hx.2
  simp at this
  omega

theorem diffsFrom_sum (d : List Nat) : ∀ p, (p :: d).Pairwise (· ≤ ·) →
    p + sumList (diffsFrom p d) = d.getLastD p := by
  induction d with
  | nil => intro p _; simp [diffsFrom_nil, sumList]
  | cons x xs ih =>
    intro p hp
    rw [List.pairwise_cons] at hp
    have hpx := hp.1 x (by simp)
    have := ih x hp.2
    rw [diffsFrom_cons, List.getLastD_cons]
    split
    · simp only [sumList]; omega
    · omega

theorem diffsFrom_psum_mem (d : List Nat) : ∀ p, (p :: d).Pairwise (· ≤ ·) →
    ∀ k, p + psum (diffsFrom p d) k = p ∨ p + psum (diffsFrom p d) k ∈ d := by
  induction d with
  | nil => intro p _ k; simp [diffsFrom_nil, psum_nil]
  | cons x xs ih =>
    intro p hp k
    rw [List.pairwise_cons] at hp
    have hpx := hp.1 x (by simp)
    rw [diffsFrom_cons]
    split
    · cases k with
      | zero => simp [psum_zero]
      | succ k =>
        rw [psum_cons_succ]
        have e : p + (x - p + psum (diffsFrom x xs) k) = x + psum (diffsFrom x xs) k := by omega
        rw [e]
        rcases ih x hp.2 k with h | h
        · rw [h]; simp
        · right; simp [h]
    · have e : p = x := by omega
      subst e
      rcases ih p hp.2 k with h | h
      · left; exact h
      · right; simp [h]

theorem diffsFrom_mem_psum (d : List Nat) : ∀ p, (p :: d).Pairwise (· ≤ ·) →
    ∀ v ∈ d, ∃ k, p + psum (diffsFrom p d) k = v := by
  induction d with
  | nil => intro p _ v hv; simp at hv
  | cons x xs ih =>
    intro p hp v hv
    rw [List.pairwise_cons] at hp
    have hpx := hp.1 x (by simp)
    rw [diffsFrom_cons]
    rw [List.mem_cons] at hv
    split
    · rcases hv with rfl | hv
      · exact ⟨1, by rw [psum_cons_succ, psum_zero]; omega⟩
      · obtain ⟨k, hk⟩ := ih x hp.2 v hv
        exact ⟨k + 1, by rw [psum_cons_succ]; omega⟩
    · have e : p = x := by omega
      subst e
      rcases hv with rfl | hv
      · exact ⟨0, by rw [psum_zero]; omega⟩
      · exact ih p hp.2 v hv

/-! ### the iterator -/

/-- the `j`-th value yielded by `curveStepsAux D` started in `(1, 0)` -/
def stepVal (D : List Nat) (j : Nat) : Nat :=
  1 + (j / D.length) * sumList D + psum D (j % D.length)

theorem stepVal_zero (D : List Nat) : stepVal D 0 = 1 := by
  simp [stepVal, psum_zero]

theorem stepVal_succ (D : List Nat) (hne : D ≠ []) (j : Nat) :
    stepVal D (j + 1) = stepVal D j + D.getD (j % D.length) 0 := by
  have hn : 0 < D.length := List.length_pos_iff.2 hne
  have hr := Nat.mod_lt j hn
  have hj := Nat.div_add_mod j D.length
  unfold stepVal
  by_cases h : j % D.length + 1 < D.length
  · have := (Nat.div_mod_unique (a := j + 1) (d := j / D.length) (c := j % D.length + 1) hn).2
      ⟨by omega, h⟩
    rw [this.1, this.2, psum_succ D _ hr]
    omega
  · have hmul : D.length * (j / D.length + 1) = D.length * (j / D.length) + D.length :=
      Nat.mul_succ _ _
    have := (Nat.div_mod_unique (a := j + 1) (d := j / D.length + 1) (c := 0) hn).2
      ⟨by omega, hn⟩
    rw [this.1, this.2, psum_zero]
    have e : j % D.length + 1 = D.length := by omega
    have h1 := psum_succ D _ hr
    rw [e, psum_ge D _ (Nat.le_refl _)] at h1
    rw [Nat.succ_mul]
    omega

theorem stepVal_add_le (D : List Nat) (hne : D ≠ []) (hpos : ∀ x ∈ D, 0 < x) (j i : Nat) :
    stepVal D j + i ≤ stepVal D (j + i) := by
  have hn : 0 < D.length := List.length_pos_iff.2 hne
  induction i with
  | zero => exact Nat.le_refl _
  | succ i ih =>
    have := stepVal_succ D hne (j + i)
    have := getD_pos D hpos ((j + i) % D.length) (Nat.mod_lt _ hn)
    rw [← Nat.add_assoc j i 1]
    omega

theorem mem_curveStepsAux (D : List Nat) (hne : D ≠ []) (hpos : ∀ x ∈ D, 0 < x) (H x : Nat) :
    ∀ fuel j, x ∈ curveStepsAux D H fuel (stepVal D j) (j % D.length) ↔
      ∃ i, i < fuel ∧ x = stepVal D (j + i) ∧ x ≤ H := by
  intro fuel
  induction fuel with
  | zero => intro j; simp [curveStepsAux]
  | succ fuel ih =>
    intro j
    rw [curveStepsAux]
    split
    · rename_i hle
      rw [List.mem_cons, ← stepVal_succ D hne j, Nat.mod_add_mod, ih (j + 1)]
      constructor
      · rintro (rfl | ⟨i, hi, hx, hxH⟩)
        · exact ⟨0, by omega, rfl, hle⟩
        · exact ⟨i + 1, by omega, by rw [hx]; congr 1; omega, hxH⟩
      · rintro ⟨i, hi, hx, hxH⟩
        cases i with
        | zero => left; exact hx
        | succ i => right; exact ⟨i, by omega, by rw [hx]; congr 1; omega, hxH⟩
    · rename_i hle
      simp only [List.not_mem_nil, false_iff]
      rintro ⟨i, hi, hx, hxH⟩
      have := stepVal_add_le D hne hpos j i
      omega

theorem curveStepsAux_strict (D : List Nat) (hne : D ≠ []) (hpos : ∀ x ∈ D, 0 < x) (H : Nat) :
    ∀ fuel j, (curveStepsAux D H fuel (stepVal D j) (j % D.length)).Pairwise (· < ·) := by
  intro fuel
  induction fuel with
  | zero => intro j; simp [curveStepsAux]
  | succ fuel ih =>
    intro j
    rw [curveStepsAux]
    split
    · rw [← stepVal_succ D hne j, Nat.mod_add_mod, List.pairwise_cons]
      refine ⟨fun z hz => ?_, ih (j + 1)⟩
      rw [mem_curveStepsAux D hne hpos H z] at hz
      obtain ⟨i, _, hz, _⟩ := hz
      have := stepVal_add_le D hne hpos j (1 + i)
      have e : j + (1 + i) = j + 1 + i := by omega
      rw [e] at this
      omega
    · exact List.Pairwise.nil

theorem curveSteps_eq (d : List Nat) (H : Nat) :
    curveSteps d H = curveStepsAux (curveDiffs d) H (H + 1) (stepVal (curveDiffs d) 0)
      (0 % (curveDiffs d).length) := by
  rw [stepVal_zero, Nat.zero_mod]; rfl

theorem zero_cons_sorted (d : List Nat) (hwf : curveWF d) : (0 :: d).Pairwise (· ≤ ·) :=
  List.pairwise_cons.2 ⟨fun _ _ => Nat.zero_le _, hwf.2.1⟩

/-! ### increase points of `curveN` -/

theorem countLt_nil' (x : Nat) : countLt [] x = 0 := rfl

theorem countLt_cons' (a : Nat) (d : List Nat) (x : Nat) :
    countLt (a :: d) x = (if a < x then 1 else 0) + countLt d x := by
  unfold countLt
  rw [List.filter_cons]
  by_cases h : a < x <;> simp [h] <;> omega

theorem countLt_succ (d : List Nat) (x : Nat) : countLt d (x + 1) = countLt d x + d.count x := by
  induction d with
  | nil => simp [countLt_nil']
  | cons a d ih =>
    rw [countLt_cons', countLt_cons', ih, List.count_cons]
    simp only [beq_iff_eq]
    split <;> split <;> split <;> omega

theorem countLt_all (d : List Nat) (x : Nat) (h : ∀ v ∈ d, v < x) : countLt d x = d.length := by
  induction d with
  | nil => rfl
  | cons a d ih =>
    rw [countLt_cons', ih (fun v hv => h v (by simp [hv])), if_pos (h a (by simp))]
    simp; omega

theorem sorted_le_getLastD (d : List Nat) : ∀ p, d.Pairwise (· ≤ ·) → ∀ v ∈ d, v ≤ d.getLastD p := by
  induction d with
  | nil => intro p _ v hv; simp at hv
  | cons x xs ih =>
    intro p hs v hv
    rw [List.pairwise_cons] at hs
    rw [List.getLastD_cons]
    rw [List.mem_cons] at hv
    cases xs with
    | nil =>
      rcases hv with rfl | hv
      · simp
      · simp at hv
    | cons y ys =>
      have hl := ih x hs.2
      rcases hv with rfl | hv
      · have h1 := hs.1 y (by simp)
        have h2 := hl y (by simp)
        omega
      · exact hl v hv

theorem getLastD_mem (d : List Nat) (hne : d ≠ []) (p : Nat) : d.getLastD p ∈ d := by
  induction d generalizing p with
  | nil => exact absurd rfl hne
  | cons x xs ih =>
    rw [List.getLastD_cons]
    cases xs with
    | nil => simp
    | cons y ys => exact List.mem_cons_of_mem _ (ih (by simp) x)

theorem increase_rhs_iff (L : Nat) (hL : 0 < L) (P : Nat → Prop) (δ : Nat) (hδ : 1 ≤ δ) :
    (∃ c v, δ = 1 + c * L + v ∧ v < L ∧ P v) ↔ P ((δ - 1) % L) := by
  constructor
  · rintro ⟨c, v, hx, hv, hP⟩
    have : δ - 1 = L * c + v := by rw [Nat.mul_comm]; omega
    rw [this, Nat.mul_add_mod, Nat.mod_eq_of_lt hv]
    exact hP
  · intro h
    refine ⟨(δ - 1) / L, (δ - 1) % L, ?_, Nat.mod_lt _ hL, h⟩
    have := Nat.div_add_mod (δ - 1) L
    rw [Nat.mul_comm]; omega

theorem curveN_increase_aux (d : List Nat) (hwf : curveWF d) (L : Nat) (hLd : d.getLastD 0 = L)
    (q v : Nat) (hr : v < L) :
    curveN d (q * L + v) < curveN d (q * L + v + 1) ↔ (v = 0 ∨ v ∈ d) := by
  have hL : 1 ≤ L := hLd ▸ hwf.2.2
  have hclosed : ∀ c t, 1 ≤ t → t ≤ L →
      curveN d (c * L + t) = c * d.length + (1 + countLt d t) := by
    intro c t ht1 ht
    have := curveN_closed d hwf c t ht1 (by rw [hLd]; exact ht)
    rw [hLd] at this
    exact this
  have hN2 := hclosed q (v + 1) (by omega) (by omega)
  rw [Nat.add_assoc, hN2, countLt_succ]
  by_cases hv0 : v = 0
  · subst hv0
    simp only [Nat.add_zero, true_or, iff_true]
    cases q with
    | zero => rw [Nat.zero_mul, curveN_zero]; omega
    | succ q =>
      have e : (q + 1) * L = q * L + L := Nat.succ_mul q L
      have hlt : countLt d L < d.length :=
        countLt_lt_length d hwf.1 L (by rw [hLd]; exact Nat.le_refl _)
      rw [e, hclosed q L hL (Nat.le_refl _), Nat.succ_mul]
      omega
  · rw [hclosed q v (by omega) (by omega)]
    have := List.count_pos_iff (a := v) (l := d)
    simp only [hv0, false_or]
    rw [← this]
    omega

end CurveSteps

open CurveSteps

/-- the positive cumulative sums of `curveDiffs d` are the distinct positive values of `d`;
they sum to the last entry -/
theorem curveDiffs_sum (d : List Nat) (hwf : curveWF d) : sumList (curveDiffs d) = d.getLastD 0 := by
  have := diffsFrom_sum d 0 (zero_cons_sorted d hwf)
  rw [curveDiffs_eq]; omega

theorem curveDiffs_pos (d : List Nat) (hwf : curveWF d) :
    curveDiffs d ≠ [] ∧ ∀ x ∈ curveDiffs d, 0 < x := by
  refine ⟨fun h => ?_, diffsFrom_pos d 0⟩
  have := curveDiffs_sum d hwf
  rw [h] at this
  have := hwf.2.2
  simp only [sumList] at *
  omega

/-- the values `v < last` with `v = 0 ∨ v ∈ d` are exactly the proper partial sums of the diffs -/
theorem CurveSteps.psum_curveDiffs_iff (d : List Nat) (hwf : curveWF d) (v : Nat) :
    (v < d.getLastD 0 ∧ (v = 0 ∨ v ∈ d)) ↔
      ∃ k, k < (curveDiffs d).length ∧ v = psum (curveDiffs d) k := by
  have hs := zero_cons_sorted d hwf
  have hsum := curveDiffs_sum d hwf
  have hpos := curveDiffs_pos d hwf
  constructor
  · rintro ⟨hlt, h0 | hmem⟩
    · exact ⟨0, List.length_pos_iff.2 hpos.1, by rw [psum_zero]; exact h0⟩
    · obtain ⟨k, hk⟩ := diffsFrom_mem_psum d 0 hs v hmem
      rw [← curveDiffs_eq] at hk
      refine ⟨k, ?_, by omega⟩
      apply Nat.lt_of_not_le
      intro hge
      have := psum_ge _ _ hge
      omega
  · rintro ⟨k, hk, rfl⟩
    have h1 := psum_lt _ hpos.2 k hk
    have h2 := diffsFrom_psum_mem d 0 hs k
    rw [← curveDiffs_eq] at h2
    simp only [Nat.zero_add] at h2
    exact ⟨by omega, h2⟩

/-- membership in the step list: `1 + c*last + v` with `v = 0` or `v` a value of `d` below
`last`, cut at `H` -/
theorem mem_curveSteps (d : List Nat) (hwf : curveWF d) (H δ : Nat) :
    δ ∈ curveSteps d H ↔
      δ ≤ H ∧ ∃ c v, δ = 1 + c * d.getLastD 0 + v ∧ v < d.getLastD 0 ∧ (v = 0 ∨ v ∈ d) := by
  have hsum := curveDiffs_sum d hwf
  have hpos := curveDiffs_pos d hwf
  have hn : 0 < (curveDiffs d).length := List.length_pos_iff.2 hpos.1
  rw [curveSteps_eq, mem_curveStepsAux _ hpos.1 hpos.2]
  constructor
  · rintro ⟨i, _, hx, hH⟩
    refine ⟨hH, i / (curveDiffs d).length, psum (curveDiffs d) (i % (curveDiffs d).length), ?_, ?_⟩
    · rw [hx, Nat.zero_add, ← hsum]; rfl
    · exact (psum_curveDiffs_iff d hwf _).2 ⟨_, Nat.mod_lt _ hn, rfl⟩
  · rintro ⟨hH, c, v, hx, hv⟩
    obtain ⟨k, hk, rfl⟩ := (psum_curveDiffs_iff d hwf v).1 hv
    have hval : stepVal (curveDiffs d) ((curveDiffs d).length * c + k) = δ := by
      unfold stepVal
      rw [Nat.mul_add_div hn, Nat.mul_add_mod, Nat.div_eq_of_lt hk, Nat.mod_eq_of_lt hk, hsum, hx]
      simp
    have := stepVal_add_le _ hpos.1 hpos.2 0 ((curveDiffs d).length * c + k)
    rw [stepVal_zero, Nat.zero_add, hval] at this
    exact ⟨(curveDiffs d).length * c + k, by omega, by rw [Nat.zero_add, hval], hH⟩

theorem curveSteps_strict (d : List Nat) (hwf : curveWF d) (H : Nat) :
    (curveSteps d H).Pairwise (· < ·) := by
  have hpos := curveDiffs_pos d hwf
  rw [curveSteps_eq]
  exact curveStepsAux_strict _ hpos.1 hpos.2 H _ _

/-- the increase points of `curveN`: `δ = 1 + c*last + v` with `v = 0` or `v ∈ d`, `v < last` -/
theorem curveN_increase_iff (d : List Nat) (hwf : curveWF d) (δ : Nat)
    (hδ : 1 ≤ δ) :
    curveN d (δ - 1) < curveN d δ ↔
      ∃ c v, δ = 1 + c * d.getLastD 0 + v ∧ v < d.getLastD 0 ∧ (v = 0 ∨ v ∈ d) := by
  have hL := hwf.2.2
  rw [increase_rhs_iff (d.getLastD 0) hL (fun v => v = 0 ∨ v ∈ d) δ hδ]
  have hdm := Nat.div_add_mod (δ - 1) (d.getLastD 0)
  have hr := Nat.mod_lt (δ - 1) hL
  have := curveN_increase_aux d hwf _ rfl ((δ - 1) / d.getLastD 0) ((δ - 1) % d.getLastD 0) hr
  have e1 : (δ - 1) / d.getLastD 0 * d.getLastD 0 + (δ - 1) % d.getLastD 0 = δ - 1 := by
    rw [Nat.mul_comm]; exact hdm
  rw [e1, Nat.sub_add_cancel hδ] at this
  exact this

/-- C11 for `Curve`: exact for every well-formed delta-min vector -/
theorem curve_steps_spec (d : List Nat) (hwf : curveWF d) (H : Nat) :
    StepsSpec (curveN d) H (curveSteps d H) := by
  refine ⟨curveSteps_strict d hwf H, fun δ => ?_⟩
  rw [mem_curveSteps d hwf H δ]
  constructor
  · rintro ⟨hH, c, v, hx, hv⟩
    have h1 : 1 ≤ δ := by omega
    exact ⟨h1, hH, (curveN_increase_iff d hwf δ h1).2 ⟨c, v, hx, hv⟩⟩
  · rintro ⟨h1, hH, hinc⟩
    exact ⟨hH, (curveN_increase_iff d hwf δ h1).1 hinc⟩

/-- finding F3 (fixed): a plateau at the end of the delta-min vector no longer makes
`steps_iter` miss the increase after `δ = last` -/
theorem curve_steps_plateau_exact :
    StepsSpec (curveN [5, 10, 10]) 20 (curveSteps [5, 10, 10] 20) :=
  curve_steps_spec [5, 10, 10] (by decide) 20

end RTA
