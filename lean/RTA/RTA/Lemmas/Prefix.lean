import RTA.Lemmas.Steps
import RTA.Spec.Events
/-! `ArrivalCurvePrefix`: `number_arrivals` and `steps_iter` (C10, C11). -/

namespace RTA
open RTA.Spec

/-! ### the lookup as a plain function on `Nat` -/

/-- `prefixLookup.go` with the accumulator as a number (`none` ↦ `0`) -/
def pfxLk : List (Nat × Nat) → Nat → Nat → Nat
  | [], a, _ => a
  | (d, n) :: rest, a, p => if d ≤ p then pfxLk rest n p else a

/-- job count of the last step (default `a`) -/
def pfxMax (st : List (Nat × Nat)) (a : Nat) : Nat := (st.getLast?.map (·.2)).getD a

/-- strictly increasing in both components, all job counts above `a` -/
def pfxChain (a : Nat) (st : List (Nat × Nat)) : Prop :=
  st.Pairwise (fun x y => x.1 < y.1 ∧ x.2 < y.2) ∧ ∀ s ∈ st, a < s.2

theorem pfxLk_go (st : List (Nat × Nat)) (acc : Option Nat) (p : Nat) :
    (prefixLookup.go p st acc).getD 0 = pfxLk st (acc.getD 0) p := by
  induction st generalizing acc with
  | nil => simp [prefixLookup.go, pfxLk]
  | cons s rest ih =>
    obtain ⟨d, n⟩ := s
    simp only [prefixLookup.go, pfxLk]
    split
    · rw [ih]; rfl
    · rfl

theorem pfxLk_eq (st : List (Nat × Nat)) (p : Nat) :
    (prefixLookup st p).getD 0 = pfxLk st 0 p := by
  unfold prefixLookup
  rw [pfxLk_go]; rfl

theorem pfxMax_cons (d n : Nat) (rest : List (Nat × Nat)) (a : Nat) :
    pfxMax ((d, n) :: rest) a = pfxMax rest n := by
  unfold pfxMax
  cases rest with
  | nil => simp
  | cons s r =>
    rw [List.getLast?_cons_cons]
    cases hl : (s :: r).getLast? with
    | none => simp at hl
    | some v => rfl

theorem pfxChain_tail {a d n : Nat} {rest : List (Nat × Nat)} (hc : pfxChain a ((d, n) :: rest)) :
    pfxChain n rest := by
  obtain ⟨hp, _⟩ := hc
  rw [List.pairwise_cons] at hp
  exact ⟨hp.2, fun s hs => (hp.1 s hs).2⟩

theorem pfxChain_head {a d n : Nat} {rest : List (Nat × Nat)} (hc : pfxChain a ((d, n) :: rest)) :
    a < n := hc.2 (d, n) (List.mem_cons_self)

theorem pfxLk_ge (st : List (Nat × Nat)) (a p : Nat) (hc : pfxChain a st) : a ≤ pfxLk st a p := by
  induction st generalizing a with
  | nil => simp [pfxLk]
  | cons s rest ih =>
    obtain ⟨d, n⟩ := s
    simp only [pfxLk]
    split
    · have := ih n (pfxChain_tail hc)
      have := pfxChain_head hc
      omega
    · omega

theorem pfxLk_mono (st : List (Nat × Nat)) (a p q : Nat) (hc : pfxChain a st) (hpq : p ≤ q) :
    pfxLk st a p ≤ pfxLk st a q := by
  induction st generalizing a with
  | nil => simp [pfxLk]
  | cons s rest ih =>
    obtain ⟨d, n⟩ := s
    simp only [pfxLk]
    by_cases h1 : d ≤ p
    · rw [if_pos h1, if_pos (by omega)]
      exact ih n (pfxChain_tail hc)
    · rw [if_neg h1]
      split
      · have := pfxLk_ge rest n q (pfxChain_tail hc)
        have := pfxChain_head hc
        omega
      · omega

theorem pfxLk_all (st : List (Nat × Nat)) (a p : Nat) (hall : ∀ s ∈ st, s.1 ≤ p) :
    pfxLk st a p = pfxMax st a := by
  induction st generalizing a with
  | nil => simp [pfxLk, pfxMax]
  | cons s rest ih =>
    obtain ⟨d, n⟩ := s
    rw [pfxMax_cons]
    simp only [pfxLk]
    rw [if_pos (hall (d, n) List.mem_cons_self)]
    exact ih n (fun s hs => hall s (List.mem_cons_of_mem _ hs))

/-- the lookup increases exactly at the step deltas -/
theorem pfxLk_inc (st : List (Nat × Nat)) (a p : Nat) (hc : pfxChain a st) (hp : 1 ≤ p) :
    pfxLk st a (p - 1) < pfxLk st a p ↔ ∃ s ∈ st, s.1 = p := by
  induction st generalizing a with
  | nil => simp [pfxLk]
  | cons s rest ih =>
    obtain ⟨d, n⟩ := s
    have hct := pfxChain_tail hc
    have hlt := pfxChain_head hc
    simp only [pfxLk]
    by_cases h1 : d ≤ p - 1
    · rw [if_pos h1, if_pos (by omega), ih n hct]
      constructor
      · rintro ⟨s, hs, e⟩
        exact ⟨s, List.mem_cons_of_mem _ hs, e⟩
      · rintro ⟨s, hs, e⟩
        rw [List.mem_cons] at hs
        rcases hs with hs | hs
        · subst hs; simp at e; omega
        · exact ⟨s, hs, e⟩
    · rw [if_neg h1]
      by_cases h2 : d ≤ p
      · rw [if_pos h2]
        have := pfxLk_ge rest n p hct
        constructor
        · intro _
          exact ⟨(d, n), List.mem_cons_self, by simp; omega⟩
        · intro _; omega
      · rw [if_neg h2]
        constructor
        · intro h; omega
        · rintro ⟨s, hs, e⟩
          rw [List.mem_cons] at hs
          rcases hs with hs | hs
          · subst hs; simp at e; omega
          · have := ((List.pairwise_cons.1 hc.1).1 s hs).1
            simp at this
            omega

/-! ### consequences of well-formedness -/

theorem prefixWF_chain {h : Nat} {st : List (Nat × Nat)} (hwf : prefixWF h st) : pfxChain 0 st := by
  obtain ⟨_, hne, _, h2, hp, _⟩ := hwf
  refine ⟨hp, ?_⟩
  cases st with
  | nil => exact absurd rfl hne
  | cons s rest =>
    simp only [List.headD_cons] at h2
    intro s' hs'
    rw [List.mem_cons] at hs'
    rcases hs' with hs' | hs'
    · subst hs'; omega
    · have := ((List.pairwise_cons.1 hp).1 s' hs').2
      omega

theorem prefixWF_one_mem {h : Nat} {st : List (Nat × Nat)} (hwf : prefixWF h st) :
    ∃ s ∈ st, s.1 = 1 := by
  obtain ⟨_, hne, h1, _, _, _⟩ := hwf
  cases st with
  | nil => exact absurd rfl hne
  | cons s rest => exact ⟨s, List.mem_cons_self, by simpa using h1⟩

theorem prefixWF_delta_pos {h : Nat} {st : List (Nat × Nat)} (hwf : prefixWF h st) :
    ∀ s ∈ st, 1 ≤ s.1 := by
  obtain ⟨_, hne, h1, _, hp, _⟩ := hwf
  cases st with
  | nil => exact absurd rfl hne
  | cons s rest =>
    simp only [List.headD_cons] at h1
    intro s' hs'
    rw [List.mem_cons] at hs'
    rcases hs' with hs' | hs'
    · subst hs'; omega
    · have := ((List.pairwise_cons.1 hp).1 s' hs').1
      omega

theorem pfxLk_zero {h : Nat} {st : List (Nat × Nat)} (hwf : prefixWF h st) : pfxLk st 0 0 = 0 := by
  obtain ⟨_, hne, h1, _, _, _⟩ := hwf
  cases st with
  | nil => exact absurd rfl hne
  | cons s rest =>
    obtain ⟨d, n⟩ := s
    simp only [List.headD_cons] at h1
    simp only [pfxLk]
    rw [if_neg (by omega)]

theorem prefixN_eq (h : Nat) (st : List (Nat × Nat)) (x : Nat) :
    prefixN h st x = pfxMax st 0 * (x / h) +
      (if x % h = 0 then 0 else pfxLk st 0 (x % h)) := by
  unfold prefixN pfxMax
  simp only [pfxLk_eq]

/-- closed form: `N (c * h + p) = maxN * c + lookup p` for `0 ≤ p ≤ h` -/
theorem prefixN_form {h : Nat} {st : List (Nat × Nat)} (hwf : prefixWF h st) (c p : Nat)
    (hp : p ≤ h) : prefixN h st (c * h + p) = pfxMax st 0 * c + pfxLk st 0 p := by
  have hh : 1 ≤ h := hwf.1
  rw [prefixN_eq]
  by_cases hph : p = h
  · subst hph
    have e : c * p + p = (c + 1) * p := by rw [Nat.add_mul]; omega
    rw [e, Nat.mul_mod_left, Nat.mul_div_cancel _ (by omega : 0 < p), if_pos rfl,
      pfxLk_all st 0 p hwf.2.2.2.2.2, Nat.mul_add]
    omega
  · have hlt : p < h := by omega
    have e1 : (c * h + p) / h = c := by
      rw [Nat.mul_comm, Nat.mul_add_div (by omega), Nat.div_eq_of_lt hlt]; omega
    have e2 : (c * h + p) % h = p := by
      rw [Nat.mul_comm, Nat.mul_add_mod, Nat.mod_eq_of_lt hlt]
    rw [e1, e2]
    by_cases hp0 : p = 0
    · subst hp0; rw [if_pos rfl, pfxLk_zero hwf]
    · rw [if_neg hp0]

theorem pfxLk_le_max {h : Nat} {st : List (Nat × Nat)} (hwf : prefixWF h st) (p : Nat) :
    pfxLk st 0 p ≤ pfxMax st 0 := by
  have h1 := pfxLk_mono st 0 p (max p h) (prefixWF_chain hwf) (by omega)
  have h2 := pfxLk_all st 0 (max p h) (fun s hs => by have := hwf.2.2.2.2.2 s hs; omega)
  omega

theorem pfxLk_pos {h : Nat} {st : List (Nat × Nat)} (hwf : prefixWF h st) (p : Nat) (hp : 1 ≤ p) :
    0 < pfxLk st 0 p := by
  have h1 := (pfxLk_inc st 0 1 (prefixWF_chain hwf) (by omega)).2 (prefixWF_one_mem hwf)
  have h2 := pfxLk_mono st 0 1 p (prefixWF_chain hwf) hp
  omega

/-! ### `number_arrivals` -/

theorem prefixN_zero (h : Nat) (st : List (Nat × Nat)) : prefixN h st 0 = 0 := by
  unfold prefixN
  simp

theorem prefixN_mono (h : Nat) (st : List (Nat × Nat)) (hwf : prefixWF h st) :
    MonoN (prefixN h st) := by
  intro a b hab
  have hh : 1 ≤ h := hwf.1
  have ea := Nat.div_add_mod a h
  have eb := Nat.div_add_mod b h
  have la := Nat.mod_lt a (by omega : 0 < h)
  have lb := Nat.mod_lt b (by omega : 0 < h)
  have fa := prefixN_form hwf (a / h) (a % h) (by omega)
  have fb := prefixN_form hwf (b / h) (b % h) (by omega)
  rw [Nat.mul_comm (a / h) h, ea] at fa
  rw [Nat.mul_comm (b / h) h, eb] at fb
  rw [fa, fb]
  have hq : a / h ≤ b / h := Nat.div_le_div_right hab
  rcases Nat.eq_or_lt_of_le hq with hq | hq
  · have hpq : a % h ≤ b % h := by
      rw [← hq] at eb; omega
    have := pfxLk_mono st 0 _ _ (prefixWF_chain hwf) hpq
    rw [hq]; omega
  · obtain ⟨e, he⟩ : ∃ e, b / h = a / h + 1 + e := ⟨b / h - (a / h) - 1, by omega⟩
    have := pfxLk_le_max hwf (a % h)
    rw [he, Nat.mul_add, Nat.mul_add]
    omega

theorem prefixN_pos (h : Nat) (st : List (Nat × Nat)) (hwf : prefixWF h st) (x : Nat) (hx : 1 ≤ x) :
    0 < prefixN h st x := by
  have := prefixN_form hwf 0 1 hwf.1
  have h1 := pfxLk_pos hwf 1 (by omega)
  have hm := prefixN_mono h st hwf 1 x hx
  simp only [Nat.zero_mul, Nat.zero_add, Nat.mul_zero] at this
  omega

/-! ### C10 -/

theorem pfx_cnt_cons (r : Nat) (rs : List Nat) (t Δ : Nat) :
    cnt (r :: rs) t Δ = (if t ≤ r ∧ r < t + Δ then 1 else 0) + cnt rs t Δ := by
  unfold cnt
  rw [List.filter_cons]
  by_cases h : t ≤ r ∧ r < t + Δ
  · simp [h]; omega
  · rw [if_neg h, if_neg (by simpa using h)]; omega

/-- `cnt` is additive over adjacent windows -/
theorem cnt_add (rels : List Nat) (t a b : Nat) :
    cnt rels t (a + b) = cnt rels t a + cnt rels (t + a) b := by
  induction rels with
  | nil => rfl
  | cons r rs ih =>
    rw [pfx_cnt_cons, pfx_cnt_cons, pfx_cnt_cons, ih]
    by_cases h1 : t ≤ r ∧ r < t + a
    · rw [if_pos h1, if_pos (by omega), if_neg (by omega)]; omega
    · rw [if_neg h1]
      by_cases h2 : t + a ≤ r ∧ r < t + a + b
      · rw [if_pos h2, if_pos (by omega)]; omega
      · rw [if_neg h2, if_neg (by omega)]; omega

theorem prefix_bounds_aux (h : Nat) (st : List (Nat × Nat)) (hwf : prefixWF h st) (rels : List Nat)
    (hadm : ∀ t x, x ≤ h → cnt rels t x ≤ prefixN h st x) (c : Nat) :
    ∀ t p, p ≤ h → cnt rels t (c * h + p) ≤ pfxMax st 0 * c + pfxLk st 0 p := by
  induction c with
  | zero =>
    intro t p hp
    have := hadm t p hp
    have f := prefixN_form hwf 0 p hp
    simp only [Nat.zero_mul, Nat.zero_add, Nat.mul_zero] at f ⊢
    omega
  | succ c ih =>
    intro t p hp
    have e : (c + 1) * h + p = h + (c * h + p) := by rw [Nat.add_mul]; omega
    rw [e, cnt_add]
    have h1 := hadm t h (Nat.le_refl h)
    have f := prefixN_form hwf 1 0 (Nat.zero_le h)
    rw [pfxLk_zero hwf] at f
    simp only [Nat.one_mul, Nat.add_zero, Nat.mul_one] at f
    have h2 := ih (t + h) p hp
    rw [Nat.mul_add]
    omega

/-- C10 for `ArrivalCurvePrefix`: a sequence that obeys the curve inside the horizon obeys the
(pessimistically) extended curve everywhere -/
theorem prefix_bounds (h : Nat) (st : List (Nat × Nat)) (hwf : prefixWF h st) (rels : List Nat)
    (hadm : ∀ t x, x ≤ h → cnt rels t x ≤ prefixN h st x) (t x : Nat) :
    cnt rels t x ≤ prefixN h st x := by
  have hh : 1 ≤ h := hwf.1
  have ex := Nat.div_add_mod x h
  have lx := Nat.mod_lt x (by omega : 0 < h)
  have f := prefixN_form hwf (x / h) (x % h) (by omega)
  have b := prefix_bounds_aux h st hwf rels hadm (x / h) t (x % h) (by omega)
  rw [Nat.mul_comm (x / h) h, ex] at f b
  omega

/-! ### C11 -/

theorem pfx_takeWhile_all (M : List Nat) (H : Nat) (hall : ∀ x ∈ M, x ≤ H) :
    M.takeWhile (· ≤ H) = M := by
  induction M with
  | nil => rfl
  | cons m rest ih =>
    have hm : m ≤ H := hall m List.mem_cons_self
    rw [List.takeWhile_cons_of_pos (by simpa using hm),
      ih (fun x hx => hall x (List.mem_cons_of_mem _ hx))]

theorem pfx_takeWhile_full (M : List Nat) (H : Nat) :
    (M.takeWhile (· ≤ H)).length = M.length ↔ ∀ x ∈ M, x ≤ H := by
  constructor
  · intro hl
    have hp : M.takeWhile (· ≤ H) <+: M := List.takeWhile_prefix _
    have heq := hp.eq_of_length hl
    have hall : (M.takeWhile (· ≤ H)).all (· ≤ H) = true := List.all_takeWhile
    rw [heq, List.all_eq_true] at hall
    intro x hx
    simpa using hall x hx
  · intro hall
    rw [pfx_takeWhile_all M H hall]

/-- on a sorted list `takeWhile (· ≤ H)` is `filter (· ≤ H)` -/
theorem pfx_mem_takeWhile (M : List Nat) (H : Nat) (hs : M.Pairwise (· < ·)) (x : Nat) :
    x ∈ M.takeWhile (· ≤ H) ↔ x ∈ M ∧ x ≤ H := by
  induction M with
  | nil => simp
  | cons m rest ih =>
    rw [List.pairwise_cons] at hs
    rw [List.takeWhile_cons]
    by_cases hm : m ≤ H
    · simp only [hm, decide_true, if_true, List.mem_cons, ih hs.2]
      constructor
      · rintro (e | ⟨h1, h2⟩)
        · subst e; exact ⟨Or.inl rfl, hm⟩
        · exact ⟨Or.inr h1, h2⟩
      · rintro ⟨e | h1, h2⟩
        · exact Or.inl e
        · exact Or.inr ⟨h1, h2⟩
    · simp only [hm, decide_false, Bool.false_eq_true, if_false, List.not_mem_nil, false_iff,
        List.mem_cons]
      rintro ⟨e | h1, h2⟩
      · subst e; exact hm h2
      · have := hs.1 x h1; omega

theorem pfx_map_sorted {h : Nat} {st : List (Nat × Nat)} (hwf : prefixWF h st) (k : Nat) :
    (st.map fun s => s.1 + k).Pairwise (· < ·) := by
  rw [List.pairwise_map]
  exact hwf.2.2.2.2.1.imp (fun hab => by omega)

theorem pfx_aux_mem {h : Nat} {st : List (Nat × Nat)} (hwf : prefixWF h st) (H : Nat)
    (fuel : Nat) : ∀ cycle δ, δ ∈ prefixStepsAux h st H fuel cycle ↔
      δ ≤ H ∧ ∃ c s, cycle ≤ c ∧ c < cycle + fuel ∧ s ∈ st ∧ δ = s.1 + h * c := by
  induction fuel with
  | zero =>
    intro cycle δ
    simp only [prefixStepsAux, List.not_mem_nil, false_iff]
    rintro ⟨_, c, s, h1, h2, _⟩
    omega
  | succ fuel ih =>
    intro cycle δ
    have hsorted := pfx_map_sorted hwf (h * cycle)
    have hmemM : ∀ y, y ∈ (st.map fun s => s.1 + h * cycle) ↔ ∃ s ∈ st, y = s.1 + h * cycle := by
      intro y
      rw [List.mem_map]
      constructor
      · rintro ⟨s, hs, e⟩; exact ⟨s, hs, e.symm⟩
      · rintro ⟨s, hs, e⟩; exact ⟨s, hs, e.symm⟩
    have hlen : (st.map fun s => s.1 + h * cycle).length = st.length := List.length_map _
    simp only [prefixStepsAux]
    by_cases hall : ∀ x ∈ (st.map fun s => s.1 + h * cycle), x ≤ H
    · have hfull := (pfx_takeWhile_full _ H).2 hall
      rw [hlen] at hfull
      rw [if_pos hfull, List.mem_append, pfx_mem_takeWhile _ H hsorted, ih, hmemM]
      constructor
      · rintro (⟨⟨s, hs, e⟩, hH⟩ | ⟨hH, c, s, h1, h2, hs, e⟩)
        · exact ⟨hH, cycle, s, Nat.le_refl _, by omega, hs, e⟩
        · exact ⟨hH, c, s, by omega, by omega, hs, e⟩
      · rintro ⟨hH, c, s, h1, h2, hs, e⟩
        by_cases hc : c = cycle
        · subst hc; exact Or.inl ⟨⟨s, hs, e⟩, hH⟩
        · exact Or.inr ⟨hH, c, s, by omega, by omega, hs, e⟩
    · have hnf : ¬ ((st.map fun s => s.1 + h * cycle).takeWhile (· ≤ H)).length = st.length := by
        rw [← hlen, pfx_takeWhile_full]; exact hall
      rw [if_neg hnf, pfx_mem_takeWhile _ H hsorted, hmemM]
      constructor
      · rintro ⟨⟨s, hs, e⟩, hH⟩
        exact ⟨hH, cycle, s, Nat.le_refl _, by omega, hs, e⟩
      · rintro ⟨hH, c, s, h1, h2, hs, e⟩
        refine ⟨?_, hH⟩
        by_cases hc : c = cycle
        · subst hc; exact ⟨s, hs, e⟩
        · exfalso
          apply hall
          intro x hx
          obtain ⟨s', hs', e'⟩ := (hmemM x).1 hx
          have b1 := hwf.2.2.2.2.2 s' hs'
          have b2 := prefixWF_delta_pos hwf s hs
          obtain ⟨k, hk⟩ : ∃ k, c = cycle + 1 + k := ⟨c - cycle - 1, by omega⟩
          rw [hk, Nat.mul_add, Nat.mul_add, Nat.mul_one] at e
          omega

theorem pfx_aux_sorted {h : Nat} {st : List (Nat × Nat)} (hwf : prefixWF h st) (H : Nat)
    (fuel : Nat) : ∀ cycle, (prefixStepsAux h st H fuel cycle).Pairwise (· < ·) := by
  induction fuel with
  | zero => intro cycle; simp [prefixStepsAux]
  | succ fuel ih =>
    intro cycle
    have hsorted := pfx_map_sorted hwf (h * cycle)
    have hcur : ((st.map fun s => s.1 + h * cycle).takeWhile (· ≤ H)).Pairwise (· < ·) :=
      hsorted.sublist (List.takeWhile_sublist _)
    simp only [prefixStepsAux]
    split
    · rw [List.pairwise_append]
      refine ⟨hcur, ih (cycle + 1), ?_⟩
      intro a ha b hb
      have ha' := (List.takeWhile_sublist _).mem ha
      rw [List.mem_map] at ha'
      obtain ⟨s, hs, ea⟩ := ha'
      obtain ⟨_, c, s', h1, _, hs', eb⟩ := (pfx_aux_mem hwf H fuel (cycle + 1) b).1 hb
      have b1 := hwf.2.2.2.2.2 s hs
      have b2 := prefixWF_delta_pos hwf s' hs'
      obtain ⟨k, hk⟩ : ∃ k, c = cycle + 1 + k := ⟨c - cycle - 1, by omega⟩
      rw [hk, Nat.mul_add, Nat.mul_add, Nat.mul_one] at eb
      omega
    · exact hcur

/-- the increase points of `prefixN` are the step deltas shifted by whole horizons -/
theorem prefixN_inc {h : Nat} {st : List (Nat × Nat)} (hwf : prefixWF h st) (δ : Nat) (hδ : 1 ≤ δ) :
    prefixN h st (δ - 1) < prefixN h st δ ↔ ∃ c s, s ∈ st ∧ δ = s.1 + h * c := by
  have hh : 1 ≤ h := hwf.1
  have key : ∀ c p, 1 ≤ p → p ≤ h →
      (prefixN h st (c * h + p - 1) < prefixN h st (c * h + p) ↔ ∃ s ∈ st, s.1 = p) := by
    intro c p hp1 hp2
    have e : c * h + p - 1 = c * h + (p - 1) := by omega
    rw [e, prefixN_form hwf c p hp2, prefixN_form hwf c (p - 1) (by omega),
      ← pfxLk_inc st 0 p (prefixWF_chain hwf) hp1]
    omega
  constructor
  · intro hlt
    have ed := Nat.div_add_mod (δ - 1) h
    have ld := Nat.mod_lt (δ - 1) (by omega : 0 < h)
    have e : δ = (δ - 1) / h * h + ((δ - 1) % h + 1) := by
      rw [Nat.mul_comm]; omega
    rw [e] at hlt
    obtain ⟨s, hs, es⟩ := (key ((δ - 1) / h) ((δ - 1) % h + 1) (by omega) (by omega)).1 hlt
    refine ⟨(δ - 1) / h, s, hs, ?_⟩
    rw [es]; omega
  · rintro ⟨c, s, hs, e⟩
    have b1 := hwf.2.2.2.2.2 s hs
    have b2 := prefixWF_delta_pos hwf s hs
    have e' : δ = c * h + s.1 := by rw [Nat.mul_comm]; omega
    rw [e']
    exact (key c s.1 b2 b1).2 ⟨s, hs, rfl⟩

/-- C11 for `ArrivalCurvePrefix`: apart from the leading `0` (finding K1) the iterator is exact -/
theorem prefix_steps_spec0 (h : Nat) (st : List (Nat × Nat)) (hwf : prefixWF h st) (H : Nat) :
    StepsSpec0 (prefixN h st) H (prefixSteps h st H) := by
  have hh : 1 ≤ h := hwf.1
  unfold prefixSteps
  refine ⟨?_, fun δ hδ => ?_⟩
  · rw [List.pairwise_cons]
    refine ⟨fun b hb => ?_, pfx_aux_sorted hwf H (H + 1) 0⟩
    obtain ⟨_, c, s, _, _, hs, e⟩ := (pfx_aux_mem hwf H (H + 1) 0 b).1 hb
    have := prefixWF_delta_pos hwf s hs
    omega
  · rw [List.mem_cons, pfx_aux_mem hwf H (H + 1) 0 δ, prefixN_inc hwf δ hδ]
    constructor
    · rintro (e | ⟨hH, c, s, _, _, hs, e⟩)
      · omega
      · exact ⟨hH, c, s, hs, e⟩
    · rintro ⟨hH, c, s, hs, e⟩
      refine Or.inr ⟨hH, c, s, Nat.zero_le _, ?_, hs, e⟩
      have : c ≤ h * c := Nat.le_mul_of_pos_left c (by omega)
      omega

/-- finding K1: the iterator yields 0, which is not an increase point and is not `≥ 1` -/
theorem prefix_steps_yield_zero (h : Nat) (st : List (Nat × Nat)) (H : Nat) :
    0 ∈ prefixSteps h st H := by
  unfold prefixSteps
  exact List.mem_cons_self

end RTA
