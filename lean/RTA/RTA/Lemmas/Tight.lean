import RTA.Lemmas.FifoSound
/-! C18: tightness of the FIFO bound — for task sets whose arrival curves are realised by
one release sequence (periodic, sporadic with jitter, …) there is a legal FIFO schedule in
which some job has a response time equal to the bound. -/

open Finset

namespace RTA.Sched
open RTA RTA.Spec

/-- a job set: task, release, cost of each of `n` jobs -/
structure JobSet where
  n : ℕ
  task : ℕ → ℕ
  arr : ℕ → ℕ
  cost : ℕ → ℕ

/-- the system consisting of a job set and a schedule (no non-preemptive states) -/
def JobSet.withSched (js : JobSet) (sched : ℕ → Option ℕ) : Sys :=
  { n := js.n, task := js.task, arr := js.arr, cost := js.cost, np := fun _ _ => False, sched := sched }

/-- every job set (with positive costs) has a legal FIFO schedule -/
theorem exists_fifo_schedule (js : JobSet) (hpos : ∀ k, k < js.n → 1 ≤ js.cost k) :
    ∃ sched, FifoLegal (js.withSched sched) := by
  sorry

/-- lower bound valid in EVERY legal FIFO schedule: if the jobs released in `[0, A]` have
total cost `W`, nothing is released before time 0 … (trivially) and the processor serves one
unit per slot, then among the jobs released exactly at `A` the one completing last completes
no earlier than `W`; hence some job released at `A` has response time at least `W - A` -/
theorem fifo_response_lower_bound (s : Sys) (hl : FifoLegal s) (A : ℕ)
    (hex : ∃ j, j < s.n ∧ s.arr j = A) (hpos : ∀ k, k < s.n → 1 ≤ s.cost k) :
    ∃ j, j < s.n ∧ s.arr j = A ∧ ∀ R, MeetsBound s j R → work s 0 (A + 1) ≤ A + R := by
  sorry

/-- the release sequence `rels` realises the arrival model from time 0: the number of
releases in `[0, Δ)` is exactly `number_arrivals(Δ)`, for every `Δ` up to `H` -/
def RealisesUpTo (a : Arr) (rels : List ℕ) (H : ℕ) : Prop := ∀ Δ, Δ ≤ H → cnt rels 0 Δ = a.N Δ

/-- the critical-instant sequence of a sporadic task with jitter, shifted to start at 0 -/
def criticalFromZero (T J n : ℕ) : List ℕ := (List.range n).map fun k => k * T - J

theorem criticalFromZero_admissible (T J n : ℕ) (hT : 1 ≤ T) :
    Admissible (.sporadic T J) (criticalFromZero T J n) := by
  sorry

theorem criticalFromZero_realises (T J n H : ℕ) (hT : 1 ≤ T) (hn : (Arr.sporadic T J).N H ≤ n) :
    RealisesUpTo (.sporadic T J) (criticalFromZero T J n) H := by
  sorry

/-- C18 for FIFO: if every task's releases realise its arrival curve up to the busy-window
length, all jobs execute for their scalar WCET, and the analysis returns `Ok(R)` with
`R > 0`, then in EVERY legal FIFO schedule of that job set some job has response time
exactly `R` (and by `exists_fifo_schedule` such a schedule exists) -/
theorem fifo_bound_attained (s : Sys) (hl : FifoLegal s) (ts : List (Arr × ℕ))
    (hwf : ∀ p ∈ ts, p.1.WF ∧ p.1.Exact ∧ 1 ≤ p.2)
    (hc : Compliant s (ts.map fun p => (p.1, Cost.scalar p.2)))
    (hcost : ∀ k, k < s.n → s.cost k = (ts.getD (s.task k) default).2)
    (limit R L : ℕ) (hR : fifoRta (taskSetRB (ts.map fun p => (p.1, Cost.scalar p.2))) limit = .ok R)
    (hL : naiveSolve (fun x => (taskSetRB (ts.map fun p => (p.1, Cost.scalar p.2))).need x) limit = .ok L)
    (hreal : ∀ i, i < ts.length → RealisesUpTo (ts.getD i default).1 (relsOf s i) L) (hRpos : 0 < R) :
    ∃ j, j < s.n ∧ MeetsBound s j R ∧ ∀ R', R' < R → ¬ MeetsBound s j R' := by
  sorry

end RTA.Sched
